import JumanjiModel.Env.Snake.Model
import JumanjiModel.Env.Snake.GridLemmas
namespace Snake
open Jm Jx

theorem clip0_zero : clip0 0 = 0 := by decide

theorem clip0_pos (x : Int) : clip0 x > 0 ↔ ¬ x ≤ 1 := by
  unfold clip0; split <;> omega

theorem get_clip0 (bs : Grid Int) (r c : Nat) :
    Grid.get (Grid.map clip0 bs) 0 r c = clip0 (Grid.get bs 0 r c) := by
  have := Grid.l_get_map clip0 bs 0 r c
  rwa [clip0_zero] at this

/-- the per-move test of `_get_action_mask` says: target inside the grid and not a body cell that stays -/
theorem isValidMove_iff (cfg : Cfg) (head : Pos) (bs : Grid Int) (m : Int × Int)
    (hs : Grid.shaped bs cfg.rows cfg.cols = true) :
    isValidMove cfg head bs m = true ↔
      inGrid cfg (head.row + m.1) (head.col + m.2) ∧ cell bs (head.row + m.1) (head.col + m.2) ≤ 1 := by
  unfold isValidMove inGrid
  simp only []
  by_cases hin : 0 ≤ head.row + m.1 ∧ head.row + m.1 < cfg.rows ∧ 0 ≤ head.col + m.2 ∧ head.col + m.2 < cfg.cols
  · obtain ⟨h1, h2, h3, h4⟩ := hin
    have hs' : Grid.shaped (Grid.map clip0 bs) cfg.rows cfg.cols = true := by rw [Grid.l_shaped_map]; exact hs
    rw [Grid.l_getWC_inrange hs' 0 h1 h2 h3 h4, get_clip0]
    have := clip0_pos (Grid.get bs 0 (head.row + m.1).toNat (head.col + m.2).toNat)
    unfold cell
    simp only [Bool.and_eq_true, Bool.not_eq_true', Bool.or_eq_false_iff, decide_eq_false_iff_not, decide_eq_true_eq]
    constructor
    · intro h; refine ⟨⟨h1, h2, h3, h4⟩, ?_⟩; omega
    · intro h; refine ⟨⟨⟨⟨by omega, by omega⟩, by omega⟩, by omega⟩, ?_⟩; omega
  · constructor
    · intro h
      simp only [Bool.and_eq_true, Bool.not_eq_true', Bool.or_eq_false_iff, decide_eq_false_iff_not] at h
      exfalso; apply hin; omega
    · intro h; exact absurd h.1 hin

theorem target_eq (s : State) {a : Nat} (ha : a < 4) :
    target s a = (s.head.row + (moveOf a).1, s.head.col + (moveOf a).2) := by
  have : a = 0 ∨ a = 1 ∨ a = 2 ∨ a = 3 := by omega
  rcases this with rfl | rfl | rfl | rfl <;>
    simp [target, moveOf, moves, getWC, clampIdx, wrapIdx] <;> omega

theorem mask_getD (cfg : Cfg) (head : Pos) (bs : Grid Int) {a : Nat} (ha : a < 4) :
    (getActionMask cfg head bs).getD a false = isValidMove cfg head bs (moveOf a) := by
  have : a = 0 ∨ a = 1 ∨ a = 2 ∨ a = 3 := by omega
  rcases this with rfl | rfl | rfl | rfl <;>
    simp [getActionMask, moves, moveOf, getWC, clampIdx, wrapIdx]

/-- C04: the mask computed by `_get_action_mask` is exactly the set of legal moves -/
theorem mask_iff_legal (cfg : Cfg) (s : State) (a : Nat) (ha : a < 4)
    (hs : Grid.shaped s.bodyState cfg.rows cfg.cols = true) :
    (getActionMask cfg s.head s.bodyState).getD a false = true ↔ legal cfg s a := by
  rw [mask_getD cfg s.head s.bodyState ha, isValidMove_iff cfg s.head s.bodyState _ hs]
  unfold legal
  rw [target_eq s ha]
  simp [ha]

theorem mask_eq_legalMask (cfg : Cfg) (s : State)
    (hs : Grid.shaped s.bodyState cfg.rows cfg.cols = true) :
    getActionMask cfg s.head s.bodyState = legalMask cfg s := by
  apply List.ext_getElem
  · simp [getActionMask, legalMask, moves]
  · intro a h1 h2
    have ha : a < 4 := by simpa [legalMask] using h2
    have := mask_iff_legal cfg s a ha hs
    rw [List.getD_eq_getElem?_getD, List.getElem?_eq_getElem h1] at this
    simp only [Option.getD_some] at this
    simp only [legalMask, List.getElem_map, List.getElem_range]
    by_cases hl : legal cfg s a
    · simp [hl, this.2 hl]
    · have : (getActionMask cfg s.head s.bodyState)[a] = false := by
        cases hh : (getActionMask cfg s.head s.bodyState)[a]
        · rfl
        · exact absurd (this.1 hh) hl
      simp only [hl, decide_false]; exact this

/-- head position after the move -/
def headAfter (s : State) (a : Int) : Pos := ⟨s.head.row + (moveOf a).1, s.head.col + (moveOf a).2⟩
/-- `fruit_eaten` -/
def eatenB (s : State) (a : Int) : Bool :=
  decide ((headAfter s a).row = s.fruit.row) && decide ((headAfter s a).col = s.fruit.col)
/-- `body_state` after the move -/
def bsAfter (s : State) (a : Int) : Grid Int :=
  Grid.setWD (if eatenB s a then s.bodyState else Grid.map clip0 s.bodyState)
    (headAfter s a).row (headAfter s a).col (s.length + (if eatenB s a then 1 else 0))

theorem step_fst (rnd : Rat → Rat) (cfg : Cfg) (s : State) (a : Int) (d : Nat) :
    (step rnd cfg s a d).1 =
      { body := Grid.map (fun x => decide (x > 0)) (bsAfter s a), bodyState := bsAfter s a,
        head := headAfter s a, tail := Grid.map (fun x => decide (x = 1)) (bsAfter s a),
        fruit := if eatenB s a then fruitOfDraw cfg d else s.fruit,
        length := s.length + (if eatenB s a then 1 else 0), stepCount := s.stepCount + 1,
        actionMask := getActionMask cfg (headAfter s a) (bsAfter s a) } := rfl

theorem condLast_reward {O : Type} (dn : Bool) (r : List Rat) (o : O) : (condLast dn r o).reward = r := by
  unfold condLast termination transition; split <;> rfl
theorem condLast_obs {O : Type} (dn : Bool) (r : List Rat) (o : O) : (condLast dn r o).obs = o := by
  unfold condLast termination transition; split <;> rfl
theorem condLast_type {O : Type} (dn : Bool) (r : List Rat) (o : O) :
    (condLast dn r o).stepType = if dn then .last else .mid := by
  unfold condLast termination transition; split <;> simp_all
theorem condLast_discount_last {O : Type} (r : List Rat) (o : O) : (condLast true r o).discount = [0] := by
  simp [condLast, termination, zerosR, RShape.size]

theorem step_reward (rnd : Rat → Rat) (cfg : Cfg) (s : State) (a : Int) (d : Nat) :
    (step rnd cfg s a d).2.reward = [if eatenB s a then 1 else 0] := by
  show (condLast _ _ _).reward = _
  rw [condLast_reward]; rfl

theorem step_obs (rnd : Rat → Rat) (cfg : Cfg) (s : State) (a : Int) (d : Nat) :
    (step rnd cfg s a d).2.obs = stateToObs rnd (step rnd cfg s a d).1 := by
  show (condLast _ _ _).obs = _
  rw [condLast_obs]; rfl

theorem step_type (rnd : Rat → Rat) (cfg : Cfg) (s : State) (a : Int) (d : Nat) :
    (step rnd cfg s a d).2.stepType =
      if (!(getWC s.actionMask false a) || Grid.all id (step rnd cfg s a d).1.body ||
          decide (s.stepCount + 1 ≥ cfg.timeLimit)) then .last else .mid := by
  show (condLast _ _ _).stepType = _
  rw [condLast_type]; rfl

/-- C04 (cached mask): the mask stored in the successor is `_get_action_mask` of the successor -/
theorem cached_mask (rnd : Rat → Rat) (cfg : Cfg) (s : State) (a : Int) (d : Nat) :
    (step rnd cfg s a d).1.actionMask =
      getActionMask cfg (step rnd cfg s a d).1.head (step rnd cfg s a d).1.bodyState := rfl

theorem legalMask_getD (cfg : Cfg) (s : State) {a : Nat} (ha : a < 4) :
    (legalMask cfg s).getD a false = decide (legal cfg s a) := by
  have : a = 0 ∨ a = 1 ∨ a = 2 ∨ a = 3 := by omega
  rcases this with rfl | rfl | rfl | rfl <;> simp [legalMask, List.range, List.range.loop]

/-- C04 (step agrees): with a correct cached mask, `step` treats an action as valid iff it is legal -/
theorem step_agrees (cfg : Cfg) (s : State) (a : Nat) (ha : a < 4) (hm : s.actionMask = legalMask cfg s) :
    getWC s.actionMask false (a : Int) = true ↔ legal cfg s a := by
  rw [hm, Jx.getWC_nat _ _ (by simp [legalMask]; exact ha), legalMask_getD cfg s ha]
  simp

theorem eatenB_eq (s : State) {a : Nat} (ha : a < 4) : eatenB s a = eats s a := by
  unfold eatenB eats headAfter
  rw [target_eq s ha]

/-- C05: an illegal move ends the episode; with the fruit on a free cell of the board its reward is 0 -/
theorem illegal_terminates (rnd : Rat → Rat) (cfg : Cfg) (s : State) (a : Nat) (d : Nat) (ha : a < 4)
    (hm : s.actionMask = legalMask cfg s) (h : ¬ legal cfg s a) :
    (step rnd cfg s a d).2.stepType = .last ∧ (step rnd cfg s a d).2.discount = [0] ∧
    (inGrid cfg s.fruit.row s.fruit.col → cell s.bodyState s.fruit.row s.fruit.col = 0 →
      (step rnd cfg s a d).2.reward = [0]) := by
  have hv : getWC s.actionMask false (a : Int) = false := by
    cases hh : getWC s.actionMask false (a : Int)
    · rfl
    · exact absurd ((step_agrees cfg s a ha hm).1 hh) h
  refine ⟨by rw [step_type]; simp [hv], ?_, ?_⟩
  · show (condLast _ _ _).discount = _
    simp only [hv, Bool.not_false, Bool.true_or]
    exact condLast_discount_last _ _
  · intro hin hfree
    rw [step_reward, eatenB_eq s ha]
    have : eats s a = false := by
      cases he : eats s a
      · rfl
      · exfalso; apply h
        unfold eats at he
        simp only [Bool.and_eq_true, decide_eq_true_eq] at he
        refine ⟨ha, ?_, ?_⟩
        · rw [he.1, he.2]; exact hin
        · rw [he.1, he.2, hfree]; decide
    simp [this]

/-- C08: the length grows by exactly the reward -/
theorem length_telescopes (rnd : Rat → Rat) (cfg : Cfg) (s : State) (a : Int) (d : Nat) :
    (((step rnd cfg s a d).1.length : Int) : Rat) = (s.length : Rat) + (step rnd cfg s a d).2.reward.sum := by
  rw [step_reward, step_fst]
  simp only []
  cases eatenB s a <;> simp [Rat.intCast_add, Rat.add_zero]

/-- C11: the step counter advances by one; reaching the time limit ends the episode -/
theorem step_count (rnd : Rat → Rat) (cfg : Cfg) (s : State) (a : Int) (d : Nat) :
    (step rnd cfg s a d).1.stepCount = s.stepCount + 1 ∧
    (s.stepCount + 1 ≥ cfg.timeLimit → (step rnd cfg s a d).2.stepType = .last) := by
  refine ⟨rfl, ?_⟩
  intro h
  rw [step_type]; simp [h]


theorem grid_map_map {α β γ : Type} (f : β → γ) (g : α → β) (x : Grid α) :
    Grid.map f (Grid.map g x) = Grid.map (f ∘ g) x := by
  unfold Grid.map; simp [List.map_map, Function.comp_def]

/-- a mapped well-shaped grid is the table of the mapped entries -/
theorem map_eq_table {α β : Type} (f : α → β) (g : Grid α) (d : α) {nr nc : Nat}
    (hs : Grid.shaped g nr nc = true) :
    Grid.map f g = (List.range nr).map (fun r => (List.range nc).map (fun c => f (Grid.get g d r c))) := by
  have h1 : Grid.shaped (Grid.map f g) nr nc = true := by rw [Grid.l_shaped_map]; exact hs
  rw [Grid.l_eq_table h1 (f d)]
  simp only [Grid.l_get_map]

theorem int_pos_iff {r c : Nat} {p : Pos} (h1 : 0 ≤ p.row) (h2 : 0 ≤ p.col) :
    (r = p.row.toNat ∧ c = p.col.toNat) ↔ ((r : Int) = p.row ∧ (c : Int) = p.col) := by
  constructor <;> intro h <;> constructor <;> omega

/-- the marker plane `zeros_like(body).at[pos].set(True)` for a position inside the board -/
theorem marker_plane (cfg : Cfg) (body : Grid Bool) (p : Pos) (hb : Grid.shaped body cfg.rows cfg.cols = true)
    (hp : inGrid cfg p.row p.col) :
    Grid.map b2r (Grid.setWD (Grid.map (fun _ => false) body) p.row p.col true) =
      (List.range cfg.rows).map (fun (r : Nat) => (List.range cfg.cols).map (fun (c : Nat) =>
        b2r (decide ((r : Int) = p.row ∧ (c : Int) = p.col)))) := by
  obtain ⟨h1, h2, h3, h4⟩ := hp
  have hz : Grid.shaped (Grid.map (fun _ => false) body) cfg.rows cfg.cols = true := by
    rw [Grid.l_shaped_map]; exact hb
  rw [Grid.l_setWD_inrange hz true h1 h2 h3 h4]
  rw [map_eq_table b2r _ false (Grid.l_shaped_set hz true _ _)]
  apply List.map_congr_left; intro r _
  apply List.map_congr_left; intro c _
  rw [Grid.l_get_set hz true false (by omega : p.row.toNat < cfg.rows) (by omega : p.col.toNat < cfg.cols)]
  have hg : Grid.get (Grid.map (fun _ => false) body) false r c = false := by
    have := Grid.l_get_map (fun (_ : Bool) => false) body true r c
    simpa using this
  rw [hg]
  by_cases h : r = p.row.toNat ∧ c = p.col.toNat
  · have h' := (int_pos_iff h1 h3).1 h
    rw [if_pos h, decide_eq_true h']
  · have h' : ¬ ((r : Int) = p.row ∧ (c : Int) = p.col) := fun e => h ((int_pos_iff h1 h3).2 e)
    rw [if_neg h, decide_eq_false h']

/-- C12: for a state whose derived fields agree with `body_state` and whose head and fruit are inside
the board, `_state_to_observation` shows exactly the five documented planes, the step count and the
set of legal moves -/
theorem obs_eq (rnd : Rat → Rat) (cfg : Cfg) (t : State)
    (hs : Grid.shaped t.bodyState cfg.rows cfg.cols = true)
    (hbody : t.body = Grid.map (fun x => decide (x > 0)) t.bodyState)
    (htail : t.tail = Grid.map (fun x => decide (x = 1)) t.bodyState)
    (hh : inGrid cfg t.head.row t.head.col) (hfr : inGrid cfg t.fruit.row t.fruit.col)
    (hm : t.actionMask = legalMask cfg t) :
    stateToObs rnd t = observe rnd cfg t := by
  have hsb : Grid.shaped t.body cfg.rows cfg.cols = true := by rw [hbody, Grid.l_shaped_map]; exact hs
  unfold stateToObs observe
  simp only []
  rw [Obs.mk.injEq]
  refine ⟨?_, marker_plane cfg t.body t.head hsb hh, ?_, marker_plane cfg t.body t.fruit hsb hfr, ?_, rfl, hm⟩
  · rw [hbody, grid_map_map, map_eq_table _ _ 0 hs]; rfl
  · rw [htail, grid_map_map, map_eq_table _ _ 0 hs]; rfl
  · rw [map_eq_table _ _ 0 hs]

theorem bsAfter_shaped (cfg : Cfg) (s : State) (a : Int)
    (hs : Grid.shaped s.bodyState cfg.rows cfg.cols = true) :
    Grid.shaped (bsAfter s a) cfg.rows cfg.cols = true := by
  unfold bsAfter
  apply Grid.l_shaped_setWD
  split
  · exact hs
  · rw [Grid.l_shaped_map]; exact hs

theorem fruitOfDraw_inGrid (cfg : Cfg) (d : Nat) (hd : d < cfg.rows * cfg.cols) :
    inGrid cfg (fruitOfDraw cfg d).row (fruitOfDraw cfg d).col := by
  unfold fruitOfDraw inGrid
  simp only []
  have hc : 0 < cfg.cols := by
    rcases Nat.eq_zero_or_pos cfg.cols with h | h
    · rw [h] at hd; simp at hd
    · exact h
  have h1 : d / cfg.cols < cfg.rows := (Nat.div_lt_iff_lt_mul hc).2 hd
  have h2 : d % cfg.cols < cfg.cols := Nat.mod_lt _ hc
  exact ⟨Int.natCast_nonneg _, Int.ofNat_lt.2 h1, Int.natCast_nonneg _, Int.ofNat_lt.2 h2⟩

/-- the successor's cached mask is the set of legal moves of the successor -/
theorem step_mask_legal (rnd : Rat → Rat) (cfg : Cfg) (s : State) (a : Int) (d : Nat)
    (hs : Grid.shaped s.bodyState cfg.rows cfg.cols = true) :
    (step rnd cfg s a d).1.actionMask = legalMask cfg (step rnd cfg s a d).1 := by
  rw [cached_mask]
  exact mask_eq_legalMask cfg _ (by rw [step_fst]; exact bsAfter_shaped cfg s a hs)

/-- C12: the observation returned by `step` is the documented function of the successor state, whenever
the new head is on the board (every non-terminal step) -/
theorem obs_faithful (rnd : Rat → Rat) (cfg : Cfg) (s : State) (a : Int) (d : Nat)
    (hs : Grid.shaped s.bodyState cfg.rows cfg.cols = true)
    (hh : inGrid cfg (headAfter s a).row (headAfter s a).col)
    (hfr : inGrid cfg s.fruit.row s.fruit.col) (hd : d < cfg.rows * cfg.cols) :
    (step rnd cfg s a d).2.obs = observe rnd cfg (step rnd cfg s a d).1 := by
  rw [step_obs]
  apply obs_eq rnd cfg _ (by rw [step_fst]; exact bsAfter_shaped cfg s a hs) rfl rfl
  · exact hh
  · rw [step_fst]; simp only []
    split
    · exact fruitOfDraw_inGrid cfg d hd
    · exact hfr
  · exact step_mask_legal rnd cfg s a d hs

theorem grow_eq (cs : List (Nat × Nat)) (e : Bool) (h : Nat × Nat) :
    grow cs e h = cs.drop (if e then 0 else 1) ++ [h] := by
  unfold grow; cases e <;> simp

theorem getD_drop_append (cs : List (Nat × Nat)) (k : Nat) (h d : Nat × Nat) (i : Nat) :
    (cs.drop k ++ [h]).getD i d =
      if i < cs.length - k then cs.getD (i + k) d else if i = cs.length - k then h else d := by
  simp only [List.getD_eq_getElem?_getD, List.getElem?_append, List.length_drop, List.getElem?_drop]
  split
  · rw [Nat.add_comm]
  · split
    · rename_i h1 h2; subst h2; simp
    · rename_i h1 h2
      have : i - (cs.length - k) ≠ 0 := by omega
      cases hh : i - (cs.length - k) with
      | zero => omega
      | succ m => simp

/-- per-cell description of `body_state` after a move onto a cell of the board -/
theorem bsAfter_get (cfg : Cfg) (s : State) (a : Nat) (ha : a < 4)
    (hs : Grid.shaped s.bodyState cfg.rows cfg.cols = true)
    (ht : inGrid cfg (target s a).1 (target s a).2) (r c : Nat) :
    Grid.get (bsAfter s a) 0 r c =
      if r = (target s a).1.toNat ∧ c = (target s a).2.toNat then s.length + (if eats s a then 1 else 0)
      else (if eats s a then Grid.get s.bodyState 0 r c else clip0 (Grid.get s.bodyState 0 r c)) := by
  obtain ⟨h1, h2, h3, h4⟩ := ht
  unfold bsAfter
  rw [eatenB_eq s ha]
  have hh : headAfter s (a : Int) = ⟨(target s a).1, (target s a).2⟩ := by
    unfold headAfter; rw [target_eq s ha]
  rw [hh]; simp only []
  cases he : eats s a
  · have hs' : Grid.shaped (Grid.map clip0 s.bodyState) cfg.rows cfg.cols = true := by
      rw [Grid.l_shaped_map]; exact hs
    simp only [Bool.false_eq_true, if_false]
    rw [Grid.l_setWD_inrange hs' _ h1 h2 h3 h4,
      Grid.l_get_set hs' _ 0 (by omega : (target s a).1.toNat < cfg.rows) (by omega : (target s a).2.toNat < cfg.cols),
      get_clip0]
  · simp only [if_true]
    rw [Grid.l_setWD_inrange hs _ h1 h2 h3 h4,
      Grid.l_get_set hs _ 0 (by omega : (target s a).1.toNat < cfg.rows) (by omega : (target s a).2.toNat < cfg.cols)]

theorem adjacent_target (s : State) (a : Nat) (ha : a < 4) (h1 : 0 ≤ s.head.row) (h2 : 0 ≤ s.head.col)
    (h3 : 0 ≤ (target s a).1) (h4 : 0 ≤ (target s a).2) :
    adjacent (s.head.row.toNat, s.head.col.toNat) ((target s a).1.toNat, (target s a).2.toNat) := by
  have : a = 0 ∨ a = 1 ∨ a = 2 ∨ a = 3 := by omega
  unfold adjacent
  rcases this with rfl | rfl | rfl | rfl <;> simp only [target, true_and] at h3 h4 ⊢ <;> omega


theorem clip0_succ (i : Nat) : clip0 ((i : Int) + 1 + 1) = (i : Int) + 1 := by
  unfold clip0; split <;> omega

/-- C07/C09 core: a legal move maps the chain `cs` encoded by `body_state` to the grown chain -/
theorem step_chain (rnd : Rat → Rat) (cfg : Cfg) (s : State) (a : Nat) (d : Nat) (cs : List (Nat × Nat))
    (hc : Chain cfg s cs) (hl : legal cfg s a)
    (hfree : eats s a = true → cell s.bodyState s.fruit.row s.fruit.col = 0) :
    Chain cfg (step rnd cfg s a d).1 (grow cs (eats s a) ((target s a).1.toNat, (target s a).2.toNat)) := by
  obtain ⟨hs, hlen, hpos, hin, henc, hzero, hadj, hh1, hh2, hlast⟩ := hc
  obtain ⟨ha, ht, hv⟩ := hl
  have ht' := ht
  obtain ⟨t1, t2, t3, t4⟩ := ht'
  -- k = number of cells dropped at the tail end
  generalize hk : (if eats s a then 0 else 1 : Nat) = k
  have hk1 : k ≤ 1 := by rw [← hk]; split <;> omega
  have hkn : k ≤ cs.length := by omega
  -- value of the target cell in the old grid
  have hval : Grid.get s.bodyState 0 (target s a).1.toNat (target s a).2.toNat ≤ (k : Int) := by
    cases he : eats s a
    · rw [he] at hk; simp at hk; subst hk; exact hv
    · rw [he] at hk; simp at hk; subst hk
      have h0 := hfree he
      unfold eats at he
      simp only [Bool.and_eq_true, decide_eq_true_eq] at he
      unfold cell at h0
      rw [he.1, he.2, h0]; decide
  -- cell function of the new grid
  have hget : ∀ r c, Grid.get (bsAfter s a) 0 r c =
      if r = (target s a).1.toNat ∧ c = (target s a).2.toNat then ((cs.length - k : Nat) : Int) + 1
      else (if eats s a then Grid.get s.bodyState 0 r c else clip0 (Grid.get s.bodyState 0 r c)) := by
    intro r c
    rw [bsAfter_get cfg s a ha hs ht r c]
    have : s.length + (if eats s a then (1 : Int) else 0) = ((cs.length - k : Nat) : Int) + 1 := by
      rw [← hlen, ← hk]; split <;> omega
    rw [this]
  have hf0 : (if eats s a then (0 : Int) else clip0 0) = 0 := by split <;> simp [clip0_zero]
  have hfd : ∀ j : Nat, j < k → (if eats s a then ((j : Int) + 1) else clip0 ((j : Int) + 1)) = 0 := by
    intro j hj
    cases he : eats s a
    · have : j = 0 := by omega
      subst this; simp; decide
    · rw [he] at hk; simp at hk; omega
  have hfs : ∀ i : Nat, (if eats s a then (((i + k : Nat) : Int) + 1) else clip0 (((i + k : Nat) : Int) + 1)) = (i : Int) + 1 := by
    intro i
    cases he : eats s a
    · rw [he] at hk; simp at hk; subst hk
      simp only [Bool.false_eq_true, if_false]
      have := clip0_succ i
      rw [show (((i + 1 : Nat) : Int)) = (i : Int) + 1 by omega]; exact this
    · rw [he] at hk; simp at hk; subst hk; simp
  -- the cells that stay are not the target cell
  have hnot : ∀ i, k ≤ i → i < cs.length → cs.getD i (0, 0) ≠ ((target s a).1.toNat, (target s a).2.toNat) := by
    intro i h1 h2 e
    have := henc i h2
    rw [e] at this
    simp only [] at this
    omega
  have hgetD := fun i => getD_drop_append cs k ((target s a).1.toNat, (target s a).2.toNat) (0, 0) i
  have hlen' : (cs.drop k ++ [((target s a).1.toNat, (target s a).2.toNat)]).length = cs.length - k + 1 := by simp
  rw [grow_eq, hk, step_fst]
  refine ⟨bsAfter_shaped cfg s a hs, ?_, by rw [hlen']; omega, ?_, ?_, ?_, ?_, ?_⟩
  · -- length
    rw [hlen']; simp only []
    rw [← hlen, eatenB_eq s ha, ← hk]; split <;> omega
  · -- cells inside the board
    intro p hp
    rcases List.mem_append.1 hp with hp | hp
    · exact hin p (List.mem_of_mem_drop hp)
    · simp only [List.mem_singleton] at hp; subst hp
      simp only []; omega
  · -- numbering
    intro i hi
    rw [hlen'] at hi
    rw [hgetD i]; simp only []
    by_cases h1 : i < cs.length - k
    · rw [if_pos h1, hget]
      have hne := hnot (i + k) (by omega) (by omega)
      have : ¬ ((cs.getD (i + k) (0, 0)).1 = (target s a).1.toNat ∧ (cs.getD (i + k) (0, 0)).2 = (target s a).2.toNat) :=
        fun e => hne (Prod.ext e.1 e.2)
      rw [if_neg this, henc (i + k) (by omega)]
      exact hfs i
    · have h2 : i = cs.length - k := by omega
      rw [if_neg h1, if_pos h2, hget, if_pos ⟨rfl, rfl⟩, h2]
  · -- every other cell of the board is empty
    intro p hp hnp
    simp only []
    have hp1 : p ∉ cs.drop k := fun h => hnp (List.mem_append.2 (Or.inl h))
    have hp2 : p ≠ ((target s a).1.toNat, (target s a).2.toNat) := fun h => hnp (List.mem_append.2 (Or.inr (by simp [h])))
    rw [hget]
    have : ¬ (p.1 = (target s a).1.toNat ∧ p.2 = (target s a).2.toNat) := fun e => hp2 (Prod.ext e.1 e.2)
    rw [if_neg this]
    by_cases hm : p ∈ cs
    · -- p is one of the dropped tail cells
      obtain ⟨j, hj, hjp⟩ := List.getElem_of_mem hm
      have hjk : j < k := by
        apply Classical.byContradiction; intro hjk
        apply hp1
        rw [← hjp]
        have : cs[j] = (cs.drop k)[j - k]'(by simp; omega) := by simp; congr 1; omega
        rw [this]; exact List.getElem_mem _
      have := henc j hj
      rw [List.getD_eq_getElem?_getD, List.getElem?_eq_getElem hj] at this
      simp only [Option.getD_some] at this
      rw [hjp] at this
      rw [this]; exact hfd j hjk
    · rw [hzero p hp hm]; exact hf0
  · -- consecutive cells are adjacent
    intro i hi
    rw [hlen'] at hi
    rw [hgetD i, hgetD (i + 1)]
    have h1 : i < cs.length - k := by omega
    rw [if_pos h1]
    by_cases h2 : i + 1 < cs.length - k
    · rw [if_pos h2]
      have := hadj (i + k) (by omega)
      rw [show i + 1 + k = i + k + 1 by omega]; exact this
    · have h3 : i + 1 = cs.length - k := by omega
      rw [if_neg h2, if_pos h3]
      have : i + k = cs.length - 1 := by omega
      rw [this, hlast]
      exact adjacent_target s a ha hh1 hh2 t1 t3
  · -- the head
    have hhead : headAfter s (a : Int) = ⟨(target s a).1, (target s a).2⟩ := by
      unfold headAfter; rw [target_eq s ha]
    refine ⟨?_, ?_, ?_⟩
    · show 0 ≤ (headAfter s a).row
      rw [hhead]; exact t1
    · show 0 ≤ (headAfter s a).col
      rw [hhead]; exact t3
    · rw [hlen', hgetD]
      have : ¬ (cs.length - k + 1 - 1 < cs.length - k) := by omega
      rw [if_neg this, if_pos (by omega)]
      show _ = ((headAfter s a).row.toNat, (headAfter s a).col.toNat)
      rw [hhead]



theorem get_default_irrel {α : Type} {g : Grid α} {nr nc : Nat} (hs : Grid.shaped g nr nc = true)
    (d d' : α) {r c : Nat} (hr : r < nr) (hc : c < nc) : Grid.get g d r c = Grid.get g d' r c := by
  obtain ⟨row, hrow, hlen⟩ := Grid.l_shaped_row hs hr
  rw [Grid.l_get_eq_of_row hrow, Grid.l_get_eq_of_row hrow]
  have : c < row.length := by omega
  simp [List.getD_eq_getElem?_getD, this]

/-- in a chain-encoded grid every cell of the board carries a non-negative number -/
theorem chain_cell_nonneg (cfg : Cfg) (t : State) (cs : List (Nat × Nat)) (hc : Chain cfg t cs)
    {r c : Nat} (hr : r < cfg.rows) (hcc : c < cfg.cols) : 0 ≤ Grid.get t.bodyState 0 r c := by
  obtain ⟨_, _, _, _, henc, hzero, _⟩ := hc
  by_cases hm : (r, c) ∈ cs
  · obtain ⟨j, hj, hjp⟩ := List.getElem_of_mem hm
    have := henc j hj
    rw [List.getD_eq_getElem?_getD, List.getElem?_eq_getElem hj] at this
    simp only [Option.getD_some, hjp] at this
    omega
  · rw [hzero (r, c) (Grid.l_mem_coords.2 ⟨hr, hcc⟩) hm]; decide

/-- C07: a legal move from a consistent state whose board is not full, with an admissible fruit draw,
leads to a consistent state (the fruit clause of which is void when the snake now fills the board) -/
theorem step_consistent (rnd : Rat → Rat) (cfg : Cfg) (s : State) (a : Nat) (d : Nat)
    (hc : Consistent cfg s) (hl : legal cfg s a) (hnf : Grid.all id s.body = false)
    (hd : validDraw cfg (step rnd cfg s a d).1.body d) :
    Consistent cfg (step rnd cfg s a d).1 := by
  obtain ⟨⟨cs, hch⟩, hbody, htail, hfin, hffree, hmask, hsc⟩ := hc
  have hs : Grid.shaped s.bodyState cfg.rows cfg.cols = true := hch.1
  have ha : a < 4 := hl.1
  have hfree0 : cell s.bodyState s.fruit.row s.fruit.col = 0 := hffree hnf
  have hch' := step_chain rnd cfg s a d cs hch hl (fun _ => hfree0)
  refine ⟨⟨_, hch'⟩, rfl, rfl, ?_, ?_, step_mask_legal rnd cfg s a d hs, ?_⟩
  · rw [step_fst]; simp only []
    split
    · exact fruitOfDraw_inGrid cfg d hd.1
    · exact hfin
  · intro hnc
    have hs' : Grid.shaped (bsAfter s a) cfg.rows cfg.cols = true := bsAfter_shaped cfg s a hs
    have hc1 : 0 < cfg.cols := by
      rcases Nat.eq_zero_or_pos cfg.cols with h | h
      · have := hd.1; rw [h] at this; simp at this
      · exact h
    cases he : eatenB s a
    · -- fruit stays; it is not the target cell
      have hfr : (step rnd cfg s a d).1.fruit = s.fruit := by rw [step_fst]; simp [he]
      rw [hfr]
      show cell (bsAfter s a) s.fruit.row s.fruit.col = 0
      unfold cell
      rw [bsAfter_get cfg s a ha hs hl.2.1]
      have he' : eats s a = false := by rw [← eatenB_eq s ha]; exact he
      have hne : ¬ (s.fruit.row.toNat = (target s a).1.toNat ∧ s.fruit.col.toNat = (target s a).2.toNat) := by
        intro e
        unfold eats at he'
        obtain ⟨f1, _, f3, _⟩ := hfin
        obtain ⟨t1, _, t3, _⟩ := hl.2.1
        have : (target s a).1 = s.fruit.row ∧ (target s a).2 = s.fruit.col := by omega
        simp [this] at he'
      rw [if_neg hne, he']
      simp only [Bool.false_eq_true, if_false]
      unfold cell at hfree0
      rw [hfree0]; decide
    · -- new fruit from the draw: a free cell of the new body
      have hfr : (step rnd cfg s a d).1.fruit = fruitOfDraw cfg d := by rw [step_fst]; simp [he]
      rw [hfr]
      show cell (bsAfter s a) _ _ = 0
      unfold cell fruitOfDraw
      simp only [Int.toNat_natCast]
      have hr : d / cfg.cols < cfg.rows := (Nat.div_lt_iff_lt_mul hc1).2 hd.1
      have hcc : d % cfg.cols < cfg.cols := Nat.mod_lt _ hc1
      have hb := hd.2 hnc
      have hbody' : (step rnd cfg s a d).1.body = Grid.map (fun x => decide (x > 0)) (bsAfter s a) := rfl
      rw [hbody'] at hb
      have hsb : Grid.shaped (Grid.map (fun (x : Int) => decide (x > 0)) (bsAfter s a)) cfg.rows cfg.cols = true := by
        rw [Grid.l_shaped_map]; exact hs'
      rw [get_default_irrel hsb true (decide ((0 : Int) > 0)) hr hcc,
        Grid.l_get_map (fun (x : Int) => decide (x > 0)) (bsAfter s a) 0] at hb
      have hnn := chain_cell_nonneg cfg _ _ hch' hr hcc
      have hnn' : 0 ≤ Grid.get (bsAfter s a) 0 (d / cfg.cols) (d % cfg.cols) := hnn
      simp only [decide_eq_false_iff_not] at hb
      omega
  · show 0 ≤ s.stepCount + 1
    omega

/-- a step that is not LAST was a legal move, did not fill the board and did not reach the time limit -/
theorem mid_step (rnd : Rat → Rat) (cfg : Cfg) (s : State) (a : Nat) (d : Nat) (ha : a < 4)
    (hm : s.actionMask = legalMask cfg s) (hmid : (step rnd cfg s a d).2.stepType ≠ .last) :
    legal cfg s a ∧ Grid.all id (step rnd cfg s a d).1.body = false ∧ s.stepCount + 1 < cfg.timeLimit := by
  rw [step_type] at hmid
  have hv := step_agrees cfg s a ha hm
  cases h1 : getWC s.actionMask false (a : Int) <;> cases h2 : Grid.all id (step rnd cfg s a d).1.body <;>
    by_cases h3 : s.stepCount + 1 ≥ cfg.timeLimit <;> simp [h1, h2, h3] at hmid
  exact ⟨hv.1 h1, rfl, by omega⟩

/-- C07 (inductive form): "consistent and board not full" is preserved by every step that does not end
the episode, whatever action 0..3 is played, for every admissible fruit draw -/
theorem step_consistent_mid (rnd : Rat → Rat) (cfg : Cfg) (s : State) (a : Nat) (d : Nat) (ha : a < 4)
    (hc : Consistent cfg s) (hnf : Grid.all id s.body = false)
    (hd : validDraw cfg (step rnd cfg s a d).1.body d)
    (hmid : (step rnd cfg s a d).2.stepType ≠ .last) :
    Consistent cfg (step rnd cfg s a d).1 ∧ Grid.all id (step rnd cfg s a d).1.body = false := by
  obtain ⟨hl, hnc, _⟩ := mid_step rnd cfg s a d ha hc.2.2.2.2.2.1 hmid
  exact ⟨step_consistent rnd cfg s a d hc hl hnf hd, hnc⟩

theorem consistentB_sound (cfg : Cfg) (s : State) (h : consistentB cfg s = true) : Consistent cfg s := by
  unfold consistentB at h
  simp only [Bool.and_eq_true, decide_eq_true_eq] at h
  exact ⟨⟨_, h.1⟩, h.2⟩

/-- a chain-encoded `body_state` is the grid written from the chain -/
theorem chain_encode (cfg : Cfg) (t : State) (cs : List (Nat × Nat)) (hc : Chain cfg t cs) :
    t.bodyState = encode cfg cs := by
  obtain ⟨hs, _, _, _, henc, hzero, _⟩ := hc
  rw [Grid.l_eq_table hs 0]
  unfold encode
  apply List.map_congr_left; intro r hr
  apply List.map_congr_left; intro c hcc
  simp only [List.mem_range] at hr hcc
  cases h : cs.idxOf? (r, c) with
  | none =>
    have : (r, c) ∉ cs := List.idxOf?_eq_none_iff.1 h
    simp only []
    exact hzero (r, c) (Grid.l_mem_coords.2 ⟨hr, hcc⟩) this
  | some i =>
    unfold List.idxOf? at h
    obtain ⟨hi, hp, _⟩ := List.findIdx?_eq_some_iff_getElem.1 h
    have e : cs[i] = (r, c) := by simpa using hp
    have := henc i hi
    rw [List.getD_eq_getElem?_getD, List.getElem?_eq_getElem hi] at this
    simp only [Option.getD_some, e] at this
    simp only []
    exact this

theorem legalMask_congr (cfg : Cfg) (s1 s2 : State) (h1 : s1.head = s2.head) (h2 : s1.bodyState = s2.bodyState) :
    legalMask cfg s1 = legalMask cfg s2 := by
  have hl : ∀ a, legal cfg s1 a ↔ legal cfg s2 a := by
    intro a; unfold legal target; rw [h1, h2]
  unfold legalMask
  apply List.map_congr_left; intro a _
  exact decide_eq_decide.2 (hl a)

/-- C09 (L1 = L2): on a state whose `body_state` encodes a chain, for a legal move, the transliterated
`step` produces exactly the successor prescribed by the growth rule (`stepSpec`: append the new head
cell, drop the tail cell unless the fruit is eaten, renumber) -/
theorem stepSpec_eq (rnd : Rat → Rat) (cfg : Cfg) (s : State) (a : Nat) (d : Nat)
    (hc : Chain cfg s (chainOf cfg s)) (hl : legal cfg s a)
    (hfree : eats s a = true → cell s.bodyState s.fruit.row s.fruit.col = 0) :
    stepSpec cfg s a d = some (step rnd cfg s a d).1 := by
  have hch' := step_chain rnd cfg s a d _ hc hl hfree
  have henc := chain_encode cfg _ _ hch'
  have hlen := hch'.2.1
  have ha := hl.1
  have hhead : headAfter s (a : Int) = ⟨(target s a).1, (target s a).2⟩ := by
    unfold headAfter; rw [target_eq s ha]
  have hm := step_mask_legal rnd cfg s a d hc.1
  unfold stepSpec
  simp only [hc, hl, decide_true, Bool.and_self, if_true]
  rw [step_fst] at henc hlen hm ⊢
  simp only [] at henc hlen hm
  congr 1
  rw [State.mk.injEq]
  refine ⟨by rw [← henc], henc.symm, hhead.symm, by rw [← henc], by rw [eatenB_eq s ha], hlen, rfl, ?_⟩
  rw [hm]
  apply legalMask_congr
  · exact hhead.symm
  · exact henc.symm

theorem chain_findCell (cfg : Cfg) (t : State) (cs : List (Nat × Nat)) (hc : Chain cfg t cs)
    (k : Nat) (hk : k < cs.length) : findCell cfg t.bodyState ((k : Int) + 1) = some (cs.getD k (0, 0)) := by
  obtain ⟨hs, _, _, hin, henc, hzero, _⟩ := hc
  have hmem : cs.getD k (0, 0) ∈ cs := by
    rw [List.getD_eq_getElem?_getD, List.getElem?_eq_getElem hk]; exact List.getElem_mem hk
  have hcoord : cs.getD k (0, 0) ∈ Grid.coords cfg.rows cfg.cols := Grid.l_mem_coords.2 (hin _ hmem)
  unfold findCell
  cases h : (Grid.coords cfg.rows cfg.cols).find? (fun p => Grid.get t.bodyState 0 p.1 p.2 == (k : Int) + 1) with
  | none =>
    exfalso
    have h2 := List.find?_eq_none.1 h _ hcoord
    apply h2
    simp only [beq_iff_eq]
    exact henc k hk
  | some p =>
    have hp := List.find?_some h
    have hpm := List.mem_of_find?_eq_some h
    simp only [beq_iff_eq] at hp
    congr 1
    by_cases hm : p ∈ cs
    · obtain ⟨j, hj, hjp⟩ := List.getElem_of_mem hm
      have := henc j hj
      rw [List.getD_eq_getElem?_getD, List.getElem?_eq_getElem hj] at this
      simp only [Option.getD_some, hjp] at this
      have : j = k := by omega
      subst this
      rw [List.getD_eq_getElem?_getD, List.getElem?_eq_getElem hj]; simp [hjp]
    · have := hzero p hpm hm
      omega

theorem filterMap_eq_map_of {α β : Type} (f : α → Option β) (g : α → β) (l : List α)
    (h : ∀ k ∈ l, f k = some (g k)) : l.filterMap f = l.map g := by
  induction l with
  | nil => rfl
  | cons x xs ih =>
    rw [List.filterMap_cons, h x (List.mem_cons_self)]
    simp only [List.map_cons]
    rw [ih (fun k hk => h k (List.mem_cons_of_mem _ hk))]

/-- the chain encoded by `body_state` is unique: it is the one the executable check reads off -/
theorem chain_unique (cfg : Cfg) (t : State) (cs : List (Nat × Nat)) (hc : Chain cfg t cs) :
    chainOf cfg t = cs := by
  have hlen := hc.2.1
  unfold chainOf
  have hn : t.length.toNat = cs.length := by omega
  rw [hn, filterMap_eq_map_of _ (fun k => cs.getD k (0, 0)) _
    (fun k hk => chain_findCell cfg t cs hc k (List.mem_range.1 hk))]
  apply List.ext_getElem
  · simp
  · intro i h1 h2
    simp [List.getD_eq_getElem?_getD, h2]

/-- the executable consistency check is exact -/
theorem consistentB_iff (cfg : Cfg) (s : State) : consistentB cfg s = true ↔ Consistent cfg s := by
  constructor
  · exact consistentB_sound cfg s
  · rintro ⟨⟨cs, hc⟩, hd⟩
    unfold consistentB
    simp only [Bool.and_eq_true, decide_eq_true_eq]
    exact ⟨by rw [chain_unique cfg s cs hc]; exact hc, hd⟩

/-- C09 for consistent states: the growth rule predicts the successor of every legal move -/
theorem stepSpec_eq_consistent (rnd : Rat → Rat) (cfg : Cfg) (s : State) (a : Nat) (d : Nat)
    (hc : Consistent cfg s) (hnf : Grid.all id s.body = false) (hl : legal cfg s a) :
    stepSpec cfg s a d = some (step rnd cfg s a d).1 := by
  obtain ⟨⟨cs, hch⟩, hd⟩ := hc
  have hch' : Chain cfg s (chainOf cfg s) := by rw [chain_unique cfg s cs hch]; exact hch
  exact stepSpec_eq rnd cfg s a d hch' hl (fun _ => hd.2.2.2.1 hnf)

theorem shaped_mk {α : Type} (nr nc : Nat) (v : α) : Grid.shaped (Grid.mk nr nc v) nr nc = true := by
  unfold Grid.shaped Grid.mk; simp

theorem get_mk_same {α : Type} (nr nc : Nat) (v : α) (r c : Nat) : Grid.get (Grid.mk nr nc v) v r c = v := by
  unfold Grid.get Grid.mk
  simp only [List.getD_eq_getElem?_getD, List.getElem?_replicate]
  split
  · simp only [Option.getD_some, List.getElem?_replicate]; split <;> rfl
  · rfl

theorem grid_map_id {α : Type} (g : Grid α) : Grid.map (fun x => x) g = g := by
  unfold Grid.map; simp

/-- C07/C10: the reset state is consistent for every head cell on the board and every admissible fruit draw -/
theorem reset_consistent (rnd : Rat → Rat) (cfg : Cfg) (hr hc : Nat) (d : Nat)
    (h1 : hr < cfg.rows) (h2 : hc < cfg.cols)
    (hd : validDraw cfg (reset rnd cfg hr hc d).1.body d) :
    Consistent cfg (reset rnd cfg hr hc d).1 ∧ (reset rnd cfg hr hc d).1.length = 1 ∧
      (reset rnd cfg hr hc d).1.stepCount = 0 := by
  have hz := shaped_mk cfg.rows cfg.cols false
  have hbody : (reset rnd cfg hr hc d).1.body = Grid.set (Grid.mk cfg.rows cfg.cols false) hr hc true := by
    show Grid.setWD (Grid.mk cfg.rows cfg.cols false) (hr : Int) (hc : Int) true = _
    rw [Grid.l_setWD_inrange hz true (Int.natCast_nonneg hr) (Int.ofNat_lt.2 h1) (Int.natCast_nonneg hc) (Int.ofNat_lt.2 h2)]
    simp
  have hsb : Grid.shaped (reset rnd cfg hr hc d).1.body cfg.rows cfg.cols = true := by
    rw [hbody]; exact Grid.l_shaped_set hz true _ _
  have hbs : (reset rnd cfg hr hc d).1.bodyState =
      Grid.map (fun b => if b then (1 : Int) else 0) (reset rnd cfg hr hc d).1.body := rfl
  have hs : Grid.shaped (reset rnd cfg hr hc d).1.bodyState cfg.rows cfg.cols = true := by
    rw [hbs, Grid.l_shaped_map]; exact hsb
  have hget : ∀ r c, Grid.get (reset rnd cfg hr hc d).1.bodyState 0 r c = if r = hr ∧ c = hc then 1 else 0 := by
    intro r c
    rw [hbs]
    have := Grid.l_get_map (fun b => if b then (1 : Int) else 0) (reset rnd cfg hr hc d).1.body false r c
    simp only [Bool.false_eq_true, if_false] at this
    rw [this, hbody, Grid.l_get_set hz true false h1 h2, get_mk_same]
    split <;> simp
  have hm : (reset rnd cfg hr hc d).1.actionMask = legalMask cfg (reset rnd cfg hr hc d).1 :=
    mask_eq_legalMask cfg (reset rnd cfg hr hc d).1 hs
  refine ⟨⟨⟨[(hr, hc)], ?_⟩, ?_⟩, rfl, rfl⟩
  · refine ⟨hs, rfl, by simp, ?_, ?_, ?_, ?_, ?_⟩
    · intro p hp; simp only [List.mem_singleton] at hp; subst hp; exact ⟨h1, h2⟩
    · intro i hi
      have : i = 0 := by simpa using hi
      subst this
      simp [hget]
    · intro p _ hnp
      rw [hget]
      have : ¬ (p.1 = hr ∧ p.2 = hc) := fun e => hnp (by simp [Prod.ext_iff, e.1, e.2])
      rw [if_neg this]
    · intro i hi; simp at hi
    · refine ⟨Int.natCast_nonneg hr, Int.natCast_nonneg hc, ?_⟩
      show (hr, hc) = ((hr : Int).toNat, (hc : Int).toNat)
      simp
  · refine ⟨?_, ?_, fruitOfDraw_inGrid cfg d hd.1, ?_, hm, by show (0 : Int) ≤ 0; omega⟩
    · rw [hbs, grid_map_map]
      have : ((fun (x : Int) => decide (x > 0)) ∘ fun (b : Bool) => if b then (1 : Int) else 0) = fun b => b := by
        funext b; cases b <;> decide
      rw [this, grid_map_id]
    · show (reset rnd cfg hr hc d).1.body = _
      rw [hbs, grid_map_map]
      have : ((fun (x : Int) => decide (x = 1)) ∘ fun (b : Bool) => if b then (1 : Int) else 0) = fun b => b := by
        funext b; cases b <;> decide
      rw [this, grid_map_id]
    · intro hnc
      have hc1 : 0 < cfg.cols := by omega
      have hrr : d / cfg.cols < cfg.rows := (Nat.div_lt_iff_lt_mul hc1).2 hd.1
      have hcc : d % cfg.cols < cfg.cols := Nat.mod_lt _ hc1
      have hb := hd.2 hnc
      rw [get_default_irrel hsb true false hrr hcc] at hb
      show cell (reset rnd cfg hr hc d).1.bodyState (fruitOfDraw cfg d).row (fruitOfDraw cfg d).col = 0
      unfold cell fruitOfDraw
      simp only [Int.toNat_natCast]
      rw [hbs]
      have := Grid.l_get_map (fun b => if b then (1 : Int) else 0) (reset rnd cfg hr hc d).1.body false (d / cfg.cols) (d % cfg.cols)
      simp only [Bool.false_eq_true, if_false] at this
      rw [this, hb]; simp

/-- C07 (conserved): the relation the driver checks between the endpoints of an implementation
transition holds for every legal move of the model from a consistent, not full state -/
theorem growsFrom_step (rnd : Rat → Rat) (cfg : Cfg) (s : State) (a : Nat) (d : Nat)
    (hc : Consistent cfg s) (hnf : Grid.all id s.body = false) (hl : legal cfg s a) :
    growsFrom cfg s (step rnd cfg s a d).1 = true := by
  obtain ⟨⟨cs, hch⟩, hd⟩ := hc
  have ha := hl.1
  have hch' := step_chain rnd cfg s a d cs hch hl (fun _ => hd.2.2.2.1 hnf)
  have hu := chain_unique cfg s cs hch
  have hu' := chain_unique cfg _ _ hch'
  have hhead : (step rnd cfg s a d).1.head = ⟨(target s a).1, (target s a).2⟩ := by
    show headAfter s (a : Int) = _
    unfold headAfter; rw [target_eq s ha]
  have he : decide ((step rnd cfg s a d).1.head = s.fruit) = eats s a := by
    rw [hhead]; unfold eats
    cases hf : s.fruit
    simp [Pos.mk.injEq]
  unfold growsFrom
  simp only [he, Bool.and_eq_true, decide_eq_true_eq]
  refine ⟨⟨?_, ?_⟩, ?_⟩
  · show s.length + (if eatenB s a then 1 else 0) = _
    rw [eatenB_eq s ha]
  · rw [hhead]; exact ⟨hl.2.1.1, hl.2.1.2.2.1⟩
  · rw [hu', hu, hhead]

end Snake
