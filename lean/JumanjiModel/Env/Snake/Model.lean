/-
Snake (jumanji/environments/routing/snake/{env,types}.py).  Import-free.

L1 = transliteration of `step`, `_get_action_mask`, `_update_head_position`,
`_state_to_observation`.  The state caches `body`, `tail` and `action_mask`; `step` reads the
validity of an action from the CACHED mask (`state.action_mask[action]`).  Gathers wrap+clamp
(`Grid.getWC`), scatters wrap+drop (`Grid.setWD`) as in JAX — an invalid move off the upper/left
border therefore writes the head at the opposite border of the (terminal) successor state.
The fruit placement of a step that eats the fruit is the draw parameter `d` (flat cell index,
`jax.random.choice(arange(rows*cols), p=~body.flatten())`, then `divmod(·, num_cols)`).
The float32 division of the `norm_body_state` plane is the parameter `rnd`.

L2 = the rules: `legal` (target cell inside the grid and not a body cell that stays), the chain
invariant `Chain` (body_state numbers a path of 4-adjacent cells 1..length, head = length), `grow`
(how the chain of cells changes), `observe` (the five documented planes recomputed from
`body_state`, `head_position`, `fruit_position`).
-/
import JumanjiModel.Prim.Idx
import JumanjiModel.Prim.Grid
import JumanjiModel.Core.TimeStep
namespace Snake
open Jm Jx

structure Cfg where
  rows : Nat
  cols : Nat
  timeLimit : Int
  deriving Repr, DecidableEq

structure Pos where
  row : Int
  col : Int
  deriving Repr, DecidableEq

structure State where
  body : Grid Bool
  bodyState : Grid Int
  head : Pos
  tail : Grid Bool
  fruit : Pos
  length : Int
  stepCount : Int
  actionMask : List Bool
  deriving Repr, DecidableEq

/-- the five feature planes (stacked on the last axis by the implementation), step count, mask -/
structure Obs where
  body : Grid Rat
  head : Grid Rat
  tail : Grid Rat
  fruit : Grid Rat
  norm : Grid Rat
  stepCount : Int
  actionMask : List Bool
  deriving Repr, DecidableEq

/-! ### L1 -/

/-- `Snake.MOVES`: Up, Right, Down, Left -/
def moves : List (Int × Int) := [(-1, 0), (0, 1), (1, 0), (0, -1)]

/-- `self.MOVES[action]` -/
def moveOf (a : Int) : Int × Int := getWC moves (0, 0) a

/-- `jnp.clip(x - 1, 0)` -/
def clip0 (x : Int) : Int := if x - 1 < 0 then 0 else x - 1

/-- `is_valid(move)` inside `_get_action_mask` -/
def isValidMove (cfg : Cfg) (head : Pos) (bs : Grid Int) (m : Int × Int) : Bool :=
  let nr := head.row + m.1
  let nc := head.col + m.2
  let outside := decide (nr < 0) || decide (nr ≥ (cfg.rows : Int)) || decide (nc < 0) ||
    decide (nc ≥ (cfg.cols : Int))
  let bump := decide (Grid.getWC (Grid.map clip0 bs) 0 nr nc > 0)
  !outside && !bump

/-- `_get_action_mask(head_position, body_state)` -/
def getActionMask (cfg : Cfg) (head : Pos) (bs : Grid Int) : List Bool :=
  moves.map (isValidMove cfg head bs)

def b2r (b : Bool) : Rat := if b then 1 else 0

/-- `jnp.maximum(1, body_state.max())` -/
def gridMax1 (g : Grid Int) : Int := (Grid.flatten g).foldl max 1

/-- `_state_to_observation` -/
def stateToObs (rnd : Rat → Rat) (s : State) : Obs :=
  let z : Grid Bool := Grid.map (fun _ => false) s.body
  let head := Grid.setWD z s.head.row s.head.col true
  let fruit := Grid.setWD z s.fruit.row s.fruit.col true
  let m := gridMax1 s.bodyState
  { body := Grid.map b2r s.body, head := Grid.map b2r head, tail := Grid.map b2r s.tail,
    fruit := Grid.map b2r fruit,
    norm := Grid.map (fun (x : Int) => rnd ((x : Rat) / (m : Rat))) s.bodyState,
    stepCount := s.stepCount, actionMask := s.actionMask }

/-- `row, col = jnp.divmod(fruit_index, num_cols)` -/
def fruitOfDraw (cfg : Cfg) (d : Nat) : Pos := ⟨((d / cfg.cols : Nat) : Int), ((d % cfg.cols : Nat) : Int)⟩

/-- a draw of `_sample_fruit_coord(body, key)` is valid: a cell index of the board that is not a
body cell (unless the whole board is body, when the result is unconstrained inside the board) -/
def validDraw (cfg : Cfg) (body : Grid Bool) (d : Nat) : Prop :=
  d < cfg.rows * cfg.cols ∧
  (Grid.all id body = false → Grid.get body true (d / cfg.cols) (d % cfg.cols) = false)

instance (cfg : Cfg) (body : Grid Bool) (d : Nat) : Decidable (validDraw cfg body d) := by
  unfold validDraw; infer_instance

/-- `step(state, action)`; `d` = the fruit cell drawn if the fruit is eaten -/
def step (rnd : Rat → Rat) (cfg : Cfg) (s : State) (a : Int) (d : Nat) : State × TimeStep Obs :=
  let isValid := getWC s.actionMask false a
  let m := moveOf a
  let head' : Pos := ⟨s.head.row + m.1, s.head.col + m.2⟩
  let eaten := decide (head'.row = s.fruit.row) && decide (head'.col = s.fruit.col)
  let length' := s.length + (if eaten then 1 else 0)
  let bswh := if eaten then s.bodyState else Grid.map clip0 s.bodyState
  let bs' := Grid.setWD bswh head'.row head'.col length'
  let body' := Grid.map (fun x => decide (x > 0)) bs'
  let tail' := Grid.map (fun x => decide (x = 1)) bs'
  let fruit' := if eaten then fruitOfDraw cfg d else s.fruit
  let s' : State :=
    { body := body', bodyState := bs', head := head', tail := tail', fruit := fruit',
      length := length', stepCount := s.stepCount + 1,
      actionMask := getActionMask cfg head' bs' }
  let completed := Grid.all id body'
  let done := !isValid || completed || decide (s.stepCount + 1 ≥ cfg.timeLimit)
  let r : Rat := if eaten then 1 else 0
  (s', condLast done [r] (stateToObs rnd s'))

/-- `reset(key)`: the draws are the head cell `(hr, hc)` (`randint` in `[0, board_shape)`) and the flat
index `d` of the fruit cell (`_sample_fruit_coord(body, fruit_key)`) -/
def reset (rnd : Rat → Rat) (cfg : Cfg) (hr hc : Nat) (d : Nat) : State × TimeStep Obs :=
  let head : Pos := ⟨(hr : Int), (hc : Int)⟩
  let body := Grid.setWD (Grid.mk cfg.rows cfg.cols false) head.row head.col true
  let bs : Grid Int := Grid.map (fun b => if b then 1 else 0) body
  let s : State :=
    { body := body, bodyState := bs, head := head, tail := body, fruit := fruitOfDraw cfg d,
      length := 1, stepCount := 0, actionMask := getActionMask cfg head bs }
  (s, restart (stateToObs rnd s))

/-! ### L2: the rules -/

def inGrid (cfg : Cfg) (r c : Int) : Prop := 0 ≤ r ∧ r < cfg.rows ∧ 0 ≤ c ∧ c < cfg.cols

instance (cfg : Cfg) (r c : Int) : Decidable (inGrid cfg r c) := by unfold inGrid; infer_instance

/-- the number written on a cell (0 = empty, 1 = tail, …, length = head); only used inside the grid -/
def cell (bs : Grid Int) (r c : Int) : Int := Grid.get bs 0 r.toNat c.toNat

/-- the cell the head moves to: 0 Up, 1 Right, 2 Down, 3 Left -/
def target (s : State) (a : Nat) : Int × Int :=
  match a with
  | 0 => (s.head.row - 1, s.head.col)
  | 1 => (s.head.row, s.head.col + 1)
  | 2 => (s.head.row + 1, s.head.col)
  | 3 => (s.head.row, s.head.col - 1)
  | _ => (s.head.row, s.head.col)

/-- a move is legal iff the target cell is inside the grid and the snake does not bump into
itself: the target is empty or is the current tail cell (numbered 1), which moves away -/
def legal (cfg : Cfg) (s : State) (a : Nat) : Prop :=
  a < 4 ∧ inGrid cfg (target s a).1 (target s a).2 ∧ cell s.bodyState (target s a).1 (target s a).2 ≤ 1

instance (cfg : Cfg) (s : State) (a : Nat) : Decidable (legal cfg s a) := by unfold legal; infer_instance

def legalMask (cfg : Cfg) (s : State) : List Bool := (List.range 4).map (fun a => decide (legal cfg s a))

/-- 4-adjacency of grid cells -/
def adjacent (p q : Nat × Nat) : Prop :=
  (p.1 = q.1 ∧ (p.2 + 1 = q.2 ∨ q.2 + 1 = p.2)) ∨ (p.2 = q.2 ∧ (p.1 + 1 = q.1 ∨ q.1 + 1 = p.1))

instance (p q : Nat × Nat) : Decidable (adjacent p q) := by unfold adjacent; infer_instance

/-- `cs` (tail first, head last) is the snake encoded by `body_state`: the i-th cell carries the
number i+1, every other cell of the board carries 0, consecutive cells are 4-adjacent, the last
cell is `head_position`, and there are `length` of them. -/
def Chain (cfg : Cfg) (s : State) (cs : List (Nat × Nat)) : Prop :=
  Grid.shaped s.bodyState cfg.rows cfg.cols = true ∧
  (cs.length : Int) = s.length ∧ 0 < cs.length ∧
  (∀ p ∈ cs, p.1 < cfg.rows ∧ p.2 < cfg.cols) ∧
  (∀ i, i < cs.length → Grid.get s.bodyState 0 (cs.getD i (0, 0)).1 (cs.getD i (0, 0)).2 = (i : Int) + 1) ∧
  (∀ p ∈ Grid.coords cfg.rows cfg.cols, p ∉ cs → Grid.get s.bodyState 0 p.1 p.2 = 0) ∧
  (∀ i, i < cs.length - 1 → adjacent (cs.getD i (0, 0)) (cs.getD (i + 1) (0, 0))) ∧
  (0 ≤ s.head.row ∧ 0 ≤ s.head.col ∧ cs.getD (cs.length - 1) (0, 0) = (s.head.row.toNat, s.head.col.toNat))

instance (cfg : Cfg) (s : State) (cs : List (Nat × Nat)) : Decidable (Chain cfg s cs) := by
  unfold Chain; infer_instance

/-- the first cell (row-major) that carries the number `v` -/
def findCell (cfg : Cfg) (bs : Grid Int) (v : Int) : Option (Nat × Nat) :=
  (Grid.coords cfg.rows cfg.cols).find? (fun p => Grid.get bs 0 p.1 p.2 == v)

/-- the candidate chain read off `body_state` -/
def chainOf (cfg : Cfg) (s : State) : List (Nat × Nat) :=
  (List.range s.length.toNat).filterMap (fun (k : Nat) => findCell cfg s.bodyState ((k : Int) + 1))

/-- the derived fields agree with `body_state`, the fruit is on a free cell of the grid (unless the
snake fills the board: `jnp.all(body)`, the implementation's own completion test), the cached mask is
the set of legal moves -/
def Derived (cfg : Cfg) (s : State) : Prop :=
  s.body = Grid.map (fun x => decide (x > 0)) s.bodyState ∧
  s.tail = Grid.map (fun x => decide (x = 1)) s.bodyState ∧
  inGrid cfg s.fruit.row s.fruit.col ∧
  (Grid.all id s.body = false → cell s.bodyState s.fruit.row s.fruit.col = 0) ∧
  s.actionMask = legalMask cfg s ∧
  0 ≤ s.stepCount

instance (cfg : Cfg) (s : State) : Decidable (Derived cfg s) := by unfold Derived; infer_instance

/-- physical consistency of a Snake state (C07) -/
def Consistent (cfg : Cfg) (s : State) : Prop := (∃ cs, Chain cfg s cs) ∧ Derived cfg s

/-- executable check: the chain read off `body_state` is a witness -/
def consistentB (cfg : Cfg) (s : State) : Bool :=
  decide (Chain cfg s (chainOf cfg s)) && decide (Derived cfg s)

/-- the rule of growth: the head cell is appended; the tail cell is dropped unless the fruit is eaten -/
def grow (cs : List (Nat × Nat)) (eaten : Bool) (h : Nat × Nat) : List (Nat × Nat) :=
  (if eaten then cs else cs.tail) ++ [h]

/-- does a legal move eat the fruit? -/
def eats (s : State) (a : Nat) : Bool :=
  decide ((target s a).1 = s.fruit.row) && decide ((target s a).2 = s.fruit.col)

/-- `body_state` written from a chain of cells -/
def encode (cfg : Cfg) (cs : List (Nat × Nat)) : Grid Int :=
  (List.range cfg.rows).map (fun r => (List.range cfg.cols).map (fun c =>
    match cs.idxOf? (r, c) with
    | some i => (i : Int) + 1
    | none => 0))

/-- L2 successor of a legal move (fruit position of an eating move given by the draw):
`none` when the state has no chain or the move is illegal -/
def stepSpec (cfg : Cfg) (s : State) (a : Nat) (d : Nat) : Option State :=
  let cs := chainOf cfg s
  if decide (Chain cfg s cs) && decide (legal cfg s a) then
    let t := target s a
    let e := eats s a
    let cs' := grow cs e (t.1.toNat, t.2.toNat)
    let bs' := encode cfg cs'
    let s1 : State :=
      { body := Grid.map (fun x => decide (x > 0)) bs', bodyState := bs', head := ⟨t.1, t.2⟩,
        tail := Grid.map (fun x => decide (x = 1)) bs',
        fruit := if e then fruitOfDraw cfg d else s.fruit,
        length := cs'.length, stepCount := s.stepCount + 1, actionMask := [] }
    some { s1 with actionMask := legalMask cfg s1 }
  else none

/-- the objective: fruits eaten so far (the snake starts with length 1) -/
def objective (s : State) : Int := s.length - 1

/-- L2 observation: the five documented planes recomputed from `body_state`, `head_position`,
`fruit_position` on the `rows × cols` board; the mask is the set of legal moves -/
def observe (rnd : Rat → Rat) (cfg : Cfg) (s : State) : Obs :=
  let plane (f : Nat → Nat → Rat) : Grid Rat :=
    (List.range cfg.rows).map (fun r => (List.range cfg.cols).map (fun c => f r c))
  let m := gridMax1 s.bodyState
  { body := plane (fun r c => b2r (decide (Grid.get s.bodyState 0 r c > 0))),
    head := plane (fun r c => b2r (decide ((r : Int) = s.head.row ∧ (c : Int) = s.head.col))),
    tail := plane (fun r c => b2r (decide (Grid.get s.bodyState 0 r c = 1))),
    fruit := plane (fun r c => b2r (decide ((r : Int) = s.fruit.row ∧ (c : Int) = s.fruit.col))),
    norm := plane (fun r c => rnd (((Grid.get s.bodyState 0 r c : Int) : Rat) / (m : Rat))),
    stepCount := s.stepCount,
    actionMask := legalMask cfg s }

/-- relation between a non-terminal transition's endpoints (C07 "conserved"): the chain of the
successor is the grown chain of the predecessor and the length grows by the fruit eaten -/
def growsFrom (cfg : Cfg) (s s' : State) : Bool :=
  let e := decide (s'.head = s.fruit)
  decide (s'.length = s.length + (if e then 1 else 0)) &&
  decide (0 ≤ s'.head.row ∧ 0 ≤ s'.head.col) &&
  decide (chainOf cfg s' = grow (chainOf cfg s) e (s'.head.row.toNat, s'.head.col.toNat))

end Snake
