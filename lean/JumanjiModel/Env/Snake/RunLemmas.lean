/-
Snake: proofs for the statement audit r2 (entries 5, 6, 12, 15 and the Snake gaps): step type and reward in terms of the
rules (C09/C11), `step` versus legality (C04), observations of consistent / reset states (C12), all non-terminal states of
any play from reset are consistent (C07), the reset draws (C10), the time limit along whole plays (C11), shapes (C01).
-/
import JumanjiModel.Env.Snake.Run
import JumanjiModel.Env.Snake.Lemmas
import JumanjiModel.Env.Snake.EpisodeLemmas
import JumanjiModel.Env.Snake.BoundsLemmas
namespace Snake
open Jm Jx

/-! ### board full ⇔ length = rows * cols, from the chain alone -/

theorem not_full_of_length' (cfg : Cfg) (s : State) (cs : List (Nat × Nat)) (hch : Chain cfg s cs)
    (hbody : s.body = Grid.map (fun x => decide (x > 0)) s.bodyState)
    (hlen : s.length < ((cfg.rows * cfg.cols : Nat) : Int)) : Grid.all id s.body = false := by
  obtain ⟨hsh, hl, _, _, _, hzero, _⟩ := hch
  have hlt : cs.length < cfg.rows * cfg.cols := by omega
  obtain ⟨p, hp, hnot⟩ := exists_coord_not_mem cfg.rows cfg.cols cs hlt
  have hz := hzero p hp hnot
  obtain ⟨hr, hcc⟩ := Grid.l_mem_coords.1 hp
  have hsb : Grid.shaped s.body cfg.rows cfg.cols = true := by rw [hbody, Grid.l_shaped_map]; exact hsh
  cases hall : Grid.all id s.body
  · rfl
  · have h1 := all_true_get hsb hall hr hcc
    rw [body_get cfg s hsh hbody hr hcc, hz] at h1
    exact absurd h1 (by decide)

theorem length_of_not_full' (cfg : Cfg) (s : State) (cs : List (Nat × Nat)) (hch : Chain cfg s cs)
    (hbody : s.body = Grid.map (fun x => decide (x > 0)) s.bodyState)
    (hnf : Grid.all id s.body = false) : s.length < ((cfg.rows * cfg.cols : Nat) : Int) := by
  have hnd := chain_nodup cfg s cs hch
  obtain ⟨hsh, hl, _, hin, henc, _⟩ := hch
  have hsb : Grid.shaped s.body cfg.rows cfg.cols = true := by rw [hbody, Grid.l_shaped_map]; exact hsh
  obtain ⟨r, c, hr, hcc, hg⟩ := all_false_exists hsb hnf
  rw [body_get cfg s hsh hbody hr hcc] at hg
  have hle : ¬ (Grid.get s.bodyState 0 r c > 0) := by simpa using hg
  have hpc : (r, c) ∈ Grid.coords cfg.rows cfg.cols := Grid.l_mem_coords.2 ⟨hr, hcc⟩
  have hnot : (r, c) ∉ cs := by
    intro hm
    obtain ⟨j, hj, hjp⟩ := List.getElem_of_mem hm
    have := henc j hj
    rw [List.getD_eq_getElem?_getD, List.getElem?_eq_getElem hj] at this
    simp only [Option.getD_some, hjp] at this
    omega
  have hsub : ∀ x ∈ cs, x ∈ (Grid.coords cfg.rows cfg.cols).erase (r, c) := by
    intro x hx
    have hne : x ≠ (r, c) := fun e => hnot (e ▸ hx)
    exact (List.mem_erase_of_ne hne).2 (Grid.l_mem_coords.2 (hin x hx))
  have hle2 := nodup_subset_length_le cs _ hnd hsub
  rw [List.length_erase_of_mem hpc, length_coords] at hle2
  have hpos : 0 < (Grid.coords cfg.rows cfg.cols).length := List.length_pos_of_mem hpc
  rw [length_coords] at hpos
  omega

/-- the chain has at most as many cells as the board -/
theorem chain_length_le (cfg : Cfg) (s : State) (cs : List (Nat × Nat)) (hch : Chain cfg s cs) :
    s.length ≤ ((cfg.rows * cfg.cols : Nat) : Int) := by
  have hnd := chain_nodup cfg s cs hch
  obtain ⟨_, hl, _, hin, _⟩ := hch
  have := nodup_subset_length_le cs (Grid.coords cfg.rows cfg.cols) hnd
    (fun x hx => Grid.l_mem_coords.2 (hin x hx))
  rw [length_coords] at this
  omega

/-! ### C09 / C11: step type and reward in terms of the rules -/

/-- from a consistent state shorter than the board, for every in-spec action and every draw: the step is LAST iff the
move is illegal, or the snake now fills the board (`length' = rows * cols`), or the time limit is reached; and the
reward is 1 iff the move eats the fruit -/
theorem step_ts_rules (rnd : Rat → Rat) (cfg : Cfg) (s : State) (a : Nat) (d : Nat) (ha : a < 4)
    (hc : Consistent cfg s) (hlen : s.length < ((cfg.rows * cfg.cols : Nat) : Int)) :
    ((step rnd cfg s a d).2.stepType = .last ↔
      (¬ legal cfg s a ∨ (step rnd cfg s a d).1.length = ((cfg.rows * cfg.cols : Nat) : Int) ∨
        s.stepCount + 1 ≥ cfg.timeLimit)) ∧
    (step rnd cfg s a d).2.reward = [if eats s a then 1 else 0] := by
  refine ⟨?_, by rw [step_reward, eatenB_eq s ha]⟩
  have hnf := not_full_of_length cfg s hc hlen
  obtain ⟨⟨cs, hch⟩, hbody, htail, hfin, hffree, hmask, hsc⟩ := hc
  have hv := step_agrees cfg s a ha hmask
  rw [step_type]
  by_cases hl : legal cfg s a
  · have hch' := step_chain rnd cfg s a d cs hch hl (fun _ => hffree hnf)
    have hb' : (step rnd cfg s a d).1.body = Grid.map (fun x => decide (x > 0)) (step rnd cfg s a d).1.bodyState := rfl
    have hle := chain_length_le cfg _ _ hch'
    have hfull : Grid.all id (step rnd cfg s a d).1.body = true ↔
        (step rnd cfg s a d).1.length = ((cfg.rows * cfg.cols : Nat) : Int) := by
      constructor
      · intro hall
        apply Classical.byContradiction
        intro hne
        have hlt : (step rnd cfg s a d).1.length < ((cfg.rows * cfg.cols : Nat) : Int) := by omega
        have := not_full_of_length' cfg _ _ hch' hb' hlt
        rw [hall] at this; exact absurd this (by decide)
      · intro heq
        cases hall : Grid.all id (step rnd cfg s a d).1.body
        · have := length_of_not_full' cfg _ _ hch' hb' hall
          omega
        · rfl
    have hvt : getWC s.actionMask false (a : Int) = true := hv.2 hl
    simp only [hvt, Bool.not_true, Bool.false_or, Bool.or_eq_true, decide_eq_true_eq]
    constructor
    · intro h
      split at h
      · rename_i hcond
        rcases hcond with h1 | h1
        · exact Or.inr (Or.inl (hfull.1 h1))
        · exact Or.inr (Or.inr h1)
      · exact absurd h (by decide)
    · rintro (h1 | h1 | h1)
      · exact absurd hl h1
      · rw [if_pos (Or.inl (hfull.2 h1))]
      · rw [if_pos (Or.inr h1)]
  · have hvf : getWC s.actionMask false (a : Int) = false := by
      cases hh : getWC s.actionMask false (a : Int)
      · rfl
      · exact absurd (hv.1 hh) hl
    simp [hvf, hl]

/-- C04 about `step`: with a correct cached mask, on a step that neither fills the board nor reaches the time limit,
`step` ends the episode exactly when the rules forbid the move -/
theorem step_agrees_step (rnd : Rat → Rat) (cfg : Cfg) (s : State) (a : Nat) (d : Nat) (ha : a < 4)
    (hm : s.actionMask = legalMask cfg s) (hnc : Grid.all id (step rnd cfg s a d).1.body = false)
    (hbl : s.stepCount + 1 < cfg.timeLimit) :
    (step rnd cfg s a d).2.stepType = .last ↔ ¬ legal cfg s a := by
  have hv := step_agrees cfg s a ha hm
  rw [step_type, hnc]
  have h3 : ¬ (s.stepCount + 1 ≥ cfg.timeLimit) := by omega
  cases h1 : getWC s.actionMask false (a : Int)
  · have : ¬ legal cfg s a := fun hl => by rw [hv.2 hl] at h1; exact absurd h1 (by decide)
    simp [h3, this]
  · have : legal cfg s a := hv.1 h1
    simp [h3, this]

/-! ### C12: observations of consistent states, reset -/

theorem head_inGrid_of_chain (cfg : Cfg) (t : State) (cs : List (Nat × Nat)) (hch : Chain cfg t cs) :
    inGrid cfg t.head.row t.head.col := by
  obtain ⟨_, _, hpos, hin, _, _, _, h0r, h0c, hlast⟩ := hch
  have hmem : cs.getD (cs.length - 1) (0, 0) ∈ cs := by
    rw [List.getD_eq_getElem?_getD, List.getElem?_eq_getElem (by omega)]
    exact List.getElem_mem _
  have := hin _ hmem
  rw [hlast] at this
  simp only [] at this
  unfold inGrid
  omega

/-- in every consistent state `_state_to_observation` returns the documented observation -/
theorem obs_of_consistent (rnd : Rat → Rat) (cfg : Cfg) (t : State) (hc : Consistent cfg t) :
    stateToObs rnd t = observe rnd cfg t := by
  obtain ⟨⟨cs, hch⟩, hbody, htail, hfin, _, hmask, _⟩ := hc
  exact obs_eq rnd cfg t hch.1 hbody htail (head_inGrid_of_chain cfg t cs hch) hfin hmask

/-- the reset observation is the documented function of the reset state, and the timestep is FIRST -/
theorem reset_obs_faithful (rnd : Rat → Rat) (cfg : Cfg) (hr hc : Nat) (d : Nat)
    (h1 : hr < cfg.rows) (h2 : hc < cfg.cols) (hd : validDraw cfg (reset rnd cfg hr hc d).1.body d) :
    (reset rnd cfg hr hc d).2.obs = observe rnd cfg (reset rnd cfg hr hc d).1 ∧
    (reset rnd cfg hr hc d).2.stepType = .first :=
  ⟨obs_of_consistent rnd cfg _ (reset_consistent rnd cfg hr hc d h1 h2 hd).1, rfl⟩

/-! ### C10: the reset draws -/

/-- for all head cells of the board and all admissible fruit draws: head and fruit are cells of the board, they are
DIFFERENT cells on every board with more than one cell, the snake is the single head cell, length 1, counter 0 -/
theorem reset_wellformed (rnd : Rat → Rat) (cfg : Cfg) (hr hc : Nat) (d : Nat)
    (h1 : hr < cfg.rows) (h2 : hc < cfg.cols) (hd : validDraw cfg (reset rnd cfg hr hc d).1.body d) :
    inGrid cfg (reset rnd cfg hr hc d).1.head.row (reset rnd cfg hr hc d).1.head.col ∧
    inGrid cfg (reset rnd cfg hr hc d).1.fruit.row (reset rnd cfg hr hc d).1.fruit.col ∧
    (1 < cfg.rows * cfg.cols → (reset rnd cfg hr hc d).1.fruit ≠ (reset rnd cfg hr hc d).1.head) ∧
    Chain cfg (reset rnd cfg hr hc d).1 [(hr, hc)] ∧
    (reset rnd cfg hr hc d).1.length = 1 ∧ (reset rnd cfg hr hc d).1.stepCount = 0 := by
  have hC := (reset_consistent rnd cfg hr hc d h1 h2 hd).1
  obtain ⟨cs, hch⟩ := hC.1
  have hhead := head_inGrid_of_chain cfg _ cs hch
  have hcs : cs = [(hr, hc)] := by
    obtain ⟨_, hl, _, _, _, _, _, _, _, hlast⟩ := hch
    have hl1 : cs.length = 1 := by
      have : ((cs.length : Nat) : Int) = 1 := hl
      omega
    match cs, hl1 with
    | [p], _ =>
      have hl' : [p].getD ([p].length - 1) (0, 0) = ((hr : Int).toNat, (hc : Int).toNat) := hlast
      simp at hl'
      simp [hl']
  subst hcs
  refine ⟨hhead, hC.2.2.2.1, ?_, hch, rfl, rfl⟩
  intro hbig heq
  have hnf := not_full_of_length cfg _ hC (by rw [reset_length]; omega)
  have h0 := hC.2.2.2.2.1 hnf
  rw [heq] at h0
  have h1' := hch.2.2.2.2.1 0 (by simp)
  simp only [List.getD_cons_zero] at h1'
  unfold cell at h0
  have e1 : (reset rnd cfg hr hc d).1.head.row.toNat = hr := by show ((hr : Int)).toNat = hr; simp
  have e2 : (reset rnd cfg hr hc d).1.head.col.toNat = hc := by show ((hc : Int)).toNat = hc; simp
  rw [e1, e2] at h0
  rw [h0] at h1'
  omega

/-! ### C07: all non-terminal states of any play from a consistent state (e.g. reset) are consistent -/

/-- invariant of a running episode -/
def RunInv (cfg : Cfg) (s : State) : Prop := Consistent cfg s ∧ s.length < ((cfg.rows * cfg.cols : Nat) : Int)

/-- a step that does not eat the fruit does not use its draw -/
theorem step_draw_irrel (rnd : Rat → Rat) (cfg : Cfg) (s : State) (a : Int) (d d' : Nat)
    (he : eatenB s a = false) : step rnd cfg s a d = step rnd cfg s a d' := by
  unfold eatenB headAfter at he
  unfold step
  simp only [he, Bool.false_eq_true, if_false]

/-- every body plane of a non-empty board admits an admissible draw -/
theorem exists_validDraw (cfg : Cfg) (body : Grid Bool) (hs : Grid.shaped body cfg.rows cfg.cols = true)
    (hpos : 0 < cfg.rows * cfg.cols) : ∃ d, validDraw cfg body d := by
  cases hall : Grid.all id body
  · obtain ⟨r, c, hr, hc, hg⟩ := all_false_exists hs hall
    refine ⟨r * cfg.cols + c, ?_, fun _ => ?_⟩
    · calc r * cfg.cols + c < r * cfg.cols + cfg.cols := by omega
        _ = (r + 1) * cfg.cols := by rw [Nat.succ_mul]
        _ ≤ cfg.rows * cfg.cols := Nat.mul_le_mul_right _ hr
    · have e1 : (r * cfg.cols + c) / cfg.cols = r := by
        rw [Nat.add_comm, Nat.add_mul_div_right _ _ (by omega), Nat.div_eq_of_lt hc]; omega
      have e2 : (r * cfg.cols + c) % cfg.cols = c := by
        rw [Nat.add_comm, Nat.add_mul_mod_self_right, Nat.mod_eq_of_lt hc]
      rw [e1, e2]; exact hg
  · exact ⟨0, hpos, fun h => by rw [hall] at h; exact absurd h (by decide)⟩

theorem stepA_inv (rnd : Rat → Rat) (cfg : Cfg) (s : State) (ad : ActDraw) (h : RunInv cfg s)
    (hok : okStep rnd cfg s ad) (hn : ¬ (stepA rnd cfg s ad).2.stepType = .last) :
    RunInv cfg (stepA rnd cfg s ad).1 := by
  cases he : eats s ad.1
  · -- the draw is not used: replace it by an admissible one
    have heB : eatenB s (ad.1 : Int) = false := by rw [eatenB_eq s hok.1]; exact he
    obtain ⟨⟨cs, hch⟩, _⟩ := h.1
    have hpos : 0 < cfg.rows * cfg.cols := by
      have := hch.2.1; have := hch.2.2.1; have := h.2; omega
    have hsb : Grid.shaped (stepA rnd cfg s ad).1.body cfg.rows cfg.cols = true := by
      show Grid.shaped (Grid.map _ (step rnd cfg s ad.1 ad.2).1.bodyState) _ _ = true
      rw [Grid.l_shaped_map, step_fst]; exact bsAfter_shaped cfg s _ hch.1
    obtain ⟨d', hd'⟩ := exists_validDraw cfg _ hsb hpos
    have heq : stepA rnd cfg s ad = step rnd cfg s (ad.1 : Int) d' := step_draw_irrel rnd cfg s _ _ _ heB
    rw [heq] at hd' hn ⊢
    exact step_consistent_mid_of_length rnd cfg s ad.1 d' hok.1 h.1 h.2 hd' hn
  · exact step_consistent_mid_of_length rnd cfg s ad.1 ad.2 hok.1 h.1 h.2 (hok.2 he) hn

/-- if none of the first `k` transitions of a play is LAST, the state they lead to is consistent and shorter than
the board -/
theorem run_consistent (rnd : Rat → Rat) (cfg : Cfg) (s : State) (hc : Consistent cfg s)
    (hlen : s.length < ((cfg.rows * cfg.cols : Nat) : Int)) (ads : List ActDraw) (k : Nat) (hk : k ≤ ads.length)
    (hok : ∀ j (hj : j < ads.length), j < k → okStep rnd cfg (EpRun.after (stepA rnd cfg) s (ads.take j)) ads[j])
    (hno : EpRun.NoLastBefore (stepA rnd cfg) (·.stepType = .last) s ads k) :
    Consistent cfg (EpRun.after (stepA rnd cfg) s (ads.take k)) ∧
    (EpRun.after (stepA rnd cfg) s (ads.take k)).length < ((cfg.rows * cfg.cols : Nat) : Int) :=
  EpRun.after_inv_mid (stepA rnd cfg) (·.stepType = .last) (RunInv cfg) (okStep rnd cfg)
    (stepA_inv rnd cfg) s ads k hk ⟨hc, hlen⟩ hok hno

/-- the same about the entries of `run`: every state reached by a non-LAST transition, all earlier transitions being
non-LAST too, is consistent -/
theorem run_states_consistent (rnd : Rat → Rat) (cfg : Cfg) (s : State) (hc : Consistent cfg s)
    (hlen : s.length < ((cfg.rows * cfg.cols : Nat) : Int)) (ads : List ActDraw) (k : Nat)
    (p : State × TimeStep Obs) (h : (run rnd cfg s ads)[k]? = some p)
    (hok : ∀ j (hj : j < ads.length), j ≤ k → okStep rnd cfg (EpRun.after (stepA rnd cfg) s (ads.take j)) ads[j])
    (hno : EpRun.NoLastBefore (stepA rnd cfg) (·.stepType = .last) s ads (k + 1)) :
    Consistent cfg p.1 := by
  obtain ⟨hlt, rfl⟩ := EpRun.run_get_eq (stepA rnd cfg) s ads k p h
  have := run_consistent rnd cfg s hc hlen ads (k + 1) (by omega) (fun j hj hjk => hok j hj (by omega)) hno
  rw [List.take_succ_eq_append_getElem hlt] at this
  have e : ∀ (t : State) (l : List ActDraw) (x : ActDraw),
      EpRun.after (stepA rnd cfg) t (l ++ [x]) = (stepA rnd cfg (EpRun.after (stepA rnd cfg) t l) x).1 := by
    intro t l x
    induction l generalizing t with
    | nil => rfl
    | cons y l ih => simp only [List.cons_append, EpRun.after]; exact ih _
  rw [e] at this
  exact this.1

/-! ### C11: the time limit along whole plays -/

theorem stepA_count (rnd : Rat → Rat) (cfg : Cfg) (s : State) (ad : ActDraw) :
    (stepA rnd cfg s ad).1.stepCount = s.stepCount + 1 := (step_count rnd cfg s _ _).1

theorem stepA_limit (rnd : Rat → Rat) (cfg : Cfg) (s : State) (ad : ActDraw)
    (h : s.stepCount + 1 ≥ cfg.timeLimit) : (stepA rnd cfg s ad).2.stepType = .last :=
  (step_count rnd cfg s _ _).2 h

/-- never later (no hypotheses) -/
theorem run_last_at_limit (rnd : Rat → Rat) (cfg : Cfg) (s : State) (ads : List ActDraw) (k : Nat)
    (p : State × TimeStep Obs) (h : (run rnd cfg s ads)[k]? = some p)
    (hk : s.stepCount + k + 1 ≥ cfg.timeLimit) : p.2.stepType = .last :=
  EpRun.run_last_at_limit (stepA rnd cfg) (·.stepCount) (·.stepType = .last) cfg.timeLimit (stepA_count rnd cfg)
    (stepA_limit rnd cfg) s ads k p h hk

theorem run_exists_last (rnd : Rat → Rat) (cfg : Cfg) (s : State) (ads : List ActDraw)
    (h0 : s.stepCount < cfg.timeLimit) (hlen : cfg.timeLimit - s.stepCount ≤ ads.length) :
    ∃ (k : Nat) (p : State × TimeStep Obs), s.stepCount + k + 1 ≤ cfg.timeLimit ∧
      (run rnd cfg s ads)[k]? = some p ∧ p.2.stepType = .last :=
  EpRun.run_exists_last (stepA rnd cfg) (·.stepCount) (·.stepType = .last) cfg.timeLimit (stepA_count rnd cfg)
    (stepA_limit rnd cfg) s ads h0 hlen

/-- the other causes of termination of a step, in terms of the rules -/
def otherCause (rnd : Rat → Rat) (cfg : Cfg) (s : State) (ad : ActDraw) : Prop :=
  ¬ legal cfg s ad.1 ∨ (stepA rnd cfg s ad).1.length = ((cfg.rows * cfg.cols : Nat) : Int)

theorem stepA_last_iff (rnd : Rat → Rat) (cfg : Cfg) (s : State) (ad : ActDraw) (h : RunInv cfg s)
    (hok : okStep rnd cfg s ad) :
    (stepA rnd cfg s ad).2.stepType = .last ↔ (otherCause rnd cfg s ad ∨ s.stepCount + 1 ≥ cfg.timeLimit) := by
  have := (step_ts_rules rnd cfg s ad.1 ad.2 hok.1 h.1 h.2).1
  unfold stepA otherCause
  rw [this]
  constructor
  · rintro (h1 | h1 | h1)
    · exact Or.inl (Or.inl h1)
    · exact Or.inl (Or.inr h1)
    · exact Or.inr h1
  · rintro ((h1 | h1) | h1)
    · exact Or.inl h1
    · exact Or.inr (Or.inl h1)
    · exact Or.inr (Or.inr h1)

/-- never earlier: up to and including the first LAST of a play from a consistent state, a transition is LAST iff the
move is illegal, the snake fills the board, or the step number reaches the limit -/
theorem run_last_iff (rnd : Rat → Rat) (cfg : Cfg) (s : State) (hc : Consistent cfg s)
    (hlen : s.length < ((cfg.rows * cfg.cols : Nat) : Int)) (ads : List ActDraw) (k : Nat)
    (p : State × TimeStep Obs)
    (hok : ∀ j (hj : j < ads.length), j ≤ k → okStep rnd cfg (EpRun.after (stepA rnd cfg) s (ads.take j)) ads[j])
    (hno : EpRun.NoLastBefore (stepA rnd cfg) (·.stepType = .last) s ads k)
    (h : (run rnd cfg s ads)[k]? = some p) :
    ∃ hk : k < ads.length,
      (p.2.stepType = .last ↔
        (otherCause rnd cfg (EpRun.after (stepA rnd cfg) s (ads.take k)) ads[k] ∨
          s.stepCount + k + 1 ≥ cfg.timeLimit)) := by
  obtain ⟨hk, _, hi⟩ := EpRun.run_last_iff (stepA rnd cfg) (·.stepCount) (·.stepType = .last) cfg.timeLimit
    (RunInv cfg) (okStep rnd cfg) (otherCause rnd cfg) (stepA_count rnd cfg) (stepA_inv rnd cfg)
    (stepA_last_iff rnd cfg) s ads k p ⟨hc, hlen⟩ hok hno h
  exact ⟨hk, hi⟩

/-- if no other cause of termination occurs, the first LAST is exactly at step `time_limit` -/
theorem run_first_last_eq (rnd : Rat → Rat) (cfg : Cfg) (s : State) (hc : Consistent cfg s)
    (hlen : s.length < ((cfg.rows * cfg.cols : Nat) : Int)) (h0 : s.stepCount < cfg.timeLimit)
    (ads : List ActDraw) (k : Nat) (p : State × TimeStep Obs)
    (hok : ∀ j (hj : j < ads.length), j ≤ k → okStep rnd cfg (EpRun.after (stepA rnd cfg) s (ads.take j)) ads[j])
    (hno : EpRun.NoLastBefore (stepA rnd cfg) (·.stepType = .last) s ads k)
    (h : (run rnd cfg s ads)[k]? = some p) (hlast : p.2.stepType = .last)
    (hother : ∀ hk : k < ads.length, ¬ otherCause rnd cfg (EpRun.after (stepA rnd cfg) s (ads.take k)) ads[k]) :
    s.stepCount + k + 1 = cfg.timeLimit :=
  EpRun.run_first_last_eq (stepA rnd cfg) (·.stepCount) (·.stepType = .last) cfg.timeLimit
    (RunInv cfg) (okStep rnd cfg) (otherCause rnd cfg) (stepA_count rnd cfg) (stepA_inv rnd cfg)
    (stepA_last_iff rnd cfg) s ads k p ⟨hc, hlen⟩ h0 hok hno h hlast hother

/-! ### C01: shapes -/

theorem getActionMask_length (cfg : Cfg) (h : Pos) (bs : Grid Int) : (getActionMask cfg h bs).length = 4 := by
  unfold getActionMask moves; simp

theorem stateToObs_shaped (rnd : Rat → Rat) (cfg : Cfg) (s : State)
    (hb : Grid.shaped s.body cfg.rows cfg.cols = true) (ht : Grid.shaped s.tail cfg.rows cfg.cols = true)
    (hbs : Grid.shaped s.bodyState cfg.rows cfg.cols = true) (hm : s.actionMask.length = 4) :
    ObsShaped cfg (stateToObs rnd s) := by
  unfold stateToObs ObsShaped
  simp only []
  have hz : Grid.shaped (Grid.map (fun _ => false) s.body) cfg.rows cfg.cols = true := by
    rw [Grid.l_shaped_map]; exact hb
  refine ⟨?_, ?_, ?_, ?_, ?_, hm⟩
  · rw [Grid.l_shaped_map]; exact hb
  · rw [Grid.l_shaped_map]; exact Grid.l_shaped_setWD hz _ _ _
  · rw [Grid.l_shaped_map]; exact ht
  · rw [Grid.l_shaped_map]; exact Grid.l_shaped_setWD hz _ _ _
  · rw [Grid.l_shaped_map]; exact hbs

/-- every step from a state whose `body_state` has the configured shape (ANY action value, any draw) emits an
observation of the declared shapes, and the successor's `body_state` has that shape again -/
theorem step_obs_shaped (rnd : Rat → Rat) (cfg : Cfg) (s : State) (a : Int) (d : Nat)
    (hs : Grid.shaped s.bodyState cfg.rows cfg.cols = true) :
    ObsShaped cfg (step rnd cfg s a d).2.obs ∧
    Grid.shaped (step rnd cfg s a d).1.bodyState cfg.rows cfg.cols = true := by
  have hbs : Grid.shaped (step rnd cfg s a d).1.bodyState cfg.rows cfg.cols = true := by
    rw [step_fst]; exact bsAfter_shaped cfg s a hs
  refine ⟨?_, hbs⟩
  rw [step_obs]
  apply stateToObs_shaped rnd cfg _ _ _ hbs (getActionMask_length cfg _ _)
  · show Grid.shaped (Grid.map _ (step rnd cfg s a d).1.bodyState) _ _ = true
    rw [Grid.l_shaped_map]; exact hbs
  · show Grid.shaped (Grid.map _ (step rnd cfg s a d).1.bodyState) _ _ = true
    rw [Grid.l_shaped_map]; exact hbs

theorem shaped_mk' (nr nc : Nat) (v : Bool) : Grid.shaped (Grid.mk nr nc v) nr nc = true := by
  rw [Grid.l_shaped_iff]
  unfold Grid.mk
  refine ⟨by simp, ?_⟩
  intro row hrow
  rw [List.mem_replicate] at hrow
  rw [hrow.2]; simp

/-- the reset observation (ANY draws) has the declared shapes -/
theorem reset_obs_shaped (rnd : Rat → Rat) (cfg : Cfg) (hr hc : Nat) (d : Nat) :
    ObsShaped cfg (reset rnd cfg hr hc d).2.obs ∧
    Grid.shaped (reset rnd cfg hr hc d).1.bodyState cfg.rows cfg.cols = true := by
  have hb : Grid.shaped (reset rnd cfg hr hc d).1.body cfg.rows cfg.cols = true := by
    show Grid.shaped (Grid.setWD (Grid.mk cfg.rows cfg.cols false) (hr : Int) (hc : Int) true) _ _ = true
    exact Grid.l_shaped_setWD (shaped_mk' cfg.rows cfg.cols false) _ _ _
  have hbs : Grid.shaped (reset rnd cfg hr hc d).1.bodyState cfg.rows cfg.cols = true := by
    show Grid.shaped (Grid.map _ (reset rnd cfg hr hc d).1.body) _ _ = true
    rw [Grid.l_shaped_map]; exact hb
  exact ⟨stateToObs_shaped rnd cfg _ hb hb hbs (getActionMask_length cfg _ _), hbs⟩

end Snake
