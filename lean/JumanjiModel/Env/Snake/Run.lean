/-
Snake: the play-out `run` of the L1 `step` over in-spec actions with their fruit draws, and the shapes of the
observation leaves (C01).  Import-free (core + this environment's model files).
-/
import JumanjiModel.Env.Snake.Model
import JumanjiModel.Env.Snake.Bounds
import JumanjiModel.Env.EpisodeRun
namespace Snake
open Jm Jx

/-- an action 0..3 together with the fruit draw of that step (used only when the fruit is eaten) -/
abbrev ActDraw := Nat × Nat

/-- the L1 `step` on an (action, draw) pair -/
def stepA (rnd : Rat → Rat) (cfg : Cfg) (s : State) (ad : ActDraw) : State × TimeStep Obs :=
  step rnd cfg s (ad.1 : Int) ad.2

/-- the play-out: (successor state, timestep) for every (action, draw) of `ads`, in order (goes on past a LAST) -/
def run (rnd : Rat → Rat) (cfg : Cfg) : State → List ActDraw → List (State × TimeStep Obs) :=
  EpRun.run (stepA rnd cfg)

/-- an admissible pair in state `s`: an action of the action spec and — when the move eats the fruit, the only case in
which the implementation draws — an admissible fruit draw for the successor body -/
def okStep (rnd : Rat → Rat) (cfg : Cfg) (s : State) (ad : ActDraw) : Prop :=
  ad.1 < 4 ∧ (eats s ad.1 = true → validDraw cfg (stepA rnd cfg s ad).1.body ad.2)

instance (rnd : Rat → Rat) (cfg : Cfg) (s : State) (ad : ActDraw) : Decidable (okStep rnd cfg s ad) := by
  unfold okStep; infer_instance

/-- C01: shapes of the observation leaves (`grid` = the five planes stacked on the last axis) -/
def obsShapes (cfg : Cfg) : List (String × List Nat) :=
  [("grid", [cfg.rows, cfg.cols, 5]), ("step_count", []), ("action_mask", [4])]

/-- the observation has the shapes `obsShapes cfg` lists: five `rows × cols` planes, a 4-entry mask -/
def ObsShaped (cfg : Cfg) (o : Obs) : Prop :=
  Grid.shaped o.body cfg.rows cfg.cols = true ∧ Grid.shaped o.head cfg.rows cfg.cols = true ∧
  Grid.shaped o.tail cfg.rows cfg.cols = true ∧ Grid.shaped o.fruit cfg.rows cfg.cols = true ∧
  Grid.shaped o.norm cfg.rows cfg.cols = true ∧ o.actionMask.length = 4

end Snake
