/-
Snake, property C01: the interval in which every numeric leaf of the MODEL's observation provably stays
(`obsBounds`, a function of the configuration only) and the flattened leaves of an observation (`obsLeaves`,
keys = names of the leaves of the real `observation_spec`; `grid` = the five stacked planes).  Import-free.
Proofs: Env/Snake/BoundsLemmas.lean, theorems: Props/Env/Snake.lean (C01).
-/
import JumanjiModel.Env.Snake.Model
namespace Snake
open Jm Jx

/-- closed integer interval as a pair of optional rational ends -/
def ivInt (lo hi : Int) : Option Rat × Option Rat := (some (lo : Rat), some (hi : Rat))

/-- value bounds of the observation leaves, from the configuration only: all five planes (four indicator planes
and `body_state / max(1, body_state.max())`) in `[0, 1]`; `step_count` between 0 and `time_limit` (reached on
the terminal step); mask 0..1 -/
def obsBounds (cfg : Cfg) : List (String × Option Rat × Option Rat) :=
  [("grid", ivInt 0 1),
   ("step_count", ivInt 0 cfg.timeLimit),
   ("action_mask", ivInt 0 1)]

/-- all values of every leaf of an observation -/
def obsLeaves (o : Obs) : List (String × List Rat) :=
  [("grid", List.flatten o.body ++ List.flatten o.head ++ List.flatten o.tail ++ List.flatten o.fruit ++
            List.flatten o.norm),
   ("step_count", [(o.stepCount : Rat)]),
   ("action_mask", o.actionMask.map b2r)]

/-- `v` lies in the interval (`none` = unbounded on that side) -/
def inIv (iv : Option Rat × Option Rat) (v : Rat) : Prop :=
  (∀ l, iv.1 = some l → l ≤ v) ∧ (∀ h, iv.2 = some h → v ≤ h)

/-- every value of every leaf listed in `obsBounds cfg` lies in its interval -/
def ObsInBounds (cfg : Cfg) (o : Obs) : Prop :=
  ∀ k iv, (k, iv) ∈ obsBounds cfg → ∀ vs, (k, vs) ∈ obsLeaves o → ∀ v ∈ vs, inIv iv v

/-- the part of `Consistent` the bounds need (kept by EVERY step, valid action or not): the numbers written
on the board and the length are non-negative, the counter is non-negative -/
def NonNeg (s : State) : Prop :=
  (∀ x ∈ List.flatten s.bodyState, (0 : Int) ≤ x) ∧ 0 ≤ s.length ∧ 0 ≤ s.stepCount

/-- what the bounds need from the float32 rounding of the division: it keeps `[0, 1]` (true of any monotone
rounding that fixes 0 and 1, in particular of round-to-nearest binary32) -/
def RndKeeps01 (rnd : Rat → Rat) : Prop := ∀ x, 0 ≤ x → x ≤ 1 → 0 ≤ rnd x ∧ rnd x ≤ 1

end Snake
