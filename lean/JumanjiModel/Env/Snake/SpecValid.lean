/-
Snake — C01 spec membership (wave 4): the declared specs as `Sp` values (`obsSpec cfg`, `actionSpec`; equal to the generated
literals of the catalogue configuration, Props/Env/Snake.lean), the model observation as the spec-level arrays the
implementation emits (`toNValue`: `grid` = the five planes stacked on the LAST axis, i.e. cell `(r, c)` contributes
`[body, head, tail, fruit, norm]`, row-major; the board shape is READ OFF the `body` plane), membership of the observation of
`reset` (ANY head / fruit draws) and of EVERY `step` (ANY integer as action — legal, illegal, outside the action space —, ANY
fruit draw, terminal step included) from a state satisfying the invariant `SpecInv` (`body_state` has the configured shape,
board numbers / length / counter non-negative) whose counter has not reached the limit; the invariant is established by reset
and preserved by EVERY step; whole rollouts up to the time limit; the converse (`obs_valid_only`); reward / discount / action.

Floats: as in the bounds theorems of Env/Snake/BoundsLemmas.lean, the float32 division of the `norm_body_state` plane is the
parameter `rnd` with the hypothesis `RndKeeps01 rnd` (discharged for `Jx.roundF32` in Props/Env/Snake.lean).
-/
import JumanjiModel.Env.Snake.BoundsLemmas
import JumanjiModel.Env.Snake.RunLemmas
import JumanjiModel.Env.PackSpecValid
import JumanjiModel.Env.SpecValidW3
import JumanjiModel.Env.RoutingSpecValid
namespace Snake
open Jm Jx Sp PzS PkS

/-! ### the declared specs (env.py `observation_spec`, `action_spec`) -/

/-- `observation_spec`: `grid` BoundedArray((R, C, 5), float, 0, 1), `step_count` DiscreteArray(time_limit + 1, int32),
`action_mask` BoundedArray((4,), bool, False, True) -/
def obsSpec (cfg : Cfg) : Sp.Nested :=
  [("grid", .bounded [cfg.rows, cfg.cols, 5] .float32 "grid" [] [0] [] [1]),
   ("step_count", .discrete (cfg.timeLimit + 1).toNat .int32 "step_count"),
   ("action_mask", .bounded [4] .bool "action_mask" [] [0] [] [1])]

/-- `action_spec`: DiscreteArray(4, int32) -/
def actionSpec : Leaf := .discrete 4 .int32 "action"

/-- `jnp.concatenate([body, head, tail, fruit, norm_body_state][..., None], axis=-1)`: cell `(r, c)` of the `grid` leaf holds
the five plane values; the board shape is read off the `body` plane -/
def stacked (o : Obs) : List (List (List Rat)) :=
  (List.range o.body.length).map (fun r => (List.range (o.body.headD []).length).map (fun c =>
    [Grid.get o.body 0 r c, Grid.get o.head 0 r c, Grid.get o.tail 0 r c, Grid.get o.fruit 0 r c,
     Grid.get o.norm 0 r c]))

/-- a model observation as the arrays the implementation emits -/
def toNValue (o : Obs) : NValue :=
  [("grid", ⟨[o.body.length, (o.body.headD []).length, 5], .float32, (stacked o).flatten.flatten⟩),
   ("step_count", ⟨[], .int32, [(o.stepCount : Rat)]⟩),
   ("action_mask", ⟨shape1 o.actionMask, .bool, ofBools o.actionMask⟩)]

def actionArr (a : Int) : Arr := ⟨[], .int32, [(a : Rat)]⟩

/-! ### the `grid` leaf -/

theorem stacked_rect (o : Obs) : Rect3 (stacked o) o.body.length (o.body.headD []).length 5 := by
  refine ⟨by simp [stacked], ?_⟩
  intro x hx
  obtain ⟨r, _, rfl⟩ := List.mem_map.1 hx
  refine ⟨by simp, ?_⟩
  intro y hy
  obtain ⟨c, _, rfl⟩ := List.mem_map.1 hy
  simp

theorem stacked_length (o : Obs) :
    (stacked o).flatten.flatten.length = o.body.length * (o.body.headD []).length * 5 := by
  obtain ⟨h1, h2⟩ := stacked_rect o
  have hrows : ∀ row ∈ (stacked o).flatten, row.length = 5 := by
    intro row hrow
    obtain ⟨x, hx, hr'⟩ := List.mem_flatten.mp hrow
    exact (h2 x hx).2 row hr'
  rw [length_flatten_const _ 5 hrows, length_flatten_const _ _ (fun x hx => (h2 x hx).1), h1]

/-- the entries of the `grid` leaf are exactly the plane values at the cells of the board -/
theorem mem_stacked (o : Obs) (x : Rat) :
    x ∈ (stacked o).flatten.flatten ↔ ∃ r c, r < o.body.length ∧ c < (o.body.headD []).length ∧
      x ∈ [Grid.get o.body 0 r c, Grid.get o.head 0 r c, Grid.get o.tail 0 r c, Grid.get o.fruit 0 r c,
           Grid.get o.norm 0 r c] := by
  constructor
  · intro hx
    obtain ⟨cell, hcell, hx'⟩ := List.mem_flatten.mp hx
    obtain ⟨row, hrow, hcell'⟩ := List.mem_flatten.mp hcell
    obtain ⟨r, hr, rfl⟩ := List.mem_map.1 hrow
    obtain ⟨c, hc, rfl⟩ := List.mem_map.1 hcell'
    exact ⟨r, c, List.mem_range.1 hr, List.mem_range.1 hc, hx'⟩
  · rintro ⟨r, c, hr, hc, hx⟩
    refine List.mem_flatten.mpr ⟨_, List.mem_flatten.mpr ⟨_, List.mem_map.2 ⟨r, List.mem_range.2 hr, rfl⟩,
      List.mem_map.2 ⟨c, List.mem_range.2 hc, rfl⟩⟩, hx⟩

theorem get_default_or_mem {α : Type} (g : Grid α) (d : α) (r c : Nat) :
    Grid.get g d r c = d ∨ Grid.get g d r c ∈ List.flatten g := by
  unfold Grid.get
  rw [List.getD_eq_getElem?_getD, List.getD_eq_getElem?_getD]
  cases hr : g[r]? with
  | none => left; simp
  | some row =>
    simp only [Option.getD_some]
    cases hc : row[c]? with
    | none => left; simp
    | some v =>
      right
      simp only [Option.getD_some]
      exact List.mem_flatten.mpr ⟨row, List.mem_of_getElem? hr, List.mem_of_getElem? hc⟩

/-- the values of the five planes, concatenated (the `grid` entry of `obsLeaves`) -/
def planeValues (o : Obs) : List Rat :=
  List.flatten o.body ++ List.flatten o.head ++ List.flatten o.tail ++ List.flatten o.fruit ++ List.flatten o.norm

theorem stacked_bounds (o : Obs) (h : ∀ v ∈ planeValues o, (0 : Rat) ≤ v ∧ v ≤ 1) :
    ∀ x ∈ (stacked o).flatten.flatten, (0 : Rat) ≤ x ∧ x ≤ 1 := by
  intro x hx
  obtain ⟨r, c, _, _, hx'⟩ := (mem_stacked o x).1 hx
  have key : ∀ g : Grid Rat, (∀ v ∈ List.flatten g, v ∈ planeValues o) → (0 : Rat) ≤ Grid.get g 0 r c ∧ Grid.get g 0 r c ≤ 1 := by
    intro g hg
    rcases get_default_or_mem g 0 r c with h0 | hm
    · rw [h0]; exact ⟨by decide, by decide⟩
    · exact h _ (hg _ hm)
  simp only [List.mem_cons, List.not_mem_nil, or_false] at hx'
  rcases hx' with rfl | rfl | rfl | rfl | rfl
  · exact key _ (fun v hv => by simp [planeValues, hv])
  · exact key _ (fun v hv => by simp [planeValues, hv])
  · exact key _ (fun v hv => by simp [planeValues, hv])
  · exact key _ (fun v hv => by simp [planeValues, hv])
  · exact key _ (fun v hv => by simp [planeValues, hv])

/-! ### membership -/

/-- what membership amounts to -/
def ObsOK (cfg : Cfg) (o : Obs) : Prop :=
  o.body.length = cfg.rows ∧ (o.body.headD []).length = cfg.cols ∧
  (∀ v ∈ planeValues o, (0 : Rat) ≤ v ∧ v ≤ 1) ∧ 0 ≤ o.stepCount ∧ o.stepCount ≤ cfg.timeLimit ∧
  o.actionMask.length = 4

theorem obs_valid (cfg : Cfg) (o : Obs) (h : ObsOK cfg o) : (obsSpec cfg).valid (toNValue o) = true := by
  obtain ⟨h1, h2, h3, h4, h5, h6⟩ := h
  have v1 : (Leaf.bounded [cfg.rows, cfg.cols, 5] .float32 "grid" [] [0] [] [1]).valid
      ⟨[o.body.length, (o.body.headD []).length, 5], .float32, (stacked o).flatten.flatten⟩ = true := by
    rw [h1, h2]
    exact valid_scalar_bounded _ _ _ _ _ _ (by rw [stacked_length, h1, h2, prod_three]) (stacked_bounds o h3)
  have v2 : (Leaf.discrete (cfg.timeLimit + 1).toNat .int32 "step_count").valid ⟨[], .int32, [(o.stepCount : Rat)]⟩ = true :=
    (PzS.valid_discrete_iff _ _ _).2 ⟨h4, by omega⟩
  have v3 := valid_bounded1 4 .bool "action_mask" 0 1 o.actionMask ofBools ofBools_length h6 (ofBools_bounds _)
  simp only [Nested.valid, obsSpec, toNValue, List.map, List.zipWith, List.all, v1, v2, v3, id, Bool.and_self,
    beq_self_eq_true]

/-- … and conversely `validate` accepts nothing else: the board has the configured shape, all five plane values of every
cell lie in `[0, 1]`, the counter lies in `[0, time_limit]`, the mask has four entries -/
theorem obs_valid_only (cfg : Cfg) (o : Obs) (h : (obsSpec cfg).valid (toNValue o) = true) :
    o.body.length = cfg.rows ∧ (o.body.headD []).length = cfg.cols ∧
    (∀ r c, r < cfg.rows → c < cfg.cols →
      ∀ x ∈ [Grid.get o.body 0 r c, Grid.get o.head 0 r c, Grid.get o.tail 0 r c, Grid.get o.fruit 0 r c,
             Grid.get o.norm 0 r c], (0 : Rat) ≤ x ∧ x ≤ 1) ∧
    0 ≤ o.stepCount ∧ o.stepCount ≤ cfg.timeLimit ∧ o.actionMask.length = 4 := by
  simp only [Nested.valid, obsSpec, toNValue, List.map_cons, List.map_nil, List.zipWith_cons_cons, List.zipWith_nil_right,
    List.all_cons, List.all_nil, id, Bool.and_true, Bool.and_eq_true, beq_self_eq_true, true_and] at h
  obtain ⟨h1, h2, h3⟩ := h
  rw [valid_scalar_bounded_iff] at h1 h3
  rw [PzS.valid_discrete_iff] at h2
  have hs := h1.1
  simp only [List.cons.injEq, and_true] at hs
  refine ⟨hs.1, hs.2, ?_, h2.1, by omega, by simpa [shape1] using h3.1⟩
  intro r c hr hc x hx
  exact h1.2.2.2 x ((mem_stacked o x).2 ⟨r, c, by omega, by omega, hx⟩)

theorem inIv01 {v : Rat} (h : inIv (ivInt 0 1) v) : (0 : Rat) ≤ v ∧ v ≤ 1 := by
  have h0 := h.1 _ rfl
  have h1 := h.2 _ rfl
  exact ⟨by simpa using h0, by simpa using h1⟩

/-- from the interval theorem (`ObsInBounds`) and the shape theorem (`ObsShaped`) to membership -/
theorem obsOK_of_inBounds (cfg : Cfg) (hR : 0 < cfg.rows) (o : Obs) (hs : ObsShaped cfg o) (hb : ObsInBounds cfg o) :
    ObsOK cfg o := by
  have hbody := (Grid.l_shaped_iff _ _ _).1 hs.1
  have hgrid := hb "grid" (ivInt 0 1) (by simp [obsBounds]) (planeValues o) (by simp [obsLeaves, planeValues])
  have hcnt := hb "step_count" (ivInt 0 cfg.timeLimit) (by simp [obsBounds]) [(o.stepCount : Rat)] (by simp [obsLeaves])
    (o.stepCount : Rat) (by simp)
  have c0 : ((0 : Int) : Rat) ≤ (o.stepCount : Rat) := hcnt.1 _ rfl
  have c1 : (o.stepCount : Rat) ≤ (cfg.timeLimit : Rat) := hcnt.2 _ rfl
  refine ⟨hbody.1, ?_, fun v hv => inIv01 (hgrid v hv), Rat.intCast_le_intCast.mp c0, Rat.intCast_le_intCast.mp c1,
    hs.2.2.2.2.2⟩
  match hb' : o.body, hbody with
  | [], hbody => simp at hbody; omega
  | row :: rest, hbody => simpa using hbody.2 row (by simp)

/-! ### the invariant -/

/-- the invariant behind the membership theorems: `body_state` has the configured shape, and the numbers on the board, the
length and the counter are non-negative (`NonNeg`, Bounds.lean) -/
def SpecInv (cfg : Cfg) (s : State) : Prop := Grid.shaped s.bodyState cfg.rows cfg.cols = true ∧ NonNeg s

instance (s : State) : Decidable (NonNeg s) := by unfold NonNeg; infer_instance
instance (cfg : Cfg) (s : State) : Decidable (SpecInv cfg s) := by unfold SpecInv; infer_instance

theorem reset_specInv (rnd : Rat → Rat) (cfg : Cfg) (hr hc d : Nat) : SpecInv cfg (reset rnd cfg hr hc d).1 :=
  ⟨(reset_obs_shaped rnd cfg hr hc d).2, reset_nonNeg rnd cfg hr hc d⟩

/-- EVERY step — any integer as action (legal, illegal, outside the action space), any draw, terminal or not — keeps the
invariant -/
theorem step_specInv (rnd : Rat → Rat) (cfg : Cfg) (s : State) (h : SpecInv cfg s) (a : Int) (d : Nat) :
    SpecInv cfg (step rnd cfg s a d).1 :=
  ⟨(step_obs_shaped rnd cfg s a d h.1).2, step_nonNeg rnd cfg s a d h.2⟩

theorem specInv_of_consistent (cfg : Cfg) (s : State) (h : Consistent cfg s) : SpecInv cfg s := by
  obtain ⟨⟨cs, hc⟩, hd⟩ := h
  exact ⟨hc.1, nonNeg_of_consistent ⟨⟨cs, hc⟩, hd⟩⟩

/-! ### C01: reset / step / rollouts emit members of the declared spec -/

/-- the `reset` observation: ALL board sizes with at least one row, ANY draws (head cell, fruit cell — admissible or not) -/
theorem reset_obs_valid (rnd : Rat → Rat) (hrnd : RndKeeps01 rnd) (cfg : Cfg) (hR : 0 < cfg.rows)
    (htl : 0 ≤ cfg.timeLimit) (hr hc d : Nat) :
    (obsSpec cfg).valid (toNValue (reset rnd cfg hr hc d).2.obs) = true :=
  obs_valid cfg _ (obsOK_of_inBounds cfg hR _ (reset_obs_shaped rnd cfg hr hc d).1
    (reset_obs_in_bounds rnd hrnd cfg hr hc d htl))

/-- the observation of EVERY step (any integer as action, any draw, MID or LAST) from a state satisfying the invariant whose
counter has not reached the limit -/
theorem step_obs_valid (rnd : Rat → Rat) (hrnd : RndKeeps01 rnd) (cfg : Cfg) (hR : 0 < cfg.rows) (s : State)
    (h : SpecInv cfg s) (hlim : s.stepCount < cfg.timeLimit) (a : Int) (d : Nat) :
    (obsSpec cfg).valid (toNValue (step rnd cfg s a d).2.obs) = true :=
  obs_valid cfg _ (obsOK_of_inBounds cfg hR _ (step_obs_shaped rnd cfg s a d h.1).1
    (step_obs_in_bounds_nonNeg rnd hrnd cfg s a d h.2 hlim))

theorem step_count_succ (rnd : Rat → Rat) (cfg : Cfg) (s : State) (a : Int) (d : Nat) :
    (step rnd cfg s a d).1.stepCount = s.stepCount + 1 := rfl

/-- whole episodes: along the rollout (`Ep.rollout` = the L1 step iterated) of ANY integers as actions and ANY draws from
`reset` (any draws), every observation emitted by one of the first `time_limit` steps is a member of the spec (the first LAST
comes at a step `k ≤ time_limit`, so this covers every observation of every episode up to and including the terminal one) -/
theorem rollout_obs_valid (rnd : Rat → Rat) (hrnd : RndKeeps01 rnd) (cfg : Cfg) (hR : 0 < cfg.rows) (hr hc d0 : Nat)
    (as : List (Int × Nat)) (j : Nat) (hj : (j : Int) < cfg.timeLimit) (e : State × TimeStep Obs)
    (he : (Ep.rollout (fun s (a : Int × Nat) => step rnd cfg s a.1 a.2) (reset rnd cfg hr hc d0).1 as)[j]? = some e) :
    (obsSpec cfg).valid (toNValue e.2.obs) = true ∧ SpecInv cfg e.1 := by
  obtain ⟨s', a, hinv, _, rfl⟩ := rollout_inv_idx (fun s (a : Int × Nat) => step rnd cfg s a.1 a.2)
    (fun n s => SpecInv cfg s ∧ s.stepCount = (n : Int)) (fun _ => True)
    (fun n s a h _ => ⟨step_specInv rnd cfg s h.1 a.1 a.2, by rw [step_count_succ, h.2]; push_cast; rfl⟩) 0 _
    ⟨reset_specInv rnd cfg hr hc d0, rfl⟩ as (fun _ _ => trivial) j e he
  refine ⟨step_obs_valid rnd hrnd cfg hR s' hinv.1 ?_ a.1 a.2, step_specInv rnd cfg s' hinv.1 a.1 a.2⟩
  rw [hinv.2]; push_cast; omega

/-! ### reward, discount, action spec -/

theorem step_protocol (rnd : Rat → Rat) (cfg : Cfg) (s : State) (a : Int) (d : Nat) :
    StepOK none false (step rnd cfg s a d).2 = true := by
  unfold step; exact condLast_stepOK _ _ _

theorem step_reward_discount_valid (rnd : Rat → Rat) (cfg : Cfg) (s : State) (a : Int) (d : Nat) :
    rewardSpec.valid (scalarArr (step rnd cfg s a d).2.reward) = true ∧
    discountSpec.valid (scalarArr (step rnd cfg s a d).2.discount) = true :=
  stepOK_reward_discount_valid false _ (step_protocol rnd cfg s a d)

theorem reset_reward_discount_valid (rnd : Rat → Rat) (cfg : Cfg) (hr hc d : Nat) :
    rewardSpec.valid (scalarArr (reset rnd cfg hr hc d).2.reward) = true ∧
    discountSpec.valid (scalarArr (reset rnd cfg hr hc d).2.discount) = true := by
  unfold reset; simp only [restart]; exact ⟨by decide, by decide⟩

/-- membership in `action_spec` is exactly "one of the four directions" -/
theorem actionSpec_valid_iff (a : Int) : actionSpec.valid (actionArr a) = true ↔ 0 ≤ a ∧ a < 4 := by
  have := PzS.valid_discrete_iff 4 "action" a
  simpa [actionSpec, actionArr] using this

/-- `action_spec.generate_value()` = 0 (Up): the action spec is well-formed, the generated value is a member, `step` answers it
in EVERY state with a protocol-conform timestep and — from a state satisfying the invariant whose counter has not reached the
limit — with an observation in the spec -/
theorem accepts_generate_value (rnd : Rat → Rat) (hrnd : RndKeeps01 rnd) (cfg : Cfg) (hR : 0 < cfg.rows) (s : State)
    (d : Nat) :
    actionSpec.WF = true ∧ actionSpec.valid actionSpec.generate = true ∧ actionSpec.generate = actionArr 0 ∧
    StepOK none false (step rnd cfg s 0 d).2 = true ∧
    (SpecInv cfg s → s.stepCount < cfg.timeLimit → (obsSpec cfg).valid (toNValue (step rnd cfg s 0 d).2.obs) = true) :=
  ⟨by decide, by decide, by decide, step_protocol rnd cfg s 0 d,
   fun h hl => step_obs_valid rnd hrnd cfg hR s h hl 0 d⟩

/-! ### audit r6 #2: `time_limit = 0` -/

theorem condLast_obs' {O} (b : Bool) (r : List Rat) (o : O) : (condLast b r o).obs = o := by
  unfold condLast; split <;> rfl

theorem step_obs_stepCount (rnd : Rat → Rat) (cfg : Cfg) (s : State) (a : Int) (d : Nat) :
    (step rnd cfg s a d).2.obs.stepCount = s.stepCount + 1 := by
  simp only [step, condLast_obs']
  rfl

/-- with `time_limit ≤ 0` NO step observation from a state with a non-negative counter is a member of the declared spec
(the counter becomes `≥ 1`, `DiscreteArray(time_limit + 1)` holds `0 … time_limit`) -/
theorem time_limit_zero_step_obs_not_valid (rnd : Rat → Rat) (cfg : Cfg) (h0 : cfg.timeLimit ≤ 0) (s : State)
    (hs : 0 ≤ s.stepCount) (a : Int) (d : Nat) :
    (obsSpec cfg).valid (toNValue (step rnd cfg s a d).2.obs) = false := by
  cases hv : (obsSpec cfg).valid (toNValue (step rnd cfg s a d).2.obs) with
  | false => rfl
  | true =>
    have h := (obs_valid_only cfg _ hv).2.2.2.2.1
    rw [step_obs_stepCount] at h
    omega

end Snake
