/-
Snake: (C07) "board not full" ⇔ `length < rows * cols` for consistent states (pigeonhole over the chain),
so that the step invariant can be stated with the length alone; (C08) whole-episode fold of the
telescoping identity `length' = length + reward`.
-/
import JumanjiModel.Env.Snake.Lemmas
namespace Snake
open Jm Jx

/-! ### pigeonhole (core only) -/

/-- a duplicate-free list whose elements all occur in `m` is at most as long as `m` -/
theorem nodup_subset_length_le {α : Type} [DecidableEq α] :
    ∀ (l m : List α), l.Nodup → (∀ x ∈ l, x ∈ m) → l.length ≤ m.length
  | [], _, _, _ => by simp
  | a :: l, m, hn, hsub => by
    have hn' := List.nodup_cons.1 hn
    have ham : a ∈ m := hsub a List.mem_cons_self
    have hsub' : ∀ x ∈ l, x ∈ m.erase a := by
      intro x hx
      have hne : x ≠ a := fun e => hn'.1 (e ▸ hx)
      exact (List.mem_erase_of_ne hne).2 (hsub x (List.mem_cons_of_mem _ hx))
    have ih := nodup_subset_length_le l (m.erase a) hn'.2 hsub'
    have hlen : (m.erase a).length = m.length - 1 := List.length_erase_of_mem ham
    have hpos : 0 < m.length := List.length_pos_of_mem ham
    simp only [List.length_cons]
    omega

theorem length_coords (nr nc : Nat) : (Grid.coords nr nc).length = nr * nc := by
  unfold Grid.coords
  induction nr with
  | zero => simp
  | succ n ih =>
    rw [List.range_succ, List.flatMap_append, List.length_append, ih]
    simp [Nat.succ_mul]

/-- fewer cells than the board has: some cell of the board is not in the list -/
theorem exists_coord_not_mem (nr nc : Nat) (cs : List (Nat × Nat)) (h : cs.length < nr * nc) :
    ∃ p ∈ Grid.coords nr nc, p ∉ cs := by
  apply Classical.byContradiction
  intro hno
  have hall : ∀ p ∈ Grid.coords nr nc, p ∈ cs := by
    intro p hp
    apply Classical.byContradiction
    intro hn
    exact hno ⟨p, hp, hn⟩
  have := nodup_subset_length_le _ cs (Grid.l_nodup_coords nr nc) hall
  rw [length_coords] at this
  omega

/-! ### Boolean grids -/

theorem all_true_get {g : Grid Bool} {nr nc : Nat} (hs : Grid.shaped g nr nc = true)
    (h : Grid.all id g = true) {r c : Nat} (hr : r < nr) (hc : c < nc) : Grid.get g true r c = true := by
  obtain ⟨row, hrow, hlen⟩ := Grid.l_shaped_row hs hr
  rw [Grid.l_get_eq_of_row hrow]
  unfold Grid.all at h
  rw [List.all_eq_true] at h
  have hmem : row ∈ g := List.mem_of_getElem? hrow
  have hrowall := h row hmem
  rw [List.all_eq_true] at hrowall
  have hcl : c < row.length := by omega
  have := hrowall row[c] (List.getElem_mem hcl)
  simp only [id] at this
  simp [List.getD_eq_getElem?_getD, hcl, this]

theorem all_false_exists {g : Grid Bool} {nr nc : Nat} (hs : Grid.shaped g nr nc = true)
    (h : Grid.all id g = false) : ∃ r c, r < nr ∧ c < nc ∧ Grid.get g true r c = false := by
  have hsh := (Grid.l_shaped_iff g nr nc).1 hs
  unfold Grid.all at h
  have h' : ¬ (List.all g (fun r => List.all r id) = true) := by rw [h]; decide
  rw [List.all_eq_true] at h'
  have : ∃ row ∈ g, List.all row id = false := by
    apply Classical.byContradiction
    intro hno
    apply h'
    intro row hrow
    cases e : List.all row id
    · exact absurd ⟨row, hrow, e⟩ hno
    · rfl
  obtain ⟨row, hrow, hfalse⟩ := this
  have h2 : ¬ (List.all row id = true) := by rw [hfalse]; decide
  rw [List.all_eq_true] at h2
  have : ∃ x ∈ row, x = false := by
    apply Classical.byContradiction
    intro hno
    apply h2
    intro x hx
    cases x
    · exact absurd ⟨false, hx, rfl⟩ hno
    · rfl
  obtain ⟨x, hx, hxf⟩ := this
  obtain ⟨r, hr, hgr⟩ := List.getElem_of_mem hrow
  obtain ⟨c, hc, hrc⟩ := List.getElem_of_mem hx
  have hlen : row.length = nc := hsh.2 row hrow
  refine ⟨r, c, by omega, by omega, ?_⟩
  have hrow' : g[r]? = some row := by rw [List.getElem?_eq_getElem hr, hgr]
  rw [Grid.l_get_eq_of_row hrow']
  simp [List.getD_eq_getElem?_getD, hc, hrc, hxf]

/-- the body plane of a state whose `body` is derived from `body_state`, read on a cell of the board -/
theorem body_get (cfg : Cfg) (s : State) (hsh : Grid.shaped s.bodyState cfg.rows cfg.cols = true)
    (hb : s.body = Grid.map (fun x => decide (x > 0)) s.bodyState) {r c : Nat}
    (hr : r < cfg.rows) (hc : c < cfg.cols) :
    Grid.get s.body true r c = decide (Grid.get s.bodyState 0 r c > 0) := by
  have hsb : Grid.shaped s.body cfg.rows cfg.cols = true := by rw [hb, Grid.l_shaped_map]; exact hsh
  rw [get_default_irrel hsb true (decide ((0 : Int) > 0)) hr hc, hb,
    Grid.l_get_map (fun (x : Int) => decide (x > 0)) s.bodyState 0]

/-! ### C07: board not full ⇔ length < rows * cols -/

/-- C07 (pigeonhole): a consistent snake shorter than the number of cells does not fill the board -/
theorem not_full_of_length (cfg : Cfg) (s : State) (hc : Consistent cfg s)
    (hlen : s.length < ((cfg.rows * cfg.cols : Nat) : Int)) : Grid.all id s.body = false := by
  obtain ⟨⟨cs, hsh, hl, _, _, _, hzero, _⟩, hbody, _⟩ := hc
  have hlt : cs.length < cfg.rows * cfg.cols := by omega
  obtain ⟨p, hp, hnot⟩ := exists_coord_not_mem cfg.rows cfg.cols cs hlt
  have hz := hzero p hp hnot
  obtain ⟨hr, hcc⟩ := Grid.l_mem_coords.1 hp
  have hsb : Grid.shaped s.body cfg.rows cfg.cols = true := by rw [hbody, Grid.l_shaped_map]; exact hsh
  cases hall : Grid.all id s.body
  · rfl
  · have h1 := all_true_get hsb hall hr hcc
    rw [body_get cfg s hsh hbody hr hcc, hz] at h1
    exact absurd h1 (by decide)

/-- the cells of a chain are pairwise distinct (they carry the distinct numbers 1..length) -/
theorem chain_nodup (cfg : Cfg) (s : State) (cs : List (Nat × Nat)) (hc : Chain cfg s cs) : cs.Nodup := by
  obtain ⟨_, _, _, _, henc, _⟩ := hc
  rw [List.nodup_iff_pairwise_ne, List.pairwise_iff_getElem]
  intro i j hi hj hij heq
  have h1 := henc i hi
  have h2 := henc j hj
  rw [List.getD_eq_getElem?_getD, List.getElem?_eq_getElem hi] at h1
  rw [List.getD_eq_getElem?_getD, List.getElem?_eq_getElem hj] at h2
  simp only [Option.getD_some] at h1 h2
  rw [heq] at h1
  omega

/-- C07 (converse): a consistent snake that does not fill the board is shorter than the number of cells -/
theorem length_of_not_full (cfg : Cfg) (s : State) (hc : Consistent cfg s)
    (hnf : Grid.all id s.body = false) : s.length < ((cfg.rows * cfg.cols : Nat) : Int) := by
  obtain ⟨⟨cs, hch⟩, hbody, _⟩ := hc
  have hnd := chain_nodup cfg s cs hch
  obtain ⟨hsh, hl, _, hin, henc, _⟩ := hch
  have hsb : Grid.shaped s.body cfg.rows cfg.cols = true := by rw [hbody, Grid.l_shaped_map]; exact hsh
  obtain ⟨r, c, hr, hcc, hg⟩ := all_false_exists hsb hnf
  rw [body_get cfg s hsh hbody hr hcc] at hg
  have hle : ¬ (Grid.get s.bodyState 0 r c > 0) := by simpa using hg
  have hpc : (r, c) ∈ Grid.coords cfg.rows cfg.cols := Grid.l_mem_coords.2 ⟨hr, hcc⟩
  have hnot : (r, c) ∉ cs := by
    intro hm
    obtain ⟨j, hj, hjp⟩ := List.getElem_of_mem hm
    have := henc j hj
    rw [List.getD_eq_getElem?_getD, List.getElem?_eq_getElem hj] at this
    simp only [Option.getD_some, hjp] at this
    omega
  have hsub : ∀ x ∈ cs, x ∈ (Grid.coords cfg.rows cfg.cols).erase (r, c) := by
    intro x hx
    have hne : x ≠ (r, c) := fun e => hnot (e ▸ hx)
    exact (List.mem_erase_of_ne hne).2 (Grid.l_mem_coords.2 (hin x hx))
  have hle2 := nodup_subset_length_le cs _ hnd hsub
  rw [List.length_erase_of_mem hpc, length_coords] at hle2
  have hpos : 0 < (Grid.coords cfg.rows cfg.cols).length := List.length_pos_of_mem hpc
  rw [length_coords] at hpos
  omega

/-- C07: for consistent states "the board is not full" is the same as `length < rows * cols` -/
theorem not_full_iff_length (cfg : Cfg) (s : State) (hc : Consistent cfg s) :
    Grid.all id s.body = false ↔ s.length < ((cfg.rows * cfg.cols : Nat) : Int) :=
  ⟨length_of_not_full cfg s hc, not_full_of_length cfg s hc⟩

/-- C07: `step_consistent` with the length hypothesis instead of "board not full" -/
theorem step_consistent_of_length (rnd : Rat → Rat) (cfg : Cfg) (s : State) (a : Nat) (d : Nat)
    (hc : Consistent cfg s) (hl : legal cfg s a) (hlen : s.length < ((cfg.rows * cfg.cols : Nat) : Int))
    (hd : validDraw cfg (step rnd cfg s a d).1.body d) :
    Consistent cfg (step rnd cfg s a d).1 :=
  step_consistent rnd cfg s a d hc hl (not_full_of_length cfg s hc hlen) hd

/-- C07 (inductive form): "consistent and shorter than the board" is preserved by every step that does
not end the episode, whatever action 0..3 is played, for every admissible fruit draw -/
theorem step_consistent_mid_of_length (rnd : Rat → Rat) (cfg : Cfg) (s : State) (a : Nat) (d : Nat) (ha : a < 4)
    (hc : Consistent cfg s) (hlen : s.length < ((cfg.rows * cfg.cols : Nat) : Int))
    (hd : validDraw cfg (step rnd cfg s a d).1.body d)
    (hmid : (step rnd cfg s a d).2.stepType ≠ .last) :
    Consistent cfg (step rnd cfg s a d).1 ∧
      (step rnd cfg s a d).1.length < ((cfg.rows * cfg.cols : Nat) : Int) := by
  obtain ⟨h1, h2⟩ := step_consistent_mid rnd cfg s a d ha hc (not_full_of_length cfg s hc hlen) hd hmid
  exact ⟨h1, length_of_not_full cfg _ h1 h2⟩

/-! ### C08: whole episodes -/

/-- state after playing the (action, fruit draw) pairs `ads` from `s` -/
def runState (rnd : Rat → Rat) (cfg : Cfg) (s : State) : List (Int × Nat) → State
  | [] => s
  | ad :: ads => runState rnd cfg (step rnd cfg s ad.1 ad.2).1 ads

/-- sum of the rewards of playing `ads` from `s` -/
def runReturn (rnd : Rat → Rat) (cfg : Cfg) (s : State) : List (Int × Nat) → Rat
  | [] => 0
  | ad :: ads => (step rnd cfg s ad.1 ad.2).2.reward.sum + runReturn rnd cfg (step rnd cfg s ad.1 ad.2).1 ads

/-- C08: along ANY sequence of actions and draws from ANY state the sum of rewards is the growth of the length -/
theorem episode_return (rnd : Rat → Rat) (cfg : Cfg) (s : State) (ads : List (Int × Nat)) :
    runReturn rnd cfg s ads = ((runState rnd cfg s ads).length : Rat) - (s.length : Rat) := by
  induction ads generalizing s with
  | nil => simp [runReturn, runState, Rat.sub_self]
  | cons ad ads ih =>
    simp only [runReturn, runState]
    rw [ih, length_telescopes rnd cfg s ad.1 ad.2]
    grind

theorem reset_length (rnd : Rat → Rat) (cfg : Cfg) (hr hc d : Nat) : (reset rnd cfg hr hc d).1.length = 1 := rfl

/-- C08: the return of any play-out from reset is `length_final − 1` = the objective (fruits eaten) -/
theorem episode_return_from_reset (rnd : Rat → Rat) (cfg : Cfg) (hr hc d0 : Nat) (ads : List (Int × Nat)) :
    runReturn rnd cfg (reset rnd cfg hr hc d0).1 ads =
      ((objective (runState rnd cfg (reset rnd cfg hr hc d0).1 ads) : Int) : Rat) := by
  rw [episode_return, reset_length]
  unfold objective
  simp [Rat.intCast_sub]

end Snake
