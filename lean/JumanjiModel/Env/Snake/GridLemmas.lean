/- Facts about 2-D grids (`Jx.Grid`) on in-range indices: lookup after scatter / map, shapes, the list of
   coordinates.  Names are prefixed `l_` (used by Snake and Sokoban; kept apart from other builders' grid lemmas in `Jx.Grid`). -/
import JumanjiModel.Prim.Grid
import JumanjiModel.Prim.Lemmas
namespace Jx
namespace Grid
variable {α β : Type}

theorem l_shaped_iff (g : Grid α) (nr nc : Nat) :
    shaped g nr nc = true ↔ g.length = nr ∧ ∀ row ∈ g, row.length = nc := by
  unfold shaped; simp

theorem l_shaped_row {g : Grid α} {nr nc : Nat} (h : shaped g nr nc = true) {r : Nat} (hr : r < nr) :
    ∃ row, g[r]? = some row ∧ row.length = nc := by
  rw [l_shaped_iff] at h
  have hlt : r < g.length := by omega
  exact ⟨g[r], by simp, h.2 _ (List.getElem_mem hlt)⟩

theorem l_get_eq_of_row {g : Grid α} {r : Nat} {row : List α} (h : g[r]? = some row) (d : α) (c : Nat) :
    get g d r c = row.getD c d := by
  unfold get; simp [List.getD_eq_getElem?_getD, h]

theorem l_get_map (f : α → β) (g : Grid α) (d : α) (r c : Nat) :
    get (map f g) (f d) r c = f (get g d r c) := by
  unfold get map
  simp only [List.getD_eq_getElem?_getD, List.getElem?_map]
  cases hg : g[r]? with
  | none => simp
  | some row =>
    simp only [Option.map_some, Option.getD_some, List.getElem?_map]
    cases row[c]? <;> simp

theorem l_shaped_map (f : α → β) (g : Grid α) (nr nc : Nat) :
    shaped (map f g) nr nc = shaped g nr nc := by
  unfold shaped map; simp [List.all_map, Function.comp_def]

theorem l_getWC_inrange {g : Grid α} {nr nc : Nat} (h : shaped g nr nc = true) (d : α) {r c : Int}
    (hr0 : 0 ≤ r) (hr : r < nr) (hc0 : 0 ≤ c) (hc : c < nc) :
    getWC g d r c = get g d r.toNat c.toNat := by
  obtain ⟨r, rfl⟩ := Int.eq_ofNat_of_zero_le hr0
  obtain ⟨c, rfl⟩ := Int.eq_ofNat_of_zero_le hc0
  simp only [Int.toNat_natCast]
  obtain ⟨row, hrow, hlen⟩ := l_shaped_row h (r := r) (by omega)
  have hgl : g.length = nr := ((l_shaped_iff g nr nc).1 h).1
  unfold getWC
  have e1 : Jx.getWC g [] (r : Int) = row := by
    rw [Jx.getWC_nat g [] (by omega : r < g.length)]
    simp [List.getD_eq_getElem?_getD, hrow]
  rw [e1, l_get_eq_of_row hrow, Jx.getWC_nat row d (by omega : c < row.length)]

theorem l_setWD_inrange {g : Grid α} {nr nc : Nat} (h : shaped g nr nc = true) (v : α) {r c : Int}
    (hr0 : 0 ≤ r) (hr : r < nr) (hc0 : 0 ≤ c) (hc : c < nc) :
    setWD g r c v = set g r.toNat c.toNat v := by
  obtain ⟨row, hrow, hlen⟩ := l_shaped_row h (r := r.toNat) (by omega)
  have hgl : g.length = nr := ((l_shaped_iff g nr nc).1 h).1
  unfold setWD set wrapIdx
  simp only []
  have h1 : ¬ r < 0 := by omega
  have h2 : ¬ c < 0 := by omega
  simp only [h1, h2, if_false, hrow]
  have h3 : ¬ (r ≥ (g.length : Int)) := by omega
  have h4 : ¬ (c ≥ (row.length : Int)) := by omega
  simp [h3, h4]

theorem l_get_set {g : Grid α} {nr nc : Nat} (h : shaped g nr nc = true) (v d : α) {r c : Nat}
    (hr : r < nr) (hc : c < nc) (r' c' : Nat) :
    get (set g r c v) d r' c' = if r' = r ∧ c' = c then v else get g d r' c' := by
  obtain ⟨row, hrow, hlen⟩ := l_shaped_row h hr
  have hgl : g.length = nr := ((l_shaped_iff g nr nc).1 h).1
  unfold set; simp only [hrow]
  unfold get
  simp only [List.getD_eq_getElem?_getD, List.getElem?_set]
  by_cases e : r = r'
  · subst e
    have : r < g.length := by omega
    simp only [this, if_true, Option.getD_some, List.getElem?_set]
    by_cases e2 : c = c'
    · subst e2; simp [hlen, hc]
    · have : ¬ (c' = c) := fun h => e2 h.symm
      simp [e2, this, hrow]
  · have : ¬ (r' = r) := fun h => e h.symm
    simp [e, this]

theorem l_shaped_set {g : Grid α} {nr nc : Nat} (h : shaped g nr nc = true) (v : α) (r c : Nat) :
    shaped (set g r c v) nr nc = true := by
  unfold set
  cases hrow : g[r]? with
  | none => exact h
  | some row =>
    rw [l_shaped_iff] at h ⊢
    refine ⟨by simp [h.1], ?_⟩
    intro x hx
    rcases List.mem_or_eq_of_mem_set hx with hx | hx
    · exact h.2 x hx
    · subst hx
      have : row ∈ g := List.mem_of_getElem? hrow
      simp [h.2 row this]

theorem l_shaped_setWD {g : Grid α} {nr nc : Nat} (h : shaped g nr nc = true) (v : α) (r c : Int) :
    shaped (setWD g r c v) nr nc = true := by
  unfold setWD; simp only []
  split
  · exact h
  · split
    · exact h
    · split
      · exact h
      · rename_i row hrow
        split
        · exact h
        · split
          · exact h
          · rw [l_shaped_iff] at h ⊢
            refine ⟨by simp [h.1], ?_⟩
            intro x hx
            rcases List.mem_or_eq_of_mem_set hx with hx | hx
            · exact h.2 x hx
            · subst hx
              have : row ∈ g := List.mem_of_getElem? hrow
              simp [h.2 row this]

/-- a well-shaped grid is the table of its entries -/
theorem l_eq_table {g : Grid α} {nr nc : Nat} (h : shaped g nr nc = true) (d : α) :
    g = (List.range nr).map (fun r => (List.range nc).map (fun c => get g d r c)) := by
  rw [l_shaped_iff] at h
  apply List.ext_getElem
  · simp [h.1]
  · intro r h1 h2
    have hrl : (g[r]).length = nc := h.2 _ (List.getElem_mem h1)
    apply List.ext_getElem
    · simp [hrl]
    · intro c h3 h4
      simp [get, List.getD_eq_getElem?_getD, h1, h3]

theorem l_mem_coords {nr nc : Nat} {p : Nat × Nat} : p ∈ coords nr nc ↔ p.1 < nr ∧ p.2 < nc := by
  unfold coords
  simp only [List.mem_flatMap, List.mem_range, List.mem_map]
  constructor
  · rintro ⟨r, hr, c, hc, rfl⟩; exact ⟨hr, hc⟩
  · intro h; exact ⟨p.1, h.1, p.2, h.2, rfl⟩

theorem l_nodup_coords (nr nc : Nat) : (coords nr nc).Nodup := by
  unfold coords List.Nodup
  rw [List.pairwise_flatMap]
  constructor
  · intro r _
    rw [List.pairwise_map]
    exact List.Pairwise.imp (fun h => by simpa using h) (List.nodup_range)
  · exact List.Pairwise.imp (fun {a b} (h : a ≠ b) => by
      intro x hx y hy
      simp only [List.mem_map, List.mem_range] at hx hy
      obtain ⟨_, _, rfl⟩ := hx
      obtain ⟨_, _, rfl⟩ := hy
      simp [h]) (List.nodup_range)

theorem l_filter_length_update {α : Type} [DecidableEq α] (l : List α) (hn : l.Nodup) (x : α) (hx : x ∈ l)
    (P Q : α → Bool) (h : ∀ y ∈ l, y ≠ x → P y = Q y) :
    (l.filter Q).length + (if P x then 1 else 0) = (l.filter P).length + (if Q x then 1 else 0) := by
  induction l with
  | nil => simp at hx
  | cons a l ih =>
    have hn' := (List.nodup_cons.1 hn)
    by_cases e : a = x
    · subst e
      have hc : ∀ y ∈ l, P y = Q y := fun y hy => h y (List.mem_cons_of_mem _ hy) (fun e => hn'.1 (e ▸ hy))
      have : l.filter P = l.filter Q := List.filter_congr hc
      simp only [List.filter_cons, this]
      cases P a <;> cases Q a <;> simp <;> omega
    · have hx' : x ∈ l := by
        rcases List.mem_cons.1 hx with h1 | h1
        · exact absurd h1.symm e
        · exact h1
      have := ih hn'.2 hx' (fun y hy hne => h y (List.mem_cons_of_mem _ hy) hne)
      have hpa : P a = Q a := h a (List.mem_cons_self) e
      simp only [List.filter_cons, hpa]
      cases Q a <;> simp <;> omega

end Grid
end Jx
