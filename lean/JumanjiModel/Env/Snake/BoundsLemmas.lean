/- Proofs of the C01 value bounds of Snake. -/
import JumanjiModel.Env.Snake.Bounds
import JumanjiModel.Env.Snake.Lemmas
namespace Snake
open Jm Jx

theorem inIv_int {lo hi x : Int} (h1 : lo ≤ x) (h2 : x ≤ hi) : inIv (ivInt lo hi) (x : Rat) := by
  refine ⟨fun l hl => ?_, fun h hh => ?_⟩
  · simp only [ivInt, Option.some.injEq] at hl; subst hl; exact Rat.intCast_le_intCast.mpr h1
  · simp only [ivInt, Option.some.injEq] at hh; subst hh; exact Rat.intCast_le_intCast.mpr h2

theorem inIv_01 {v : Rat} (h0 : 0 ≤ v) (h1 : v ≤ 1) : inIv (ivInt 0 1) v := by
  refine ⟨fun l hl => ?_, fun h hh => ?_⟩
  · simp only [ivInt, Option.some.injEq] at hl; subst hl; simpa using h0
  · simp only [ivInt, Option.some.injEq] at hh; subst hh; simpa using h1

theorem inIv_b2r (b : Bool) : inIv (ivInt 0 1) (b2r b) := by
  cases b
  · exact inIv_int (x := 0) (by omega) (by omega)
  · exact inIv_int (x := 1) (by omega) (by omega)

theorem inIv_bools (bs : List Bool) : ∀ v ∈ bs.map b2r, inIv (ivInt 0 1) v := by
  intro v hv
  obtain ⟨b, _, rfl⟩ := List.mem_map.mp hv
  exact inIv_b2r b

theorem mem_flatten_map {α β} (f : α → β) (g : Grid α) {y : β} (hy : y ∈ List.flatten (Grid.map f g)) :
    ∃ x ∈ List.flatten g, y = f x := by
  unfold Grid.map at hy
  obtain ⟨row', hrow', hy'⟩ := List.mem_flatten.mp hy
  obtain ⟨row, hrow, rfl⟩ := List.mem_map.mp hrow'
  obtain ⟨x, hx, rfl⟩ := List.mem_map.mp hy'
  exact ⟨x, List.mem_flatten.mpr ⟨row, hrow, hx⟩, rfl⟩

theorem inIv_plane (g : Grid Bool) : ∀ v ∈ List.flatten (Grid.map b2r g), inIv (ivInt 0 1) v := by
  intro v hv
  obtain ⟨b, _, rfl⟩ := mem_flatten_map b2r g hv
  exact inIv_b2r b

theorem mem_flatten_setWD {α} {g : Grid α} {r c : Int} {v x : α}
    (hx : x ∈ List.flatten (Grid.setWD g r c v)) : x = v ∨ x ∈ List.flatten g := by
  unfold Grid.setWD at hx
  simp only [] at hx
  split at hx
  · exact Or.inr hx
  · split at hx
    · exact Or.inr hx
    · split at hx
      · exact Or.inr hx
      · rename_i row hrow
        split at hx
        · exact Or.inr hx
        · split at hx
          · exact Or.inr hx
          · obtain ⟨row', hrow', hx'⟩ := List.mem_flatten.mp hx
            have hrowg : row ∈ g := List.mem_of_getElem? hrow
            rcases List.mem_or_eq_of_mem_set hrow' with h | h
            · exact Or.inr (List.mem_flatten.mpr ⟨row', h, hx'⟩)
            · subst h
              rcases List.mem_or_eq_of_mem_set hx' with h | h
              · exact Or.inr (List.mem_flatten.mpr ⟨row, hrowg, h⟩)
              · exact Or.inl h

theorem foldl_max_ge (l : List Int) (a : Int) : a ≤ l.foldl max a ∧ ∀ x ∈ l, x ≤ l.foldl max a := by
  induction l generalizing a with
  | nil => simp
  | cons y ys ih =>
    simp only [List.foldl_cons, List.mem_cons]
    have h := ih (max a y)
    refine ⟨by omega, ?_⟩
    rintro x (rfl | hx)
    · omega
    · exact h.2 x hx

theorem gridMax1_ge (g : Grid Int) : 1 ≤ gridMax1 g ∧ ∀ x ∈ List.flatten g, x ≤ gridMax1 g := by
  unfold gridMax1 Grid.flatten
  exact foldl_max_ge _ 1

theorem div_in01 {x m : Int} (h0 : 0 ≤ x) (h1 : x ≤ m) (hm : 1 ≤ m) :
    (0 : Rat) ≤ (x : Rat) / (m : Rat) ∧ (x : Rat) / (m : Rat) ≤ 1 := by
  have hm' : (0 : Rat) < (m : Rat) := by
    have : ((0 : Int) : Rat) < (m : Rat) := Rat.intCast_lt_intCast.mpr (by omega)
    simpa using this
  have hx0 : (0 : Rat) ≤ (x : Rat) := by
    have : ((0 : Int) : Rat) ≤ (x : Rat) := Rat.intCast_le_intCast.mpr h0
    simpa using this
  have hxm : (x : Rat) ≤ (m : Rat) := Rat.intCast_le_intCast.mpr h1
  constructor
  · apply Rat.not_lt.mp
    intro h
    have := (Rat.div_lt_iff hm').mp h
    rw [Rat.zero_mul] at this
    exact absurd hx0 (Rat.not_le.mpr this)
  · apply Rat.not_lt.mp
    intro h
    have := (Rat.lt_div_iff hm').mp h
    rw [Rat.one_mul] at this
    exact absurd hxm (Rat.not_le.mpr this)

/-- the observation built from a state with non-negative board numbers and a counter in `[0, time_limit]` is
within bounds -/
theorem stateToObs_in_bounds (rnd : Rat → Rat) (hr : RndKeeps01 rnd) (cfg : Cfg) (s : State)
    (hn : ∀ x ∈ List.flatten s.bodyState, (0 : Int) ≤ x) (h0 : 0 ≤ s.stepCount)
    (h1 : s.stepCount ≤ cfg.timeLimit) : ObsInBounds cfg (stateToObs rnd s) := by
  intro k iv hk vs hvs v hv
  simp only [obsBounds, List.mem_cons, Prod.mk.injEq, List.not_mem_nil, or_false] at hk
  simp only [obsLeaves, stateToObs, List.mem_cons, Prod.mk.injEq, List.not_mem_nil, or_false] at hvs
  rcases hk with ⟨rfl, rfl⟩ | ⟨rfl, rfl⟩ | ⟨rfl, rfl⟩ <;>
    rcases hvs with ⟨hk', rfl⟩ | ⟨hk', rfl⟩ | ⟨hk', rfl⟩ <;>
    first
    | (exfalso; revert hk'; decide)
    | (simp only [List.mem_singleton] at hv; subst hv; apply inIv_int <;> omega)
    | exact inIv_bools _ v hv
    | skip
  simp only [List.mem_append] at hv
  rcases hv with (((hv | hv) | hv) | hv) | hv
  · exact inIv_plane _ v hv
  · exact inIv_plane _ v hv
  · exact inIv_plane _ v hv
  · exact inIv_plane _ v hv
  · obtain ⟨x, hx, rfl⟩ := mem_flatten_map _ _ hv
    have hg := gridMax1_ge s.bodyState
    have hd := div_in01 (hn x hx) (hg.2 x hx) hg.1
    have := hr _ hd.1 hd.2
    exact inIv_01 this.1 this.2

/-- the numbers on the board of a consistent state are non-negative -/
theorem nonneg_of_chain {cfg : Cfg} {s : State} {cs : List (Nat × Nat)} (hc : Chain cfg s cs) :
    ∀ x ∈ List.flatten s.bodyState, (0 : Int) ≤ x := by
  obtain ⟨hsh, _, _, _, hnum, hzero, _, _⟩ := hc
  intro x hx
  rw [Grid.l_eq_table hsh 0] at hx
  obtain ⟨row, hrow, hxr⟩ := List.mem_flatten.mp hx
  obtain ⟨r, hr, rfl⟩ := List.mem_map.mp hrow
  obtain ⟨c, hc', rfl⟩ := List.mem_map.mp hxr
  by_cases hp : (r, c) ∈ cs
  · obtain ⟨i, hi, hget⟩ := List.getElem_of_mem hp
    have h := hnum i hi
    have hd : cs.getD i (0, 0) = (r, c) := by
      rw [List.getD_eq_getElem?_getD, List.getElem?_eq_getElem hi, hget]; rfl
    rw [hd] at h
    simp only [] at h
    omega
  · have h := hzero (r, c) (Grid.l_mem_coords.mpr ⟨List.mem_range.mp hr, List.mem_range.mp hc'⟩) hp
    simp only [] at h
    omega

theorem nonNeg_of_consistent {cfg : Cfg} {s : State} (hC : Consistent cfg s) : NonNeg s := by
  obtain ⟨⟨cs, hc⟩, hd⟩ := hC
  refine ⟨nonneg_of_chain hc, ?_, hd.2.2.2.2.2⟩
  have := hc.2.1
  omega

theorem clip0_nonneg (x : Int) : 0 ≤ clip0 x := by unfold clip0; split <;> omega

/-- EVERY step (any action value, any draw) keeps the board numbers non-negative -/
theorem step_nonNeg (rnd : Rat → Rat) (cfg : Cfg) (s : State) (a : Int) (d : Nat) (hn : NonNeg s) :
    NonNeg (step rnd cfg s a d).1 := by
  obtain ⟨hb, hl, hs⟩ := hn
  refine ⟨?_, ?_, ?_⟩
  · intro x hx
    have hx' : x ∈ List.flatten (Grid.setWD
        (if (decide (s.head.row + (moveOf a).1 = s.fruit.row) && decide (s.head.col + (moveOf a).2 = s.fruit.col)) = true
          then s.bodyState else Grid.map clip0 s.bodyState)
        (s.head.row + (moveOf a).1) (s.head.col + (moveOf a).2)
        (s.length + (if (decide (s.head.row + (moveOf a).1 = s.fruit.row) &&
          decide (s.head.col + (moveOf a).2 = s.fruit.col)) = true then 1 else 0))) := hx
    rcases mem_flatten_setWD hx' with h | h
    · subst h; split <;> omega
    · split at h
      · exact hb x h
      · obtain ⟨y, _, rfl⟩ := mem_flatten_map _ _ h
        exact clip0_nonneg y
  · show 0 ≤ s.length + (if _ then 1 else 0)
    split <;> omega
  · show 0 ≤ s.stepCount + 1
    omega

/-- any step of a running episode (`step_count < time_limit`) from a state with non-negative board numbers:
observation within bounds, whatever the action and the draw -/
theorem step_obs_in_bounds_nonNeg (rnd : Rat → Rat) (hr : RndKeeps01 rnd) (cfg : Cfg) (s : State) (a : Int)
    (d : Nat) (hn : NonNeg s) (h1 : s.stepCount < cfg.timeLimit) :
    ObsInBounds cfg (step rnd cfg s a d).2.obs := by
  rw [step_obs]
  have hn' := step_nonNeg rnd cfg s a d hn
  have hc : (step rnd cfg s a d).1.stepCount = s.stepCount + 1 := rfl
  apply stateToObs_in_bounds rnd hr cfg _ hn'.1
  · rw [hc]; have := hn.2.2; omega
  · rw [hc]; omega

theorem step_obs_in_bounds (rnd : Rat → Rat) (hr : RndKeeps01 rnd) (cfg : Cfg) (s : State) (a : Int)
    (d : Nat) (hC : Consistent cfg s) (h1 : s.stepCount < cfg.timeLimit) :
    ObsInBounds cfg (step rnd cfg s a d).2.obs :=
  step_obs_in_bounds_nonNeg rnd hr cfg s a d (nonNeg_of_consistent hC) h1

theorem reset_nonNeg (rnd : Rat → Rat) (cfg : Cfg) (hr hc : Nat) (d : Nat) :
    NonNeg (reset rnd cfg hr hc d).1 := by
  refine ⟨?_, by show (0 : Int) ≤ 1; omega, by show (0 : Int) ≤ 0; omega⟩
  intro x hx
  have hx' : x ∈ List.flatten (Grid.map (fun b => if b then (1 : Int) else 0)
      (Grid.setWD (Grid.mk cfg.rows cfg.cols false) (hr : Int) (hc : Int) true)) := hx
  obtain ⟨b, _, rfl⟩ := mem_flatten_map _ _ hx'
  split <;> omega

theorem reset_obs_in_bounds (rnd : Rat → Rat) (hrnd : RndKeeps01 rnd) (cfg : Cfg) (hr hc : Nat) (d : Nat)
    (htl : 0 ≤ cfg.timeLimit) : ObsInBounds cfg (reset rnd cfg hr hc d).2.obs := by
  show ObsInBounds cfg (stateToObs rnd (reset rnd cfg hr hc d).1)
  apply stateToObs_in_bounds rnd hrnd cfg _ (reset_nonNeg rnd cfg hr hc d).1
  · show (0 : Int) ≤ 0
    omega
  · exact htl

end Snake
