/-
Tetris: the reset state as a generated instance (C10) and whole-episode accounting (C09):
  return = Σ over the placed pieces of `lineReward (lines cleared by that piece)`, score = running sum of rewards,
  filled cells at the end + numCols · (lines cleared) = filled cells at the start + 4 · (pieces placed).
-/
import JumanjiModel.Env.Tetris.StepLemmas
namespace Tetris
open Jm

/-! ### reset -/

theorem get_mk_zero (n m r c : Nat) : Jx.Grid.get (Jx.Grid.mk n m 0 : G) 0 r c = 0 := by
  unfold Jx.Grid.get Jx.Grid.mk
  by_cases hr : r < n
  · have e : (List.replicate n (List.replicate m (0 : Nat))).getD r [] = List.replicate m 0 := by
      simp [List.getD_eq_getElem?_getD, hr]
    rw [e]
    by_cases hc : c < m
    · simp [List.getD_eq_getElem?_getD, hc]
    · simp [List.getD_eq_getElem?_getD, hc]
  · have e : (List.replicate n (List.replicate m (0 : Nat))).getD r [] = [] := by
      simp [List.getD_eq_getElem?_getD, hr]
    rw [e]; simp

/-- the cells of every table piece lie in columns `< 4` … trivially; on the EMPTY grid every piece in rotation 0 can
be placed in column 0 (all sizes ≥ 4 × 4) -/
theorem legal_on_empty (cfg : Cfg) (hR : 4 ≤ cfg.numRows) (hC : 4 ≤ cfg.numCols) (d : Nat) :
    legalB cfg (Jx.Grid.mk (cfg.numRows + 3) (cfg.numCols + 3) 0) d 0 0 = true := by
  rw [ml_legalB_iff cfg _ d 0 0 hR (by omega) (by omega)]
  intro r _ c hc _
  exact ⟨by omega, fun r' _ => get_mk_zero _ _ _ _⟩

theorem legalMask_any (cfg : Cfg) (s : State) (hC : 4 ≤ cfg.numCols)
    (h : legalB cfg s.gridPadded s.tetrominoIndex 0 0 = true) :
    (legalMask cfg s).any (fun r => r.any id) = true := by
  unfold legalMask
  rw [List.any_eq_true]
  refine ⟨(List.range cfg.numCols).map (fun x => legalB cfg s.gridPadded s.tetrominoIndex 0 x), ?_, ?_⟩
  · exact List.mem_map.2 ⟨0, List.mem_range.2 (by omega), rfl⟩
  · rw [List.any_eq_true]
    exact ⟨true, List.mem_map.2 ⟨0, List.mem_range.2 (by omega), h⟩, rfl⟩

/-- C10: the reset state for EVERY size ≥ 4 × 4 and EVERY drawn piece index -/
theorem reset_instanceOK (cfg : Cfg) (hR : 4 ≤ cfg.numRows) (hC : 4 ≤ cfg.numCols) (d : Nat) (hd : validDraw d) :
    InstanceOK cfg (reset cfg d).1 := by
  have hc := reset_consistent cfg hR hC d hd
  obtain ⟨_, _, _, hi, hnew, hm, _⟩ := hc
  have hgrid : (reset cfg d).1.gridPadded = Jx.Grid.mk (cfg.numRows + 3) (cfg.numCols + 3) 0 := rfl
  have hidx : (reset cfg d).1.tetrominoIndex = d := rfl
  refine ⟨hgrid, rfl, hi, hnew, rfl, hm, ?_, rfl, rfl, rfl, rfl, rfl, rfl, rfl⟩
  rw [hm]
  apply legalMask_any cfg _ hC
  rw [hgrid, hidx]
  exact legal_on_empty cfg hR hC d

/-- the certificate makes the state a consistent start state -/
theorem instance_consistent (cfg : Cfg) (hR : 4 ≤ cfg.numRows) (hC : 4 ≤ cfg.numCols) (s : State)
    (h : InstanceOK cfg s) : Consistent cfg s := by
  obtain ⟨hg, _, hi, hnew, _, hm, _, _, _, _, _, _, _, hsc⟩ := h
  have hc := reset_consistent cfg hR hC s.tetrominoIndex hi
  have hgrid : (reset cfg s.tetrominoIndex).1.gridPadded = Jx.Grid.mk (cfg.numRows + 3) (cfg.numCols + 3) 0 := rfl
  obtain ⟨c1, c2, c3, _, _, _, _⟩ := hc
  rw [hgrid] at c1 c2 c3
  refine ⟨by rw [hg]; exact c1, by rw [hg]; exact c2, by rw [hg]; exact c3, hi, hnew, hm, by omega⟩

/-- the certificate characterises the range of `reset`: a state passes it iff it is the model's reset state for its
own piece index -/
theorem instance_is_reset (cfg : Cfg) (hR : 4 ≤ cfg.numRows) (hC : 4 ≤ cfg.numCols) (s : State)
    (h : InstanceOK cfg s) : (reset cfg s.tetrominoIndex).1 = s := by
  obtain ⟨hg, hgo, hi, hnew, hold, hm, _, hx, hy, hfl, hsc, hrw, hir, hst⟩ := h
  have hc := reset_consistent cfg hR hC s.tetrominoIndex hi
  obtain ⟨_, _, _, _, rnew, rm, _⟩ := hc
  have hmask : (reset cfg s.tetrominoIndex).1.actionMask = s.actionMask := by
    rw [rm, hm]
    unfold legalMask
    have e1 : (reset cfg s.tetrominoIndex).1.gridPadded = s.gridPadded := by rw [hg]; rfl
    have e2 : (reset cfg s.tetrominoIndex).1.tetrominoIndex = s.tetrominoIndex := rfl
    rw [e1, e2]
  have hnew' : (reset cfg s.tetrominoIndex).1.newTetromino = s.newTetromino := by
    rw [rnew, hnew]; rfl
  have hold' : (reset cfg s.tetrominoIndex).1.oldTetrominoRotated = s.oldTetrominoRotated := by
    rw [hold, ← hnew']; rfl
  cases s with
  | mk gp gpo idx ot nt xp yp am fl sc rw ir st =>
    simp only at hg hgo hx hy hfl hsc hrw hir hst hmask hnew' hold'
    subst hgo hx hy hfl hsc hrw hir hst
    simp only [reset] at hmask hnew' hold' ⊢
    simp only [State.mk.injEq]
    exact ⟨hg.symm, hg.symm, trivial, hold', hnew', trivial, trivial, hmask, trivial, trivial, trivial, trivial,
      trivial⟩

/-! ### one step -/

theorem lineReward_values : lineReward 0 = 0 ∧ lineReward 1 = 40 ∧ lineReward 2 = 100 ∧ lineReward 3 = 300 ∧
    lineReward 4 = 1200 := by decide +kernel

/-- "a convex function of the number of cleared lines": increasing increments on 0..4 -/
theorem lineReward_convex : ∀ k, k < 3 →
    lineReward (k + 1) - lineReward k ≤ lineReward (k + 2) - lineReward (k + 1) := by decide +kernel

theorem step_score (cfg : Cfg) (s : State) (rot x : Int) (d : Nat) :
    (step cfg s rot x d).1.score = s.score + (step cfg s rot x d).2.reward.sum := by
  have h1 : (step cfg s rot x d).1.score = s.score +
      Jx.getWC rewardList 0 ((Jx.countTrue (step cfg s rot x d).1.fullLines : Nat) : Int) *
        (if isValid s rot x then 1 else 0) := by simp [step]
  rw [h1, step_reward]
  simp [Rat.add_zero]

/-- reward of a legal step = documented function of the number of lines the piece clears (at most 4) -/
theorem step_reward_eq_lines (cfg : Cfg) (s : State) (hc : Consistent cfg s) (hR : 4 ≤ cfg.numRows)
    (hC : 4 ≤ cfg.numCols) (rot x d : Nat) (hr : rot < 4) (hx : x < cfg.numCols) (hd : validDraw d)
    (hl : legal cfg s rot x) :
    (step cfg s (rot : Int) (x : Int) d).2.reward =
      [lineReward (dropSpec cfg s.gridPadded s.tetrominoIndex rot x).2] ∧
    (dropSpec cfg s.gridPadded s.tetrominoIndex rot x).2 ≤ 4 ∧
    Jx.countTrue (step cfg s (rot : Int) (x : Int) d).1.fullLines =
      (dropSpec cfg s.gridPadded s.tetrominoIndex rot x).2 :=
  ⟨(step_eq_spec cfg s hc hR hC rot x d hr hx hd hl).2.2, step_cleared_le cfg s hc rot x,
    (step_eq_spec cfg s hc hR hC rot x d hr hx hd hl).2.1⟩

/-! ### whole episodes -/

private theorem sum_single (x : Rat) : [x].sum = x := by
  simp [List.sum_cons, List.sum_nil, Rat.add_zero]

/-- whole play from ANY consistent state, ANY in-spec actions and draws: the return is the sum over the placed pieces
of the documented function of the lines each cleared (an illegal terminal action pays nothing), every piece clears at
most 4 lines, the score is the running sum of the rewards, and the cell count obeys
  cells(final) + numCols · Σ lines = cells(start) + 4 · pieces -/
theorem play_accounting (cfg : Cfg) (hR : 4 ≤ cfg.numRows) (hC : 4 ≤ cfg.numCols) (s : State)
    (hc : Consistent cfg s) (as : List (Nat × Nat × Nat)) (hin : InSpec cfg as) :
    (play cfg s as).ret = ((play cfg s as).lines.map lineReward).sum ∧
    (∀ k ∈ (play cfg s as).lines, k ≤ 4) ∧
    (play cfg s as).final.score = s.score + (play cfg s as).ret ∧
    cells cfg (play cfg s as).final.gridPadded + cfg.numCols * (play cfg s as).lines.sum =
      cells cfg s.gridPadded + 4 * (play cfg s as).lines.length := by
  induction as generalizing s with
  | nil => simp [play, Rat.add_zero]
  | cons a as ih =>
    obtain ⟨hr, hx, hd⟩ := hin a (List.mem_cons_self ..)
    by_cases hlast : (step cfg s (a.1 : Int) (a.2.1 : Int) a.2.2).2.stepType = .last
    · by_cases hl : legal cfg s a.1 a.2.1
      · obtain ⟨e1, e2, e3⟩ := step_reward_eq_lines cfg s hc hR hC a.1 a.2.1 a.2.2 hr hx hd hl
        have e4 := step_conserved cfg s hc hR hC a.1 a.2.1 a.2.2 hr hx hd hl
        simp only [play, hlast, hl, if_true]
        refine ⟨?_, ?_, step_score cfg s _ _ _, ?_⟩
        · rw [e1]; simp [Rat.add_zero]
        · intro k hk; rw [List.mem_singleton.1 hk]; exact e2
        · rw [e3] at e4
          simp only [List.sum_cons, List.sum_nil, List.length_cons, List.length_nil]
          omega
      · obtain ⟨_, e1⟩ := illegal_step cfg s hc.2.2.2.2.2.1 hr hx a.2.2 hl
        simp only [play, hlast, hl, if_true, if_false]
        refine ⟨?_, ?_, ?_, ?_⟩
        · rw [e1]; simp [Rat.add_zero]
        · intro k hk; cases hk
        · rw [e1]; simp [Rat.add_zero]
        · simp
    · have hl : legal cfg s a.1 a.2.1 := by
        apply Classical.byContradiction
        intro h; exact hlast (illegal_step cfg s hc.2.2.2.2.2.1 hr hx a.2.2 h).1
      obtain ⟨e1, e2, e3⟩ := step_reward_eq_lines cfg s hc hR hC a.1 a.2.1 a.2.2 hr hx hd hl
      have e4 := step_conserved cfg s hc hR hC a.1 a.2.1 a.2.2 hr hx hd hl
      have hc' := step_consistent cfg s hc hR hC a.1 a.2.1 a.2.2 hr hx hd hlast
      obtain ⟨i1, i2, i3, i4⟩ := ih _ hc' (fun b hb => hin b (List.mem_cons_of_mem _ hb))
      simp only [play, hlast, if_false]
      refine ⟨?_, ?_, ?_, ?_⟩
      · rw [i1, e1, sum_single]; simp [List.sum_cons]
      · intro k hk
        rcases List.mem_cons.1 hk with h | h
        · rw [h]; exact e2
        · exact i2 k h
      · rw [i3, step_score, Rat.add_assoc]
      · rw [e3] at e4
        simp only [List.sum_cons, List.length_cons]
        rw [Nat.mul_add, Nat.mul_add]
        omega

theorem cells_empty (cfg : Cfg) : cells cfg (Jx.Grid.mk (cfg.numRows + 3) (cfg.numCols + 3) 0) = 0 := by
  unfold cells Jx.Grid.count
  rw [List.length_eq_zero_iff, List.filter_eq_nil_iff]
  intro v hv
  unfold field Jx.Grid.mk at hv
  obtain ⟨row, hrow, hv⟩ := List.mem_flatten.1 hv
  obtain ⟨r', hr', rfl⟩ := List.mem_map.1 hrow
  rw [(List.mem_replicate.1 (List.mem_of_mem_take hr')).2] at hv
  rw [(List.mem_replicate.1 (List.mem_of_mem_take hv)).2]
  simp

end Tetris
