/-
Tetris — C01 spec membership (wave 3): the declared specs as `Sp` values (equal to the generated literals of the catalogue
configuration, Props/Env/Tetris.lean), membership of the observations of `reset` and of EVERY `step` (any integers as action,
legal or not, terminal step included) from a state whose padded grid has its shape, the shape invariant along every rollout,
reward / discount / action spec.  Also the `step`-level statement of "the environment treated the action as invalid" (C04)
and consistency along whole plays (C07).
-/
import JumanjiModel.Env.Tetris.StepLemmas
import JumanjiModel.Env.Tetris.Bounds
import JumanjiModel.Env.Tetris.EpisodeLemmas
import JumanjiModel.Env.PackSpecValid
import JumanjiModel.Core.ProtocolLemmas
namespace Tetris
open Jm Sp PzS PkS PzB

/-! ### the declared specs (env.py `observation_spec`, `action_spec`) -/

/-- `observation_spec`: `grid` BoundedArray((num_rows, num_cols), int32, 0, 1), `tetromino` BoundedArray((4, 4), int32, 0, 1),
`action_mask` BoundedArray((4, num_cols), bool, False, True), `step_count` DiscreteArray(time_limit + 1, int32) -/
def obsSpec (cfg : Cfg) : Sp.Nested :=
  [("grid", .bounded [cfg.numRows, cfg.numCols] .int32 "grid" [] [0] [] [1]),
   ("tetromino", .bounded [4, 4] .int32 "tetromino" [] [0] [] [1]),
   ("action_mask", .bounded [4, cfg.numCols] .bool "action_mask" [] [0] [] [1]),
   ("step_count", .discrete (cfg.timeLimit + 1) .int32 "step_count")]

/-- `action_spec`: MultiDiscreteArray([4, num_cols], int32) -/
def actionSpec (cfg : Cfg) : Leaf := .multiDiscrete [2] [4, cfg.numCols] .int32 "action"

/-- a model observation as the arrays the implementation emits; the shapes are READ OFF the values -/
def toNValue (o : Obs) : NValue :=
  [("grid", ⟨shape2 o.grid, .int32, ofNats o.grid.flatten⟩),
   ("tetromino", ⟨shape2 o.tetromino, .int32, ofNats o.tetromino.flatten⟩),
   ("action_mask", ⟨shape2 o.actionMask, .bool, ofBools o.actionMask.flatten⟩),
   ("step_count", ⟨[], .int32, [(o.stepCount : Rat)]⟩)]

def actionArr (rot x : Int) : Arr := ⟨[2], .int32, [(rot : Rat), (x : Rat)]⟩

/-- what membership amounts to -/
def ObsOK (cfg : Cfg) (o : Obs) : Prop :=
  Rect2 o.grid cfg.numRows cfg.numCols ∧ (∀ r ∈ o.grid, ∀ v ∈ r, v ≤ 1) ∧
  Rect2 o.tetromino 4 4 ∧ (∀ r ∈ o.tetromino, ∀ v ∈ r, v ≤ 1) ∧
  Rect2 o.actionMask 4 cfg.numCols ∧ o.stepCount ≤ cfg.timeLimit

theorem mem_flatten_le {g : G} {b : Nat} (h : ∀ r ∈ g, ∀ v ∈ r, v ≤ b) : ∀ v ∈ g.flatten, v ≤ b := by
  intro v hv
  obtain ⟨r, hr, hv'⟩ := List.mem_flatten.mp hv
  exact h r hr v hv'

theorem obs_valid (cfg : Cfg) (hR : 0 < cfg.numRows) (o : Obs) (h : ObsOK cfg o) :
    (obsSpec cfg).valid (toNValue o) = true := by
  obtain ⟨h1, h2, h3, h4, h5, h6⟩ := h
  have v1 := valid_bounded2 cfg.numRows cfg.numCols .int32 "grid" 0 1 o.grid ofNats ofNats_length h1 hR
    (by simpa using ofNats_bounds _ 1 (mem_flatten_le h2))
  have v2 := valid_bounded2 4 4 .int32 "tetromino" 0 1 o.tetromino ofNats ofNats_length h3 (by omega)
    (by simpa using ofNats_bounds _ 1 (mem_flatten_le h4))
  have v3 := valid_bounded2 4 cfg.numCols .bool "action_mask" 0 1 o.actionMask ofBools ofBools_length h5 (by omega)
    (ofBools_bounds _)
  have v4 := valid_discrete_nat (cfg.timeLimit + 1) .int32 "step_count" o.stepCount (by omega)
  simp [Nested.valid, obsSpec, toNValue, v1, v2, v3, v4]

/-- … and conversely `validate` accepts nothing else: declared shapes, cells 0/1, counter at most the time limit -/
theorem obs_valid_only (cfg : Cfg) (o : Obs) (h : (obsSpec cfg).valid (toNValue o) = true) :
    shape2 o.grid = [cfg.numRows, cfg.numCols] ∧ (∀ v ∈ o.grid.flatten, v ≤ 1) ∧
    shape2 o.tetromino = [4, 4] ∧ (∀ v ∈ o.tetromino.flatten, v ≤ 1) ∧
    shape2 o.actionMask = [4, cfg.numCols] ∧ o.stepCount ≤ cfg.timeLimit := by
  simp only [Nested.valid, obsSpec, toNValue, List.map_cons, List.map_nil, List.zipWith_cons_cons, List.zipWith_nil_right,
    List.all_cons, List.all_nil, id, Bool.and_true, Bool.and_eq_true, beq_self_eq_true, true_and] at h
  obtain ⟨h1, h2, h3, h4⟩ := h
  rw [valid_scalar_bounded_iff] at h1 h2 h3
  have h4' := valid_discrete_nat_only _ _ _ _ _ h4
  refine ⟨h1.1, ofNats_bounds_conv _ 1 (by simpa using h1.2.2.2), h2.1, ofNats_bounds_conv _ 1 (by simpa using h2.2.2.2),
    h3.1, by omega⟩

/-! ### the shape invariant: the padded grid is `(num_rows + 3) × (num_cols + 3)`; kept by EVERY step -/

def GridShaped (cfg : Cfg) (s : State) : Prop :=
  Jx.Grid.shaped s.gridPadded (cfg.numRows + 3) (cfg.numCols + 3) = true

theorem paint_shaped {g : G} {R C : Nat} (h : Jx.Grid.shaped g R C = true) (t : G) (color ys xs : Nat) :
    Jx.Grid.shaped (paint g t color ys xs) R C = true := by
  rw [ml_shaped_iff] at h ⊢
  obtain ⟨hl, hr⟩ := h
  unfold paint
  refine ⟨by simpa using hl, ?_⟩
  intro r hr'
  rw [List.mem_mapIdx] at hr'
  obtain ⟨i, hi, rfl⟩ := hr'
  simp only [List.length_mapIdx]
  exact hr _ (List.getElem_mem hi)

theorem placeTetromino_shaped {g : G} {R C : Nat} (h : Jx.Grid.shaped g R C = true) (t : G) (x : Int) :
    Jx.Grid.shaped (placeTetromino g t x).1 R C = true := by
  unfold placeTetromino
  exact paint_shaped h _ _ _ _

theorem cleanLines_shaped {g : G} {R C : Nat} (h : Jx.Grid.shaped g R C = true) (nc : Nat) :
    Jx.Grid.shaped (cleanLines g (fullLinesOf nc g)) R C = true := by
  rw [ml_shaped_iff] at h ⊢
  obtain ⟨hl, hr⟩ := h
  rw [cleanLines_fullLines]
  refine ⟨?_, ?_⟩
  · have := filter_length_add g (fun r => (r.take nc).all (fun v => v != 0))
    simp only [List.length_append, List.length_map]
    omega
  · intro r hr'
    rw [List.mem_append] at hr'
    rcases hr' with hr' | hr'
    · obtain ⟨r', hr'', rfl⟩ := List.mem_map.1 hr'
      simpa using hr r' (List.mem_filter.1 hr'').1
    · exact hr r (List.mem_filter.1 hr').1

theorem step_gridShaped (cfg : Cfg) (s : State) (h : GridShaped cfg s) (rot x : Int) (d : Nat) :
    GridShaped cfg (step cfg s rot x d).1 := by
  unfold GridShaped
  rw [step_grid]
  exact cleanLines_shaped (placeTetromino_shaped h _ _) _

theorem reset_gridShaped (cfg : Cfg) (d : Nat) : GridShaped cfg (reset cfg d).1 := by
  unfold GridShaped reset
  simp [Jx.Grid.shaped, Jx.Grid.mk]

/-! ### the leaves of the observations -/

theorem piece0_rect (d : Nat) (hd : validDraw d) :
    Rect2 (Jx.getWC (Jx.getWC tetrominoes [] (d : Int)) [] 0) 4 4 := by
  have := table_lookup (d := d) (rot := 0) hd (by omega)
  simp only [Int.natCast_zero] at this
  rw [this]
  exact rect2_of_shaped (ml_piece_shaped d hd 0 (by omega))

theorem mask_rect (cfg : Cfg) (gp : G) (hs : Jx.Grid.shaped gp (cfg.numRows + 3) (cfg.numCols + 3) = true)
    (hC : 3 ≤ cfg.numCols) (d : Nat) (hd : validDraw d) :
    Rect2 (calcActionMask (clip1 gp) (d : Int)) 4 cfg.numCols := by
  unfold calcActionMask
  rw [Jx.getWC_nat _ _ (by rw [ml_tetrominoes_length]; exact hd)]
  refine ⟨by rw [List.length_map, ml_rots_length d hd], ?_⟩
  intro row hrow
  obtain ⟨t, _, rfl⟩ := List.mem_map.1 hrow
  exact ml_tam_length cfg gp t hs hC

theorem field_rect (cfg : Cfg) (g : G) (hs : Jx.Grid.shaped g (cfg.numRows + 3) (cfg.numCols + 3) = true) :
    Rect2 ((g.take cfg.numRows).map (fun r => r.take cfg.numCols)) cfg.numRows cfg.numCols := by
  rw [ml_shaped_iff] at hs
  refine ⟨by simp; omega, ?_⟩
  intro r hr
  obtain ⟨r', hr', rfl⟩ := List.mem_map.1 hr
  have := hs.2 r' (List.mem_of_mem_take hr')
  simp; omega

theorem step_obs_eq (cfg : Cfg) (s : State) (rot x : Int) (d : Nat) :
    (step cfg s rot x d).2.obs =
      { grid := ((clip1 (step cfg s rot x d).1.gridPadded).take cfg.numRows).map (fun r => r.take cfg.numCols),
        tetromino := Jx.getWC (Jx.getWC tetrominoes [] (d : Int)) [] 0,
        actionMask := calcActionMask (clip1 (step cfg s rot x d).1.gridPadded) (d : Int),
        stepCount := s.stepCount + 1 } := by
  unfold step
  simp only [condLast_obs]

theorem step_obsOK (cfg : Cfg) (hC : 3 ≤ cfg.numCols) (s : State) (hs : GridShaped cfg s)
    (hlim : s.stepCount < cfg.timeLimit) (rot x : Int) (d : Nat) (hd : validDraw d) :
    ObsOK cfg (step cfg s rot x d).2.obs := by
  have hs' := step_gridShaped cfg s hs rot x d
  rw [step_obs_eq]
  refine ⟨field_rect cfg _ (ml_shaped_clip1 hs'), clipField_le_one _ _ _, piece0_rect d hd, piece_le_one _ _,
    mask_rect cfg _ hs' hC d hd, by simp only []; omega⟩

theorem reset_obsOK (cfg : Cfg) (hC : 3 ≤ cfg.numCols) (d : Nat) (hd : validDraw d) :
    ObsOK cfg (reset cfg d).2.obs := by
  have hs : Jx.Grid.shaped (Jx.Grid.mk (cfg.numRows + 3) (cfg.numCols + 3) 0 : G) (cfg.numRows + 3) (cfg.numCols + 3)
      = true := reset_gridShaped cfg d
  have hm := mask_rect cfg _ hs hC d hd
  rw [clip1_zero] at hm
  unfold reset
  simp only [restart_obs]
  refine ⟨field_rect cfg _ hs, ?_, piece0_rect d hd, piece_le_one _ _, hm, Nat.zero_le _⟩
  intro r hr v hv
  obtain ⟨r0, hr0, rfl⟩ := List.mem_map.1 hr
  have hr1 := List.mem_of_mem_take hr0
  have hv1 := List.mem_of_mem_take hv
  simp only [Jx.Grid.mk, List.mem_replicate] at hr1
  obtain ⟨_, rfl⟩ := hr1
  simp only [List.mem_replicate] at hv1
  omega

/-- C01: the `reset` observation is a member of `observation_spec`, for every size ≥ 1 × 3 and every valid draw -/
theorem reset_obs_valid (cfg : Cfg) (hR : 0 < cfg.numRows) (hC : 3 ≤ cfg.numCols) (d : Nat) (hd : validDraw d) :
    (obsSpec cfg).valid (toNValue (reset cfg d).2.obs) = true :=
  obs_valid cfg hR _ (reset_obsOK cfg hC d hd)

/-- C01: the observation of EVERY step (any integers as action, legal or not, LAST or not) from a state with a shaped
grid whose counter has not reached the limit -/
theorem step_obs_valid (cfg : Cfg) (hR : 0 < cfg.numRows) (hC : 3 ≤ cfg.numCols) (s : State) (hs : GridShaped cfg s)
    (hlim : s.stepCount < cfg.timeLimit) (rot x : Int) (d : Nat) (hd : validDraw d) :
    (obsSpec cfg).valid (toNValue (step cfg s rot x d).2.obs) = true :=
  obs_valid cfg hR _ (step_obsOK cfg hC s hs hlim rot x d hd)

/-- whole episodes: along the rollout of ANY actions (any integers) and valid draws from `reset`, every observation emitted
by one of the first `time_limit` steps is a member of the spec (the first LAST comes at a step `k ≤ time_limit`:
`tetris_rollout_ends_by_limit`) -/
theorem rollout_obs_valid (cfg : Cfg) (hR : 0 < cfg.numRows) (hC : 3 ≤ cfg.numCols) (d0 : Nat)
    (as : List (Int × Int × Nat)) (has : ∀ a ∈ as, validDraw a.2.2) (j : Nat) (hj : j < cfg.timeLimit)
    (e : State × TimeStep Obs)
    (he : (Ep.rollout (fun s (a : Int × Int × Nat) => step cfg s a.1 a.2.1 a.2.2) (reset cfg d0).1 as)[j]? = some e) :
    (obsSpec cfg).valid (toNValue e.2.obs) = true := by
  obtain ⟨s', a, hinv, ha, rfl⟩ := rollout_inv_idx (fun s (a : Int × Int × Nat) => step cfg s a.1 a.2.1 a.2.2)
    (fun n s => GridShaped cfg s ∧ s.stepCount = n) (fun a => validDraw a.2.2)
    (fun n s a h _ => ⟨step_gridShaped cfg s h.1 _ _ _, by show (step cfg s a.1 a.2.1 a.2.2).1.stepCount = n + 1; rw [step_count, h.2]⟩) 0 _
    ⟨reset_gridShaped cfg d0, rfl⟩ as has j e he
  exact step_obs_valid cfg hR hC s' hinv.1 (by rw [hinv.2]; omega) _ _ _ ha

/-! ### reward, discount, action spec -/

theorem step_protocol (cfg : Cfg) (s : State) (rot x : Int) (d : Nat) : StepOK none false (step cfg s rot x d).2 = true := by
  unfold step; exact condLast_stepOK _ _ _

theorem step_reward_discount_valid (cfg : Cfg) (s : State) (rot x : Int) (d : Nat) :
    rewardSpec.valid (scalarArr (step cfg s rot x d).2.reward) = true ∧
    discountSpec.valid (scalarArr (step cfg s rot x d).2.discount) = true :=
  stepOK_reward_discount_valid false _ (step_protocol cfg s rot x d)

theorem reset_reward_discount_valid (cfg : Cfg) (d : Nat) :
    rewardSpec.valid (scalarArr (reset cfg d).2.reward) = true ∧
    discountSpec.valid (scalarArr (reset cfg d).2.discount) = true := by
  unfold reset; simp only [restart]; exact ⟨by decide, by decide⟩

theorem actionSpec_generate (cfg : Cfg) : (actionSpec cfg).generate = actionArr 0 0 := by
  simp [actionSpec, Leaf.generate, Leaf.lower, Leaf.shape, Leaf.dtype, actionArr]

/-- membership in `action_spec` is exactly "rotation < 4 and column < num_cols" -/
theorem actionSpec_valid_iff (cfg : Cfg) (rot x : Nat) :
    (actionSpec cfg).valid (actionArr (rot : Int) (x : Int)) = true ↔ rot < 4 ∧ x < cfg.numCols := by
  rw [Leaf.valid_iff]
  simp only [actionSpec, Leaf.shape, Leaf.dtype, Leaf.lower, Leaf.upper, actionArr, prod]
  constructor
  · rintro ⟨_, _, _, h⟩
    rcases h with ⟨h, _⟩ | ⟨lo, hi, hl, hu, hall⟩
    · simp at h
    · simp only [Option.some.injEq] at hl hu
      subst hl; subst hu
      have h0 := hall 0 (by simp) (by simp)
      have h1 := hall 1 (by simp) (by simp)
      simp only [List.map_cons, List.map_nil, List.zip_cons_cons, List.getElem_cons_zero, List.getElem_cons_succ] at h0 h1
      have a0 : ((rot : Int) : Rat) ≤ (((4 : Nat) : Int) - 1 : Int) := h0.2
      have a1 : ((x : Int) : Rat) ≤ (((cfg.numCols : Nat) : Int) - 1 : Int) := h1.2
      have b0 := Rat.intCast_le_intCast.mp a0
      have b1 := Rat.intCast_le_intCast.mp a1
      omega
  · rintro ⟨hr, hx⟩
    refine ⟨trivial, trivial, by simp, Or.inr ⟨_, _, rfl, rfl, ?_⟩⟩
    intro k h1 h2
    have hk : k = 0 ∨ k = 1 := by simp at h1; omega
    rcases hk with rfl | rfl
    · simp only [List.map_cons, List.map_nil, List.zip_cons_cons, List.getElem_cons_zero]
      exact ⟨by exact_mod_cast Int.natCast_nonneg rot,
        Rat.intCast_le_intCast.mpr (by omega : (rot : Int) ≤ ((4 : Nat) : Int) - 1)⟩
    · simp only [List.map_cons, List.map_nil, List.zip_cons_cons, List.getElem_cons_succ, List.getElem_cons_zero]
      exact ⟨by exact_mod_cast Int.natCast_nonneg x,
        Rat.intCast_le_intCast.mpr (by omega : (x : Int) ≤ ((cfg.numCols : Nat) : Int) - 1)⟩

theorem accepts_generate_value (cfg : Cfg) (hC : 0 < cfg.numCols) (hbig : cfg.numCols ≤ 2147483648) (s : State) (d : Nat) :
    (actionSpec cfg).WF = true ∧ (actionSpec cfg).valid (actionSpec cfg).generate = true ∧
    (actionSpec cfg).generate = actionArr 0 0 ∧ StepOK none false (step cfg s 0 0 d).2 = true := by
  have hw : (actionSpec cfg).WF = true := by
    have fitsI : ∀ z : Int, -2147483648 ≤ z → z ≤ 2147483647 → DType.int32.fits ((z : Int) : Rat) = true := by
      intro z h1 h2; simp [DType.fits, DType.intRange, Rat.den_intCast, Rat.num_intCast, h1, h2]
    have h4 : DType.int32.fits (((((4 : Nat) : Int) - 1 : Int)) : Rat) = true := fitsI _ (by omega) (by omega)
    have hd : DType.int32.fits (((((cfg.numCols : Nat) : Int) - 1 : Int)) : Rat) = true := fitsI _ (by omega) (by omega)
    simp only [actionSpec, Leaf.WF, Leaf.WF0, Leaf.fitsDType, List.all_cons, List.all_nil, h4, hd]
    simp [prod, DType.isInt, hC]
  exact ⟨hw, Leaf.generate_valid _ hw, actionSpec_generate cfg, step_protocol cfg s 0 0 d⟩

/-! ### C04: what `step` does with an action, stated on the outputs of `step` -/

/-- in a consistent state, for an action of the action space: the step is LAST exactly when the rules forbid the action, or
no move is left for the next piece, or the time is up — so "treated as invalid" (LAST although a move is left and time is
not up) happens exactly for illegal actions -/
theorem step_last_iff_rules (cfg : Cfg) (s : State) (hc : Consistent cfg s) {rot x : Nat} (hr : rot < 4)
    (hx : x < cfg.numCols) (d : Nat) :
    (step cfg s (rot : Int) (x : Int) d).2.stepType = .last ↔
      (¬ legal cfg s rot x ∨ (step cfg s (rot : Int) (x : Int) d).1.actionMask.any (fun r => r.any id) = false ∨
        cfg.timeLimit ≤ s.stepCount + 1) := by
  rw [last_iff, step_count, isValid_eq_legal cfg s hc.2.2.2.2.2.1 hr hx]
  unfold legal
  cases legalB cfg s.gridPadded s.tetrominoIndex rot x <;> simp

theorem step_treated_invalid_iff (cfg : Cfg) (s : State) (hc : Consistent cfg s) {rot x : Nat} (hr : rot < 4)
    (hx : x < cfg.numCols) (d : Nat)
    (hmove : (step cfg s (rot : Int) (x : Int) d).1.actionMask.any (fun r => r.any id) = true)
    (htime : s.stepCount + 1 < cfg.timeLimit) :
    (step cfg s (rot : Int) (x : Int) d).2.stepType = .last ↔ ¬ legal cfg s rot x := by
  rw [step_last_iff_rules cfg s hc hr hx d, hmove]
  constructor
  · rintro (h | h | h)
    · exact h
    · exact absurd h (by simp)
    · omega
  · exact Or.inl

/-! ### C07: consistency along whole plays from `reset` -/

/-- the states of a play: the state after each step whose timestep was not LAST -/
def liveStates (cfg : Cfg) (s : State) : List (Nat × Nat × Nat) → List State
  | [] => []
  | a :: as =>
    if (step cfg s (a.1 : Int) (a.2.1 : Int) a.2.2).2.stepType = .last then []
    else (step cfg s (a.1 : Int) (a.2.1 : Int) a.2.2).1 :: liveStates cfg (step cfg s (a.1 : Int) (a.2.1 : Int) a.2.2).1 as

theorem consistent_along (cfg : Cfg) (hR : 4 ≤ cfg.numRows) (hC : 4 ≤ cfg.numCols) (s : State) (hc : Consistent cfg s)
    (as : List (Nat × Nat × Nat)) (hin : InSpec cfg as) : ∀ s' ∈ liveStates cfg s as, Consistent cfg s' := by
  induction as generalizing s with
  | nil => intro s' h; simp [liveStates] at h
  | cons a as ih =>
    intro s' h
    unfold liveStates at h
    split at h
    · simp at h
    · rename_i hn
      have ha := hin a (by simp)
      have hc' := step_consistent cfg s hc hR hC a.1 a.2.1 a.2.2 ha.1 ha.2.1 ha.2.2 hn
      rcases List.mem_cons.1 h with rfl | h
      · exact hc'
      · exact ih _ hc' (fun b hb => hin b (by simp [hb])) s' h

/-! ### audit r5 #4: LAST at the level of the rules (no cached L1 field in the statement) -/

/-- after a LEGAL drop (LAST or not) the cached mask of the successor is its legality table -/
theorem step_mask_legalMask (cfg : Cfg) (s : State) (hc : Consistent cfg s) (hR : 4 ≤ cfg.numRows)
    (hC : 4 ≤ cfg.numCols) (rot x d : Nat) (hr : rot < 4) (hx : x < cfg.numCols) (hd : validDraw d)
    (hl : legal cfg s rot x) :
    (step cfg s (rot : Int) (x : Int) d).1.actionMask = legalMask cfg (step cfg s (rot : Int) (x : Int) d).1 := by
  obtain ⟨hs, hp, _, hi, _, hm, _⟩ := hc
  obtain ⟨hg, _⟩ := step_grid_placed cfg s hi rot x d hr
  obtain ⟨hs1, hp1⟩ := place_padding cfg s.gridPadded s.tetrominoIndex rot x hs hp hR hC hi hr hx hl
  obtain ⟨hs2, hp2⟩ := cleanLines_shaped_padding cfg _ hs1 hp1 (by omega)
  have hidx := step_index cfg s (rot : Int) (x : Int) d
  have hd' : d < 7 := hd
  apply mask_of_grid cfg _ _ _ hR hC
  · rw [hidx]; exact hd'
  · exact cached_mask cfg s (rot : Int) (x : Int) d
  · rw [hg]; exact hs2
  · rw [hg]; exact hp2

theorem legalMask_any_false_iff (cfg : Cfg) (s : State) :
    (legalMask cfg s).any (fun r => r.any id) = false ↔
      ∀ rot' x', rot' < 4 → x' < cfg.numCols → ¬ legal cfg s rot' x' := by
  unfold legalMask legal
  simp only [List.any_eq_false, List.mem_map, List.mem_range, forall_exists_index, and_imp, forall_apply_eq_imp_iff₂,
    id, Bool.not_eq_true]
  constructor
  · intro h rot' x' hr hx
    have := h rot' hr
    simpa using this x' hx
  · intro h rot' hr
    intro x' hx
    simpa using h rot' x' hr hx

theorem step_last_iff_rules' (cfg : Cfg) (s : State) (hc : Consistent cfg s) (hR : 4 ≤ cfg.numRows)
    (hC : 4 ≤ cfg.numCols) {rot x : Nat} (hr : rot < 4) (hx : x < cfg.numCols) (d : Nat) (hd : validDraw d) :
    (step cfg s (rot : Int) (x : Int) d).2.stepType = .last ↔
      (¬ legal cfg s rot x ∨
       (∀ rot' x', rot' < 4 → x' < cfg.numCols → ¬ legal cfg (step cfg s (rot : Int) (x : Int) d).1 rot' x') ∨
        cfg.timeLimit ≤ s.stepCount + 1) := by
  rw [step_last_iff_rules cfg s hc hr hx d]
  by_cases hl : legal cfg s rot x
  · rw [step_mask_legalMask cfg s hc hR hC rot x d hr hx hd hl, legalMask_any_false_iff]
  · simp [hl]

end Tetris
