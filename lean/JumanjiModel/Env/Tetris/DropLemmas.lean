import JumanjiModel.Env.Tetris.Model
import JumanjiModel.Prim.Lemmas
namespace Tetris

def rm (R C : Nat) (F : Nat → Nat → Nat) : G :=
  (List.range R).map (fun i => (List.range C).map (fun j => F i j))

theorem shaped_eq_rm {g : G} {R C : Nat} (h : Jx.Grid.shaped g R C = true) :
    g = rm R C (Jx.Grid.get g 0) := by
  unfold Jx.Grid.shaped at h
  simp only [Bool.and_eq_true, beq_iff_eq, List.all_eq_true] at h
  obtain ⟨hl, hr⟩ := h
  unfold rm
  apply List.ext_getElem
  · simp [hl]
  · intro i h1 h2
    have hrow : g[i].length = C := hr _ (List.getElem_mem h1)
    apply List.ext_getElem
    · simp [hrow]
    · intro j h3 h4
      simp [Jx.Grid.get, List.getD, h1, h3]

theorem get_rm {R C : Nat} (F : Nat → Nat → Nat) {i j : Nat} (hi : i < R) (hj : j < C) :
    Jx.Grid.get (rm R C F) 0 i j = F i j := by
  simp [rm, Jx.Grid.get, List.getD, hi, hj]

theorem rm_congr {R C : Nat} {F F' : Nat → Nat → Nat} (h : ∀ i, i < R → ∀ j, j < C → F i j = F' i j) :
    rm R C F = rm R C F' := by
  unfold rm
  apply List.map_congr_left; intro i hi
  apply List.map_congr_left; intro j hj
  exact h i (List.mem_range.mp hi) j (List.mem_range.mp hj)

theorem shaped_rm (R C : Nat) (F : Nat → Nat → Nat) : Jx.Grid.shaped (rm R C F) R C = true := by
  simp [rm, Jx.Grid.shaped]

theorem dsStart4_nat {n y : Nat} (h : y + 4 ≤ n) : dsStart n 4 (y : Int) = y := by
  unfold dsStart Jx.wrapIdx
  simp only []
  repeat' split
  all_goals omega

theorem mem_coords (nr nc : Nat) (p : Nat × Nat) :
    p ∈ Jx.Grid.coords nr nc ↔ p.1 < nr ∧ p.2 < nc := by
  unfold Jx.Grid.coords
  simp only [List.mem_flatMap, List.mem_map, List.mem_range]
  constructor
  · rintro ⟨i, hi, j, hj, rfl⟩
    exact ⟨hi, hj⟩
  · rintro ⟨h1, h2⟩
    exact ⟨p.1, h1, p.2, h2, rfl⟩

theorem mem_pieceCells (t : G) (p : Nat × Nat) :
    p ∈ pieceCells t ↔ p.1 < 4 ∧ p.2 < 4 ∧ Jx.Grid.get t 0 p.1 p.2 ≠ 0 := by
  unfold pieceCells
  simp [List.mem_filter, mem_coords, and_assoc]

theorem get_clip1 (g : G) (i j : Nat) :
    Jx.Grid.get (clip1 g) 0 i j = min (Jx.Grid.get g 0 i j) 1 := by
  unfold clip1 Jx.Grid.get
  simp only [List.getD_eq_getElem?_getD, List.getElem?_map]
  cases g[i]? with
  | none => simp
  | some row =>
    simp only [Option.map_some, Option.getD_some, List.getElem?_map]
    cases row[j]? <;> simp

theorem shaped_clip1 {g : G} {R C : Nat} (h : Jx.Grid.shaped g R C = true) :
    Jx.Grid.shaped (clip1 g) R C = true := by
  simp [Jx.Grid.shaped, clip1] at h ⊢
  exact h

theorem slice4_eq {g : G} {n m y x : Nat} (h : Jx.Grid.shaped g n m = true)
    (hy : y + 4 ≤ n) (hx : x + 4 ≤ m) :
    slice4 g (y : Int) (x : Int) = rm 4 4 (fun r c => Jx.Grid.get g 0 (y + r) (x + c)) := by
  unfold Jx.Grid.shaped at h
  simp only [Bool.and_eq_true, beq_iff_eq, List.all_eq_true] at h
  obtain ⟨hl, hr⟩ := h
  unfold slice4 rm
  rw [hl, dsStart4_nat hy]
  apply List.ext_getElem
  · simp [hl]; omega
  · intro i h1 h2
    simp at h2
    have hi : y + i < g.length := by omega
    have hrow : g[y + i].length = m := hr _ (List.getElem_mem hi)
    simp only [List.getElem_map, List.getElem_take, List.getElem_drop, List.getElem_range, hrow,
      dsStart4_nat hx]
    apply List.ext_getElem
    · simp [hrow]; omega
    · intro j h3 h4
      simp at h4
      have hj : x + j < g[y + i].length := by omega
      simp [Jx.Grid.get, List.getD, hi, hj]

theorem any_zip_rm (A B : Nat → Nat → Nat) :
    (List.zipWith (List.zipWith (· + ·)) (rm 4 4 A) (rm 4 4 B)).any
        (fun r => r.any (fun v => decide (v ≥ 2))) = true
      ↔ ∃ r, r < 4 ∧ ∃ c, c < 4 ∧ A r c + B r c ≥ 2 := by
  unfold rm
  simp only [List.zipWith_map, List.zipWith_self, List.any_map, List.any_eq_true, List.mem_range,
    Function.comp, decide_eq_true_eq]

theorem checkValid_iff {g t : G} {n m y x : Nat} (hg : Jx.Grid.shaped g n m = true)
    (ht : Jx.Grid.shaped t 4 4 = true) (hy : y + 4 ≤ n) (hx : x + 4 ≤ m) :
    checkValid g t (y : Int) (x : Int) = true ↔
      ∀ r, r < 4 → ∀ c, c < 4 → Jx.Grid.get g 0 (y + r) (x + c) + Jx.Grid.get t 0 r c < 2 := by
  unfold checkValid
  rw [slice4_eq hg hy hx]
  have e := shaped_eq_rm ht
  generalize Jx.Grid.get t 0 = T at e ⊢
  subst e
  rw [Bool.not_eq_true', ← Bool.not_eq_true, any_zip_rm]
  constructor
  · intro H r hr c hc
    apply Nat.lt_of_not_le
    intro hh
    exact H ⟨r, hr, c, hc, hh⟩
  · rintro H ⟨r, hr, c, hc, hh⟩
    have := H r hr c hc
    omega

theorem andLast3_getD (l p : List Bool) (n y : Nat) (hl : l.length = n + 3) (hp : p.length = 3)
    (hy : y < n + 3) :
    (andLast3 l p).getD y false =
      (l.getD y false && (if y < n then true else p.getD (y - n) false)) := by
  unfold andLast3
  have e : l.length - 3 = n := by omega
  rw [e]
  by_cases h : y < n
  · have h4 : y < l.length := by omega
    simp [List.getD_eq_getElem?_getD, List.getElem?_append, h, hl]
    rw [List.getElem?_eq_getElem h4]; rfl
  · have h3 : n + (y - n) = y := by omega
    simp [List.getD_eq_getElem?_getD, List.getElem?_append, h, hl, List.getElem?_zipWith, h3]
    have h4 : y < l.length := by omega
    have h5 : y - n < p.length := by omega
    simp [h4, h5]

/-! ### finite facts about the 28 table pieces -/

theorem piece_shaped : ∀ idx, idx < 7 → ∀ rot, rot < 4 →
    Jx.Grid.shaped (pieceAt idx rot) 4 4 = true := by decide

theorem piece_01 : ∀ idx, idx < 7 → ∀ rot, rot < 4 → ∀ r, r < 4 → ∀ c, c < 4 →
    Jx.Grid.get (pieceAt idx rot) 0 r c ≤ 1 := by decide

theorem piece_pad_len : ∀ idx, idx < 7 → ∀ rot, rot < 4 →
    (padFlags (rowAny (pieceAt idx rot))).length = 3 := by decide

set_option synthInstance.maxSize 1024 in
theorem piece_pad : ∀ idx, idx < 7 → ∀ rot, rot < 4 → ∀ j, j < 3 →
    ((padFlags (rowAny (pieceAt idx rot))).getD j false = true ↔
      ∀ r, r < 4 → ∀ c, c < 4 → (Jx.Grid.get (pieceAt idx rot) 0 r c = 0 ∨ r + j < 3)) := by decide

/-! ### `fits` in index form -/

theorem fits_iff (cfg : Cfg) (g t : G) (y x : Nat) :
    fits cfg g t (y : Int) x = true ↔
      ∀ r, r < 4 → ∀ c, c < 4 → Jx.Grid.get t 0 r c ≠ 0 →
        x + c < cfg.numCols ∧ y + r < cfg.numRows ∧ Jx.Grid.get g 0 (y + r) (x + c) = 0 := by
  unfold fits filled
  have e1 : ∀ r : Nat, ((y : Int) + (r : Int)).toNat = y + r := by intro r; omega
  have e2 : ∀ r : Nat, ((y : Int) + (r : Int) < 0) = False := by intro r; simp; omega
  simp only [List.all_eq_true, e1, e2, decide_false, Bool.false_or, Bool.and_eq_true,
    decide_eq_true_eq]
  constructor
  · intro H r hr c hc hne
    have := H (r, c) ((mem_pieceCells _ _).2 ⟨hr, hc, hne⟩)
    simpa using this
  · intro H p hp
    rw [mem_pieceCells] at hp
    have := H p.1 hp.1 p.2 hp.2.1 hp.2.2
    simpa using this

theorem legal_fits0 {cfg : Cfg} {g : G} {idx rot x : Nat} (hl : legalB cfg g idx rot x = true) :
    fits cfg g (pieceAt idx rot) ((0 : Nat) : Int) x = true := by
  unfold legalB at hl
  simp only [Bool.and_eq_true, List.all_eq_true, List.mem_range] at hl
  simpa using hl.2 0 (by omega)


theorem shaped_length {g : G} {R C : Nat} (h : Jx.Grid.shaped g R C = true) : g.length = R := by
  simp [Jx.Grid.shaped] at h; exact h.1

theorem getD_range_map (n : Nat) (f : Nat → Bool) {i : Nat} (h : i < n) :
    ((List.range n).map f).getD i false = f i := by
  simp [List.getD, h]

/-! ### 1. the `possible` flags of `place_tetromino` are `fits` -/

set_option linter.unusedVariables false in
theorem possible_eq_fits (cfg : Cfg) (gp : G) (idx rot x : Nat)
    (hs : Jx.Grid.shaped gp (cfg.numRows + 3) (cfg.numCols + 3) = true)
    (hp : paddingEmpty cfg gp = true) (hR : 4 ≤ cfg.numRows) (hC : 4 ≤ cfg.numCols)
    (hi : idx < 7) (hr : rot < 4) (hx : x < cfg.numCols)
    (hl : legalB cfg gp idx rot x = true) (y : Nat) (hy : y < cfg.numRows) :
    (andLast3 ((List.range (gp.length - 3)).map
        (fun (y : Nat) => checkValid (clip1 gp) (pieceAt idx rot) (y : Int) (x : Int)))
      (padFlags (rowAny (pieceAt idx rot)))).getD y false =
    fits cfg gp (pieceAt idx rot) (y : Int) x := by
  have hlen := shaped_length hs
  obtain ⟨n, hn⟩ : ∃ n, cfg.numRows = n + 3 := ⟨cfg.numRows - 3, by omega⟩
  have e : gp.length - 3 = cfg.numRows := by omega
  rw [e, andLast3_getD _ _ n y (by simp [hn]) (piece_pad_len idx hi rot hr) (by omega),
    getD_range_map _ _ hy, Bool.eq_iff_iff, Bool.and_eq_true, fits_iff,
    checkValid_iff (shaped_clip1 hs) (piece_shaped idx hi rot hr) (by omega) (by omega)]
  simp only [get_clip1]
  have hcol := (fits_iff cfg gp (pieceAt idx rot) 0 x).1 (legal_fits0 hl)
  have h01 := piece_01 idx hi rot hr
  constructor
  · rintro ⟨H1, H2⟩ r hr' c hc hne
    have a1 := H1 r hr' c hc
    have a2 := h01 r hr' c hc
    refine ⟨(hcol r hr' c hc hne).1, ?_, by omega⟩
    by_cases hyn : y < n
    · omega
    · rw [if_neg hyn] at H2
      have := (piece_pad idx hi rot hr (y - n) (by omega)).1 H2 r hr' c hc
      omega
  · intro H
    constructor
    · intro r hr' c hc
      have a2 := h01 r hr' c hc
      by_cases hne : Jx.Grid.get (pieceAt idx rot) 0 r c = 0
      · omega
      · have := H r hr' c hc hne
        omega
    · by_cases hyn : y < n
      · simp [hyn]
      · rw [if_neg hyn]
        apply (piece_pad idx hi rot hr (y - n) (by omega)).2
        intro r hr' c hc
        by_cases hne : Jx.Grid.get (pieceAt idx rot) 0 r c = 0
        · exact Or.inl hne
        · have := H r hr' c hc hne
          right; omega


/-! ### `argminBool`: index of the first `false`, 0 if there is none -/

theorem argmaxAux_le (xs : List Int) (i best : Nat) (bv : Int) (h : ∀ v ∈ xs, v ≤ bv) :
    Jx.argmaxAux xs i best bv = best := by
  induction xs generalizing i with
  | nil => rfl
  | cons a t ih =>
    have ha : ¬ a > bv := by have := h a List.mem_cons_self; omega
    simp only [Jx.argmaxAux, ha, if_false]
    exact ih _ (fun v hv => h v (List.mem_cons_of_mem _ hv))

theorem argmaxAux_first (pre post : List Int) (v : Int) (i best : Nat) (bv : Int)
    (hpre : ∀ w ∈ pre, w ≤ bv) (hv : v > bv) (hpost : ∀ w ∈ post, w ≤ v) :
    Jx.argmaxAux (pre ++ v :: post) i best bv = i + pre.length := by
  induction pre generalizing i with
  | nil =>
    simp only [List.nil_append, Jx.argmaxAux, hv, if_true, List.length_nil, Nat.add_zero]
    exact argmaxAux_le _ _ _ _ hpost
  | cons a t ih =>
    have ha : ¬ a > bv := by have := hpre a List.mem_cons_self; omega
    simp only [List.cons_append, Jx.argmaxAux, ha, if_false, List.length_cons]
    rw [ih _ (fun w hw => hpre w (List.mem_cons_of_mem _ hw))]
    omega

theorem argminBool_all (l : List Bool) (h : ∀ b ∈ l, b = true) : Jx.argminBool l = 0 := by
  unfold Jx.argminBool Jx.argmin
  cases l with
  | nil => rfl
  | cons b t =>
    simp only [List.map_cons, Jx.argmax]
    apply argmaxAux_le
    intro v hv
    simp only [List.map_map, List.mem_map] at hv
    obtain ⟨c, hc, rfl⟩ := hv
    have := h c (List.mem_cons_of_mem _ hc)
    have hb := h b List.mem_cons_self
    simp [this, hb]

theorem argminBool_first (pre post : List Bool) (h : ∀ b ∈ pre, b = true) :
    Jx.argminBool (pre ++ false :: post) = pre.length := by
  unfold Jx.argminBool Jx.argmin
  cases pre with
  | nil =>
    simp only [List.nil_append, List.map_cons, Jx.argmax, List.length_nil]
    apply argmaxAux_le
    intro v hv
    simp only [List.map_map, List.mem_map] at hv
    obtain ⟨c, hc, rfl⟩ := hv
    cases c <;> simp
  | cons b t =>
    have hb := h b List.mem_cons_self
    subst hb
    simp only [List.cons_append, List.map_cons, List.map_append, Jx.argmax, List.length_cons]
    rw [argmaxAux_first]
    · simp; omega
    · intro w hw
      simp only [List.map_map, List.mem_map] at hw
      obtain ⟨c, hc, rfl⟩ := hw
      have := h c (List.mem_cons_of_mem _ hc)
      simp [this]
    · simp
    · intro w hw
      simp only [List.map_map, List.mem_map] at hw
      obtain ⟨c, hc, rfl⟩ := hw
      cases c <;> simp

theorem argminBool_range_all (P : Nat → Bool) (R : Nat) (h : ∀ j, j < R → P j = true) :
    Jx.argminBool ((List.range R).map P) = 0 := by
  apply argminBool_all
  intro b hb
  simp only [List.mem_map, List.mem_range] at hb
  obtain ⟨j, hj, rfl⟩ := hb
  exact h j hj

theorem argminBool_range_first (P : Nat → Bool) (R k : Nat) (hk : k < R) (hf : P k = false)
    (ht : ∀ j, j < k → P j = true) : Jx.argminBool ((List.range R).map P) = k := by
  obtain ⟨m, rfl⟩ : ∃ m, R = k + (m + 1) := ⟨R - k - 1, by omega⟩
  rw [List.range_add, List.range_succ_eq_map, List.map_append, List.map_cons, List.map_cons]
  simp only [Nat.add_zero, hf]
  have := argminBool_first ((List.range k).map P)
    (List.map P (List.map (fun x => k + x) (List.map Nat.succ (List.range m)))) (by
      intro b hb
      simp only [List.mem_map, List.mem_range] at hb
      obtain ⟨j, hj, rfl⟩ := hb
      exact ht j hj)
  simpa using this


/-! ### free fall -/

theorem fallFrom_spec (cfg : Cfg) (g t : G) (x : Nat) (fuel y : Nat) :
    y ≤ fallFrom cfg g t x fuel y ∧ fallFrom cfg g t x fuel y ≤ y + fuel ∧
    (∀ z, y < z → z ≤ fallFrom cfg g t x fuel y → fits cfg g t (z : Int) x = true) ∧
    (fallFrom cfg g t x fuel y < y + fuel →
      fits cfg g t ((fallFrom cfg g t x fuel y + 1 : Nat) : Int) x = false) := by
  induction fuel generalizing y with
  | zero => simp [fallFrom]; intro z h1 h2; omega
  | succ fuel ih =>
    have ec : ((y + 1 : Nat) : Int) = (y : Int) + 1 := by omega
    unfold fallFrom
    cases hf : fits cfg g t ((y : Int) + 1) x
    · simp only [Bool.false_eq_true, if_false]
      refine ⟨Nat.le_refl _, by omega, fun z h1 h2 => by omega, fun _ => ?_⟩
      rw [ec]; exact hf
    · simp only [if_true]
      obtain ⟨h1, h2, h3, h4⟩ := ih (y + 1)
      refine ⟨by omega, by omega, ?_, fun hh => h4 (by omega)⟩
      intro z hz1 hz2
      by_cases hz : z = y + 1
      · subst hz; rw [ec]; exact hf
      · exact h3 z (by omega) hz2

theorem piece_nonempty : ∀ idx, idx < 7 → ∀ rot, rot < 4 →
    ∃ r, r < 4 ∧ ∃ c, c < 4 ∧ Jx.Grid.get (pieceAt idx rot) 0 r c ≠ 0 := by decide

theorem ext_getD (l1 l2 : List Bool) (hlen : l1.length = l2.length)
    (h : ∀ y, y < l1.length → l1.getD y false = l2.getD y false) : l1 = l2 := by
  apply List.ext_getElem hlen
  intro i h1 h2
  have := h i h1
  simpa [List.getD, h1, h2] using this

theorem andLast3_length (l p : List Bool) (hl : 3 ≤ l.length) (hp : p.length = 3) :
    (andLast3 l p).length = l.length := by
  simp [andLast3, hp]; omega

/-- the `poss` list of `placeTetromino` -/
theorem poss_eq (cfg : Cfg) (gp : G) (idx rot x : Nat)
    (hs : Jx.Grid.shaped gp (cfg.numRows + 3) (cfg.numCols + 3) = true)
    (hp : paddingEmpty cfg gp = true) (hR : 4 ≤ cfg.numRows) (hC : 4 ≤ cfg.numCols)
    (hi : idx < 7) (hr : rot < 4) (hx : x < cfg.numCols)
    (hl : legalB cfg gp idx rot x = true) :
    andLast3 ((List.range (gp.length - 3)).map
        (fun (y : Nat) => checkValid (clip1 gp) (pieceAt idx rot) (y : Int) (x : Int)))
      (padFlags (rowAny (pieceAt idx rot))) =
    (List.range cfg.numRows).map (fun (y : Nat) => fits cfg gp (pieceAt idx rot) (y : Int) x) := by
  have hlen := shaped_length hs
  have e : gp.length - 3 = cfg.numRows := by omega
  have hL : (andLast3 ((List.range (gp.length - 3)).map
        (fun (y : Nat) => checkValid (clip1 gp) (pieceAt idx rot) (y : Int) (x : Int)))
      (padFlags (rowAny (pieceAt idx rot)))).length = cfg.numRows := by
    rw [andLast3_length _ _ (by simp [e]; omega) (piece_pad_len idx hi rot hr)]
    simp [e]
  apply ext_getD
  · rw [hL]; simp
  · intro y hy
    rw [hL] at hy
    rw [possible_eq_fits cfg gp idx rot x hs hp hR hC hi hr hx hl y hy, getD_range_map _ _ hy]

/-- facts about the landing row -/
theorem dropY_spec (cfg : Cfg) (gp : G) (idx rot x : Nat) (hi : idx < 7) (hr : rot < 4)
    (hl : legalB cfg gp idx rot x = true) :
    (∀ z, z ≤ dropY cfg gp (pieceAt idx rot) x → fits cfg gp (pieceAt idx rot) (z : Int) x = true) ∧
    dropY cfg gp (pieceAt idx rot) x < cfg.numRows ∧
    (dropY cfg gp (pieceAt idx rot) x + 1 < cfg.numRows →
      fits cfg gp (pieceAt idx rot) ((dropY cfg gp (pieceAt idx rot) x + 1 : Nat) : Int) x = false) := by
  obtain ⟨h1, h2, h3, h4⟩ := fallFrom_spec cfg gp (pieceAt idx rot) x cfg.numRows 0
  have hall : ∀ z, z ≤ dropY cfg gp (pieceAt idx rot) x →
      fits cfg gp (pieceAt idx rot) (z : Int) x = true := by
    intro z hz
    by_cases h0 : z = 0
    · subst h0; exact legal_fits0 hl
    · exact h3 z (by omega) hz
  refine ⟨hall, ?_, fun hh => h4 (by unfold dropY at hh; omega)⟩
  have hY := (fits_iff _ _ _ _ _).1 (hall _ (Nat.le_refl _))
  obtain ⟨r, hr', c, hc, hne⟩ := piece_nonempty idx hi rot hr
  have := hY r hr' c hc hne
  omega

/-! ### 2. the row where the piece is painted is where free fall stops -/

theorem place_row (cfg : Cfg) (gp : G) (idx rot x : Nat)
    (hs : Jx.Grid.shaped gp (cfg.numRows + 3) (cfg.numCols + 3) = true)
    (hp : paddingEmpty cfg gp = true) (hR : 4 ≤ cfg.numRows) (hC : 4 ≤ cfg.numCols)
    (hi : idx < 7) (hr : rot < 4) (hx : x < cfg.numCols)
    (hl : legalB cfg gp idx rot x = true) :
    dsStart (cfg.numRows + 3) 4 (placeTetromino gp (pieceAt idx rot) (x : Int)).2 =
      dropY cfg gp (pieceAt idx rot) x := by
  have hposs := poss_eq cfg gp idx rot x hs hp hR hC hi hr hx hl
  show dsStart (cfg.numRows + 3) 4 ((Jx.argminBool (andLast3 ((List.range (gp.length - 3)).map
        (fun (y : Nat) => checkValid (clip1 gp) (pieceAt idx rot) (y : Int) (x : Int)))
      (padFlags (rowAny (pieceAt idx rot)))) : Int) - 1) = _
  rw [hposs]
  obtain ⟨hall, hlt, hfalse⟩ := dropY_spec cfg gp idx rot x hi hr hl
  by_cases hcase : dropY cfg gp (pieceAt idx rot) x + 1 < cfg.numRows
  · rw [argminBool_range_first _ _ _ hcase (hfalse hcase) (fun j hj => hall j (by omega))]
    have e : ((dropY cfg gp (pieceAt idx rot) x + 1 : Nat) : Int) - 1 =
        ((dropY cfg gp (pieceAt idx rot) x : Nat) : Int) := by omega
    rw [e, dsStart4_nat (by omega)]
  · rw [argminBool_range_all _ _ (fun j hj => hall j (by omega))]
    unfold dsStart Jx.wrapIdx
    simp only []
    repeat' split
    all_goals omega


/-! ### `paint`, `field`, `landed` in range-map form -/

/-- what `paint` writes at `(i, j)` -/
def paintF (F : Nat → Nat → Nat) (t : G) (color ys xs : Nat) (i j : Nat) : Nat :=
  if ys ≤ i ∧ i < ys + 4 ∧ xs ≤ j ∧ j < xs + 4 then
    max (F i j) (Jx.Grid.get t 0 (i - ys) (j - xs) * color) else F i j

theorem paint_rm (n m : Nat) (F : Nat → Nat → Nat) (t : G) (color ys xs : Nat) :
    paint (rm n m F) t color ys xs = rm n m (paintF F t color ys xs) := by
  unfold paint rm paintF
  apply List.ext_getElem
  · simp
  · intro i h1 h2
    apply List.ext_getElem
    · simp
    · intro j h3 h4
      simp

theorem field_rm (cfg : Cfg) (a b : Nat) (F : Nat → Nat → Nat) :
    field cfg (rm (cfg.numRows + a) (cfg.numCols + b) F) = rm cfg.numRows cfg.numCols F := by
  unfold field rm
  apply List.ext_getElem
  · simp
  · intro i h1 h2
    apply List.ext_getElem
    · simp
    · intro j h3 h4
      simp

theorem landed_rm (n m : Nat) (F : Nat → Nat → Nat) (t : G) (color y x : Nat) :
    landed (rm n m F) t color y x = rm n m (fun i j =>
      if (pieceCells t).any (fun p => y + p.1 == i && x + p.2 == j) then color else F i j) := by
  unfold landed rm
  apply List.ext_getElem
  · simp
  · intro i h1 h2
    apply List.ext_getElem
    · simp
    · intro j h3 h4
      simp only [List.getElem_mapIdx, List.getElem_map, List.getElem_range]

theorem any_cell_iff (t : G) (y x i j : Nat) :
    (pieceCells t).any (fun p => y + p.1 == i && x + p.2 == j) = true ↔
      y ≤ i ∧ i < y + 4 ∧ x ≤ j ∧ j < x + 4 ∧ Jx.Grid.get t 0 (i - y) (j - x) ≠ 0 := by
  simp only [List.any_eq_true, mem_pieceCells, Bool.and_eq_true, beq_iff_eq]
  constructor
  · rintro ⟨p, ⟨h1, h2, h3⟩, h4, h5⟩
    have e1 : i - y = p.1 := by omega
    have e2 : j - x = p.2 := by omega
    rw [e1, e2]
    exact ⟨by omega, by omega, by omega, by omega, h3⟩
  · rintro ⟨h1, h2, h3, h4, h5⟩
    exact ⟨(i - y, j - x), ⟨by simp only []; omega, by simp only []; omega, h5⟩,
      by simp only []; omega, by simp only []; omega⟩

/-- on the field, `paint` at a position where the piece fits recolours exactly the piece cells -/
theorem paintF_eq (F : Nat → Nat → Nat) (t : G) (color Y x i j : Nat)
    (h01 : ∀ r, r < 4 → ∀ c, c < 4 → Jx.Grid.get t 0 r c ≤ 1)
    (hfit : ∀ r, r < 4 → ∀ c, c < 4 → Jx.Grid.get t 0 r c ≠ 0 → F (Y + r) (x + c) = 0) :
    paintF F t color Y x i j =
      if (pieceCells t).any (fun p => Y + p.1 == i && x + p.2 == j) then color else F i j := by
  have hany := any_cell_iff t Y x i j
  unfold paintF
  by_cases ha : (pieceCells t).any (fun p => Y + p.1 == i && x + p.2 == j) = true
  · rw [if_pos ha]
    obtain ⟨w1, w2, w3, w4, hne⟩ := hany.1 ha
    rw [if_pos ⟨w1, w2, w3, w4⟩]
    have a1 := h01 (i - Y) (by omega) (j - x) (by omega)
    have a2 := hfit (i - Y) (by omega) (j - x) (by omega) hne
    have e1 : Y + (i - Y) = i := by omega
    have e2 : x + (j - x) = j := by omega
    rw [e1, e2] at a2
    have a3 : Jx.Grid.get t 0 (i - Y) (j - x) = 1 := by omega
    rw [a2, a3]; simp
  · rw [if_neg ha]
    by_cases hw : Y ≤ i ∧ i < Y + 4 ∧ x ≤ j ∧ j < x + 4
    · rw [if_pos hw]
      have hz : Jx.Grid.get t 0 (i - Y) (j - x) = 0 := by
        apply Classical.byContradiction
        intro hne
        exact ha (hany.2 ⟨hw.1, hw.2.1, hw.2.2.1, hw.2.2.2, hne⟩)
      rw [hz]; simp
    · rw [if_neg hw]

theorem numColsOf_shaped {g : G} {R C : Nat} (h : Jx.Grid.shaped g (R + 1) C = true) :
    numColsOf g = C := by
  cases g with
  | nil => simp [Jx.Grid.shaped] at h
  | cons a t =>
    simp [Jx.Grid.shaped] at h
    simp [numColsOf, h.2.1]

/-- the grid returned by `placeTetromino` -/
theorem place_grid (cfg : Cfg) (gp : G) (idx rot x : Nat)
    (hs : Jx.Grid.shaped gp (cfg.numRows + 3) (cfg.numCols + 3) = true)
    (hp : paddingEmpty cfg gp = true) (hR : 4 ≤ cfg.numRows) (hC : 4 ≤ cfg.numCols)
    (hi : idx < 7) (hr : rot < 4) (hx : x < cfg.numCols)
    (hl : legalB cfg gp idx rot x = true) :
    (placeTetromino gp (pieceAt idx rot) (x : Int)).1 =
      paint gp (pieceAt idx rot) (gridMax gp + 1) (dropY cfg gp (pieceAt idx rot) x) x := by
  have h2 := place_row cfg gp idx rot x hs hp hR hC hi hr hx hl
  have hlen := shaped_length hs
  have hnc : numColsOf gp = cfg.numCols + 3 := numColsOf_shaped (R := cfg.numRows + 2) hs
  show paint gp (pieceAt idx rot) (gridMax gp + 1)
      (dsStart gp.length 4 (placeTetromino gp (pieceAt idx rot) (x : Int)).2)
      (dsStart (numColsOf gp) 4 (x : Int)) = _
  rw [hlen, h2, hnc, dsStart4_nat (by omega)]

/-! ### 3. the visible field after placement is the landed field -/

theorem place_field (cfg : Cfg) (gp : G) (idx rot x : Nat)
    (hs : Jx.Grid.shaped gp (cfg.numRows + 3) (cfg.numCols + 3) = true)
    (hp : paddingEmpty cfg gp = true) (hR : 4 ≤ cfg.numRows) (hC : 4 ≤ cfg.numCols)
    (hi : idx < 7) (hr : rot < 4) (hx : x < cfg.numCols)
    (hl : legalB cfg gp idx rot x = true) :
    field cfg (placeTetromino gp (pieceAt idx rot) (x : Int)).1 =
      landed (field cfg gp) (pieceAt idx rot) (gridMax gp + 1)
        (dropY cfg gp (pieceAt idx rot) x) x := by
  rw [place_grid cfg gp idx rot x hs hp hR hC hi hr hx hl]
  obtain ⟨hall, _, _⟩ := dropY_spec cfg gp idx rot x hi hr hl
  have hfit := (fits_iff _ _ _ _ _).1 (hall _ (Nat.le_refl _))
  have h01 := piece_01 idx hi rot hr
  generalize dropY cfg gp (pieceAt idx rot) x = Y at hfit ⊢
  generalize gridMax gp + 1 = color
  have e := shaped_eq_rm hs
  generalize Jx.Grid.get gp 0 = F at e hfit
  rw [e, paint_rm, field_rm, field_rm, landed_rm]
  apply rm_congr
  intro i _ j _
  exact paintF_eq F _ color Y x i j h01 (fun r hr' c hc hne => (hfit r hr' c hc hne).2.2)


/-! ### 4. shape and padding -/

theorem all_drop_iff {α} (l : List α) (k : Nat) (p : α → Bool) :
    (l.drop k).all p = true ↔ ∀ i (h : i < l.length), k ≤ i → p l[i] = true := by
  rw [List.all_eq_true]
  constructor
  · intro H i h hk
    apply H
    rw [List.mem_iff_getElem]
    refine ⟨i - k, by simp; omega, ?_⟩
    rw [List.getElem_drop]
    congr 1; omega
  · intro H a ha
    obtain ⟨i, hi, rfl⟩ := List.mem_iff_getElem.1 ha
    rw [List.getElem_drop]
    simp at hi
    exact H _ (by omega) (by omega)

theorem paddingEmpty_rm (cfg : Cfg) (n m : Nat) (F : Nat → Nat → Nat) :
    paddingEmpty cfg (rm n m F) = true ↔
      ∀ i, i < n → ∀ j, j < m → (cfg.numRows ≤ i ∨ cfg.numCols ≤ j) → F i j = 0 := by
  unfold paddingEmpty rm
  rw [Bool.and_eq_true, all_drop_iff, List.all_eq_true]
  simp only [all_drop_iff]
  simp only [List.getElem_map, List.getElem_range, List.length_map, List.length_range,
    List.mem_map, List.mem_range, beq_iff_eq, List.all_eq_true]
  constructor
  · rintro ⟨H1, H2⟩ i hi j hj hor
    rcases hor with h | h
    · exact H1 i hi h _ ⟨j, hj, rfl⟩
    · have := H2 _ ⟨i, hi, rfl⟩ j (by simpa using hj) h
      simpa using this
  · intro H
    constructor
    · rintro i hi h v ⟨j, hj, rfl⟩
      exact H i hi j hj (Or.inl h)
    · rintro r ⟨i, hi, rfl⟩ j hj h
      simp only [List.length_map, List.length_range] at hj
      simp only [List.getElem_map, List.getElem_range]
      exact H i hi j hj (Or.inr h)

theorem place_padding (cfg : Cfg) (gp : G) (idx rot x : Nat)
    (hs : Jx.Grid.shaped gp (cfg.numRows + 3) (cfg.numCols + 3) = true)
    (hp : paddingEmpty cfg gp = true) (hR : 4 ≤ cfg.numRows) (hC : 4 ≤ cfg.numCols)
    (hi : idx < 7) (hr : rot < 4) (hx : x < cfg.numCols)
    (hl : legalB cfg gp idx rot x = true) :
    Jx.Grid.shaped (placeTetromino gp (pieceAt idx rot) (x : Int)).1
        (cfg.numRows + 3) (cfg.numCols + 3) = true ∧
      paddingEmpty cfg (placeTetromino gp (pieceAt idx rot) (x : Int)).1 = true := by
  rw [place_grid cfg gp idx rot x hs hp hR hC hi hr hx hl]
  obtain ⟨hall, _, _⟩ := dropY_spec cfg gp idx rot x hi hr hl
  have hfit := (fits_iff _ _ _ _ _).1 (hall _ (Nat.le_refl _))
  generalize dropY cfg gp (pieceAt idx rot) x = Y at hfit ⊢
  generalize gridMax gp + 1 = color
  have e := shaped_eq_rm hs
  generalize Jx.Grid.get gp 0 = F at e hfit
  rw [e] at hp ⊢
  rw [paint_rm]
  refine ⟨shaped_rm _ _ _, ?_⟩
  rw [paddingEmpty_rm] at hp ⊢
  intro i hi' j hj hor
  have hF := hp i hi' j hj hor
  unfold paintF
  by_cases hw : Y ≤ i ∧ i < Y + 4 ∧ x ≤ j ∧ j < x + 4
  · rw [if_pos hw]
    have hz : Jx.Grid.get (pieceAt idx rot) 0 (i - Y) (j - x) = 0 := by
      apply Classical.byContradiction
      intro hne
      have := hfit (i - Y) (by omega) (j - x) (by omega) hne
      omega
    rw [hz, hF]; simp
  · rw [if_neg hw]; exact hF


/-! ### 5. four cells are added -/

/-- `f 0 + … + f (n-1)` -/
def sumTo : Nat → (Nat → Nat) → Nat
  | 0, _ => 0
  | n + 1, f => sumTo n f + f n

theorem sumTo_congr {n : Nat} {f g : Nat → Nat} (h : ∀ i, i < n → f i = g i) :
    sumTo n f = sumTo n g := by
  induction n with
  | zero => rfl
  | succ n ih =>
    simp only [sumTo]
    rw [ih (fun i hi => h i (by omega)), h n (by omega)]

theorem sumTo_add (n : Nat) (f g : Nat → Nat) :
    sumTo n (fun i => f i + g i) = sumTo n f + sumTo n g := by
  induction n with
  | zero => rfl
  | succ n ih => simp only [sumTo, ih]; omega

theorem sumTo_zero {n : Nat} {f : Nat → Nat} (h : ∀ i, i < n → f i = 0) : sumTo n f = 0 := by
  induction n with
  | zero => rfl
  | succ n ih =>
    simp only [sumTo]
    rw [ih (fun i hi => h i (by omega)), h n (by omega)]

theorem sumTo_split (a b : Nat) (f : Nat → Nat) :
    sumTo (a + b) f = sumTo a f + sumTo b (fun i => f (a + i)) := by
  induction b with
  | zero => simp [sumTo]
  | succ b ih =>
    have : a + (b + 1) = (a + b) + 1 := by omega
    rw [this]
    simp only [sumTo, ih]; omega

theorem sumTo_if (n : Nat) (c : Prop) [Decidable c] (g : Nat → Nat) :
    sumTo n (fun j => if c then g j else 0) = if c then sumTo n g else 0 := by
  by_cases h : c
  · simp [h]
  · simp only [h, if_false]
    exact sumTo_zero (fun _ _ => rfl)

theorem sumTo_window_full (n Y : Nat) (h : Nat → Nat) (hn : Y + 4 ≤ n) :
    sumTo n (fun i => if Y ≤ i ∧ i < Y + 4 then h (i - Y) else 0) = sumTo 4 h := by
  obtain ⟨m, rfl⟩ : ∃ m, n = Y + (4 + m) := ⟨n - Y - 4, by omega⟩
  rw [sumTo_split, sumTo_split]
  rw [sumTo_zero (n := Y), sumTo_zero (n := m)]
  · simp only [Nat.zero_add, Nat.add_zero]
    apply sumTo_congr
    intro i hi
    have : Y ≤ Y + i ∧ Y + i < Y + 4 := by omega
    rw [if_pos this]
    congr 1; omega
  · intro i hi
    have : ¬ (Y ≤ Y + (4 + i) ∧ Y + (4 + i) < Y + 4) := by omega
    rw [if_neg this]
  · intro i hi
    have : ¬ (Y ≤ i ∧ i < Y + 4) := by omega
    rw [if_neg this]

/-- a 4-window sum that may be cut off at `n`, when the cut-off part is zero -/
theorem sumTo_window (n Y : Nat) (h : Nat → Nat) (hz : ∀ r, r < 4 → n ≤ Y + r → h r = 0) :
    sumTo n (fun i => if Y ≤ i ∧ i < Y + 4 then h (i - Y) else 0) = sumTo 4 h := by
  rw [← sumTo_window_full (n + (Y + 4)) Y h (by omega), sumTo_split]
  rw [sumTo_zero (n := Y + 4)]
  · rfl
  · intro i hi
    by_cases hw : Y ≤ n + i ∧ n + i < Y + 4
    · rw [if_pos hw]
      exact hz _ (by omega) (by omega)
    · rw [if_neg hw]

theorem row_count (p : Nat → Bool) (C : Nat) (f : Nat → Nat) :
    (((List.range C).map f).filter p).length = sumTo C (fun j => if p (f j) then 1 else 0) := by
  induction C with
  | zero => rfl
  | succ C ih =>
    rw [List.range_succ, List.map_append, List.filter_append, List.length_append, ih]
    simp only [sumTo, List.map_cons, List.map_nil, List.filter_cons, List.filter_nil]
    cases p (f C) <;> simp

theorem count_rm (p : Nat → Bool) (R C : Nat) (F : Nat → Nat → Nat) :
    Jx.Grid.count p (rm R C F) =
      sumTo R (fun i => sumTo C (fun j => if p (F i j) then 1 else 0)) := by
  induction R with
  | zero => rfl
  | succ R ih =>
    have e : rm (R + 1) C F = rm R C F ++ [(List.range C).map (fun j => F R j)] := by
      simp [rm, List.range_succ]
    unfold Jx.Grid.count at ih ⊢
    rw [e, List.flatten_append, List.filter_append, List.length_append, ih]
    simp [sumTo, row_count]

theorem sumTo2_add (R C : Nat) (a b : Nat → Nat → Nat) :
    sumTo R (fun i => sumTo C (fun j => a i j + b i j)) =
      sumTo R (fun i => sumTo C (a i)) + sumTo R (fun i => sumTo C (b i)) := by
  rw [← sumTo_add]
  apply sumTo_congr
  intro i _
  exact sumTo_add C (a i) (b i)

theorem piece_four : ∀ idx, idx < 7 → ∀ rot, rot < 4 →
    sumTo 4 (fun r => sumTo 4 (fun c =>
      if Jx.Grid.get (pieceAt idx rot) 0 r c ≠ 0 then 1 else 0)) = 4 := by decide

theorem ind_paintF (F : Nat → Nat → Nat) (t : G) (color Y x i j : Nat) (hcolor : color ≠ 0)
    (h01 : ∀ r, r < 4 → ∀ c, c < 4 → Jx.Grid.get t 0 r c ≤ 1)
    (hfit : ∀ r, r < 4 → ∀ c, c < 4 → Jx.Grid.get t 0 r c ≠ 0 → F (Y + r) (x + c) = 0) :
    (if (paintF F t color Y x i j != 0) = true then 1 else 0) =
      (if (F i j != 0) = true then 1 else 0) +
      (if Y ≤ i ∧ i < Y + 4 then
        (if x ≤ j ∧ j < x + 4 then (if Jx.Grid.get t 0 (i - Y) (j - x) ≠ 0 then 1 else 0) else 0)
        else 0) := by
  unfold paintF
  by_cases hw1 : Y ≤ i ∧ i < Y + 4
  · by_cases hw2 : x ≤ j ∧ j < x + 4
    · have hw : Y ≤ i ∧ i < Y + 4 ∧ x ≤ j ∧ j < x + 4 := ⟨hw1.1, hw1.2, hw2.1, hw2.2⟩
      rw [if_pos hw, if_pos hw1, if_pos hw2]
      by_cases hz : Jx.Grid.get t 0 (i - Y) (j - x) = 0
      · rw [hz]; simp
      · have a1 := h01 (i - Y) (by omega) (j - x) (by omega)
        have a2 := hfit (i - Y) (by omega) (j - x) (by omega) hz
        have e1 : Y + (i - Y) = i := by omega
        have e2 : x + (j - x) = j := by omega
        rw [e1, e2] at a2
        have a3 : Jx.Grid.get t 0 (i - Y) (j - x) = 1 := by omega
        rw [a2, a3]; simp [hcolor]
    · have hw : ¬ (Y ≤ i ∧ i < Y + 4 ∧ x ≤ j ∧ j < x + 4) := by omega
      rw [if_neg hw, if_pos hw1, if_neg hw2]; rfl
  · have hw : ¬ (Y ≤ i ∧ i < Y + 4 ∧ x ≤ j ∧ j < x + 4) := by omega
    rw [if_neg hw, if_neg hw1]; rfl

theorem place_cells (cfg : Cfg) (gp : G) (idx rot x : Nat)
    (hs : Jx.Grid.shaped gp (cfg.numRows + 3) (cfg.numCols + 3) = true)
    (hp : paddingEmpty cfg gp = true) (hR : 4 ≤ cfg.numRows) (hC : 4 ≤ cfg.numCols)
    (hi : idx < 7) (hr : rot < 4) (hx : x < cfg.numCols)
    (hl : legalB cfg gp idx rot x = true) :
    cells cfg (placeTetromino gp (pieceAt idx rot) (x : Int)).1 = cells cfg gp + 4 := by
  rw [place_grid cfg gp idx rot x hs hp hR hC hi hr hx hl]
  obtain ⟨hall, _, _⟩ := dropY_spec cfg gp idx rot x hi hr hl
  have hfit := (fits_iff _ _ _ _ _).1 (hall _ (Nat.le_refl _))
  have h01 := piece_01 idx hi rot hr
  have h4 := piece_four idx hi rot hr
  generalize dropY cfg gp (pieceAt idx rot) x = Y at hfit ⊢
  have hcolor : gridMax gp + 1 ≠ 0 := by omega
  generalize gridMax gp + 1 = color at hcolor
  have e := shaped_eq_rm hs
  generalize Jx.Grid.get gp 0 = F at e hfit
  generalize pieceAt idx rot = t at hfit h01 h4 ⊢
  unfold cells
  rw [e, paint_rm, field_rm, field_rm, count_rm, count_rm]
  have step1 : ∀ i, i < cfg.numRows → ∀ j, j < cfg.numCols →
      (if (paintF F t color Y x i j != 0) = true then 1 else 0) =
      (if (F i j != 0) = true then 1 else 0) +
      (if Y ≤ i ∧ i < Y + 4 then
        (if x ≤ j ∧ j < x + 4 then (if Jx.Grid.get t 0 (i - Y) (j - x) ≠ 0 then 1 else 0) else 0)
        else 0) := fun i _ j _ =>
    ind_paintF F t color Y x i j hcolor h01 (fun r hr' c hc hne => (hfit r hr' c hc hne).2.2)
  rw [sumTo_congr (fun i hi' => sumTo_congr (fun j hj => step1 i hi' j hj)), sumTo2_add]
  congr 1
  refine Eq.trans ?_ h4
  -- pull the row test out of the inner sum
  rw [sumTo_congr (fun i _ => sumTo_if cfg.numCols (Y ≤ i ∧ i < Y + 4)
    (fun j => if x ≤ j ∧ j < x + 4 then (if Jx.Grid.get t 0 (i - Y) (j - x) ≠ 0 then 1 else 0) else 0))]
  rw [sumTo_window cfg.numRows Y (fun r => sumTo cfg.numCols (fun j =>
    if x ≤ j ∧ j < x + 4 then (if Jx.Grid.get t 0 r (j - x) ≠ 0 then 1 else 0) else 0))]
  · apply sumTo_congr
    intro r hr'
    apply sumTo_window cfg.numCols x (fun c => if Jx.Grid.get t 0 r c ≠ 0 then 1 else 0)
    intro c hc hcc
    by_cases hne : Jx.Grid.get t 0 r c = 0
    · simp [hne]
    · have := hfit r hr' c hc hne
      omega
  · intro r hr' hrr
    apply sumTo_zero
    intro j hj
    by_cases hw : x ≤ j ∧ j < x + 4
    · rw [if_pos hw]
      by_cases hne : Jx.Grid.get t 0 r (j - x) = 0
      · simp [hne]
      · have := hfit r hr' (j - x) (by omega) hne
        omega
    · rw [if_neg hw]

end Tetris
