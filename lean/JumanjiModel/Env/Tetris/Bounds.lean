/-
Tetris — C01: proved value bounds of the observation leaves.

Real spec: `grid` BoundedArray(int32, 0, 1), `tetromino` BoundedArray(int32, 0, 1), `action_mask` bool,
`step_count` DiscreteArray(time_limit + 1) = [0, time_limit].
-/
import JumanjiModel.Env.Tetris.Model
import JumanjiModel.Env.PuzzleBounds
namespace Tetris
open Jm PzB

/-- interval of every observation leaf, as a function of the configuration -/
def obsBounds (cfg : Cfg) : Table :=
  [("grid", iv 0 1), ("tetromino", iv 0 1), ("action_mask", iv 0 1), ("step_count", iv 0 (cfg.timeLimit : Int))]

/-- the numeric leaves of an observation, flattened -/
def obsLeaves (o : Obs) : Leaves :=
  [("grid", nats2 o.grid), ("tetromino", nats2 o.tetromino), ("action_mask", bools2 o.actionMask),
   ("step_count", [(o.stepCount : Int)])]

/-- every entry of `TETROMINOES_LIST` is 0 or 1 -/
theorem tetrominoes_le_one : ∀ p ∈ tetrominoes, ∀ t ∈ p, ∀ r ∈ t, ∀ v ∈ r, v ≤ 1 := by decide

/-- the piece shown in the observation (`TETROMINOES_LIST[d, 0]`, gather semantics for any `d`) is 0/1 -/
theorem piece_le_one (d i : Int) : ∀ r ∈ Jx.getWC (Jx.getWC tetrominoes [] d) [] i, ∀ v ∈ r, v ≤ 1 := by
  apply getWC_of_all (P := fun t => ∀ r ∈ t, ∀ v ∈ r, v ≤ 1) i
  · apply getWC_of_all (P := fun p => ∀ t ∈ p, ∀ r ∈ t, ∀ v ∈ r, v ≤ 1) d tetrominoes_le_one
    intro t ht; cases ht
  · intro r hr; cases hr

theorem clipField_le_one (g : G) (nr nc : Nat) : ∀ r ∈ ((clip1 g).take nr).map (fun r => r.take nc), ∀ v ∈ r, v ≤ 1 := by
  intro r hr v hv
  simp only [List.mem_map] at hr
  obtain ⟨r0, hr0, rfl⟩ := hr
  have hr1 := List.mem_of_mem_take hr0
  have hv1 := List.mem_of_mem_take hv
  simp only [clip1, List.mem_map] at hr1
  obtain ⟨r2, _, rfl⟩ := hr1
  simp only [List.mem_map] at hv1
  obtain ⟨w, _, rfl⟩ := hv1
  omega

/-- an observation whose grid and piece are 0/1 and whose step counter is at most the limit is within bounds -/
theorem obs_in_bounds (cfg : Cfg) (o : Obs) (hg : ∀ r ∈ o.grid, ∀ v ∈ r, v ≤ 1)
    (ht : ∀ r ∈ o.tetromino, ∀ v ∈ r, v ≤ 1) (hs : o.stepCount ≤ cfg.timeLimit) :
    ObsInBounds (obsBounds cfg) (obsLeaves o) := by
  refine ⟨by simp [obsBounds, obsLeaves], ?_⟩
  intro k b hk vs hvs
  simp only [obsBounds, obsLeaves, List.mem_cons, Prod.mk.injEq, List.not_mem_nil, or_false] at hk hvs
  rcases hk with ⟨rfl, rfl⟩ | ⟨rfl, rfl⟩ | ⟨rfl, rfl⟩ | ⟨rfl, rfl⟩ <;>
    rcases hvs with ⟨h, rfl⟩ | ⟨h, rfl⟩ | ⟨h, rfl⟩ | ⟨h, rfl⟩ <;>
    first
      | exact absurd h (by decide)
      | exact allIn_nats2 _ 1 hg
      | exact allIn_nats2 _ 1 ht
      | exact allIn_bools2 _
      | exact allIn_single _ _ _ (by omega)

theorem step_obs (cfg : Cfg) (s : State) (rot x : Int) (d : Nat) :
    ∃ g m, (step cfg s rot x d).2.obs =
      { grid := ((clip1 g).take cfg.numRows).map (fun r => r.take cfg.numCols),
        tetromino := Jx.getWC (Jx.getWC tetrominoes [] (d : Int)) [] 0, actionMask := m,
        stepCount := s.stepCount + 1 } := by
  unfold step
  simp only [condLast_obs]
  exact ⟨_, _, rfl⟩

theorem step_obs_in_bounds (cfg : Cfg) (s : State) (rot x : Int) (d : Nat) (hlim : s.stepCount < cfg.timeLimit) :
    ObsInBounds (obsBounds cfg) (obsLeaves (step cfg s rot x d).2.obs) := by
  obtain ⟨g, m, h⟩ := step_obs cfg s rot x d
  rw [h]
  exact obs_in_bounds cfg _ (clipField_le_one g _ _) (piece_le_one _ _) (by simp; omega)

theorem reset_obs_in_bounds (cfg : Cfg) (d : Nat) :
    ObsInBounds (obsBounds cfg) (obsLeaves (reset cfg d).2.obs) := by
  unfold reset
  simp only [restart_obs]
  refine obs_in_bounds cfg _ ?_ (piece_le_one _ _) (by simp)
  intro r hr v hv
  simp only [List.mem_map] at hr
  obtain ⟨r0, hr0, rfl⟩ := hr
  have hr1 := List.mem_of_mem_take hr0
  have hv1 := List.mem_of_mem_take hv
  simp only [Jx.Grid.mk, List.mem_replicate] at hr1
  obtain ⟨_, rfl⟩ := hr1
  simp only [List.mem_replicate] at hv1
  omega

end Tetris
