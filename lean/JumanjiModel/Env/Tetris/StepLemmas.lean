import JumanjiModel.Env.Tetris.Lemmas
import JumanjiModel.Env.Tetris.MaskLemmas
import JumanjiModel.Env.Tetris.DropLemmas
import JumanjiModel.Env.Tetris.ClearLemmas
namespace Tetris
open Jm

/-! ### the components of `step` -/

theorem step_grid (cfg : Cfg) (s : State) (rot x : Int) (d : Nat) :
    (step cfg s rot x d).1.gridPadded =
      cleanLines (placeTetromino s.gridPadded (Jx.getWC (Jx.getWC tetrominoes [] (s.tetrominoIndex : Int)) [] rot) x).1
        (fullLinesOf cfg.numCols (placeTetromino s.gridPadded (Jx.getWC (Jx.getWC tetrominoes [] (s.tetrominoIndex : Int)) [] rot) x).1) := by
  simp [step]

theorem step_full (cfg : Cfg) (s : State) (rot x : Int) (d : Nat) :
    (step cfg s rot x d).1.fullLines =
        (fullLinesOf cfg.numCols (placeTetromino s.gridPadded (Jx.getWC (Jx.getWC tetrominoes [] (s.tetrominoIndex : Int)) [] rot) x).1) := by
  simp [step]

theorem step_newT (cfg : Cfg) (s : State) (rot x : Int) (d : Nat) :
    (step cfg s rot x d).1.newTetromino = Jx.getWC (Jx.getWC tetrominoes [] (d : Int)) [] 0 := by
  simp [step]

/-! ### counting full lines -/

theorem padding_rows_not_full (cfg : Cfg) (g : G)
    (hs : Jx.Grid.shaped g (cfg.numRows + 3) (cfg.numCols + 3) = true)
    (hp : paddingEmpty cfg g = true) (hc : 0 < cfg.numCols) :
    ∀ r ∈ g.drop cfg.numRows, (r.take cfg.numCols).all (fun v => v != 0) = false := by
  have hrow : ∀ r ∈ g, r.length = cfg.numCols + 3 := (ml_shaped_iff.1 hs).2
  intro r hr
  have hl := hrow r (List.mem_of_mem_drop hr)
  apply not_full_of_zero _ _ hc (by omega)
  simp only [paddingEmpty, Bool.and_eq_true, List.all_eq_true] at hp
  have := hp.1 r hr
  simpa using this

/-- the number of lines `step` reports as full is the number of full rows of the field -/
theorem fullLines_count (cfg : Cfg) (g : G)
    (hs : Jx.Grid.shaped g (cfg.numRows + 3) (cfg.numCols + 3) = true)
    (hp : paddingEmpty cfg g = true) (hc : 0 < cfg.numCols) :
    Jx.countTrue (fullLinesOf cfg.numCols g) = clearedCount (field cfg g) := by
  have hbot := padding_rows_not_full cfg g hs hp hc
  unfold fullLinesOf clearedCount field
  rw [countTrue_map, List.filter_map, List.length_map]
  conv => lhs; rw [← List.take_append_drop cfg.numRows g]
  rw [List.filter_append, filter_eq_nil_of_false _ _ hbot, List.append_nil]
  rfl

theorem filter_window {α} (p : α → Bool) (l : List α) (y : Nat)
    (h : ∀ i (hi : i < l.length), p l[i] = true → y ≤ i ∧ i < y + 4) : (l.filter p).length ≤ 4 := by
  have e : l = l.take y ++ ((l.drop y).take 4 ++ (l.drop y).drop 4) := by
    rw [List.take_append_drop 4, List.take_append_drop]
  rw [e, List.filter_append, List.filter_append]
  have h1 : (l.take y).filter p = [] := by
    rw [List.filter_eq_nil_iff]
    intro a ha
    obtain ⟨i, hi, rfl⟩ := List.mem_iff_getElem.1 ha
    rw [List.getElem_take]
    intro hp
    have hi' : i < min y l.length := by simpa using hi
    have := h i (by omega) hp
    omega
  have h3 : ((l.drop y).drop 4).filter p = [] := by
    rw [List.filter_eq_nil_iff]
    intro a ha
    obtain ⟨i, hi, rfl⟩ := List.mem_iff_getElem.1 ha
    rw [List.getElem_drop, List.getElem_drop]
    intro hp
    have hi' : i < l.length - (y + 4) := by simpa using hi
    have := h (y + (4 + i)) (by omega) hp
    omega
  rw [h1, h3]
  have := List.length_filter_le p ((l.drop y).take 4)
  simp at this ⊢
  omega

theorem landed_length (f t : G) (color y x : Nat) : (landed f t color y x).length = f.length := by
  simp [landed]

theorem landed_row_outside (f t : G) (color y x i : Nat) (hi : i < f.length)
    (ho : ¬ (y ≤ i ∧ i < y + 4)) :
    (landed f t color y x)[i]'(by rw [landed_length]; exact hi) = f[i] := by
  simp only [landed, List.getElem_mapIdx]
  have : ∀ c, (pieceCells t).any (fun p => y + p.1 == i && x + p.2 == c) = false := by
    intro c
    rw [List.any_eq_false]
    intro p hp
    have := (mem_pieceCells t p).1 hp
    simp
    omega
  simp only [this]
  apply List.ext_getElem <;> simp

theorem landed_cleared_le (f t : G) (color y x : Nat) (hf : f.all (fun r => !rowFull r) = true) :
    clearedCount (landed f t color y x) ≤ 4 := by
  unfold clearedCount
  apply filter_window _ _ y
  intro i hi hp
  by_cases ho : y ≤ i ∧ i < y + 4
  · exact ho
  · have hi' : i < f.length := by rw [landed_length] at hi; exact hi
    rw [landed_row_outside f t color y x i hi' ho] at hp
    rw [List.all_eq_true] at hf
    have := hf _ (List.getElem_mem hi')
    simp [hp] at this

/-! ### a legal step -/

/-- the grid after the placement of a legal action, before line clearing -/
def placed (s : State) (rot x : Nat) : G :=
  (placeTetromino s.gridPadded (pieceAt s.tetrominoIndex rot) (x : Int)).1

theorem step_grid_placed (cfg : Cfg) (s : State) (hi : s.tetrominoIndex < 7) (rot x d : Nat) (hr : rot < 4) :
    (step cfg s (rot : Int) (x : Int) d).1.gridPadded =
      cleanLines (placed s rot x) (fullLinesOf cfg.numCols (placed s rot x)) ∧
    (step cfg s (rot : Int) (x : Int) d).1.fullLines = fullLinesOf cfg.numCols (placed s rot x) := by
  rw [step_grid, step_full, table_lookup hi hr]
  exact ⟨rfl, rfl⟩

theorem legal_isValid (cfg : Cfg) (s : State) (hc : Consistent cfg s) (rot x : Nat) (hr : rot < 4)
    (hx : x < cfg.numCols) (hl : legal cfg s rot x) : isValid s (rot : Int) (x : Int) = true := by
  obtain ⟨_, _, _, _, _, hm, _⟩ := hc
  rw [isValid_eq_legal cfg s hm hr hx]
  exact hl

/-- at most four lines are cleared by a legal step from a consistent state -/
theorem step_cleared_le (cfg : Cfg) (s : State) (hc : Consistent cfg s) (rot x : Nat) :
    (dropSpec cfg s.gridPadded s.tetrominoIndex rot x).2 ≤ 4 := by
  obtain ⟨_, _, hf, _⟩ := hc
  exact landed_cleared_le _ _ _ _ _ hf

/-- C09: a legal step follows the rules -/
theorem step_eq_spec (cfg : Cfg) (s : State) (hc : Consistent cfg s) (hR : 4 ≤ cfg.numRows)
    (hC : 4 ≤ cfg.numCols) (rot x d : Nat) (hr : rot < 4) (hx : x < cfg.numCols) (_hd : validDraw d)
    (hl : legal cfg s rot x) :
    field cfg (step cfg s (rot : Int) (x : Int) d).1.gridPadded =
      (dropSpec cfg s.gridPadded s.tetrominoIndex rot x).1 ∧
    Jx.countTrue (step cfg s (rot : Int) (x : Int) d).1.fullLines =
      (dropSpec cfg s.gridPadded s.tetrominoIndex rot x).2 ∧
    (step cfg s (rot : Int) (x : Int) d).2.reward =
      [rewardList.getD (dropSpec cfg s.gridPadded s.tetrominoIndex rot x).2 0] := by
  have hk := step_cleared_le cfg s hc rot x
  have hv := legal_isValid cfg s hc rot x hr hx hl
  obtain ⟨hs, hp, _, hi, _, _, _⟩ := hc
  obtain ⟨hg, hfl⟩ := step_grid_placed cfg s hi rot x d hr
  obtain ⟨hs1, hp1⟩ := place_padding cfg s.gridPadded s.tetrominoIndex rot x hs hp hR hC hi hr hx hl
  have hfield := place_field cfg s.gridPadded s.tetrominoIndex rot x hs hp hR hC hi hr hx hl
  have hcnt : Jx.countTrue (step cfg s (rot : Int) (x : Int) d).1.fullLines =
      (dropSpec cfg s.gridPadded s.tetrominoIndex rot x).2 := by
    rw [hfl]; unfold placed
    rw [fullLines_count cfg _ hs1 hp1 (by omega), hfield]
    rfl
  refine ⟨?_, hcnt, ?_⟩
  · rw [hg]; unfold placed
    rw [field_cleanLines cfg _ hs1 hp1 (by omega), hfield]
    rfl
  · rw [step_reward, hcnt, hv]
    rw [Jx.getWC_nat rewardList 0 (show (dropSpec cfg s.gridPadded s.tetrominoIndex rot x).2 < rewardList.length by
      simp [rewardList]; omega)]
    simp [Rat.mul_one]

theorem field_row_length (cfg : Cfg) (g : G)
    (hs : Jx.Grid.shaped g (cfg.numRows + 3) (cfg.numCols + 3) = true) :
    ∀ r ∈ field cfg g, r.length = cfg.numCols := by
  have hrow : ∀ r ∈ g, r.length = cfg.numCols + 3 := (ml_shaped_iff.1 hs).2
  intro r hr
  unfold field at hr
  obtain ⟨r', hr', rfl⟩ := List.mem_map.1 hr
  have := hrow r' (List.mem_of_mem_take hr')
  simp; omega

/-- C07: four cells are added and `numCols` cells removed per cleared line -/
theorem step_conserved (cfg : Cfg) (s : State) (hc : Consistent cfg s) (hR : 4 ≤ cfg.numRows)
    (hC : 4 ≤ cfg.numCols) (rot x d : Nat) (hr : rot < 4) (hx : x < cfg.numCols) (_hd : validDraw d)
    (hl : legal cfg s rot x) :
    cells cfg (step cfg s (rot : Int) (x : Int) d).1.gridPadded +
        cfg.numCols * Jx.countTrue (step cfg s (rot : Int) (x : Int) d).1.fullLines =
      cells cfg s.gridPadded + 4 := by
  obtain ⟨hs, hp, _, hi, _, _, _⟩ := hc
  obtain ⟨hg, hfl⟩ := step_grid_placed cfg s hi rot x d hr
  obtain ⟨hs1, hp1⟩ := place_padding cfg s.gridPadded s.tetrominoIndex rot x hs hp hR hC hi hr hx hl
  have hcells := place_cells cfg s.gridPadded s.tetrominoIndex rot x hs hp hR hC hi hr hx hl
  rw [hg, hfl, ← hcells]
  unfold placed cells
  rw [fullLines_count cfg _ hs1 hp1 (by omega), field_cleanLines cfg _ hs1 hp1 (by omega)]
  exact count_clearLines _ cfg.numCols (field_row_length cfg _ hs1)

/-! ### line clearing keeps the shape and the empty padding -/

theorem cleanLines_decomp (cfg : Cfg) (g : G)
    (hs : Jx.Grid.shaped g (cfg.numRows + 3) (cfg.numCols + 3) = true)
    (hp : paddingEmpty cfg g = true) (hC : 0 < cfg.numCols) :
    ∃ top : G, top.length = cfg.numRows ∧
      cleanLines g (fullLinesOf cfg.numCols g) = top ++ g.drop cfg.numRows := by
  have hbot := padding_rows_not_full cfg g hs hp hC
  have hlen : g.length = cfg.numRows + 3 := (ml_shaped_iff.1 hs).1
  refine ⟨List.map (fun r => List.map (fun _ => 0) r)
        ((g.take cfg.numRows).filter (fun r => (r.take cfg.numCols).all (fun v => v != 0))) ++
      (g.take cfg.numRows).filter (fun r => !((r.take cfg.numCols).all (fun v => v != 0))), ?_, ?_⟩
  · have := filter_length_add (g.take cfg.numRows) (fun r => (r.take cfg.numCols).all (fun v => v != 0))
    simp only [List.length_append, List.length_map]
    rw [this, List.length_take]; omega
  · rw [cleanLines_fullLines]
    conv => lhs; rw [← List.take_append_drop cfg.numRows g]
    rw [List.filter_append, List.filter_append, filter_eq_nil_of_false _ _ hbot,
      filter_eq_self_of_false _ _ hbot, List.append_nil, List.append_assoc]

theorem cleanLines_rows (cfg : Cfg) (g : G) (r : List Nat)
    (hr : r ∈ cleanLines g (fullLinesOf cfg.numCols g)) :
    ∃ r' ∈ g, r.length = r'.length ∧ (r = r' ∨ r = List.map (fun _ => 0) r') := by
  rw [cleanLines_fullLines, List.mem_append] at hr
  rcases hr with hr | hr
  · obtain ⟨r', hr', rfl⟩ := List.mem_map.1 hr
    exact ⟨r', (List.mem_filter.1 hr').1, by simp, Or.inr rfl⟩
  · exact ⟨r, (List.mem_filter.1 hr).1, rfl, Or.inl rfl⟩

theorem cleanLines_shaped_padding (cfg : Cfg) (g : G)
    (hs : Jx.Grid.shaped g (cfg.numRows + 3) (cfg.numCols + 3) = true)
    (hp : paddingEmpty cfg g = true) (hC : 0 < cfg.numCols) :
    Jx.Grid.shaped (cleanLines g (fullLinesOf cfg.numCols g)) (cfg.numRows + 3) (cfg.numCols + 3) = true ∧
    paddingEmpty cfg (cleanLines g (fullLinesOf cfg.numCols g)) = true := by
  obtain ⟨top, htop, hdec⟩ := cleanLines_decomp cfg g hs hp hC
  have hlen : g.length = cfg.numRows + 3 := (ml_shaped_iff.1 hs).1
  have hrow : ∀ r ∈ g, r.length = cfg.numCols + 3 := (ml_shaped_iff.1 hs).2
  have hp' := hp
  simp only [paddingEmpty, Bool.and_eq_true, List.all_eq_true] at hp'
  refine ⟨ml_shaped_iff.2 ⟨?_, ?_⟩, ?_⟩
  · rw [hdec]; simp; omega
  · intro r hr
    obtain ⟨r', hr', hl, _⟩ := cleanLines_rows cfg g r hr
    rw [hl]; exact hrow r' hr'
  · simp only [paddingEmpty, Bool.and_eq_true, List.all_eq_true]
    refine ⟨?_, ?_⟩
    · rw [hdec, List.drop_left' htop]
      exact hp'.1
    · intro r hr
      obtain ⟨r', hr', _, h | h⟩ := cleanLines_rows cfg g r hr
      · rw [h]; exact hp'.2 r' hr'
      · rw [h]; intro v hv
        have := List.mem_of_mem_drop hv
        simp at this
        simp [this.2]

/-! ### consistency is an invariant -/

theorem clearLines_no_full (g : G) (hn : 0 < numColsOf g) :
    (clearLines g).all (fun r => !rowFull r) = true := by
  unfold clearLines
  rw [List.all_eq_true]
  intro r hr
  rw [List.mem_append] at hr
  rcases hr with hr | hr
  · have := (List.mem_replicate.1 hr).2
    rw [this]
    cases h : numColsOf g with
    | zero => omega
    | succ n => simp [rowFull, List.replicate_succ]
  · exact (List.mem_filter.1 hr).2

/-- whatever the grid, if it is shaped with empty padding then the state built around it by `step` or `reset`
caches the legal moves -/
theorem mask_of_grid (cfg : Cfg) (s : State)
    (hs : Jx.Grid.shaped s.gridPadded (cfg.numRows + 3) (cfg.numCols + 3) = true)
    (hp : paddingEmpty cfg s.gridPadded = true) (hR : 4 ≤ cfg.numRows) (hC : 4 ≤ cfg.numCols)
    (hi : s.tetrominoIndex < 7)
    (hm : s.actionMask = calcActionMask (clip1 s.gridPadded) (s.tetrominoIndex : Int)) :
    s.actionMask = legalMask cfg s := by
  rw [hm]; exact calcActionMask_eq_legalMask cfg s hs hp hR hC hi

/-- C07: every step from which the episode continues leads to a consistent state -/
theorem step_consistent (cfg : Cfg) (s : State) (hc : Consistent cfg s) (hR : 4 ≤ cfg.numRows)
    (hC : 4 ≤ cfg.numCols) (rot x d : Nat) (hr : rot < 4) (hx : x < cfg.numCols) (hd : validDraw d)
    (hn : (step cfg s (rot : Int) (x : Int) d).2.stepType ≠ .last) :
    Consistent cfg (step cfg s (rot : Int) (x : Int) d).1 := by
  have hlast := last_iff cfg s (rot : Int) (x : Int) d
  have hv : isValid s (rot : Int) (x : Int) = true := by
    cases h : isValid s (rot : Int) (x : Int)
    · exact absurd (hlast.2 (Or.inl h)) hn
    · rfl
  have htime : ¬ cfg.timeLimit ≤ (step cfg s (rot : Int) (x : Int) d).1.stepCount :=
    fun h => hn (hlast.2 (Or.inr (Or.inr h)))
  obtain ⟨hs, hp, _, hi, _, hm, _⟩ := hc
  have hl : legalB cfg s.gridPadded s.tetrominoIndex rot x = true := by
    rw [← isValid_eq_legal cfg s hm hr hx]; exact hv
  obtain ⟨hg, _⟩ := step_grid_placed cfg s hi rot x d hr
  obtain ⟨hs1, hp1⟩ := place_padding cfg s.gridPadded s.tetrominoIndex rot x hs hp hR hC hi hr hx hl
  obtain ⟨hs2, hp2⟩ := cleanLines_shaped_padding cfg _ hs1 hp1 (by omega)
  have hrow1 : ∀ r ∈ (placeTetromino s.gridPadded (pieceAt s.tetrominoIndex rot) (x : Int)).1,
      r.length = cfg.numCols + 3 := (ml_shaped_iff.1 hs1).2
  have hlen1 := (ml_shaped_iff.1 hs1).1
  have hidx := step_index cfg s (rot : Int) (x : Int) d
  have hd' : d < 7 := hd
  refine ⟨?_, ?_, ?_, ?_, ?_, ?_, ?_⟩
  · rw [hg]; exact hs2
  · rw [hg]; exact hp2
  · rw [hg]; unfold placed
    rw [field_cleanLines cfg _ hs1 hp1 (by omega)]
    apply clearLines_no_full
    unfold field
    rw [numColsOf_field cfg.numRows cfg.numCols _ (by omega) (by omega)
      (fun r hr => by have := hrow1 r hr; omega)]
    omega
  · rw [hidx]; exact hd'
  · rw [step_newT, hidx]
    exact table_lookup hd' (show 0 < 4 by omega)
  · apply mask_of_grid cfg _ _ _ hR hC
    · rw [hidx]; exact hd'
    · exact cached_mask cfg s (rot : Int) (x : Int) d
    · rw [hg]; exact hs2
    · rw [hg]; exact hp2
  · omega

/-! ### reset -/

theorem clip1_zero (n m : Nat) : clip1 (Jx.Grid.mk n m 0) = Jx.Grid.mk n m 0 := by
  unfold clip1 Jx.Grid.mk; simp

/-- C07: the reset state is consistent -/
theorem reset_consistent (cfg : Cfg) (hR : 4 ≤ cfg.numRows) (hC : 4 ≤ cfg.numCols) (d : Nat)
    (hd : validDraw d) : Consistent cfg (reset cfg d).1 := by
  have hd' : d < 7 := hd
  have hs : Jx.Grid.shaped (Jx.Grid.mk (cfg.numRows + 3) (cfg.numCols + 3) 0 : G)
      (cfg.numRows + 3) (cfg.numCols + 3) = true := by
    rw [ml_shaped_iff]; unfold Jx.Grid.mk
    refine ⟨by simp, ?_⟩
    intro r hr
    rw [(List.mem_replicate.1 hr).2]; simp
  have hp : paddingEmpty cfg (Jx.Grid.mk (cfg.numRows + 3) (cfg.numCols + 3) 0 : G) = true := by
    simp only [paddingEmpty, Bool.and_eq_true, List.all_eq_true, Jx.Grid.mk]
    refine ⟨?_, ?_⟩
    · intro r hr v hv
      have := (List.mem_replicate.1 (List.mem_of_mem_drop hr)).2
      rw [this] at hv
      simp [(List.mem_replicate.1 hv).2]
    · intro r hr v hv
      have := (List.mem_replicate.1 hr).2
      rw [this] at hv
      simp [(List.mem_replicate.1 (List.mem_of_mem_drop hv)).2]
  have hgrid : (reset cfg d).1.gridPadded = Jx.Grid.mk (cfg.numRows + 3) (cfg.numCols + 3) 0 := by
    simp [reset]
  have hidx : (reset cfg d).1.tetrominoIndex = d := by simp [reset]
  have hnew : (reset cfg d).1.newTetromino = Jx.getWC (Jx.getWC tetrominoes [] (d : Int)) [] 0 := by
    simp [reset]
  have hmask : (reset cfg d).1.actionMask =
      calcActionMask (clip1 (reset cfg d).1.gridPadded) ((reset cfg d).1.tetrominoIndex : Int) := by
    rw [hgrid, clip1_zero]; simp [reset]
  have hcnt : (reset cfg d).1.stepCount = 0 := by simp [reset]
  refine ⟨?_, ?_, ?_, ?_, ?_, ?_, ?_⟩
  · rw [hgrid]; exact hs
  · rw [hgrid]; exact hp
  · rw [hgrid, List.all_eq_true]
    intro r hr
    unfold field Jx.Grid.mk at hr
    obtain ⟨r', hr', rfl⟩ := List.mem_map.1 hr
    rw [(List.mem_replicate.1 (List.mem_of_mem_take hr')).2]
    cases h : cfg.numCols with
    | zero => omega
    | succ n => simp [rowFull, List.replicate_succ]
  · rw [hidx]; exact hd'
  · rw [hnew, hidx]
    exact table_lookup hd' (show 0 < 4 by omega)
  · apply mask_of_grid cfg _ _ _ hR hC
    · rw [hidx]; exact hd'
    · exact hmask
    · rw [hgrid]; exact hs
    · rw [hgrid]; exact hp
  · rw [hcnt]; omega

end Tetris
