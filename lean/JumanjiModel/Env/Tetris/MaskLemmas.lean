import JumanjiModel.Env.Tetris.Model
import JumanjiModel.Prim.Lemmas
namespace Tetris

/-! ### index plumbing -/

theorem ml_getD_map {α β} (f : α → β) (l : List α) (d : α) (e : β) {i : Nat} (h : i < l.length) :
    (l.map f).getD i e = f (l.getD i d) := by
  simp [List.getD, h]

theorem ml_getD_range_map {α} (n : Nat) (f : Nat → α) (d : α) {i : Nat} (h : i < n) :
    ((List.range n).map f).getD i d = f i := by
  simp [List.getD, h]

theorem ml_dsStart_nat {n r : Nat} (h : r + 4 ≤ n) : dsStart n 4 (r : Int) = r := by
  unfold dsStart Jx.wrapIdx
  simp only []
  repeat' split
  all_goals omega

theorem ml_shaped_iff {g : G} {R C : Nat} :
    Jx.Grid.shaped g R C = true ↔ g.length = R ∧ ∀ r ∈ g, r.length = C := by
  unfold Jx.Grid.shaped
  simp only [Bool.and_eq_true, beq_iff_eq, List.all_eq_true]

theorem ml_shaped_eq_rangeMap {g : G} {R C : Nat} (d : Nat) (h : Jx.Grid.shaped g R C = true) :
    g = (List.range R).map (fun i => (List.range C).map (fun j => Jx.Grid.get g d i j)) := by
  rw [ml_shaped_iff] at h
  obtain ⟨hl, hr⟩ := h
  apply List.ext_getElem
  · simp [hl]
  · intro i h1 h2
    have hrow : g[i].length = C := hr _ (List.getElem_mem h1)
    apply List.ext_getElem
    · simp [hrow]
    · intro j h3 h4
      simp [Jx.Grid.get, List.getD, h1, h3]

theorem ml_get_clip1 (g : G) (r c : Nat) :
    Jx.Grid.get (clip1 g) 0 r c = min (Jx.Grid.get g 0 r c) 1 := by
  unfold Jx.Grid.get clip1
  simp only [List.getD_eq_getElem?_getD, List.getElem?_map]
  cases g[r]? with
  | none => simp
  | some row =>
    simp only [Option.map_some, Option.getD_some, List.getElem?_map]
    cases row[c]? <;> simp

theorem ml_shaped_clip1 {g : G} {R C : Nat} (h : Jx.Grid.shaped g R C = true) :
    Jx.Grid.shaped (clip1 g) R C = true := by
  rw [ml_shaped_iff] at h ⊢
  obtain ⟨hl, hr⟩ := h
  unfold clip1
  refine ⟨by simpa using hl, ?_⟩
  intro r hr'
  rw [List.mem_map] at hr'
  obtain ⟨a, ha, rfl⟩ := hr'
  simpa using hr a ha

theorem ml_slice4_eq {g : G} {R C x : Nat} (hs : Jx.Grid.shaped g R C = true)
    (hR : 4 ≤ R) (hx : x + 4 ≤ C) :
    slice4 g 0 (x : Int) =
      (List.range 4).map (fun r => (List.range 4).map (fun c => Jx.Grid.get g 0 r (x + c))) := by
  rw [ml_shaped_iff] at hs
  obtain ⟨hl, hrow⟩ := hs
  have h0 : dsStart g.length 4 0 = 0 := by
    have := ml_dsStart_nat (n := g.length) (r := 0) (by omega)
    simpa using this
  unfold slice4
  rw [h0]
  apply List.ext_getElem
  · simp; omega
  · intro i h1 h2
    simp only [List.length_map, List.length_range] at h2
    have hi : i < g.length := by omega
    have hlen : g[i].length = C := hrow _ (List.getElem_mem hi)
    simp only [List.getElem_map, List.getElem_take, List.getElem_drop, List.getElem_range, Nat.zero_add]
    rw [hlen, ml_dsStart_nat hx]
    apply List.ext_getElem
    · simp; omega
    · intro j h3 h4
      simp only [List.length_map, List.length_range] at h4
      simp [Jx.Grid.get, List.getD, hi, hlen, show x + j < C by omega]

/-! ### the overlap test on the 4 × 4 window -/

theorem ml_any_zip_rangeMap (a p : Nat → Nat → Nat) (f : Nat → Nat → Nat) (q : Nat → Bool) :
    (List.zipWith (List.zipWith f)
        ((List.range 4).map (fun i => (List.range 4).map (fun j => a i j)))
        ((List.range 4).map (fun i => (List.range 4).map (fun j => p i j)))).any (fun r => r.any q) = true
      ↔ ∃ i, i < 4 ∧ ∃ j, j < 4 ∧ q (f (a i j) (p i j)) = true := by
  simp only [List.zipWith_map, List.zipWith_self, List.any_map, List.any_eq_true, List.mem_range,
    Function.comp_def]

theorem ml_checkValid_iff {g tm : G} {R C x : Nat} (hs : Jx.Grid.shaped g R C = true)
    (ht : Jx.Grid.shaped tm 4 4 = true) (hR : 4 ≤ R) (hx : x + 4 ≤ C) :
    checkValid g tm 0 (x : Int) = true ↔
      ∀ r, r < 4 → ∀ c, c < 4 → Jx.Grid.get g 0 r (x + c) + Jx.Grid.get tm 0 r c < 2 := by
  unfold checkValid
  rw [ml_slice4_eq hs hR hx]
  have key := ml_any_zip_rangeMap (fun r c => Jx.Grid.get g 0 r (x + c)) (fun r c => Jx.Grid.get tm 0 r c)
    (· + ·) (fun v => decide (v ≥ 2))
  rw [← ml_shaped_eq_rangeMap 0 ht] at key
  rw [Bool.not_eq_true', ← Bool.not_eq_true, key]
  simp only [decide_eq_true_eq, not_exists, not_and]
  constructor
  · intro H r hr c hc
    have := H r hr c hc
    omega
  · intro H r hr c hc
    have := H r hr c hc
    omega

/-! ### finite facts about the 28 pieces -/

theorem ml_tetrominoes_length : tetrominoes.length = 7 := by decide

theorem ml_rots_length : ∀ idx, idx < 7 → (tetrominoes.getD idx []).length = 4 := by decide

theorem ml_piece_shaped : ∀ idx, idx < 7 → ∀ rot, rot < 4 →
    Jx.Grid.shaped (pieceAt idx rot) 4 4 = true := by decide

theorem ml_mask_shaped : ∀ idx, idx < 7 → ∀ rot, rot < 4 →
    Jx.Grid.shaped (tetrominoMask (pieceAt idx rot)) 4 4 = true := by decide

/-- (P1) the mask is the upward closure of the piece inside its box -/
theorem ml_mask_closure : ∀ idx, idx < 7 → ∀ rot, rot < 4 → ∀ r', r' < 4 → ∀ c, c < 4 →
    (Jx.Grid.get (tetrominoMask (pieceAt idx rot)) 0 r' c != 0) =
      (List.range 4).any (fun r => decide (r' ≤ r) && Jx.Grid.get (pieceAt idx rot) 0 r c != 0) := by
  decide

/-- (P2) the flag of the `j`-th of the last three columns says that the piece stays within the columns -/
theorem ml_padFlags : ∀ idx, idx < 7 → ∀ rot, rot < 4 → ∀ j, j < 3 →
    (padFlags (colAny (pieceAt idx rot))).getD j false =
      (List.range 4).all (fun r => (List.range 4).all (fun c =>
        Jx.Grid.get (pieceAt idx rot) 0 r c == 0 || decide (j + c < 3))) := by
  decide

/-! ### `andLast3` -/

theorem ml_andLast3_getD (l p : List Bool) {n x : Nat} (hl : l.length = n) (hp : p.length = 3)
    (hn : 3 ≤ n) (hx : x < n) :
    (andLast3 l p).getD x false =
      (l.getD x false && (if x < n - 3 then true else p.getD (x - (n - 3)) false)) := by
  unfold andLast3
  rw [hl]
  have h1 : (List.take (n - 3) l).length = n - 3 := by simp [hl]
  simp only [List.getD_eq_getElem?_getD, List.getElem?_append, h1]
  by_cases hlt : x < n - 3
  · simp [hlt]
  · have hx' : x < l.length := by omega
    have hj : x - (n - 3) < p.length := by omega
    have e : n - 3 + (x - (n - 3)) = x := by omega
    simp [hlt, List.getElem?_zipWith, List.getElem?_drop, e, hx', hj]

/-! ### the L1 mask entry -/

theorem ml_numColsOf {g : G} {R C : Nat} (hs : Jx.Grid.shaped g (R + 1) C = true) : numColsOf g = C := by
  rw [ml_shaped_iff] at hs
  obtain ⟨hl, hr⟩ := hs
  unfold numColsOf
  cases g with
  | nil => simp at hl
  | cons a rest => simpa using hr a (by simp)

theorem ml_mask_le_one (t : G) (r c : Nat) : Jx.Grid.get (tetrominoMask t) 0 r c ≤ 1 := by
  unfold tetrominoMask
  simp only []
  rw [ml_get_clip1]
  omega

theorem ml_padFlags_length (t : G) : (padFlags (colAny t)).length = 3 := by
  simp [padFlags, colAny]

/-- the rule in window form: every cell of the piece is within the columns and everything above it
(inside the box rows) is empty -/
def ruleQ (cfg : Cfg) (gp t : G) (x : Nat) : Prop :=
  ∀ r, r < 4 → ∀ c, c < 4 → Jx.Grid.get t 0 r c ≠ 0 →
    x + c < cfg.numCols ∧ ∀ r', r' ≤ r → Jx.Grid.get gp 0 r' (x + c) = 0

theorem ml_L1_entry (cfg : Cfg) (gp : G) (idx rot x : Nat)
    (hs : Jx.Grid.shaped gp (cfg.numRows + 3) (cfg.numCols + 3) = true)
    (hR : 1 ≤ cfg.numRows) (hC : 4 ≤ cfg.numCols) (hi : idx < 7) (hr : rot < 4) (hx : x < cfg.numCols) :
    (tetrominoActionMask (clip1 gp) (pieceAt idx rot)).getD x false = true ↔
      ruleQ cfg gp (pieceAt idx rot) x := by
  have hsc := ml_shaped_clip1 hs
  have hnc : numColsOf (clip1 gp) - 3 = cfg.numCols := by
    rw [ml_numColsOf (R := cfg.numRows + 2) hsc]; omega
  have hcv := ml_checkValid_iff (x := x) hsc (ml_mask_shaped idx hi rot hr) (by omega) (by omega)
  unfold tetrominoActionMask
  simp only []
  rw [hnc, ml_andLast3_getD _ _ (n := cfg.numCols) (by simp) (ml_padFlags_length _) (by omega) hx,
    ml_getD_range_map _ _ _ hx, Bool.and_eq_true,
    hcv]
  simp only [ml_get_clip1]
  unfold ruleQ
  constructor
  · rintro ⟨H1, H2⟩ r hr4 c hc4 hne
    constructor
    · by_cases hlt : x < cfg.numCols - 3
      · omega
      · rw [if_neg hlt, ml_padFlags idx hi rot hr _ (by omega)] at H2
        simp only [List.all_eq_true, List.mem_range, Bool.or_eq_true, beq_iff_eq,
          decide_eq_true_eq] at H2
        have := H2 r hr4 c hc4
        omega
    · intro r' hr'
      have hcl := ml_mask_closure idx hi rot hr r' (by omega) c hc4
      have hany : (List.range 4).any (fun r => decide (r' ≤ r) &&
          Jx.Grid.get (pieceAt idx rot) 0 r c != 0) = true := by
        rw [List.any_eq_true]
        exact ⟨r, List.mem_range.mpr hr4, by simp [hr', hne]⟩
      rw [hany] at hcl
      have hm : Jx.Grid.get (tetrominoMask (pieceAt idx rot)) 0 r' c ≠ 0 := by simpa using hcl
      have := H1 r' (by omega) c hc4
      omega
  · intro Q
    constructor
    · intro r' hr' c hc4
      have hle := ml_mask_le_one (pieceAt idx rot) r' c
      by_cases hm : Jx.Grid.get (tetrominoMask (pieceAt idx rot)) 0 r' c = 0
      · omega
      · have hcl := ml_mask_closure idx hi rot hr r' hr' c hc4
        have : (Jx.Grid.get (tetrominoMask (pieceAt idx rot)) 0 r' c != 0) = true := by simpa using hm
        rw [this] at hcl
        have hany := hcl.symm
        rw [List.any_eq_true] at hany
        obtain ⟨r, hrm, hh⟩ := hany
        rw [List.mem_range] at hrm
        simp only [Bool.and_eq_true, decide_eq_true_eq, bne_iff_ne, ne_eq] at hh
        have := (Q r hrm c hc4 hh.2).2 r' hh.1
        omega
    · by_cases hlt : x < cfg.numCols - 3
      · simp [hlt]
      · rw [if_neg hlt, ml_padFlags idx hi rot hr _ (by omega)]
        simp only [List.all_eq_true, List.mem_range, Bool.or_eq_true, beq_iff_eq, decide_eq_true_eq]
        intro r hr4 c hc4
        by_cases hz : Jx.Grid.get (pieceAt idx rot) 0 r c = 0
        · exact Or.inl hz
        · have := (Q r hr4 c hc4 hz).1
          right; omega

/-! ### the L2 side -/

theorem ml_mem_coords (nr nc : Nat) (p : Nat × Nat) :
    p ∈ Jx.Grid.coords nr nc ↔ p.1 < nr ∧ p.2 < nc := by
  unfold Jx.Grid.coords
  simp only [List.mem_flatMap, List.mem_map, List.mem_range]
  constructor
  · rintro ⟨i, hi, j, hj, rfl⟩
    exact ⟨hi, hj⟩
  · rintro ⟨h1, h2⟩
    exact ⟨p.1, h1, p.2, h2, rfl⟩

theorem ml_mem_pieceCells (t : G) (p : Nat × Nat) :
    p ∈ pieceCells t ↔ p.1 < 4 ∧ p.2 < 4 ∧ Jx.Grid.get t 0 p.1 p.2 ≠ 0 := by
  unfold pieceCells
  rw [List.mem_filter, ml_mem_coords]
  simp [and_assoc]

theorem ml_fits_iff (cfg : Cfg) (g t : G) (k x : Nat) :
    fits cfg g t (-(k : Int)) x = true ↔
      ∀ r, r < 4 → ∀ c, c < 4 → Jx.Grid.get t 0 r c ≠ 0 →
        x + c < cfg.numCols ∧ (r < k ∨ (r - k < cfg.numRows ∧ Jx.Grid.get g 0 (r - k) (x + c) = 0)) := by
  unfold fits filled
  simp only [List.all_eq_true, ml_mem_pieceCells, Bool.and_eq_true, Bool.or_eq_true,
    decide_eq_true_eq, Bool.not_eq_true', bne_eq_false_iff_eq]
  constructor
  · intro H r hr c hc hne
    have h := H (r, c) ⟨hr, hc, hne⟩
    have e : (-(k : Int) + (r : Int)).toNat = r - k := by omega
    simp only [e] at h
    refine ⟨h.1, ?_⟩
    rcases h.2 with h2 | h2
    · left; omega
    · right; exact h2
  · rintro H ⟨r, c⟩ ⟨hr, hc, hne⟩
    have h := H r hr c hc hne
    have e : (-(k : Int) + (r : Int)).toNat = r - k := by omega
    simp only [e]
    refine ⟨h.1, ?_⟩
    rcases h.2 with h2 | h2
    · left; omega
    · right; exact h2

theorem ml_legalB_iff (cfg : Cfg) (gp : G) (idx rot x : Nat) (hR : 4 ≤ cfg.numRows)
    (hr : rot < 4) (hx : x < cfg.numCols) :
    legalB cfg gp idx rot x = true ↔ ruleQ cfg gp (pieceAt idx rot) x := by
  unfold legalB ruleQ
  simp only [Bool.and_eq_true, decide_eq_true_eq, hr, hx, true_and, List.all_eq_true, List.mem_range,
    ml_fits_iff]
  constructor
  · intro H r hr4 c hc4 hne
    refine ⟨(H 0 (by omega) r hr4 c hc4 hne).1, ?_⟩
    intro r' hr'
    have h := (H (r - r') (by omega) r hr4 c hc4 hne).2
    have e : r - (r - r') = r' := by omega
    rw [e] at h
    rcases h with h | h
    · omega
    · exact h.2
  · intro Q k hk r hr4 c hc4 hne
    have h := Q r hr4 c hc4 hne
    refine ⟨h.1, ?_⟩
    by_cases hlt : r < k
    · exact Or.inl hlt
    · exact Or.inr ⟨by omega, h.2 (r - k) (by omega)⟩

/-! ### C04 -/

theorem ml_calc_row (gp : G) (idx rot : Nat) (hi : idx < 7) (hr : rot < 4) :
    (calcActionMask gp (idx : Int)).getD rot [] = tetrominoActionMask gp (pieceAt idx rot) := by
  unfold calcActionMask
  rw [Jx.getWC_nat _ _ (by rw [ml_tetrominoes_length]; exact hi),
    ml_getD_map _ _ [] [] (by rw [ml_rots_length idx hi]; exact hr)]
  rfl

set_option linter.unusedVariables false in
/-- C04: the L1 mask bit of an in-spec action equals the L2 legality of that action
(`hp` is not needed: a cell of the piece beyond the last column is rejected by both sides whatever the
padding holds) -/
theorem mask_entry_eq_legal (cfg : Cfg) (gp : G) (idx rot x : Nat)
    (hs : Jx.Grid.shaped gp (cfg.numRows + 3) (cfg.numCols + 3) = true)
    (hp : paddingEmpty cfg gp = true) (hR : 4 ≤ cfg.numRows) (hC : 4 ≤ cfg.numCols)
    (hi : idx < 7) (hr : rot < 4) (hx : x < cfg.numCols) :
    ((calcActionMask (clip1 gp) (idx : Int)).getD rot []).getD x false = legalB cfg gp idx rot x := by
  rw [ml_calc_row _ _ _ hi hr, Bool.eq_iff_iff, ml_L1_entry cfg gp idx rot x hs (by omega) hC hi hr hx,
    ml_legalB_iff cfg gp idx rot x hR hr hx]

theorem ml_tam_length (cfg : Cfg) (gp : G) (t : G)
    (hs : Jx.Grid.shaped gp (cfg.numRows + 3) (cfg.numCols + 3) = true) (hC : 3 ≤ cfg.numCols) :
    (tetrominoActionMask (clip1 gp) t).length = cfg.numCols := by
  have hsc := ml_shaped_clip1 hs
  have hnc : numColsOf (clip1 gp) - 3 = cfg.numCols := by
    rw [ml_numColsOf (R := cfg.numRows + 2) hsc]; omega
  unfold tetrominoActionMask
  simp only []
  rw [hnc]
  unfold andLast3
  simp [ml_padFlags_length]
  omega

set_option linter.unusedVariables false in
theorem calcActionMask_eq_legalMask (cfg : Cfg) (s : State)
    (hs : Jx.Grid.shaped s.gridPadded (cfg.numRows + 3) (cfg.numCols + 3) = true)
    (hp : paddingEmpty cfg s.gridPadded = true) (hR : 4 ≤ cfg.numRows) (hC : 4 ≤ cfg.numCols)
    (hi : s.tetrominoIndex < 7) :
    calcActionMask (clip1 s.gridPadded) (s.tetrominoIndex : Int) = legalMask cfg s := by
  have hlen : (calcActionMask (clip1 s.gridPadded) (s.tetrominoIndex : Int)).length = 4 := by
    unfold calcActionMask
    rw [Jx.getWC_nat _ _ (by rw [ml_tetrominoes_length]; exact hi), List.length_map,
      ml_rots_length _ hi]
  apply List.ext_getElem
  · rw [hlen]; simp [legalMask]
  · intro rot h1 h2
    have hr : rot < 4 := by omega
    have hrow := ml_calc_row (clip1 s.gridPadded) s.tetrominoIndex rot hi hr
    have hrow' : (calcActionMask (clip1 s.gridPadded) (s.tetrominoIndex : Int))[rot] =
        tetrominoActionMask (clip1 s.gridPadded) (pieceAt s.tetrominoIndex rot) := by
      rw [← hrow]; simp [List.getD, h1]
    have hl := ml_tam_length cfg s.gridPadded (pieceAt s.tetrominoIndex rot) hs (by omega)
    apply List.ext_getElem
    · rw [hrow', hl]; simp [legalMask]
    · intro x h3 h4
      have hx : x < cfg.numCols := by rw [hrow', hl] at h3; exact h3
      have h := mask_entry_eq_legal cfg s.gridPadded s.tetrominoIndex rot x hs hp hR hC hi hr hx
      rw [hrow] at h
      have e1 : (calcActionMask (clip1 s.gridPadded) (s.tetrominoIndex : Int))[rot][x] =
          (tetrominoActionMask (clip1 s.gridPadded) (pieceAt s.tetrominoIndex rot)).getD x false := by
        simp [hrow', List.getD, hl, hx]
      rw [e1, h]
      simp [legalMask]

end Tetris
