/- Proofs about the Tetris model (statements of the properties are in Props/Env/Tetris.lean). -/
import JumanjiModel.Env.Tetris.Model
import JumanjiModel.Prim.Lemmas
namespace Tetris
open Jm

/-! ### index plumbing -/

theorem getWC_range_map {α} (n : Nat) (f : Nat → α) (d : α) {i : Nat} (h : i < n) :
    Jx.getWC ((List.range n).map f) d (i : Int) = f i := by
  rw [Jx.getWC_nat _ _ (by simpa using h)]
  simp [List.getD, h]

theorem tetrominoes_length : tetrominoes.length = 7 := by decide

/-- the table lookups of `step` are plain lookups for a piece index below 7 and a rotation below 4 -/
theorem table_lookup {d rot : Nat} (hd : d < 7) (hr : rot < 4) :
    Jx.getWC (Jx.getWC tetrominoes [] (d : Int)) [] (rot : Int) = pieceAt d rot := by
  have h7 : ∀ d, d < 7 → ∀ rot, rot < 4 →
      Jx.getWC (Jx.getWC tetrominoes [] ((d : Nat) : Int)) [] ((rot : Nat) : Int) = pieceAt d rot := by decide
  exact h7 d hd rot hr

/-! ### step: bookkeeping, termination, the cached mask -/

theorem step_count (cfg : Cfg) (s : State) (rot x : Int) (d : Nat) :
    (step cfg s rot x d).1.stepCount = s.stepCount + 1 := by
  simp [step]

theorem step_index (cfg : Cfg) (s : State) (rot x : Int) (d : Nat) :
    (step cfg s rot x d).1.tetrominoIndex = d := by
  simp [step]

/-- the mask cached in the successor state is the mask of the successor's grid and piece -/
theorem cached_mask (cfg : Cfg) (s : State) (rot x : Int) (d : Nat) :
    (step cfg s rot x d).1.actionMask =
      calcActionMask (clip1 (step cfg s rot x d).1.gridPadded) ((step cfg s rot x d).1.tetrominoIndex : Int) := by
  simp [step]

/-- a step is LAST exactly when the action was masked out, no action is left, or the time is up -/
theorem last_iff (cfg : Cfg) (s : State) (rot x : Int) (d : Nat) :
    (step cfg s rot x d).2.stepType = .last ↔
      (isValid s rot x = false ∨ (step cfg s rot x d).1.actionMask.any (fun r => r.any id) = false ∨
        cfg.timeLimit ≤ (step cfg s rot x d).1.stepCount) := by
  simp only [step, condLast]
  split
  · rename_i h
    simp only [termination, true_iff]
    simp only [Bool.or_eq_true, Bool.not_eq_true', decide_eq_true_eq] at h
    rcases h with (h | h) | h
    · exact Or.inr (Or.inl h)
    · exact Or.inl h
    · exact Or.inr (Or.inr h)
  · rename_i h
    simp only [transition, reduceCtorEq, false_iff]
    simp only [Bool.or_eq_true, Bool.not_eq_true', decide_eq_true_eq, not_or] at h
    obtain ⟨⟨h1, h2⟩, h3⟩ := h
    intro hh
    rcases hh with hh | hh | hh
    · exact h2 hh
    · exact h1 hh
    · exact h3 hh

/-- the reward is the table entry of the number of cleared lines, and nothing when the action was masked out -/
theorem step_reward (cfg : Cfg) (s : State) (rot x : Int) (d : Nat) :
    (step cfg s rot x d).2.reward =
      [Jx.getWC rewardList 0 ((Jx.countTrue (step cfg s rot x d).1.fullLines : Nat) : Int) *
        (if isValid s rot x then 1 else 0)] := by
  simp only [step, condLast]
  split <;> simp [termination, transition]

/-- a masked-out action ends the episode without reward -/
theorem invalid_step (cfg : Cfg) (s : State) (rot x : Int) (d : Nat) (h : isValid s rot x = false) :
    (step cfg s rot x d).2.stepType = .last ∧ (step cfg s rot x d).2.reward = [0] := by
  refine ⟨(last_iff cfg s rot x d).2 (Or.inl h), ?_⟩
  rw [step_reward]; simp [h, Rat.mul_zero]

/-- in a state whose cached mask is the set of legal moves, `step`'s validity test is legality -/
theorem isValid_eq_legal (cfg : Cfg) (s : State) (hm : s.actionMask = legalMask cfg s) {rot x : Nat}
    (hr : rot < 4) (hx : x < cfg.numCols) :
    isValid s (rot : Int) (x : Int) = legalB cfg s.gridPadded s.tetrominoIndex rot x := by
  unfold isValid Jx.Grid.getWC
  rw [hm]; unfold legalMask
  rw [getWC_range_map 4 _ [] hr, getWC_range_map cfg.numCols _ false hx]

theorem illegal_step (cfg : Cfg) (s : State) (hm : s.actionMask = legalMask cfg s) {rot x : Nat}
    (hr : rot < 4) (hx : x < cfg.numCols) (d : Nat) (h : ¬ legal cfg s rot x) :
    (step cfg s (rot : Int) (x : Int) d).2.stepType = .last ∧ (step cfg s (rot : Int) (x : Int) d).2.reward = [0] := by
  apply invalid_step
  rw [isValid_eq_legal cfg s hm hr hx]
  unfold legal at h
  simpa using h

/-- a legal action in such a state is never treated as invalid: if the step is LAST then no move is left or the
time is up -/
theorem legal_step (cfg : Cfg) (s : State) (hm : s.actionMask = legalMask cfg s) {rot x : Nat}
    (hr : rot < 4) (hx : x < cfg.numCols) (d : Nat) (h : legal cfg s rot x)
    (hl : (step cfg s (rot : Int) (x : Int) d).2.stepType = .last) :
    (step cfg s (rot : Int) (x : Int) d).1.actionMask.any (fun r => r.any id) = false ∨
      cfg.timeLimit ≤ (step cfg s (rot : Int) (x : Int) d).1.stepCount := by
  rcases (last_iff cfg s _ _ d).1 hl with h1 | h1
  · rw [isValid_eq_legal cfg s hm hr hx] at h1
    unfold legal at h; rw [h] at h1; cases h1
  · exact h1

/-! ### observation -/

theorem clip_field (cfg : Cfg) (g : G) :
    ((clip1 g).take cfg.numRows).map (fun r => r.take cfg.numCols) =
      (field cfg g).map (fun r => r.map (fun v => if v != 0 then 1 else 0)) := by
  unfold clip1 field
  rw [← List.map_take]
  simp only [List.map_map]
  apply List.map_congr_left
  intro r _
  simp only [Function.comp]
  rw [← List.map_take]
  apply List.map_congr_left
  intro v _
  by_cases hv : v = 0
  · simp [hv]
  · have : min v 1 = 1 := by omega
    simp [hv, this]

/-- the observation returned by `step` is the documented function of the successor state -/
theorem obs_faithful (cfg : Cfg) (s : State) (rot x : Int) (d : Nat) (hd : validDraw d) :
    (step cfg s rot x d).2.obs = observe cfg (step cfg s rot x d).1 := by
  have ht : Jx.getWC (Jx.getWC tetrominoes [] (d : Int)) [] 0 = pieceAt d 0 := by
    simpa using table_lookup hd (show 0 < 4 by omega)
  have hc := clip_field cfg (step cfg s rot x d).1.gridPadded
  simp only [step, condLast] at hc ⊢
  split <;> simp only [termination, transition, observe, Obs.mk.injEq] <;> exact ⟨hc, ht, trivial, trivial⟩

theorem reset_obs_faithful (cfg : Cfg) (d : Nat) (hd : validDraw d) :
    (reset cfg d).2.obs = observe cfg (reset cfg d).1 := by
  have ht : Jx.getWC (Jx.getWC tetrominoes [] (d : Int)) [] 0 = pieceAt d 0 := by
    simpa using table_lookup hd (show 0 < 4 by omega)
  have hc := clip_field cfg (Jx.Grid.mk (cfg.numRows + 3) (cfg.numCols + 3) 0)
  have hz : clip1 (Jx.Grid.mk (cfg.numRows + 3) (cfg.numCols + 3) 0) = Jx.Grid.mk (cfg.numRows + 3) (cfg.numCols + 3) 0 := by
    unfold clip1 Jx.Grid.mk; simp
  rw [hz] at hc
  simp only [reset, restart, observe, Obs.mk.injEq]
  exact ⟨hc, ht, trivial, trivial⟩

end Tetris
