import JumanjiModel.Env.Tetris.Model
import JumanjiModel.Prim.Lemmas
namespace Tetris

/-! ### helpers for `cleanLines` -/

theorem zip_filter_true {α} (g : List α) (f : α → Bool) :
    List.map (·.1) ((List.zip g (List.map f g)).filter (fun p => p.2)) = g.filter f := by
  induction g with
  | nil => rfl
  | cons a t ih =>
    simp only [List.map_cons, List.zip_cons_cons, List.filter_cons]
    cases h : f a <;> simp [ih]

theorem zip_filter_false {α} (g : List α) (f : α → Bool) :
    List.map (·.1) ((List.zip g (List.map f g)).filter (fun p => !p.2)) = g.filter (fun r => !f r) := by
  induction g with
  | nil => rfl
  | cons a t ih =>
    simp only [List.map_cons, List.zip_cons_cons, List.filter_cons]
    cases h : f a <;> simp [ih]

theorem countTrue_map {α} (g : List α) (f : α → Bool) :
    Jx.countTrue (List.map f g) = (g.filter f).length := by
  unfold Jx.countTrue
  induction g with
  | nil => rfl
  | cons a t ih =>
    simp only [List.map_cons, List.filter_cons]
    cases h : f a <;> simp [ih]

theorem mapIdx_lt {α} (xs : List α) (n : Nat) (z : α → α) (h : xs.length ≤ n) :
    xs.mapIdx (fun i r => if i < n then z r else r) = xs.map z := by
  apply List.ext_getElem
  · simp
  · intro i h1 h2
    simp at h1
    have : i < n := by omega
    simp [this]

theorem mapIdx_ge {α} (xs : List α) (n m : Nat) (z : α → α) (h : n ≤ m) :
    xs.mapIdx (fun i r => if i + m < n then z r else r) = xs := by
  apply List.ext_getElem
  · simp
  · intro i h1 h2
    have : ¬ (i + m < n) := by omega
    simp [this]

theorem cleanLines_map (g : G) (f : List Nat → Bool) :
    cleanLines g (List.map f g) =
      List.map (fun r => List.map (fun _ => 0) r) (g.filter f) ++ g.filter (fun r => !f r) := by
  unfold cleanLines
  simp only [zip_filter_true, zip_filter_false, countTrue_map, List.mapIdx_append]
  rw [mapIdx_lt _ _ _ (Nat.le_refl _), mapIdx_ge _ _ _ _ (Nat.le_refl _)]

theorem cleanLines_fullLines (numCols : Nat) (g : G) :
    cleanLines g (fullLinesOf numCols g) =
      List.map (fun r => List.map (fun _ => 0) r)
        (g.filter (fun r => (r.take numCols).all (fun v => v != 0))) ++
      g.filter (fun r => !((r.take numCols).all (fun v => v != 0))) := by
  unfold fullLinesOf
  exact cleanLines_map g _

/-! ### conservation of cells -/

theorem count_cons (p : Nat → Bool) (r : List Nat) (g : G) :
    Jx.Grid.count p (r :: g) = (r.filter p).length + Jx.Grid.count p g := by
  simp [Jx.Grid.count]

theorem count_append (p : Nat → Bool) (a b : G) :
    Jx.Grid.count p (a ++ b) = Jx.Grid.count p a + Jx.Grid.count p b := by
  simp [Jx.Grid.count]

theorem count_replicate_zero (k n : Nat) :
    Jx.Grid.count (fun v => v != 0) (List.replicate k (List.replicate n 0)) = 0 := by
  induction k with
  | zero => simp [Jx.Grid.count]
  | succ k ih =>
    rw [List.replicate_succ, count_cons, ih]
    simp

theorem filter_length_of_rowFull (r : List Nat) (h : rowFull r = true) :
    (r.filter (fun v => v != 0)).length = r.length := by
  unfold rowFull at h
  rw [List.filter_eq_self.mpr]
  simpa using h

theorem count_clearLines (g : G) (w : Nat) (hw : ∀ r ∈ g, r.length = w) :
    Jx.Grid.count (fun v => v != 0) (clearLines g) + w * clearedCount g =
      Jx.Grid.count (fun v => v != 0) g := by
  unfold clearLines clearedCount
  simp only [count_append, count_replicate_zero, Nat.zero_add]
  induction g with
  | nil => simp [Jx.Grid.count]
  | cons a t ih =>
    have ih' := ih (fun r hr => hw r (List.mem_cons_of_mem _ hr))
    have ha : a.length = w := hw a List.mem_cons_self
    simp only [List.filter_cons]
    cases h : rowFull a
    · simp only [Bool.not_false, if_true, Bool.false_eq_true, if_false, count_cons]
      omega
    · simp only [Bool.not_true, Bool.false_eq_true, if_false, if_true, count_cons, List.length_cons,
        filter_length_of_rowFull a h, Nat.mul_succ]
      omega

/-! ### L1 = L2 for line clearing on the visible field -/

theorem filter_length_add {α} (l : List α) (p : α → Bool) :
    (l.filter p).length + (l.filter (fun r => !p r)).length = l.length := by
  induction l with
  | nil => rfl
  | cons a t ih =>
    simp only [List.filter_cons]
    cases h : p a <;> simp <;> omega

/-- a non-empty all-zero prefix is not full -/
theorem not_full_of_zero (nc : Nat) (r : List Nat) (hc : 0 < nc) (hl : 0 < r.length)
    (hz : r.all (fun v => v == 0) = true) : (r.take nc).all (fun v => v != 0) = false := by
  cases r with
  | nil => simp at hl
  | cons a t =>
    cases nc with
    | zero => omega
    | succ m =>
      simp at hz
      simp [hz.1]

theorem filter_eq_nil_of_false {α} (l : List α) (p : α → Bool) (h : ∀ r ∈ l, p r = false) :
    l.filter p = [] := by
  rw [List.filter_eq_nil_iff]
  intro r hr; simp [h r hr]

theorem filter_eq_self_of_false {α} (l : List α) (p : α → Bool) (h : ∀ r ∈ l, p r = false) :
    l.filter (fun r => !p r) = l := by
  rw [List.filter_eq_self]
  intro r hr; simp [h r hr]

theorem map_take_zero (nc : Nat) (l : G) (h : ∀ r ∈ l, nc ≤ r.length) :
    List.map (fun r => r.take nc) (List.map (fun r => List.map (fun _ => 0) r) l) =
      List.replicate l.length (List.replicate nc 0) := by
  induction l with
  | nil => rfl
  | cons a t ih =>
    have ha : nc ≤ a.length := h a List.mem_cons_self
    simp only [List.map_cons, List.length_cons, List.replicate_succ]
    rw [ih (fun r hr => h r (List.mem_cons_of_mem _ hr))]
    congr 1
    apply List.ext_getElem
    · simp; omega
    · intro i h1 h2; simp

theorem field_clean_aux (nc : Nat) (top bot : G)
    (hbot : ∀ r ∈ bot, (r.take nc).all (fun v => v != 0) = false)
    (hlen : ∀ r ∈ top, nc ≤ r.length) :
    List.map (fun (r : List Nat) => r.take nc)
      ((List.map (fun r => List.map (fun _ => 0) r)
          ((top ++ bot).filter (fun (r : List Nat) => (r.take nc).all (fun v => v != 0))) ++
        (top ++ bot).filter (fun (r : List Nat) => !((r.take nc).all (fun v => v != 0)))).take top.length) =
    List.replicate ((List.map (fun (r : List Nat) => r.take nc) top).filter rowFull).length (List.replicate nc 0) ++
      (List.map (fun (r : List Nat) => r.take nc) top).filter (fun r => !rowFull r) := by
  rw [List.filter_append, List.filter_append, filter_eq_nil_of_false bot _ hbot,
    filter_eq_self_of_false bot _ hbot, List.append_nil, ← List.append_assoc]
  have hlen2 := filter_length_add top (fun (r : List Nat) => (r.take nc).all (fun v => v != 0))
  rw [List.take_append_of_le_length (by simp; omega), List.take_of_length_le (by simp; omega)]
  rw [List.map_append, map_take_zero]
  · simp only [List.filter_map, List.length_map]
    rfl
  · intro r hr
    exact hlen r (List.mem_filter.mp hr).1

theorem numColsOf_field (nr nc : Nat) (g : G) (hr : 0 < nr) (hg : 0 < g.length)
    (hl : ∀ r ∈ g, nc ≤ r.length) :
    numColsOf (List.map (fun (r : List Nat) => r.take nc) (g.take nr)) = nc := by
  cases g with
  | nil => simp at hg
  | cons a t =>
    cases nr with
    | zero => omega
    | succ n =>
      have := hl a List.mem_cons_self
      simp [numColsOf]; omega

/-- L1 = L2 for line clearing, on the visible field.  (No extra hypotheses were needed:
`numRows = 0` is handled separately.) -/
theorem field_cleanLines (cfg : Cfg) (g : G)
    (hs : Jx.Grid.shaped g (cfg.numRows + 3) (cfg.numCols + 3) = true)
    (hp : paddingEmpty cfg g = true) (hc : 0 < cfg.numCols) :
    field cfg (cleanLines g (fullLinesOf cfg.numCols g)) = clearLines (field cfg g) := by
  have hglen : g.length = cfg.numRows + 3 := by
    simp [Jx.Grid.shaped] at hs; exact hs.1
  have hrow : ∀ r ∈ g, r.length = cfg.numCols + 3 := by
    simp [Jx.Grid.shaped] at hs; exact hs.2
  have hbot : ∀ r ∈ g.drop cfg.numRows,
      (r.take cfg.numCols).all (fun v => v != 0) = false := by
    intro r hr
    have hrg : r ∈ g := List.mem_of_mem_drop hr
    have hl := hrow r hrg
    apply not_full_of_zero _ _ hc (by omega)
    simp only [paddingEmpty, Bool.and_eq_true, List.all_eq_true] at hp
    have := hp.1 r hr
    simpa using this
  have hlen : ∀ r ∈ g.take cfg.numRows, cfg.numCols ≤ r.length := by
    intro r hr
    have := hrow r (List.mem_of_mem_take hr)
    omega
  have key := field_clean_aux cfg.numCols (g.take cfg.numRows) (g.drop cfg.numRows) hbot hlen
  rw [List.take_append_drop, List.length_take, Nat.min_eq_left (by omega)] at key
  rw [cleanLines_fullLines]
  unfold field clearLines
  rw [key]
  have hadd := filter_length_add (List.map (fun (r : List Nat) => r.take cfg.numCols) (g.take cfg.numRows)) rowFull
  simp only []
  have hk : (List.map (fun (r : List Nat) => r.take cfg.numCols) (g.take cfg.numRows)).length -
      ((List.map (fun (r : List Nat) => r.take cfg.numCols) (g.take cfg.numRows)).filter
        (fun r => !rowFull r)).length =
      ((List.map (fun (r : List Nat) => r.take cfg.numCols) (g.take cfg.numRows)).filter rowFull).length := by
    omega
  rw [hk]
  cases hnr : cfg.numRows with
  | zero => simp
  | succ n =>
    rw [← hnr, numColsOf_field cfg.numRows cfg.numCols g (by omega) (by omega)
      (fun r hr => by have := hrow r hr; omega)]

end Tetris
