/-
Tetris (jumanji/environments/packing/tetris/{env,utils,constants,types}.py).  Import-free.

L1 = transliteration of `step`, `_calculate_action_mask`, `_rotate`, `utils.tetromino_action_mask`,
`utils.check_valid_tetromino_placement`, `utils.place_tetromino`, `utils.clean_lines`, with the JAX
corner semantics the code relies on (`lax.dynamic_slice` / `dynamic_update_slice` start indices wrap
once and are then clamped so that the window fits: `place_tetromino` really calls them with
`y_position = -1`; gathers wrap then clamp; `argmin` = first occurrence).  The piece drawn for the
next step is the draw parameter `d` (index into `TETROMINOES_LIST`), `validDraw d ↔ d < 7`.

L2 = the rules, written from the documentation: a piece enters from above the grid in the chosen
column, falls straight down and comes to rest on the first obstacle; full lines disappear and what is
above them moves down; an action is legal iff the piece can come to rest entirely inside the grid.
-/
import JumanjiModel.Prim.Idx
import JumanjiModel.Prim.Grid
import JumanjiModel.Core.TimeStep
namespace Tetris
open Jm

/-- grids of cell colours (0 = empty) and 4×4 pieces (0/1) -/
abbrev G := List (List Nat)

/-- `constants.TETROMINOES_LIST` (7 pieces × 4 rotations × 4 × 4); compared with the source table by the
harness on every run (`tetris.table`) -/
def tetrominoes : List (List G) :=
  [[[[1, 0, 0, 0], [1, 0, 0, 0], [1, 0, 0, 0], [1, 0, 0, 0]],
    [[1, 1, 1, 1], [0, 0, 0, 0], [0, 0, 0, 0], [0, 0, 0, 0]],
    [[1, 0, 0, 0], [1, 0, 0, 0], [1, 0, 0, 0], [1, 0, 0, 0]],
    [[1, 1, 1, 1], [0, 0, 0, 0], [0, 0, 0, 0], [0, 0, 0, 0]]],
   [[[0, 1, 1, 0], [1, 1, 0, 0], [0, 0, 0, 0], [0, 0, 0, 0]],
    [[1, 0, 0, 0], [1, 1, 0, 0], [0, 1, 0, 0], [0, 0, 0, 0]],
    [[0, 1, 1, 0], [1, 1, 0, 0], [0, 0, 0, 0], [0, 0, 0, 0]],
    [[1, 0, 0, 0], [1, 1, 0, 0], [0, 1, 0, 0], [0, 0, 0, 0]]],
   [[[1, 1, 0, 0], [0, 1, 1, 0], [0, 0, 0, 0], [0, 0, 0, 0]],
    [[0, 1, 0, 0], [1, 1, 0, 0], [1, 0, 0, 0], [0, 0, 0, 0]],
    [[1, 1, 0, 0], [0, 1, 1, 0], [0, 0, 0, 0], [0, 0, 0, 0]],
    [[0, 1, 0, 0], [1, 1, 0, 0], [1, 0, 0, 0], [0, 0, 0, 0]]],
   [[[1, 1, 0, 0], [1, 1, 0, 0], [0, 0, 0, 0], [0, 0, 0, 0]],
    [[1, 1, 0, 0], [1, 1, 0, 0], [0, 0, 0, 0], [0, 0, 0, 0]],
    [[1, 1, 0, 0], [1, 1, 0, 0], [0, 0, 0, 0], [0, 0, 0, 0]],
    [[1, 1, 0, 0], [1, 1, 0, 0], [0, 0, 0, 0], [0, 0, 0, 0]]],
   [[[1, 1, 1, 0], [0, 1, 0, 0], [0, 0, 0, 0], [0, 0, 0, 0]],
    [[0, 1, 0, 0], [1, 1, 0, 0], [0, 1, 0, 0], [0, 0, 0, 0]],
    [[0, 1, 0, 0], [1, 1, 1, 0], [0, 0, 0, 0], [0, 0, 0, 0]],
    [[1, 0, 0, 0], [1, 1, 0, 0], [1, 0, 0, 0], [0, 0, 0, 0]]],
   [[[1, 0, 0, 0], [1, 0, 0, 0], [1, 1, 0, 0], [0, 0, 0, 0]],
    [[1, 1, 1, 0], [1, 0, 0, 0], [0, 0, 0, 0], [0, 0, 0, 0]],
    [[1, 1, 0, 0], [0, 1, 0, 0], [0, 1, 0, 0], [0, 0, 0, 0]],
    [[0, 0, 1, 0], [1, 1, 1, 0], [0, 0, 0, 0], [0, 0, 0, 0]]],
   [[[0, 1, 0, 0], [0, 1, 0, 0], [1, 1, 0, 0], [0, 0, 0, 0]],
    [[1, 0, 0, 0], [1, 1, 1, 0], [0, 0, 0, 0], [0, 0, 0, 0]],
    [[1, 1, 0, 0], [1, 0, 0, 0], [1, 0, 0, 0], [0, 0, 0, 0]],
    [[1, 1, 1, 0], [0, 0, 1, 0], [0, 0, 0, 0], [0, 0, 0, 0]]]]

/-- `constants.REWARD_LIST` -/
def rewardList : List Rat := [0, 40, 100, 300, 1200]

structure Cfg where
  numRows : Nat
  numCols : Nat
  timeLimit : Nat
  deriving Repr, DecidableEq

structure State where
  gridPadded : G                  -- (numRows+3) × (numCols+3)
  gridPaddedOld : G
  tetrominoIndex : Nat
  oldTetrominoRotated : G
  newTetromino : G
  xPosition : Int
  yPosition : Int
  actionMask : List (List Bool)   -- 4 × numCols, cached
  fullLines : List Bool
  score : Rat
  reward : Rat
  isReset : Bool
  stepCount : Nat
  deriving Repr, DecidableEq

structure Obs where
  grid : G
  tetromino : G
  actionMask : List (List Bool)
  stepCount : Nat
  deriving Repr, DecidableEq

/-! ### L1 -/

/-- `jnp.clip(g, a_max=1)` -/
def clip1 (g : G) : G := g.map (fun r => r.map (fun v => min v 1))

/-- `g.max()` (0 for the empty grid) -/
def gridMax (g : G) : Nat := g.flatten.foldl max 0

def numColsOf (g : G) : Nat := (g.headD []).length

/-- start index of `lax.dynamic_slice` / `dynamic_update_slice` along an axis of length `n` for a window
of `size`: a negative index wraps once, then the index is clamped into `[0, n - size]` -/
def dsStart (n size : Nat) (i : Int) : Nat :=
  let j := Jx.wrapIdx n i
  if j < 0 then 0 else if j.toNat > n - size then n - size else j.toNat

/-- `lax.dynamic_slice(g, (y, x), (4, 4))` -/
def slice4 (g : G) (y x : Int) : G :=
  ((g.drop (dsStart g.length 4 y)).take 4).map (fun r => (r.drop (dsStart r.length 4 x)).take 4)

/-- `check_valid_tetromino_placement` -/
def checkValid (g t : G) (y x : Int) : Bool :=
  !((List.zipWith (List.zipWith (· + ·)) (slice4 g y x) t).any (fun r => r.any (fun v => decide (v ≥ 2))))

/-- the piece with every cell also filling the cells above it inside its box, as `tetromino_action_mask`
builds it (`row1 += row2; row0 += row1; clip`) -/
def tetrominoMask (t : G) : G :=
  let r0 := t.getD 0 []
  let r1 := t.getD 1 []
  let r2 := t.getD 2 []
  let r3 := t.getD 3 []
  let r1' := List.zipWith (· + ·) r1 r2
  let r0' := List.zipWith (· + ·) r0 r1'
  clip1 [r0', r1', r2, r3]

/-- `tetromino.sum(axis=0) > 0` -/
def colAny (t : G) : List Bool := (List.range 4).map (fun c => t.any (fun r => decide (r.getD c 0 > 0)))
/-- `tetromino.sum(axis=1) > 0` -/
def rowAny (t : G) : List Bool := t.map (fun r => r.any (fun v => decide (v > 0)))
/-- `jnp.logical_not(jnp.flip(l[1:]))` -/
def padFlags (l : List Bool) : List Bool := ((l.drop 1).reverse).map not
/-- `l.at[-3:].set(jnp.logical_and(l[-3:], p))` -/
def andLast3 (l p : List Bool) : List Bool :=
  l.take (l.length - 3) ++ List.zipWith (· && ·) (l.drop (l.length - 3)) p

/-- `tetromino_action_mask` -/
def tetrominoActionMask (gp t : G) : List Bool :=
  let tm := tetrominoMask t
  let numCols := numColsOf gp - 3
  let l := (List.range numCols).map (fun (x : Nat) => checkValid gp tm 0 (x : Int))
  andLast3 l (padFlags (colAny t))

/-- `_calculate_action_mask` -/
def calcActionMask (gp : G) (idx : Int) : List (List Bool) :=
  (Jx.getWC tetrominoes [] idx).map (tetrominoActionMask gp)

/-- `max(g, dynamic_update_slice(g, t * color, (ys, xs)))` with the start indices already resolved -/
def paint (g t : G) (color ys xs : Nat) : G :=
  g.mapIdx (fun r row => row.mapIdx (fun c v =>
    if ys ≤ r ∧ r < ys + 4 ∧ xs ≤ c ∧ c < xs + 4 then max v (Jx.Grid.get t 0 (r - ys) (c - xs) * color) else v))

/-- `place_tetromino` -/
def placeTetromino (gp t : G) (x : Int) : G × Int :=
  let numRows := gp.length - 3
  let cl := clip1 gp
  let poss := (List.range numRows).map (fun (y : Nat) => checkValid cl t (y : Int) x)
  let poss := andLast3 poss (padFlags (rowAny t))
  let y : Int := (Jx.argminBool poss : Int) - 1
  let color := gridMax gp + 1
  (paint gp t color (dsStart gp.length 4 y) (dsStart (numColsOf gp) 4 x), y)

/-- `jnp.all(grid_padded[:, :num_cols] != 0, axis=1)` -/
def fullLinesOf (numCols : Nat) (g : G) : List Bool := g.map (fun r => (r.take numCols).all (fun v => v != 0))

/-- `clean_lines`: stable sort of the rows by "not full" (full rows first), then the first
`full_lines.sum()` rows are zeroed -/
def cleanLines (g : G) (full : List Bool) : G :=
  let z := List.zip g full
  let sorted := (z.filter (fun p => p.2)).map (·.1) ++ (z.filter (fun p => !p.2)).map (·.1)
  let n := Jx.countTrue full
  sorted.mapIdx (fun i r => if i < n then r.map (fun _ => 0) else r)

def validDraw (d : Nat) : Prop := d < 7
instance (d : Nat) : Decidable (validDraw d) := by unfold validDraw; infer_instance

/-- the validity test `step` applies: the cached mask at the action -/
def isValid (s : State) (rot x : Int) : Bool := Jx.Grid.getWC s.actionMask false rot x

def step (cfg : Cfg) (s : State) (rot x : Int) (d : Nat) : State × TimeStep Obs :=
  let t := Jx.getWC (Jx.getWC tetrominoes [] (s.tetrominoIndex : Int)) [] rot
  let (gp1, y) := placeTetromino s.gridPadded t x
  let full := fullLinesOf cfg.numCols gp1
  let nFull := Jx.countTrue full
  let gp2 := cleanLines gp1 full
  let newT := Jx.getWC (Jx.getWC tetrominoes [] (d : Int)) [] 0
  let clipped := clip1 gp2
  let mask := calcActionMask clipped (d : Int)
  let color := max 1 (gridMax gp2)
  let colored := t.map (fun r => r.map (fun v => v * color))
  let valid := isValid s rot x
  let reward : Rat := Jx.getWC rewardList 0 (nFull : Int) * (if valid then 1 else 0)
  let stepCount := s.stepCount + 1
  let s' : State :=
    { gridPadded := gp2, gridPaddedOld := s.gridPadded, tetrominoIndex := d,
      oldTetrominoRotated := colored, newTetromino := newT, xPosition := x, yPosition := y,
      actionMask := mask, fullLines := full, score := s.score + reward, reward := reward,
      isReset := false, stepCount := stepCount }
  let o : Obs :=
    { grid := (clipped.take cfg.numRows).map (fun r => r.take cfg.numCols), tetromino := newT,
      actionMask := mask, stepCount := stepCount }
  let completed := !(mask.any (fun r => r.any id))
  let done := completed || !valid || decide (stepCount ≥ cfg.timeLimit)
  (s', condLast done [reward] o)

/-- `reset` with the drawn piece index `d` -/
def reset (cfg : Cfg) (d : Nat) : State × TimeStep Obs :=
  let gp : G := Jx.Grid.mk (cfg.numRows + 3) (cfg.numCols + 3) 0
  let t := Jx.getWC (Jx.getWC tetrominoes [] (d : Int)) [] 0
  let mask := calcActionMask gp (d : Int)
  let s : State :=
    { gridPadded := gp, gridPaddedOld := gp, tetrominoIndex := d, oldTetrominoRotated := t,
      newTetromino := t, xPosition := 0, yPosition := 0, actionMask := mask,
      fullLines := List.replicate (cfg.numRows + 3) false, score := 0, reward := 0, isReset := true,
      stepCount := 0 }
  (s, restart { grid := (gp.take cfg.numRows).map (fun r => r.take cfg.numCols), tetromino := t,
                actionMask := mask, stepCount := 0 })

/-! ### L2: the rules -/

/-- the piece `idx` turned `rot` quarter turns (4 × 4 box, cells pushed to the top-left) -/
def pieceAt (idx rot : Nat) : G := (tetrominoes.getD idx []).getD rot []

/-- the box coordinates of the cells of a piece -/
def pieceCells (t : G) : List (Nat × Nat) :=
  (Jx.Grid.coords 4 4).filter (fun p => Jx.Grid.get t 0 p.1 p.2 != 0)

/-- is the cell `(r, c)` of the playing field occupied -/
def filled (g : G) (r c : Nat) : Bool := Jx.Grid.get g 0 r c != 0

/-- the piece with the top-left corner of its box at row `y` (negative: still partly above the field)
and column `x` touches nothing: every cell is within the columns of the field, and every cell that has
entered the field is above the floor and on an empty cell -/
def fits (cfg : Cfg) (g t : G) (y : Int) (x : Nat) : Bool :=
  (pieceCells t).all (fun p =>
    decide (x + p.2 < cfg.numCols) &&
    (decide (y + (p.1 : Int) < 0) ||
      (decide ((y + (p.1 : Int)).toNat < cfg.numRows) && !(filled g (y + (p.1 : Int)).toNat (x + p.2)))))

/-- the piece can be placed: coming from above the field it reaches the position where its whole box is
inside (`y = 0`) without touching anything -/
def legalB (cfg : Cfg) (g : G) (idx rot x : Nat) : Bool :=
  decide (rot < 4) && decide (x < cfg.numCols) &&
  (List.range 4).all (fun k => fits cfg g (pieceAt idx rot) (-(k : Int)) x)

def legal (cfg : Cfg) (s : State) (rot x : Nat) : Prop := legalB cfg s.gridPadded s.tetrominoIndex rot x = true
instance (cfg : Cfg) (s : State) (rot x : Nat) : Decidable (legal cfg s rot x) := by unfold legal; infer_instance

/-- legality of every action, in the layout of the action mask (4 × numCols) -/
def legalMask (cfg : Cfg) (s : State) : List (List Bool) :=
  (List.range 4).map (fun rot => (List.range cfg.numCols).map (fun x => legalB cfg s.gridPadded s.tetrominoIndex rot x))

/-- free fall: from row `y` the piece moves down one row at a time while it still fits -/
def fallFrom (cfg : Cfg) (g t : G) (x : Nat) : Nat → Nat → Nat
  | 0, y => y
  | fuel + 1, y => if fits cfg g t ((y : Int) + 1) x then fallFrom cfg g t x fuel (y + 1) else y

/-- the row in which a legally dropped piece comes to rest -/
def dropY (cfg : Cfg) (g t : G) (x : Nat) : Nat := fallFrom cfg g t x cfg.numRows 0

/-- the field (visible part: `numRows × numCols`) -/
def field (cfg : Cfg) (g : G) : G := (g.take cfg.numRows).map (fun r => r.take cfg.numCols)

/-- the field with the cells of the piece at `(y, x)` given `color` -/
def landed (g t : G) (color y x : Nat) : G :=
  g.mapIdx (fun r row => row.mapIdx (fun c v =>
    if (pieceCells t).any (fun p => y + p.1 == r && x + p.2 == c) then color else v))

def rowFull (r : List Nat) : Bool := r.all (fun v => v != 0)

/-- line clearing: full rows disappear, the rows above move down, empty rows enter at the top -/
def clearLines (g : G) : G :=
  let keep := g.filter (fun r => !rowFull r)
  List.replicate (g.length - keep.length) (List.replicate (numColsOf g) 0) ++ keep

def clearedCount (g : G) : Nat := (g.filter rowFull).length

/-- the rules applied to the visible field for a legal action: (new field, number of cleared lines) -/
def dropSpec (cfg : Cfg) (g : G) (idx rot x : Nat) : G × Nat :=
  let f := field cfg g
  let t := pieceAt idx rot
  let l := landed f t (gridMax g + 1) (dropY cfg g t x) x
  (clearLines l, clearedCount l)

/-- number of occupied cells of the field -/
def cells (cfg : Cfg) (g : G) : Nat := Jx.Grid.count (fun v => v != 0) (field cfg g)

/-- the documented observation: occupied cells of the field as 0/1, the piece to be placed next, the
mask and the step counter -/
def observe (cfg : Cfg) (s : State) : Obs :=
  { grid := (field cfg s.gridPadded).map (fun r => r.map (fun v => if v != 0 then 1 else 0)),
    tetromino := pieceAt s.tetrominoIndex 0,
    actionMask := s.actionMask,
    stepCount := s.stepCount }

/-- the padding (3 rows below, 3 columns to the right) is empty -/
def paddingEmpty (cfg : Cfg) (g : G) : Bool :=
  (g.drop cfg.numRows).all (fun r => r.all (fun v => v == 0)) &&
  g.all (fun r => (r.drop cfg.numCols).all (fun v => v == 0))

/-- a physically possible state: the grid has its shape and nothing sits in the padding, no full line is
left standing, the next piece is one of the seven and is the one shown, and the cached mask is the set of
legal moves -/
def Consistent (cfg : Cfg) (s : State) : Prop :=
  Jx.Grid.shaped s.gridPadded (cfg.numRows + 3) (cfg.numCols + 3) = true ∧
  paddingEmpty cfg s.gridPadded = true ∧
  (field cfg s.gridPadded).all (fun r => !rowFull r) = true ∧
  s.tetrominoIndex < 7 ∧
  s.newTetromino = pieceAt s.tetrominoIndex 0 ∧
  s.actionMask = legalMask cfg s ∧
  s.stepCount ≤ cfg.timeLimit

instance (cfg : Cfg) (s : State) : Decidable (Consistent cfg s) := by unfold Consistent; infer_instance

/-- conservation across a step from which the episode continues: four cells were added and
`numCols` cells removed per cleared line (`k` = number of cleared lines, at most 4) -/
def conservedStep (cfg : Cfg) (s s' : State) (reward : Rat) : Bool :=
  let k := Jx.countTrue s'.fullLines
  decide (k ≤ 4) && decide (cells cfg s'.gridPadded + cfg.numCols * k = cells cfg s.gridPadded + 4) &&
  decide (reward = rewardList.getD k 0)

/-- C05: what an illegal action does (documented: the episode ends, no reward) -/
def illegalOk (ts : TimeStep Obs) : Bool := ts.stepType == .last && ts.reward == [0]

/-! ### documented reward function and the reset state as a generated instance (C10) -/

/-- the documented reward of clearing `k` lines with one piece: `REWARD_LIST[k]` = 0, 40, 100, 300, 1200
("0 if no line was cleared and a convex function of the number of cleared lines otherwise") -/
def lineReward (k : Nat) : Rat := rewardList.getD k 0

/-- generator certificate: what `reset` advertises — an empty padded grid of the configured size (also stored as
the previous grid), a piece index below 7 whose stored `new_tetromino` (= `old_tetromino_rotated`) is rotation 0 of
the table entry, an action mask that is the legality table of that state and is not empty, zero score / reward /
step count / positions, no full line, `is_reset` set -/
def InstanceOK (cfg : Cfg) (s : State) : Prop :=
  s.gridPadded = Jx.Grid.mk (cfg.numRows + 3) (cfg.numCols + 3) 0 ∧ s.gridPaddedOld = s.gridPadded ∧
  s.tetrominoIndex < 7 ∧ s.newTetromino = pieceAt s.tetrominoIndex 0 ∧
  s.oldTetrominoRotated = s.newTetromino ∧
  s.actionMask = legalMask cfg s ∧ s.actionMask.any (fun r => r.any id) = true ∧
  s.xPosition = 0 ∧ s.yPosition = 0 ∧ s.fullLines = List.replicate (cfg.numRows + 3) false ∧
  s.score = 0 ∧ s.reward = 0 ∧ s.isReset = true ∧ s.stepCount = 0

instance (cfg : Cfg) (s : State) : Decidable (InstanceOK cfg s) := by unfold InstanceOK; infer_instance

/-! ### whole episodes: the L1 `step` folded over (action, draw) triples, stopping at the first LAST step -/

inductive Ending | running | last | illegal
  deriving DecidableEq, Repr

/-- outcome of a play: `final` = the state after the last LEGAL step (an illegal action ends the episode; the grid it
leaves behind is not specified by the rules), `ret` = sum of ALL rewards paid (the illegal step included), `lines` =
number of lines cleared by each placed piece, in order -/
structure Outcome where
  final : State
  ret : Rat
  lines : List Nat
  ending : Ending

/-- play (rotation, column, next-piece draw) triples with the L1 `step` until the first LAST time step -/
def play (cfg : Cfg) (s : State) : List (Nat × Nat × Nat) → Outcome
  | [] => ⟨s, 0, [], .running⟩
  | a :: as =>
    if (step cfg s (a.1 : Int) (a.2.1 : Int) a.2.2).2.stepType = .last then
      if legal cfg s a.1 a.2.1 then
        ⟨(step cfg s (a.1 : Int) (a.2.1 : Int) a.2.2).1, (step cfg s (a.1 : Int) (a.2.1 : Int) a.2.2).2.reward.sum,
          [(dropSpec cfg s.gridPadded s.tetrominoIndex a.1 a.2.1).2], .last⟩
      else ⟨s, (step cfg s (a.1 : Int) (a.2.1 : Int) a.2.2).2.reward.sum, [], .illegal⟩
    else
      ⟨(play cfg (step cfg s (a.1 : Int) (a.2.1 : Int) a.2.2).1 as).final,
       (step cfg s (a.1 : Int) (a.2.1 : Int) a.2.2).2.reward.sum +
         (play cfg (step cfg s (a.1 : Int) (a.2.1 : Int) a.2.2).1 as).ret,
       (dropSpec cfg s.gridPadded s.tetrominoIndex a.1 a.2.1).2 ::
         (play cfg (step cfg s (a.1 : Int) (a.2.1 : Int) a.2.2).1 as).lines,
       (play cfg (step cfg s (a.1 : Int) (a.2.1 : Int) a.2.2).1 as).ending⟩

/-- in-spec play: rotation < 4, column < numCols, drawn piece index < 7 -/
def InSpec (cfg : Cfg) (as : List (Nat × Nat × Nat)) : Prop :=
  ∀ a ∈ as, a.1 < 4 ∧ a.2.1 < cfg.numCols ∧ validDraw a.2.2

end Tetris
