/-
C01: small vocabulary for membership of a model observation in a declared `observation_spec`, shared by Knapsack, TSP
and CVRP (extends Env/PuzzleSpecValid.lean): a scalar of a `DiscreteArray`, a boolean vector, a matrix of unit-interval
rows — each with the shape READ OFF the value.
-/
import JumanjiModel.Env.PuzzleSpecValid
namespace PzS
open Sp

/-- a scalar integer is a member of `DiscreteArray(k, int32)` iff it lies in `[0, k − 1]` -/
theorem valid_discrete_iff (k : Nat) (nm : String) (p : Int) :
    (Leaf.discrete k .int32 nm).valid ⟨[], .int32, [(p : Rat)]⟩ = true ↔ 0 ≤ p ∧ p < k := by
  rw [Leaf.valid_iff]
  simp only [Leaf.shape, Leaf.dtype, Leaf.lower, Leaf.upper, prod_nil, List.length_cons, List.length_nil, true_and]
  constructor
  · rintro (⟨h, _⟩ | ⟨lo, hi, hlo, hhi, hall⟩)
    · cases h
    · simp only [Option.some.injEq] at hlo hhi
      subst hlo; subst hhi
      have := hall 0 (by simp) (by simp)
      simp only [List.zip_cons_cons, List.zip_nil_right, List.getElem_cons_zero] at this
      have h1 : (0 : Int) ≤ p := Rat.intCast_le_intCast.mp (by simpa using this.1)
      have h2 : p ≤ (k : Int) - 1 := Rat.intCast_le_intCast.mp this.2
      omega
  · rintro ⟨h1, h2⟩
    refine Or.inr ⟨_, _, rfl, rfl, ?_⟩
    intro j hj _
    have hj0 : j = 0 := by simp at hj; omega
    subst hj0
    simp only [List.zip_cons_cons, List.zip_nil_right, List.getElem_cons_zero]
    exact ⟨by simpa using (Rat.intCast_le_intCast (a := 0) (b := p)).mpr h1,
           Rat.intCast_le_intCast.mpr (by omega)⟩

/-- `DiscreteArray(k).generate_value()` is the scalar 0 and, for `k ≥ 1`, a member of the spec -/
theorem discrete_generate (k : Nat) (nm : String) (hk : 0 < k) :
    (Leaf.discrete k .int32 nm).generate = ⟨[], .int32, [0]⟩ ∧
    (Leaf.discrete k .int32 nm).valid (Leaf.discrete k .int32 nm).generate = true := by
  refine ⟨by simp [Leaf.generate, Leaf.lower, Leaf.shape, Leaf.dtype], ?_⟩
  apply Leaf.generate_valid0
  simp [Leaf.WF0, hk, DType.isInt]

/-- a boolean vector of length `n` is a member of `BoundedArray((n,), bool, False, True)` -/
theorem valid_bools (n : Nat) (nm : String) (l : List Bool) (h : l.length = n) :
    (Leaf.bounded [n] .bool nm [] [0] [] [1]).valid ⟨[l.length], .bool, ofBools l⟩ = true := by
  rw [h]
  exact valid_scalar_bounded _ _ _ _ _ _ (by simp [ofBools, prod_one, h]) (ofBools_bounds l)

/-- a vector of `n` numbers of the unit interval is a member of `BoundedArray((n,), float, 0, 1)` -/
theorem valid_unit_vec (n : Nat) (nm : String) (l : List Rat) (h : l.length = n) (hu : ∀ x ∈ l, 0 ≤ x ∧ x ≤ 1) :
    (Leaf.bounded [n] .float32 nm [] [0] [] [1]).valid ⟨[l.length], .float32, l⟩ = true := by
  rw [h]; exact valid_scalar_bounded _ _ _ _ _ _ (by simp [prod_one, h]) hu

/-- `m ≥ 1` rows of `k` numbers of the unit interval are a member of `BoundedArray((m, k), float, 0, 1)` -/
theorem valid_unit_rows (m k : Nat) (hm : 0 < m) (nm : String) (cs : List (List Rat)) (hl : cs.length = m)
    (hc : ∀ p ∈ cs, p.length = k ∧ ∀ x ∈ p, 0 ≤ x ∧ x ≤ 1) :
    (Leaf.bounded [m, k] .float32 nm [] [0] [] [1]).valid
      ⟨[cs.length, (cs.headD []).length], .float32, cs.flatten⟩ = true := by
  have hh : (cs.headD []).length = k := by
    match cs, hl with
    | p :: _, _ => simpa using (hc p (by simp)).1
    | [], hl => simp at hl; omega
  rw [hl, hh]
  refine valid_scalar_bounded _ _ _ _ _ _ ?_ ?_
  · rw [length_flatten_const cs k (fun r hr => (hc r hr).1), hl, prod_two]
  · intro x hx
    obtain ⟨p, hp, hxp⟩ := List.mem_flatten.mp hx
    exact (hc p hp).2 x hxp

end PzS
