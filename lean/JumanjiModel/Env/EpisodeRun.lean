/-
Generic play-out of a step function and the episode-level counting arguments of C11 (time limit / structural
horizon), proved once from single-step facts and instantiated by Maze, Snake and Sudoku
(Env/<Name>/RunLemmas.lean).  Core Lean only.

`run f s as` is the list of `(successor state, timestep)` pairs obtained by iterating `f` (an L1 `step` with its
parameters fixed) over the actions `as`; like the implementation it goes on past a LAST step.  "The transition
with index `k`" is `(run f s as)[k]`, i.e. the `(k+1)`-th step of the play.
-/
namespace EpRun
variable {S A T : Type}

/-- play the actions `as` from `s`: the list of (successor state, timestep) pairs -/
def run (f : S → A → S × T) : S → List A → List (S × T)
  | _, [] => []
  | s, a :: as => f s a :: run f (f s a).1 as

/-- the state after playing `as` from `s` -/
def after (f : S → A → S × T) : S → List A → S
  | s, [] => s
  | s, a :: as => after f (f s a).1 as

/-- no transition with index `< k` is LAST -/
def NoLastBefore (f : S → A → S × T) (last : T → Prop) (s : S) (as : List A) (k : Nat) : Prop :=
  ∀ j p, j < k → (run f s as)[j]? = some p → ¬ last p.2

theorem run_length (f : S → A → S × T) (s : S) (as : List A) : (run f s as).length = as.length := by
  induction as generalizing s with
  | nil => rfl
  | cons a as ih => simp [run, ih]

/-- transition `k` is the step taken from the state after the first `k` actions with action `as[k]` -/
theorem run_get (f : S → A → S × T) (s : S) (as : List A) (k : Nat) (hk : k < as.length) :
    (run f s as)[k]? = some (f (after f s (as.take k)) as[k]) := by
  induction as generalizing s k with
  | nil => simp at hk
  | cons a as ih =>
    cases k with
    | zero => simp [run, after]
    | succ k =>
      simp only [run, List.getElem?_cons_succ, List.take_succ_cons, after, List.getElem_cons_succ]
      exact ih _ k (by simpa using hk)

theorem run_get_lt (f : S → A → S × T) (s : S) (as : List A) (k : Nat) (p : S × T)
    (h : (run f s as)[k]? = some p) : k < as.length := by
  have := (List.getElem?_eq_some_iff.1 h).1
  rwa [run_length] at this

theorem run_get_eq (f : S → A → S × T) (s : S) (as : List A) (k : Nat) (p : S × T)
    (h : (run f s as)[k]? = some p) :
    ∃ hk : k < as.length, p = f (after f s (as.take k)) as[k] := by
  have hk := run_get_lt f s as k p h
  refine ⟨hk, ?_⟩
  rw [run_get f s as k hk] at h
  exact (Option.some.inj h).symm

theorem noLast_cons (f : S → A → S × T) (last : T → Prop) (s : S) (a : A) (as : List A) (k : Nat) :
    NoLastBefore f last s (a :: as) (k + 1) ↔ (¬ last (f s a).2 ∧ NoLastBefore f last (f s a).1 as k) := by
  constructor
  · intro h
    refine ⟨h 0 _ (by omega) (by simp [run]), ?_⟩
    intro j p hj hp
    exact h (j + 1) p (by omega) (by simpa [run] using hp)
  · rintro ⟨h0, h⟩ j p hj hp
    cases j with
    | zero =>
      simp only [run, List.getElem?_cons_zero, Option.some.injEq] at hp
      subst hp; exact h0
    | succ j => exact h j p (by omega) (by simpa [run] using hp)

/-- a counter that every step advances by one -/
theorem after_count (f : S → A → S × T) (cnt : S → Int) (hc : ∀ s a, cnt (f s a).1 = cnt s + 1)
    (s : S) (as : List A) : cnt (after f s as) = cnt s + as.length := by
  induction as generalizing s with
  | nil => simp [after]
  | cons a as ih =>
    simp only [after, List.length_cons]
    rw [ih, hc]; push_cast; omega

/-- an invariant kept by every step is kept by every play -/
theorem after_inv (f : S → A → S × T) (P : S → Prop) (hP : ∀ s a, P s → P (f s a).1) (s : S) (as : List A)
    (h : P s) : P (after f s as) := by
  induction as generalizing s with
  | nil => exact h
  | cons a as ih => exact ih _ (hP s a h)

/-- an invariant kept by every admissible non-LAST step holds in the state from which transition `k` is taken,
provided no earlier transition is LAST -/
theorem after_inv_mid (f : S → A → S × T) (last : T → Prop) (P : S → Prop) (ok : S → A → Prop)
    (hP : ∀ s a, P s → ok s a → ¬ last (f s a).2 → P (f s a).1) (s : S) (as : List A) (k : Nat)
    (hk : k ≤ as.length) (hs : P s)
    (hok : ∀ j (hj : j < as.length), j < k → ok (after f s (as.take j)) as[j])
    (hno : NoLastBefore f last s as k) : P (after f s (as.take k)) := by
  induction as generalizing s k with
  | nil => simpa [after] using hs
  | cons a as ih =>
    cases k with
    | zero => simpa [after] using hs
    | succ k =>
      obtain ⟨h0, hrest⟩ := (noLast_cons f last s a as k).1 hno
      have hoka : ok s a := hok 0 (by simp) (by omega)
      simp only [List.take_succ_cons, after]
      refine ih _ k (by simpa using hk) (hP s a hs hoka h0) ?_ hrest
      intro j hj hjk
      exact hok (j + 1) (by simpa using hj) (by omega)

/-! ### time limit: the counter `cnt`, the limit `L` -/

/-- never later: a transition whose step number reaches the limit is LAST -/
theorem run_last_at_limit (f : S → A → S × T) (cnt : S → Int) (last : T → Prop) (L : Int)
    (hc : ∀ s a, cnt (f s a).1 = cnt s + 1) (hl : ∀ s a, cnt s + 1 ≥ L → last (f s a).2)
    (s : S) (as : List A) (k : Nat) (p : S × T) (h : (run f s as)[k]? = some p)
    (hk : cnt s + k + 1 ≥ L) : last p.2 := by
  obtain ⟨hlt, rfl⟩ := run_get_eq f s as k p h
  apply hl
  rw [after_count f cnt hc, List.length_take, Nat.min_eq_left (by omega)]
  exact hk

/-- so a play of at least `L - cnt s` steps contains a LAST at or before the step at which the counter reaches `L` -/
theorem run_exists_last (f : S → A → S × T) (cnt : S → Int) (last : T → Prop) (L : Int)
    (hc : ∀ s a, cnt (f s a).1 = cnt s + 1) (hl : ∀ s a, cnt s + 1 ≥ L → last (f s a).2)
    (s : S) (as : List A) (h0 : cnt s < L) (hlen : L - cnt s ≤ as.length) :
    ∃ (k : Nat) (p : S × T), cnt s + k + 1 ≤ L ∧ (run f s as)[k]? = some p ∧ last p.2 := by
  have hk : (L - cnt s - 1).toNat < as.length := by omega
  refine ⟨(L - cnt s - 1).toNat, _, by omega, run_get f s as _ hk, ?_⟩
  exact run_last_at_limit f cnt last L hc hl s as _ _ (run_get f s as _ hk) (by omega)

/-- never earlier: up to and including the first LAST, a transition is LAST iff another cause (`other`) holds or
its step number reaches the limit; `P` is an invariant of the running episode, `ok` the admissible actions -/
theorem run_last_iff (f : S → A → S × T) (cnt : S → Int) (last : T → Prop) (L : Int)
    (P : S → Prop) (ok other : S → A → Prop)
    (hc : ∀ s a, cnt (f s a).1 = cnt s + 1)
    (hP : ∀ s a, P s → ok s a → ¬ last (f s a).2 → P (f s a).1)
    (hiff : ∀ s a, P s → ok s a → (last (f s a).2 ↔ (other s a ∨ cnt s + 1 ≥ L)))
    (s : S) (as : List A) (k : Nat) (p : S × T) (hs : P s)
    (hok : ∀ j (hj : j < as.length), j ≤ k → ok (after f s (as.take j)) as[j])
    (hno : NoLastBefore f last s as k) (h : (run f s as)[k]? = some p) :
    ∃ hk : k < as.length, P (after f s (as.take k)) ∧
      (last p.2 ↔ (other (after f s (as.take k)) as[k] ∨ cnt s + k + 1 ≥ L)) := by
  obtain ⟨hlt, rfl⟩ := run_get_eq f s as k p h
  have hPk := after_inv_mid f last P ok hP s as k (by omega) hs (fun j hj hjk => hok j hj (by omega)) hno
  refine ⟨hlt, hPk, ?_⟩
  rw [hiff _ _ hPk (hok k hlt (by omega)), after_count f cnt hc, List.length_take, Nat.min_eq_left (by omega)]

/-- … hence, if no other cause of termination occurs, the first LAST is exactly the step at which the counter
reaches the limit -/
theorem run_first_last_eq (f : S → A → S × T) (cnt : S → Int) (last : T → Prop) (L : Int)
    (P : S → Prop) (ok other : S → A → Prop)
    (hc : ∀ s a, cnt (f s a).1 = cnt s + 1)
    (hP : ∀ s a, P s → ok s a → ¬ last (f s a).2 → P (f s a).1)
    (hiff : ∀ s a, P s → ok s a → (last (f s a).2 ↔ (other s a ∨ cnt s + 1 ≥ L)))
    (s : S) (as : List A) (k : Nat) (p : S × T) (hs : P s) (h0 : cnt s < L)
    (hok : ∀ j (hj : j < as.length), j ≤ k → ok (after f s (as.take j)) as[j])
    (hno : NoLastBefore f last s as k) (h : (run f s as)[k]? = some p) (hlast : last p.2)
    (hother : ∀ hk : k < as.length, ¬ other (after f s (as.take k)) as[k]) :
    cnt s + k + 1 = L := by
  obtain ⟨hlt, _, hi⟩ := run_last_iff f cnt last L P ok other hc hP hiff s as k p hs hok hno h
  have hge : cnt s + k + 1 ≥ L := by
    rcases hi.1 hlast with ho | hg
    · exact absurd ho (hother hlt)
    · exact hg
  cases k with
  | zero => omega
  | succ k =>
    -- transition `k` is not LAST, so its step number is below the limit
    have hk' : k < as.length := by omega
    have hprev := hno k _ (by omega) (run_get f s as k hk')
    obtain ⟨_, _, hi'⟩ := run_last_iff f cnt last L P ok other hc hP hiff s as k _ hs
      (fun j hj hjk => hok j hj (by omega)) (fun j q hj hq => hno j q (by omega) hq) (run_get f s as k hk')
    have : ¬ (cnt s + k + 1 ≥ L) := fun hg => hprev (hi'.2 (Or.inr hg))
    push_cast
    omega

/-! ### structural horizon: a measure `μ` that every admissible non-LAST step decreases by one -/

/-- if no transition before index `k` is LAST, the measure has dropped by exactly `k` -/
theorem run_measure (f : S → A → S × T) (last : T → Prop) (μ : S → Nat) (P : S → Prop) (ok : S → A → Prop)
    (hP : ∀ s a, P s → ok s a → ¬ last (f s a).2 → P (f s a).1)
    (hμ : ∀ s a, P s → ok s a → ¬ last (f s a).2 → μ (f s a).1 + 1 = μ s)
    (s : S) (as : List A) (k : Nat) (hk : k ≤ as.length) (hs : P s)
    (hok : ∀ j (hj : j < as.length), j < k → ok (after f s (as.take j)) as[j])
    (hno : NoLastBefore f last s as k) :
    P (after f s (as.take k)) ∧ μ (after f s (as.take k)) + k = μ s := by
  induction as generalizing s k with
  | nil =>
    have : k = 0 := by simpa using hk
    subst this; simpa [after] using hs
  | cons a as ih =>
    cases k with
    | zero => simpa [after] using hs
    | succ k =>
      obtain ⟨h0, hrest⟩ := (noLast_cons f last s a as k).1 hno
      have hoka : ok s a := hok 0 (by simp) (by omega)
      simp only [List.take_succ_cons, after]
      have := ih (f s a).1 k (by simpa using hk) (hP s a hs hoka h0)
        (fun j hj hjk => hok (j + 1) (by simpa using hj) (by omega)) hrest
      refine ⟨this.1, ?_⟩
      have h1 := hμ s a hs hoka h0
      omega

/-- the horizon: the first LAST has index at most `μ s`, i.e. an episode has at most `μ s + 1` steps; when a
non-LAST step always leaves a positive measure, at most `max 1 (μ s)` steps -/
theorem run_horizon (f : S → A → S × T) (last : T → Prop) (μ : S → Nat) (P : S → Prop) (ok : S → A → Prop)
    (hP : ∀ s a, P s → ok s a → ¬ last (f s a).2 → P (f s a).1)
    (hμ : ∀ s a, P s → ok s a → ¬ last (f s a).2 → μ (f s a).1 + 1 = μ s)
    (s : S) (as : List A) (k : Nat) (hk : k ≤ as.length) (hs : P s)
    (hok : ∀ j (hj : j < as.length), j < k → ok (after f s (as.take j)) as[j])
    (hno : NoLastBefore f last s as k) :
    k ≤ μ s ∧
    ((∀ s a, P s → ok s a → ¬ last (f s a).2 → 1 ≤ μ (f s a).1) → 1 ≤ k → k + 1 ≤ μ s) := by
  have h := run_measure f last μ P ok hP hμ s as k hk hs hok hno
  refine ⟨by omega, fun hpos hk1 => ?_⟩
  -- the state after `k ≥ 1` non-LAST steps was produced by a non-LAST step: its measure is positive
  obtain ⟨k', rfl⟩ : ∃ k', k = k' + 1 := ⟨k - 1, by omega⟩
  have hk' : k' < as.length := by omega
  have hm := run_measure f last μ P ok hP hμ s as k' (by omega) hs (fun j hj hjk => hok j hj (by omega))
    (fun j q hj hq => hno j q (by omega) hq)
  have hmid : ¬ last (f (after f s (as.take k')) as[k']).2 := hno k' _ (by omega) (run_get f s as k' hk')
  have hokk := hok k' hk' (by omega)
  have h1 := hpos _ _ hm.1 hokk hmid
  have h2 := hμ _ _ hm.1 hokk hmid
  omega

/-- so a play of at least `μ s + 1` steps contains a LAST among its first `μ s + 1` transitions -/
theorem run_exists_last_measure (f : S → A → S × T) (last : T → Prop) (μ : S → Nat) (P : S → Prop)
    (ok : S → A → Prop)
    (hP : ∀ s a, P s → ok s a → ¬ last (f s a).2 → P (f s a).1)
    (hμ : ∀ s a, P s → ok s a → ¬ last (f s a).2 → μ (f s a).1 + 1 = μ s)
    (s : S) (as : List A) (hs : P s) (hlen : μ s + 1 ≤ as.length)
    (hok : ∀ j (hj : j < as.length), ok (after f s (as.take j)) as[j]) :
    ∃ k p, k ≤ μ s ∧ (run f s as)[k]? = some p ∧ last p.2 := by
  apply Classical.byContradiction
  intro hne
  have hno : NoLastBefore f last s as (μ s + 1) := by
    intro j p hj hp hl
    exact hne ⟨j, p, by omega, hp, hl⟩
  have := (run_horizon f last μ P ok hP hμ s as (μ s + 1) hlen hs (fun j hj _ => hok j hj) hno).1
  omega

end EpRun
