/-
C01 (spec membership) — vocabulary shared by JobShop, FlatPack and Tetris on top of Env/PuzzleSpecValid.lean:
the shape of a nested-list array READ OFF THE VALUE (`shape2/3/4`: outer length, length of the first row, …), rectangular
nested lists (`Rect2/3/4`), natural-number and boolean leaves as rationals, and the `DiscreteArray` leaf.
-/
import JumanjiModel.Env.PuzzleSpecValid
import JumanjiModel.Prim.Grid
import JumanjiModel.Core.Episode
import JumanjiModel.Core.ProtocolLemmas
namespace PkS
open Sp PzS

/-! ### shapes read off the value -/

def shape1 {α : Type} (l : List α) : List Nat := [l.length]
def shape2 {α : Type} (g : List (List α)) : List Nat := [g.length, (g.headD []).length]
def shape3 {α : Type} (g : List (List (List α))) : List Nat := g.length :: shape2 (g.headD [])
def shape4 {α : Type} (g : List (List (List (List α)))) : List Nat := g.length :: shape3 (g.headD [])

def Rect2 {α : Type} (g : List (List α)) (r c : Nat) : Prop := g.length = r ∧ ∀ row ∈ g, row.length = c
def Rect3 {α : Type} (g : List (List (List α))) (a r c : Nat) : Prop := g.length = a ∧ ∀ x ∈ g, Rect2 x r c
def Rect4 {α : Type} (g : List (List (List (List α)))) (a b r c : Nat) : Prop := g.length = a ∧ ∀ x ∈ g, Rect3 x b r c

theorem rect2_of_shaped {α : Type} {g : List (List α)} {r c : Nat} (h : Jx.Grid.shaped g r c = true) : Rect2 g r c := by
  simp only [Jx.Grid.shaped, Bool.and_eq_true, beq_iff_eq, List.all_eq_true] at h
  exact ⟨h.1, fun row hr => by simpa using h.2 row hr⟩

theorem shaped_of_rect2 {α : Type} {g : List (List α)} {r c : Nat} (h : Rect2 g r c) : Jx.Grid.shaped g r c = true := by
  simp only [Jx.Grid.shaped, Bool.and_eq_true, beq_iff_eq, List.all_eq_true]
  exact ⟨h.1, fun row hr => by simpa using h.2 row hr⟩

theorem shape2_of_rect {α : Type} {g : List (List α)} {r c : Nat} (h : Rect2 g r c) (hr : 0 < r) :
    shape2 g = [r, c] ∧ g.flatten.length = r * c := by
  obtain ⟨h1, h2⟩ := h
  refine ⟨?_, by rw [length_flatten_const g c h2, h1]⟩
  match g, h1, h2 with
  | [], h1, _ => simp at h1; omega
  | row :: rest, h1, h2 =>
    simp only [shape2, List.headD_cons]
    rw [h1, h2 row (by simp)]

theorem shape3_of_rect {α : Type} {g : List (List (List α))} {a r c : Nat} (h : Rect3 g a r c) (ha : 0 < a)
    (hr : 0 < r) : shape3 g = [a, r, c] ∧ g.flatten.flatten.length = a * r * c := by
  obtain ⟨h1, h2⟩ := h
  have hrows : ∀ row ∈ g.flatten, row.length = c := by
    intro row hrow
    obtain ⟨x, hx, hr'⟩ := List.mem_flatten.mp hrow
    exact (h2 x hx).2 row hr'
  have hfl : g.flatten.length = a * r := by
    rw [length_flatten_const g r (fun x hx => (h2 x hx).1), h1]
  refine ⟨?_, by rw [length_flatten_const _ c hrows, hfl]⟩
  match g, h1, h2 with
  | [], h1, _ => simp at h1; omega
  | x :: rest, h1, h2 =>
    simp only [shape3, List.headD_cons]
    rw [h1, (shape2_of_rect (h2 x (by simp)) hr).1]

theorem shape4_of_rect {α : Type} {g : List (List (List (List α)))} {a b r c : Nat} (h : Rect4 g a b r c) (ha : 0 < a)
    (hb : 0 < b) (hr : 0 < r) : shape4 g = [a, b, r, c] ∧ g.flatten.flatten.flatten.length = a * b * r * c := by
  obtain ⟨h1, h2⟩ := h
  have h3 : Rect3 g.flatten (a * b) r c := by
    refine ⟨by rw [length_flatten_const g b (fun x hx => (h2 x hx).1), h1], ?_⟩
    intro y hy
    obtain ⟨x, hx, hy'⟩ := List.mem_flatten.mp hy
    exact (h2 x hx).2 y hy'
  refine ⟨?_, (shape3_of_rect h3 (Nat.mul_pos ha hb) hr).2⟩
  match g, h1, h2 with
  | [], h1, _ => simp at h1; omega
  | x :: rest, h1, h2 =>
    simp only [shape4, List.headD_cons]
    rw [h1, (shape3_of_rect (h2 x (by simp)) hb hr).1]

theorem prod_four (a b c d : Nat) : prod [a, b, c, d] = a * b * c * d := by simp [prod]

/-! ### leaves of natural numbers -/

def ofNats (l : List Nat) : List Rat := l.map (fun (v : Nat) => (v : Rat))

theorem ofNats_length (l : List Nat) : (ofNats l).length = l.length := by simp [ofNats]
theorem ofBools_length (l : List Bool) : (ofBools l).length = l.length := by simp [ofBools]
theorem ofInts_length (l : List Int) : (ofInts l).length = l.length := by simp [ofInts]

theorem ofNats_bounds (l : List Nat) (hi : Nat) (h : ∀ v ∈ l, v ≤ hi) :
    ∀ x ∈ ofNats l, (0 : Rat) ≤ x ∧ x ≤ (hi : Rat) := by
  intro x hx
  simp only [ofNats, List.mem_map] at hx
  obtain ⟨v, hv, rfl⟩ := hx
  have := h v hv
  refine ⟨?_, ?_⟩
  · have : ((0 : Nat) : Rat) ≤ (v : Rat) := by exact_mod_cast Nat.zero_le v
    simpa using this
  · exact_mod_cast this

theorem ofNats_bounds_conv (l : List Nat) (hi : Nat) (h : ∀ x ∈ ofNats l, (0 : Rat) ≤ x ∧ x ≤ (hi : Rat)) :
    ∀ v ∈ l, v ≤ hi := by
  intro v hv
  have := (h (v : Rat) (by simp only [ofNats, List.mem_map]; exact ⟨v, hv, rfl⟩)).2
  exact_mod_cast this

theorem ofInts_bounds_conv (l : List Int) (lo hi : Int) (h : ∀ x ∈ ofInts l, (lo : Rat) ≤ x ∧ x ≤ (hi : Rat)) :
    ∀ v ∈ l, lo ≤ v ∧ v ≤ hi := by
  intro v hv
  have := h (v : Rat) (by simp only [ofInts, List.mem_map]; exact ⟨v, hv, rfl⟩)
  exact ⟨Rat.intCast_le_intCast.mp this.1, Rat.intCast_le_intCast.mp this.2⟩

/-! ### the `DiscreteArray` leaf (scalar, values `0 … n − 1`) -/

theorem valid_discrete_iff (n : Nat) (d : DType) (nm : String) (v : Arr) :
    (Leaf.discrete n d nm).valid v = true ↔
      v.shape = [] ∧ v.dtype = d ∧ ∃ x, v.data = [x] ∧ (0 : Rat) ≤ x ∧ x ≤ (((n : Int) - 1 : Int) : Rat) := by
  obtain ⟨sh, dt, data⟩ := v
  rw [Leaf.valid_iff]
  simp only [Leaf.shape, Leaf.dtype, Leaf.lower, Leaf.upper, prod, List.foldl_nil, reduceCtorEq, false_and, false_or,
    Option.some.injEq]
  constructor
  · rintro ⟨h1, h2, h3, lo, hi, rfl, rfl, h4⟩
    match data, h3, h4 with
    | [x], _, h4 =>
      have := h4 0 (by simp) (by simp)
      exact ⟨h1, h2, x, rfl, by simpa using this.1, by simpa using this.2⟩
  · rintro ⟨h1, h2, x, rfl, h3, h4⟩
    refine ⟨h1, h2, rfl, _, _, rfl, rfl, ?_⟩
    intro k hk1 hk2
    have : k = 0 := by simp at hk1; omega
    subst this
    exact ⟨by simpa using h3, by simpa using h4⟩

theorem valid_discrete_nat (n : Nat) (d : DType) (nm : String) (x : Nat) (h : x < n) :
    (Leaf.discrete n d nm).valid ⟨[], d, [(x : Rat)]⟩ = true := by
  rw [valid_discrete_iff]
  refine ⟨rfl, rfl, (x : Rat), rfl, ?_, ?_⟩
  · have : ((0 : Nat) : Rat) ≤ (x : Rat) := by exact_mod_cast Nat.zero_le x
    simpa using this
  · have : (x : Int) ≤ (n : Int) - 1 := by omega
    exact_mod_cast this

theorem valid_discrete_nat_only (n : Nat) (d d' : DType) (nm : String) (x : Nat)
    (h : (Leaf.discrete n d nm).valid ⟨[], d', [(x : Rat)]⟩ = true) : x < n := by
  rw [valid_discrete_iff] at h
  obtain ⟨_, _, y, hy, _, h2⟩ := h
  simp only [List.cons.injEq, and_true] at hy
  subst hy
  have : (x : Int) ≤ (n : Int) - 1 := by exact_mod_cast h2
  omega

/-- a 2-D leaf with scalar bounds accepts a rectangular nested list whose elements are within the bounds -/
theorem valid_bounded2 (r c : Nat) (d : DType) (n : String) (lo hi : Rat) {α : Type} (g : List (List α))
    (f : List α → List Rat) (hf : ∀ l, (f l).length = l.length) (hg : Rect2 g r c) (hr : 0 < r)
    (h : ∀ x ∈ f g.flatten, lo ≤ x ∧ x ≤ hi) :
    (Leaf.bounded [r, c] d n [] [lo] [] [hi]).valid ⟨shape2 g, d, f g.flatten⟩ = true := by
  obtain ⟨hs, hl⟩ := shape2_of_rect hg hr
  rw [hs]
  exact valid_scalar_bounded _ _ _ _ _ _ (by rw [hf, hl, prod_two]) h

theorem valid_bounded3 (a r c : Nat) (d : DType) (n : String) (lo hi : Rat) {α : Type} (g : List (List (List α)))
    (f : List α → List Rat) (hf : ∀ l, (f l).length = l.length) (hg : Rect3 g a r c) (ha : 0 < a) (hr : 0 < r)
    (h : ∀ x ∈ f g.flatten.flatten, lo ≤ x ∧ x ≤ hi) :
    (Leaf.bounded [a, r, c] d n [] [lo] [] [hi]).valid ⟨shape3 g, d, f g.flatten.flatten⟩ = true := by
  obtain ⟨hs, hl⟩ := shape3_of_rect hg ha hr
  rw [hs]
  exact valid_scalar_bounded _ _ _ _ _ _ (by rw [hf, hl, prod_three]) h

theorem valid_bounded4 (a b r c : Nat) (d : DType) (n : String) (lo hi : Rat) {α : Type}
    (g : List (List (List (List α))))
    (f : List α → List Rat) (hf : ∀ l, (f l).length = l.length) (hg : Rect4 g a b r c) (ha : 0 < a) (hb : 0 < b)
    (hr : 0 < r) (h : ∀ x ∈ f g.flatten.flatten.flatten, lo ≤ x ∧ x ≤ hi) :
    (Leaf.bounded [a, b, r, c] d n [] [lo] [] [hi]).valid ⟨shape4 g, d, f g.flatten.flatten.flatten⟩ = true := by
  obtain ⟨hs, hl⟩ := shape4_of_rect hg ha hb hr
  rw [hs]
  exact valid_scalar_bounded _ _ _ _ _ _ (by rw [hf, hl, prod_four]) h

theorem valid_bounded1 (m : Nat) (d : DType) (n : String) (lo hi : Rat) {α : Type} (l : List α)
    (f : List α → List Rat) (hf : ∀ l, (f l).length = l.length) (hl : l.length = m)
    (h : ∀ x ∈ f l, lo ≤ x ∧ x ≤ hi) :
    (Leaf.bounded [m] d n [] [lo] [] [hi]).valid ⟨shape1 l, d, f l⟩ = true := by
  rw [shape1, hl]
  exact valid_scalar_bounded _ _ _ _ _ _ (by rw [hf, hl, prod_one]) h

/-! ### invariants along a rollout (Core/Episode.lean `rollout` = the L1 step iterated, no stop at LAST) -/

/-- every entry of a rollout from a state satisfying an (index-carrying) invariant is `step` applied to a state satisfying
the invariant: entry `j` is produced from a state with `Inv (n + j)` -/
theorem rollout_inv_idx {S A O : Type} (stp : S → A → S × Jm.TimeStep O) (Inv : Nat → S → Prop) (okA : A → Prop)
    (hstep : ∀ n s a, Inv n s → okA a → Inv (n + 1) (stp s a).1) (n : Nat) (s : S) (hs : Inv n s) (as : List A)
    (has : ∀ a ∈ as, okA a) (j : Nat) (e : S × Jm.TimeStep O) (he : (Ep.rollout stp s as)[j]? = some e) :
    ∃ s' a, Inv (n + j) s' ∧ okA a ∧ e = stp s' a := by
  induction as generalizing s n j with
  | nil => simp [Ep.rollout] at he
  | cons a as ih =>
    cases j with
    | zero =>
      simp only [Ep.rollout, List.getElem?_cons_zero, Option.some.injEq] at he
      exact ⟨s, a, hs, has a (by simp), he.symm⟩
    | succ j =>
      simp only [Ep.rollout, List.getElem?_cons_succ] at he
      obtain ⟨s', a', h1, h2, h3⟩ := ih (n + 1) (stp s a).1 (hstep n s a hs (has a (by simp)))
        (fun b hb => has b (by simp [hb])) j he
      exact ⟨s', a', by rw [show n + (j + 1) = n + 1 + j by omega]; exact h1, h2, h3⟩

/-! ### the protocol of a scalar `lax.cond(done, termination, transition)` (same statement as Props.C03.condLast_protocol,
repeated here so that environment files need not import Props/ProtocolInstances.lean) -/
open Jm Proto in
theorem condLast_stepOK {O : Type} (done : Bool) (x : Rat) (o : O) : StepOK none false (condLast done [x] o) = true := by
  have := cond_ok (O := O) ⟨.termination, false, false⟩ ⟨.transition, false, false⟩ none (by decide) false (by decide)
    rfl rfl rfl rfl rfl done [x] o [] rfl (fun h => by cases h)
  cases done <;> simpa [evalBranch, condLast] using this

end PkS
