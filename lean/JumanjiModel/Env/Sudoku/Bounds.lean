/-
Sudoku — C01: proved value bounds of the observation leaves.

Real spec: `board` BoundedArray(int32, -1, 9) (the declared maximum is BOARD_WIDTH = 9; digits are 0..8, so the
model proves the tighter [-1, 8]), `action_mask` bool.
-/
import JumanjiModel.Env.Sudoku.Model
import JumanjiModel.Env.PuzzleBounds
namespace Sudoku
open Jm Jx PzB

/-- interval of every observation leaf (the environment has no size parameter) -/
def obsBounds : Table := [("board", iv (-1) 8), ("action_mask", iv 0 1)]

/-- the numeric leaves of an observation, flattened -/
def obsLeaves (o : Obs) : Leaves := [("board", ints2 o.board), ("action_mask", bools3 o.mask)]

/-- `reset`: the generator's board with `get_action_mask(board)` (both generators build the state this way) -/
def reset (b : Grid Int) : State × TimeStep Obs :=
  ({ board := b, mask := maskOf b }, restart { board := b, mask := maskOf b })

/-- every cell is empty (−1) or a digit 0..8, stated cell-wise on the raw array (any shape) -/
def CellsInRange (b : Grid Int) : Prop := GridAll (fun v => -1 ≤ v ∧ v ≤ 8) b

instance (b : Grid Int) : Decidable (CellsInRange b) := by unfold CellsInRange GridAll; infer_instance

/-- the range part of `Feasible` gives `CellsInRange` -/
theorem cellsInRange_of_feasible (b : Grid Int) (h : Feasible b) : CellsInRange b := by
  obtain ⟨hs, hr, _⟩ := h
  intro row hrow v hv
  simp only [Grid.shaped, Bool.and_eq_true, beq_iff_eq, List.all_eq_true] at hs
  obtain ⟨r, hr1, hr2⟩ := List.getElem_of_mem hrow
  obtain ⟨c, hc1, hc2⟩ := List.getElem_of_mem hv
  have hlen := hs.2 row hrow
  have := hr r (by omega) c (by omega)
  have hcell : cell b r c = v := by
    simp [cell, Grid.get, List.getD_eq_getElem?_getD, List.getElem?_eq_getElem hr1, hr2,
      List.getElem?_eq_getElem hc1, hc2]
  rw [hcell] at this
  exact this

theorem obs_in_bounds (o : Obs) (h : CellsInRange o.board) : ObsInBounds obsBounds (obsLeaves o) := by
  refine ⟨by simp [obsBounds, obsLeaves], ?_⟩
  intro k b hk vs hvs
  simp only [obsBounds, obsLeaves, List.mem_cons, Prod.mk.injEq, List.not_mem_nil, or_false] at hk hvs
  rcases hk with ⟨rfl, rfl⟩ | ⟨rfl, rfl⟩ <;> rcases hvs with ⟨h', rfl⟩ | ⟨h', rfl⟩ <;>
    first
      | exact absurd h' (by decide)
      | exact allIn_ints2 _ _ _ h
      | exact allIn_bools3 _

/-- `CellsInRange` is an invariant: writing any digit of the action space (0..8) anywhere keeps it -/
theorem step_cellsInRange (s : State) (r c d : Int) (h : CellsInRange s.board) (hd : -1 ≤ d ∧ d ≤ 8) :
    CellsInRange (step s r c d).1.board := by
  show CellsInRange (Grid.setWD s.board r c d)
  exact gridAll_gridSetWD r c h hd

theorem step_obs_board (s : State) (r c d : Int) : (step s r c d).2.obs.board = (step s r c d).1.board := by
  simp [step]

theorem step_obs_in_bounds (s : State) (r c d : Int) (h : CellsInRange s.board) (hd : -1 ≤ d ∧ d ≤ 8) :
    ObsInBounds obsBounds (obsLeaves (step s r c d).2.obs) := by
  apply obs_in_bounds
  rw [step_obs_board]
  exact step_cellsInRange s r c d h hd

theorem reset_obs_in_bounds (b : Grid Int) (h : CellsInRange b) :
    ObsInBounds obsBounds (obsLeaves (reset b).2.obs) := obs_in_bounds _ h

end Sudoku
