/-
Sudoku: the play-out `run` of the L1 `step` over in-spec actions (cell row, cell column, digit; each 0..8, the
`MultiDiscreteArray([9, 9, 9])` action spec), and the shapes of the observation leaves (C01).  Import-free
(core + this environment's model files).
-/
import JumanjiModel.Env.Sudoku.Model
import JumanjiModel.Env.Sudoku.Bounds
import JumanjiModel.Env.EpisodeRun
namespace Sudoku
open Jm Jx

/-- an action `[row, column, digit]` -/
abbrev Action := Nat × Nat × Nat

/-- the action is a member of the action spec -/
def InSpec (a : Action) : Prop := a.1 < 9 ∧ a.2.1 < 9 ∧ a.2.2 < 9
instance (a : Action) : Decidable (InSpec a) := by unfold InSpec; infer_instance

/-- the L1 `step` on an action triple -/
def stepA (s : State) (a : Action) : State × TimeStep Obs := step s (a.1 : Int) (a.2.1 : Int) (a.2.2 : Int)

/-- the play-out: (successor state, timestep) for every action of `as`, in order (goes on past a LAST step) -/
def run : State → List Action → List (State × TimeStep Obs) := EpRun.run stepA

/-- C01: shapes of the observation leaves -/
def obsShapes : List (String × List Nat) := [("board", [9, 9]), ("action_mask", [9, 9, 9])]

/-- the observation has the shapes `obsShapes` lists -/
def ObsShaped (o : Obs) : Prop :=
  Grid.shaped o.board 9 9 = true ∧ o.mask.length = 9 ∧ ∀ m ∈ o.mask, Grid.shaped m 9 9 = true

end Sudoku
