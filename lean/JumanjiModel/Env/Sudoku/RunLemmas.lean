/-
Sudoku: proofs for the statement audit r2 (entries 1, 6, 11, 15 and the Sudoku gaps): completion through `step` (C06),
`step` versus legality (C04), the structural horizon of whole plays (C11), the reset observation (C12), shapes (C01).
-/
import JumanjiModel.Env.Sudoku.Run
import JumanjiModel.Env.Sudoku.Lemmas
import JumanjiModel.Env.Snake.GridLemmas
namespace Sudoku
open Jm Jx

/-- LAST iff the cached mask rejects the action or the new mask is empty (no hypotheses) -/
theorem step_last_key (s : State) (r c d : Int) :
    (step s r c d).2.stepType = .last ↔
      ((!(maskAt s.mask r c d)) || !(anyMask (step s r c d).1.mask)) = true := by
  unfold step condLast termination transition
  simp only []
  split <;> simp_all

theorem legal_empty (b : Grid Int) (hs : Grid.shaped b 9 9 = true) (r c d : Nat) (hl : legal b r c d) :
    1 ≤ emptyCells b := by
  have := emptyCells_place b hs r c d hl
  omega

theorem full_no_legal (b : Grid Int) (hfull : Full b) : ¬ ∃ r c d, legal b r c d := by
  rintro ⟨r, c, d, hr, hc, _, he, _⟩
  exact hfull r hr c hc he

/-- C06 through `step`: a legal move from a feasible board that fills the last empty cell yields a complete
feasible solution, is rewarded 1 and ends the episode -/
theorem complete_is_solution (s : State) (hf : Feasible s.board) (r c d : Nat) (hl : legal s.board r c d)
    (hfull : Full (step s r c d).1.board) :
    IsSolution (step s r c d).1.board ∧ (step s r c d).2.reward = [1] ∧ (step s r c d).2.stepType = .last := by
  have hst := step_state s hf.1 r c d hl.1 hl.2.1
  have hfe : Feasible (step s r c d).1.board := by rw [hst]; exact step_feasible s.board hf r c d hl
  have hsol : IsSolution (step s r c d).1.board := ⟨hfe, hfull⟩
  refine ⟨hsol, ?_, ?_⟩
  · rw [step_reward, isSolved_of_solution _ hsol]; rfl
  · rw [step_last_key]
    have hno : anyMask (step s r c d).1.mask = false := by
      cases h : anyMask (step s r c d).1.mask
      · rfl
      · rw [hst] at h
        have := (anyMask_legalTable _).1 h
        rw [hst] at hfull
        exact absurd this (full_no_legal _ hfull)
    simp [hno]

/-- C04 about `step`: an illegal in-spec action ends the episode; a legal one ends it iff the new board has no
legal move left -/
theorem step_agrees_step (s : State) (hs : Grid.shaped s.board 9 9 = true) (hcache : CachedOK s) (r c d : Nat)
    (hr : r < 9) (hc : c < 9) (hd : d < 9) :
    (¬ legal s.board r c d → (step s r c d).2.stepType = .last) ∧
    (legal s.board r c d →
      ((step s r c d).2.stepType = .last ↔ ¬ ∃ r' c' d', legal (step s r c d).1.board r' c' d')) := by
  have h := step_last_iff s hs hcache r c d hr hc hd
  have hb : (step s r c d).1.board = place s.board r c d := by rw [step_state s hs r c d hr hc]
  refine ⟨fun hl => h.2 (Or.inl hl), fun hl => ?_⟩
  rw [h, hb]
  exact ⟨fun h' => h'.resolve_left (fun hn => hn hl), Or.inr⟩

/-! ### whole plays (C11) -/

/-- invariant of a running episode -/
def RunInv (s : State) : Prop := Grid.shaped s.board 9 9 = true ∧ CachedOK s

theorem stepA_inv (s : State) (a : Action) (h : RunInv s) (ha : InSpec a) : RunInv (stepA s a).1 := by
  obtain ⟨hs, _⟩ := h
  obtain ⟨hr, hc, _⟩ := ha
  refine ⟨?_, step_cached s hs _ _ _ hr hc⟩
  show Grid.shaped (step s _ _ _).1.board 9 9 = true
  rw [step_state s hs _ _ _ hr hc]
  exact shaped_place s.board hs _ _ _

theorem stepA_progress (s : State) (a : Action) (h : RunInv s) (ha : InSpec a)
    (hn : ¬ (stepA s a).2.stepType = .last) : emptyCells (stepA s a).1.board + 1 = emptyCells s.board :=
  progress s h.1 h.2 _ _ _ ha.1 ha.2.1 ha.2.2 hn

theorem stepA_pos (s : State) (a : Action) (h : RunInv s) (ha : InSpec a)
    (hn : ¬ (stepA s a).2.stepType = .last) : 1 ≤ emptyCells (stepA s a).1.board := by
  have hl : legal s.board a.1 a.2.1 a.2.2 := by
    cases Classical.em (legal s.board a.1 a.2.1 a.2.2) with
    | inl h' => exact h'
    | inr h' => exact absurd (illegal_last s h.1 h.2 _ _ _ ha.1 ha.2.1 ha.2.2 h') hn
  have hiff := (step_agrees_step s h.1 h.2 _ _ _ ha.1 ha.2.1 ha.2.2).2 hl
  have hex : ∃ r' c' d', legal (stepA s a).1.board r' c' d' := by
    apply Classical.byContradiction
    intro hne
    exact hn (hiff.2 hne)
  obtain ⟨r', c', d', hl'⟩ := hex
  exact legal_empty _ (stepA_inv s a h ha).1 r' c' d' hl'

/-- C11 (structural horizon, episode level): if the first `k` transitions of a play of in-spec actions are not LAST
then `k ≤ emptyCells` (so an episode — `k` non-LAST steps and one LAST — has at most `emptyCells + 1` steps), for
`k ≥ 1` even `k + 1 ≤ emptyCells` (at most `emptyCells` steps); exactly `k` cells have been filled, and the state
reached still has a 9×9 board and a correctly cached mask -/
theorem run_horizon (s : State) (hs : Grid.shaped s.board 9 9 = true) (hcache : CachedOK s) (as : List Action)
    (has : ∀ a ∈ as, InSpec a) (k : Nat) (hk : k ≤ as.length)
    (hno : EpRun.NoLastBefore stepA (·.stepType = .last) s as k) :
    k ≤ emptyCells s.board ∧ (1 ≤ k → k + 1 ≤ emptyCells s.board) ∧
    emptyCells (EpRun.after stepA s (as.take k)).board + k = emptyCells s.board ∧
    Grid.shaped (EpRun.after stepA s (as.take k)).board 9 9 = true ∧ CachedOK (EpRun.after stepA s (as.take k)) := by
  have hok : ∀ j (hj : j < as.length), j < k → InSpec as[j] := fun j hj _ => has _ (List.getElem_mem hj)
  have h1 := EpRun.run_horizon stepA (·.stepType = .last) (fun s => emptyCells s.board) RunInv (fun _ a => InSpec a)
    (fun s a h ha _ => stepA_inv s a h ha) stepA_progress s as k hk ⟨hs, hcache⟩ hok hno
  have h2 := EpRun.run_measure stepA (·.stepType = .last) (fun s => emptyCells s.board) RunInv (fun _ a => InSpec a)
    (fun s a h ha _ => stepA_inv s a h ha) stepA_progress s as k hk ⟨hs, hcache⟩ hok hno
  exact ⟨h1.1, h1.2 stepA_pos, h2.2, h2.1.1, h2.1.2⟩

/-- a play of more than `emptyCells` in-spec actions contains a LAST among its first `emptyCells + 1` transitions -/
theorem run_exists_last (s : State) (hs : Grid.shaped s.board 9 9 = true) (hcache : CachedOK s) (as : List Action)
    (has : ∀ a ∈ as, InSpec a) (hlen : emptyCells s.board + 1 ≤ as.length) :
    ∃ (k : Nat) (p : State × TimeStep Obs), k ≤ emptyCells s.board ∧ (run s as)[k]? = some p ∧
      p.2.stepType = .last :=
  EpRun.run_exists_last_measure stepA (·.stepType = .last) (fun s => emptyCells s.board) RunInv
    (fun _ a => InSpec a) (fun s a h ha _ => stepA_inv s a h ha) stepA_progress s as ⟨hs, hcache⟩ hlen
    (fun _ hj => has _ (List.getElem_mem hj))

/-! ### reset (C12) and shapes (C01) -/

theorem reset_obs_faithful (b : Grid Int) (hs : Grid.shaped b 9 9 = true) :
    (reset b).2.obs = observe (reset b).1 ∧ (reset b).2.stepType = .first ∧ CachedOK (reset b).1 := by
  refine ⟨?_, rfl, maskOf_eq_legalTable b hs⟩
  show ({ board := b, mask := maskOf b } : Obs) = { board := b, mask := legalTable b }
  rw [maskOf_eq_legalTable b hs]

theorem legalTable_shaped (b : Grid Int) :
    (legalTable b).length = 9 ∧ ∀ m ∈ legalTable b, Grid.shaped m 9 9 = true := by
  unfold legalTable
  refine ⟨by simp, ?_⟩
  intro m hm
  obtain ⟨r, _, rfl⟩ := List.mem_map.1 hm
  rw [Grid.l_shaped_iff]
  refine ⟨by simp, ?_⟩
  intro row hrow
  obtain ⟨c, _, rfl⟩ := List.mem_map.1 hrow
  simp

theorem reset_obs_shaped (b : Grid Int) (hs : Grid.shaped b 9 9 = true) : ObsShaped (reset b).2.obs := by
  refine ⟨hs, ?_⟩
  show (maskOf b).length = 9 ∧ ∀ m ∈ maskOf b, Grid.shaped m 9 9 = true
  rw [maskOf_eq_legalTable b hs]
  exact legalTable_shaped b

/-- every step from a 9×9 board (ANY integer action) emits an observation of the declared shapes -/
theorem step_obs_shaped (s : State) (hs : Grid.shaped s.board 9 9 = true) (r c d : Int) :
    ObsShaped (step s r c d).2.obs := by
  rw [obs_copied]
  have hb : Grid.shaped (step s r c d).1.board 9 9 = true := Grid.l_shaped_setWD hs d r c
  refine ⟨hb, ?_⟩
  show (maskOf (step s r c d).1.board).length = 9 ∧ ∀ m ∈ maskOf (step s r c d).1.board, Grid.shaped m 9 9 = true
  rw [maskOf_eq_legalTable _ hb]
  exact legalTable_shaped _

/-! ### audit r6 #10: feasibility composed along a play -/

theorem after_take_succ {S A T : Type} (f : S → A → S × T) : ∀ (s : S) (as : List A) (k : Nat) (hk : k < as.length),
    EpRun.after f s (as.take (k + 1)) = (f (EpRun.after f s (as.take k)) as[k]).1 := by
  intro s as
  induction as generalizing s with
  | nil => intro k hk; simp at hk
  | cons a as ih =>
    intro k hk
    cases k with
    | zero => simp [EpRun.after]
    | succ k =>
      simp only [List.take_succ_cons, EpRun.after, List.getElem_cons_succ]
      exact ih _ k (by simpa using hk)

end Sudoku
