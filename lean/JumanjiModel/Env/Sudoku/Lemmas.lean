import JumanjiModel.Env.Sudoku.Model
import JumanjiModel.Prim.Lemmas
import JumanjiModel.Env.Minesweeper.GridLemmas
namespace Sudoku
open Jm Jx

/-! ### generic list facts -/

theorem getD_zipWith {α β γ} (f : α → β → γ) (l1 : List α) (l2 : List β) (i : Nat) (d1 : α) (d2 : β)
    (d3 : γ) (h1 : i < l1.length) (h2 : i < l2.length) :
    (List.zipWith f l1 l2).getD i d3 = f (l1.getD i d1) (l2.getD i d2) := by
  simp [List.getD_eq_getElem?_getD, List.getElem?_zipWith, h1, h2]

theorem getD_map {α β} (f : α → β) (l : List α) (i : Nat) (d : α) (d' : β) (h : i < l.length) :
    (l.map f).getD i d' = f (l.getD i d) := by
  simp [List.getD_eq_getElem?_getD, h]

theorem getD_range_map {α} (f : Nat → α) (n i : Nat) (d : α) (h : i < n) :
    ((List.range n).map f).getD i d = f i := by
  simp [List.getD_eq_getElem?_getD, h]

theorem eq_tab {α} (l : List α) (n : Nat) (d : α) (f : Nat → α) (hl : l.length = n)
    (h : ∀ i, i < n → l.getD i d = f i) : l = (List.range n).map f := by
  apply List.ext_getElem
  · simp [hl]
  · intro i h1 h2
    have := h i (by omega)
    simp [List.getD_eq_getElem?_getD, h1] at this
    simp [this]

/-! ### scatter -/

theorem scatter_length {α} (xs : List α) (idx : List Nat) (vals : List α) :
    (scatter xs idx vals).length = xs.length := by
  unfold scatter
  generalize List.zip idx vals = l
  induction l generalizing xs with
  | nil => rfl
  | cons p l ih => simp [List.foldl_cons, ih, Jx.setWD_length]

theorem setWD_getD {α} (xs : List α) (a : Nat) (v d : α) (i : Nat) (hi : i < xs.length) :
    (Jx.setWD xs (a : Int) v).getD i d = if i = a then v else xs.getD i d := by
  by_cases ha : a < xs.length
  · rw [Jx.setWD_nat xs v ha]
    by_cases h : i = a
    · subst h; simp [List.getD_eq_getElem?_getD, hi]
    · simp [List.getD_eq_getElem?_getD, h, Ne.symm h]
  · have : Jx.setWD xs (a : Int) v = xs := by
      unfold Jx.setWD Jx.wrapIdx
      have h1 : ¬ ((a : Int) < 0) := by omega
      have h2 : (a : Int) ≥ (xs.length : Int) := by omega
      simp [h1, h2]
    rw [this]
    have : i ≠ a := by omega
    simp [this]

/-- scattering values that are a function of their index -/
theorem scatter_map_getD {α} (xs : List α) (idx : List Nat) (G : Nat → α) (d : α) (i : Nat)
    (hi : i < xs.length) :
    (scatter xs idx (idx.map G)).getD i d = if i ∈ idx then G i else xs.getD i d := by
  induction idx generalizing xs with
  | nil => simp [scatter]
  | cons a idx ih =>
    have e : scatter xs (a :: idx) ((a :: idx).map G) = scatter (Jx.setWD xs (a : Int) (G a)) idx (idx.map G) := by
      simp [scatter]
    rw [e, ih _ (by rw [Jx.setWD_length]; exact hi), setWD_getD xs a (G a) d i hi]
    by_cases h1 : i ∈ idx
    · simp [h1]
    · by_cases h2 : i = a
      · subst h2; simp
      · simp [h1, h2]

/-! ### flatten of a shaped grid -/

theorem flatten_length {α} (g : Grid α) (nr nc : Nat) (hs : Grid.shaped g nr nc = true) :
    (List.flatten g).length = nr * nc := by
  unfold Grid.shaped at hs
  simp only [Bool.and_eq_true, beq_iff_eq, List.all_eq_true] at hs
  obtain ⟨h1, h2⟩ := hs
  induction g generalizing nr with
  | nil => simp at h1; subst h1; simp
  | cons row rest ih =>
    simp at h1
    subst h1
    have hr := h2 row (by simp)
    have := ih rest.length rfl (fun x hx => h2 x (by simp [hx]))
    simp [this, hr, Nat.succ_mul]
    omega

theorem flatten_getD {α} (g : Grid α) (nr nc : Nat) (d : α) (hs : Grid.shaped g nr nc = true)
    (r c : Nat) (hr : r < nr) (hc : c < nc) :
    (List.flatten g).getD (r * nc + c) d = Grid.get g d r c := by
  unfold Grid.shaped at hs
  simp only [Bool.and_eq_true, beq_iff_eq, List.all_eq_true] at hs
  obtain ⟨h1, h2⟩ := hs
  induction g generalizing nr r with
  | nil => simp at h1; omega
  | cons row rest ih =>
    simp at h1
    subst h1
    have hrow := h2 row (by simp)
    cases r with
    | zero =>
      simp [Grid.get_eq, List.getD_eq_getElem?_getD]
      rw [List.getElem?_append_left (by omega)]
    | succ r =>
      have := ih rest.length r (by omega) rfl (fun x hx => h2 x (by simp [hx]))
      simp only [Grid.get_eq, List.getD_eq_getElem?_getD] at this ⊢
      simp only [List.flatten_cons]
      rw [List.getElem?_append_right (by rw [hrow, Nat.succ_mul]; omega)]
      have e : (r + 1) * nc + c - row.length = r * nc + c := by rw [hrow, Nat.succ_mul]; omega
      rw [e, this]
      simp

/-! ### the pieces of `get_action_mask` -/

def am0 (b : Grid Int) : List (List Bool) := (List.flatten b).map (fun v => List.replicate W (v == -1))
def rowMaskOf (b : Grid Int) : List (List Bool) := List.map absentMask b
def colMaskOf (b : Grid Int) : List (List Bool) := List.map absentMask (Grid.transpose b)
def boxValsOf (b : Grid Int) (idxs : List Nat) : List Int :=
  idxs.map (fun (i : Nat) => Jx.getWC (List.flatten b) 0 (i : Int))
def bamOf (b : Grid Int) : List (List (List Bool)) :=
  List.zipWith (fun idxs bm => idxs.map (fun (i : Nat) => List.zipWith (· && ·) (Jx.getWC (am0 b) [] (i : Int)) bm))
    BOX_IDX ((BOX_IDX.map (boxValsOf b)).map absentMask)
def am1 (b : Grid Int) : List (List Bool) := scatter (am0 b) (List.flatten BOX_IDX) (List.flatten (bamOf b))

theorem maskOf_eq (b : Grid Int) : maskOf b =
    List.zipWith (fun rowCells rm =>
      List.zipWith (fun cellMask cm => List.zipWith (· && ·) (List.zipWith (· && ·) cellMask rm) cm)
        rowCells (colMaskOf b)) (reshape (am1 b) W W) (rowMaskOf b) := rfl

def boxOfIdx (i : Nat) : Nat := (i % 9 / 3) * 3 + i / 9 / 3

/-- value scattered to flat cell `i` -/
def G (b : Grid Int) (i : Nat) : List Bool :=
  List.zipWith (· && ·) (Jx.getWC (am0 b) [] (i : Int)) (absentMask (boxValsOf b (BOX_IDX.getD (boxOfIdx i) [])))

theorem boxfact1 : ∀ idxs ∈ BOX_IDX, ∀ i ∈ idxs, BOX_IDX.getD (boxOfIdx i) [] = idxs := by decide +kernel
theorem boxfact_all : ∀ i, i < 81 → i ∈ List.flatten BOX_IDX := by decide +kernel
theorem boxfact2 : ∀ r, r < 9 → ∀ c, c < 9 → ∀ j ∈ BOX_IDX.getD (boxOfIdx (r * 9 + c)) [],
    j / 9 < 9 ∧ j % 9 < 9 ∧ j / 9 / 3 = r / 3 ∧ j % 9 / 3 = c / 3 := by decide +kernel
def BoxHas (r c : Nat) : Prop := ∀ r', r' < 9 → ∀ c', c' < 9 → (r' / 3 = r / 3 ∧ c' / 3 = c / 3) →
    r' * 9 + c' ∈ BOX_IDX.getD (boxOfIdx (r * 9 + c)) []
instance (r c : Nat) : Decidable (BoxHas r c) := by unfold BoxHas; infer_instance
theorem boxfact3 : ∀ r, r < 9 → ∀ c, c < 9 → BoxHas r c := by decide +kernel

theorem zipWith_map_self {α β γ} (f : α → β → γ) (l : List α) (g : α → β) :
    List.zipWith f l (l.map g) = l.map (fun x => f x (g x)) := by
  induction l with
  | nil => rfl
  | cons x xs ih => simp [ih]

theorem bam_flatten (b : Grid Int) : List.flatten (bamOf b) = (List.flatten BOX_IDX).map (G b) := by
  unfold bamOf
  rw [List.map_map, zipWith_map_self, List.map_flatten]
  apply congrArg List.flatten
  apply List.map_congr_left
  intro idxs hidxs
  apply List.map_congr_left
  intro i hi
  unfold G
  rw [boxfact1 idxs hidxs i hi]
  rfl

theorem getD_irrel {α} (l : List α) (i : Nat) (d d' : α) (h : i < l.length) : l.getD i d = l.getD i d' := by
  simp [List.getD_eq_getElem?_getD, h]

theorem and3_getD (g rm cm : List Bool) (d : Nat) (hg : g.length = 9) (hrm : rm.length = 9)
    (hcm : cm.length = 9) (hd : d < 9) :
    (List.zipWith (· && ·) (List.zipWith (· && ·) g rm) cm).getD d false =
      ((g.getD d false && rm.getD d false) && cm.getD d false) := by
  rw [getD_zipWith _ _ _ d false false false (by simp [hg, hrm]; omega) (by omega),
      getD_zipWith _ _ _ d false false false (by omega) (by omega)]

theorem am0_length (b : Grid Int) (hs : Grid.shaped b 9 9 = true) : (am0 b).length = 81 := by
  unfold am0; rw [List.length_map, flatten_length b 9 9 hs]

theorem am1_length (b : Grid Int) (hs : Grid.shaped b 9 9 = true) : (am1 b).length = 81 := by
  unfold am1; rw [scatter_length, am0_length b hs]

theorem am1_getD (b : Grid Int) (hs : Grid.shaped b 9 9 = true) (i : Nat) (hi : i < 81) :
    (am1 b).getD i [] = G b i := by
  unfold am1
  rw [bam_flatten, scatter_map_getD _ _ _ _ _ (by rw [am0_length b hs]; exact hi)]
  simp [boxfact_all i hi]

theorem absentMask_length (xs : List Int) : (absentMask xs).length = 9 := by
  unfold absentMask W; simp

theorem absentMask_getD (xs : List Int) (d : Nat) (hd : d < 9) :
    (absentMask xs).getD d false = true ↔ ∀ v ∈ xs, v ≠ (d : Int) := by
  unfold absentMask W
  rw [getD_range_map _ _ _ _ hd]
  simp

theorem am0_getD (b : Grid Int) (hs : Grid.shaped b 9 9 = true) (r c : Nat) (hr : r < 9) (hc : c < 9) :
    (am0 b).getD (r * 9 + c) [] = List.replicate 9 (cell b r c == -1) := by
  unfold am0
  have hl := flatten_length b 9 9 hs
  rw [getD_map _ _ _ (0 : Int) _ (by rw [hl]; omega), flatten_getD b 9 9 0 hs r c hr hc]
  unfold cell W
  have hb := (Grid.shaped_iff b 9 9).1 hs
  have hrl := hb.2 r hr
  unfold Grid.rowLen at hrl
  simp only [Grid.get_eq]
  rw [getD_irrel (List.getD b r []) c 0 (-1) (by omega)]

theorem G_length (b : Grid Int) (hs : Grid.shaped b 9 9 = true) (r c : Nat) (hr : r < 9) (hc : c < 9) :
    (G b (r * 9 + c)).length = 9 := by
  unfold G
  rw [Jx.getWC_nat _ _ (by rw [am0_length b hs]; omega), am0_getD b hs r c hr hc]
  simp [absentMask_length]

theorem G_getD (b : Grid Int) (hs : Grid.shaped b 9 9 = true) (r c d : Nat) (hr : r < 9) (hc : c < 9)
    (hd : d < 9) :
    (G b (r * 9 + c)).getD d false =
      ((cell b r c == -1) && (absentMask (boxValsOf b (BOX_IDX.getD (boxOfIdx (r * 9 + c)) []))).getD d false) := by
  unfold G
  rw [Jx.getWC_nat _ _ (by rw [am0_length b hs]; omega), am0_getD b hs r c hr hc]
  rw [getD_zipWith _ _ _ d false false false (by simp; omega) (by rw [absentMask_length]; omega)]
  have : (List.replicate 9 (cell b r c == -1)).getD d false = (cell b r c == -1) := by
    rw [List.getD_eq_getElem?_getD, List.getElem?_replicate]; simp [hd]
  rw [this]

theorem transpose_length (b : Grid Int) (hs : Grid.shaped b 9 9 = true) : (Grid.transpose b).length = 9 := by
  have hb := (Grid.shaped_iff b 9 9).1 hs
  unfold Grid.transpose
  cases hbb : b with
  | nil => rw [hbb] at hb; simp at hb
  | cons row rest =>
    have := hb.2 0 (by omega)
    rw [hbb] at this
    unfold Grid.rowLen at this
    simp at this
    simp [this]

theorem maskOf_length (b : Grid Int) (hs : Grid.shaped b 9 9 = true) : (maskOf b).length = 9 := by
  have hb := (Grid.shaped_iff b 9 9).1 hs
  rw [maskOf_eq]
  have hR : (reshape (am1 b) W W).length = 9 := by unfold reshape W; simp
  have hrm : (rowMaskOf b).length = 9 := by unfold rowMaskOf; simp [hb.1]
  simp [hR, hrm]

/-- row `r` of the mask -/
theorem maskOf_row (b : Grid Int) (hs : Grid.shaped b 9 9 = true) (r : Nat) (hr : r < 9) :
    (maskOf b).getD r [] =
      List.zipWith (fun cellMask cm => List.zipWith (· && ·) (List.zipWith (· && ·) cellMask
        (absentMask (List.getD b r []))) cm) (((am1 b).drop (r * 9)).take 9) (colMaskOf b) := by
  have hb := (Grid.shaped_iff b 9 9).1 hs
  rw [maskOf_eq]
  have hR : (reshape (am1 b) W W).length = 9 := by unfold reshape W; simp
  have hrm : (rowMaskOf b).length = 9 := by unfold rowMaskOf; simp [hb.1]
  rw [getD_zipWith _ _ _ r [] [] [] (by omega) (by omega)]
  have hRr : (reshape (am1 b) W W).getD r [] = ((am1 b).drop (r * 9)).take 9 := by
    unfold reshape W; rw [getD_range_map _ _ _ _ hr]
  have hrow : (rowMaskOf b).getD r [] = absentMask (List.getD b r []) := by
    unfold rowMaskOf; rw [getD_map _ _ _ [] _ (by omega)]
  rw [hRr, hrow]

theorem maskOf_row_length (b : Grid Int) (hs : Grid.shaped b 9 9 = true) (r : Nat) (hr : r < 9) :
    ((maskOf b).getD r []).length = 9 := by
  have h81 := am1_length b hs
  have hcm : (colMaskOf b).length = 9 := by unfold colMaskOf; simp [transpose_length b hs]
  rw [maskOf_row b hs r hr]
  simp [h81, hcm]; omega

/-- cell `(r, c)` of the mask -/
theorem maskOf_cell (b : Grid Int) (hs : Grid.shaped b 9 9 = true) (r c : Nat) (hr : r < 9) (hc : c < 9) :
    ((maskOf b).getD r []).getD c [] =
      List.zipWith (· && ·) (List.zipWith (· && ·) (G b (r * 9 + c)) (absentMask (List.getD b r [])))
        (absentMask (List.getD (Grid.transpose b) c [])) := by
  have h81 := am1_length b hs
  have hcm : (colMaskOf b).length = 9 := by unfold colMaskOf; simp [transpose_length b hs]
  rw [maskOf_row b hs r hr]
  rw [getD_zipWith _ _ _ c [] [] [] (by simp [h81]; omega) (by omega)]
  have hcell : (((am1 b).drop (r * 9)).take 9).getD c [] = G b (r * 9 + c) := by
    rw [← am1_getD b hs (r * 9 + c) (by omega)]
    simp [List.getD_eq_getElem?_getD, hc]
  have hcol : (colMaskOf b).getD c [] = absentMask (List.getD (Grid.transpose b) c []) := by
    unfold colMaskOf; rw [getD_map _ _ _ [] _ (by rw [transpose_length b hs]; omega)]
  rw [hcell, hcol]

theorem maskOf_cell_length (b : Grid Int) (hs : Grid.shaped b 9 9 = true) (r c : Nat) (hr : r < 9) (hc : c < 9) :
    (((maskOf b).getD r []).getD c []).length = 9 := by
  rw [maskOf_cell b hs r c hr hc]
  simp [G_length b hs r c hr hc, absentMask_length]

/-- the mask entry in terms of the board: cell empty, digit absent from box, row, column -/
theorem maskOf_entry (b : Grid Int) (hs : Grid.shaped b 9 9 = true) (r c d : Nat) (hr : r < 9) (hc : c < 9)
    (hd : d < 9) :
    (((maskOf b).getD r []).getD c []).getD d false =
      ((((cell b r c == -1) &&
        (absentMask (boxValsOf b (BOX_IDX.getD (boxOfIdx (r * 9 + c)) []))).getD d false) &&
        (absentMask (List.getD b r [])).getD d false) &&
        (absentMask (List.getD (Grid.transpose b) c [])).getD d false) := by
  rw [maskOf_cell b hs r c hr hc,
      and3_getD _ _ _ d (G_length b hs r c hr hc) (absentMask_length _) (absentMask_length _) hd,
      G_getD b hs r c d hr hc hd]

/-! ### rows, columns and boxes in terms of cells -/

theorem mem_iff_getD {α} (l : List α) (n : Nat) (hl : l.length = n) (d0 v : α) :
    v ∈ l ↔ ∃ i, i < n ∧ l.getD i d0 = v := by
  rw [List.mem_iff_getElem]
  constructor
  · rintro ⟨i, hi, rfl⟩
    exact ⟨i, by omega, by simp [List.getD_eq_getElem?_getD, hi]⟩
  · rintro ⟨i, hi, rfl⟩
    exact ⟨i, by omega, by simp [List.getD_eq_getElem?_getD, show i < l.length by omega]⟩

theorem getElem?_eq_some_getD {α} (l : List α) (i : Nat) (d : α) (h : i < l.length) :
    l[i]? = some (l.getD i d) := by
  simp [List.getD_eq_getElem?_getD, h]

theorem row_absent (b : Grid Int) (hs : Grid.shaped b 9 9 = true) (r : Nat) (hr : r < 9) (d : Int) :
    (∀ v ∈ List.getD b r [], v ≠ d) ↔ ∀ c', c' < 9 → cell b r c' ≠ d := by
  have hb := (Grid.shaped_iff b 9 9).1 hs
  have hl := hb.2 r hr
  unfold Grid.rowLen at hl
  constructor
  · intro h c' hc'
    exact h _ ((mem_iff_getD _ 9 hl (-1) _).2 ⟨c', hc', rfl⟩)
  · intro h v hv
    obtain ⟨c', hc', rfl⟩ := (mem_iff_getD _ 9 hl (-1) _).1 hv
    exact h c' hc'

theorem transpose_getD (b : Grid Int) (hs : Grid.shaped b 9 9 = true) (c : Nat) (hc : c < 9) :
    List.getD (Grid.transpose b) c [] = List.filterMap (fun row => row[c]?) b := by
  have hb := (Grid.shaped_iff b 9 9).1 hs
  unfold Grid.transpose
  cases hbb : b with
  | nil => rw [hbb] at hb; simp at hb
  | cons row rest =>
    have := hb.2 0 (by omega)
    rw [hbb] at this
    unfold Grid.rowLen at this
    simp at this
    simp only []
    rw [getD_range_map _ _ _ _ (by omega)]

theorem col_absent (b : Grid Int) (hs : Grid.shaped b 9 9 = true) (c : Nat) (hc : c < 9) (d : Int) :
    (∀ v ∈ List.getD (Grid.transpose b) c [], v ≠ d) ↔ ∀ r', r' < 9 → cell b r' c ≠ d := by
  have hb := (Grid.shaped_iff b 9 9).1 hs
  rw [transpose_getD b hs c hc]
  constructor
  · intro h r' hr'
    apply h
    rw [List.mem_filterMap]
    refine ⟨List.getD b r' [], (mem_iff_getD b 9 hb.1 [] _).2 ⟨r', hr', rfl⟩, ?_⟩
    have hl := hb.2 r' hr'
    unfold Grid.rowLen at hl
    unfold cell
    rw [Grid.get_eq]
    exact getElem?_eq_some_getD _ c (-1) (by omega)
  · intro h v hv
    rw [List.mem_filterMap] at hv
    obtain ⟨row, hrow, hv⟩ := hv
    obtain ⟨r', hr', rfl⟩ := (mem_iff_getD b 9 hb.1 [] _).1 hrow
    have := h r' hr'
    unfold cell at this
    rw [Grid.get_eq] at this
    have hl := hb.2 r' hr'
    unfold Grid.rowLen at hl
    rw [List.getD_eq_getElem?_getD, hv] at this
    simpa using this

theorem flat_getD_cell (b : Grid Int) (hs : Grid.shaped b 9 9 = true) (r c : Nat) (hr : r < 9) (hc : c < 9) :
    Jx.getWC (List.flatten b) 0 ((r * 9 + c : Nat) : Int) = cell b r c := by
  have hl := flatten_length b 9 9 hs
  rw [Jx.getWC_nat _ _ (by rw [hl]; omega), flatten_getD b 9 9 0 hs r c hr hc]
  have hb := (Grid.shaped_iff b 9 9).1 hs
  have hrl := hb.2 r hr
  unfold Grid.rowLen at hrl
  unfold cell
  simp only [Grid.get_eq]
  rw [getD_irrel (List.getD b r []) c 0 (-1) (by omega)]

theorem box_absent (b : Grid Int) (hs : Grid.shaped b 9 9 = true) (r c : Nat) (hr : r < 9) (hc : c < 9)
    (d : Int) :
    (∀ v ∈ boxValsOf b (BOX_IDX.getD (boxOfIdx (r * 9 + c)) []), v ≠ d) ↔
      ∀ r', r' < 9 → ∀ c', c' < 9 → (r' / 3 = r / 3 ∧ c' / 3 = c / 3) → cell b r' c' ≠ d := by
  unfold boxValsOf
  constructor
  · intro h r' hr' c' hc' hbox
    apply h
    rw [List.mem_map]
    exact ⟨r' * 9 + c', boxfact3 r hr c hc r' hr' c' hc' hbox, flat_getD_cell b hs r' c' hr' hc'⟩
  · intro h v hv
    rw [List.mem_map] at hv
    obtain ⟨j, hj, rfl⟩ := hv
    obtain ⟨h1, h2, h3, h4⟩ := boxfact2 r hr c hc j hj
    have e : j = j / 9 * 9 + j % 9 := by omega
    rw [e, flat_getD_cell b hs (j / 9) (j % 9) h1 h2]
    exact h (j / 9) h1 (j % 9) h2 ⟨h3, h4⟩

/-- C04: the transliterated `get_action_mask` marks exactly the legal moves -/
theorem mask_entry_iff_legal (b : Grid Int) (hs : Grid.shaped b 9 9 = true) (r c d : Nat) (hr : r < 9)
    (hc : c < 9) (hd : d < 9) :
    (((maskOf b).getD r []).getD c []).getD d false = true ↔ legal b r c d := by
  rw [maskOf_entry b hs r c d hr hc hd]
  simp only [Bool.and_eq_true, beq_iff_eq]
  rw [absentMask_getD _ d hd, absentMask_getD _ d hd, absentMask_getD _ d hd,
      row_absent b hs r hr, col_absent b hs c hc, box_absent b hs r c hr hc]
  unfold legal sameUnit
  constructor
  · rintro ⟨⟨⟨h0, hbox⟩, hrow⟩, hcol⟩
    refine ⟨hr, hc, hd, h0, ?_⟩
    intro r' hr' c' hc' hu
    simp only [Bool.or_eq_true, Bool.and_eq_true, beq_iff_eq] at hu
    rcases hu with (rfl | rfl) | hu
    · exact hrow c' hc'
    · exact hcol r' hr'
    · exact hbox r' hr' c' hc' ⟨hu.1.symm, hu.2.symm⟩
  · rintro ⟨_, _, _, h0, h⟩
    refine ⟨⟨⟨h0, ?_⟩, ?_⟩, ?_⟩
    · intro r' hr' c' hc' hbox
      exact h r' hr' c' hc' (by simp [hbox.1, hbox.2])
    · intro c' hc'
      exact h r hr c' hc' (by simp)
    · intro r' hr'
      exact h r' hr' c hc (by simp)

theorem maskOf_eq_legalTable (b : Grid Int) (hs : Grid.shaped b 9 9 = true) : maskOf b = legalTable b := by
  unfold legalTable
  apply eq_tab _ 9 [] _ (maskOf_length b hs)
  intro r hr
  apply eq_tab _ 9 [] _ (maskOf_row_length b hs r hr)
  intro c hc
  apply eq_tab _ 9 false _ (maskOf_cell_length b hs r c hr hc)
  intro d hd
  have := mask_entry_iff_legal b hs r c d hr hc hd
  cases h : (((maskOf b).getD r []).getD c []).getD d false
  · have : ¬ legal b r c d := fun hl => by rw [this.2 hl] at h; cases h
    simp [this]
  · simp [this.1 h]


/-! ### the step -/

theorem shaped_place (b : Grid Int) (hs : Grid.shaped b 9 9 = true) (r c d : Nat) :
    Grid.shaped (place b r c d) 9 9 = true := Grid.shaped_set _ _ _ _ _ _ hs

theorem applyAction_eq (b : Grid Int) (hs : Grid.shaped b 9 9 = true) (r c d : Nat) (hr : r < 9) (hc : c < 9) :
    applyAction b r c d = place b r c d := by
  have hb := (Grid.shaped_iff b 9 9).1 hs
  unfold applyAction place
  exact Grid.setWD_nat b r c _ (by omega) (by rw [hb.2 r hr]; exact hc)

/-- C09: the successor is the rules' successor: digit written, mask = table of legal moves -/
theorem step_state (s : State) (hs : Grid.shaped s.board 9 9 = true) (r c d : Nat) (hr : r < 9) (hc : c < 9) :
    (step s r c d).1 = { board := place s.board r c d, mask := legalTable (place s.board r c d) } := by
  unfold step
  simp only []
  rw [applyAction_eq s.board hs r c d hr hc, maskOf_eq_legalTable _ (shaped_place s.board hs r c d)]

theorem step_cached (s : State) (hs : Grid.shaped s.board 9 9 = true) (r c d : Nat) (hr : r < 9) (hc : c < 9) :
    CachedOK (step s r c d).1 := by
  rw [step_state s hs r c d hr hc]; rfl

def tab3 (n : Nat) (f : Nat → Nat → Nat → Bool) : Mask :=
  (List.range n).map (fun r => (List.range n).map (fun c => (List.range n).map (fun d => f r c d)))

theorem legalTable_tab (b : Grid Int) : legalTable b = tab3 9 (fun r c d => decide (legal b r c d)) := rfl

theorem maskAt_tab3 (n : Nat) (f : Nat → Nat → Nat → Bool) (r c d : Nat) (hr : r < n) (hc : c < n) (hd : d < n) :
    maskAt (tab3 n f) r c d = f r c d := by
  unfold maskAt tab3
  have e1 : ∀ (g : Nat → List (List Bool)), Jx.getWC ((List.range n).map g) [] (r : Int) = g r := by
    intro g
    rw [Jx.getWC_nat _ _ (by rw [List.length_map, List.length_range]; exact hr), getD_range_map _ _ _ _ hr]
  have e2 : ∀ (g : Nat → List Bool), Jx.getWC ((List.range n).map g) [] (c : Int) = g c := by
    intro g
    rw [Jx.getWC_nat _ _ (by rw [List.length_map, List.length_range]; exact hc), getD_range_map _ _ _ _ hc]
  have e3 : ∀ (g : Nat → Bool), Jx.getWC ((List.range n).map g) false (d : Int) = g d := by
    intro g
    rw [Jx.getWC_nat _ _ (by rw [List.length_map, List.length_range]; exact hd), getD_range_map _ _ _ _ hd]
  rw [e1, e2, e3]

theorem any_tab {α} (n : Nat) (g : Nat → α) (p : α → Bool) :
    ((List.range n).map g).any p = true ↔ ∃ i, i < n ∧ p (g i) = true := by
  rw [List.any_eq_true]
  constructor
  · rintro ⟨x, hx, hp⟩
    rw [List.mem_map] at hx
    obtain ⟨i, hi, rfl⟩ := hx
    exact ⟨i, List.mem_range.1 hi, hp⟩
  · rintro ⟨i, hi, hp⟩
    exact ⟨g i, List.mem_map.2 ⟨i, List.mem_range.2 hi, rfl⟩, hp⟩

theorem anyMask_tab3 (n : Nat) (f : Nat → Nat → Nat → Bool) :
    anyMask (tab3 n f) = true ↔ ∃ r c d, r < n ∧ c < n ∧ d < n ∧ f r c d = true := by
  unfold anyMask tab3
  rw [any_tab]
  constructor
  · rintro ⟨r, hr, h⟩
    rw [any_tab] at h
    obtain ⟨c, hc, h⟩ := h
    rw [any_tab] at h
    obtain ⟨d, hd, h⟩ := h
    exact ⟨r, c, d, hr, hc, hd, h⟩
  · rintro ⟨r, c, d, hr, hc, hd, h⟩
    refine ⟨r, hr, ?_⟩
    rw [any_tab]
    refine ⟨c, hc, ?_⟩
    rw [any_tab]
    exact ⟨d, hd, h⟩

theorem maskAt_legalTable (b : Grid Int) (r c d : Nat) (hr : r < 9) (hc : c < 9) (hd : d < 9) :
    maskAt (legalTable b) r c d = decide (legal b r c d) := by
  rw [legalTable_tab, maskAt_tab3 9 _ r c d hr hc hd]

theorem anyMask_legalTable (b : Grid Int) :
    anyMask (legalTable b) = true ↔ ∃ r c d, legal b r c d := by
  rw [legalTable_tab, anyMask_tab3]
  constructor
  · rintro ⟨r, c, d, _, _, _, h⟩
    exact ⟨r, c, d, by simpa using h⟩
  · rintro ⟨r, c, d, h⟩
    exact ⟨r, c, d, h.1, h.2.1, h.2.2.1, by simpa using h⟩

/-- C04: with a correctly cached mask, `step` treats an action as invalid iff the rules forbid it -/
theorem invalid_iff (s : State) (hcache : CachedOK s) (r c d : Nat) (hr : r < 9) (hc : c < 9) (hd : d < 9) :
    (!(maskAt s.mask r c d)) = true ↔ ¬ legal s.board r c d := by
  unfold CachedOK at hcache
  rw [hcache, maskAt_legalTable _ r c d hr hc hd]
  simp

/-- the episode ends exactly on an illegal move or when the new board has no legal move left -/
theorem step_last_iff (s : State) (hs : Grid.shaped s.board 9 9 = true) (hcache : CachedOK s) (r c d : Nat)
    (hr : r < 9) (hc : c < 9) (hd : d < 9) :
    (step s r c d).2.stepType = .last ↔
      (¬ legal s.board r c d ∨ ¬ ∃ r' c' d', legal (place s.board r c d) r' c' d') := by
  have key : (step s r c d).2.stepType = .last ↔
      ((!(maskAt s.mask r c d)) || !(anyMask (step s r c d).1.mask)) = true := by
    unfold step condLast termination transition
    simp only []
    split <;> simp_all
  rw [key, Bool.or_eq_true, invalid_iff s hcache r c d hr hc hd, step_state s hs r c d hr hc]
  simp only [Bool.not_eq_true', ← Bool.not_eq_true, anyMask_legalTable]

/-- C05: an illegal move ends the episode -/
theorem illegal_last (s : State) (hs : Grid.shaped s.board 9 9 = true) (hcache : CachedOK s) (r c d : Nat)
    (hr : r < 9) (hc : c < 9) (hd : d < 9) (h : ¬ legal s.board r c d) :
    (step s r c d).2.stepType = .last :=
  (step_last_iff s hs hcache r c d hr hc hd).2 (Or.inl h)

/-- C12 -/
theorem obs_faithful (s : State) (hs : Grid.shaped s.board 9 9 = true) (r c d : Nat) (hr : r < 9) (hc : c < 9) :
    (step s r c d).2.obs = observe (step s r c d).1 := by
  have h1 : (step s r c d).2.obs = { board := (step s r c d).1.board, mask := (step s r c d).1.mask } := by
    unfold step condLast termination transition
    simp only []
    split <;> rfl
  rw [h1, step_state s hs r c d hr hc]
  rfl

theorem obs_copied (s : State) (r c d : Int) :
    (step s r c d).2.obs = { board := (step s r c d).1.board, mask := (step s r c d).1.mask } := by
  unfold step condLast termination transition
  simp only []
  split <;> rfl

/-! ### C06 -/

theorem sameUnit_symm (r c r' c' : Nat) : sameUnit r c r' c' = sameUnit r' c' r c := by
  unfold sameUnit
  rw [Bool.beq_comm (a := r), Bool.beq_comm (a := c), Bool.beq_comm (a := r / 3), Bool.beq_comm (a := c / 3)]

theorem cell_place (b : Grid Int) (hs : Grid.shaped b 9 9 = true) (r c d : Nat) (hr : r < 9) (hc : c < 9)
    (r' c' : Nat) : cell (place b r c d) r' c' = if r' = r ∧ c' = c then (d : Int) else cell b r' c' := by
  have hb := (Grid.shaped_iff b 9 9).1 hs
  unfold cell place
  exact Grid.get_set b (-1) r c _ r' c' (by omega) (by rw [hb.2 r hr]; exact hc)

/-- legal play keeps the board free of conflicts -/
theorem step_feasible (b : Grid Int) (hf : Feasible b) (r c d : Nat) (hl : legal b r c d) :
    Feasible (place b r c d) := by
  obtain ⟨hs, hin, hcf⟩ := hf
  obtain ⟨hr, hc, hd, hempty, hpeers⟩ := hl
  refine ⟨shaped_place b hs r c d, ?_, ?_⟩
  · intro r' hr' c' hc'
    rw [cell_place b hs r c d hr hc]
    by_cases h : r' = r ∧ c' = c
    · rw [if_pos h]; omega
    · rw [if_neg h]; exact hin r' hr' c' hc'
  · intro r1 hr1 c1 hc1 r2 hr2 c2 hc2 ⟨hu, hne, hfill⟩
    rw [cell_place b hs r c d hr hc] at hfill ⊢
    rw [cell_place b hs r c d hr hc]
    by_cases h1 : r1 = r ∧ c1 = c
    · rw [if_pos h1]
      have h2 : ¬ (r2 = r ∧ c2 = c) := fun h2 => hne ⟨h1.1.trans h2.1.symm, h1.2.trans h2.2.symm⟩
      rw [if_neg h2]
      rw [h1.1, h1.2] at hu
      exact fun e => hpeers r2 hr2 c2 hc2 hu e.symm
    · rw [if_neg h1] at hfill ⊢
      by_cases h2 : r2 = r ∧ c2 = c
      · rw [if_pos h2]
        rw [h2.1, h2.2, sameUnit_symm] at hu
        exact hpeers r1 hr1 c1 hc1 hu
      · rw [if_neg h2]
        exact hcf r1 hr1 c1 hc1 r2 hr2 c2 hc2 ⟨hu, hne, hfill⟩

/-! ### C11 -/

theorem emptyCells_place (b : Grid Int) (hs : Grid.shaped b 9 9 = true) (r c d : Nat) (hl : legal b r c d) :
    emptyCells (place b r c d) + 1 = emptyCells b := by
  obtain ⟨hr, hc, hd, hempty, _⟩ := hl
  have hb := (Grid.shaped_iff b 9 9).1 hs
  unfold emptyCells place
  have := Grid.count_set (fun v => v == -1) b (-1) r c (d : Int) (by omega) (by rw [hb.2 r hr]; exact hc)
  unfold cell at hempty
  rw [hempty] at this
  have hd' : ((d : Int) == -1) = false := by
    have : (d : Int) ≠ -1 := by omega
    simp [this]
  simp [hd'] at this
  omega

/-- a step that does not end the episode fills one empty cell -/
theorem progress (s : State) (hs : Grid.shaped s.board 9 9 = true) (hcache : CachedOK s) (r c d : Nat)
    (hr : r < 9) (hc : c < 9) (hd : d < 9) (hn : (step s r c d).2.stepType ≠ .last) :
    emptyCells (step s r c d).1.board + 1 = emptyCells s.board := by
  have hl : legal s.board r c d := by
    cases Classical.em (legal s.board r c d) with
    | inl h => exact h
    | inr h => exact absurd (illegal_last s hs hcache r c d hr hc hd h) hn
  rw [step_state s hs r c d hr hc]
  exact emptyCells_place s.board hs r c d hl

/-! ### `is_puzzle_solved` and illegal moves -/

def digits : List Int := (List.range W).map (fun (d : Nat) => (d : Int))

theorem rowSolved_perm (xs : List Int) (h : rowSolved xs = true) : List.Perm xs digits := by
  unfold rowSolved sortInts at h
  have hp := List.mergeSort_perm xs (fun a b => decide (a ≤ b))
  have h' : xs.mergeSort (fun a b => decide (a ≤ b)) = digits := by unfold digits; simpa using h
  rw [h'] at hp
  exact hp.symm

theorem rowSolved_facts (xs : List Int) (h : rowSolved xs = true) :
    xs.Nodup ∧ xs.length = 9 ∧ ∀ v ∈ xs, 0 ≤ v ∧ v ≤ 8 := by
  have hp := rowSolved_perm xs h
  refine ⟨hp.nodup_iff.2 (by decide), by rw [hp.length_eq]; rfl, fun v hv => ?_⟩
  have hv' : v ∈ digits := hp.mem_iff.1 hv
  unfold digits at hv'
  rw [List.mem_map] at hv'
  obtain ⟨d, hd, rfl⟩ := hv'
  rw [List.mem_range] at hd
  unfold W at hd
  omega

theorem nodup_getD_ne {α} (l : List α) (hn : l.Nodup) (d : α) (i j : Nat) (hi : i < l.length)
    (hj : j < l.length) (hij : i ≠ j) : l.getD i d ≠ l.getD j d := by
  unfold List.Nodup at hn
  rw [List.pairwise_iff_getElem] at hn
  simp only [List.getD_eq_getElem?_getD, List.getElem?_eq_getElem hi, List.getElem?_eq_getElem hj, Option.getD_some]
  rcases Nat.lt_or_gt_of_ne hij with h | h
  · exact hn i j hi hj h
  · exact fun e => hn j i hj hi h e.symm

theorem col_eq_map (b : Grid Int) (hs : Grid.shaped b 9 9 = true) (c : Nat) (hc : c < 9) :
    List.getD (Grid.transpose b) c [] = List.map (fun (row : List Int) => row.getD c (-1)) b := by
  rw [transpose_getD b hs c hc]
  unfold Grid.shaped at hs
  simp only [Bool.and_eq_true, beq_iff_eq, List.all_eq_true] at hs
  have h2 := hs.2
  clear hs
  induction b with
  | nil => rfl
  | cons row rest ih =>
    have hl := h2 row (by simp)
    have e : row[c]? = some (row.getD c (-1)) := getElem?_eq_some_getD row c (-1) (by omega)
    rw [List.filterMap_cons, e]
    simp only [List.map_cons]
    rw [ih (fun x hx => h2 x (by simp [hx]))]

def pos (r c : Nat) : Nat := r % 3 * 3 + c % 3

theorem boxfact4 : ∀ r, r < 9 → ∀ c, c < 9 →
    (BOX_IDX.getD (boxOfIdx (r * 9 + c)) []).getD (pos r c) 0 = r * 9 + c ∧
    (BOX_IDX.getD (boxOfIdx (r * 9 + c)) []).length = 9 := by decide +kernel

theorem boxOfIdx_cell (r c : Nat) (hc : c < 9) : boxOfIdx (r * 9 + c) = c / 3 * 3 + r / 3 := by
  unfold boxOfIdx
  have e1 : (r * 9 + c) % 9 = c := by omega
  have e2 : (r * 9 + c) / 9 = r := by omega
  rw [e1, e2]

theorem solved_units (b : Grid Int) (h : isSolved b = true) :
    (∀ row ∈ b, rowSolved row = true) ∧ (∀ col ∈ Grid.transpose b, rowSolved col = true) ∧
    (∀ idxs ∈ BOX_IDX, rowSolved (boxValsOf b idxs) = true) := by
  unfold isSolved at h
  simp only [Bool.and_eq_true, List.all_eq_true] at h
  refine ⟨h.1.1, h.1.2, fun idxs hi => ?_⟩
  exact h.2 _ (List.mem_map.2 ⟨idxs, hi, rfl⟩)

theorem solved_full (b : Grid Int) (hs : Grid.shaped b 9 9 = true) (h : isSolved b = true) : Full b := by
  have hb := (Grid.shaped_iff b 9 9).1 hs
  intro r hr c hc
  have hrow := (solved_units b h).1 (List.getD b r []) ((mem_iff_getD b 9 hb.1 [] _).2 ⟨r, hr, rfl⟩)
  have hl := hb.2 r hr
  unfold Grid.rowLen at hl
  have := (rowSolved_facts _ hrow).2.2 (cell b r c) ((mem_iff_getD _ 9 hl (-1) _).2 ⟨c, hc, rfl⟩)
  omega

theorem solved_inRange (b : Grid Int) (hs : Grid.shaped b 9 9 = true) (h : isSolved b = true) : InRange b := by
  have hb := (Grid.shaped_iff b 9 9).1 hs
  intro r hr c hc
  have hrow := (solved_units b h).1 (List.getD b r []) ((mem_iff_getD b 9 hb.1 [] _).2 ⟨r, hr, rfl⟩)
  have hl := hb.2 r hr
  unfold Grid.rowLen at hl
  have := (rowSolved_facts _ hrow).2.2 (cell b r c) ((mem_iff_getD _ 9 hl (-1) _).2 ⟨c, hc, rfl⟩)
  omega

theorem solved_conflictFree (b : Grid Int) (hs : Grid.shaped b 9 9 = true) (h : isSolved b = true) :
    ConflictFree b := by
  have hb := (Grid.shaped_iff b 9 9).1 hs
  obtain ⟨hrows, hcols, hboxes⟩ := solved_units b h
  intro r hr c hc r' hr' c' hc' ⟨hu, hne, _⟩
  unfold sameUnit at hu
  simp only [Bool.or_eq_true, Bool.and_eq_true, beq_iff_eq] at hu
  rcases hu with (rfl | rfl) | hu
  · -- same row
    have hrow := hrows (List.getD b r []) ((mem_iff_getD b 9 hb.1 [] _).2 ⟨r, hr, rfl⟩)
    obtain ⟨hnd, hlen, _⟩ := rowSolved_facts _ hrow
    exact nodup_getD_ne _ hnd (-1) c c' (by omega) (by omega) (fun e => hne ⟨rfl, e⟩)
  · -- same column
    have hcol := hcols (List.getD (Grid.transpose b) c [])
      ((mem_iff_getD _ 9 (transpose_length b hs) [] _).2 ⟨c, hc, rfl⟩)
    obtain ⟨hnd, hlen, _⟩ := rowSolved_facts _ hcol
    have := nodup_getD_ne _ hnd (-1) r r' (by omega) (by omega) (fun e => hne ⟨e, rfl⟩)
    rw [col_eq_map b hs c hc, getD_map _ _ _ [] _ (by omega), getD_map _ _ _ [] _ (by omega)] at this
    exact this
  · -- same box
    obtain ⟨f1, l1⟩ := boxfact4 r hr c hc
    obtain ⟨f2, _⟩ := boxfact4 r' hr' c' hc'
    have ebox : boxOfIdx (r' * 9 + c') = boxOfIdx (r * 9 + c) := by
      rw [boxOfIdx_cell r' c' hc', boxOfIdx_cell r c hc, hu.1, hu.2]
    rw [ebox] at f2
    have hmem : BOX_IDX.getD (boxOfIdx (r * 9 + c)) [] ∈ BOX_IDX := by
      have : boxOfIdx (r * 9 + c) < 9 := by rw [boxOfIdx_cell r c hc]; omega
      exact (mem_iff_getD BOX_IDX 9 rfl [] _).2 ⟨_, this, rfl⟩
    have hbox := hboxes _ hmem
    obtain ⟨hnd, hlen, _⟩ := rowSolved_facts _ hbox
    have hp1 : pos r c < 9 := by unfold pos; omega
    have hp2 : pos r' c' < 9 := by unfold pos; omega
    have hpne : pos r c ≠ pos r' c' := by
      unfold pos
      intro e
      apply hne
      have h1 := hu.1
      have h2 := hu.2
      constructor <;> omega
    have := nodup_getD_ne _ hnd (-1) (pos r c) (pos r' c') (by omega) (by omega) hpne
    unfold boxValsOf at this
    rw [getD_map _ _ _ 0 _ (by omega), getD_map _ _ _ 0 _ (by omega), f1, f2,
        flat_getD_cell b hs r c hr hc, flat_getD_cell b hs r' c' hr' hc'] at this
    exact this

/-- the reward test `is_puzzle_solved` only accepts complete feasible solutions -/
theorem solved_isSolution (b : Grid Int) (hs : Grid.shaped b 9 9 = true) (h : isSolved b = true) :
    IsSolution b :=
  ⟨⟨hs, solved_inRange b hs h, solved_conflictFree b hs h⟩, solved_full b hs h⟩

/-- C05: an illegal move played while a legal move exists never solves the puzzle: reward 0 -/
theorem illegal_reward (s : State) (hs : Grid.shaped s.board 9 9 = true) (r c d : Nat) (hr : r < 9)
    (hc : c < 9) (hd : d < 9) (h : ¬ legal s.board r c d) (hmove : ∃ r0 c0 d0, legal s.board r0 c0 d0) :
    (step s r c d).2.reward = [0] := by
  have hs' := shaped_place s.board hs r c d
  have hns : isSolved (place s.board r c d) = false := by
    cases hsol : isSolved (place s.board r c d)
    · rfl
    · exfalso
      have hfull := solved_full _ hs' hsol
      have hcf := solved_conflictFree _ hs' hsol
      by_cases hempty : cell s.board r c = -1
      · -- the digit clashes with a peer
        have : ¬ ∀ r', r' < 9 → ∀ c', c' < 9 → sameUnit r c r' c' = true → cell s.board r' c' ≠ (d : Int) :=
          fun hp => h ⟨hr, hc, hd, hempty, hp⟩
        apply this
        intro r' hr' c' hc' hu hcl
        have hne : ¬ (r = r' ∧ c = c') := by
          rintro ⟨rfl, rfl⟩
          rw [hempty] at hcl; omega
        have := hcf r hr c hc r' hr' c' hc' ⟨hu, hne, by rw [cell_place s.board hs r c d hr hc]; simp <;> omega⟩
        rw [cell_place s.board hs r c d hr hc, cell_place s.board hs r c d hr hc] at this
        have hne' : ¬ (r' = r ∧ c' = c) := fun e => hne ⟨e.1.symm, e.2.symm⟩
        simp only [true_and, if_true, if_neg hne'] at this
        exact this hcl.symm
      · -- an empty cell remains
        obtain ⟨r0, c0, d0, hr0, hc0, _, he0, _⟩ := hmove
        have hne : ¬ (r0 = r ∧ c0 = c) := by
          rintro ⟨rfl, rfl⟩; exact hempty he0
        have := hfull r0 hr0 c0 hc0
        rw [cell_place s.board hs r c d hr hc, if_neg hne] at this
        exact this he0
  have e : (step s r c d).2.reward = [if isSolved (applyAction s.board r c d) then 1 else 0] := by
    unfold step condLast termination transition
    simp only []
    split <;> rfl
  rw [e, applyAction_eq s.board hs r c d hr hc, hns]
  simp

/-! ### converse: a complete feasible board passes `is_puzzle_solved` -/

theorem strict_range (ys : List Int) (a : Int) (hs : ys.Pairwise (· < ·))
    (hr : ∀ v ∈ ys, a ≤ v ∧ v < a + ys.length) :
    ys = (List.range ys.length).map (fun (i : Nat) => a + (i : Int)) := by
  induction ys generalizing a with
  | nil => rfl
  | cons y ys ih =>
    rw [List.pairwise_cons] at hs
    have hy := hr y (by simp)
    have hr' : ∀ v ∈ ys, y + 1 ≤ v ∧ v < y + 1 + ys.length := by
      intro v hv
      have h1 := hs.1 v hv
      have h2 := hr v (by simp [hv])
      simp only [List.length_cons] at h2
      constructor <;> omega
    have e := ih (y + 1) hs.2 hr'
    have hya : y = a := by
      by_cases hk : ys.length = 0
      · simp only [List.length_cons, hk] at hy; omega
      · have hmem : y + 1 + ((ys.length - 1 : Nat) : Int) ∈ ys := by
          have hmem' : y + 1 + ((ys.length - 1 : Nat) : Int) ∈
              List.map (fun (i : Nat) => y + 1 + (i : Int)) (List.range ys.length) :=
            List.mem_map.2 ⟨ys.length - 1, List.mem_range.2 (by omega), rfl⟩
          rw [← e] at hmem'
          exact hmem'
        have := hr _ (List.mem_cons_of_mem _ hmem)
        simp only [List.length_cons] at this
        omega
    subst hya
    rw [List.length_cons, List.range_succ_eq_map, List.map_cons, List.map_map]
    congr 1
    · simp
    · rw [e]
      simp only [List.length_map, List.length_range]
      apply List.map_congr_left
      intro i _
      simp only [Function.comp]
      omega

theorem rowSolved_of (xs : List Int) (hn : xs.Nodup) (hl : xs.length = 9) (hr : ∀ v ∈ xs, 0 ≤ v ∧ v ≤ 8) :
    rowSolved xs = true := by
  unfold rowSolved sortInts
  have hp := List.mergeSort_perm xs (fun a b => decide (a ≤ b))
  have hsorted : (xs.mergeSort (fun a b => decide (a ≤ b))).Pairwise (· ≤ ·) := by
    have := List.pairwise_mergeSort (le := fun (a b : Int) => decide (a ≤ b))
      (fun a b c h1 h2 => by simp only [decide_eq_true_eq] at *; omega)
      (fun a b => by simp only [Bool.or_eq_true, decide_eq_true_eq]; omega) xs
    exact this.imp (fun h => by simpa using h)
  have hn' : (xs.mergeSort (fun a b => decide (a ≤ b))).Nodup := hp.nodup_iff.2 hn
  have hstrict : (xs.mergeSort (fun a b => decide (a ≤ b))).Pairwise (· < ·) := by
    unfold List.Nodup at hn'
    have := hsorted.and hn'
    exact this.imp (fun h => by omega)
  have hlen : (xs.mergeSort (fun a b => decide (a ≤ b))).length = 9 := by rw [hp.length_eq, hl]
  have := strict_range _ 0 hstrict (by
    intro v hv
    have := hr v (hp.mem_iff.1 hv)
    rw [hlen]; omega)
  rw [this, hlen]
  unfold W
  simp

theorem nodup_of_getD {α} (l : List α) (d : α) (h : ∀ i j, i < l.length → j < l.length → i ≠ j → l.getD i d ≠ l.getD j d) :
    l.Nodup := by
  unfold List.Nodup
  rw [List.pairwise_iff_getElem]
  intro i j hi hj hij
  have := h i j hi hj (by omega)
  simpa [List.getD_eq_getElem?_getD, hi, hj] using this

def BoxPairOK (k : Nat) : Prop :=
  (BOX_IDX.getD k []).length = 9 ∧
  ∀ p, p < 9 → ((BOX_IDX.getD k []).getD p 0) / 9 < 9 ∧ ((BOX_IDX.getD k []).getD p 0) % 9 < 9 ∧
    ∀ q, q < 9 → p ≠ q →
      sameUnit ((BOX_IDX.getD k []).getD p 0 / 9) ((BOX_IDX.getD k []).getD p 0 % 9)
        ((BOX_IDX.getD k []).getD q 0 / 9) ((BOX_IDX.getD k []).getD q 0 % 9) = true ∧
      ¬ ((BOX_IDX.getD k []).getD p 0 / 9 = (BOX_IDX.getD k []).getD q 0 / 9 ∧
         (BOX_IDX.getD k []).getD p 0 % 9 = (BOX_IDX.getD k []).getD q 0 % 9)
instance (k : Nat) : Decidable (BoxPairOK k) := by unfold BoxPairOK; infer_instance
theorem boxfact5 : ∀ k, k < 9 → BoxPairOK k := by decide +kernel

theorem isSolved_of_solution (b : Grid Int) (h : IsSolution b) : isSolved b = true := by
  obtain ⟨⟨hs, hin, hcf⟩, hfull⟩ := h
  have hb := (Grid.shaped_iff b 9 9).1 hs
  have hrange : ∀ r, r < 9 → ∀ c, c < 9 → 0 ≤ cell b r c ∧ cell b r c ≤ 8 := by
    intro r hr c hc
    have := hin r hr c hc
    have := hfull r hr c hc
    omega
  unfold isSolved
  simp only [Bool.and_eq_true, List.all_eq_true]
  refine ⟨⟨?_, ?_⟩, ?_⟩
  · -- rows
    intro row hrow
    obtain ⟨r, hr, rfl⟩ := (mem_iff_getD b 9 hb.1 [] _).1 hrow
    have hl := hb.2 r hr
    unfold Grid.rowLen at hl
    apply rowSolved_of _ _ hl
    · intro v hv
      obtain ⟨c, hc, rfl⟩ := (mem_iff_getD _ 9 hl (-1) _).1 hv
      exact hrange r hr c hc
    · apply nodup_of_getD _ (-1)
      intro i j hi hj hij
      exact hcf r hr i (by omega) r hr j (by omega) ⟨by simp [sameUnit], fun e => hij e.2, hfull r hr i (by omega)⟩
  · -- columns
    intro col hcol
    obtain ⟨c, hc, rfl⟩ := (mem_iff_getD _ 9 (transpose_length b hs) [] _).1 hcol
    rw [col_eq_map b hs c hc]
    have hl : (List.map (fun (row : List Int) => row.getD c (-1)) b).length = 9 := by simp [hb.1]
    apply rowSolved_of _ _ hl
    · intro v hv
      obtain ⟨r, hr, rfl⟩ := (mem_iff_getD _ 9 hl (-1) _).1 hv
      rw [getD_map _ _ _ [] _ (by omega)]
      exact hrange r hr c hc
    · apply nodup_of_getD _ (-1)
      intro i j hi hj hij
      rw [getD_map _ _ _ [] _ (by omega), getD_map _ _ _ [] _ (by omega)]
      exact hcf i (by omega) c hc j (by omega) c hc ⟨by simp [sameUnit], fun e => hij e.1, hfull i (by omega) c hc⟩
  · -- boxes
    intro bx hbx
    rw [List.mem_map] at hbx
    obtain ⟨idxs, hidxs, rfl⟩ := hbx
    obtain ⟨k, hk, rfl⟩ := (mem_iff_getD BOX_IDX 9 rfl [] _).1 hidxs
    obtain ⟨hlen, hpairs⟩ := boxfact5 k hk
    have hl : (List.map (fun (i : Nat) => Jx.getWC (List.flatten b) 0 (i : Int)) (BOX_IDX.getD k [])).length = 9 := by
      rw [List.length_map, hlen]
    have hval : ∀ p, p < 9 → (List.map (fun (i : Nat) => Jx.getWC (List.flatten b) 0 (i : Int)) (BOX_IDX.getD k [])).getD p (-1) =
        cell b ((BOX_IDX.getD k []).getD p 0 / 9) ((BOX_IDX.getD k []).getD p 0 % 9) := by
      intro p hp
      obtain ⟨h1, h2, _⟩ := hpairs p hp
      rw [getD_map _ _ _ 0 _ (by omega)]
      have e : (BOX_IDX.getD k []).getD p 0 = (BOX_IDX.getD k []).getD p 0 / 9 * 9 + (BOX_IDX.getD k []).getD p 0 % 9 := by omega
      rw [e, flat_getD_cell b hs _ _ h1 h2, ← e]
    apply rowSolved_of _ _ hl
    · intro v hv
      obtain ⟨p, hp, rfl⟩ := (mem_iff_getD _ 9 hl (-1) _).1 hv
      rw [hval p hp]
      obtain ⟨h1, h2, _⟩ := hpairs p hp
      exact hrange _ h1 _ h2
    · apply nodup_of_getD _ (-1)
      intro i j hi hj hij
      rw [hval i (by omega), hval j (by omega)]
      obtain ⟨h1, h2, hq⟩ := hpairs i (by omega)
      obtain ⟨h3, h4, _⟩ := hpairs j (by omega)
      obtain ⟨hu, hne⟩ := hq j (by omega) hij
      exact hcf _ h1 _ h2 _ h3 _ h4 ⟨hu, hne, hfull _ h1 _ h2⟩

theorem isSolved_iff_solution (b : Grid Int) (hs : Grid.shaped b 9 9 = true) :
    isSolved b = true ↔ IsSolution b :=
  ⟨solved_isSolution b hs, isSolved_of_solution b⟩

theorem step_reward (s : State) (r c d : Int) :
    (step s r c d).2.reward = [if isSolved (step s r c d).1.board then 1 else 0] := by
  unfold step condLast termination transition
  simp only []
  split <;> rfl

/-- the puzzle of `DummyGenerator` (used in the `example`s of Props/Env/Sudoku.lean) -/
def sampleBoard : Grid Int :=
  [[-1, -1, -1, 7, -1, 0, -1, -1, -1],
   [-1, -1, -1, -1, -1, -1, -1, 3, 2],
   [4, -1, -1, -1, -1, -1, -1, -1, -1],
   [-1, -1, -1, -1, 6, -1, 7, -1, -1],
   [-1, -1, -1, -1, -1, -1, 0, -1, -1],
   [-1, 1, -1, -1, 2, -1, -1, -1, -1],
   [5, -1, -1, -1, -1, -1, -1, 6, 4],
   [-1, -1, 2, 3, -1, -1, -1, -1, -1],
   [-1, -1, -1, 1, -1, -1, 5, -1, -1]]

end Sudoku
