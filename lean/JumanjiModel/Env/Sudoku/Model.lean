/-
Sudoku (jumanji/environments/logic/sudoku/{env,utils,reward,generator,constants}.py).  Import-free.

L1 = transliteration of `step`, `utils.apply_action`, `utils.get_action_mask` (empty-cell mask,
`one_hot(...).any` row / column / box masks, the gather / multiply / scatter through `BOX_IDX`),
`utils.is_puzzle_solved` (sort == arange on rows, columns, boxes) and `SparseRewardFn`.  The
validity test of `step` reads the mask *cached in the state*.
L2 = the rules (docs/environments/sudoku.md and the game): a digit may be written into an empty cell
when it does not yet occur in the cell's row, column and 3x3 box; `ConflictFree`, `IsSolution`.
-/
import JumanjiModel.Prim.Idx
import JumanjiModel.Prim.Grid
import JumanjiModel.Core.TimeStep
namespace Sudoku
open Jm Jx

abbrev Mask := List (List (List Bool))     -- (9, 9, 9): row, column, digit

structure State where
  board : Grid Int
  mask : Mask               -- cached action_mask
  deriving Repr, DecidableEq

structure Obs where
  board : Grid Int
  mask : Mask
  deriving Repr, DecidableEq

/-! ### L1 -/

def W : Nat := 9

/-- `constants.BOX_IDX` -/
def BOX_IDX : List (List Nat) :=
  [[0, 1, 2, 9, 10, 11, 18, 19, 20],
   [27, 28, 29, 36, 37, 38, 45, 46, 47],
   [54, 55, 56, 63, 64, 65, 72, 73, 74],
   [3, 4, 5, 12, 13, 14, 21, 22, 23],
   [30, 31, 32, 39, 40, 41, 48, 49, 50],
   [57, 58, 59, 66, 67, 68, 75, 76, 77],
   [6, 7, 8, 15, 16, 17, 24, 25, 26],
   [33, 34, 35, 42, 43, 44, 51, 52, 53],
   [60, 61, 62, 69, 70, 71, 78, 79, 80]]

/-- `~one_hot(xs, 9).any(axis=0)`: digit `d` does not occur in `xs` (−1 and out-of-range values have
an all-zero one-hot row) -/
def absentMask (xs : List Int) : List Bool :=
  (List.range W).map (fun (d : Nat) => !(xs.any (fun v => v == (d : Int))))

/-- `xs.reshape(nr, nc)` of a flat list -/
def reshape {α} (xs : List α) (nr nc : Nat) : List (List α) :=
  (List.range nr).map (fun r => (xs.drop (r * nc)).take nc)

/-- `xs.at[idx].set(vals)` with an index vector (sequential scatter; wrap, drop) -/
def scatter {α} (xs : List α) (idx : List Nat) (vals : List α) : List α :=
  (List.zip idx vals).foldl (fun acc iv => Jx.setWD acc (iv.1 : Int) iv.2) xs

/-- `get_action_mask` -/
def maskOf (board : Grid Int) : Mask :=
  let flat := List.flatten board
  -- action_mask = (board == -1)[..., None].repeat(9, -1), reshaped to (81, 9)
  let am0 : List (List Bool) := flat.map (fun v => List.replicate W (v == -1))
  let rowMask : List (List Bool) := List.map absentMask board
  let colMask : List (List Bool) := List.map absentMask (Grid.transpose board)
  -- boxes = board.reshape(81).take(BOX_IDX)   (constant in-range indices)
  let boxes : List (List Int) := BOX_IDX.map (fun idxs => idxs.map (fun (i : Nat) => Jx.getWC flat 0 (i : Int)))
  let boxMask : List (List Bool) := boxes.map absentMask
  -- boxes_action_mask = am0[BOX_IDX] * box_mask.reshape(9, 1, 9)
  let bam : List (List (List Bool)) :=
    List.zipWith (fun idxs bm => idxs.map (fun (i : Nat) => List.zipWith (· && ·) (Jx.getWC am0 [] (i : Int)) bm))
      BOX_IDX boxMask
  -- am0.at[BOX_IDX].set(boxes_action_mask).reshape(9, 9, 9)
  let am1 : List (List Bool) := scatter am0 (List.flatten BOX_IDX) (List.flatten bam)
  let am2 : Mask := reshape am1 W W
  -- &= row_mask.reshape(9, 1, 9); &= column_mask.reshape(1, 9, 9)
  List.zipWith (fun rowCells rm =>
    List.zipWith (fun cellMask cm => List.zipWith (· && ·) (List.zipWith (· && ·) cellMask rm) cm)
      rowCells colMask) am2 rowMask

/-- `apply_action`: `board.at[a0, a1].set(a2)` -/
def applyAction (board : Grid Int) (r c d : Int) : Grid Int := Grid.setWD board r c d

/-- `mask[a0, a1, a2]` (gather: wrap + clamp on the three axes) -/
def maskAt (m : Mask) (r c d : Int) : Bool := Jx.getWC (Jx.getWC (Jx.getWC m [] r) [] c) false d

def sortInts (xs : List Int) : List Int := xs.mergeSort (fun a b => decide (a ≤ b))

/-- `_validate_row` of `is_puzzle_solved`: `(sort(row) == arange(9)).all()` -/
def rowSolved (xs : List Int) : Bool := sortInts xs == (List.range W).map (fun (d : Nat) => (d : Int))

/-- `is_puzzle_solved` (`jnp.take(board, BOX_IDX)` takes from the flattened board) -/
def isSolved (board : Grid Int) : Bool :=
  let flat := List.flatten board
  let boxes := BOX_IDX.map (fun idxs => idxs.map (fun (i : Nat) => Jx.getWC flat 0 (i : Int)))
  List.all board rowSolved && List.all (Grid.transpose board) rowSolved && List.all boxes rowSolved

def anyMask (m : Mask) : Bool := List.any m (fun r => List.any r (fun c => List.any c id))

def step (s : State) (r c d : Int) : State × TimeStep Obs :=
  let invalid := !(maskAt s.mask r c d)
  let board := applyAction s.board r c d
  let mask := maskOf board
  let s' : State := { board := board, mask := mask }
  let noActions := !(anyMask mask)
  let done := invalid || noActions
  let rew : Rat := if isSolved board then 1 else 0
  (s', condLast done [rew] { board := board, mask := mask })

/-! ### L2: the rules -/

/-- content of a cell: −1 empty, 0..8 a digit -/
def cell (b : Grid Int) (r c : Nat) : Int := Grid.get b (-1) r c

/-- two cells share a row, a column or a 3x3 box -/
def sameUnit (r c r' c' : Nat) : Bool := r == r' || c == c' || (r / 3 == r' / 3 && c / 3 == c' / 3)

/-- digit `d` may be written at `(r, c)`: the cell is empty and `d` occurs nowhere in its row,
column and box -/
def legal (b : Grid Int) (r c d : Nat) : Prop :=
  r < 9 ∧ c < 9 ∧ d < 9 ∧ cell b r c = -1 ∧
  ∀ r', r' < 9 → ∀ c', c' < 9 → sameUnit r c r' c' = true → cell b r' c' ≠ (d : Int)

instance (b : Grid Int) (r c d : Nat) : Decidable (legal b r c d) := by unfold legal; infer_instance

/-- the table of legal moves in the layout of `action_mask` -/
def legalTable (b : Grid Int) : Mask :=
  (List.range 9).map (fun r => (List.range 9).map (fun c => (List.range 9).map (fun d => decide (legal b r c d))))

/-- every cell is empty or holds a digit 0..8 -/
def InRange (b : Grid Int) : Prop :=
  ∀ r, r < 9 → ∀ c, c < 9 → -1 ≤ cell b r c ∧ cell b r c ≤ 8

/-- the digit of cell `(r, c)` (if any) occurs in no other cell of its row, column and box -/
def CellOK (b : Grid Int) (r c : Nat) : Prop :=
  ∀ r', r' < 9 → ∀ c', c' < 9 →
    (sameUnit r c r' c' = true ∧ ¬ (r = r' ∧ c = c') ∧ cell b r c ≠ -1) → cell b r c ≠ cell b r' c'

instance (b : Grid Int) (r c : Nat) : Decidable (CellOK b r c) := by unfold CellOK; infer_instance

/-- no digit occurs twice in a row, column or box -/
def ConflictFree (b : Grid Int) : Prop := ∀ r, r < 9 → ∀ c, c < 9 → CellOK b r c

/-- hard constraint of the puzzle (C06), recomputed from the raw board -/
def Feasible (b : Grid Int) : Prop := Grid.shaped b 9 9 = true ∧ InRange b ∧ ConflictFree b

def Full (b : Grid Int) : Prop := ∀ r, r < 9 → ∀ c, c < 9 → cell b r c ≠ -1

/-- complete feasible solution -/
def IsSolution (b : Grid Int) : Prop := Feasible b ∧ Full b

instance (b : Grid Int) : Decidable (InRange b) := by unfold InRange; infer_instance
instance (b : Grid Int) : Decidable (ConflictFree b) := by unfold ConflictFree; infer_instance
instance (b : Grid Int) : Decidable (Feasible b) := by unfold Feasible; infer_instance
instance (b : Grid Int) : Decidable (Full b) := by unfold Full; infer_instance
instance (b : Grid Int) : Decidable (IsSolution b) := by unfold IsSolution; infer_instance

/-- number of empty cells -/
def emptyCells (b : Grid Int) : Nat := Grid.count (fun v => v == -1) b

/-- L2 placement: write digit `d` at `(r, c)` -/
def place (b : Grid Int) (r c d : Nat) : Grid Int := Grid.set b r c (d : Int)

/-- documented observation: the board and the table of valid actions -/
def observe (s : State) : Obs := { board := s.board, mask := legalTable s.board }

/-- the mask cached in the state is the table of legal moves of its board -/
def CachedOK (s : State) : Prop := s.mask = legalTable s.board
instance (s : State) : Decidable (CachedOK s) := by unfold CachedOK; infer_instance

end Sudoku
