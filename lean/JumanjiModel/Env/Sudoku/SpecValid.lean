/-
Sudoku — C01 spec membership (wave 4): the declared specs as `Sp` values (`obsSpec`, `actionSpec`; the environment has no
size parameter), the model observation as the spec-level arrays the implementation emits (`toNValue`: `board` then
`action_mask`, shapes READ OFF the values, the 9×9×9 mask flattened row-major), membership of the observation of `reset`
(every feasible board; every board of the shipped databases: Props/Env/Sudoku.lean) and of EVERY `step` with an in-spec
action (any cell — empty or filled —, any digit 0..8, legal or not, terminal or not) from a state satisfying the invariant
`SpecInv` (the board is 9×9 and every cell is −1 or a digit 0..8), which reset establishes and every such step preserves;
whole rollouts; the converse (`obs_valid_only`); reward / discount / action spec.

The declared maximum of `board` is `BOARD_WIDTH = 9`; the model proves the tighter `[-1, 8]` (`CellsInRange`, Bounds.lean), so
the declared interval is not attained at its upper end (`obs_valid_only` states what `validate` forces: `[-1, 9]`).
-/
import JumanjiModel.Env.Sudoku.Bounds
import JumanjiModel.Env.Sudoku.RunLemmas
import JumanjiModel.Env.PackSpecValid
import JumanjiModel.Env.SpecValidW3
namespace Sudoku
open Jm Jx Sp PzS PkS PzB

/-! ### the declared specs (env.py `observation_spec`, `action_spec`) -/

/-- `observation_spec`: `board` BoundedArray((9, 9), int32, −1, 9), `action_mask` BoundedArray((9, 9, 9), bool, False, True) -/
def obsSpec : Sp.Nested :=
  [("board", .bounded [9, 9] .int32 "board" [] [((-1 : Int) : Rat)] [] [((9 : Int) : Rat)]),
   ("action_mask", .bounded [9, 9, 9] .bool "action_mask" [] [0] [] [1])]

/-- `action_spec`: MultiDiscreteArray([9, 9, 9], int32) -/
def actionSpec : Leaf := .multiDiscrete [3] [9, 9, 9] .int32 "action"

/-- a model observation as the arrays the implementation emits -/
def toNValue (o : Obs) : NValue :=
  [("board", ⟨shape2 o.board, .int32, ofInts (List.flatten o.board)⟩),
   ("action_mask", ⟨shape3 o.mask, .bool, ofBools (List.flatten (List.flatten o.mask))⟩)]

def actionArr (r c d : Int) : Arr := ⟨[3], .int32, [(r : Rat), (c : Rat), (d : Rat)]⟩

/-- what membership amounts to -/
def ObsOK (o : Obs) : Prop :=
  Rect2 o.board 9 9 ∧ (∀ v ∈ List.flatten o.board, -1 ≤ v ∧ v ≤ 9) ∧ Rect3 o.mask 9 9 9

theorem obs_valid (o : Obs) (h : ObsOK o) : obsSpec.valid (toNValue o) = true := by
  obtain ⟨h1, h2, h3⟩ := h
  have v1 := valid_bounded2 9 9 .int32 "board" ((-1 : Int) : Rat) ((9 : Int) : Rat) o.board ofInts ofInts_length h1
    (by omega) (ofInts_bounds _ (-1) 9 h2)
  have v2 := valid_bounded3 9 9 9 .bool "action_mask" 0 1 o.mask ofBools ofBools_length h3 (by omega) (by omega)
    (ofBools_bounds _)
  simp only [Nested.valid, obsSpec, toNValue, List.map, List.zipWith, List.all, v1, v2, id, Bool.and_self, beq_self_eq_true]

/-- … and conversely `validate` accepts nothing else: `board` is 9×9 with cells in `[-1, 9]`, the mask is 9×9×9 -/
theorem obs_valid_only (o : Obs) (h : obsSpec.valid (toNValue o) = true) :
    shape2 o.board = [9, 9] ∧ (List.flatten o.board).length = 81 ∧ (∀ v ∈ List.flatten o.board, -1 ≤ v ∧ v ≤ 9) ∧
    shape3 o.mask = [9, 9, 9] ∧ (List.flatten (List.flatten o.mask)).length = 729 := by
  simp only [Nested.valid, obsSpec, toNValue, List.map_cons, List.map_nil, List.zipWith_cons_cons, List.zipWith_nil_right,
    List.all_cons, List.all_nil, id, Bool.and_true, Bool.and_eq_true, beq_self_eq_true, true_and] at h
  obtain ⟨h1, h2⟩ := h
  rw [valid_scalar_bounded_iff] at h1 h2
  refine ⟨h1.1, ?_, ofInts_bounds_conv _ (-1) 9 h1.2.2.2, h2.1, ?_⟩
  · have := h1.2.2.1
    simp only [ofInts_length] at this
    simpa [prod] using this
  · have := h2.2.2.1
    simp only [ofBools_length] at this
    simpa [prod] using this

/-! ### the invariant -/

/-- the invariant behind the membership theorems: a 9×9 board whose cells are −1 (empty) or digits 0..8 -/
def SpecInv (s : State) : Prop := Grid.shaped s.board 9 9 = true ∧ CellsInRange s.board
instance (s : State) : Decidable (SpecInv s) := by unfold SpecInv; infer_instance

theorem mask_rect (b : Grid Int) (hs : Grid.shaped b 9 9 = true) : Rect3 (maskOf b) 9 9 9 := by
  rw [maskOf_eq_legalTable b hs]
  obtain ⟨h1, h2⟩ := legalTable_shaped b
  exact ⟨h1, fun m hm => rect2_of_shaped (h2 m hm)⟩

theorem cells_le9 (b : Grid Int) (h : CellsInRange b) : ∀ v ∈ List.flatten b, -1 ≤ v ∧ v ≤ 9 := by
  intro v hv
  obtain ⟨row, hrow, hv'⟩ := List.mem_flatten.mp hv
  have := h row hrow v hv'
  omega

theorem obsOK_of_inv (b : Grid Int) (hs : Grid.shaped b 9 9 = true) (hc : CellsInRange b) :
    ObsOK { board := b, mask := maskOf b } :=
  ⟨rect2_of_shaped hs, cells_le9 b hc, mask_rect b hs⟩

theorem reset_specInv (b : Grid Int) (hs : Grid.shaped b 9 9 = true) (hc : CellsInRange b) : SpecInv (reset b).1 :=
  ⟨hs, hc⟩

/-- EVERY step whose digit is one of the action space (row and column: ANY integers) keeps the invariant — the cell may be
filled already, the move may be illegal, the step may be terminal -/
theorem step_specInv (s : State) (h : SpecInv s) (r c d : Int) (hd : 0 ≤ d ∧ d ≤ 8) : SpecInv (step s r c d).1 :=
  ⟨Grid.l_shaped_setWD h.1 d r c, step_cellsInRange s r c d h.2 ⟨by omega, hd.2⟩⟩

/-! ### C01: reset / step / rollouts emit members of the declared spec -/

/-- the `reset` observation on top of ANY 9×9 board with cells in −1..8 -/
theorem reset_obs_valid (b : Grid Int) (hs : Grid.shaped b 9 9 = true) (hc : CellsInRange b) :
    obsSpec.valid (toNValue (reset b).2.obs) = true := obs_valid _ (obsOK_of_inv b hs hc)

/-- … in particular on top of every feasible board (the generator certificate of C10 / C06) -/
theorem reset_obs_valid_of_feasible (b : Grid Int) (hf : Feasible b) :
    obsSpec.valid (toNValue (reset b).2.obs) = true ∧ SpecInv (reset b).1 :=
  ⟨reset_obs_valid b hf.1 (cellsInRange_of_feasible b hf), hf.1, cellsInRange_of_feasible b hf⟩

theorem step_obs_valid (s : State) (h : SpecInv s) (r c d : Int) (hd : 0 ≤ d ∧ d ≤ 8) :
    obsSpec.valid (toNValue (step s r c d).2.obs) = true := by
  have h' := step_specInv s h r c d hd
  rw [obs_copied]
  exact obs_valid _ (obsOK_of_inv _ h'.1 h'.2)

/-- whole episodes and beyond: along the rollout (`Ep.rollout` = the L1 step iterated, no stop at LAST) of ANY in-spec actions
from a state satisfying the invariant, EVERY emitted observation is a member of the spec -/
theorem rollout_obs_valid (s : State) (h : SpecInv s) (as : List Action) (has : ∀ a ∈ as, InSpec a)
    (j : Nat) (e : State × TimeStep Obs) (he : (Ep.rollout stepA s as)[j]? = some e) :
    obsSpec.valid (toNValue e.2.obs) = true ∧ SpecInv e.1 := by
  obtain ⟨s', a, hinv, ha, rfl⟩ := rollout_inv_idx stepA (fun _ s => SpecInv s) InSpec
    (fun _ s a h ha => step_specInv s h _ _ _ ⟨by omega, by have := ha.2.2; omega⟩) 0 s h as has j e he
  have hd : (0 : Int) ≤ (a.2.2 : Int) ∧ (a.2.2 : Int) ≤ 8 := ⟨by omega, by have := ha.2.2; omega⟩
  exact ⟨step_obs_valid s' hinv _ _ _ hd, step_specInv s' hinv _ _ _ hd⟩

/-! ### reward, discount, action spec -/

theorem step_protocol (s : State) (r c d : Int) : StepOK none false (step s r c d).2 = true := by
  unfold step; exact condLast_stepOK _ _ _

theorem step_reward_discount_valid (s : State) (r c d : Int) :
    rewardSpec.valid (scalarArr (step s r c d).2.reward) = true ∧
    discountSpec.valid (scalarArr (step s r c d).2.discount) = true :=
  stepOK_reward_discount_valid false _ (step_protocol s r c d)

theorem reset_reward_discount_valid (b : Grid Int) :
    rewardSpec.valid (scalarArr (reset b).2.reward) = true ∧
    discountSpec.valid (scalarArr (reset b).2.discount) = true := by
  unfold reset; simp only [restart]; exact ⟨by decide, by decide⟩

/-- membership in `action_spec` is exactly "row, column and digit all below 9" -/
theorem actionSpec_valid_iff (r c d : Nat) :
    actionSpec.valid (actionArr (r : Int) (c : Int) (d : Int)) = true ↔ InSpec (r, c, d) := by
  rw [Leaf.valid_iff]
  simp only [actionSpec, Leaf.shape, Leaf.dtype, Leaf.lower, Leaf.upper, actionArr, prod, InSpec]
  constructor
  · rintro ⟨_, _, _, h⟩
    rcases h with ⟨h, _⟩ | ⟨lo, hi, hl, hu, hall⟩
    · simp at h
    · simp only [Option.some.injEq] at hl hu
      subst hl; subst hu
      have h0 := hall 0 (by simp) (by simp)
      have h1 := hall 1 (by simp) (by simp)
      have h2 := hall 2 (by simp) (by simp)
      simp only [List.map_cons, List.map_nil, List.zip_cons_cons, List.getElem_cons_zero, List.getElem_cons_succ] at h0 h1 h2
      have a0 : ((r : Int) : Rat) ≤ (((9 : Nat) : Int) - 1 : Int) := h0.2
      have a1 : ((c : Int) : Rat) ≤ (((9 : Nat) : Int) - 1 : Int) := h1.2
      have a2 : ((d : Int) : Rat) ≤ (((9 : Nat) : Int) - 1 : Int) := h2.2
      have b0 := Rat.intCast_le_intCast.mp a0
      have b1 := Rat.intCast_le_intCast.mp a1
      have b2 := Rat.intCast_le_intCast.mp a2
      omega
  · rintro ⟨hr, hc, hd⟩
    refine ⟨trivial, trivial, by simp, Or.inr ⟨_, _, rfl, rfl, ?_⟩⟩
    intro k h1 h2
    have hk : k = 0 ∨ k = 1 ∨ k = 2 := by simp at h1; omega
    rcases hk with rfl | rfl | rfl
    · simp only [List.map_cons, List.map_nil, List.zip_cons_cons, List.getElem_cons_zero]
      exact ⟨by exact_mod_cast Int.natCast_nonneg r,
        Rat.intCast_le_intCast.mpr (by omega : (r : Int) ≤ ((9 : Nat) : Int) - 1)⟩
    · simp only [List.map_cons, List.map_nil, List.zip_cons_cons, List.getElem_cons_succ, List.getElem_cons_zero]
      exact ⟨by exact_mod_cast Int.natCast_nonneg c,
        Rat.intCast_le_intCast.mpr (by omega : (c : Int) ≤ ((9 : Nat) : Int) - 1)⟩
    · simp only [List.map_cons, List.map_nil, List.zip_cons_cons, List.getElem_cons_succ, List.getElem_cons_zero]
      exact ⟨by exact_mod_cast Int.natCast_nonneg d,
        Rat.intCast_le_intCast.mpr (by omega : (d : Int) ≤ ((9 : Nat) : Int) - 1)⟩

/-- `action_spec.generate_value()` = (0, 0, 0): the action spec is well-formed, the generated value is a member, `step`
answers it in EVERY state with a protocol-conform timestep and — from a state satisfying the invariant — with an
observation in the spec -/
theorem accepts_generate_value (s : State) :
    actionSpec.WF = true ∧ actionSpec.valid actionSpec.generate = true ∧ actionSpec.generate = actionArr 0 0 0 ∧
    StepOK none false (step s 0 0 0).2 = true ∧ (SpecInv s → obsSpec.valid (toNValue (step s 0 0 0).2.obs) = true) :=
  ⟨by decide, by decide, by decide, step_protocol s 0 0 0, fun h => step_obs_valid s h 0 0 0 (by omega)⟩

end Sudoku
