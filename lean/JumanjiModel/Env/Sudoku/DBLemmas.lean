/-
Soundness of the packed-board checker of Env/Sudoku/DBCheck.lean:
`fastOK n = true → boardOK (decodeBoard n) = true` for EVERY code `n` (proved, not evaluated), and the lifting of the
per-chunk kernel runs of Gen/SudokuDB*.lean to all boards.  Core Lean only.
-/
import JumanjiModel.Env.Sudoku.DBCheck
namespace Sudoku
open Jx
namespace DB

/-! ### bits of a cell byte -/

theorem byteAt_testBit (n i k : Nat) :
    (byteAt n i).testBit k = (decide (k < 8) && n.testBit (pos i + k)) := by
  unfold byteAt
  rw [show (255 : Nat) = 2 ^ 8 - 1 from rfl, Nat.and_two_pow_sub_one_eq_mod, Nat.testBit_mod_two_pow,
    Nat.testBit_shiftRight]

theorem byteAt_lt (n i : Nat) : byteAt n i < 256 := by
  unfold byteAt
  rw [show (255 : Nat) = 2 ^ 8 - 1 from rfl, Nat.and_two_pow_sub_one_eq_mod]
  exact Nat.mod_lt _ (by decide)

theorem bit0 (n i : Nat) : n.testBit (pos i) = (byteAt n i).testBit 0 := by
  rw [byteAt_testBit]; simp
theorem bitk (n i k : Nat) (hk : k < 8) : n.testBit (pos i + k) = (byteAt n i).testBit k := by
  rw [byteAt_testBit]; simp [hk]

/-- a byte whose bits 4..7 are clear and which is not 1010, 1011, 11xx is at most 9 -/
theorem byte_le9 : ∀ v, v < 256 → (v.testBit 4 || v.testBit 5 || v.testBit 6 || v.testBit 7 ||
    (v.testBit 3 && (v.testBit 2 || v.testBit 1))) = false → v ≤ 9 := by decide +kernel

/-- for a value 0..9: non-zero iff one of the bits 0..3 is set -/
theorem byte_nz : ∀ v, v < 10 →
    (((v.testBit 0 || v.testBit 2) || (v.testBit 1 || v.testBit 3)) = true ↔ v ≠ 0) := by decide +kernel

theorem nzFlags_testBit (x p : Nat) : (nzFlags x).testBit p =
    ((x.testBit p || x.testBit (p + 2)) || (x.testBit (p + 1) || x.testBit (p + 3))) := by
  unfold nzFlags
  simp only [Nat.testBit_or, Nat.testBit_shiftRight]
  rw [show 2 + p = p + 2 by omega, show 1 + p = p + 1 by omega, show 2 + (p + 1) = p + 3 by omega]

/-! ### the constants (by evaluation) -/

theorem ONES_pos : ∀ i, i < 81 → ONES.testBit (pos i) = true := by decide +kernel

theorem HI_pos : ∀ i, i < 81 → (HI.testBit (pos i + 4) && HI.testBit (pos i + 5) && HI.testBit (pos i + 6)
    && HI.testBit (pos i + 7)) = true := by decide +kernel

theorem ONES_only_low : ∀ p, p < 648 → ONES.testBit p = true → p % 8 = 0 := by decide +kernel

set_option exponentiation.threshold 700 in
theorem ONES_lt : ONES < 2 ^ 648 := by decide +kernel

set_option exponentiation.threshold 700 in
theorem ONES_only (p : Nat) (h : ONES.testBit p = true) : ∃ i, i < 81 ∧ p = pos i := by
  have hp : p < 648 := by
    apply Decidable.byContradiction
    intro hge
    have hlt : ONES < 2 ^ p := Nat.lt_of_lt_of_le ONES_lt
      (Nat.pow_le_pow_right (by decide) (by omega))
    rw [Nat.testBit_lt_two_pow hlt] at h
    exact Bool.noConfusion h
  have h8 := ONES_only_low p hp h
  refine ⟨80 - p / 8, by omega, ?_⟩
  unfold pos; omega

/-- two cells given by their numbers share a row, a column or a box -/
def peerIdx (i j : Nat) : Bool := sameUnit (i / 9) (i % 9) (j / 9) (j % 9)

/-- every pair of peers `i < j` is covered by the entry of `offsets` for the distance `j - i` -/
theorem offsets_cover : ∀ i, i < 81 → ∀ j, j < 81 → i < j → (peerIdx i j || peerIdx j i) = true →
    offsets.any (fun e => e.1 == 8 * (j - i) && e.2.testBit (pos j)) = true := by decide +kernel

/-! ### the three parts of the checker -/

theorem range_sound (n : Nat) (h : rangeOK n = true) (i : Nat) (hi : i < 81) : byteAt n i ≤ 9 := by
  unfold rangeOK at h
  simp only [Bool.and_eq_true, beq_iff_eq] at h
  obtain ⟨h1, h2⟩ := h
  have hb : ∀ k, (n.testBit (pos i + k) && HI.testBit (pos i + k)) = false := by
    intro k; rw [← Nat.testBit_and, h1]; exact Nat.zero_testBit _
  have hH := HI_pos i hi
  simp only [Bool.and_eq_true] at hH
  obtain ⟨⟨⟨H4, H5⟩, H6⟩, H7⟩ := hH
  have b4 := hb 4; have b5 := hb 5; have b6 := hb 6; have b7 := hb 7
  rw [H4, Bool.and_true] at b4; rw [H5, Bool.and_true] at b5
  rw [H6, Bool.and_true] at b6; rw [H7, Bool.and_true] at b7
  have c : ((n >>> 3 &&& (n >>> 2 ||| n >>> 1)) &&& ONES).testBit (pos i) = false := by
    rw [h2]; exact Nat.zero_testBit _
  simp only [Nat.testBit_and, Nat.testBit_or, Nat.testBit_shiftRight, ONES_pos i hi, Bool.and_true] at c
  rw [show 3 + pos i = pos i + 3 by omega, show 2 + pos i = pos i + 2 by omega,
    show 1 + pos i = pos i + 1 by omega] at c
  rw [bitk n i 4 (by decide)] at b4; rw [bitk n i 5 (by decide)] at b5
  rw [bitk n i 6 (by decide)] at b6; rw [bitk n i 7 (by decide)] at b7
  rw [bitk n i 3 (by decide), bitk n i 2 (by decide), bitk n i 1 (by decide)] at c
  exact byte_le9 _ (byteAt_lt n i) (by rw [b4, b5, b6, b7, c]; rfl)

/-- the flag of cell `i` in `nzFlags n` (cells in range) -/
theorem nz_flag (n i : Nat) (h9 : byteAt n i ≤ 9) : (nzFlags n).testBit (pos i) = true ↔ byteAt n i ≠ 0 := by
  rw [nzFlags_testBit, bit0, bitk n i 2 (by decide), bitk n i 1 (by decide), bitk n i 3 (by decide)]
  exact byte_nz _ (by omega)

theorem empty_sound (n : Nat) (hr : ∀ i, i < 81 → byteAt n i ≤ 9) (h : emptyOK n = true) :
    ∃ i, i < 81 ∧ byteAt n i = 0 := by
  apply Decidable.byContradiction
  intro hne
  have hall : ∀ i, i < 81 → byteAt n i ≠ 0 := fun i hi h0 => hne ⟨i, hi, h0⟩
  have heq : nzFlags n &&& ONES = ONES := by
    apply Nat.eq_of_testBit_eq
    intro p
    rw [Nat.testBit_and]
    cases hO : ONES.testBit p with
    | false => simp
    | true =>
      obtain ⟨i, hi, rfl⟩ := ONES_only p hO
      rw [(nz_flag n i (hr i hi)).2 (hall i hi)]; rfl
  unfold emptyOK at h
  rw [heq] at h
  simp at h

/-- the bits of `n ^^^ (n >>> 8 * (j - i))` at cell `j` compare cell `j` with cell `i` -/
theorem xor_bit (n i j k : Nat) (hij : i < j) (hj : j < 81) (hk : k < 8) :
    (n ^^^ (n >>> (8 * (j - i)))).testBit (pos j + k) = ((byteAt n j).testBit k ^^ (byteAt n i).testBit k) := by
  rw [Nat.testBit_xor, Nat.testBit_shiftRight, show 8 * (j - i) + (pos j + k) = pos i + k by unfold pos; omega,
    bitk n j k hk, bitk n i k hk]

theorem pair_sound (n m i j : Nat) (hij : i < j) (hj : j < 81) (hm : m.testBit (pos j) = true)
    (hp : pairOK n (nzFlags n) (8 * (j - i)) m = true) (hj9 : byteAt n j ≤ 9) (hnz : byteAt n j ≠ 0) :
    byteAt n i ≠ byteAt n j := by
  intro heq
  unfold pairOK at hp
  have h0 := beq_iff_eq.1 hp
  have w : (nzFlags n &&& (nzFlags (n ^^^ n >>> (8 * (j - i))) ^^^ ONES) &&& m).testBit (pos j) = false := by
    rw [h0]; exact Nat.zero_testBit _
  rw [Nat.testBit_and, Nat.testBit_and, Nat.testBit_xor, hm, ONES_pos j hj, (nz_flag n j hj9).2 hnz,
    nzFlags_testBit] at w
  have x0 := xor_bit n i j 0 hij hj (by decide)
  rw [Nat.add_zero] at x0
  rw [x0, xor_bit n i j 2 hij hj (by decide), xor_bit n i j 1 hij hj (by decide),
    xor_bit n i j 3 hij hj (by decide), heq] at w
  simp at w

/-! ### the decoded board -/

theorem cell_decode (n r c : Nat) (hr : r < 9) (hc : c < 9) :
    cell (decodeBoard n) r c = toCell (byteAt n (9 * r + c)) := by
  simp [cell, Grid.get, decodeBoard, List.getD_eq_getElem?_getD, hr, hc]

theorem toCell_small (v : Nat) (h : v ≤ 9) : toCell v = (v : Int) - 1 := by
  unfold toCell; rw [if_neg (by omega)]

theorem shaped_decode (n : Nat) : Grid.shaped (decodeBoard n) 9 9 = true := by
  simp [Grid.shaped, decodeBoard]

theorem inRange_decode (n : Nat) (hr : ∀ i, i < 81 → byteAt n i ≤ 9) : InRange (decodeBoard n) := by
  intro r hr9 c hc9
  rw [cell_decode n r c hr9 hc9, toCell_small _ (hr _ (by omega))]
  have := hr (9 * r + c) (by omega)
  omega

theorem emptyCells_decode (n : Nat) (i : Nat) (hi : i < 81) (h0 : byteAt n i = 0) :
    emptyCells (decodeBoard n) > 0 := by
  unfold emptyCells Grid.count
  apply List.length_filter_pos_iff.2
  refine ⟨-1, ?_, by decide⟩
  rw [List.mem_flatten]
  refine ⟨(List.range 9).map (fun c => toCell (byteAt n (9 * (i / 9) + c))), ?_, ?_⟩
  · unfold decodeBoard
    exact List.mem_map.2 ⟨i / 9, List.mem_range.2 (by omega), rfl⟩
  · refine List.mem_map.2 ⟨i % 9, List.mem_range.2 (by omega), ?_⟩
    rw [show 9 * (i / 9) + i % 9 = i by omega, h0]; rfl

theorem conflictFree_decode (n : Nat) (hr : ∀ i, i < 81 → byteAt n i ≤ 9) (h : conflictOK n = true) :
    ConflictFree (decodeBoard n) := by
  have hall : ∀ e, e ∈ offsets → pairOK n (nzFlags n) e.1 e.2 = true := by
    unfold conflictOK at h
    exact List.all_eq_true.1 h
  -- the statement on cell numbers, for an ordered pair
  have key : ∀ i j, i < j → j < 81 → (peerIdx i j || peerIdx j i) = true → byteAt n j ≠ 0 →
      byteAt n i ≠ byteAt n j := by
    intro i j hij hj hpeer hnz
    obtain ⟨e, he, hprop⟩ := List.any_eq_true.1 (offsets_cover i (by omega) j hj hij hpeer)
    simp only [Bool.and_eq_true, beq_iff_eq] at hprop
    have hp := hall e he
    rw [hprop.1] at hp
    exact pair_sound n e.2 i j hij hj hprop.2 hp (hr j hj) hnz
  intro r hr9 c hc9 r' hr9' c' hc9' ⟨hsame, hne, hnonempty⟩
  rw [cell_decode n r c hr9 hc9] at hnonempty ⊢
  rw [cell_decode n r' c' hr9' hc9']
  have hi9 := hr (9 * r + c) (by omega)
  have hj9 := hr (9 * r' + c') (by omega)
  rw [toCell_small _ hi9] at hnonempty ⊢
  rw [toCell_small _ hj9]
  have hnz : byteAt n (9 * r + c) ≠ 0 := by omega
  have hp1 : peerIdx (9 * r + c) (9 * r' + c') = true := by
    unfold peerIdx
    rw [show (9 * r + c) / 9 = r by omega, show (9 * r + c) % 9 = c by omega,
      show (9 * r' + c') / 9 = r' by omega, show (9 * r' + c') % 9 = c' by omega]
    exact hsame
  intro heq
  have hbytes : byteAt n (9 * r + c) = byteAt n (9 * r' + c') := by omega
  rcases Nat.lt_trichotomy (9 * r + c) (9 * r' + c') with hlt | heq' | hgt
  · exact key _ _ hlt (by omega) (by rw [hp1]; rfl) (by omega) hbytes
  · exact hne ⟨by omega, by omega⟩
  · exact key _ _ hgt (by omega) (by rw [hp1]; simp) hnz hbytes.symm

/-- soundness of the checker, for every code -/
theorem fastOK_sound (n : Nat) (h : fastOK n = true) : boardOK (decodeBoard n) = true := by
  unfold fastOK at h
  simp only [Bool.and_eq_true] at h
  obtain ⟨⟨hrange, hempty⟩, hconf⟩ := h
  have hr := range_sound n hrange
  obtain ⟨i, hi, h0⟩ := empty_sound n hr hempty
  unfold boardOK
  simp only [Bool.and_eq_true, decide_eq_true_eq]
  exact ⟨⟨⟨shaped_decode n, inRange_decode n hr⟩, conflictFree_decode n hr hconf⟩, emptyCells_decode n i hi h0⟩

/-- the board certificates of the `sudoku.instance` op, as the L2 predicates: feasible and not yet full -/
theorem boardOK_iff (b : Grid Int) : boardOK b = true ↔ (Feasible b ∧ emptyCells b > 0) := by
  unfold boardOK Feasible
  simp only [Bool.and_eq_true, decide_eq_true_eq, and_assoc]

/-- lifting: chunks that pass the checker decode to boards that carry the certificates -/
theorem all_ok_of_chunks (chunks : List (List Nat)) (h : chunks.all (fun c => c.all fastOK) = true) :
    ∀ b, b ∈ (chunks.flatten).map decodeBoard → boardOK b = true := by
  intro b hb
  obtain ⟨n, hn, rfl⟩ := List.mem_map.1 hb
  obtain ⟨c, hc, hnc⟩ := List.mem_flatten.1 hn
  exact fastOK_sound n (List.all_eq_true.1 (List.all_eq_true.1 h c hc) n hnc)

end DB
end Sudoku
