/-
Sokoban, property C01: the interval in which every numeric leaf of the MODEL's observation provably stays
(`obsBounds`, a function of the configuration only), the flattened leaves of an observation (`obsLeaves`, keys =
names of the leaves of the real `observation_spec`; `grid` = the variable and the fixed plane stacked), and the
transliteration of `Sokoban.reset` on top of the generator's output.  Import-free.
Proofs: Env/Sokoban/BoundsLemmas.lean, theorems: Props/Env/Sokoban.lean (C01).
-/
import JumanjiModel.Env.Sokoban.Model
namespace Sokoban
open Jm Jx

/-- `reset`: `state = generator(key)` (the generated state `g` is the draw), `restart(_state_to_observation(state))` -/
def reset (g : State) : State × TimeStep Obs := (g, restart (stateToObs g))

/-- closed integer interval as a pair of optional rational ends -/
def ivInt (lo hi : Int) : Option Rat × Option Rat := (some (lo : Rat), some (hi : Rat))

/-- value bounds of the observation leaves, from the configuration only: cell encodings EMPTY = 0 … BOX = 4;
`step_count` between 0 and `time_limit` (reached on the terminal step) -/
def obsBounds (cfg : Cfg) : List (String × Option Rat × Option Rat) :=
  [("grid", ivInt 0 4),
   ("step_count", ivInt 0 cfg.timeLimit)]

/-- all values of every leaf of an observation -/
def obsLeaves (o : Obs) : List (String × List Rat) :=
  [("grid", (List.flatten o.vgrid ++ List.flatten o.fgrid).map (fun (v : Int) => (v : Rat))),
   ("step_count", [(o.stepCount : Rat)])]

/-- `v` lies in the interval (`none` = unbounded on that side) -/
def inIv (iv : Option Rat × Option Rat) (v : Rat) : Prop :=
  (∀ l, iv.1 = some l → l ≤ v) ∧ (∀ h, iv.2 = some h → v ≤ h)

/-- every value of every leaf listed in `obsBounds cfg` lies in its interval -/
def ObsInBounds (cfg : Cfg) (o : Obs) : Prop :=
  ∀ k iv, (k, iv) ∈ obsBounds cfg → ∀ vs, (k, vs) ∈ obsLeaves o → ∀ v ∈ vs, inIv iv v

end Sokoban
