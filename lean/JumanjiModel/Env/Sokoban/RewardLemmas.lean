/-
Sokoban C09 (reward): the reward of one step as the documented function of the change in boxes-on-target, and the
telescoped return of a whole action sequence.
-/
import JumanjiModel.Env.Sokoban.GeneratorLemmas
namespace Sokoban
open Jm Jx

/-- the reward in the timestep is the reward function applied to (state, successor) -/
theorem step_reward (rnd : Rat → Rat) (cfg : Cfg) (s : State) (a : Int) :
    (step rnd cfg s a).2.reward = [reward rnd cfg.dense s (step rnd cfg s a).1] := by
  unfold step condLast; simp only []; split <;> split <;> rfl

theorem step_stepType (rnd : Rat → Rat) (cfg : Cfg) (s : State) (a : Int) :
    (step rnd cfg s a).2.stepType = (if (levelComplete (step rnd cfg s a).1 ||
      decide ((step rnd cfg s a).1.stepCount ≥ cfg.timeLimit)) then StepType.last else StepType.mid) := by
  unfold step condLast; simp only []; split <;> split <;> simp_all [termination, transition]

theorem not_last_not_solved (rnd : Rat → Rat) (cfg : Cfg) (s : State) (a : Int)
    (h : (step rnd cfg s a).2.stepType ≠ .last) : levelComplete (step rnd cfg s a).1 = false := by
  rw [step_stepType] at h
  cases hl : levelComplete (step rnd cfg s a).1
  · rfl
  · simp [hl] at h

/-- the integer part of the dense reward -/
def gain (s s' : State) : Int :=
  (countTargets s' : Int) - (countTargets s : Int) + 10 * (if levelComplete s' then 1 else 0)

theorem reward_dense (rnd : Rat → Rat) (s s' : State) :
    reward rnd true s s' = rnd (((gain s s' : Int) : Rat) + rnd (-1 / 10)) := by
  unfold reward gain levelComplete
  simp only [if_true]

theorem reward_sparse (rnd : Rat → Rat) (s s' : State) :
    reward rnd false s s' = ((10 * (if levelComplete s' then 1 else 0) : Int) : Rat) := by
  unfold reward levelComplete
  simp

theorem list_sum_singleton (r : Rat) : [r].sum = r := by
  simp [Rat.add_zero]

/-- dense reward: every step pays `rnd (k + rnd (-0.1))` where `k` is the integer `runGains` lists for it -/
theorem runRewards_dense (rnd : Rat → Rat) (cfg : Cfg) (hd : cfg.dense = true) (s : State) (as : List Int) :
    runRewards rnd cfg s as = (runGains rnd cfg s as).map (fun k => rnd (((k : Int) : Rat) + rnd (-1 / 10))) := by
  induction as generalizing s with
  | nil => rfl
  | cons a as ih =>
    simp only [runRewards, runGains, List.map_cons]
    rw [ih, step_reward, hd, reward_dense, list_sum_singleton]
    rfl

/-- the integer gains telescope -/
theorem runGains_sum (rnd : Rat → Rat) (cfg : Cfg) (s : State) (as : List Int) :
    (runGains rnd cfg s as).sum =
      (countTargets (runState rnd cfg s as) : Int) - (countTargets s : Int) + 10 * (solvedSteps rnd cfg s as : Int) := by
  induction as generalizing s with
  | nil => simp [runGains, runState, solvedSteps]
  | cons a as ih =>
    simp only [runGains, runState, solvedSteps, List.sum_cons]
    rw [ih]
    split <;> simp <;> omega

theorem sum_map_add_const (c : Rat) (l : List Int) :
    (l.map (fun k => ((k : Int) : Rat) + c)).sum = ((l.sum : Int) : Rat) + c * (l.length : Rat) := by
  induction l with
  | nil => simp [Rat.add_zero]
  | cons k l ih =>
    simp only [List.map_cons, List.sum_cons, List.length_cons]
    rw [ih]
    have : ((l.length + 1 : Nat) : Rat) = (l.length : Rat) + 1 := by simp
    rw [this, Rat.intCast_add]
    grind

/-- C09: the telescoped dense return in exact arithmetic (`rnd = id`), for EVERY state and EVERY action sequence:
return = −0.1·steps + (boxes on target at the end − at the start) + 10·(number of steps whose successor is solved) -/
theorem run_return_dense (cfg : Cfg) (hd : cfg.dense = true) (s : State) (as : List Int) :
    runReturn id cfg s as =
      (-1 / 10 : Rat) * (as.length : Rat) +
      (((countTargets (runState id cfg s as) : Int) - (countTargets s : Int) : Int) : Rat) +
      10 * ((solvedSteps id cfg s as : Nat) : Rat) := by
  unfold runReturn
  rw [runRewards_dense id cfg hd]
  simp only [id]
  rw [sum_map_add_const, runGains_sum]
  have hl : (runGains id cfg s as).length = as.length := by
    induction as generalizing s with
    | nil => rfl
    | cons a as ih => simp only [runGains, List.length_cons]; rw [ih]
  rw [hl, Rat.intCast_add, Rat.intCast_mul]
  simp only [Rat.intCast_natCast]
  grind

/-- sparse reward: the return is 10 per step whose successor is solved (any rounding) -/
theorem run_return_sparse (rnd : Rat → Rat) (cfg : Cfg) (hd : cfg.dense = false) (s : State) (as : List Int) :
    runReturn rnd cfg s as = 10 * ((solvedSteps rnd cfg s as : Nat) : Rat) := by
  unfold runReturn
  induction as generalizing s with
  | nil => simp [runRewards, solvedSteps]
  | cons a as ih =>
    simp only [runRewards, solvedSteps, List.sum_cons]
    rw [ih, step_reward, hd, reward_sparse, list_sum_singleton]
    split <;> simp <;> grind

/-- in a proper episode (no step after a LAST timestep) the solved bonus is paid at most once: on the last step,
iff the final state is solved -/
theorem solvedSteps_proper (rnd : Rat → Rat) (cfg : Cfg) (s : State) (as : List Int)
    (hp : ProperEpisode rnd cfg s as) :
    solvedSteps rnd cfg s as = if as ≠ [] ∧ levelComplete (runState rnd cfg s as) = true then 1 else 0 := by
  induction as generalizing s with
  | nil => simp [solvedSteps]
  | cons a as ih =>
    cases as with
    | nil => simp [solvedSteps, runState]
    | cons b bs =>
      obtain ⟨h1, h2⟩ := hp
      have := ih _ h2
      simp only [solvedSteps, runState] at this ⊢
      rw [not_last_not_solved rnd cfg s a h1]
      simp only [Bool.false_eq_true, if_false, Nat.zero_add]
      rw [this]
      simp

/-- "+1 for a box pushed onto a target, −1 for a box pushed off a target": the number of boxes on targets changes
only by a push, by the target status of the cell the box leaves (`p`, the agent's destination) and of the cell it
reaches (`q`, one further) — stated without subtraction -/
theorem spec_boxesOnTarget (n : Nat) (s : State) (a : Nat) (ha : a < 4) (hc : Consistent n s) :
    boxesOnTarget n (stepSpec n s a) +
        (if pushes n s a ∧ at' s.fgrid (add s.agent (dirOf a)) = TARGET then 1 else 0) =
      boxesOnTarget n s +
        (if pushes n s a ∧ at' s.fgrid (add (add s.agent (dirOf a)) (dirOf a)) = TARGET then 1 else 0) := by
  obtain ⟨hf, hv, hA, hag, hbox, hval, hsc⟩ := hc
  unfold stepSpec pushes
  by_cases hl : legal n s a
  · simp only [hl, if_true, true_and]
    unfold legal at hl
    simp only [] at hl
    obtain ⟨_, hp, hpw, hpush⟩ := hl
    have hneA : add s.agent (dirOf a) ≠ s.agent := add_ne_self (dirOf_ne ha)
    have hneq : add (add s.agent (dirOf a)) (dirOf a) ≠ s.agent := add_add_ne_self (dirOf_ne ha)
    have hnepq : add (add s.agent (dirOf a)) (dirOf a) ≠ add s.agent (dirOf a) := add_ne_self (dirOf_ne ha)
    generalize add s.agent (dirOf a) = p at *
    generalize hqd : add p (dirOf a) = q at *
    have s1 := shaped_put hv s.agent EMPTY
    have s2 := shaped_put s1 p AGENT
    have hg1 : ∀ r c, Grid.get (put (put s.vgrid s.agent EMPTY) p AGENT) 0 r c =
        if ((r : Int), (c : Int)) = p then AGENT else if ((r : Int), (c : Int)) = s.agent then EMPTY
        else Grid.get s.vgrid 0 r c := by
      intro r c; rw [get_put s1 hp, get_put hv hA]
    -- predicate "box on target" at a cell is the same in `s` and after the agent has moved, except at `p`
    have hPR : ∀ y ∈ Grid.coords n n, y ≠ (p.1.toNat, p.2.toNat) →
        (Grid.get s.vgrid 0 y.1 y.2 == BOX && Grid.get s.fgrid 0 y.1 y.2 == TARGET) =
        (Grid.get (put (put s.vgrid s.agent EMPTY) p AGENT) 0 y.1 y.2 == BOX && Grid.get s.fgrid 0 y.1 y.2 == TARGET) := by
      intro y hy hne
      have e1 : ((y.1 : Int), (y.2 : Int)) ≠ p := fun e => hne (cell_of_cast e)
      simp only [hg1]
      rw [if_neg e1]
      by_cases e2 : ((y.1 : Int), (y.2 : Int)) = s.agent
      · rw [if_pos e2, (hag y hy).2 e2]
        have h1 : (AGENT == BOX) = false := by decide
        have h2 : (EMPTY == BOX) = false := by decide
        simp only [h1, h2, Bool.false_and]
      · rw [if_neg e2]
    have hA1 := Grid.l_filter_length_update (Grid.coords n n) (Grid.l_nodup_coords n n) (p.1.toNat, p.2.toNat) (cell_mem hp)
      (fun x => Grid.get s.vgrid 0 x.1 x.2 == BOX && Grid.get s.fgrid 0 x.1 x.2 == TARGET)
      (fun x => Grid.get (put (put s.vgrid s.agent EMPTY) p AGENT) 0 x.1 x.2 == BOX && Grid.get s.fgrid 0 x.1 x.2 == TARGET)
      hPR
    simp only [hg1, cast_cell hp, if_true] at hA1
    have hAB : (AGENT == BOX) = false := by decide
    simp only [hAB, Bool.false_and, Bool.false_eq_true, if_false, Nat.add_zero] at hA1
    by_cases hb : at' s.vgrid p = BOX
    · obtain ⟨hq, hqw, hqb⟩ := hpush hb
      simp only [hb, if_true, true_and]
      have hg2 : ∀ r c, Grid.get (put (put (put s.vgrid s.agent EMPTY) p AGENT) q BOX) 0 r c =
          if ((r : Int), (c : Int)) = q then BOX else
          if ((r : Int), (c : Int)) = p then AGENT else if ((r : Int), (c : Int)) = s.agent then EMPTY
          else Grid.get s.vgrid 0 r c := by
        intro r c; rw [get_put s2 hq, hg1]
      have hA2 := Grid.l_filter_length_update (Grid.coords n n) (Grid.l_nodup_coords n n) (q.1.toNat, q.2.toNat) (cell_mem hq)
        (fun x => Grid.get (put (put s.vgrid s.agent EMPTY) p AGENT) 0 x.1 x.2 == BOX && Grid.get s.fgrid 0 x.1 x.2 == TARGET)
        (fun x => Grid.get (put (put (put s.vgrid s.agent EMPTY) p AGENT) q BOX) 0 x.1 x.2 == BOX && Grid.get s.fgrid 0 x.1 x.2 == TARGET)
        (by
          intro y hy hne
          have e1 : ((y.1 : Int), (y.2 : Int)) ≠ q := fun e => hne (cell_of_cast e)
          simp only [hg2, hg1]
          rw [if_neg e1])
      simp only [hg1, hg2, cast_cell hq, if_true, hnepq, hneq, if_false] at hA2
      have hb' : Grid.get s.vgrid 0 p.1.toNat p.2.toNat = BOX := hb
      have hqb' : (Grid.get s.vgrid 0 q.1.toNat q.2.toNat == BOX) = false := by
        simpa [at'] using hqb
      simp only [hb', hqb', BEq.rfl, Bool.true_and, Bool.false_and, Bool.false_eq_true, if_false, Nat.add_zero,
        beq_iff_eq] at hA1 hA2
      unfold boxesOnTarget at'
      simp only [hg2]
      omega
    · simp only [hb, if_false, false_and, Nat.add_zero]
      have hb' : (Grid.get s.vgrid 0 p.1.toNat p.2.toNat == BOX) = false := by simpa [at'] using hb
      simp only [hb', Bool.false_and, Bool.false_eq_true, if_false, Nat.add_zero] at hA1
      unfold boxesOnTarget
      simp only [hg1]
      exact hA1
  · simp [hl, boxesOnTarget]

/-- the change of the number of boxes on targets is the documented box term `pushGain` ∈ {−1, 0, 1} -/
theorem spec_boxes_change (n : Nat) (s : State) (a : Nat) (ha : a < 4) (hc : Consistent n s) :
    (boxesOnTarget n (stepSpec n s a) : Int) - (boxesOnTarget n s : Int) = pushGain n s a := by
  have h := spec_boxesOnTarget n s a ha hc
  unfold pushGain
  by_cases c1 : pushes n s a ∧ at' s.fgrid (add s.agent (dirOf a)) = TARGET
  · by_cases c2 : pushes n s a ∧ at' s.fgrid (add (add s.agent (dirOf a)) (dirOf a)) = TARGET
    · rw [if_pos c1, if_pos c2] at h; rw [if_pos c1, if_pos c2]; omega
    · rw [if_pos c1, if_neg c2] at h; rw [if_pos c1, if_neg c2]; omega
  · by_cases c2 : pushes n s a ∧ at' s.fgrid (add (add s.agent (dirOf a)) (dirOf a)) = TARGET
    · rw [if_neg c1, if_pos c2] at h; rw [if_neg c1, if_pos c2]; omega
    · rw [if_neg c1, if_neg c2] at h; rw [if_neg c1, if_neg c2]; omega

theorem pushGain_range (n : Nat) (s : State) (a : Nat) : -1 ≤ pushGain n s a ∧ pushGain n s a ≤ 1 := by
  unfold pushGain
  split <;> split <;> simp

/-- C09: the dense reward of a step from a consistent board, in the documented terms: box term (`pushGain`: +1 box
pushed onto a target, −1 pushed off a target) + 10 when the successor has all boxes on targets − 0.1 -/
theorem step_reward_rules (rnd : Rat → Rat) (cfg : Cfg) (hd : cfg.dense = true) (s : State) (a : Nat) (ha : a < 4)
    (hc : Consistent cfg.n s) :
    (step rnd cfg s a).2.reward =
      [rnd (((pushGain cfg.n s a + (if boxesOnTarget cfg.n (stepSpec cfg.n s a) = nBoxes then 10 else 0) : Int) : Rat)
        + rnd (-1 / 10))] := by
  rw [(step_ts_eq rnd cfg s a ha hc.1 hc.2.1 hc.2.2.1).1]
  unfold rewardSpec
  simp only [hd, if_true]
  rw [spec_boxes_change cfg.n s a ha hc]

end Sokoban
