import JumanjiModel.Env.Sokoban.Model
import JumanjiModel.Env.Snake.GridLemmas
namespace Sokoban
open Jm Jx

theorem moveOf_nat {a : Nat} (h : a < 4) : moveOf (a : Int) = dirOf a := by
  have : a = 0 ∨ a = 1 ∨ a = 2 ∨ a = 3 := by omega
  rcases this with rfl | rfl | rfl | rfl <;> decide

theorem inGrid_eq (n : Nat) (p : Loc) : inGrid n p = decide (inside n p) := by
  unfold inGrid inside
  by_cases h1 : 0 ≤ p.1 <;> by_cases h2 : p.1 < (n : Int) <;> by_cases h3 : 0 ≤ p.2 <;>
    by_cases h4 : p.2 < (n : Int) <;> simp [h1, h2, h3, h4]

theorem checkSpace_inside {g : Grid Int} {n : Nat} (hs : Grid.shaped g n n = true) {p : Loc}
    (hp : inside n p) (v : Int) : checkSpace g p v = (at' g p == v) := by
  unfold checkSpace at'
  rw [Grid.l_getWC_inrange hs 0 hp.1 hp.2.1 hp.2.2.1 hp.2.2.2]

theorem setWD_put {g : Grid Int} {n : Nat} (hs : Grid.shaped g n n = true) {p : Loc}
    (hp : inside n p) (v : Int) : Grid.setWD g p.1 p.2 v = put g p v := by
  unfold put
  exact Grid.l_setWD_inrange hs v hp.1 hp.2.1 hp.2.2.1 hp.2.2.2

theorem shaped_put {g : Grid Int} {n : Nat} (hs : Grid.shaped g n n = true) (p : Loc) (v : Int) :
    Grid.shaped (put g p v) n n = true := Grid.l_shaped_set hs v _ _

theorem nat_ne_noop (a : Nat) : ((a : Int) == NOOP) = false := by
  simp [NOOP]

/-- the action after `detect_noop_action` is the action itself when the move is legal, else NOOP -/
theorem detectNoop_eq (n : Nat) (s : State) (a : Nat) (ha : a < 4)
    (hf : Grid.shaped s.fgrid n n = true) (hv : Grid.shaped s.vgrid n n = true) :
    detectNoop n s.vgrid s.fgrid a s.agent = if legal n s a then (a : Int) else NOOP := by
  unfold detectNoop updateBoxPush legal free
  simp only [moveOf_nat ha, inGrid_eq]
  by_cases hp : inside n (add s.agent (dirOf a))
  · simp only [checkSpace_inside hf hp, checkSpace_inside hv hp, hp, decide_true, Bool.not_true, Bool.or_false]
    by_cases hw : at' s.fgrid (add s.agent (dirOf a)) = WALL
    · simp [hw, ha]
    · by_cases hb : at' s.vgrid (add s.agent (dirOf a)) = BOX
      · by_cases hq : inside n (add (add s.agent (dirOf a)) (dirOf a))
        · simp only [checkSpace_inside hf hq, checkSpace_inside hv hq]
          by_cases h1 : at' s.vgrid (add (add s.agent (dirOf a)) (dirOf a)) = BOX <;>
            by_cases h2 : at' s.fgrid (add (add s.agent (dirOf a)) (dirOf a)) = WALL <;>
            simp [hw, hb, hq, h1, h2, ha]
        · simp [hw, hb, hq, ha]
      · simp [hw, hb, ha]
  · simp [hp, ha]

/-- C09: the transliterated `step` produces exactly the successor prescribed by the rules
(stay / walk / push), for every state with well-shaped grids and every action 0..3 -/
theorem step_eq (rnd : Rat → Rat) (cfg : Cfg) (s : State) (a : Nat) (ha : a < 4)
    (hf : Grid.shaped s.fgrid cfg.n cfg.n = true) (hv : Grid.shaped s.vgrid cfg.n cfg.n = true)
    (hag : inside cfg.n s.agent) :
    (step rnd cfg s a).1 = stepSpec cfg.n s a := by
  unfold step stepSpec
  simp only [detectNoop_eq cfg.n s a ha hf hv]
  by_cases hl : legal cfg.n s a
  · simp only [hl, if_true, nat_ne_noop]
    have hp : inside cfg.n (add s.agent (dirOf a)) := hl.2.1
    unfold moveAgent
    simp only [moveOf_nat ha, checkSpace_inside hv hp]
    have e1 : Grid.setWD s.vgrid s.agent.1 s.agent.2 EMPTY = put s.vgrid s.agent EMPTY := setWD_put hv hag _
    have s1 := shaped_put hv s.agent EMPTY
    have e2 : Grid.setWD (put s.vgrid s.agent EMPTY) (add s.agent (dirOf a)).1 (add s.agent (dirOf a)).2 AGENT
        = put (put s.vgrid s.agent EMPTY) (add s.agent (dirOf a)) AGENT := setWD_put s1 hp _
    have s2 := shaped_put s1 (add s.agent (dirOf a)) AGENT
    by_cases hb : at' s.vgrid (add s.agent (dirOf a)) = BOX
    · have hq : inside cfg.n (add (add s.agent (dirOf a)) (dirOf a)) := (hl.2.2.2 hb).1
      have e3 := setWD_put s2 hq BOX
      simp [hb, e1, e2, e3]
    · simp [hb, e1, e2]
  · simp [hl]

/-- C05: an illegal move is ignored — nothing moves, only the step counter advances, and the episode
ends only for a documented cause (time limit; or the level was already complete) -/
theorem illegal_ignored (rnd : Rat → Rat) (cfg : Cfg) (s : State) (a : Nat) (ha : a < 4)
    (hf : Grid.shaped s.fgrid cfg.n cfg.n = true) (hv : Grid.shaped s.vgrid cfg.n cfg.n = true)
    (h : ¬ legal cfg.n s a) :
    (step rnd cfg s a).1 = { s with stepCount := s.stepCount + 1 } ∧
    ((step rnd cfg s a).2.stepType = .last → levelComplete s = true ∨ s.stepCount + 1 ≥ cfg.timeLimit) := by
  unfold step
  simp only [detectNoop_eq cfg.n s a ha hf hv, h, if_false]
  refine ⟨by simp, ?_⟩
  simp only [BEq.rfl, if_true]
  unfold condLast levelComplete countTargets
  simp only []
  split
  · rename_i hd
    intro _
    simpa [levelComplete, countTargets] using hd
  · intro hc; simp [transition] at hc

/-- C12: the observation is the documented view (both grids and the step count) of the successor -/
theorem obs_faithful (rnd : Rat → Rat) (cfg : Cfg) (s : State) (a : Int) :
    (step rnd cfg s a).2.obs = observe (step rnd cfg s a).1 := by
  unfold step condLast
  simp only []
  split <;> split <;> rfl

/-- C11: the step counter advances by one on every step and a step that reaches the limit is LAST -/
theorem step_count (rnd : Rat → Rat) (cfg : Cfg) (s : State) (a : Int) :
    (step rnd cfg s a).1.stepCount = s.stepCount + 1 ∧
    (s.stepCount + 1 ≥ cfg.timeLimit → (step rnd cfg s a).2.stepType = .last) := by
  constructor
  · unfold step; simp
  · intro h
    unfold step condLast
    simp [h, termination]

theorem get_put {g : Grid Int} {n : Nat} (hs : Grid.shaped g n n = true) {P : Loc} (hP : inside n P)
    (v : Int) (r c : Nat) :
    Grid.get (put g P v) 0 r c = if ((r : Int), (c : Int)) = P then v else Grid.get g 0 r c := by
  unfold put
  obtain ⟨h1, h2, h3, h4⟩ := hP
  rw [Grid.l_get_set hs v 0 (by omega : P.1.toNat < n) (by omega : P.2.toNat < n)]
  have : (r = P.1.toNat ∧ c = P.2.toNat) ↔ ((r : Int), (c : Int)) = P := by
    constructor
    · rintro ⟨rfl, rfl⟩; ext <;> simp <;> omega
    · intro h; rw [← h]; simp
  simp only [this]

theorem dirOf_ne {a : Nat} (h : a < 4) : dirOf a ≠ (0, 0) := by
  have : a = 0 ∨ a = 1 ∨ a = 2 ∨ a = 3 := by omega
  rcases this with rfl | rfl | rfl | rfl <;> decide

theorem add_ne_self {P d : Loc} (h : d ≠ (0, 0)) : add P d ≠ P := by
  intro e; apply h
  unfold add at e
  have e1 := congrArg Prod.fst e
  have e2 := congrArg Prod.snd e
  simp at e1 e2
  ext <;> simp <;> omega

theorem add_add_ne_self {P d : Loc} (h : d ≠ (0, 0)) : add (add P d) d ≠ P := by
  intro e; apply h
  unfold add at e
  have e1 := congrArg Prod.fst e
  have e2 := congrArg Prod.snd e
  simp at e1 e2
  ext <;> simp <;> omega

theorem cast_cell {n : Nat} {P : Loc} (hP : inside n P) :
    (((P.1.toNat : Nat) : Int), ((P.2.toNat : Nat) : Int)) = P := by
  obtain ⟨h1, h2, h3, h4⟩ := hP
  ext <;> simp <;> omega

theorem cell_mem {n : Nat} {P : Loc} (hP : inside n P) : (P.1.toNat, P.2.toNat) ∈ Grid.coords n n := by
  obtain ⟨h1, h2, h3, h4⟩ := hP
  exact Grid.l_mem_coords.2 ⟨by simp; omega, by simp; omega⟩

theorem cell_of_cast {x : Nat × Nat} {P : Loc} (h : ((x.1 : Int), (x.2 : Int)) = P) :
    x = (P.1.toNat, P.2.toNat) := by
  subst h; simp

theorem consts_ne : EMPTY ≠ AGENT ∧ EMPTY ≠ BOX ∧ AGENT ≠ BOX ∧ AGENT ≠ EMPTY ∧ BOX ≠ AGENT ∧ BOX ≠ EMPTY := by decide

/-- C07: the successor prescribed by the rules is again a physically consistent board -/
theorem spec_consistent (n : Nat) (s : State) (a : Nat) (ha : a < 4) (hc : Consistent n s) :
    Consistent n (stepSpec n s a) := by
  obtain ⟨hf, hv, hA, hag, hbox, hval, hsc⟩ := hc
  unfold stepSpec
  by_cases hl : legal n s a
  · simp only [hl, if_true]
    unfold legal at hl
    simp only [] at hl
    obtain ⟨_, hp, hpw, hpush⟩ := hl
    have hneA : add s.agent (dirOf a) ≠ s.agent := add_ne_self (dirOf_ne ha)
    have hneq : add (add s.agent (dirOf a)) (dirOf a) ≠ s.agent := add_add_ne_self (dirOf_ne ha)
    have hnepq : add (add s.agent (dirOf a)) (dirOf a) ≠ add s.agent (dirOf a) := add_ne_self (dirOf_ne ha)
    generalize add s.agent (dirOf a) = p at *
    generalize hqd : add p (dirOf a) = q at *
    have s1 := shaped_put hv s.agent EMPTY
    have s2 := shaped_put s1 p AGENT
    have hg1 : ∀ r c, Grid.get (put (put s.vgrid s.agent EMPTY) p AGENT) 0 r c =
        if ((r : Int), (c : Int)) = p then AGENT else if ((r : Int), (c : Int)) = s.agent then EMPTY
        else Grid.get s.vgrid 0 r c := by
      intro r c; rw [get_put s1 hp, get_put hv hA]
    -- the agent cell and the destination cell in the old grid
    have hpA : at' s.vgrid p ≠ AGENT := by
      intro e
      have := (hag _ (cell_mem hp)).1 e
      rw [cast_cell hp] at this
      exact hneA this
    by_cases hb : at' s.vgrid p = BOX
    · -- push
      obtain ⟨hq, hqw, hqb⟩ := hpush hb
      simp only [hb, if_true]
      have s3 := shaped_put s2 q BOX
      have hg2 : ∀ r c, Grid.get (put (put (put s.vgrid s.agent EMPTY) p AGENT) q BOX) 0 r c =
          if ((r : Int), (c : Int)) = q then BOX else
          if ((r : Int), (c : Int)) = p then AGENT else if ((r : Int), (c : Int)) = s.agent then EMPTY
          else Grid.get s.vgrid 0 r c := by
        intro r c; rw [get_put s2 hq, hg1]
      refine ⟨hf, s3, hp, ?_, ?_, ?_, by simp only []; omega⟩
      · intro x hx
        simp only [hg2]
        by_cases e0 : ((x.1 : Int), (x.2 : Int)) = q
        · rw [if_pos e0]
          exact ⟨fun h => absurd h consts_ne.2.2.2.2.1, fun h => absurd (e0.symm.trans h) hnepq⟩
        · rw [if_neg e0]
          by_cases e1 : ((x.1 : Int), (x.2 : Int)) = p
          · rw [if_pos e1]; exact ⟨fun _ => e1, fun _ => rfl⟩
          · rw [if_neg e1]
            by_cases e2 : ((x.1 : Int), (x.2 : Int)) = s.agent
            · rw [if_pos e2]; exact ⟨fun h => absurd h consts_ne.1, fun h => absurd h e1⟩
            · rw [if_neg e2]; exact ⟨fun h => absurd ((hag x hx).1 h) e2, fun h => absurd h e1⟩
      · -- the number of boxes: one box leaves p, one arrives at q
        have hA1 := Grid.l_filter_length_update (Grid.coords n n) (Grid.l_nodup_coords n n) (p.1.toNat, p.2.toNat) (cell_mem hp)
          (fun x => Grid.get s.vgrid 0 x.1 x.2 == BOX)
          (fun x => Grid.get (put (put s.vgrid s.agent EMPTY) p AGENT) 0 x.1 x.2 == BOX)
          (by
            intro y hy hne
            have e1 : ((y.1 : Int), (y.2 : Int)) ≠ p := fun e => hne (cell_of_cast e)
            simp only [hg1]
            rw [if_neg e1]
            by_cases e2 : ((y.1 : Int), (y.2 : Int)) = s.agent
            · rw [if_pos e2, (hag y hy).2 e2]; decide
            · rw [if_neg e2])
        have hA2 := Grid.l_filter_length_update (Grid.coords n n) (Grid.l_nodup_coords n n) (q.1.toNat, q.2.toNat) (cell_mem hq)
          (fun x => Grid.get (put (put s.vgrid s.agent EMPTY) p AGENT) 0 x.1 x.2 == BOX)
          (fun x => Grid.get (put (put (put s.vgrid s.agent EMPTY) p AGENT) q BOX) 0 x.1 x.2 == BOX)
          (by
            intro y hy hne
            have e1 : ((y.1 : Int), (y.2 : Int)) ≠ q := fun e => hne (cell_of_cast e)
            simp only [hg2, hg1]
            rw [if_neg e1])
        simp only [hg1, hg2, cast_cell hp, cast_cell hq, if_true, hnepq, hneq, if_false] at hA1 hA2
        have hb' : Grid.get s.vgrid 0 p.1.toNat p.2.toNat = BOX := hb
        have hqb' : ¬ Grid.get s.vgrid 0 q.1.toNat q.2.toNat = BOX := hqb
        simp [hb', hqb', consts_ne.2.2.1] at hA1 hA2
        unfold countCells at hbox ⊢
        simp only []
        simp only [hg2]
        omega
      · intro x hx
        obtain ⟨h1, h2, h3⟩ := hval x hx
        refine ⟨?_, h2, ?_⟩
        · simp only [hg2]; repeat' split
          all_goals simp_all
        · intro hw
          simp only [hg2]
          by_cases e0 : ((x.1 : Int), (x.2 : Int)) = q
          · exfalso; apply hqw; rw [← e0]; simpa [at'] using hw
          · by_cases e1 : ((x.1 : Int), (x.2 : Int)) = p
            · exfalso; apply hpw; rw [← e1]; simpa [at'] using hw
            · simp only [e0, e1, if_false]
              split
              · rfl
              · exact h3 hw
    · -- walk
      simp only [hb, if_false]
      refine ⟨hf, s2, hp, ?_, ?_, ?_, by simp only []; omega⟩
      · intro x hx
        simp only [hg1]
        by_cases e1 : ((x.1 : Int), (x.2 : Int)) = p
        · rw [if_pos e1]; exact ⟨fun _ => e1, fun _ => rfl⟩
        · rw [if_neg e1]
          by_cases e2 : ((x.1 : Int), (x.2 : Int)) = s.agent
          · rw [if_pos e2]; exact ⟨fun h => absurd h consts_ne.1, fun h => absurd h e1⟩
          · rw [if_neg e2]; exact ⟨fun h => absurd ((hag x hx).1 h) e2, fun h => absurd h e1⟩
      · unfold countCells at hbox ⊢
        rw [← hbox]
        congr 1
        apply List.filter_congr
        intro y hy
        simp only [hg1]
        by_cases e1 : ((y.1 : Int), (y.2 : Int)) = p
        · have : Grid.get s.vgrid 0 y.1 y.2 ≠ BOX := by
            intro e; apply hb; rw [← e1]; simpa [at'] using e
          rw [if_pos e1]
          have h2 : (Grid.get s.vgrid 0 y.1 y.2 == BOX) = false := by simpa using this
          rw [h2]; decide
        · rw [if_neg e1]
          by_cases e2 : ((y.1 : Int), (y.2 : Int)) = s.agent
          · rw [if_pos e2, (hag y hy).2 e2]; decide
          · rw [if_neg e2]
      · intro x hx
        obtain ⟨h1, h2, h3⟩ := hval x hx
        refine ⟨?_, h2, ?_⟩
        · simp only [hg1]; repeat' split
          all_goals simp_all
        · intro hw
          simp only [hg1]
          by_cases e1 : ((x.1 : Int), (x.2 : Int)) = p
          · exfalso; apply hpw; rw [← e1]; simpa [at'] using hw
          · simp only [e1, if_false]
            split
            · rfl
            · exact h3 hw
  · simp only [hl, if_false]
    exact ⟨hf, hv, hA, hag, hbox, hval, by simp only []; omega⟩

/-- C07: `step` keeps the board physically consistent, whatever action 0..3 is played -/
theorem step_consistent (rnd : Rat → Rat) (cfg : Cfg) (s : State) (a : Nat) (ha : a < 4)
    (hc : Consistent cfg.n s) : Consistent cfg.n (step rnd cfg s a).1 := by
  rw [step_eq rnd cfg s a ha hc.1 hc.2.1 hc.2.2.1]
  exact spec_consistent cfg.n s a ha hc


theorem flatten_table {β : Type} (nr nc : Nat) (f : Nat → Nat → β) :
    List.flatten ((List.range nr).map (fun r => (List.range nc).map (fun c => f r c))) =
      (Grid.coords nr nc).map (fun p => f p.1 p.2) := by
  unfold Grid.coords
  rw [List.map_flatMap, List.flatMap_def]
  simp [Function.comp_def]

theorem countTargets_eq (n : Nat) (s : State) (hf : Grid.shaped s.fgrid n n = true)
    (hv : Grid.shaped s.vgrid n n = true) : countTargets s = boxesOnTarget n s := by
  unfold countTargets boxesOnTarget Grid.count Grid.zipWith
  conv => lhs; rw [Grid.l_eq_table hv 0, Grid.l_eq_table hf 0]
  rw [List.zipWith_map, List.zipWith_self]
  simp only [List.zipWith_map, List.zipWith_self]
  rw [flatten_table n n (fun r c => (Grid.get s.vgrid 0 r c == BOX && Grid.get s.fgrid 0 r c == TARGET))]
  rw [List.filter_map, List.length_map]
  rfl
theorem spec_shaped (n : Nat) (s : State) (a : Nat) (hv : Grid.shaped s.vgrid n n = true) :
    Grid.shaped (stepSpec n s a).vgrid n n = true ∧ (stepSpec n s a).fgrid = s.fgrid := by
  unfold stepSpec
  simp only []
  split
  · split
    · exact ⟨shaped_put (shaped_put (shaped_put hv _ _) _ _) _ _, rfl⟩
    · exact ⟨shaped_put (shaped_put hv _ _) _ _, rfl⟩
  · exact ⟨hv, rfl⟩

theorem reward_eq_spec (rnd : Rat → Rat) (cfg : Cfg) (s s' : State)
    (hf : Grid.shaped s.fgrid cfg.n cfg.n = true) (hv : Grid.shaped s.vgrid cfg.n cfg.n = true)
    (hf' : Grid.shaped s'.fgrid cfg.n cfg.n = true) (hv' : Grid.shaped s'.vgrid cfg.n cfg.n = true) :
    reward rnd cfg.dense s s' = rewardSpec rnd cfg s s' := by
  unfold reward rewardSpec
  simp only [countTargets_eq cfg.n s hf hv, countTargets_eq cfg.n s' hf' hv', beq_iff_eq]
  by_cases h : boxesOnTarget cfg.n s' = nBoxes <;> simp [h]

/-- C09: reward and termination flag of `step` are the documented ones, evaluated on the successor
prescribed by the rules -/
theorem step_ts_eq (rnd : Rat → Rat) (cfg : Cfg) (s : State) (a : Nat) (ha : a < 4)
    (hf : Grid.shaped s.fgrid cfg.n cfg.n = true) (hv : Grid.shaped s.vgrid cfg.n cfg.n = true)
    (hag : inside cfg.n s.agent) :
    (step rnd cfg s a).2.reward = [rewardSpec rnd cfg s (stepSpec cfg.n s a)] ∧
    ((step rnd cfg s a).2.stepType = .last ↔ doneSpec cfg (stepSpec cfg.n s a) = true) ∧
    ((step rnd cfg s a).2.stepType ≠ .last → (step rnd cfg s a).2.stepType = .mid) := by
  have he := step_eq rnd cfg s a ha hf hv hag
  obtain ⟨hv', hf'e⟩ := spec_shaped cfg.n s a hv
  have hf' : Grid.shaped (stepSpec cfg.n s a).fgrid cfg.n cfg.n = true := by rw [hf'e]; exact hf
  have hr : (step rnd cfg s a).2.reward = [reward rnd cfg.dense s (step rnd cfg s a).1] := by
    unfold step condLast; simp only []; split <;> split <;> rfl
  have hd : (step rnd cfg s a).2.stepType = (if (levelComplete (step rnd cfg s a).1 ||
      decide ((step rnd cfg s a).1.stepCount ≥ cfg.timeLimit)) then StepType.last else StepType.mid) := by
    unfold step condLast; simp only []; split <;> split <;> simp_all [termination, transition]
  rw [hr, hd, he]
  refine ⟨by rw [reward_eq_spec rnd cfg s _ hf hv hf' hv'], ?_, ?_⟩
  · unfold doneSpec levelComplete
    rw [countTargets_eq cfg.n _ hf' hv']
    split <;> simp_all
  · split <;> simp

end Sokoban
