/-
Sokoban — wave 3: the declared `observation_spec` as an `Sp` value and membership of everything `reset` / `step` emit
(C01); the reset observation (C12); the reaction of `step` (moves iff legal; C05); LAST iff solved or limit, and the
exact episode length (C11); completion through `step` is a solution (C06).  Helper lemmas and proofs; the thin
statements are in Props/Env/Sokoban.lean.
-/
import JumanjiModel.Env.Sokoban.BoundsLemmas
import JumanjiModel.Env.Sokoban.RewardLemmas
import JumanjiModel.Env.PuzzleSpecValid
import JumanjiModel.Core.EpisodeLemmas
namespace Sokoban
open Jm Jx Sp PzS

/-! ### the declared spec (env.py `observation_spec`) -/

/-- `observation_spec`: `grid` BoundedArray((num_rows, num_cols, 2), uint8, 0, 4) with `num_rows = num_cols = GRID_SIZE`;
`step_count` Array((), int32) — unbounded -/
def obsSpec (cfg : Cfg) : Sp.Nested :=
  [("grid", .bounded [cfg.n, cfg.n, 2] .uint8 "grid" [] [0] [] [4]),
   ("step_count", .array [] .int32 "step_count")]

/-- `action_spec`: DiscreteArray(4, int32) -/
def actionSpec : Leaf := .discrete 4 .int32 "action"

/-- one row of `jnp.stack([variable, fixed], axis=-1)`, row-major: `v₀ f₀ v₁ f₁ …` -/
def interleave (rv rf : List Int) : List Int := (List.zipWith (fun a b => [a, b]) rv rf).flatten

/-- the flat row-major data of `jnp.stack([variable_grid, fixed_grid], axis=-1)` -/
def stackLast (v f : Grid Int) : List Int := (List.zipWith interleave v f).flatten

def innerDim {α : Type} (d : Nat) : List (List α) → Nat
  | [] => d
  | r :: _ => r.length

/-- a model observation as the arrays the implementation emits (`grid` uint8 of shape `(n, n, 2)`, `step_count` int32);
the first two dimensions are read off the variable plane -/
def toNValue (cfg : Cfg) (o : Obs) : NValue :=
  [("grid", ⟨[List.length o.vgrid, innerDim cfg.n o.vgrid, 2], .uint8, ofInts (stackLast o.vgrid o.fgrid)⟩),
   ("step_count", ⟨[], .int32, [(o.stepCount : Rat)]⟩)]

theorem interleave_length (rv rf : List Int) (m : Nat) (h1 : rv.length = m) (h2 : rf.length = m) :
    (interleave rv rf).length = m * 2 := by
  induction rv generalizing rf m with
  | nil => simp [interleave] at h1 ⊢; omega
  | cons a t ih =>
    cases rf with
    | nil => simp at h1 h2; omega
    | cons b u =>
      have := ih u (m - 1) (by simp at h1; omega) (by simp at h2; omega)
      simp only [interleave, List.zipWith_cons_cons, List.flatten_cons, List.length_append, List.length_cons,
        List.length_nil] at this ⊢
      simp at h1
      omega

theorem mem_interleave (rv rf : List Int) (x : Int) (h : x ∈ interleave rv rf) : x ∈ rv ∨ x ∈ rf := by
  induction rv generalizing rf with
  | nil => simp [interleave] at h
  | cons a t ih =>
    cases rf with
    | nil => simp [interleave] at h
    | cons b u =>
      simp only [interleave, List.zipWith_cons_cons, List.flatten_cons, List.mem_append, List.mem_cons,
        List.not_mem_nil, or_false] at h
      rcases h with (rfl | rfl) | h
      · simp
      · simp
      · rcases ih u h with h | h
        · left; simp [h]
        · right; simp [h]

theorem stackLast_length (v f : Grid Int) (k m : Nat) (hv : v.length = k) (hf : f.length = k)
    (hvr : ∀ r ∈ v, r.length = m) (hfr : ∀ r ∈ f, r.length = m) : (stackLast v f).length = k * (m * 2) := by
  induction v generalizing f k with
  | nil => simp at hv; subst hv; simp [stackLast]
  | cons a t ih =>
    cases f with
    | nil => simp at hv hf; omega
    | cons b u =>
      have h1 := interleave_length a b m (hvr a (by simp)) (hfr b (by simp))
      have h2 := ih u (k - 1) (by simp at hv; omega) (by simp at hf; omega) (fun r hr => hvr r (by simp [hr]))
        (fun r hr => hfr r (by simp [hr]))
      simp only [stackLast, List.zipWith_cons_cons, List.flatten_cons, List.length_append] at h2 ⊢
      rw [h1, h2]
      simp at hv
      have : k = (k - 1) + 1 := by omega
      conv => rhs; rw [this, Nat.add_mul]
      omega

theorem mem_stackLast (v f : Grid Int) (x : Int) (h : x ∈ stackLast v f) :
    x ∈ List.flatten v ∨ x ∈ List.flatten f := by
  induction v generalizing f with
  | nil => simp [stackLast] at h
  | cons a t ih =>
    cases f with
    | nil => simp [stackLast] at h
    | cons b u =>
      simp only [stackLast, List.zipWith_cons_cons, List.flatten_cons, List.mem_append] at h
      rcases h with h | h
      · rcases mem_interleave a b x h with h | h
        · left; simp [h]
        · right; simp [h]
      · rcases ih u h with h | h
        · left; simp only [List.flatten_cons, List.mem_append]; exact Or.inr h
        · right; simp only [List.flatten_cons, List.mem_append]; exact Or.inr h

theorem shaped_rows {g : Grid Int} {nr nc : Nat} (h : Grid.shaped g nr nc = true) :
    g.length = nr ∧ ∀ r ∈ g, r.length = nc := by
  unfold Grid.shaped at h
  simp only [Bool.and_eq_true, beq_iff_eq, List.all_eq_true] at h
  exact h

theorem innerDim_of_rows {α : Type} (d m : Nat) (g : List (List α)) (h : ∀ r ∈ g, r.length = m) (h0 : g = [] → d = m) :
    innerDim d g = m := by
  cases g with
  | nil => exact h0 rfl
  | cons r t => exact h r (by simp)

/-- C01: the observation of a consistent board is a member of `observation_spec`: fields `grid`, `step_count`; shapes
`(n, n, 2)`, `()`; dtypes uint8, int32; every cell of both planes in [0, 4]; the counter is unconstrained -/
theorem obs_valid (cfg : Cfg) (s : State) (hc : Consistent cfg.n s) :
    (obsSpec cfg).valid (toNValue cfg (stateToObs s)) = true := by
  obtain ⟨hvl, hvr⟩ := shaped_rows hc.2.1
  obtain ⟨hfl, hfr⟩ := shaped_rows hc.1
  have k1 : (Leaf.bounded [cfg.n, cfg.n, 2] .uint8 "grid" [] [0] [] [4]).valid
      ⟨[List.length s.vgrid, innerDim cfg.n s.vgrid, 2], .uint8, ofInts (stackLast s.vgrid s.fgrid)⟩ = true := by
    rw [hvl, innerDim_of_rows cfg.n cfg.n s.vgrid hvr (fun _ => rfl)]
    refine valid_scalar_bounded _ _ _ _ _ _ ?_ ?_
    · rw [ofInts, List.length_map, stackLast_length s.vgrid s.fgrid cfg.n cfg.n hvl hfl hvr hfr, prod_three]
      rw [Nat.mul_assoc]
    · have := ofInts_bounds (stackLast s.vgrid s.fgrid) 0 4 (fun x hx =>
        cells_range hc x (List.mem_append.mpr (mem_stackLast _ _ x hx)))
      simpa using this
  have k2 : (Leaf.array [] .int32 "step_count").valid ⟨[], .int32, [(s.stepCount : Rat)]⟩ = true :=
    valid_array _ _ _ _ (by simp [prod])
  simp [Nested.valid, obsSpec, toNValue, stateToObs, k1, k2]

/-- what `validate` accepts: a member has `n` rows, `n·n·2` cells, all in [0, 4] -/
theorem obs_valid_only (cfg : Cfg) (o : Obs) (h : (obsSpec cfg).valid (toNValue cfg o) = true) :
    List.length o.vgrid = cfg.n ∧ (stackLast o.vgrid o.fgrid).length = cfg.n * cfg.n * 2 ∧
    ∀ v ∈ stackLast o.vgrid o.fgrid, 0 ≤ v ∧ v ≤ 4 := by
  simp only [Nested.valid, obsSpec, toNValue, List.map_cons, List.map_nil, List.zipWith_cons_cons, List.zipWith_nil_right,
    List.all_cons, List.all_nil, id, Bool.and_true, Bool.and_eq_true, beq_self_eq_true, true_and] at h
  obtain ⟨h1, _⟩ := h
  rw [valid_scalar_bounded_iff] at h1
  obtain ⟨s1, _, l1, b1⟩ := h1
  simp only [List.cons.injEq, and_true] at s1
  refine ⟨s1.1, by rw [ofInts, List.length_map] at l1; simpa [prod] using l1, ?_⟩
  intro v hv
  have := b1 (v : Rat) (by simp only [ofInts, List.mem_map]; exact ⟨v, hv, rfl⟩)
  exact ⟨by simpa using (Rat.intCast_le_intCast (a := 0) (b := v)).mp (by simpa using this.1),
         by simpa using (Rat.intCast_le_intCast (a := v) (b := 4)).mp (by simpa using this.2)⟩

theorem reset_obs_valid (cfg : Cfg) (g : State) (hc : Consistent cfg.n g) :
    (obsSpec cfg).valid (toNValue cfg (reset g).2.obs) = true := obs_valid cfg g hc

theorem step_obs_valid (rnd : Rat → Rat) (cfg : Cfg) (s : State) (a : Nat) (ha : a < 4) (hc : Consistent cfg.n s) :
    (obsSpec cfg).valid (toNValue cfg (step rnd cfg s a).2.obs) = true := by
  rw [obs_faithful]
  exact obs_valid cfg _ (step_consistent rnd cfg s a ha hc)

/-- every observation of every episode from a consistent start: after ANY actions 0..3 the next step (any action 0..3)
emits a member of the declared spec — also after LAST and beyond the time limit (the counter is unconstrained) -/
theorem obs_valid_along (rnd : Rat → Rat) (cfg : Cfg) (s : State) (hc : Consistent cfg.n s) (as : List Int)
    (ha : ValidActions as) (a : Nat) (ha4 : a < 4) :
    (obsSpec cfg).valid (toNValue cfg (step rnd cfg (runState rnd cfg s as) a).2.obs) = true :=
  step_obs_valid rnd cfg _ a ha4 (run_consistent rnd cfg s as ha hc)

/-! ### C12: reset -/

theorem reset_obs_faithful (g : State) :
    (reset g).2.obs = observe (reset g).1 ∧ (reset g).2.stepType = .first ∧ (reset g).1 = g := ⟨rfl, rfl, rfl⟩

/-! ### C05 / "step agrees": the agent moves iff the move is legal -/

theorem step_moves_iff_legal (rnd : Rat → Rat) (cfg : Cfg) (s : State) (a : Nat) (ha : a < 4)
    (hf : Grid.shaped s.fgrid cfg.n cfg.n = true) (hv : Grid.shaped s.vgrid cfg.n cfg.n = true)
    (hag : inside cfg.n s.agent) :
    ((step rnd cfg s a).1.agent = add s.agent (dirOf a) ↔ legal cfg.n s a) ∧
    ((step rnd cfg s a).1.agent = s.agent ↔ ¬ legal cfg.n s a) := by
  rw [step_eq rnd cfg s a ha hf hv hag]
  have hne : add s.agent (dirOf a) ≠ s.agent := add_ne_self (dirOf_ne ha)
  unfold stepSpec
  by_cases h : legal cfg.n s a
  · rw [if_pos h]
    exact ⟨⟨fun _ => h, fun _ => rfl⟩, ⟨fun e => absurd e hne, fun hn => absurd h hn⟩⟩
  · rw [if_neg h]
    exact ⟨⟨fun e => absurd e.symm hne, fun hh => absurd hh h⟩, ⟨fun _ => h, fun _ => rfl⟩⟩

/-! ### C09: `step = stepL2` (state AND timestep: step type, reward, discount, observation) -/

/-- the step prescribed by the rules, as one function: the L2 successor (`stepSpec`: stay / walk / push) and the
timestep the documentation describes — LAST with discount 0 iff all boxes are on targets or the limit is reached
(`doneSpec`), MID with discount 1 otherwise; the documented reward (`rewardSpec`); the observation of the successor -/
def stepL2 (rnd : Rat → Rat) (cfg : Cfg) (s : State) (a : Nat) : State × TimeStep Obs :=
  let t := stepSpec cfg.n s a
  (t, condLast (doneSpec cfg t) [rewardSpec rnd cfg s t] (observe t))

theorem step_snd (rnd : Rat → Rat) (cfg : Cfg) (s : State) (a : Int) :
    (step rnd cfg s a).2 = condLast (levelComplete (step rnd cfg s a).1 ||
        decide ((step rnd cfg s a).1.stepCount ≥ cfg.timeLimit))
      [reward rnd cfg.dense s (step rnd cfg s a).1] (stateToObs (step rnd cfg s a).1) := by
  unfold step
  simp only []

theorem step_refines (rnd : Rat → Rat) (cfg : Cfg) (s : State) (a : Nat) (ha : a < 4)
    (hf : Grid.shaped s.fgrid cfg.n cfg.n = true) (hv : Grid.shaped s.vgrid cfg.n cfg.n = true)
    (hag : inside cfg.n s.agent) : step rnd cfg s a = stepL2 rnd cfg s a := by
  have he := step_eq rnd cfg s a ha hf hv hag
  obtain ⟨hv', hf'e⟩ := spec_shaped cfg.n s a hv
  have hf' : Grid.shaped (stepSpec cfg.n s a).fgrid cfg.n cfg.n = true := by rw [hf'e]; exact hf
  apply Prod.ext
  · exact he
  · rw [step_snd, he]
    show _ = condLast (doneSpec cfg (stepSpec cfg.n s a)) [rewardSpec rnd cfg s (stepSpec cfg.n s a)]
      (observe (stepSpec cfg.n s a))
    rw [reward_eq_spec rnd cfg s _ hf hv hf' hv']
    have hd : (levelComplete (stepSpec cfg.n s a) || decide ((stepSpec cfg.n s a).stepCount ≥ cfg.timeLimit))
        = doneSpec cfg (stepSpec cfg.n s a) := by
      unfold doneSpec levelComplete
      rw [countTargets_eq cfg.n _ hf' hv']
      by_cases h : boxesOnTarget cfg.n (stepSpec cfg.n s a) = nBoxes <;> simp [h]
    rw [hd]
    rfl

/-! ### `action_spec.generate_value()` -/

/-- `generate_value()` = 0 ("up") is a member of `DiscreteArray(4)`, and `step` answers it in EVERY state with a
protocol-conform timestep -/
theorem accepts_generate_value (rnd : Rat → Rat) (cfg : Cfg) (s : State) :
    actionSpec.WF = true ∧ actionSpec.valid actionSpec.generate = true ∧
    actionSpec.generate = ⟨[], .int32, [0]⟩ ∧ StepOK none false (step rnd cfg s 0).2 = true := by
  refine ⟨by decide, by decide, by decide, ?_⟩
  rw [step_snd]
  generalize (levelComplete _ || _) = b
  cases b <;> rfl

/-! ### C11: LAST iff solved or limit; whole episodes -/

theorem step_last_iff (rnd : Rat → Rat) (cfg : Cfg) (s : State) (a : Int) :
    (step rnd cfg s a).2.stepType = .last ↔
      (levelComplete (step rnd cfg s a).1 = true ∨ cfg.timeLimit ≤ s.stepCount + 1) := by
  rw [step_stepType, (step_count rnd cfg s a).1]
  cases hl : levelComplete (step rnd cfg s a).1
  · by_cases ht : cfg.timeLimit ≤ s.stepCount + 1
    · simp [ht]
    · simp [ht]
  · simp

/-! ### C06: completion through `step` -/

theorem filter_and_eq {α : Type} (l : List α) (p q : α → Bool)
    (h : (l.filter (fun x => p x && q x)).length = (l.filter p).length) : ∀ x ∈ l, p x = true → q x = true := by
  induction l with
  | nil => intro x hx; simp at hx
  | cons a t ih =>
    have hle : (t.filter (fun x => p x && q x)).length ≤ (t.filter p).length := by
      have : t.filter (fun x => p x && q x) = (t.filter p).filter q := by rw [List.filter_filter]; congr 1; funext x; rw [Bool.and_comm]
      rw [this]; exact List.length_filter_le _ _
    intro x hx hpx
    cases hpa : p a <;> cases hqa : q a <;> simp only [List.filter_cons, hpa, hqa, Bool.and_self, Bool.and_false,
      Bool.false_and, Bool.and_true, if_true, if_false, List.length_cons, Bool.false_eq_true] at h
    · rcases List.mem_cons.mp hx with rfl | hx
      · rw [hpa] at hpx; cases hpx
      · exact ih h x hx hpx
    · rcases List.mem_cons.mp hx with rfl | hx
      · rw [hpa] at hpx; cases hpx
      · exact ih h x hx hpx
    · omega
    · rcases List.mem_cons.mp hx with rfl | hx
      · exact hqa
      · exact ih (by omega) x hx hpx

/-- on a consistent board "the count of boxes on targets is 4" means: EVERY box stands on a target -/
theorem all_boxes_on_targets {n : Nat} {s : State} (hc : Consistent n s) (h : boxesOnTarget n s = nBoxes) :
    ∀ p ∈ Grid.coords n n, Grid.get s.vgrid 0 p.1 p.2 = BOX → Grid.get s.fgrid 0 p.1 p.2 = TARGET := by
  have hb : countCells n s.vgrid BOX = nBoxes := hc.2.2.2.2.1
  have := filter_and_eq (Grid.coords n n) (fun p => Grid.get s.vgrid 0 p.1 p.2 == BOX)
    (fun p => Grid.get s.fgrid 0 p.1 p.2 == TARGET) (by
      have e1 : boxesOnTarget n s = ((Grid.coords n n).filter (fun p => Grid.get s.vgrid 0 p.1 p.2 == BOX &&
        Grid.get s.fgrid 0 p.1 p.2 == TARGET)).length := rfl
      have e2 : countCells n s.vgrid BOX = ((Grid.coords n n).filter (fun p => Grid.get s.vgrid 0 p.1 p.2 == BOX)).length := rfl
      rw [← e1, ← e2, h, hb])
  intro p hp hbx
  have := this p hp (by simp [hbx])
  simpa using this

/-- the documented notion of a solved level, recomputed from the raw grids: the board is consistent and every box
stands on a target -/
def IsSolution (n : Nat) (s : State) : Prop :=
  Consistent n s ∧ ∀ p ∈ Grid.coords n n, Grid.get s.vgrid 0 p.1 p.2 = BOX → Grid.get s.fgrid 0 p.1 p.2 = TARGET

/-- a LAST timestep emitted by `step` before the time limit, from a consistent board with an action 0..3, certifies a
solved level: the successor is consistent and every one of its 4 boxes stands on a target; the reward carries the
bonus 10 (sparse: equals 10) -/
theorem step_complete_is_solution (rnd : Rat → Rat) (cfg : Cfg) (s : State) (a : Nat) (ha : a < 4)
    (hc : Consistent cfg.n s) (hl : (step rnd cfg s a).2.stepType = .last) (ht : s.stepCount + 1 < cfg.timeLimit) :
    IsSolution cfg.n (step rnd cfg s a).1 ∧ levelComplete (step rnd cfg s a).1 = true ∧
    (cfg.dense = false → (step rnd cfg s a).2.reward = [10]) := by
  have hc' := step_consistent rnd cfg s a ha hc
  have hlc : levelComplete (step rnd cfg s a).1 = true := by
    rcases (step_last_iff rnd cfg s a).1 hl with h | h
    · exact h
    · omega
  have hb : boxesOnTarget cfg.n (step rnd cfg s a).1 = nBoxes := by
    rw [← countTargets_eq cfg.n _ hc'.1 hc'.2.1]
    simpa [levelComplete] using hlc
  refine ⟨⟨hc', all_boxes_on_targets hc' hb⟩, hlc, ?_⟩
  intro hd
  rw [step_reward, hd, reward_sparse]
  simp [hlc]

/-! ### audit r5 #4 / #13: LAST at the level of the rules; the two episode iterators coincide -/

/-- converse of `all_boxes_on_targets`: on a consistent board, if every box stands on a target the count is `nBoxes` -/
theorem boxes_on_targets_count {n : Nat} {s : State} (hc : Consistent n s)
    (h : ∀ p ∈ Grid.coords n n, Grid.get s.vgrid 0 p.1 p.2 = BOX → Grid.get s.fgrid 0 p.1 p.2 = TARGET) :
    boxesOnTarget n s = nBoxes := by
  rw [← hc.2.2.2.2.1]
  unfold boxesOnTarget countCells
  congr 1
  apply List.filter_congr
  intro p hp
  by_cases hb : Grid.get s.vgrid 0 p.1 p.2 = BOX
  · simp [hb, h p hp hb]
  · simp [hb]

theorem count_iff_all {n : Nat} {s : State} (hc : Consistent n s) :
    boxesOnTarget n s = nBoxes ↔
      ∀ p ∈ Grid.coords n n, Grid.get s.vgrid 0 p.1 p.2 = BOX → Grid.get s.fgrid 0 p.1 p.2 = TARGET :=
  ⟨all_boxes_on_targets hc, boxes_on_targets_count hc⟩

theorem levelComplete_iff_solution {n : Nat} {s : State} (hc : Consistent n s) :
    levelComplete s = true ↔ IsSolution n s := by
  have e : levelComplete s = true ↔ boxesOnTarget n s = nBoxes := by
    rw [← countTargets_eq n s hc.1 hc.2.1]; simp [levelComplete]
  rw [e, count_iff_all hc]
  exact ⟨fun h => ⟨hc, h⟩, fun h => h.2⟩

/-- LAST ⇔ (the successor is a solved level by the RULES ∨ the time limit is reached) -/
theorem last_iff_rules (rnd : Rat → Rat) (cfg : Cfg) (s : State) (a : Nat) (ha : a < 4) (hc : Consistent cfg.n s) :
    (step rnd cfg s a).2.stepType = .last ↔
      (IsSolution cfg.n (step rnd cfg s a).1 ∨ cfg.timeLimit ≤ s.stepCount + 1) := by
  rw [step_last_iff, levelComplete_iff_solution (step_consistent rnd cfg s a ha hc)]

theorem stepL2_discount (rnd : Rat → Rat) (cfg : Cfg) (s : State) (a : Nat) :
    (stepL2 rnd cfg s a).2.discount = [if doneSpec cfg (stepSpec cfg.n s a) then 0 else 1] := by
  unfold stepL2 condLast; simp only []; split <;> rfl

end Sokoban
