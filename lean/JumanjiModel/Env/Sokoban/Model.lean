/-
Sokoban (jumanji/environments/routing/sokoban/{env,reward,constants,types}.py).  Import-free.

L1 = transliteration of `step`, `detect_noop_action`, `update_box_push_action`, `move_agent`,
`level_complete`, `count_targets`, `DenseReward`, `SparseReward`, `_state_to_observation`.
`grid[tuple(location)]` is a gather (wrap + clamp, `Grid.getWC`), `.at[tuple(location)].set` a
scatter (wrap + drop, `Grid.setWD`).  `GRID_SIZE` is the configuration parameter `n` (10 in the
source).  There is no action mask and no randomness in `step`.  The float32 sum of the dense reward
(`int + STEP_BONUS`) is the rounding parameter `rnd`.

L2 = the documented rules: `legal` (the agent moves iff the destination is inside the grid, not a
wall and — when it holds a box — the cell behind the box is inside the grid, not a wall and not a box),
`stepSpec` (walk / push / stay), `Consistent` (exactly `nBoxes` boxes, exactly one AGENT cell and it
is `agent_location`, nothing inside walls), `observe`.
-/
import JumanjiModel.Prim.Idx
import JumanjiModel.Prim.Grid
import JumanjiModel.Core.TimeStep
namespace Sokoban
open Jm Jx

/-- object encodings (constants.py) -/
def EMPTY : Int := 0
def WALL : Int := 1
def TARGET : Int := 2
def AGENT : Int := 3
def BOX : Int := 4
def NOOP : Int := -1
def nBoxes : Nat := 4

structure Cfg where
  n : Nat               -- GRID_SIZE
  timeLimit : Int
  dense : Bool          -- DenseReward / SparseReward
  deriving Repr, DecidableEq

abbrev Loc := Int × Int

structure State where
  fgrid : Grid Int
  vgrid : Grid Int
  agent : Loc
  stepCount : Int
  deriving Repr, DecidableEq

/-- `grid` = stack([variable_grid, fixed_grid], axis=-1), kept as its two planes -/
structure Obs where
  vgrid : Grid Int
  fgrid : Grid Int
  stepCount : Int
  deriving Repr, DecidableEq

/-! ### L1 -/

/-- `MOVES`: Up, Right, Down, Left -/
def moves : List Loc := [(-1, 0), (0, 1), (1, 0), (0, -1)]

/-- `MOVES[action]` -/
def moveOf (a : Int) : Loc := getWC moves (0, 0) a

def add (p q : Loc) : Loc := (p.1 + q.1, p.2 + q.2)

/-- `check_space(grid, location, value)`: `grid[tuple(location)] == value` -/
def checkSpace (g : Grid Int) (loc : Loc) (v : Int) : Bool := Grid.getWC g 0 loc.1 loc.2 == v

/-- `in_grid(coordinates)` -/
def inGrid (n : Nat) (p : Loc) : Bool :=
  decide (0 ≤ p.1) && decide (p.1 < (n : Int)) && decide (0 ≤ p.2) && decide (p.2 < (n : Int))

/-- `update_box_push_action` -/
def updateBoxPush (n : Nat) (fgrid vgrid : Grid Int) (newLoc : Loc) (a : Int) : Int :=
  let b := add newLoc (moveOf a)
  if checkSpace vgrid b BOX || !(inGrid n b) then NOOP
  else if checkSpace fgrid b WALL then NOOP else a

/-- `detect_noop_action` -/
def detectNoop (n : Nat) (vgrid fgrid : Grid Int) (a : Int) (agent : Loc) : Int :=
  let newLoc := add agent (moveOf a)
  if checkSpace fgrid newLoc WALL || !(inGrid n newLoc) then NOOP
  else if checkSpace vgrid newLoc BOX then updateBoxPush n fgrid vgrid newLoc a
  else a

/-- `move_agent` -/
def moveAgent (vgrid : Grid Int) (a : Int) (cur : Loc) : Grid Int × Loc :=
  let next := add cur (moveOf a)
  let box := add next (moveOf a)
  let g1 := Grid.setWD vgrid cur.1 cur.2 EMPTY
  let g :=
    if checkSpace vgrid next BOX then
      Grid.setWD (Grid.setWD g1 next.1 next.2 AGENT) box.1 box.2 BOX
    else Grid.setWD g1 next.1 next.2 AGENT
  (g, next)

/-- `count_targets`: number of cells with a box on a target -/
def countTargets (s : State) : Nat :=
  Grid.count id (Grid.zipWith (fun v f => v == BOX && f == TARGET) s.vgrid s.fgrid)

/-- `level_complete` -/
def levelComplete (s : State) : Bool := countTargets s == nBoxes

/-- the reward functions (`reward.py`) -/
def reward (rnd : Rat → Rat) (dense : Bool) (s s' : State) : Rat :=
  let completed : Int := if countTargets s' == nBoxes then 1 else 0
  if dense then
    rnd ((((countTargets s' : Int) - (countTargets s : Int) + 10 * completed : Int) : Rat) + rnd (-1 / 10))
  else ((10 * completed : Int) : Rat)

def stateToObs (s : State) : Obs := { vgrid := s.vgrid, fgrid := s.fgrid, stepCount := s.stepCount }

def step (rnd : Rat → Rat) (cfg : Cfg) (s : State) (a : Int) : State × TimeStep Obs :=
  let a' := detectNoop cfg.n s.vgrid s.fgrid a s.agent
  let (g, loc) := if a' == NOOP then (s.vgrid, s.agent) else moveAgent s.vgrid a' s.agent
  let s' : State := { fgrid := s.fgrid, vgrid := g, agent := loc, stepCount := s.stepCount + 1 }
  let done := levelComplete s' || decide (s'.stepCount ≥ cfg.timeLimit)
  let r := reward rnd cfg.dense s s'
  (s', condLast done [r] (stateToObs s'))

/-! ### L2: the rules -/

def dirOf : Nat → Loc
  | 0 => (-1, 0)
  | 1 => (0, 1)
  | 2 => (1, 0)
  | 3 => (0, -1)
  | _ => (0, 0)

def inside (n : Nat) (p : Loc) : Prop := 0 ≤ p.1 ∧ p.1 < n ∧ 0 ≤ p.2 ∧ p.2 < n

instance (n : Nat) (p : Loc) : Decidable (inside n p) := by unfold inside; infer_instance

/-- content of a cell that is inside the grid -/
def at' (g : Grid Int) (p : Loc) : Int := Grid.get g 0 p.1.toNat p.2.toNat

/-- something can be moved onto `p`: inside the grid, not a wall, no box there -/
def free (n : Nat) (s : State) (p : Loc) : Prop :=
  inside n p ∧ at' s.fgrid p ≠ WALL ∧ at' s.vgrid p ≠ BOX

instance (n : Nat) (s : State) (p : Loc) : Decidable (free n s p) := by unfold free; infer_instance

/-- the move in direction `a` takes effect -/
def legal (n : Nat) (s : State) (a : Nat) : Prop :=
  a < 4 ∧
  let p := add s.agent (dirOf a)
  inside n p ∧ at' s.fgrid p ≠ WALL ∧ (at' s.vgrid p = BOX → free n s (add p (dirOf a)))

instance (n : Nat) (s : State) (a : Nat) : Decidable (legal n s a) := by unfold legal; infer_instance

/-- the move pushes a box -/
def pushes (n : Nat) (s : State) (a : Nat) : Prop :=
  legal n s a ∧ at' s.vgrid (add s.agent (dirOf a)) = BOX

instance (n : Nat) (s : State) (a : Nat) : Decidable (pushes n s a) := by unfold pushes; infer_instance

def put (g : Grid Int) (p : Loc) (v : Int) : Grid Int := Grid.set g p.1.toNat p.2.toNat v

/-- the successor prescribed by the rules: stay (only the step counter advances), walk, or push -/
def stepSpec (n : Nat) (s : State) (a : Nat) : State :=
  let p := add s.agent (dirOf a)
  let q := add p (dirOf a)
  if legal n s a then
    let g := put (put s.vgrid s.agent EMPTY) p AGENT
    let g := if at' s.vgrid p = BOX then put g q BOX else g
    { s with vgrid := g, agent := p, stepCount := s.stepCount + 1 }
  else { s with stepCount := s.stepCount + 1 }

/-- number of boxes standing on targets, counted cell by cell over the `n × n` board -/
def boxesOnTarget (n : Nat) (s : State) : Nat :=
  ((Grid.coords n n).filter (fun p => Grid.get s.vgrid 0 p.1 p.2 == BOX && Grid.get s.fgrid 0 p.1 p.2 == TARGET)).length

/-- documented reward: ±1 per box moved onto / off a target, +10 when all boxes are on targets,
−0.1 per step (dense); 10 on completion only (sparse) -/
def rewardSpec (rnd : Rat → Rat) (cfg : Cfg) (s s' : State) : Rat :=
  let solved : Int := if boxesOnTarget cfg.n s' = nBoxes then 10 else 0
  if cfg.dense then rnd ((((boxesOnTarget cfg.n s' : Int) - (boxesOnTarget cfg.n s : Int) + solved : Int) : Rat) + rnd (-1 / 10))
  else (solved : Rat)

/-- documented termination: all boxes on targets, or the step limit is reached -/
def doneSpec (cfg : Cfg) (s' : State) : Bool :=
  decide (boxesOnTarget cfg.n s' = nBoxes) || decide (s'.stepCount ≥ cfg.timeLimit)

def countCells (n : Nat) (g : Grid Int) (v : Int) : Nat :=
  ((Grid.coords n n).filter (fun p => Grid.get g 0 p.1 p.2 == v)).length

/-- physical consistency (C07): well-shaped grids, only walls/targets in the fixed grid, only
agent/boxes in the variable grid, exactly `nBoxes` boxes, exactly one AGENT cell which is
`agent_location` (inside the grid), nothing movable inside a wall -/
def Consistent (n : Nat) (s : State) : Prop :=
  Grid.shaped s.fgrid n n = true ∧ Grid.shaped s.vgrid n n = true ∧
  inside n s.agent ∧
  (∀ p ∈ Grid.coords n n, Grid.get s.vgrid 0 p.1 p.2 = AGENT ↔ ((p.1 : Int), (p.2 : Int)) = s.agent) ∧
  countCells n s.vgrid BOX = nBoxes ∧
  (∀ p ∈ Grid.coords n n,
    (Grid.get s.vgrid 0 p.1 p.2 = EMPTY ∨ Grid.get s.vgrid 0 p.1 p.2 = AGENT ∨ Grid.get s.vgrid 0 p.1 p.2 = BOX) ∧
    (Grid.get s.fgrid 0 p.1 p.2 = EMPTY ∨ Grid.get s.fgrid 0 p.1 p.2 = WALL ∨ Grid.get s.fgrid 0 p.1 p.2 = TARGET) ∧
    (Grid.get s.fgrid 0 p.1 p.2 = WALL → Grid.get s.vgrid 0 p.1 p.2 = EMPTY)) ∧
  0 ≤ s.stepCount

instance (n : Nat) (s : State) : Decidable (Consistent n s) := by unfold Consistent; infer_instance

/-- conserved across a transition (C07): the walls/targets and the number of boxes -/
def conserved (n : Nat) (s s' : State) : Bool :=
  decide (s'.fgrid = s.fgrid) && decide (countCells n s'.vgrid BOX = countCells n s.vgrid BOX) &&
  decide (s'.stepCount = s.stepCount + 1)

/-- documented observation: the variable and the fixed grid, and the step count -/
def observe (s : State) : Obs := { vgrid := s.vgrid, fgrid := s.fgrid, stepCount := s.stepCount }

end Sokoban
