/-
Sokoban C10 / C07: the level certificate implies the consistency invariant, the shipped levels of `ToyGenerator`
and `SimpleSolveGenerator` satisfy the certificate, and consistency is kept over whole episodes.
-/
import JumanjiModel.Env.Sokoban.Generator
import JumanjiModel.Env.Sokoban.Lemmas
namespace Sokoban
open Jm Jx

theorem filter_one_unique {α : Type} {l : List α} {p : α → Bool} (h : (l.filter p).length = 1)
    {a b : α} (ha : a ∈ l) (pa : p a = true) (hb : b ∈ l) (pb : p b = true) : a = b := by
  obtain ⟨x, hx⟩ := List.length_eq_one_iff.1 h
  have h1 : a ∈ l.filter p := List.mem_filter.2 ⟨ha, pa⟩
  have h2 : b ∈ l.filter p := List.mem_filter.2 ⟨hb, pb⟩
  rw [hx] at h1 h2
  simp at h1 h2
  rw [h1, h2]

theorem filter_eq_length_one {α : Type} [DecidableEq α] {l : List α} (hn : l.Nodup) {a : α} (ha : a ∈ l)
    {p : α → Bool} (hp : ∀ x ∈ l, p x = true ↔ x = a) : (l.filter p).length = 1 := by
  have e : l.filter p = l.filter (fun x => x == a) := by
    apply List.filter_congr
    intro x hx
    by_cases h : x = a
    · simp [h, (hp a ha).2 rfl]
    · have : p x = false := by
        cases hpx : p x
        · rfl
        · exact absurd ((hp x hx).1 hpx) h
      simp [h, this]
  rw [e, ← List.countP_eq_length_filter, ← List.count_eq_countP]
  have h1 : List.count a l ≤ 1 := List.nodup_iff_count.1 hn a
  have h2 : 0 < List.count a l := List.count_pos_iff.2 ha
  omega

/-- the AGENT cell of a certified level is `agent_location` and no other -/
theorem cert_agent_iff {n : Nat} {s : State} (h : LevelCert n s) :
    ∀ p ∈ Grid.coords n n, Grid.get s.vgrid 0 p.1 p.2 = AGENT ↔ ((p.1 : Int), (p.2 : Int)) = s.agent := by
  obtain ⟨_, _, hA, _, _, hin, hat, _, _⟩ := h
  intro p hp
  constructor
  · intro hg
    unfold countCells at hA
    have := filter_one_unique (p := fun (q : Nat × Nat) => Grid.get s.vgrid 0 q.1 q.2 == AGENT) hA hp (by simpa using hg)
      (cell_mem hin) (by simpa [at'] using hat)
    rw [this]; exact cast_cell hin
  · intro e
    rw [cell_of_cast e]; exact hat

/-- C10: certificate ⇒ the advertised invariants of a fresh level -/
theorem cert_consistent {n : Nat} {s : State} (h : LevelCert n s) : Consistent n s := by
  have hag := cert_agent_iff h
  obtain ⟨hf, hv, _, hB, _, hin, _, hval, h0⟩ := h
  refine ⟨hf, hv, hin, hag, hB, ?_, by omega⟩
  intro p hp
  obtain ⟨h1, h2, h3⟩ := hval p hp
  refine ⟨h1, h2, fun hw => h3 ?_⟩
  rw [hw]; decide

/-- no box of a certified level stands on a target -/
theorem cert_boxesOnTarget {n : Nat} {s : State} (h : LevelCert n s) : boxesOnTarget n s = 0 := by
  obtain ⟨_, _, _, _, _, _, _, hval, _⟩ := h
  unfold boxesOnTarget
  rw [List.length_eq_zero_iff, List.filter_eq_nil_iff]
  intro p hp
  obtain ⟨_, _, h3⟩ := hval p hp
  intro hc
  simp only [Bool.and_eq_true, beq_iff_eq] at hc
  have := h3 (by rw [hc.2]; decide)
  rw [hc.1] at this
  exact absurd this (by decide)

/-- a consistent board has exactly one AGENT cell -/
theorem consistent_agent_count {n : Nat} {s : State} (h : Consistent n s) : countCells n s.vgrid AGENT = 1 := by
  obtain ⟨_, _, hin, hag, _⟩ := h
  unfold countCells
  apply filter_eq_length_one (Grid.l_nodup_coords n n) (cell_mem hin)
  intro x hx
  rw [beq_iff_eq, hag x hx]
  constructor
  · intro e; exact cell_of_cast e
  · intro e; rw [e]; exact cast_cell hin

/-! ### the shipped levels -/

/-- the certificate on the (optional) output of a generator -/
def certOpt (n : Nat) (o : Option State) : Bool :=
  match o with
  | some s => decide (LevelCert n s)
  | none => false

theorem certOpt_spec {n : Nat} {o : Option State} (h : certOpt n o = true) : ∃ s, o = some s ∧ LevelCert n s := by
  cases o with
  | none => simp [certOpt] at h
  | some s => exact ⟨s, rfl, by simpa [certOpt] using h⟩

theorem toy_certOpt : certOpt 10 (toyGenerate 0) = true ∧ certOpt 10 (toyGenerate 1) = true := by decide +kernel

theorem simple_certOpt : certOpt 10 simpleGenerate = true := by decide +kernel

/-- C10: for every valid draw, `ToyGenerator` produces a level and it satisfies the certificate (GRID_SIZE = 10) -/
theorem toy_cert (idx : Nat) (h : toyValidDraw idx) : ∃ s, toyGenerate idx = some s ∧ LevelCert 10 s := by
  have : idx = 0 ∨ idx = 1 := by
    unfold toyValidDraw toyLevels at h; simp at h; omega
  rcases this with rfl | rfl
  · exact certOpt_spec toy_certOpt.1
  · exact certOpt_spec toy_certOpt.2

/-- C10: `SimpleSolveGenerator` produces a level and it satisfies the certificate -/
theorem simple_cert : ∃ s, simpleGenerate = some s ∧ LevelCert 10 s := certOpt_spec simple_certOpt

theorem toy_cert_of_eq {idx : Nat} {s : State} (h : toyGenerate idx = some s) : LevelCert 10 s := by
  have hv : toyValidDraw idx := by
    unfold toyValidDraw
    unfold toyGenerate at h
    cases hl : toyLevels[idx]? with
    | none => rw [hl] at h; simp at h
    | some l => exact (List.getElem?_eq_some_iff.1 hl).1
  obtain ⟨s', e, hc⟩ := toy_cert idx hv
  rw [h] at e
  cases e
  exact hc

theorem simple_cert_of_eq {s : State} (h : simpleGenerate = some s) : LevelCert 10 s := by
  obtain ⟨s', e, hc⟩ := simple_cert
  rw [h] at e
  cases e
  exact hc

/-- the two toy levels differ (the generator is not constant) -/
theorem toy_levels_differ : toyGenerate 0 ≠ toyGenerate 1 := by decide +kernel

/-! ### whole episodes -/

def ValidActions (as : List Int) : Prop := ∀ a ∈ as, 0 ≤ a ∧ a < 4

instance (as : List Int) : Decidable (ValidActions as) := by unfold ValidActions; infer_instance

theorem step_consistent_int (rnd : Rat → Rat) (cfg : Cfg) (s : State) (a : Int) (h0 : 0 ≤ a) (h4 : a < 4)
    (hc : Consistent cfg.n s) : Consistent cfg.n (step rnd cfg s a).1 := by
  have e : a = ((a.toNat : Nat) : Int) := by omega
  rw [e]
  exact step_consistent rnd cfg s a.toNat (by omega) hc

theorem step_fgrid (rnd : Rat → Rat) (cfg : Cfg) (s : State) (a : Int) : (step rnd cfg s a).1.fgrid = s.fgrid := by
  unfold step; simp

theorem runState_fgrid (rnd : Rat → Rat) (cfg : Cfg) (s : State) (as : List Int) :
    (runState rnd cfg s as).fgrid = s.fgrid := by
  induction as generalizing s with
  | nil => rfl
  | cons a as ih => simp only [runState]; rw [ih, step_fgrid]

theorem runState_stepCount (rnd : Rat → Rat) (cfg : Cfg) (s : State) (as : List Int) :
    (runState rnd cfg s as).stepCount = s.stepCount + as.length := by
  induction as generalizing s with
  | nil => simp [runState]
  | cons a as ih =>
    simp only [runState]; rw [ih, (step_count rnd cfg s a).1]
    simp only [List.length_cons]; omega

/-- C07, whole episode: every state reached from a consistent board by any sequence of actions 0..3 is consistent -/
theorem run_consistent (rnd : Rat → Rat) (cfg : Cfg) (s : State) (as : List Int) (ha : ValidActions as)
    (hc : Consistent cfg.n s) : Consistent cfg.n (runState rnd cfg s as) := by
  induction as generalizing s with
  | nil => exact hc
  | cons a as ih =>
    simp only [runState]
    have h := ha a (List.mem_cons_self ..)
    exact ih _ (fun b hb => ha b (List.mem_cons_of_mem _ hb)) (step_consistent_int rnd cfg s a h.1 h.2 hc)

/-- the conserved quantities over a whole episode: walls and targets never change, there are always exactly
`nBoxes` boxes and exactly one agent cell, and it is `agent_location` -/
theorem run_conserved (rnd : Rat → Rat) (cfg : Cfg) (s : State) (as : List Int) (ha : ValidActions as)
    (hc : Consistent cfg.n s) :
    (runState rnd cfg s as).fgrid = s.fgrid ∧
    countCells cfg.n (runState rnd cfg s as).vgrid BOX = nBoxes ∧
    countCells cfg.n (runState rnd cfg s as).vgrid AGENT = 1 ∧
    at' (runState rnd cfg s as).vgrid (runState rnd cfg s as).agent = AGENT ∧
    countCells cfg.n (runState rnd cfg s as).fgrid TARGET = countCells cfg.n s.fgrid TARGET := by
  have h := run_consistent rnd cfg s as ha hc
  refine ⟨runState_fgrid rnd cfg s as, h.2.2.2.2.1, consistent_agent_count h, ?_, by rw [runState_fgrid]⟩
  have := (h.2.2.2.1 _ (cell_mem h.2.2.1)).2 (cast_cell h.2.2.1)
  exact this

end Sokoban
