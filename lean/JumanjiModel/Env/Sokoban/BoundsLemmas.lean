/- Proofs of the C01 value bounds of Sokoban. -/
import JumanjiModel.Env.Sokoban.Bounds
import JumanjiModel.Env.Sokoban.Lemmas
namespace Sokoban
open Jm Jx

theorem inIv_int {lo hi x : Int} (h1 : lo ≤ x) (h2 : x ≤ hi) : inIv (ivInt lo hi) (x : Rat) := by
  refine ⟨fun l hl => ?_, fun h hh => ?_⟩
  · simp only [ivInt, Option.some.injEq] at hl; subst hl; exact Rat.intCast_le_intCast.mpr h1
  · simp only [ivInt, Option.some.injEq] at hh; subst hh; exact Rat.intCast_le_intCast.mpr h2

theorem inIv_ints {lo hi : Int} (xs : List Int) (h : ∀ x ∈ xs, lo ≤ x ∧ x ≤ hi) :
    ∀ v ∈ xs.map (fun (v : Int) => (v : Rat)), inIv (ivInt lo hi) v := by
  intro v hv
  obtain ⟨x, hx, rfl⟩ := List.mem_map.mp hv
  exact inIv_int (h x hx).1 (h x hx).2

/-- every entry of a well-shaped grid is the content of one of the `n × n` cells -/
theorem mem_flatten_cell {g : Grid Int} {n : Nat} (hs : Grid.shaped g n n = true) {x : Int}
    (hx : x ∈ List.flatten g) : ∃ p ∈ Grid.coords n n, x = Grid.get g 0 p.1 p.2 := by
  rw [Grid.l_eq_table hs 0] at hx
  obtain ⟨row, hrow, hxr⟩ := List.mem_flatten.mp hx
  obtain ⟨r, hr, rfl⟩ := List.mem_map.mp hrow
  obtain ⟨c, hc, rfl⟩ := List.mem_map.mp hxr
  exact ⟨(r, c), Grid.l_mem_coords.mpr ⟨List.mem_range.mp hr, List.mem_range.mp hc⟩, rfl⟩

/-- the cells of a consistent board carry encodings between EMPTY = 0 and BOX = 4 -/
theorem cells_range {n : Nat} {s : State} (hc : Consistent n s) :
    ∀ x ∈ List.flatten s.vgrid ++ List.flatten s.fgrid, (0 : Int) ≤ x ∧ x ≤ 4 := by
  obtain ⟨hf, hv, _, _, _, hcells, _⟩ := hc
  intro x hx
  rcases List.mem_append.mp hx with h | h
  · obtain ⟨p, hp, rfl⟩ := mem_flatten_cell hv h
    have := (hcells p hp).1
    simp only [EMPTY, AGENT, BOX] at this
    omega
  · obtain ⟨p, hp, rfl⟩ := mem_flatten_cell hf h
    have := (hcells p hp).2.1
    simp only [EMPTY, WALL, TARGET] at this
    omega

/-- the observation of a consistent state whose counter is at most `time_limit` is within bounds -/
theorem stateToObs_in_bounds (cfg : Cfg) (s : State) (hc : Consistent cfg.n s)
    (h1 : s.stepCount ≤ cfg.timeLimit) : ObsInBounds cfg (stateToObs s) := by
  have h0 : 0 ≤ s.stepCount := hc.2.2.2.2.2.2
  intro k iv hk vs hvs v hv
  simp only [obsBounds, List.mem_cons, Prod.mk.injEq, List.not_mem_nil, or_false] at hk
  simp only [obsLeaves, stateToObs, List.mem_cons, Prod.mk.injEq, List.not_mem_nil, or_false] at hvs
  rcases hk with ⟨rfl, rfl⟩ | ⟨rfl, rfl⟩ <;>
    rcases hvs with ⟨hk', rfl⟩ | ⟨hk', rfl⟩ <;>
    first
    | (exfalso; revert hk'; decide)
    | (simp only [List.mem_singleton] at hv; subst hv; apply inIv_int <;> omega)
    | exact inIv_ints _ (cells_range hc) v hv

theorem reset_obs_in_bounds (cfg : Cfg) (g : State) (hc : Consistent cfg.n g) (h0 : g.stepCount = 0)
    (htl : 0 ≤ cfg.timeLimit) : ObsInBounds cfg (reset g).2.obs := by
  show ObsInBounds cfg (stateToObs g)
  exact stateToObs_in_bounds cfg g hc (by omega)

theorem step_obs_in_bounds (rnd : Rat → Rat) (cfg : Cfg) (s : State) (a : Nat) (ha : a < 4)
    (hc : Consistent cfg.n s) (h1 : s.stepCount < cfg.timeLimit) :
    ObsInBounds cfg (step rnd cfg s a).2.obs := by
  rw [obs_faithful]
  have hc' := step_consistent rnd cfg s a ha hc
  have hcnt := (step_count rnd cfg s a).1
  exact stateToObs_in_bounds cfg _ hc' (by rw [hcnt]; omega)

end Sokoban
