/-
Sokoban, properties C10 / C07 / C09 (whole episodes).  Import-free (only the Sokoban model).

L1 = transliteration of the offline generators of `generator.py`: `convert_level_to_array`, the ASCII levels of
`ToyGenerator` (two levels, the draw is the index chosen by `jax.random.randint(…, 0, 2)`) and of
`SimpleSolveGenerator` (one level, no randomness), `Generator.get_agent_coordinates`
(`jnp.where(grid == AGENT, size=1)`: the first AGENT cell in row-major order, `(0, 0)` when there is none).
The `key` field of the state is not modelled.

L2 = the certificate `LevelCert` of a generated level (decidable, evaluated by `sokoban.instance` on the
implementation's reset states), and the whole-episode functions `runState` / `runRewards` / `runReturn` on top of
the L1 `step`.
Proofs: Env/Sokoban/GeneratorLemmas.lean, Env/Sokoban/RewardLemmas.lean; theorems: Props/Env/Sokoban.lean.
-/
import JumanjiModel.Env.Sokoban.Model
namespace Sokoban
open Jm Jx

/-! ### L1: the generators -/

/-- the `mapping` of `convert_level_to_array`: character ↦ (fixed, variable); any other character is a `KeyError` -/
def charCode (c : Char) : Option (Int × Int) :=
  if c = '#' then some (WALL, EMPTY)
  else if c = '.' then some (TARGET, EMPTY)
  else if c = '@' then some (EMPTY, AGENT)
  else if c = '$' then some (EMPTY, BOX)
  else if c = ' ' then some (EMPTY, EMPTY)
  else none

/-- `convert_level_to_array(level)` = (fixed, variable) -/
def convertLevel (level : List String) : Option (Grid Int × Grid Int) := do
  let cells ← level.mapM (fun row => row.toList.mapM charCode)
  pure (cells.map (fun r => r.map Prod.fst), cells.map (fun r => r.map Prod.snd))

/-- `get_agent_coordinates(grid)`: `jnp.where(grid == AGENT, size=1)`, squeezed -/
def getAgentCoordinates (g : Grid Int) : Loc :=
  match (Grid.coords (Grid.rows g) (Grid.cols g)).find? (fun p => Grid.get g 0 p.1 p.2 == AGENT) with
  | some p => ((p.1 : Int), (p.2 : Int))
  | none => (0, 0)

/-- the state a generator builds from an ASCII level -/
def mkLevel (level : List String) : Option State := do
  let (f, v) ← convertLevel level
  pure { fgrid := f, vgrid := v, agent := getAgentCoordinates v, stepCount := 0 }

/-- `ToyGenerator.level1` (NB rows 4 and 5 end with a blank, not a wall) -/
def toyLevel1 : List String :=
  ["##########",
   "# @      #",
   "# $    . #",
   "#  $# .  #",
   "#  .#$  # ",
   "# . # $ # ",
   "#        #",
   "##########",
   "##########",
   "##########"]

/-- `ToyGenerator.level2` -/
def toyLevel2 : List String :=
  ["##########",
   "#        #",
   "#$ #   . #",
   "# # $ # .#",
   "#  .# $  #",
   "# @ # . $#",
   "#        #",
   "##########",
   "##########",
   "##########"]

/-- `SimpleSolveGenerator.level1` -/
def simpleLevel : List String :=
  ["##########",
   "#       ##",
   "# ....   #",
   "# $$$$  ##",
   "# @    # #",
   "#   #   # ",
   "#        #",
   "##########",
   "##########",
   "##########"]

def toyLevels : List (List String) := [toyLevel1, toyLevel2]

/-- the draw of `ToyGenerator`: `randint(minval=0, maxval=games_fixed.shape[0])` -/
def toyValidDraw (idx : Nat) : Prop := idx < toyLevels.length

instance (idx : Nat) : Decidable (toyValidDraw idx) := by unfold toyValidDraw; infer_instance

/-- `ToyGenerator.__call__` with the drawn game index -/
def toyGenerate (idx : Nat) : Option State :=
  match toyLevels[idx]? with
  | some l => mkLevel l
  | none => none

/-- `SimpleSolveGenerator.__call__` -/
def simpleGenerate : Option State := mkLevel simpleLevel

/-! ### L2: the certificate of a generated level (C10) -/

/-- A generated `n × n` level is well-formed: both grids `n × n`; exactly one AGENT cell, exactly `nBoxes` boxes and
exactly `nBoxes` targets; `agent_location` is inside the grid and is the AGENT cell of `variable_grid`; only the
documented encodings occur (`fixed_grid`: EMPTY/WALL/TARGET, `variable_grid`: EMPTY/AGENT/BOX); agent, boxes and
targets stand on pairwise distinct non-wall cells (a cell that is a wall or a target holds neither the agent nor
a box — hence no box starts on a target and the level is not solved); the step counter is 0. -/
def LevelCert (n : Nat) (s : State) : Prop :=
  Grid.shaped s.fgrid n n = true ∧ Grid.shaped s.vgrid n n = true ∧
  countCells n s.vgrid AGENT = 1 ∧
  countCells n s.vgrid BOX = nBoxes ∧
  countCells n s.fgrid TARGET = nBoxes ∧
  inside n s.agent ∧ at' s.vgrid s.agent = AGENT ∧
  (∀ p ∈ Grid.coords n n,
    (Grid.get s.vgrid 0 p.1 p.2 = EMPTY ∨ Grid.get s.vgrid 0 p.1 p.2 = AGENT ∨ Grid.get s.vgrid 0 p.1 p.2 = BOX) ∧
    (Grid.get s.fgrid 0 p.1 p.2 = EMPTY ∨ Grid.get s.fgrid 0 p.1 p.2 = WALL ∨ Grid.get s.fgrid 0 p.1 p.2 = TARGET) ∧
    (Grid.get s.fgrid 0 p.1 p.2 ≠ EMPTY → Grid.get s.vgrid 0 p.1 p.2 = EMPTY)) ∧
  s.stepCount = 0

instance (n : Nat) (s : State) : Decidable (LevelCert n s) := by unfold LevelCert; infer_instance

/-- the reset state is one of the levels the generator `gen` ("toy" / "simple") can produce; `none` for a generator
that is not transliterated -/
def matchesGenerator (gen : String) (s : State) : Option Bool :=
  if gen = "toy" then some ((List.range toyLevels.length).any (fun i => toyGenerate i == some s))
  else if gen = "simple" then some (simpleGenerate == some s)
  else none

/-- the documented box term of the dense reward, read off the move: +1 when the move pushes a box ONTO a target
(the cell behind the agent's destination is a target), −1 when it pushes a box OFF a target (the destination is a
target); 0 for a walk, a blocked move, or a push from target to target / from floor to floor -/
def pushGain (n : Nat) (s : State) (a : Nat) : Int :=
  (if pushes n s a ∧ at' s.fgrid (add (add s.agent (dirOf a)) (dirOf a)) = TARGET then 1 else 0) -
  (if pushes n s a ∧ at' s.fgrid (add s.agent (dirOf a)) = TARGET then 1 else 0)

/-! ### whole episodes on the L1 `step` -/

/-- the state after playing the actions `as` one after the other (no auto-reset: `step` is applied as is) -/
def runState (rnd : Rat → Rat) (cfg : Cfg) (s : State) : List Int → State
  | [] => s
  | a :: as => runState rnd cfg (step rnd cfg s a).1 as

/-- the rewards emitted along the way -/
def runRewards (rnd : Rat → Rat) (cfg : Cfg) (s : State) : List Int → List Rat
  | [] => []
  | a :: as => (step rnd cfg s a).2.reward.sum :: runRewards rnd cfg (step rnd cfg s a).1 as

/-- the (undiscounted) return -/
def runReturn (rnd : Rat → Rat) (cfg : Cfg) (s : State) (as : List Int) : Rat := (runRewards rnd cfg s as).sum

/-- the number of steps whose successor state is solved (`level_complete(next_state)`) -/
def solvedSteps (rnd : Rat → Rat) (cfg : Cfg) (s : State) : List Int → Nat
  | [] => 0
  | a :: as => (if levelComplete (step rnd cfg s a).1 then 1 else 0) + solvedSteps rnd cfg (step rnd cfg s a).1 as

/-- the integer part of the dense reward of every step: change of boxes-on-target + 10·[successor solved] -/
def runGains (rnd : Rat → Rat) (cfg : Cfg) (s : State) : List Int → List Int
  | [] => []
  | a :: as =>
    ((countTargets (step rnd cfg s a).1 : Int) - (countTargets s : Int) +
        10 * (if levelComplete (step rnd cfg s a).1 then 1 else 0)) ::
      runGains rnd cfg (step rnd cfg s a).1 as

/-- an episode in the sense of the API: `step` is not called again after a LAST timestep, i.e. every step but the
last one returns a timestep that is not LAST -/
def ProperEpisode (rnd : Rat → Rat) (cfg : Cfg) (s : State) : List Int → Prop
  | [] => True
  | [_] => True
  | a :: b :: as => (step rnd cfg s a).2.stepType ≠ .last ∧ ProperEpisode rnd cfg (step rnd cfg s a).1 (b :: as)

instance properEpisodeDec (rnd : Rat → Rat) (cfg : Cfg) : (s : State) → (as : List Int) → Decidable (ProperEpisode rnd cfg s as)
  | _, [] => isTrue trivial
  | _, [_] => isTrue trivial
  | s, a :: b :: as =>
    have := properEpisodeDec rnd cfg (step rnd cfg s a).1 (b :: as)
    by unfold ProperEpisode; infer_instance

end Sokoban
