/-
C11 at the level of whole episodes (audit r3, entry 1), as ONE generic theorem over an abstract step function, to be
instantiated with an environment's L1 `step` (done for RubiksCube and SlidingTilePuzzle).

`run step s as` iterates `step` over the action list `as` from `s` and lists every (successor state, timestep); like the
implementation (no auto-reset) it simply continues after LAST.

Hypotheses = the per-environment single-step facts:
  * `hc`: the step counter grows by one per step;
  * `hl`: a step is LAST exactly when the counter has reached the limit `T` or the other cause `other` (solved …) holds in
    the successor state;
  * `hm`: a step is LAST or MID (never FIRST).
Conclusion for an episode started with counter 0 and at least `T` actions: there is a first LAST at some step `k` with
`0 < k ≤ T`; all steps before it are MID (and the other cause did not hold); the counter of every state up to and including
the terminal one lies in `[0, T]`; and if the other cause does not hold in any of the first `T - 1` successor states,
then `k = T` exactly.
-/
import JumanjiModel.Core.TimeStep
namespace EpL
open Jm

variable {S A O : Type}

def run (step : S → A → S × TimeStep O) : S → List A → List (S × TimeStep O)
  | _, [] => []
  | s, a :: as => step s a :: run step (step s a).1 as

theorem run_length (step : S → A → S × TimeStep O) (s : S) (as : List A) : (run step s as).length = as.length := by
  induction as generalizing s with
  | nil => rfl
  | cons a as ih => simp [run, ih]

/-- what the theorem concludes about the first `k` steps of an episode -/
def EndsAt (run : List (S × TimeStep O)) (count : S → Int) (other : S → Bool) (T : Int) (k : Nat) : Prop :=
  (∃ r, run[k - 1]? = some r ∧ r.2.stepType = .last) ∧
  (∀ j, j < k - 1 → ∃ r, run[j]? = some r ∧ r.2.stepType = .mid ∧ other r.1 = false) ∧
  (∀ j, j < k → ∃ r, run[j]? = some r ∧ 0 ≤ count r.1 ∧ count r.1 ≤ T)

theorem ends_aux (step : S → A → S × TimeStep O) (count : S → Int) (other : S → Bool) (T : Nat)
    (hc : ∀ s a, count (step s a).1 = count s + 1)
    (hl : ∀ s a, (step s a).2.stepType = .last ↔ ((T : Int) ≤ count (step s a).1 ∨ other (step s a).1 = true))
    (hm : ∀ s a, (step s a).2.stepType = .last ∨ (step s a).2.stepType = .mid)
    (d : Nat) (hd : 0 < d) (hdT : d ≤ T) (s0 : S) (h0 : count s0 = (T : Int) - d) (as : List A) (hlen : d ≤ as.length) :
    ∃ k, 0 < k ∧ k ≤ d ∧ EndsAt (run step s0 as) count other T k ∧
      ((∀ j r, j < d - 1 → (run step s0 as)[j]? = some r → other r.1 = false) → k = d) := by
  induction as generalizing s0 d with
  | nil => simp at hlen; omega
  | cons a as ih =>
    have hcnt : count (step s0 a).1 = (T : Int) - d + 1 := by rw [hc, h0]
    by_cases hlast : (step s0 a).2.stepType = .last
    · refine ⟨1, by omega, by omega, ⟨⟨step s0 a, by simp [run], hlast⟩, ?_, ?_⟩, ?_⟩
      · intro j hj; omega
      · intro j hj
        have : j = 0 := by omega
        subst this
        exact ⟨step s0 a, by simp [run], by omega, by omega⟩
      · intro hno
        by_cases hd1 : d = 1
        · omega
        · exfalso
          rcases (hl s0 a).1 hlast with h | h
          · omega
          · have := hno 0 (step s0 a) (by omega) (by simp [run])
            rw [this] at h; cases h
    · have hmid : (step s0 a).2.stepType = .mid := by
        rcases hm s0 a with h | h
        · exact absurd h hlast
        · exact h
      have hnl := mt (hl s0 a).2 hlast
      have hd2 : 2 ≤ d := by
        apply Classical.byContradiction
        intro hc'
        apply hnl; left; omega
      have hoth : other (step s0 a).1 = false := by
        cases ho : other (step s0 a).1
        · rfl
        · exact absurd (Or.inr ho) hnl
      obtain ⟨k, hk0, hkd, ⟨hE1, hE2, hE3⟩, hex⟩ :=
        ih (d - 1) (by omega) (by omega) (step s0 a).1 (by rw [hcnt]; omega) (by simp at hlen; omega)
      refine ⟨k + 1, by omega, by omega, ⟨?_, ?_, ?_⟩, ?_⟩
      · obtain ⟨r, hr, hrl⟩ := hE1
        refine ⟨r, ?_, hrl⟩
        have : k + 1 - 1 = (k - 1) + 1 := by omega
        rw [this]; simpa [run] using hr
      · intro j hj
        cases j with
        | zero => exact ⟨step s0 a, by simp [run], hmid, hoth⟩
        | succ j =>
          obtain ⟨r, hr, h1, h2⟩ := hE2 j (by omega)
          exact ⟨r, by simpa [run] using hr, h1, h2⟩
      · intro j hj
        cases j with
        | zero => exact ⟨step s0 a, by simp [run], by omega, by omega⟩
        | succ j =>
          obtain ⟨r, hr, h1, h2⟩ := hE3 j (by omega)
          exact ⟨r, by simpa [run] using hr, h1, h2⟩
      · intro hno
        have : k = d - 1 := hex (fun j r hj hr => hno (j + 1) r (by omega) (by simpa [run] using hr))
        omega

/-- the episode-level statement of C11 (and the step-counter part of C01) -/
theorem ends_by_limit (step : S → A → S × TimeStep O) (count : S → Int) (other : S → Bool) (T : Nat) (hT : 0 < T)
    (hc : ∀ s a, count (step s a).1 = count s + 1)
    (hl : ∀ s a, (step s a).2.stepType = .last ↔ ((T : Int) ≤ count (step s a).1 ∨ other (step s a).1 = true))
    (hm : ∀ s a, (step s a).2.stepType = .last ∨ (step s a).2.stepType = .mid)
    (s0 : S) (h0 : count s0 = 0) (as : List A) (hlen : T ≤ as.length) :
    ∃ k, 0 < k ∧ k ≤ T ∧ EndsAt (run step s0 as) count other T k ∧
      ((∀ j r, j < T - 1 → (run step s0 as)[j]? = some r → other r.1 = false) → k = T) :=
  ends_aux step count other T hc hl hm T hT (Nat.le_refl T) s0 (by rw [h0]; omega) as hlen

end EpL
