/-
Episode-level statements for LevelBasedForaging: the trace `run` of the L1 `step` along an arbitrary sequence of
joint actions; the time limit (C11) and the invariants (C07 / C10) along the whole trace.
-/
import JumanjiModel.Env.LBF.Gen
namespace LBF
open Jm

/-- the trace of `step` along a sequence of joint actions.  It deliberately continues past a LAST step: the
statements below are about where the FIRST LAST occurs. -/
def run (cfg : Cfg) : State → List (List Int) → List (State × TimeStep Obs)
  | _, [] => []
  | s, a :: as => (step cfg s a) :: run cfg (step cfg s a).1 as

theorem run_length (cfg : Cfg) : ∀ (as : List (List Int)) (s : State), (run cfg s as).length = as.length := by
  intro as
  induction as with
  | nil => intro s; rfl
  | cons a as ih => intro s; simp [run, ih]

/-- every element of the trace is a `step` output whose predecessor state has step count `s.stepCount + k` -/
theorem run_getElem (cfg : Cfg) : ∀ (as : List (List Int)) (s : State) (k : Nat) (h : k < (run cfg s as).length),
    ∃ s' a, (run cfg s as)[k] = step cfg s' a ∧ s'.stepCount = s.stepCount + (k : Int) := by
  intro as
  induction as with
  | nil => intro s k h; simp [run] at h
  | cons a as ih =>
    intro s k h
    cases k with
    | zero => exact ⟨s, a, by simp [run], by simp⟩
    | succ k =>
      simp only [run, List.length_cons] at h
      obtain ⟨s', a', h1, h2⟩ := ih (step cfg s a).1 k (by omega)
      refine ⟨s', a', by simp only [run, List.getElem_cons_succ]; exact h1, ?_⟩
      rw [h2, step_count]; omega

theorem run_stepCount (cfg : Cfg) (as : List (List Int)) (s : State) (k : Nat) (h : k < (run cfg s as).length) :
    ((run cfg s as)[k]).1.stepCount = s.stepCount + (k : Int) + 1 := by
  obtain ⟨s', a, h1, h2⟩ := run_getElem cfg as s k h
  rw [h1, step_count, h2]

theorem run_last_iff (cfg : Cfg) (as : List (List Int)) (s : State) (k : Nat) (h : k < (run cfg s as).length) :
    ((run cfg s as)[k]).2.stepType = .last ↔
      (((run cfg s as)[k]).1.foods.all (fun f => f.eaten) = true ∨ cfg.timeLimit ≤ s.stepCount + (k : Int) + 1) := by
  obtain ⟨s', a, h1, h2⟩ := run_getElem cfg as s k h
  rw [h1, last_iff, step_count, h2]

theorem run_mid_or_last (cfg : Cfg) (as : List (List Int)) (s : State) (k : Nat) (h : k < (run cfg s as).length) :
    ((run cfg s as)[k]).2.stepType = .mid ∨ ((run cfg s as)[k]).2.stepType = .last := by
  obtain ⟨s', a, h1, _⟩ := run_getElem cfg as s k h
  rw [h1, step_stepType]
  split
  · exact Or.inr rfl
  · exact Or.inl rfl

/-- (i) from a reset state: step `k + 1` has step count `k + 1` and is LAST exactly when all food is collected by
then or `k + 1` has reached the time limit -/
theorem episode_steps (cfg : Cfg) (s : State) (h0 : s.stepCount = 0) (as : List (List Int)) (k : Nat) (h : k < as.length) :
    ((run cfg s as)[k]'(by rw [run_length]; exact h)).1.stepCount = (k : Int) + 1 ∧
    (((run cfg s as)[k]'(by rw [run_length]; exact h)).2.stepType = .last ↔
      (((run cfg s as)[k]'(by rw [run_length]; exact h)).1.foods.all (fun f => f.eaten) = true ∨
        cfg.timeLimit ≤ (k : Int) + 1)) := by
  have hk : k < (run cfg s as).length := by rw [run_length]; exact h
  refine ⟨by rw [run_stepCount cfg as s k hk, h0]; omega, ?_⟩
  rw [run_last_iff cfg as s k hk, h0, Int.zero_add]

/-- (ii) in any case there is a LAST at or before step `time_limit`: step number `time_limit` itself is LAST -/
theorem episode_last_at_limit (cfg : Cfg) (hT : 0 < cfg.timeLimit) (s : State) (h0 : s.stepCount = 0)
    (as : List (List Int)) (hlen : cfg.timeLimit ≤ (as.length : Int)) :
    ∃ h : (cfg.timeLimit - 1).toNat < (run cfg s as).length,
      ((run cfg s as)[(cfg.timeLimit - 1).toNat]).2.stepType = .last := by
  have hk : (cfg.timeLimit - 1).toNat < (run cfg s as).length := by rw [run_length]; omega
  refine ⟨hk, ?_⟩
  rw [run_last_iff cfg as s _ hk, h0]
  right; omega

theorem episode_last_by_limit (cfg : Cfg) (hT : 0 < cfg.timeLimit) (s : State) (h0 : s.stepCount = 0)
    (as : List (List Int)) (hlen : cfg.timeLimit ≤ (as.length : Int)) :
    ∃ (k : Nat) (h : k < (run cfg s as).length), ((k : Int) + 1 ≤ cfg.timeLimit) ∧
      ((run cfg s as)[k]).2.stepType = .last := by
  obtain ⟨h, hl⟩ := episode_last_at_limit cfg hT s h0 as hlen
  exact ⟨_, h, by omega, hl⟩

/-- (iii) if no other cause of termination occurs (never all food collected), the LAST steps are exactly those
numbered `≥ time_limit`: every earlier step is MID and the first LAST is exactly step `time_limit` -/
theorem episode_time_limit_only (cfg : Cfg) (s : State) (h0 : s.stepCount = 0) (as : List (List Int))
    (hfood : ∀ (k : Nat) (h : k < (run cfg s as).length), ((run cfg s as)[k]).1.foods.all (fun f => f.eaten) = false)
    (k : Nat) (h : k < (run cfg s as).length) :
    (((run cfg s as)[k]).2.stepType = .last ↔ cfg.timeLimit ≤ (k : Int) + 1) ∧
    ((k : Int) + 1 < cfg.timeLimit → ((run cfg s as)[k]).2.stepType = .mid) := by
  have hiff : ((run cfg s as)[k]).2.stepType = .last ↔ cfg.timeLimit ≤ (k : Int) + 1 := by
    rw [run_last_iff cfg as s k h, h0, hfood k h]; simp
  refine ⟨hiff, ?_⟩
  intro hlt
  rcases run_mid_or_last cfg as s k h with hm | hl
  · exact hm
  · have := hiff.1 hl; omega

/-- in general (whatever happens to the food): no step before `time_limit` is LAST unless all food is collected -/
theorem episode_not_earlier (cfg : Cfg) (s : State) (h0 : s.stepCount = 0) (as : List (List Int))
    (k : Nat) (h : k < (run cfg s as).length) (hk : (k : Int) + 1 < cfg.timeLimit)
    (hl : ((run cfg s as)[k]).2.stepType = .last) : ((run cfg s as)[k]).1.foods.all (fun f => f.eaten) = true := by
  rcases (run_last_iff cfg as s k h).1 hl with h1 | h1
  · exact h1
  · omega

/-! ### invariants along the trace -/

theorem run_invariant (cfg : Cfg) : ∀ (as : List (List Nat)) (s : State), Consistent cfg.gridSize s → WF s →
    (∀ a ∈ as, a.length = s.agents.length ∧ ∀ x ∈ a, x < 6) →
    ∀ r ∈ run cfg s (as.map (fun a => a.map Int.ofNat)), Consistent cfg.gridSize r.1 ∧ WF r.1 := by
  intro as
  induction as with
  | nil => intro s _ _ _ r hr; simp [run] at hr
  | cons a as ih =>
    intro s hc hw h r hr
    obtain ⟨hl, hx⟩ := h a (List.mem_cons_self)
    obtain ⟨hc', hw'⟩ := step_consistent cfg s hc hw a hl hx
    simp only [List.map_cons, run, List.mem_cons] at hr
    rcases hr with rfl | hr
    · exact ⟨hc', hw'⟩
    · apply ih _ hc' hw' _ r hr
      intro b hb
      rw [step_agents_length cfg s _ (by simp [hl])]
      exact h b (List.mem_cons_of_mem _ hb)

/-- every state of every in-spec play from a generated instance is consistent and well-formed -/
theorem gen_run_invariant (cfg : Cfg) (gc : GenCfg) (hg : cfg.gridSize = gc.gridSize) (d : GenDraw)
    (hd : validDraw gc d = true) (as : List (List Nat))
    (h : ∀ a ∈ as, a.length = gc.numAgents ∧ ∀ x ∈ a, x < 6) :
    ∀ r ∈ run cfg (generate gc d) (as.map (fun a => a.map Int.ofNat)), Consistent cfg.gridSize r.1 ∧ WF r.1 :=
  run_invariant cfg as _ (hg ▸ gen_consistent gc d hd) (gen_wf gc d hd)
    (by rw [gen_agents_length]; exact h)

theorem gen_final_consistent (cfg : Cfg) (gc : GenCfg) (hg : cfg.gridSize = gc.gridSize) (d : GenDraw)
    (hd : validDraw gc d = true) (as : List (List Nat))
    (h : ∀ a ∈ as, a.length = gc.numAgents ∧ ∀ x ∈ a, x < 6) :
    Consistent cfg.gridSize (finalState cfg (generate gc d) (as.map (fun a => a.map Int.ofNat))) ∧
      WF (finalState cfg (generate gc d) (as.map (fun a => a.map Int.ofNat))) :=
  consistent_along cfg as _ (hg ▸ gen_consistent gc d hd) (gen_wf gc d hd) (by rw [gen_agents_length]; exact h)

/-! ### C12: the emitted observation is the documented function of the state -/

theorem step_obs_documented (cfg : Cfg) (h0 : 0 < cfg.fov) (s : State) (hc : Consistent cfg.gridSize s) (hw : WF s)
    (as : List Nat) (hlen : as.length = s.agents.length) (has : ∀ a ∈ as, a < 6) :
    (step cfg s (as.map Int.ofNat)).2.obs = observeL2 cfg (step cfg s (as.map Int.ofNat)).1 := by
  obtain ⟨hc', hw'⟩ := step_consistent cfg s hc hw as hlen has
  rw [obs_faithful]
  exact observe_eq_observeL2 cfg h0 _ hc' hw'

theorem reset_obs_documented (cfg : Cfg) (h0 : 0 < cfg.fov) (s : State) (hc : Consistent cfg.gridSize s) (hw : WF s) :
    (resetTs cfg s).obs = observeL2 cfg s := observe_eq_observeL2 cfg h0 s hc hw

theorem gen_reset_obs_documented (cfg : Cfg) (h0 : 0 < cfg.fov) (gc : GenCfg) (hg : cfg.gridSize = gc.gridSize)
    (d : GenDraw) (hd : validDraw gc d = true) :
    (resetTs cfg (generate gc d)).obs = observeL2 cfg (generate gc d) :=
  reset_obs_documented cfg h0 _ (hg ▸ gen_consistent gc d hd) (gen_wf gc d hd)

/-- along the whole trace from a consistent state (e.g. a generated one) every observation is the documented one -/
theorem run_obs_documented (cfg : Cfg) (h0 : 0 < cfg.fov) : ∀ (as : List (List Nat)) (s : State),
    Consistent cfg.gridSize s → WF s → (∀ a ∈ as, a.length = s.agents.length ∧ ∀ x ∈ a, x < 6) →
    ∀ r ∈ run cfg s (as.map (fun a => a.map Int.ofNat)), r.2.obs = observeL2 cfg r.1 := by
  intro as
  induction as with
  | nil => intro s _ _ _ r hr; simp [run] at hr
  | cons a as ih =>
    intro s hc hw h r hr
    obtain ⟨hl, hx⟩ := h a (List.mem_cons_self)
    obtain ⟨hc', hw'⟩ := step_consistent cfg s hc hw a hl hx
    simp only [List.map_cons, run, List.mem_cons] at hr
    rcases hr with rfl | hr
    · exact step_obs_documented cfg h0 s hc hw a hl hx
    · apply ih _ hc' hw' _ r hr
      intro b hb
      rw [step_agents_length cfg s _ (by simp [hl])]
      exact h b (List.mem_cons_of_mem _ hb)

end LBF
