/-
LevelBasedForaging (jumanji/environments/routing/lbf/{env,utils,observer,generator,constants,types}.py).
Import-free.

L1 = transliteration of `step`, `get_reward`, `utils.simulate_agent_movement`, `flag_duplicates`,
`fix_collisions`, `update_agent_positions`, `eat_food`, `compute_action_mask`, `VectorObserver`,
`GridObserver` and `generator.RandomGenerator` (`generate`; what it draws is the parameter `GenDraw`, the supports
of its samplers are `validDraw`).  Agents are compared by their `id` field exactly as the source does.  Rewards are exact
rationals (the implementation computes them in float32; the correspondence compares within tolerance);
`nan_to_num(r / 0)` is modelled by Lean's `r / 0 = 0` (exact for the only reachable case `0 / 0`).
`jnp.unique(..., return_counts)` in `flag_duplicates` is modelled by its meaning: the number of
occurrences of the row.  The scatter `grid.at[x + fov, y + fov].set(level)` on a zero grid followed by the
sum over entities is modelled cell-wise with the wrap-then-drop index rule.

L2 = the rules as documented (class docstring of `LevelBasedForaging`, docstrings of `utils.py` and of the
two observers, `docs/environments/lbf.md`), stated per agent *index* and independently of the mask code:
an agent may move to a neighbouring cell that is inside the grid and holds no other agent and no uneaten
food; it may load when an uneaten food is next to it; no-op always.  Agents whose (legal) moves target the
same cell all stay.  A food is collected when the levels of the loading agents next to it reach its level;
they share `food level` in proportion to their levels, normalised by the sum of all food levels.
-/
import JumanjiModel.Prim.Idx
import JumanjiModel.Core.TimeStep
namespace LBF
open Jm

abbrev Pos := Int × Int

structure Agent where
  id : Int
  pos : Pos
  level : Int
  loading : Bool
  deriving Repr, DecidableEq, Inhabited

structure Food where
  id : Int
  pos : Pos
  level : Int
  eaten : Bool
  deriving Repr, DecidableEq, Inhabited

structure State where
  agents : List Agent
  foods : List Food
  stepCount : Int
  deriving Repr, DecidableEq

structure Cfg where
  gridSize : Nat
  fov : Nat
  timeLimit : Int
  gridObs : Bool
  normalize : Bool
  penalty : Rat
  deriving Repr

/-- `agents_view`: `(A, 3(F+A))` for the vector observer, `(A, 3, 2fov+1, 2fov+1)` for the grid observer -/
inductive View
  | vec (v : List (List Int))
  | grid (g : List (List (List (List Int))))
  deriving Repr, DecidableEq

structure Obs where
  view : View
  mask : List (List Bool)
  stepCount : Int
  deriving Repr, DecidableEq

/-! ### L1 -/

/-- `constants.MOVES`: NOOP, UP, DOWN, LEFT, RIGHT, LOAD -/
def MOVES : List Pos := [(0, 0), (-1, 0), (1, 0), (0, -1), (0, 1), (0, 0)]

def addP (p q : Pos) : Pos := (p.1 + q.1, p.2 + q.2)

/-- `jnp.any((p < 0) | (p >= grid_size))` -/
def oob (g : Nat) (p : Pos) : Bool :=
  decide (p.1 < 0) || decide (p.1 ≥ (g : Int)) || decide (p.2 < 0) || decide (p.2 ≥ (g : Int))

/-- `are_entities_adjacent`: `jnp.sum(jnp.abs(a.position - b.position)) == 1` -/
def adjacent (p q : Pos) : Bool := decide ((p.1 - q.1).natAbs + (p.2 - q.2).natAbs = 1)

/-- `jnp.any(jnp.all(p == agents.position, axis=1) & (agent.id != agents.id))` -/
def agentAt (agents : List Agent) (selfId : Int) (p : Pos) : Bool :=
  agents.any (fun o => decide (p = o.pos) && decide (selfId ≠ o.id))

/-- `jnp.any(jnp.all(p == food_items.position, axis=1) & ~food_items.eaten)` -/
def foodAt (foods : List Food) (p : Pos) : Bool :=
  foods.any (fun f => decide (p = f.pos) && !f.eaten)

/-- `simulate_agent_movement`: the position after the (possibly rejected) move -/
def simulateMove (g : Nat) (agents : List Agent) (foods : List Food) (ag : Agent) (a : Int) : Pos :=
  let np := addP ag.pos (Jx.getWC MOVES (0, 0) a)
  if oob g np || (agentAt agents ag.id np || foodAt foods np) then ag.pos else np

/-- `flag_duplicates`: `~(counts[indices] == 1)` -/
def flagDuplicates (ps : List Pos) : List Bool := ps.map (fun p => ps.count p != 1)

/-- `update_agent_positions` = vmapped `simulate_agent_movement`, `fix_collisions`, loading flag -/
def movedPositions (g : Nat) (agents : List Agent) (foods : List Food) (actions : List Int) : List Pos :=
  List.zipWith (simulateMove g agents foods) agents actions

def updateAgents (g : Nat) (agents : List Agent) (foods : List Food) (actions : List Int) : List Agent :=
  let moved := movedPositions g agents foods actions
  List.zipWith (fun (o : Agent) (ma : Pos × Int) =>
      { o with pos := if moved.count ma.1 != 1 then o.pos else ma.1, loading := decide (ma.2 = 5) })
    agents (moved.zip actions)

/-- `get_adjacent_levels` vmapped over the agents -/
def adjLevels (agents : List Agent) (f : Food) : List Int :=
  agents.map (fun a => if adjacent a.pos f.pos && a.loading && !f.eaten then a.level else 0)

/-- `eat_food`: (new food, eaten this step, adjacent loading levels) -/
def eatFood (agents : List Agent) (f : Food) : Food × Bool × List Int :=
  let adj := adjLevels agents f
  let now := decide (adj.sum ≥ f.level)
  ({ f with eaten := now || f.eaten }, now, adj)

/-- `get_reward_per_food` -/
def rewardPerFood (cfg : Cfg) (total : Int) (e : Food × Bool × List Int) : List Rat :=
  let f := e.1
  let now := e.2.1
  let adj := e.2.2
  let s := adj.sum
  let pen : Rat := if s ≠ 0 ∧ s < f.level then cfg.penalty else 0
  adj.map (fun l =>
    let r : Rat := ((l * (if now then 1 else 0) * f.level : Int) : Rat) - pen
    if cfg.normalize then r / ((s * total : Int) : Rat) else r)

/-- `jnp.sum(rows, axis=0)` for rows of length `n` -/
def sumCols (n : Nat) (rows : List (List Rat)) : List Rat :=
  (List.range n).map (fun i => (rows.map (fun r => r.getD i 0)).sum)

/-- `get_reward` -/
def getReward (cfg : Cfg) (n : Nat) (eats : List (Food × Bool × List Int)) : List Rat :=
  let total := (eats.map (fun e => e.1.level)).sum
  sumCols n (eats.map (rewardPerFood cfg total))

/-- `compute_action_mask` for one agent -/
def maskOf (g : Nat) (s : State) (ag : Agent) : List Bool :=
  let base := MOVES.map (fun m =>
    let np := addP ag.pos m
    !(foodAt s.foods np || agentAt s.agents ag.id np || oob g np))
  let numAdj : Int := (s.foods.map (fun f => if adjacent f.pos ag.pos && !f.eaten then (1 : Int) else 0)).sum
  if numAdj > 0 then base else Jx.setWD base (-1) false

def masks (g : Nat) (s : State) : List (List Bool) := s.agents.map (maskOf g s)

/-- `jnp.where(cond, size=k)[0]`: the first `k` indices where `cond`, padded with 0 -/
def whereSize (cond : List Bool) (k : Nat) : List Nat :=
  let idx := (List.range cond.length).filter (fun i => cond.getD i false)
  (idx ++ List.replicate k 0).take k

/-- `VectorObserver.make_agents_view` -/
def vectorView (fov : Nat) (s : State) (ag : Agent) : List Int :=
  let vis (p : Pos) : Bool :=
    decide ((ag.pos.1 - p.1).natAbs ≤ fov) && decide ((ag.pos.2 - p.2).natAbs ≤ fov)
  let shift : Pos := (min (fov : Int) ag.pos.1, min (fov : Int) ag.pos.2)
  let tr (p : Pos) : Pos := (p.1 - ag.pos.1 + shift.1, p.2 - ag.pos.2 + shift.2)
  let triple (v : Bool) (p : Pos) (l : Int) : List Int :=
    [if v then (tr p).1 else -1, if v then (tr p).2 else -1, if v then l else 0]
  let foodT : List (List Int) := s.foods.map (fun f => triple (vis f.pos && !f.eaten) f.pos f.level)
  let agentT : List (List Int) := s.agents.map (fun o => triple (vis o.pos) o.pos o.level)
  let selfIdx := whereSize (s.agents.map (fun o => decide (ag.id = o.id))) 1
  let otherIdx := whereSize (s.agents.map (fun o => decide (ag.id ≠ o.id))) (s.agents.length - 1)
  let pick (i : Nat) : List Int := Jx.getWC agentT [-1, -1, 0] (i : Int)
  foodT.flatten ++ (selfIdx.map pick).flatten ++ (otherIdx.map pick).flatten

/-- scatter hit: does index `i` (wrap once, drop if out of range) address row `r` of an axis of length `n` -/
def hits (n : Nat) (i : Int) (r : Nat) : Bool := decide (Jx.wrapIdx n i = (r : Int)) && decide (r < n)

/-- sum over entities of the one-hot grids `zeros.at[x + fov, y + fov].set(value)`, at cell `(r, c)` -/
def scatterSum (n fov : Nat) (ents : List (Pos × Int)) (r c : Nat) : Int :=
  (ents.map (fun e => if hits n (e.1.1 + fov) r && hits n (e.1.2 + fov) c then e.2 else 0)).sum

/-- `lax.dynamic_slice` start index: wrap once, clamp into `[0, n - len]` -/
def sliceStart (n len : Nat) (i : Int) : Nat :=
  let j := Jx.wrapIdx n i
  if j < 0 then 0 else if j > ((n - len : Nat) : Int) then n - len else j.toNat

/-- `GridObserver.make_agents_view` -/
def gridView (g fov : Nat) (s : State) : List (List (List (List Int))) :=
  let n := g + 2 * fov
  let w := 2 * fov + 1
  let agentGrid := scatterSum n fov (s.agents.map (fun a => (a.pos, a.level)))
  let foodGrid := scatterSum n fov (s.foods.map (fun f => (f.pos, f.level * (if f.eaten then 0 else 1))))
  -- `access_mask.at[-fov:, :]`: Python slice `-0:` is the whole axis
  let hi : Nat := if fov = 0 then 0 else n - fov
  let access (r c : Nat) : Int :=
    if r < fov ∨ r ≥ hi ∨ c < fov ∨ c ≥ hi then 0
    else if agentGrid r c + foodGrid r c = 0 then 1 else 0
  s.agents.map (fun a =>
    let r0 := sliceStart n w a.pos.1
    let c0 := sliceStart n w a.pos.2
    let win (f : Nat → Nat → Int) : List (List Int) :=
      (List.range w).map (fun dr => (List.range w).map (fun dc => f (r0 + dr) (c0 + dc)))
    [win agentGrid, win foodGrid, win access])

/-- `state_to_observation` of the configured observer -/
def observe (cfg : Cfg) (s : State) : Obs :=
  { view := if cfg.gridObs then .grid (gridView cfg.gridSize cfg.fov s)
            else .vec (s.agents.map (vectorView cfg.fov s)),
    mask := masks cfg.gridSize s, stepCount := s.stepCount }

def step (cfg : Cfg) (s : State) (actions : List Int) : State × TimeStep Obs :=
  let agents' := updateAgents cfg.gridSize s.agents s.foods actions
  let eats := s.foods.map (eatFood agents')
  let reward := getReward cfg s.agents.length eats
  let s' : State := { agents := agents', foods := eats.map (fun e => e.1), stepCount := s.stepCount + 1 }
  let terminate := s'.foods.all (fun f => f.eaten)
  let truncate := decide (s'.stepCount ≥ cfg.timeLimit)
  (s', switch3 terminate truncate reward (observe cfg s') (some s.agents.length))

/-! ### L1: `generator.RandomGenerator` (randomness = the draw `GenDraw`; PRNG keys are not modelled) -/

/-- the generator's constructor arguments (`fov` only matters to the environment, see `Cfg`) -/
structure GenCfg where
  gridSize : Nat
  numAgents : Nat
  numFood : Nat
  maxAgentLevel : Int
  forceCoop : Bool
  deriving Repr, DecidableEq

/-- what `RandomGenerator.__call__` draws: the flat food cells (one `jax.random.choice(p=mask)` per scan step),
the flat agent cells (`choice(shape=(A,), replace=False, p=mask)`), the agent levels (`randint`) and the food
levels (`randint`; drawn but unused under `force_coop`) -/
structure GenDraw where
  foodFlat : List Int
  agentFlat : List Int
  agentLevels : List Int
  foodLevels : List Int
  deriving Repr, DecidableEq

/-- `mask.at[idxs].set(False)` (each index: wrap once, drop if out of range) -/
def clearAll (mask : List Bool) (idxs : List Int) : List Bool :=
  idxs.foldl (fun m i => Jx.setWD m i false) mask

/-- the `n` values `start, start + step, …` of a `jnp.arange` -/
def arangeN (start step : Int) (n : Nat) : List Int := (List.range n).map (fun (i : Nat) => start + step * (i : Int))

/-- `sample_food`: the initial mask, all ones with the four edges cleared -/
def edgeMask (g : Nat) : List Bool :=
  let flat : Nat := g * g
  let m0 := List.replicate flat true
  let m1 := clearAll m0 (arangeN 0 1 g)                              -- top:    arange(g)
  let m2 := clearAll m1 (arangeN ((flat : Int) - (g : Int)) 1 g)     -- bottom: arange(flat - g, flat)
  let m3 := clearAll m2 (arangeN 0 (g : Int) g)                      -- left:   arange(0, flat, g)
  clearAll m3 (arangeN ((g : Int) - 1) (g : Int) g)                  -- right:  arange(g - 1, flat, g)

/-- `take_positions(mask, key)` with the drawn cell `p`: clear `p` and its four flat neighbours -/
def takePositions (g : Nat) (mask : List Bool) (p : Int) : List Bool × Int :=
  (clearAll mask [p, p + 1, p - 1, p + (g : Int), p - (g : Int)], p)

/-- `jax.lax.scan(take_positions, mask, keys)`: final carry and the stacked outputs -/
def scanFood (g : Nat) : List Bool → List Int → List Bool × List Int
  | m, [] => (m, [])
  | m, p :: ps =>
    let r := takePositions g m p
    let rest := scanFood g r.1 ps
    (rest.1, r.2 :: rest.2)

/-- `jnp.unravel_index(flat, (g, g))` -/
def unravel (g : Nat) (p : Int) : Pos := (p / (g : Int), p % (g : Int))

/-- `sample_food` -/
def sampleFood (g : Nat) (foodFlat : List Int) : List Pos :=
  (scanFood g (edgeMask g) foodFlat).2.map (unravel g)

/-- `grid.at[x, y].set(v)` on a 2-d array: each index wraps once, the update is dropped if either is out of range -/
def set2WD (grid : List (List Bool)) (x y : Int) (v : Bool) : List (List Bool) :=
  let i := Jx.wrapIdx grid.length x
  if i < 0 then grid else if i ≥ (grid.length : Int) then grid
  else grid.set i.toNat (Jx.setWD (grid.getD i.toNat []) y v)

/-- `jnp.ones((g, g)).at[food_x, food_y].set(False).ravel()` -/
def agentMask (g : Nat) (foodPos : List Pos) : List Bool :=
  (foodPos.foldl (fun m p => set2WD m p.1 p.2 false) (List.replicate g (List.replicate g true))).flatten

/-- `jnp.sort` (ascending) as an insertion sort (structural, so that closed instances evaluate by `decide`;
`sortAsc_eq_mergeSort` in Gen.lean: it is the sorted permutation) -/
def insertAsc (x : Int) : List Int → List Int
  | [] => [x]
  | y :: ys => if x ≤ y then x :: y :: ys else y :: insertAsc x ys

def sortAsc (l : List Int) : List Int := l.foldr insertAsc []

/-- `jnp.sum(jnp.sort(agent_levels)[:3])` -/
def maxFoodLevel (agentLevels : List Int) : Int := ((sortAsc agentLevels).take 3).sum

/-- the food draws lie in the support of `choice(p=mask)` for the mask current at their scan step -/
def validFoodDraws (g : Nat) : List Bool → List Int → Bool
  | _, [] => true
  | m, p :: ps =>
    decide (0 ≤ p) && decide (p < (m.length : Int)) && m.getD p.toNat false &&
      validFoodDraws g (takePositions g m p).1 ps

/-- the draw lies in the support of the samplers: every food cell has its *current* mask bit set; the agent
cells are pairwise distinct (`replace=False`) with their mask bit set; agent levels in `[1, max_agent_level]`,
food levels in `[1, max_food_level]`; one draw per entity -/
def validDraw (gc : GenCfg) (d : GenDraw) : Bool :=
  let g := gc.gridSize
  let mask := agentMask g (sampleFood g d.foodFlat)
  decide (d.foodFlat.length = gc.numFood) && validFoodDraws g (edgeMask g) d.foodFlat &&
  decide (d.agentFlat.length = gc.numAgents) && decide d.agentFlat.Nodup &&
  d.agentFlat.all (fun q => decide (0 ≤ q) && decide (q < (mask.length : Int)) && mask.getD q.toNat false) &&
  decide (d.agentLevels.length = gc.numAgents) &&
  d.agentLevels.all (fun l => decide (1 ≤ l) && decide (l ≤ gc.maxAgentLevel)) &&
  decide (d.foodLevels.length = gc.numFood) &&
  d.foodLevels.all (fun l => decide (1 ≤ l) && decide (l ≤ maxFoodLevel d.agentLevels))

/-- `RandomGenerator.__call__` -/
def generate (gc : GenCfg) (d : GenDraw) : State :=
  let g := gc.gridSize
  let foodPos := sampleFood g d.foodFlat
  let agentPos := d.agentFlat.map (unravel g)                       -- `sample_agents`
  let agentLevels := d.agentLevels
  let maxFood := maxFoodLevel agentLevels
  let foodLevels := if gc.forceCoop then List.replicate gc.numFood maxFood else d.foodLevels
  { agents := (List.range gc.numAgents).map (fun (i : Nat) =>
      { id := (i : Int), pos := agentPos.getD i (0, 0), level := agentLevels.getD i 0, loading := false }),
    foods := (List.range gc.numFood).map (fun (k : Nat) =>
      { id := (k : Int), pos := foodPos.getD k (0, 0), level := foodLevels.getD k 0, eaten := false }),
    stepCount := 0 }

/-- the constructor's assertions (`fov` is asserted against `Cfg.fov` by the environment's users) -/
def GenCfg.Valid (gc : GenCfg) : Prop :=
  5 ≤ gc.gridSize ∧ 0 < gc.numAgents ∧ 0 < gc.numFood ∧ 2 ≤ gc.maxAgentLevel ∧
  5 * gc.numFood + gc.numAgents < (gc.gridSize - 2) * (gc.gridSize - 2)
instance (gc : GenCfg) : Decidable gc.Valid := by unfold GenCfg.Valid; infer_instance

/-! ### L2: the rules -/

/-- direction of a move action: 1 up, 2 down, 3 left, 4 right (first coordinate = row) -/
def dir : Nat → Pos
  | 1 => (-1, 0) | 2 => (1, 0) | 3 => (0, -1) | 4 => (0, 1) | _ => (0, 0)

def inGrid (g : Nat) (p : Pos) : Prop := 0 ≤ p.1 ∧ p.1 < (g : Int) ∧ 0 ≤ p.2 ∧ p.2 < (g : Int)
instance (g : Nat) (p : Pos) : Decidable (inGrid g p) := by unfold inGrid; infer_instance

/-- Manhattan distance -/
def dist (p q : Pos) : Nat := (p.1 - q.1).natAbs + (p.2 - q.2).natAbs

/-- an agent other than number `i` stands on `p` -/
def otherAgentAt (s : State) (i : Nat) (p : Pos) : Prop := ∃ o ∈ s.agents.eraseIdx i, o.pos = p
instance (s : State) (i : Nat) (p : Pos) : Decidable (otherAgentAt s i p) := by
  unfold otherAgentAt; infer_instance

/-- a food that has not been collected lies on `p` -/
def uneatenFoodAt (s : State) (p : Pos) : Prop := ∃ f ∈ s.foods, f.pos = p ∧ f.eaten = false
instance (s : State) (p : Pos) : Decidable (uneatenFoodAt s p) := by unfold uneatenFoodAt; infer_instance

def freeCell (g : Nat) (s : State) (i : Nat) (p : Pos) : Prop :=
  inGrid g p ∧ ¬ otherAgentAt s i p ∧ ¬ uneatenFoodAt s p
instance (g : Nat) (s : State) (i : Nat) (p : Pos) : Decidable (freeCell g s i p) := by
  unfold freeCell; infer_instance

/-- legality of action `a` for the agent `ag` with index `i` -/
def legalFor (g : Nat) (s : State) (i : Nat) (ag : Agent) (a : Nat) : Prop :=
  a = 0 ∨ (1 ≤ a ∧ a ≤ 4 ∧ freeCell g s i (addP ag.pos (dir a))) ∨
  (a = 5 ∧ ∃ f ∈ s.foods, f.eaten = false ∧ dist f.pos ag.pos = 1)
instance (g : Nat) (s : State) (i : Nat) (ag : Agent) (a : Nat) : Decidable (legalFor g s i ag a) := by
  unfold legalFor; infer_instance

def legal (g : Nat) (s : State) (i a : Nat) : Prop :=
  match s.agents[i]? with
  | none => False
  | some ag => legalFor g s i ag a
instance (g : Nat) (s : State) (i a : Nat) : Decidable (legal g s i a) := by
  unfold legal; split <;> infer_instance

/-- the state is a physically possible configuration: agents inside the grid, on pairwise distinct cells,
never on an uneaten food; foods inside the grid -/
def Consistent (g : Nat) (s : State) : Prop :=
  (∀ a ∈ s.agents, inGrid g a.pos) ∧ (∀ f ∈ s.foods, inGrid g f.pos) ∧
  s.agents.Pairwise (fun a b => a.pos ≠ b.pos) ∧
  (∀ a ∈ s.agents, ¬ uneatenFoodAt s a.pos)
instance (g : Nat) (s : State) : Decidable (Consistent g s) := by unfold Consistent; infer_instance

/-- bookkeeping: agent `i` carries id `i`, all levels are positive -/
def WF (s : State) : Prop :=
  (∀ i, ∀ h : i < s.agents.length, s.agents[i].id = (i : Int)) ∧
  (∀ a ∈ s.agents, 1 ≤ a.level) ∧ (∀ f ∈ s.foods, 1 ≤ f.level)
instance (s : State) : Decidable (WF s) := by unfold WF; infer_instance

/-- cell agent `i` wants to enter (its own cell when it does not move or the move is illegal) -/
def target (g : Nat) (s : State) (i : Nat) (ag : Agent) (a : Nat) : Pos :=
  if 1 ≤ a ∧ a ≤ 4 ∧ freeCell g s i (addP ag.pos (dir a)) then addP ag.pos (dir a) else ag.pos

def targets (g : Nat) (s : State) (actions : List Nat) : List Pos :=
  (List.range s.agents.length).map (fun i => target g s i (s.agents.getD i default) (actions.getD i 0))

/-- agents after the move phase: an agent enters its target unless another agent has the same target -/
def movedL2 (g : Nat) (s : State) (actions : List Nat) : List Agent :=
  let ts := targets g s actions
  (List.range s.agents.length).map (fun i =>
    let ag := s.agents.getD i default
    let t := ts.getD i ag.pos
    { ag with pos := if ∃ u ∈ ts.eraseIdx i, u = t then ag.pos else t,
              loading := decide (actions.getD i 0 = 5) })

/-- the loading agents next to food `f` -/
def loaders (agents : List Agent) (f : Food) : List Agent :=
  agents.filter (fun a => a.loading && decide (dist a.pos f.pos = 1))

/-- food `f` is collected in this step -/
def collected (agents : List Agent) (f : Food) : Prop :=
  f.eaten = false ∧ ((loaders agents f).map (·.level)).sum ≥ f.level
instance (agents : List Agent) (f : Food) : Decidable (collected agents f) := by
  unfold collected; infer_instance

/-- a failed attempt: somebody loads but the levels do not suffice -/
def failedAttempt (agents : List Agent) (f : Food) : Prop :=
  f.eaten = false ∧ (loaders agents f) ≠ [] ∧ ((loaders agents f).map (·.level)).sum < f.level
instance (agents : List Agent) (f : Food) : Decidable (failedAttempt agents f) := by
  unfold failedAttempt; infer_instance

/-- share of agent `a` in food `f` (documented: food level weighted by the agent's level; normalised so
that all food together is worth one).  Every agent is charged `penalty` for each failed attempt (divided
by the same normaliser when normalising). -/
def share (cfg : Cfg) (agents : List Agent) (total : Int) (f : Food) (a : Agent) : Rat :=
  let L : Int := ((loaders agents f).map (·.level)).sum
  let part : Bool := a.loading && decide (dist a.pos f.pos = 1)
  let gain : Rat := if collected agents f ∧ part = true then ((a.level * f.level : Int) : Rat) else 0
  let pen : Rat := if failedAttempt agents f then cfg.penalty else 0
  if cfg.normalize then (gain - pen) / ((L * total : Int) : Rat) else gain - pen

def rewardL2 (cfg : Cfg) (agents : List Agent) (foods : List Food) : List Rat :=
  let total : Int := (foods.map (·.level)).sum
  agents.map (fun a => (foods.map (fun f => share cfg agents total f a)).sum)

def stepL2 (cfg : Cfg) (s : State) (actions : List Nat) : State × StepType × List Rat × List Rat :=
  let agents' := movedL2 cfg.gridSize s actions
  let foods' := s.foods.map (fun f => { f with eaten := f.eaten || decide (collected agents' f) })
  let s' : State := { agents := agents', foods := foods', stepCount := s.stepCount + 1 }
  let allEaten := foods'.all (·.eaten)
  let timeUp := decide (cfg.timeLimit ≤ s'.stepCount)
  let n := s.agents.length
  (s', if allEaten ∨ timeUp then .last else .mid, rewardL2 cfg agents' s.foods,
   if allEaten then zerosR (some n) else onesR (some n))

/-- per-agent return of a whole action sequence under the rules (stops after the first LAST) -/
def playL2 (cfg : Cfg) : State → List (List Nat) → List Rat → State × List Rat
  | s, [], acc => (s, acc)
  | s, a :: as, acc =>
    let r := stepL2 cfg s a
    let acc' := List.zipWith (· + ·) acc r.2.2.1
    if r.2.1 = .last then (r.1, acc') else playL2 cfg r.1 as acc'

/-! #### documented observations -/

/-- top-left corner of agent's field of view, clipped to the grid -/
def windowOrigin (fov : Nat) (p : Pos) : Pos := (max 0 (p.1 - fov), max 0 (p.2 - fov))

def inFov (fov : Nat) (me p : Pos) : Prop := (me.1 - p.1).natAbs ≤ fov ∧ (me.2 - p.2).natAbs ≤ fov
instance (fov : Nat) (me p : Pos) : Decidable (inFov fov me p) := by unfold inFov; infer_instance

/-- `(row, column, level)` relative to the clipped window if visible, else `(-1, -1, 0)` -/
def entityTriple (fov : Nat) (me : Pos) (visible : Prop) [Decidable visible] (p : Pos) (l : Int) : List Int :=
  if visible then [p.1 - (windowOrigin fov me).1, p.2 - (windowOrigin fov me).2, l] else [-1, -1, 0]

/-- vector view of agent `i`: all foods, then the agent itself, then the other agents in order -/
def vectorViewL2 (fov : Nat) (s : State) (i : Nat) (me : Agent) : List Int :=
  let ent (o : Agent) := entityTriple fov me.pos (inFov fov me.pos o.pos) o.pos o.level
  (s.foods.map (fun f => entityTriple fov me.pos (inFov fov me.pos f.pos ∧ f.eaten = false) f.pos f.level)).flatten
  ++ ent me ++ ((s.agents.eraseIdx i).map ent).flatten

/-- level sum of the agents standing on world cell `p` -/
def agentLevelAt (s : State) (p : Pos) : Int :=
  ((s.agents.filter (fun a => decide (a.pos = p))).map (·.level)).sum
def foodLevelAt (s : State) (p : Pos) : Int :=
  ((s.foods.filter (fun f => decide (f.pos = p) && !f.eaten)).map (·.level)).sum

/-- grid view of an agent at `me`: window cell `(dr, dc)` shows world cell `me - fov + (dr, dc)`:
agent levels, uneaten food levels, and 1 where the cell is inside the grid and empty -/
def gridViewL2 (g fov : Nat) (s : State) (me : Pos) : List (List (List Int)) :=
  let w := 2 * fov + 1
  let world (dr dc : Nat) : Pos := (me.1 - fov + dr, me.2 - fov + dc)
  let layer (f : Pos → Int) : List (List Int) :=
    (List.range w).map (fun dr => (List.range w).map (fun dc => f (world dr dc)))
  [layer (fun p => if inGrid g p then agentLevelAt s p else 0),
   layer (fun p => if inGrid g p then foodLevelAt s p else 0),
   layer (fun p => if inGrid g p ∧ agentLevelAt s p + foodLevelAt s p = 0 then 1 else 0)]

def legalMask (g : Nat) (s : State) : List (List Bool) :=
  (List.range s.agents.length).map (fun i => (List.range 6).map (fun a => decide (legal g s i a)))

def observeL2 (cfg : Cfg) (s : State) : Obs :=
  { view := if cfg.gridObs then .grid (s.agents.map (fun a => gridViewL2 cfg.gridSize cfg.fov s a.pos))
            else .vec ((List.range s.agents.length).map
                        (fun i => vectorViewL2 cfg.fov s i (s.agents.getD i default))),
    mask := legalMask cfg.gridSize s, stepCount := s.stepCount }

/-! #### generator certificates (C10) -/

/-- advertised by `RandomGenerator`: foods strictly inside the border, no two foods adjacent or equal,
agents on distinct cells away from food, everything inside the grid, nothing eaten/loading, step 0 -/
def foodsInterior (g : Nat) (s : State) : Prop :=
  ∀ f ∈ s.foods, 1 ≤ f.pos.1 ∧ f.pos.1 + 1 < (g : Int) ∧ 1 ≤ f.pos.2 ∧ f.pos.2 + 1 < (g : Int)
instance (g : Nat) (s : State) : Decidable (foodsInterior g s) := by unfold foodsInterior; infer_instance

def foodsApart (s : State) : Prop := s.foods.Pairwise (fun a b => dist a.pos b.pos > 1)
instance (s : State) : Decidable (foodsApart s) := by unfold foodsApart; infer_instance

def freshStart (s : State) : Prop :=
  s.stepCount = 0 ∧ (∀ a ∈ s.agents, a.loading = false) ∧ (∀ f ∈ s.foods, f.eaten = false)
instance (s : State) : Decidable (freshStart s) := by unfold freshStart; infer_instance

/-- sum of the `k` largest agent levels -/
def topLevels (s : State) (k : Nat) : Int :=
  (((s.agents.map (·.level)).mergeSort (fun a b => decide (a ≥ b))).take k).sum

/-- every food can be collected: its level does not exceed what the agents that fit around it can bring
(a food away from the border has four neighbouring cells) -/
def collectable (s : State) : Prop := ∀ f ∈ s.foods, f.level ≤ topLevels s 4
instance (s : State) : Decidable (collectable s) := by unfold collectable; infer_instance

end LBF
