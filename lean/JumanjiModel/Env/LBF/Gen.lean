/-
Generator lemmas for LevelBasedForaging: `generate gc d` (the transliterated `RandomGenerator`) satisfies the
advertised certificates for ALL configurations and ALL draws in the samplers' support (`validDraw`).
Statements are re-exported in Props/Env/LBF.lean (namespace Props.C10).
-/
import JumanjiModel.Env.LBF.Lemmas
import JumanjiModel.Env.LBF.Bounds
namespace LBF
open Jm

/-! ### scatter `mask.at[idxs].set(False)` only clears bits -/

theorem getD_true_lt (m : List Bool) (k : Nat) (h : m.getD k false = true) : k < m.length := by
  apply Classical.byContradiction; intro hn
  rw [List.getD_eq_getElem?_getD, List.getElem?_eq_none (by omega)] at h
  simp at h

theorem setWD_getD_true (m : List Bool) (i : Int) (k : Nat) (h : (Jx.setWD m i false).getD k false = true) :
    m.getD k false = true ∧ Jx.wrapIdx m.length i ≠ (k : Int) := by
  have hk := getD_true_lt _ _ h
  rw [Jx.setWD_length] at hk
  unfold Jx.setWD at h
  simp only [] at h
  split at h
  · exact ⟨h, by omega⟩
  · split at h
    · exact ⟨h, by omega⟩
    · rename_i h1 h2
      rw [List.getD_eq_getElem?_getD, List.getElem?_set] at h
      by_cases hjk : (Jx.wrapIdx m.length i).toNat = k
      · rw [if_pos hjk] at h
        split at h <;> simp at h
      · rw [if_neg hjk] at h
        refine ⟨by rw [List.getD_eq_getElem?_getD]; exact h, ?_⟩
        omega

theorem clearAll_length (idxs : List Int) : ∀ (m : List Bool), (clearAll m idxs).length = m.length := by
  induction idxs with
  | nil => intro m; rfl
  | cons i is ih =>
    intro m
    show (clearAll (Jx.setWD m i false) is).length = _
    rw [ih, Jx.setWD_length]

theorem clearAll_true (idxs : List Int) : ∀ (m : List Bool) (k : Nat), (clearAll m idxs).getD k false = true →
    m.getD k false = true ∧ ∀ i ∈ idxs, Jx.wrapIdx m.length i ≠ (k : Int) := by
  induction idxs with
  | nil => intro m k h; exact ⟨h, by simp⟩
  | cons i is ih =>
    intro m k h
    have h' : (clearAll (Jx.setWD m i false) is).getD k false = true := h
    obtain ⟨h1, h2⟩ := ih _ _ h'
    obtain ⟨h3, h4⟩ := setWD_getD_true _ _ _ h1
    refine ⟨h3, ?_⟩
    intro j hj
    rcases List.mem_cons.1 hj with rfl | hj
    · exact h4
    · have := h2 j hj
      rwa [Jx.setWD_length] at this

theorem wrapIdx_nonneg (n : Nat) (i : Int) (h : 0 ≤ i) : Jx.wrapIdx n i = i := by
  unfold Jx.wrapIdx; split <;> omega

theorem mem_arangeN (start step : Int) (n j : Nat) (h : j < n) : start + step * (j : Int) ∈ arangeN start step n := by
  unfold arangeN
  exact List.mem_map.2 ⟨j, List.mem_range.2 h, rfl⟩

/-- the initial food mask is set only strictly inside the border -/
theorem edgeMask_true (g k : Nat) (h : (edgeMask g).getD k false = true) :
    k < g * g ∧ g ≤ k ∧ k < g * g - g ∧ k % g ≠ 0 ∧ k % g ≠ g - 1 := by
  unfold edgeMask at h
  simp only [] at h
  obtain ⟨h3, hr⟩ := clearAll_true _ _ _ h
  obtain ⟨h2, hl⟩ := clearAll_true _ _ _ h3
  obtain ⟨h1, hb⟩ := clearAll_true _ _ _ h2
  obtain ⟨h0, ht⟩ := clearAll_true _ _ _ h1
  simp only [clearAll_length, List.length_replicate] at hr hl hb ht
  have hk : k < g * g := by have := getD_true_lt _ _ h0; simpa using this
  have hg : 0 < g := by
    apply Nat.pos_of_ne_zero; intro h; subst h; omega
  have hdm := Nat.div_add_mod k g
  have hml := Nat.mod_lt k hg
  have hdl : k / g < g := (Nat.div_lt_iff_lt_mul hg).2 hk
  refine ⟨hk, ?_, ?_, ?_, ?_⟩
  · apply Classical.byContradiction; intro hn
    have := ht _ (mem_arangeN 0 1 g k (by omega))
    rw [wrapIdx_nonneg _ _ (by omega)] at this
    omega
  · apply Classical.byContradiction; intro hn
    have := hb _ (mem_arangeN (((g * g : Nat) : Int) - (g : Int)) 1 g (k - (g * g - g)) (by omega))
    have hgg : g ≤ g * g := Nat.le_mul_of_pos_left g hg
    rw [wrapIdx_nonneg _ _ (by omega)] at this
    omega
  · intro hz
    have := hl _ (mem_arangeN 0 (g : Int) g (k / g) hdl)
    have e : (0 : Int) + (g : Int) * ((k / g : Nat) : Int) = ((g * (k / g) : Nat) : Int) := by simp
    rw [e, wrapIdx_nonneg _ _ (by omega)] at this
    apply this; congr 1; omega
  · intro hz
    have := hr _ (mem_arangeN ((g : Int) - 1) (g : Int) g (k / g) hdl)
    have e : ((g : Int) - 1) + (g : Int) * ((k / g : Nat) : Int) = ((g * (k / g) + (g - 1) : Nat) : Int) := by
      simp; omega
    rw [e, wrapIdx_nonneg _ _ (by omega)] at this
    apply this; congr 1; omega

/-! ### the food scan -/

theorem scanFood_snd (g : Nat) : ∀ (ps : List Int) (m : List Bool), (scanFood g m ps).2 = ps := by
  intro ps
  induction ps with
  | nil => intro m; rfl
  | cons p ps ih => intro m; simp [scanFood, takePositions, ih]

theorem sampleFood_eq (g : Nat) (ps : List Int) : sampleFood g ps = ps.map (unravel g) := by
  unfold sampleFood; rw [scanFood_snd]

/-- `q` is none of the five cells cleared when `p` was placed -/
def notAdj (g : Nat) (p q : Int) : Prop :=
  q ≠ p ∧ q ≠ p + 1 ∧ q ≠ p - 1 ∧ q ≠ p + (g : Int) ∧ q ≠ p - (g : Int)

/-- scan invariant: every valid food draw has its bit set in the mask the scan started from (masks only ever
lose bits) and avoids the cleared neighbourhood of every earlier draw -/
theorem validFoodDraws_spec (g : Nat) : ∀ (ps : List Int) (m : List Bool), validFoodDraws g m ps = true →
    (∀ p ∈ ps, 0 ≤ p ∧ m.getD p.toNat false = true) ∧ ps.Pairwise (notAdj g) := by
  intro ps
  induction ps with
  | nil => intro m _; exact ⟨by simp, List.Pairwise.nil⟩
  | cons p ps ih =>
    intro m h
    simp only [validFoodDraws, Bool.and_eq_true, decide_eq_true_eq] at h
    obtain ⟨⟨⟨hp0, hpl⟩, hpm⟩, hrest⟩ := h
    obtain ⟨h1, h2⟩ := ih _ hrest
    have key : ∀ q ∈ ps, 0 ≤ q ∧ m.getD q.toNat false = true ∧ notAdj g p q := by
      intro q hq
      obtain ⟨hq0, hqm⟩ := h1 q hq
      obtain ⟨hm, hne⟩ := clearAll_true _ _ _ hqm
      have hql := getD_true_lt _ _ hm
      refine ⟨hq0, hm, ?_⟩
      have e : ((q.toNat : Nat) : Int) = q := Int.toNat_of_nonneg hq0
      rw [e] at hne
      have w : ∀ i : Int, i ∈ [p, p + 1, p - 1, p + (g : Int), p - (g : Int)] → q ≠ i := by
        intro i hi heq
        have hi0 : 0 ≤ i := by omega
        have := hne i hi
        rw [wrapIdx_nonneg _ _ hi0] at this
        exact this heq.symm
      exact ⟨w _ (by simp), w _ (by simp), w _ (by simp), w _ (by simp), w _ (by simp)⟩
    refine ⟨?_, List.Pairwise.cons (fun q hq => (key q hq).2.2) h2⟩
    intro q hq
    rcases List.mem_cons.1 hq with rfl | hq
    · exact ⟨hp0, hpm⟩
    · exact ⟨(key q hq).1, (key q hq).2.1⟩

/-! ### `unravel_index` arithmetic -/

theorem unravel_nat (g k : Nat) : unravel g (k : Int) = (((k / g : Nat) : Int), ((k % g : Nat) : Int)) := by
  unfold unravel; simp

theorem unravel_inj (g : Nat) (p q : Int) (h : unravel g p = unravel g q) : p = q := by
  unfold unravel at h
  have h1 : p / (g : Int) = q / (g : Int) := congrArg Prod.fst h
  have h2 : p % (g : Int) = q % (g : Int) := congrArg Prod.snd h
  have ep := Int.mul_ediv_add_emod p g
  have eq := Int.mul_ediv_add_emod q g
  rw [h1, h2] at ep
  omega

/-- cells at Manhattan distance ≤ 1 have flat indices differing by 0, ±1 or ±g -/
theorem notAdj_dist (g : Nat) (p q : Int) (h : notAdj g p q) : dist (unravel g p) (unravel g q) > 1 := by
  unfold notAdj at h
  unfold dist unravel
  simp only []
  have ep := Int.mul_ediv_add_emod p g
  have eq := Int.mul_ediv_add_emod q g
  generalize p / (g : Int) = px at *
  generalize p % (g : Int) = py at *
  generalize q / (g : Int) = qx at *
  generalize q % (g : Int) = qy at *
  apply Classical.byContradiction; intro hn
  have hc : (px = qx ∧ (py = qy ∨ py = qy + 1 ∨ py + 1 = qy)) ∨ (py = qy ∧ (px = qx + 1 ∨ px + 1 = qx)) := by omega
  rcases hc with ⟨rfl, hy⟩ | ⟨rfl, rfl | rfl⟩
  · omega
  · rw [Int.mul_add] at ep; omega
  · rw [Int.mul_add] at eq; omega

/-! ### the agent mask -/

def cell (G : List (List Bool)) (a b : Nat) : Bool := (G.getD a []).getD b false

def Rect (g : Nat) (G : List (List Bool)) : Prop := G.length = g ∧ ∀ r ∈ G, r.length = g

theorem rect_row (g : Nat) (G : List (List Bool)) (h : Rect g G) (a : Nat) (ha : a < g) : (G.getD a []).length = g := by
  obtain ⟨h1, h2⟩ := h
  rw [List.getD_eq_getElem?_getD, List.getElem?_eq_getElem (by omega)]
  exact h2 _ (List.getElem_mem _)

theorem set2WD_rect (g : Nat) (G : List (List Bool)) (h : Rect g G) (x y : Int) : Rect g (set2WD G x y false) := by
  unfold set2WD
  simp only []
  split
  · exact h
  · split
    · exact h
    · rename_i h1 h2
      obtain ⟨hl, hr⟩ := h
      refine ⟨by simp [hl], ?_⟩
      intro r hr'
      rcases List.mem_or_eq_of_mem_set hr' with hm | rfl
      · exact hr r hm
      · rw [Jx.setWD_length]
        exact rect_row g G ⟨hl, hr⟩ _ (by omega)

theorem set2WD_cell (g : Nat) (G : List (List Bool)) (h : Rect g G) (x y : Int) (a b : Nat) (ha : a < g)
    (hc : cell (set2WD G x y false) a b = true) :
    cell G a b = true ∧ ¬ (Jx.wrapIdx g x = (a : Int) ∧ Jx.wrapIdx g y = (b : Int)) := by
  have hl := h.1
  subst hl
  unfold set2WD at hc
  simp only [] at hc
  split at hc
  · exact ⟨hc, by omega⟩
  · split at hc
    · exact ⟨hc, by omega⟩
    · rename_i h1 h2
      unfold cell at hc ⊢
      by_cases hia : (Jx.wrapIdx G.length x).toNat = a
      · rw [hia] at hc
        have e : (G.set a (Jx.setWD (G.getD a []) y false)).getD a [] = Jx.setWD (G.getD a []) y false := by
          rw [List.getD_eq_getElem?_getD, List.getElem?_set, if_pos rfl, if_pos ha]; rfl
        rw [e] at hc
        obtain ⟨h3, h4⟩ := setWD_getD_true _ _ _ hc
        rw [rect_row _ G h a ha] at h4
        exact ⟨h3, fun hh => h4 hh.2⟩
      · have e : (G.set (Jx.wrapIdx G.length x).toNat (Jx.setWD (G.getD (Jx.wrapIdx G.length x).toNat []) y false)).getD a []
            = G.getD a [] := by
          rw [List.getD_eq_getElem?_getD, List.getElem?_set, if_neg hia, ← List.getD_eq_getElem?_getD]
        rw [e] at hc
        refine ⟨hc, ?_⟩
        omega

theorem foldSet_spec (g : Nat) : ∀ (ps : List Pos) (G : List (List Bool)), Rect g G → ∀ (a b : Nat), a < g →
    cell (ps.foldl (fun m p => set2WD m p.1 p.2 false) G) a b = true →
    cell G a b = true ∧ ∀ p ∈ ps, ¬ (Jx.wrapIdx g p.1 = (a : Int) ∧ Jx.wrapIdx g p.2 = (b : Int)) := by
  intro ps
  induction ps with
  | nil => intro G _ a b _ h; exact ⟨h, by simp⟩
  | cons p ps ih =>
    intro G hG a b ha h
    simp only [List.foldl_cons] at h
    obtain ⟨h1, h2⟩ := ih _ (set2WD_rect g G hG p.1 p.2) a b ha h
    obtain ⟨h3, h4⟩ := set2WD_cell g G hG p.1 p.2 a b ha h1
    refine ⟨h3, ?_⟩
    intro q hq
    rcases List.mem_cons.1 hq with rfl | hq
    · exact h4
    · exact h2 q hq

theorem foldSet_rect (g : Nat) : ∀ (ps : List Pos) (G : List (List Bool)), Rect g G →
    Rect g (ps.foldl (fun m p => set2WD m p.1 p.2 false) G) := by
  intro ps
  induction ps with
  | nil => intro G h; exact h
  | cons p ps ih => intro G h; exact ih _ (set2WD_rect g G h p.1 p.2)

/-- `ravel` of a rectangular array -/
theorem flatten_getD (g : Nat) : ∀ (G : List (List Bool)), (∀ r ∈ G, r.length = g) → ∀ (a b : Nat), b < g →
    G.flatten.getD (a * g + b) false = cell G a b := by
  intro G
  induction G with
  | nil => intro _ a b _; simp [cell]
  | cons r G ih =>
    intro h a b hb
    have hr : r.length = g := h r (by simp)
    cases a with
    | zero =>
      simp only [List.flatten_cons, cell, Nat.zero_mul, Nat.zero_add, List.getD_cons_zero]
      rw [List.getD_eq_getElem?_getD, List.getD_eq_getElem?_getD, List.getElem?_append_left (by omega)]
    | succ a =>
      have e : (a + 1) * g + b = r.length + (a * g + b) := by rw [hr, Nat.add_mul]; omega
      simp only [List.flatten_cons, cell, List.getD_cons_succ]
      rw [e, List.getD_eq_getElem?_getD, List.getElem?_append_right (by omega), Nat.add_sub_cancel_left,
        ← List.getD_eq_getElem?_getD]
      exact ih (fun r hr => h r (by simp [hr])) a b hb

theorem flatten_length (g : Nat) : ∀ (G : List (List Bool)), (∀ r ∈ G, r.length = g) → G.flatten.length = G.length * g := by
  intro G
  induction G with
  | nil => intro _; simp
  | cons r G ih =>
    intro h
    simp only [List.flatten_cons, List.length_append, List.length_cons]
    rw [ih (fun r hr => h r (by simp [hr])), h r (by simp), Nat.add_mul]; omega

theorem rect_ones (g : Nat) : Rect g (List.replicate g (List.replicate g true)) := by
  refine ⟨by simp, ?_⟩
  intro r hr
  rw [(List.mem_replicate.1 hr).2]; simp

theorem agentMask_length (g : Nat) (ps : List Pos) : (agentMask g ps).length = g * g := by
  unfold agentMask
  have h := foldSet_rect g ps _ (rect_ones g)
  rw [flatten_length g _ h.2, h.1]

/-- a set bit of the agent mask is the flat index of a cell holding no food -/
theorem agentMask_true (g : Nat) (ps : List Pos) (hps : ∀ p ∈ ps, 0 ≤ p.1 ∧ 0 ≤ p.2) (k : Nat)
    (h : (agentMask g ps).getD k false = true) : k < g * g ∧ ∀ p ∈ ps, unravel g (k : Int) ≠ p := by
  have hk := getD_true_lt _ _ h
  rw [agentMask_length] at hk
  have hg : 0 < g := by
    apply Nat.pos_of_ne_zero; intro h; subst h; omega
  refine ⟨hk, ?_⟩
  unfold agentMask at h
  have hR := foldSet_rect g ps _ (rect_ones g)
  have e : k = (k / g) * g + k % g := by have := Nat.div_add_mod k g; rw [Nat.mul_comm] at this; omega
  rw [e, flatten_getD g _ hR.2 _ _ (Nat.mod_lt k hg)] at h
  obtain ⟨_, h2⟩ := foldSet_spec g ps _ (rect_ones g) _ _ ((Nat.div_lt_iff_lt_mul hg).2 hk) h
  intro p hp heq
  apply h2 p hp
  obtain ⟨p1, p2⟩ := hps p hp
  rw [wrapIdx_nonneg _ _ p1, wrapIdx_nonneg _ _ p2, ← heq, unravel_nat]
  exact ⟨rfl, rfl⟩

/-! ### levels: `sort`, the three smallest against the four largest -/

theorem perm_sum_int {l₁ l₂ : List Int} (h : l₁.Perm l₂) : l₁.sum = l₂.sum := by
  induction h with
  | nil => rfl
  | cons _ _ ih => simp [ih]
  | swap => simp only [List.sum_cons]; omega
  | trans _ _ ih₁ ih₂ => rw [ih₁, ih₂]

theorem insertAsc_perm (x : Int) : ∀ l : List Int, (insertAsc x l).Perm (x :: l) := by
  intro l
  induction l with
  | nil => exact List.Perm.refl _
  | cons y ys ih =>
    unfold insertAsc
    split
    · exact List.Perm.refl _
    · exact (List.Perm.cons y ih).trans (List.Perm.swap x y ys)

theorem sortAsc_perm : ∀ l : List Int, (sortAsc l).Perm l := by
  intro l
  induction l with
  | nil => exact List.Perm.refl _
  | cons x xs ih =>
    show (insertAsc x (sortAsc xs)).Perm (x :: xs)
    exact (insertAsc_perm x _).trans (List.Perm.cons x ih)

theorem insertAsc_sorted (x : Int) : ∀ l : List Int, l.Pairwise (· ≤ ·) → (insertAsc x l).Pairwise (· ≤ ·) := by
  intro l
  induction l with
  | nil => intro _; simp [insertAsc]
  | cons y ys ih =>
    intro h
    unfold insertAsc
    obtain ⟨h1, h2⟩ := List.pairwise_cons.1 h
    split
    · rename_i hxy
      refine List.Pairwise.cons ?_ h
      intro z hz
      rcases List.mem_cons.1 hz with rfl | hz
      · exact hxy
      · exact Int.le_trans hxy (h1 z hz)
    · rename_i hxy
      refine List.Pairwise.cons ?_ (ih h2)
      intro z hz
      rcases List.mem_cons.1 ((insertAsc_perm x ys).mem_iff.1 hz) with rfl | hz
      · omega
      · exact h1 z hz

theorem sortAsc_sorted : ∀ l : List Int, (sortAsc l).Pairwise (· ≤ ·) := by
  intro l
  induction l with
  | nil => exact List.Pairwise.nil
  | cons x xs ih => exact insertAsc_sorted x _ ih

/-- the insertion sort of the model is *the* ascending sort -/
theorem sortAsc_eq_mergeSort (l : List Int) : sortAsc l = l.mergeSort (fun a b => decide (a ≤ b)) := by
  have hs : (l.mergeSort (fun a b => decide (a ≤ b))).Pairwise (fun a b => decide (a ≤ b) = true) :=
    List.pairwise_mergeSort (le := fun a b => decide (a ≤ b))
      (by intro a b c; simp only [decide_eq_true_eq]; omega)
      (by intro a b; simp only [Bool.or_eq_true, decide_eq_true_eq]; omega) l
  have hs' : (sortAsc l).Pairwise (fun a b => decide (a ≤ b) = true) := by
    refine (sortAsc_sorted l).imp ?_
    intro a b h; simpa using h
  exact List.Perm.eq_of_pairwise (le := fun a b => decide (a ≤ b) = true)
    (by intro a b _ _; simp only [decide_eq_true_eq]; omega) hs' hs
    ((sortAsc_perm l).trans (List.mergeSort_perm l _).symm)

theorem sum_nonneg_int : ∀ (l : List Int), (∀ x ∈ l, 0 ≤ x) → 0 ≤ l.sum := by
  intro l
  induction l with
  | nil => intro _; simp
  | cons x xs ih =>
    intro h
    have := ih (fun y hy => h y (by simp [hy]))
    have := h x (by simp)
    simp only [List.sum_cons]; omega

/-- in a descending list of non-negative numbers, any sublist of at most `k` entries sums to at most the first `k` -/
theorem sublist_sum_le_take : ∀ (d : List Int), d.Pairwise (· ≥ ·) → (∀ x ∈ d, 0 ≤ x) → ∀ (m : List Int) (k : Nat),
    m.Sublist d → m.length ≤ k → m.sum ≤ (d.take k).sum := by
  intro d
  induction d with
  | nil => intro _ _ m k hm _; simp [List.sublist_nil.1 hm]
  | cons a d ih =>
    intro hs hpos m k hm hk
    obtain ⟨ha, hs'⟩ := List.pairwise_cons.1 hs
    have hpos' : ∀ x ∈ d, 0 ≤ x := fun x hx => hpos x (by simp [hx])
    have ha0 : 0 ≤ a := hpos a (by simp)
    cases k with
    | zero =>
      have : m = [] := List.length_eq_zero_iff.1 (by omega)
      simp [this]
    | succ k =>
      simp only [List.take_succ_cons, List.sum_cons]
      rcases List.sublist_cons_iff.1 hm with hm' | ⟨r, rfl, hr⟩
      · cases m with
        | nil =>
          have := sum_nonneg_int (d.take k) (fun x hx => hpos' x (List.mem_of_mem_take hx))
          simp; omega
        | cons b m' =>
          have hb : b ∈ d := hm'.subset (by simp)
          have hba := ha b hb
          have hm'' : m'.Sublist d := (List.sublist_cons_self b m').trans hm'
          have := ih hs' hpos' m' k hm'' (by simp at hk; omega)
          simp only [List.sum_cons]; omega
      · have := ih hs' hpos' r k hr (by simp at hk; omega)
        simp only [List.sum_cons]; omega

/-- `max_food_level` (sum of the three smallest agent levels) never exceeds the sum of the four largest -/
theorem maxFoodLevel_le_top (lv : List Int) (hpos : ∀ x ∈ lv, 0 ≤ x) :
    maxFoodLevel lv ≤ ((lv.mergeSort (fun a b => decide (a ≥ b))).take 4).sum := by
  unfold maxFoodLevel
  have hd : (lv.mergeSort (fun a b => decide (a ≥ b))).Pairwise (· ≥ ·) := by
    have := List.pairwise_mergeSort (le := fun (a b : Int) => decide (a ≥ b))
      (by intro a b c; simp only [decide_eq_true_eq]; omega)
      (by intro a b; simp only [Bool.or_eq_true, decide_eq_true_eq]; omega) lv
    refine this.imp ?_
    intro a b h; simpa using h
  have hp : (sortAsc lv).Perm (lv.mergeSort (fun a b => decide (a ≥ b))) :=
    (sortAsc_perm lv).trans (List.mergeSort_perm lv _).symm
  obtain ⟨m, hm1, hm2⟩ := List.exists_perm_sublist (List.take_sublist 3 (sortAsc lv)) hp
  rw [← perm_sum_int hm1]
  apply sublist_sum_le_take _ hd (fun x hx => hpos x ((List.mergeSort_perm lv _).mem_iff.1 hx)) m 4 hm2
  rw [hm1.length_eq, List.length_take]; omega

theorem sum_le_length_mul (L : Int) : ∀ (l : List Int), (∀ x ∈ l, x ≤ L) → l.sum ≤ (l.length : Int) * L := by
  intro l
  induction l with
  | nil => intro _; simp
  | cons x xs ih =>
    intro h
    have := ih (fun y hy => h y (by simp [hy]))
    have := h x (by simp)
    simp only [List.sum_cons, List.length_cons, Int.natCast_add, Int.add_mul]; omega

theorem length_le_sum : ∀ (l : List Int), (∀ x ∈ l, 1 ≤ x) → (l.length : Int) ≤ l.sum := by
  intro l
  induction l with
  | nil => intro _; simp
  | cons x xs ih =>
    intro h
    have := ih (fun y hy => h y (by simp [hy]))
    have := h x (by simp)
    simp only [List.sum_cons, List.length_cons, Int.natCast_add]; omega

theorem maxFoodLevel_pos (lv : List Int) (hne : lv ≠ []) (hpos : ∀ x ∈ lv, 1 ≤ x) : 1 ≤ maxFoodLevel lv := by
  unfold maxFoodLevel
  have h1 := length_le_sum ((sortAsc lv).take 3)
    (fun x hx => hpos x ((sortAsc_perm lv).mem_iff.1 (List.mem_of_mem_take hx)))
  have h2 : (sortAsc lv).length = lv.length := (sortAsc_perm lv).length_eq
  have h3 : 0 < lv.length := List.length_pos_iff.2 hne
  rw [List.length_take] at h1
  omega

theorem maxFoodLevel_le (lv : List Int) (L : Int) (h : ∀ x ∈ lv, x ≤ L) :
    maxFoodLevel lv ≤ ((min 3 lv.length : Nat) : Int) * L := by
  unfold maxFoodLevel
  have h1 := sum_le_length_mul L ((sortAsc lv).take 3)
    (fun x hx => h x ((sortAsc_perm lv).mem_iff.1 (List.mem_of_mem_take hx)))
  have h2 : (sortAsc lv).length = lv.length := (sortAsc_perm lv).length_eq
  rw [List.length_take, h2] at h1
  exact h1

/-! ### the generated state -/

theorem getD_map_lt {α β} (f : α → β) (l : List α) (k : Nat) (d : β) (hk : k < l.length) :
    (l.map f).getD k d = f l[k] := by
  rw [List.getD_eq_getElem?_getD, List.getElem?_map, List.getElem?_eq_getElem hk]; rfl

theorem getD_lt {α} (l : List α) (k : Nat) (d : α) (hk : k < l.length) : l.getD k d = l[k] := by
  rw [List.getD_eq_getElem?_getD, List.getElem?_eq_getElem hk]; rfl

/-- what `validDraw` says, as propositions -/
structure DrawOK (gc : GenCfg) (d : GenDraw) : Prop where
  nFood : d.foodFlat.length = gc.numFood
  food : validFoodDraws gc.gridSize (edgeMask gc.gridSize) d.foodFlat = true
  nAgents : d.agentFlat.length = gc.numAgents
  nodup : d.agentFlat.Nodup
  agent : ∀ q ∈ d.agentFlat, 0 ≤ q ∧
    (agentMask gc.gridSize (sampleFood gc.gridSize d.foodFlat)).getD q.toNat false = true
  nALv : d.agentLevels.length = gc.numAgents
  aLv : ∀ l ∈ d.agentLevels, 1 ≤ l ∧ l ≤ gc.maxAgentLevel
  nFLv : d.foodLevels.length = gc.numFood
  fLv : ∀ l ∈ d.foodLevels, 1 ≤ l ∧ l ≤ maxFoodLevel d.agentLevels

theorem validDraw_ok (gc : GenCfg) (d : GenDraw) (h : validDraw gc d = true) : DrawOK gc d := by
  unfold validDraw at h
  simp only [Bool.and_eq_true, decide_eq_true_eq, List.all_eq_true] at h
  obtain ⟨⟨⟨⟨⟨⟨⟨⟨h1, h2⟩, h3⟩, h4⟩, h5⟩, h6⟩, h7⟩, h8⟩, h9⟩ := h
  exact ⟨h1, h2, h3, h4, fun q hq => ⟨(h5 q hq).1.1, (h5 q hq).2⟩, h6, h7, h8, h9⟩

/-- level of food `k`: `max_food_level` under `force_coop`, else the drawn one -/
def genFoodLevels (gc : GenCfg) (d : GenDraw) : List Int :=
  if gc.forceCoop then List.replicate gc.numFood (maxFoodLevel d.agentLevels) else d.foodLevels

theorem gen_agents_length (gc : GenCfg) (d : GenDraw) : (generate gc d).agents.length = gc.numAgents := by
  simp [generate]

theorem gen_foods_length (gc : GenCfg) (d : GenDraw) : (generate gc d).foods.length = gc.numFood := by
  simp [generate]

theorem gen_agent_getElem (gc : GenCfg) (d : GenDraw) (ok : DrawOK gc d) (i : Nat) (hi : i < gc.numAgents) :
    (generate gc d).agents[i]'(by rw [gen_agents_length]; exact hi) =
      ⟨(i : Int), unravel gc.gridSize (d.agentFlat[i]'(by rw [ok.nAgents]; exact hi)),
        d.agentLevels[i]'(by rw [ok.nALv]; exact hi), false⟩ := by
  simp only [generate, List.getElem_map, List.getElem_range]
  rw [getD_map_lt _ _ _ _ (by rw [ok.nAgents]; exact hi), getD_lt _ _ _ (by rw [ok.nALv]; exact hi)]

theorem genFoodLevels_length (gc : GenCfg) (d : GenDraw) (ok : DrawOK gc d) : (genFoodLevels gc d).length = gc.numFood := by
  unfold genFoodLevels; split
  · simp
  · exact ok.nFLv

theorem gen_food_getElem (gc : GenCfg) (d : GenDraw) (ok : DrawOK gc d) (k : Nat) (hk : k < gc.numFood) :
    (generate gc d).foods[k]'(by rw [gen_foods_length]; exact hk) =
      ⟨(k : Int), unravel gc.gridSize (d.foodFlat[k]'(by rw [ok.nFood]; exact hk)),
        (genFoodLevels gc d)[k]'(by rw [genFoodLevels_length gc d ok]; exact hk), false⟩ := by
  simp only [generate, List.getElem_map, List.getElem_range]
  rw [sampleFood_eq, getD_map_lt _ _ _ _ (by rw [ok.nFood]; exact hk)]
  congr 1
  exact getD_lt (genFoodLevels gc d) k 0 (by rw [genFoodLevels_length gc d ok]; exact hk)

theorem gen_agent_mem (gc : GenCfg) (d : GenDraw) (ok : DrawOK gc d) (a : Agent) (ha : a ∈ (generate gc d).agents) :
    ∃ (i : Nat) (hi : i < gc.numAgents), a = ⟨(i : Int), unravel gc.gridSize (d.agentFlat[i]'(by rw [ok.nAgents]; exact hi)),
        d.agentLevels[i]'(by rw [ok.nALv]; exact hi), false⟩ := by
  obtain ⟨i, hi, rfl⟩ := List.getElem_of_mem ha
  rw [gen_agents_length] at hi
  exact ⟨i, hi, gen_agent_getElem gc d ok i hi⟩

theorem gen_food_mem (gc : GenCfg) (d : GenDraw) (ok : DrawOK gc d) (f : Food) (hf : f ∈ (generate gc d).foods) :
    ∃ (k : Nat) (hk : k < gc.numFood), f = ⟨(k : Int), unravel gc.gridSize (d.foodFlat[k]'(by rw [ok.nFood]; exact hk)),
        (genFoodLevels gc d)[k]'(by rw [genFoodLevels_length gc d ok]; exact hk), false⟩ := by
  obtain ⟨k, hk, rfl⟩ := List.getElem_of_mem hf
  rw [gen_foods_length] at hk
  exact ⟨k, hk, gen_food_getElem gc d ok k hk⟩

theorem gen_agent_levels (gc : GenCfg) (d : GenDraw) (ok : DrawOK gc d) :
    (generate gc d).agents.map (·.level) = d.agentLevels := by
  apply List.ext_getElem
  · simp [gen_agents_length, ok.nALv]
  · intro i h1 h2
    have hi : i < gc.numAgents := by simpa [gen_agents_length] using h1
    simp only [List.getElem_map]
    rw [gen_agent_getElem gc d ok i hi]

theorem genFoodLevels_range (gc : GenCfg) (d : GenDraw) (ok : DrawOK gc d) :
    ∀ l ∈ genFoodLevels gc d, 1 ≤ l ∧ l ≤ maxFoodLevel d.agentLevels ∧
      (gc.forceCoop = true → l = maxFoodLevel d.agentLevels) := by
  intro l hl
  unfold genFoodLevels at hl
  split at hl
  · rename_i hc
    obtain ⟨hne, rfl⟩ := List.mem_replicate.1 hl
    -- the (unused) food-level draw witnesses `1 ≤ max_food_level`
    have hpos : 0 < d.foodLevels.length := by rw [ok.nFLv]; omega
    have := ok.fLv _ (List.getElem_mem hpos)
    exact ⟨by omega, Int.le_refl _, fun _ => rfl⟩
  · rename_i hc
    exact ⟨(ok.fLv l hl).1, (ok.fLv l hl).2, fun h => absurd h hc⟩

/-! ### the certificates -/

theorem gen_fresh_start (gc : GenCfg) (d : GenDraw) : freshStart (generate gc d) := by
  refine ⟨rfl, ?_, ?_⟩
  · intro a ha
    simp only [generate, List.mem_map] at ha
    obtain ⟨i, _, rfl⟩ := ha; rfl
  · intro f hf
    simp only [generate, List.mem_map] at hf
    obtain ⟨i, _, rfl⟩ := hf; rfl

theorem gen_ids (gc : GenCfg) (d : GenDraw) :
    (∀ i (h : i < (generate gc d).agents.length), ((generate gc d).agents[i]).id = (i : Int)) ∧
    (∀ k (h : k < (generate gc d).foods.length), ((generate gc d).foods[k]).id = (k : Int)) := by
  constructor <;> intro i h <;> simp [generate]

theorem food_draw_interior (gc : GenCfg) (d : GenDraw) (ok : DrawOK gc d) (p : Int) (hp : p ∈ d.foodFlat) :
    0 ≤ p ∧ 1 ≤ (unravel gc.gridSize p).1 ∧ (unravel gc.gridSize p).1 + 1 < (gc.gridSize : Int) ∧
      1 ≤ (unravel gc.gridSize p).2 ∧ (unravel gc.gridSize p).2 + 1 < (gc.gridSize : Int) := by
  obtain ⟨hp0, hm⟩ := (validFoodDraws_spec gc.gridSize _ _ ok.food).1 p hp
  obtain ⟨h1, h2, h3, h4, h5⟩ := edgeMask_true _ _ hm
  generalize gc.gridSize = g at *
  have e : p = ((p.toNat : Nat) : Int) := (Int.toNat_of_nonneg hp0).symm
  generalize p.toNat = k at *
  subst e
  rw [unravel_nat]
  have hg : 0 < g := by
    apply Nat.pos_of_ne_zero; intro h; subst h; omega
  have hml := Nat.mod_lt k hg
  have hd1 : 1 ≤ k / g := (Nat.le_div_iff_mul_le hg).2 (by omega)
  have hd2 : k / g < g - 1 := (Nat.div_lt_iff_lt_mul hg).2 (by rw [Nat.sub_mul]; omega)
  refine ⟨hp0, ?_, ?_, ?_, ?_⟩ <;> simp only [] <;> omega

theorem gen_foods_interior (gc : GenCfg) (d : GenDraw) (h : validDraw gc d = true) :
    foodsInterior gc.gridSize (generate gc d) := by
  have ok := validDraw_ok gc d h
  intro f hf
  obtain ⟨k, hk, rfl⟩ := gen_food_mem gc d ok f hf
  exact (food_draw_interior gc d ok _ (List.getElem_mem _)).2

theorem gen_foods_apart (gc : GenCfg) (d : GenDraw) (h : validDraw gc d = true) : foodsApart (generate gc d) := by
  have ok := validDraw_ok gc d h
  unfold foodsApart
  rw [List.pairwise_iff_getElem]
  intro i j hi hj hij
  rw [gen_foods_length] at hi hj
  rw [gen_food_getElem gc d ok i hi, gen_food_getElem gc d ok j hj]
  have hp := (validFoodDraws_spec gc.gridSize _ _ ok.food).2
  rw [List.pairwise_iff_getElem] at hp
  exact notAdj_dist _ _ _ (hp i j _ _ hij)

theorem gen_consistent (gc : GenCfg) (d : GenDraw) (h : validDraw gc d = true) :
    Consistent gc.gridSize (generate gc d) := by
  have ok := validDraw_ok gc d h
  have hfood : ∀ p ∈ sampleFood gc.gridSize d.foodFlat, 0 ≤ p.1 ∧ 0 ≤ p.2 := by
    intro p hp
    rw [sampleFood_eq] at hp
    obtain ⟨q, hq, rfl⟩ := List.mem_map.1 hp
    have := food_draw_interior gc d ok q hq
    omega
  have hag : ∀ q ∈ d.agentFlat, inGrid gc.gridSize (unravel gc.gridSize q) ∧
      ∀ p ∈ d.foodFlat, unravel gc.gridSize q ≠ unravel gc.gridSize p := by
    intro q hq
    obtain ⟨hq0, hm⟩ := ok.agent q hq
    obtain ⟨hk, hne⟩ := agentMask_true _ _ hfood _ hm
    have e : ((q.toNat : Nat) : Int) = q := Int.toNat_of_nonneg hq0
    rw [e] at hne
    constructor
    · rw [← e, unravel_nat]
      have hg : 0 < gc.gridSize := by
        apply Nat.pos_of_ne_zero; intro h; rw [h] at hk; omega
      have h1 := Nat.mod_lt q.toNat hg
      have h2 : q.toNat / gc.gridSize < gc.gridSize := (Nat.div_lt_iff_lt_mul hg).2 hk
      have h3 : 0 ≤ ((q.toNat / gc.gridSize : Nat) : Int) := Int.natCast_nonneg _
      have h4 : 0 ≤ ((q.toNat % gc.gridSize : Nat) : Int) := Int.natCast_nonneg _
      unfold inGrid; simp only []; omega
    · intro p hp
      apply hne
      rw [sampleFood_eq]
      exact List.mem_map.2 ⟨p, hp, rfl⟩
  refine ⟨?_, ?_, ?_, ?_⟩
  · intro a ha
    obtain ⟨i, hi, rfl⟩ := gen_agent_mem gc d ok a ha
    exact (hag _ (List.getElem_mem _)).1
  · intro f hf
    have := gen_foods_interior gc d h f hf
    unfold inGrid; omega
  · rw [List.pairwise_iff_getElem]
    intro i j hi hj hij
    rw [gen_agents_length] at hi hj
    rw [gen_agent_getElem gc d ok i hi, gen_agent_getElem gc d ok j hj]
    simp only []
    intro heq
    have hnd := ok.nodup
    rw [List.Nodup, List.pairwise_iff_getElem] at hnd
    exact hnd i j _ _ hij (unravel_inj _ _ _ heq)
  · intro a ha hu
    obtain ⟨i, hi, rfl⟩ := gen_agent_mem gc d ok a ha
    obtain ⟨f, hf, hpos, _⟩ := hu
    obtain ⟨k, hk, rfl⟩ := gen_food_mem gc d ok f hf
    exact (hag _ (List.getElem_mem _)).2 _ (List.getElem_mem _) hpos.symm

theorem gen_wf (gc : GenCfg) (d : GenDraw) (h : validDraw gc d = true) : WF (generate gc d) := by
  have ok := validDraw_ok gc d h
  refine ⟨(gen_ids gc d).1, ?_, ?_⟩
  · intro a ha
    obtain ⟨i, hi, rfl⟩ := gen_agent_mem gc d ok a ha
    exact (ok.aLv _ (List.getElem_mem _)).1
  · intro f hf
    obtain ⟨k, hk, rfl⟩ := gen_food_mem gc d ok f hf
    exact (genFoodLevels_range gc d ok _ (List.getElem_mem _)).1

/-- levels: agents in `[1, max_agent_level]`; foods in `[1, max_food_level]`, equal to it under `force_coop` -/
theorem gen_levels (gc : GenCfg) (d : GenDraw) (h : validDraw gc d = true) :
    (∀ a ∈ (generate gc d).agents, 1 ≤ a.level ∧ a.level ≤ gc.maxAgentLevel) ∧
    (∀ f ∈ (generate gc d).foods, 1 ≤ f.level ∧ f.level ≤ maxFoodLevel ((generate gc d).agents.map (·.level)) ∧
      (gc.forceCoop = true → f.level = maxFoodLevel ((generate gc d).agents.map (·.level)))) := by
  have ok := validDraw_ok gc d h
  rw [gen_agent_levels gc d ok]
  constructor
  · intro a ha
    obtain ⟨i, hi, rfl⟩ := gen_agent_mem gc d ok a ha
    exact ok.aLv _ (List.getElem_mem _)
  · intro f hf
    obtain ⟨k, hk, rfl⟩ := gen_food_mem gc d ok f hf
    exact genFoodLevels_range gc d ok _ (List.getElem_mem _)

theorem gen_collectable (gc : GenCfg) (d : GenDraw) (h : validDraw gc d = true) : collectable (generate gc d) := by
  have ok := validDraw_ok gc d h
  intro f hf
  have h1 := ((gen_levels gc d h).2 f hf).2.1
  unfold topLevels
  refine Int.le_trans h1 (maxFoodLevel_le_top _ ?_)
  rw [gen_agent_levels gc d ok]
  intro x hx
  have := (ok.aLv x hx).1
  omega

/-- everything `RandomGenerator` advertises, for every configuration and every draw in the samplers' support -/
theorem gen_certificates (gc : GenCfg) (d : GenDraw) (h : validDraw gc d = true) :
    freshStart (generate gc d) ∧ foodsInterior gc.gridSize (generate gc d) ∧ foodsApart (generate gc d) ∧
    collectable (generate gc d) ∧ Consistent gc.gridSize (generate gc d) ∧ WF (generate gc d) ∧
    ((generate gc d).agents.length = gc.numAgents ∧ (generate gc d).foods.length = gc.numFood) ∧
    (∀ k (hk : k < (generate gc d).foods.length), ((generate gc d).foods[k]).id = (k : Int)) ∧
    (∀ a ∈ (generate gc d).agents, 1 ≤ a.level ∧ a.level ≤ gc.maxAgentLevel) ∧
    (∀ f ∈ (generate gc d).foods, 1 ≤ f.level ∧ f.level ≤ maxFoodLevel ((generate gc d).agents.map (·.level)) ∧
      (gc.forceCoop = true → f.level = maxFoodLevel ((generate gc d).agents.map (·.level)))) :=
  ⟨gen_fresh_start gc d, gen_foods_interior gc d h, gen_foods_apart gc d h, gen_collectable gc d h,
   gen_consistent gc d h, gen_wf gc d h, ⟨gen_agents_length gc d, gen_foods_length gc d⟩, (gen_ids gc d).2,
   (gen_levels gc d h).1, (gen_levels gc d h).2⟩

/-- food levels are at most `min 3 A · max_agent_level` (three agents suffice for every food) -/
theorem gen_food_level_le (gc : GenCfg) (d : GenDraw) (h : validDraw gc d = true) :
    ∀ f ∈ (generate gc d).foods, f.level ≤ ((min 3 gc.numAgents : Nat) : Int) * gc.maxAgentLevel := by
  have ok := validDraw_ok gc d h
  intro f hf
  have h1 := ((gen_levels gc d h).2 f hf).2.1
  rw [gen_agent_levels gc d ok] at h1
  have h2 := maxFoodLevel_le d.agentLevels gc.maxAgentLevel (fun x hx => (ok.aLv x hx).2)
  rw [ok.nALv] at h2
  exact Int.le_trans h1 h2

/-- the generated state satisfies the observation-bounds invariant of C01 (`BInv`, Bounds.lean) with
`A = num_agents`, `L = max_agent_level` — for every number of agents -/
theorem gen_binv (cfg : Cfg) (gc : GenCfg) (L : Nat) (hg : cfg.gridSize = gc.gridSize) (hL : gc.maxAgentLevel = (L : Int))
    (d : GenDraw) (h : validDraw gc d = true) : BInv cfg gc.numAgents L (generate gc d) := by
  refine ⟨hg ▸ gen_consistent gc d h, gen_wf gc d h, ⟨?_, ?_⟩, ?_⟩
  · intro a ha
    rw [← hL]; exact ((gen_levels gc d h).1 a ha).2
  · intro f hf
    have h1 := gen_food_level_le gc d h f hf
    rw [hL] at h1
    have h2 : ((min 3 gc.numAgents : Nat) : Int) * (L : Int) ≤ ((gc.numAgents * L : Nat) : Int) := by
      rw [← Int.natCast_mul]
      exact Int.ofNat_le.2 (Nat.mul_le_mul_right L (Nat.min_le_right 3 gc.numAgents))
    exact Int.le_trans h1 h2
  · exact (foods_apart _ (gen_foods_apart gc d h)).imp (fun h => h.1)

end LBF
