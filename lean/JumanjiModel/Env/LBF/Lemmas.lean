/-
Proofs for LevelBasedForaging.  Statements are re-exported in Props/Env/LBF.lean.
-/
import JumanjiModel.Env.LBF.Model
namespace LBF
open Jm

/-! ### generic list helpers -/

theorem two_le_count {α} [BEq α] [LawfulBEq α] : ∀ {l : List α} {i j : Nat} (_ : i < j) (hj : j < l.length),
    l[i]'(by omega) = l[j] → 2 ≤ l.count (l[j]) := by
  intro l
  induction l with
  | nil => intro i j _ hj; simp at hj
  | cons x xs ih =>
    intro i j hij hj h
    cases j with
    | zero => omega
    | succ j' =>
      cases i with
      | zero =>
        simp only [List.getElem_cons_zero, List.getElem_cons_succ] at h ⊢
        have hj' : j' < xs.length := by simpa using hj
        have hm : xs[j'] ∈ xs := List.getElem_mem hj'
        have : 0 < xs.count xs[j'] := List.count_pos_iff.2 hm
        rw [List.count_cons]; simp [h]
      | succ i' =>
        simp only [List.getElem_cons_succ] at h ⊢
        have := ih (i := i') (j := j') (by omega) (by simpa using hj) h
        rw [List.count_cons]; omega

theorem sum_ind_pos {α} (p : α → Bool) : ∀ (l : List α),
    (l.map (fun x => if p x then (1 : Int) else 0)).sum > 0 ↔ ∃ x ∈ l, p x = true := by
  intro l
  have nonneg : ∀ l : List α, 0 ≤ (l.map (fun x => if p x then (1 : Int) else 0)).sum := by
    intro l; induction l with
    | nil => simp
    | cons x xs ih => simp only [List.map_cons, List.sum_cons]; split <;> omega
  induction l with
  | nil => simp
  | cons x xs ih =>
    simp only [List.map_cons, List.sum_cons, List.mem_cons, exists_eq_or_imp]
    have := nonneg xs
    by_cases hx : p x = true
    · simp [hx]; omega
    · simp [hx]; simpa using ih

/-! ### C12 / C11: observation, step count, step type -/

theorem obs_faithful (cfg : Cfg) (s : State) (a : List Int) :
    (step cfg s a).2.obs = observe cfg (step cfg s a).1 := by
  simp only [step, switch3]
  repeat' split
  all_goals rfl

theorem step_count (cfg : Cfg) (s : State) (a : List Int) :
    (step cfg s a).1.stepCount = s.stepCount + 1 := rfl

theorem last_iff (cfg : Cfg) (s : State) (a : List Int) :
    (step cfg s a).2.stepType = .last ↔
      ((step cfg s a).1.foods.all (fun f => f.eaten) = true ∨ cfg.timeLimit ≤ (step cfg s a).1.stepCount) := by
  simp only [step, switch3]
  repeat' split
  all_goals simp_all [termination, truncation, transition]

/-- discount: zero exactly when all food is collected (truncation at the time limit keeps discount one) -/
theorem discount_eq (cfg : Cfg) (s : State) (a : List Int) :
    (step cfg s a).2.discount =
      if (step cfg s a).1.foods.all (fun f => f.eaten) = true then zerosR (some s.agents.length)
      else onesR (some s.agents.length) := by
  simp only [step, switch3]
  repeat' split
  all_goals simp_all [termination, truncation, transition]

/-! ### C04: mask = legal -/

theorem oob_false_iff (g : Nat) (p : Pos) : oob g p = false ↔ inGrid g p := by
  unfold oob inGrid; simp; omega

theorem foodAt_iff (s : State) (p : Pos) : foodAt s.foods p = true ↔ uneatenFoodAt s p := by
  unfold foodAt uneatenFoodAt
  simp only [List.any_eq_true, Bool.and_eq_true, decide_eq_true_eq, Bool.not_eq_true']
  constructor
  · rintro ⟨f, hf, h1, h2⟩; exact ⟨f, hf, h1.symm, h2⟩
  · rintro ⟨f, hf, h1, h2⟩; exact ⟨f, hf, h1.symm, h2⟩

theorem agentAt_iff (s : State) (hw : WF s) (i : Nat) (hi : i < s.agents.length) (p : Pos) :
    agentAt s.agents (s.agents[i]).id p = true ↔ otherAgentAt s i p := by
  unfold agentAt otherAgentAt
  simp only [List.any_eq_true, Bool.and_eq_true, decide_eq_true_eq]
  constructor
  · rintro ⟨o, ho, h1, h2⟩
    obtain ⟨j, hj, rfl⟩ := List.getElem_of_mem ho
    refine ⟨s.agents[j], ?_, h1.symm⟩
    rw [List.mem_eraseIdx_iff_getElem]
    refine ⟨j, hj, ?_, rfl⟩
    intro hji; subst hji; exact h2 rfl
  · rintro ⟨o, ho, h1⟩
    rw [List.mem_eraseIdx_iff_getElem] at ho
    obtain ⟨j, hj, hne, rfl⟩ := ho
    refine ⟨s.agents[j], List.getElem_mem hj, h1.symm, ?_⟩
    rw [hw.1 i hi, hw.1 j hj]; omega

theorem adjacent_iff (p q : Pos) : adjacent p q = true ↔ dist p q = 1 := by
  unfold adjacent dist; simp

theorem numAdj_pos_iff (s : State) (ag : Agent) :
    (s.foods.map (fun f => if adjacent f.pos ag.pos && !f.eaten then (1 : Int) else 0)).sum > 0 ↔
      ∃ f ∈ s.foods, f.eaten = false ∧ dist f.pos ag.pos = 1 := by
  rw [sum_ind_pos (fun f : Food => adjacent f.pos ag.pos && !f.eaten)]
  simp only [Bool.and_eq_true, adjacent_iff, Bool.not_eq_true']
  constructor
  · rintro ⟨f, hf, h1, h2⟩; exact ⟨f, hf, h2, h1⟩
  · rintro ⟨f, hf, h1, h2⟩; exact ⟨f, hf, h2, h1⟩

/-- a consistent state: nobody else and no uneaten food on an agent's own cell, which is inside the grid -/
theorem own_cell_free (g : Nat) (s : State) (hc : Consistent g s) (i : Nat) (hi : i < s.agents.length) :
    freeCell g s i (s.agents[i]).pos := by
  obtain ⟨h1, _, h3, h4⟩ := hc
  refine ⟨h1 _ (List.getElem_mem hi), ?_, h4 _ (List.getElem_mem hi)⟩
  rintro ⟨o, ho, hp⟩
  rw [List.mem_eraseIdx_iff_getElem] at ho
  obtain ⟨j, hj, hne, rfl⟩ := ho
  rw [List.pairwise_iff_getElem] at h3
  rcases Nat.lt_or_gt_of_ne hne with h | h
  · exact h3 j i hj hi h hp
  · exact h3 i j hi hj h hp.symm

theorem cellTest_iff (g : Nat) (s : State) (hw : WF s) (i : Nat) (hi : i < s.agents.length) (p : Pos) :
    (!(foodAt s.foods p || agentAt s.agents (s.agents[i]).id p || oob g p)) = true ↔ freeCell g s i p := by
  unfold freeCell
  rw [← oob_false_iff, ← foodAt_iff, ← agentAt_iff s hw i hi]
  cases foodAt s.foods p <;> cases agentAt s.agents (s.agents[i]).id p <;> cases oob g p <;> simp

theorem cellTest_iff' (g : Nat) (s : State) (hw : WF s) (i : Nat) (hi : i < s.agents.length) (p : Pos) :
    ((foodAt s.foods p = false ∧ agentAt s.agents (s.agents[i]).id p = false) ∧ oob g p = false) ↔
      freeCell g s i p := by
  rw [← cellTest_iff g s hw i hi]
  cases foodAt s.foods p <;> cases agentAt s.agents (s.agents[i]).id p <;> cases oob g p <;> simp

theorem addP_zero (p : Pos) : addP p (0, 0) = p := by unfold addP; simp

theorem mask_iff_legal (g : Nat) (s : State) (hc : Consistent g s) (hw : WF s) (i : Nat)
    (hi : i < s.agents.length) (a : Nat) :
    (maskOf g s (s.agents[i])).getD a false = true ↔ legal g s i a := by
  have hown := own_cell_free g s hc i hi
  have hown' := (cellTest_iff g s hw i hi (s.agents[i]).pos).2 hown
  unfold legal
  rw [List.getElem?_eq_getElem hi]
  simp only [legalFor, maskOf, MOVES, List.map_cons, List.map_nil, addP_zero, hown']
  have hadj := numAdj_pos_iff s (s.agents[i])
  by_cases hn : (s.foods.map (fun f => if adjacent f.pos (s.agents[i]).pos && !f.eaten then (1 : Int) else 0)).sum > 0
  · have hex := hadj.1 hn
    rw [if_pos hn]
    match a with
    | 0 => simp
    | 1 => simp [cellTest_iff' g s hw i hi, dir]
    | 2 => simp [cellTest_iff' g s hw i hi, dir]
    | 3 => simp [cellTest_iff' g s hw i hi, dir]
    | 4 => simp [cellTest_iff' g s hw i hi, dir]
    | 5 => simp; exact hex
    | (k + 6) => simp
  · have hex : ¬ ∃ f ∈ s.foods, f.eaten = false ∧ dist f.pos (s.agents[i]).pos = 1 := fun h => hn (hadj.2 h)
    rw [if_neg hn]
    have hset : ∀ (b0 b1 b2 b3 b4 b5 : Bool), Jx.setWD [b0, b1, b2, b3, b4, b5] (-1) false = [b0, b1, b2, b3, b4, false] := by
      intros; simp [Jx.setWD, Jx.wrapIdx]
    rw [hset]
    match a with
    | 0 => simp
    | 1 => simp [cellTest_iff' g s hw i hi, dir]
    | 2 => simp [cellTest_iff' g s hw i hi, dir]
    | 3 => simp [cellTest_iff' g s hw i hi, dir]
    | 4 => simp [cellTest_iff' g s hw i hi, dir]
    | 5 => simp; exact fun f hf h1 h2 => hex ⟨f, hf, h1, h2⟩
    | (k + 6) => simp

/-! ### movement: L1 pieces against the rules (C09), illegal moves (C05) -/

theorem getWC_moves (a : Nat) (ha : a < 6) : Jx.getWC MOVES (0, 0) (a : Int) = dir a := by
  match a, ha with
  | 0, _ => rfl
  | 1, _ => rfl
  | 2, _ => rfl
  | 3, _ => rfl
  | 4, _ => rfl
  | 5, _ => rfl

theorem movedPositions_length (g : Nat) (agents : List Agent) (foods : List Food) (actions : List Int)
    (hl : actions.length = agents.length) : (movedPositions g agents foods actions).length = agents.length := by
  simp [movedPositions, hl]

theorem updateAgents_length (g : Nat) (agents : List Agent) (foods : List Food) (actions : List Int)
    (hl : actions.length = agents.length) : (updateAgents g agents foods actions).length = agents.length := by
  simp [updateAgents, movedPositions, hl]

theorem movedPositions_getElem (g : Nat) (agents : List Agent) (foods : List Food) (actions : List Int)
    (hl : actions.length = agents.length) (i : Nat) (hi : i < agents.length) :
    (movedPositions g agents foods actions)[i]'(by rw [movedPositions_length _ _ _ _ hl]; exact hi) =
      simulateMove g agents foods agents[i] (actions[i]'(by omega)) := by
  simp [movedPositions]

theorem updateAgents_getElem (g : Nat) (agents : List Agent) (foods : List Food) (actions : List Int)
    (hl : actions.length = agents.length) (i : Nat) (hi : i < agents.length) :
    (updateAgents g agents foods actions)[i]'(by rw [updateAgents_length _ _ _ _ hl]; exact hi) =
      { agents[i] with
        pos := if (movedPositions g agents foods actions).count
                    (simulateMove g agents foods agents[i] (actions[i]'(by omega))) != 1
               then agents[i].pos else simulateMove g agents foods agents[i] (actions[i]'(by omega)),
        loading := decide (actions[i]'(by omega) = 5) } := by
  simp [updateAgents, movedPositions]

/-- the vmapped `simulate_agent_movement` computes the rule-level target cell -/
theorem simulateMove_eq_target (g : Nat) (s : State) (hw : WF s) (i : Nat) (hi : i < s.agents.length)
    (a : Nat) (ha : a < 6) :
    simulateMove g s.agents s.foods s.agents[i] (a : Int) = target g s i s.agents[i] a := by
  unfold simulateMove target
  rw [getWC_moves a ha]
  have hc := cellTest_iff g s hw i hi (addP s.agents[i].pos (dir a))
  by_cases hm : 1 ≤ a ∧ a ≤ 4
  · by_cases hf : freeCell g s i (addP s.agents[i].pos (dir a))
    · have h1 := hc.2 hf
      have hC : (oob g (addP s.agents[i].pos (dir a)) ||
          (agentAt s.agents s.agents[i].id (addP s.agents[i].pos (dir a)) ||
            foodAt s.foods (addP s.agents[i].pos (dir a)))) = false := by
        revert h1
        cases foodAt s.foods (addP s.agents[i].pos (dir a)) <;>
          cases agentAt s.agents s.agents[i].id (addP s.agents[i].pos (dir a)) <;>
          cases oob g (addP s.agents[i].pos (dir a)) <;> simp
      simp [hC, hm, hf]
    · have h2 : ¬ ((!(foodAt s.foods (addP s.agents[i].pos (dir a)) ||
          agentAt s.agents s.agents[i].id (addP s.agents[i].pos (dir a)) ||
          oob g (addP s.agents[i].pos (dir a)))) = true) := fun h => hf (hc.1 h)
      have hC : (oob g (addP s.agents[i].pos (dir a)) ||
          (agentAt s.agents s.agents[i].id (addP s.agents[i].pos (dir a)) ||
            foodAt s.foods (addP s.agents[i].pos (dir a)))) = true := by
        revert h2
        cases foodAt s.foods (addP s.agents[i].pos (dir a)) <;>
          cases agentAt s.agents s.agents[i].id (addP s.agents[i].pos (dir a)) <;>
          cases oob g (addP s.agents[i].pos (dir a)) <;> simp
      simp [hC, hf]
  · have hd : dir a = (0, 0) := by
      match a, ha with
      | 0, _ => rfl
      | 1, _ => omega
      | 2, _ => omega
      | 3, _ => omega
      | 4, _ => omega
      | 5, _ => rfl
    have hm' : ¬ (1 ≤ a ∧ a ≤ 4 ∧ freeCell g s i (addP s.agents[i].pos (dir a))) := fun h => hm ⟨h.1, h.2.1⟩
    rw [if_neg hm', hd, addP_zero]
    simp

/-- an action that the rules forbid leaves the target at the agent's own cell -/
theorem target_of_illegal (g : Nat) (s : State) (i : Nat) (hi : i < s.agents.length) (a : Nat)
    (hl : ¬ legal g s i a) : target g s i s.agents[i] a = s.agents[i].pos := by
  unfold legal at hl
  rw [List.getElem?_eq_getElem hi] at hl
  simp only [legalFor] at hl
  unfold target
  rw [if_neg]
  intro h
  exact hl (Or.inr (Or.inl h))

/-- C05: an agent whose action is illegal keeps its cell, id and level (whatever the others do) -/
theorem illegal_keeps_position (cfg : Cfg) (s : State) (hw : WF s) (as : List Nat)
    (hlen : as.length = s.agents.length) (has : ∀ a ∈ as, a < 6) (i : Nat) (hi : i < s.agents.length)
    (hl : ¬ legal cfg.gridSize s i (as[i]'(by omega))) :
    ∃ h : i < (step cfg s (as.map Int.ofNat)).1.agents.length,
      ((step cfg s (as.map Int.ofNat)).1.agents[i]).pos = s.agents[i].pos ∧
      ((step cfg s (as.map Int.ofNat)).1.agents[i]).id = s.agents[i].id ∧
      ((step cfg s (as.map Int.ofNat)).1.agents[i]).level = s.agents[i].level := by
  have hl' : (as.map Int.ofNat).length = s.agents.length := by simp [hlen]
  have hlen2 := updateAgents_length cfg.gridSize s.agents s.foods (as.map Int.ofNat) hl'
  refine ⟨by simp only [step]; omega, ?_⟩
  simp only [step]
  rw [updateAgents_getElem _ _ _ _ hl' i hi]
  have ha : as[i]'(by omega) < 6 := has _ (List.getElem_mem _)
  have : (as.map Int.ofNat)[i]'(by omega) = ((as[i]'(by omega) : Nat) : Int) := by simp
  rw [this, simulateMove_eq_target cfg.gridSize s hw i hi _ ha, target_of_illegal cfg.gridSize s i hi _ hl]
  simp

/-! ### C07: consistency is preserved by every joint action -/

/-- collision fixing on abstract position lists: if the old cells are pairwise distinct and nobody's
moved cell is another agent's old cell, the fixed cells are pairwise distinct -/
theorem fix_distinct (p m : List Pos) (hl : m.length = p.length)
    (hp : ∀ i j (hi : i < p.length) (hj : j < p.length), i ≠ j → p[i] ≠ p[j])
    (hm : ∀ i j (hi : i < p.length) (hj : j < p.length), i ≠ j → p[j] ≠ m[i])
    (i j : Nat) (hi : i < p.length) (hj : j < p.length) (hij : i < j) :
    (if m.count (m[i]) != 1 then p[i] else m[i]) ≠ (if m.count (m[j]) != 1 then p[j] else m[j]) := by
  by_cases h1 : m.count (m[i]) = 1 <;> by_cases h2 : m.count (m[j]) = 1 <;> simp [h1, h2]
  · intro h
    have := two_le_count (l := m) hij (by omega) h
    omega
  · exact fun h => hm i j hi hj (by omega) h.symm
  · exact hm j i hj hi (by omega)
  · exact hp i j hi hj (by omega)

theorem target_free (g : Nat) (s : State) (hc : Consistent g s) (i : Nat) (hi : i < s.agents.length) (a : Nat) :
    freeCell g s i (target g s i s.agents[i] a) := by
  unfold target
  split
  · rename_i h; exact h.2.2
  · exact own_cell_free g s hc i hi

theorem not_other_iff (s : State) (i : Nat) (q : Pos) :
    ¬ otherAgentAt s i q ↔ ∀ j (hj : j < s.agents.length), j ≠ i → s.agents[j].pos ≠ q := by
  unfold otherAgentAt
  constructor
  · intro h j hj hne hq
    exact h ⟨s.agents[j], (List.mem_eraseIdx_iff_getElem).2 ⟨j, hj, hne, rfl⟩, hq⟩
  · rintro h ⟨o, ho, hq⟩
    obtain ⟨j, hj, hne, rfl⟩ := (List.mem_eraseIdx_iff_getElem).1 ho
    exact h j hj hne hq

theorem step_consistent (cfg : Cfg) (s : State) (hc : Consistent cfg.gridSize s) (hw : WF s) (as : List Nat)
    (hlen : as.length = s.agents.length) (has : ∀ a ∈ as, a < 6) :
    Consistent cfg.gridSize (step cfg s (as.map Int.ofNat)).1 ∧ WF (step cfg s (as.map Int.ofNat)).1 := by
  have hl' : (as.map Int.ofNat).length = s.agents.length := by simp [hlen]
  have hAlen := updateAgents_length cfg.gridSize s.agents s.foods (as.map Int.ofNat) hl'
  have hMlen := movedPositions_length cfg.gridSize s.agents s.foods (as.map Int.ofNat) hl'
  -- moved cell of agent i = its rule-level target
  have hmoved : ∀ i (hi : i < s.agents.length),
      (movedPositions cfg.gridSize s.agents s.foods (as.map Int.ofNat))[i]'(by omega) =
        target cfg.gridSize s i s.agents[i] (as[i]'(by omega)) := by
    intro i hi
    rw [movedPositions_getElem _ _ _ _ hl' i hi]
    have : (as.map Int.ofNat)[i]'(by omega) = ((as[i]'(by omega) : Nat) : Int) := by simp
    rw [this, simulateMove_eq_target cfg.gridSize s hw i hi _ (has _ (List.getElem_mem _))]
  have hfree : ∀ i (hi : i < s.agents.length),
      freeCell cfg.gridSize s i ((movedPositions cfg.gridSize s.agents s.foods (as.map Int.ofNat))[i]'(by omega)) := by
    intro i hi; rw [hmoved i hi]; exact target_free _ s hc i hi _
  have hnew : ∀ i (hi : i < s.agents.length),
      (updateAgents cfg.gridSize s.agents s.foods (as.map Int.ofNat))[i]'(by omega) =
        { s.agents[i] with
          pos := if (movedPositions cfg.gridSize s.agents s.foods (as.map Int.ofNat)).count
                      ((movedPositions cfg.gridSize s.agents s.foods (as.map Int.ofNat))[i]'(by omega)) != 1
                 then s.agents[i].pos
                 else (movedPositions cfg.gridSize s.agents s.foods (as.map Int.ofNat))[i]'(by omega),
          loading := decide ((as.map Int.ofNat)[i]'(by omega) = 5) } := by
    intro i hi
    rw [updateAgents_getElem _ _ _ _ hl' i hi, movedPositions_getElem _ _ _ _ hl' i hi]
  obtain ⟨hc1, hc2, hc3, hc4⟩ := hc
  have hold : ∀ q, uneatenFoodAt (step cfg s (as.map Int.ofNat)).1 q → uneatenFoodAt s q := by
    intro q
    simp only [step, uneatenFoodAt, eatFood, List.map_map, List.mem_map, Function.comp]
    rintro ⟨f', ⟨f, hf, rfl⟩, hp, he⟩
    refine ⟨f, hf, hp, ?_⟩
    simp at he
    exact he.2
  refine ⟨⟨?_, ?_, ?_, ?_⟩, ?_, ?_, ?_⟩
  · -- inside the grid
    intro a ha
    obtain ⟨i, hi, rfl⟩ := List.getElem_of_mem ha
    simp only [step] at hi ⊢
    rw [hnew i (by omega)]
    simp only []
    split
    · exact hc1 _ (List.getElem_mem _)
    · exact (hfree i (by omega)).1
  · intro f' hf'
    simp only [step, eatFood, List.map_map, List.mem_map, Function.comp] at hf'
    obtain ⟨f, hf, rfl⟩ := hf'
    exact hc2 f hf
  · -- pairwise distinct cells
    rw [List.pairwise_iff_getElem]
    intro i j hi hj hij
    simp only [step] at hi hj ⊢
    rw [hnew i (by omega), hnew j (by omega)]
    simp only []
    have hp : ∀ i j (hi : i < (s.agents.map (·.pos)).length) (hj : j < (s.agents.map (·.pos)).length), i ≠ j →
        (s.agents.map (·.pos))[i] ≠ (s.agents.map (·.pos))[j] := by
      intro i j hi hj hne
      simp only [List.length_map] at hi hj
      simp only [List.getElem_map]
      rw [List.pairwise_iff_getElem] at hc3
      rcases Nat.lt_or_gt_of_ne hne with h | h
      · exact hc3 i j hi hj h
      · exact fun e => hc3 j i hj hi h e.symm
    have hm : ∀ i j (hi : i < (s.agents.map (·.pos)).length) (hj : j < (s.agents.map (·.pos)).length), i ≠ j →
        (s.agents.map (·.pos))[j] ≠
          (movedPositions cfg.gridSize s.agents s.foods (as.map Int.ofNat))[i]'(by simp at hi; omega) := by
      intro i j hi hj hne
      simp only [List.length_map] at hi hj
      simp only [List.getElem_map]
      exact (not_other_iff s i _).1 (hfree i hi).2.1 j hj (fun e => hne e.symm)
    have := fix_distinct (s.agents.map (·.pos)) (movedPositions cfg.gridSize s.agents s.foods (as.map Int.ofNat))
      (by simp [hMlen]) hp hm i j (by simp; omega) (by simp; omega) hij
    simpa using this
  · -- nobody stands on an uneaten food
    intro a ha hu
    have hu' := hold _ hu
    obtain ⟨i, hi, rfl⟩ := List.getElem_of_mem ha
    simp only [step] at hi hu'
    rw [hnew i (by omega)] at hu'
    simp only [] at hu'
    split at hu'
    · exact hc4 _ (List.getElem_mem _) hu'
    · exact (hfree i (by omega)).2.2 hu'
  · -- ids
    intro i hi
    simp only [step] at hi ⊢
    rw [hnew i (by omega)]
    exact hw.1 i (by omega)
  · intro a ha
    obtain ⟨i, hi, rfl⟩ := List.getElem_of_mem ha
    simp only [step] at hi ⊢
    rw [hnew i (by omega)]
    exact hw.2.1 s.agents[i] (List.getElem_mem _)
  · intro f' hf'
    simp only [step, eatFood, List.map_map, List.mem_map, Function.comp] at hf'
    obtain ⟨f, hf, rfl⟩ := hf'
    exact hw.2.2 f hf

/-! ### C08: the normalised team reward of a step is the collected share of the total food level -/

def eatenLevel (fs : List Food) : Int := (fs.map (fun f => if f.eaten then f.level else 0)).sum
def totalLevel (fs : List Food) : Int := (fs.map (·.level)).sum

theorem sum_map_scaled (c : Int) (d : Rat) : ∀ (l : List Int),
    (l.map (fun x => ((x * c : Int) : Rat) / d)).sum = ((l.sum * c : Int) : Rat) / d := by
  intro l
  induction l with
  | nil => simp [Rat.div_def]
  | cons x xs ih =>
    simp only [List.map_cons, List.sum_cons, ih]
    rw [Rat.div_def, Rat.div_def, Rat.div_def, ← Rat.add_mul, ← Rat.intCast_add, Int.add_mul]

theorem sum_map_zero {α} (l : List α) : (l.map (fun _ => (0 : Rat))).sum = 0 := by
  induction l with
  | nil => rfl
  | cons x xs ih => simp only [List.map_cons, List.sum_cons, ih]; grind

theorem sum_map_div (T : Rat) : ∀ (l : List Int), (l.map (fun (x : Int) => (x : Rat) / T)).sum = ((l.sum : Int) : Rat) / T := by
  intro l
  induction l with
  | nil => simp [Rat.div_def]
  | cons x xs ih =>
    simp only [List.map_cons, List.sum_cons, ih]
    rw [Rat.div_def, Rat.div_def, Rat.div_def, ← Rat.add_mul, ← Rat.intCast_add]

/-- the newly collected level of one food -/
def gain (agents : List Agent) (f : Food) : Int :=
  (if (eatFood agents f).1.eaten then f.level else 0) - (if f.eaten then f.level else 0)

theorem adjLevels_eaten (agents : List Agent) (f : Food) (h : f.eaten = true) :
    (adjLevels agents f).sum = 0 := by
  unfold adjLevels
  simp only [h, Bool.not_true, Bool.and_false]
  induction agents with
  | nil => rfl
  | cons a as ih => simpa using ih

theorem food_reward_sum (cfg : Cfg) (hn : cfg.normalize = true) (hp : cfg.penalty = 0) (T : Int) (hT : T ≠ 0)
    (agents : List Agent) (f : Food) (hf : 1 ≤ f.level) :
    (rewardPerFood cfg T (eatFood agents f)).sum = ((gain agents f : Int) : Rat) / (T : Rat) := by
  unfold rewardPerFood gain
  simp only [eatFood, hn, hp, if_true]
  by_cases hnow : (adjLevels agents f).sum ≥ f.level
  · have hne : f.eaten = false := by
      cases he : f.eaten
      · rfl
      · have := adjLevels_eaten agents f he; omega
    have hs : (adjLevels agents f).sum ≠ 0 := by omega
    simp only [hnow, decide_true, Bool.true_or, hne, if_true, Int.mul_one]
    have : ∀ l : Int, ((l * f.level : Int) : Rat) - (if (adjLevels agents f).sum ≠ 0 ∧ (adjLevels agents f).sum < f.level then (0 : Rat) else 0)
        = ((l * f.level : Int) : Rat) := by intro l; rw [ite_self]; grind
    simp only [this]
    rw [sum_map_scaled]
    have hsR : ((adjLevels agents f).sum : Rat) ≠ 0 := by exact_mod_cast hs
    have hTR : (T : Rat) ≠ 0 := by exact_mod_cast hT
    simp only [Rat.intCast_mul]
    simp
    grind
  · have hd : decide ((adjLevels agents f).sum ≥ f.level) = false := by simpa using hnow
    simp only [hd, Bool.false_or]
    have : ∀ l : Int, ((((l * (if false = true then 1 else 0) * f.level : Int) : Rat) -
        (if (adjLevels agents f).sum ≠ 0 ∧ (adjLevels agents f).sum < f.level then (0 : Rat) else 0)) /
          (((adjLevels agents f).sum * T : Int) : Rat)) = 0 := by
      intro l; rw [ite_self]; simp [Rat.div_def]; grind
    simp only [this, sum_map_zero]
    simp [Rat.div_def]

theorem sum_map_add {α} (f g : α → Rat) : ∀ (l : List α),
    (l.map (fun i => f i + g i)).sum = (l.map f).sum + (l.map g).sum := by
  intro l
  induction l with
  | nil => simp [Rat.add_zero]
  | cons x xs ih => simp only [List.map_cons, List.sum_cons, ih]; grind

theorem sum_map_sub_int {α} (f g : α → Int) : ∀ (l : List α),
    (l.map (fun i => f i - g i)).sum = (l.map f).sum - (l.map g).sum := by
  intro l
  induction l with
  | nil => simp
  | cons x xs ih => simp only [List.map_cons, List.sum_cons, ih]; omega

theorem range_getD (r : List Rat) : (List.range r.length).map (fun i => r.getD i 0) = r := by
  apply List.ext_getElem
  · simp
  · intro i h1 h2; simp [List.getD_eq_getElem?_getD, h2]

theorem sumCols_sum (n : Nat) : ∀ (rows : List (List Rat)), (∀ r ∈ rows, r.length = n) →
    (sumCols n rows).sum = (rows.map List.sum).sum := by
  intro rows
  induction rows with
  | nil => intro _; simp [sumCols, sum_map_zero]
  | cons r rs ih =>
    intro h
    have hr : r.length = n := h r (List.mem_cons_self)
    have ih' := ih (fun r' hr' => h r' (List.mem_cons_of_mem _ hr'))
    simp only [sumCols, List.map_cons, List.sum_cons] at ih' ⊢
    rw [sum_map_add (fun i => r.getD i 0) (fun i => (rs.map (fun r => r.getD i 0)).sum), ih', ← hr, range_getD]

theorem step_reward (cfg : Cfg) (s : State) (a : List Int) :
    (step cfg s a).2.reward =
      getReward cfg s.agents.length (s.foods.map (eatFood (updateAgents cfg.gridSize s.agents s.foods a))) := by
  simp only [step, switch3]
  repeat' split
  all_goals rfl

theorem step_foods (cfg : Cfg) (s : State) (a : List Int) :
    (step cfg s a).1.foods = s.foods.map (fun f => (eatFood (updateAgents cfg.gridSize s.agents s.foods a) f).1) := by
  simp [step]

/-- C08, one step: with normalisation and no penalty, the rewards of all agents add up to the food level
collected in this step divided by the total food level -/
theorem step_team_reward (cfg : Cfg) (hn : cfg.normalize = true) (hp : cfg.penalty = 0) (s : State)
    (hlv : ∀ f ∈ s.foods, 1 ≤ f.level) (hT : totalLevel s.foods ≠ 0) (a : List Int)
    (hlen : a.length = s.agents.length) :
    ((step cfg s a).2.reward).sum =
      ((eatenLevel (step cfg s a).1.foods - eatenLevel s.foods : Int) : Rat) / ((totalLevel s.foods : Int) : Rat) := by
  rw [step_reward, step_foods]
  have hA := updateAgents_length cfg.gridSize s.agents s.foods a hlen
  generalize updateAgents cfg.gridSize s.agents s.foods a = A at hA ⊢
  unfold getReward
  have hT' : ((s.foods.map (eatFood A)).map (fun e => e.1.level)).sum = totalLevel s.foods := by
    simp [totalLevel, eatFood, Function.comp_def]
  simp only [hT']
  rw [sumCols_sum]
  · simp only [List.map_map, Function.comp_def]
    have : ∀ f ∈ s.foods, (rewardPerFood cfg (totalLevel s.foods) (eatFood A f)).sum =
        ((gain A f : Int) : Rat) / ((totalLevel s.foods : Int) : Rat) :=
      fun f hf => food_reward_sum cfg hn hp _ hT A f (hlv f hf)
    rw [List.map_congr_left this]
    have h2 := sum_map_div ((totalLevel s.foods : Int) : Rat) (s.foods.map (gain A))
    simp only [List.map_map, Function.comp_def] at h2
    rw [h2]
    congr 2
    unfold gain eatenLevel
    rw [sum_map_sub_int]
    simp [List.map_map, Function.comp_def, eatFood]
  · intro r hr
    simp only [List.map_map, List.mem_map, Function.comp] at hr
    obtain ⟨f, _, rfl⟩ := hr
    simp [rewardPerFood, eatFood, adjLevels, hA]

/-- shares are proportional to the agents' levels: agent `i`'s part of food `f` (normalised, no penalty)
is `level_i · level_f / (Σ levels of the loading neighbours · Σ all food levels)` if it takes part in
collecting `f`, else 0 -/
theorem food_share (cfg : Cfg) (hn : cfg.normalize = true) (hp : cfg.penalty = 0) (T : Int)
    (agents : List Agent) (f : Food) (i : Nat) (hi : i < agents.length) :
    (rewardPerFood cfg T (eatFood agents f)).getD i 0 =
      (((if adjacent agents[i].pos f.pos && agents[i].loading && !f.eaten then agents[i].level else 0) *
          (if (eatFood agents f).2.1 then 1 else 0) * f.level : Int) : Rat) /
        (((adjLevels agents f).sum * T : Int) : Rat) := by
  simp only [rewardPerFood, eatFood, hn, hp, if_true, ite_self]
  rw [List.getD_eq_getElem?_getD, List.getElem?_map]
  simp [adjLevels, hi]
  grind

/-! ### C08: whole episodes -/

/-- sum over all agents and all steps of the rewards along a sequence of joint actions -/
def teamReturn (cfg : Cfg) : State → List (List Int) → Rat
  | _, [] => 0
  | s, a :: as => ((step cfg s a).2.reward).sum + teamReturn cfg (step cfg s a).1 as

def finalState (cfg : Cfg) : State → List (List Int) → State
  | s, [] => s
  | s, a :: as => finalState cfg (step cfg s a).1 as

theorem step_totalLevel (cfg : Cfg) (s : State) (a : List Int) :
    totalLevel (step cfg s a).1.foods = totalLevel s.foods := by
  rw [step_foods]; simp [totalLevel, eatFood, Function.comp_def]

theorem step_levels (cfg : Cfg) (s : State) (a : List Int) (h : ∀ f ∈ s.foods, 1 ≤ f.level) :
    ∀ f ∈ (step cfg s a).1.foods, 1 ≤ f.level := by
  rw [step_foods]
  intro f' hf'
  simp only [List.mem_map] at hf'
  obtain ⟨f, hf, rfl⟩ := hf'
  exact h f hf

theorem step_agents_length (cfg : Cfg) (s : State) (a : List Int) (hlen : a.length = s.agents.length) :
    (step cfg s a).1.agents.length = s.agents.length := by
  simp only [step]; exact updateAgents_length _ _ _ _ hlen

theorem team_return (cfg : Cfg) (hn : cfg.normalize = true) (hp : cfg.penalty = 0) :
    ∀ (as : List (List Int)) (s : State), (∀ f ∈ s.foods, 1 ≤ f.level) → totalLevel s.foods ≠ 0 →
      (∀ a ∈ as, a.length = s.agents.length) →
      teamReturn cfg s as =
        ((eatenLevel (finalState cfg s as).foods - eatenLevel s.foods : Int) : Rat) / ((totalLevel s.foods : Int) : Rat) := by
  intro as
  induction as with
  | nil => intro s _ _ _; simp [teamReturn, finalState, Rat.div_def]
  | cons a as ih =>
    intro s hlv hT hlen
    have hla : a.length = s.agents.length := hlen a (List.mem_cons_self)
    have ih' := ih (step cfg s a).1 (step_levels cfg s a hlv) (by rw [step_totalLevel]; exact hT)
      (fun b hb => by rw [step_agents_length cfg s a hla]; exact hlen b (List.mem_cons_of_mem _ hb))
    simp only [teamReturn, finalState]
    rw [ih', step_team_reward cfg hn hp s hlv hT a hla, step_totalLevel]
    rw [Rat.div_def, Rat.div_def, Rat.div_def, ← Rat.add_mul, ← Rat.intCast_add]
    congr 2
    omega

theorem eatenLevel_all (fs : List Food) (h : fs.all (fun f => f.eaten) = true) : eatenLevel fs = totalLevel fs := by
  unfold eatenLevel totalLevel
  congr 1
  apply List.map_congr_left
  intro f hf
  simp [List.all_eq_true] at h
  simp [h f hf]

theorem eatenLevel_none (fs : List Food) (h : ∀ f ∈ fs, f.eaten = false) : eatenLevel fs = 0 := by
  unfold eatenLevel
  induction fs with
  | nil => rfl
  | cons f fs ih =>
    simp only [List.map_cons, List.sum_cons]
    rw [ih (fun f' hf' => h f' (List.mem_cons_of_mem _ hf'))]
    simp [h f (List.mem_cons_self)]

/-- C08: starting with no food collected, once all food is collected the rewards handed out so far
(normalised, no penalty) add up to exactly one -/
theorem return_is_one (cfg : Cfg) (hn : cfg.normalize = true) (hp : cfg.penalty = 0) (s : State) (as : List (List Int))
    (hlv : ∀ f ∈ s.foods, 1 ≤ f.level) (hne : s.foods ≠ [])
    (hlen : ∀ a ∈ as, a.length = s.agents.length) (h0 : ∀ f ∈ s.foods, f.eaten = false)
    (hend : (finalState cfg s as).foods.all (fun f => f.eaten) = true) :
    teamReturn cfg s as = 1 := by
  have hT : totalLevel s.foods ≠ 0 := by
    unfold totalLevel
    cases hfs : s.foods with
    | nil => exact absurd hfs hne
    | cons f fs =>
      have h1 : 1 ≤ f.level := hlv f (by rw [hfs]; exact List.mem_cons_self)
      have h2 : ∀ l : List Food, (∀ x ∈ l, 1 ≤ x.level) → 0 ≤ (l.map (·.level)).sum := by
        intro l; induction l with
        | nil => intro _; simp
        | cons x xs ih =>
          intro h
          have := ih (fun y hy => h y (List.mem_cons_of_mem _ hy))
          have := h x (List.mem_cons_self)
          simp only [List.map_cons, List.sum_cons]; omega
      have := h2 fs (fun x hx => hlv x (by rw [hfs]; exact List.mem_cons_of_mem _ hx))
      simp only [List.map_cons, List.sum_cons]; omega
  have hfinT : ∀ (as : List (List Int)) (s : State), totalLevel (finalState cfg s as).foods = totalLevel s.foods := by
    intro as; induction as with
    | nil => intro s; rfl
    | cons a as ih => intro s; simp only [finalState]; rw [ih, step_totalLevel]
  rw [team_return cfg hn hp as s hlv hT hlen, eatenLevel_all _ hend, eatenLevel_none _ h0, hfinT]
  have : ((totalLevel s.foods : Int) : Rat) ≠ 0 := by exact_mod_cast hT
  simp
  grind

/-! ### C09: the transliterated step equals the rule-level step -/

theorem count_ne_one_iff {α} [BEq α] [LawfulBEq α] (l : List α) (i : Nat) (hi : i < l.length) :
    (l.count l[i] != 1) = true ↔ ∃ u ∈ l.eraseIdx i, u = l[i] := by
  have hsplit : l = l.take i ++ l[i] :: l.drop (i + 1) := by
    rw [← List.drop_eq_getElem_cons hi, List.take_append_drop]
  generalize hv : l[i] = v at hsplit ⊢
  have hc : l.count v = (l.eraseIdx i).count v + 1 := by
    rw [List.eraseIdx_eq_take_drop_succ]
    conv => lhs; rw [hsplit]
    simp [List.count_append]
    omega
  rw [hc]
  simp only [bne_iff_ne, ne_eq, Nat.add_eq_right]
  rw [List.count_eq_zero]
  constructor
  · intro h; exact ⟨v, Classical.not_not.1 h, rfl⟩
  · rintro ⟨u, hu, rfl⟩; exact fun h => h hu

theorem targets_length (g : Nat) (s : State) (as : List Nat) : (targets g s as).length = s.agents.length := by
  simp [targets]

theorem movedPositions_eq_targets (g : Nat) (s : State) (hw : WF s) (as : List Nat)
    (hlen : as.length = s.agents.length) (has : ∀ a ∈ as, a < 6) :
    movedPositions g s.agents s.foods (as.map Int.ofNat) = targets g s as := by
  have hl' : (as.map Int.ofNat).length = s.agents.length := by simp [hlen]
  apply List.ext_getElem
  · rw [movedPositions_length _ _ _ _ hl', targets_length]
  · intro i h1 h2
    have hi : i < s.agents.length := by rw [movedPositions_length _ _ _ _ hl'] at h1; exact h1
    rw [movedPositions_getElem _ _ _ _ hl' i hi]
    have : (as.map Int.ofNat)[i]'(by omega) = ((as[i]'(by omega) : Nat) : Int) := by simp
    rw [this, simulateMove_eq_target g s hw i hi _ (has _ (List.getElem_mem _))]
    simp [targets, hi, List.getD_eq_getElem?_getD, hlen ▸ hi]

/-- move phase: vmapped movement + `fix_collisions` + loading flag = "enter the target unless somebody else
has the same target" -/
theorem updateAgents_eq_movedL2 (g : Nat) (s : State) (hw : WF s) (as : List Nat)
    (hlen : as.length = s.agents.length) (has : ∀ a ∈ as, a < 6) :
    updateAgents g s.agents s.foods (as.map Int.ofNat) = movedL2 g s as := by
  have hl' : (as.map Int.ofNat).length = s.agents.length := by simp [hlen]
  have hmt := movedPositions_eq_targets g s hw as hlen has
  apply List.ext_getElem
  · rw [updateAgents_length _ _ _ _ hl']; simp [movedL2]
  · intro i h1 h2
    have hi : i < s.agents.length := by rw [updateAgents_length _ _ _ _ hl'] at h1; exact h1
    have hia : i < as.length := by omega
    have hit : i < (targets g s as).length := by rw [targets_length]; exact hi
    rw [updateAgents_getElem _ _ _ _ hl' i hi]
    have hsm : simulateMove g s.agents s.foods s.agents[i] ((as.map Int.ofNat)[i]'(by omega)) = (targets g s as)[i] := by
      rw [← movedPositions_getElem _ _ _ _ hl' i hi]
      simp only [hmt]
    rw [hsm, hmt]
    simp only [movedL2, List.getElem_map, List.getElem_range, List.getD_eq_getElem?_getD,
      List.getElem?_eq_getElem hi, List.getElem?_eq_getElem hia, List.getElem?_eq_getElem hit, Option.getD_some]
    have hcnt := count_ne_one_iff (targets g s as) i hit
    have hload : decide (Int.ofNat as[i] = 5) = decide (as[i] = 5) := by
      apply decide_eq_decide.2
      constructor
      · intro h; have : ((as[i] : Nat) : Int) = 5 := h; omega
      · intro h; rw [h]; rfl
    rw [hload]
    by_cases hd : ∃ u ∈ (targets g s as).eraseIdx i, u = (targets g s as)[i]
    · rw [if_pos (hcnt.2 hd), if_pos hd]
    · rw [if_neg (fun h => hd (hcnt.1 h)), if_neg hd]

theorem sum_map_ite_filter {α} (p : α → Bool) (v : α → Int) : ∀ l : List α,
    (l.map (fun a => if p a then v a else 0)).sum = ((l.filter p).map v).sum := by
  intro l
  induction l with
  | nil => rfl
  | cons x xs ih =>
    simp only [List.map_cons, List.sum_cons, List.filter_cons, ih]
    cases p x <;> simp

theorem adj_sum_eq (A : List Agent) (f : Food) :
    (adjLevels A f).sum = if f.eaten then 0 else ((loaders A f).map (·.level)).sum := by
  cases he : f.eaten
  · simp only [Bool.false_eq_true, if_false]
    unfold adjLevels loaders
    rw [← sum_map_ite_filter]
    congr 2
    funext a
    have : (adjacent a.pos f.pos && a.loading && !f.eaten) = (a.loading && decide (dist a.pos f.pos = 1)) := by
      simp only [he, adjacent, dist, Bool.not_false, Bool.and_true]
      exact Bool.and_comm _ _
    rw [this]
  · simp only [if_true]; exact adjLevels_eaten A f he

theorem eatFood_eq (A : List Agent) (f : Food) (hf : 1 ≤ f.level) :
    (eatFood A f).1 = { f with eaten := f.eaten || decide (collected A f) } ∧
    ((eatFood A f).2.1 = true ↔ collected A f) := by
  cases he : f.eaten
  · simp [eatFood, collected, adj_sum_eq, he]
  · simp [eatFood, collected, adj_sum_eq, he]; omega

theorem loaders_sum_pos (A : List Agent) (hA : ∀ a ∈ A, 1 ≤ a.level) (f : Food) :
    ((loaders A f).map (·.level)).sum ≠ 0 ↔ loaders A f ≠ [] := by
  have hpos : ∀ l : List Agent, (∀ a ∈ l, 1 ≤ a.level) → l ≠ [] → 0 < (l.map (·.level)).sum := by
    intro l
    induction l with
    | nil => intro _ h; exact absurd rfl h
    | cons x xs ih =>
      intro h _
      have hx := h x (List.mem_cons_self)
      simp only [List.map_cons, List.sum_cons]
      by_cases hxs : xs = []
      · subst hxs; simp; omega
      · have := ih (fun a ha => h a (List.mem_cons_of_mem _ ha)) hxs; omega
  constructor
  · intro h he; rw [he] at h; simp at h
  · intro h
    have := hpos (loaders A f) (fun a ha => hA a (List.mem_filter.1 ha).1) h
    omega

theorem reward_entry_eq (cfg : Cfg) (T : Int) (A : List Agent) (hA : ∀ a ∈ A, 1 ≤ a.level) (f : Food)
    (hf : 1 ≤ f.level) (i : Nat) (hi : i < A.length) :
    (rewardPerFood cfg T (eatFood A f)).getD i 0 = share cfg A T f A[i] := by
  have hnow := (eatFood_eq A f hf).2
  have hsum := adj_sum_eq A f
  have hLpos := loaders_sum_pos A hA f
  simp only [rewardPerFood, List.getD_eq_getElem?_getD, List.getElem?_map]
  have hadj : (eatFood A f).2.2 = adjLevels A f := rfl
  have hlev : (eatFood A f).1.level = f.level := rfl
  rw [hadj, hlev]
  have hi' : i < (adjLevels A f).length := by simp [adjLevels, hi]
  rw [List.getElem?_eq_getElem hi']
  simp only [Option.map_some, Option.getD_some, share]
  have hl : (adjLevels A f)[i] = if adjacent A[i].pos f.pos && A[i].loading && !f.eaten then A[i].level else 0 := by
    simp [adjLevels]
  rw [hl]
  cases he : f.eaten
  · -- food still there
    rw [he] at hsum
    simp only [Bool.false_eq_true, if_false] at hsum
    have hfail : failedAttempt A f ↔
        ((adjLevels A f).sum ≠ 0 ∧ (adjLevels A f).sum < f.level) := by
      unfold failedAttempt
      rw [hsum, hLpos]
      simp [he]
    have hpart : (adjacent A[i].pos f.pos && A[i].loading && !false) = (A[i].loading && decide (dist A[i].pos f.pos = 1)) := by
      simp only [adjacent, dist, Bool.not_false, Bool.and_true]
      exact Bool.and_comm _ _
    rw [hpart]
    by_cases hc : collected A f
    · have hn : (eatFood A f).2.1 = true := hnow.2 hc
      have hnf : ¬ failedAttempt A f := by
        intro h; have := hfail.1 h; have := hc.2; omega
      have hnf' : ¬ ((adjLevels A f).sum ≠ 0 ∧ (adjLevels A f).sum < f.level) := fun h => hnf (hfail.2 h)
      rw [if_neg hnf, if_neg hnf', hn, hsum]
      by_cases hp : (A[i].loading && decide (dist A[i].pos f.pos = 1)) = true
      · simp [hp, hc]
      · simp [hp, hc]
    · have hn : (eatFood A f).2.1 = false := by
        cases h : (eatFood A f).2.1
        · rfl
        · exact absurd (hnow.1 h) hc
      rw [hn, hsum]
      by_cases hfa : failedAttempt A f
      · have := hfail.1 hfa
        rw [hsum] at this
        rw [if_pos hfa, if_pos this]
        simp [hc]
      · have : ¬ (((loaders A f).map (·.level)).sum ≠ 0 ∧ ((loaders A f).map (·.level)).sum < f.level) := by
          rw [← hsum]; exact fun h => hfa (hfail.2 h)
        rw [if_neg hfa, if_neg this]
        simp [hc]
  · -- already collected: nothing happens
    rw [he] at hsum
    simp only [if_true] at hsum
    have hc : ¬ collected A f := by unfold collected; simp [he]
    have hfa : ¬ failedAttempt A f := by unfold failedAttempt; simp [he]
    rw [hsum]
    simp [hc, hfa, Rat.div_def]
    cases cfg.normalize <;> simp <;> grind

theorem movedL2_levels (g : Nat) (s : State) (hw : WF s) (as : List Nat) : ∀ a ∈ movedL2 g s as, 1 ≤ a.level := by
  intro a ha
  simp only [movedL2, List.mem_map, List.mem_range] at ha
  obtain ⟨i, hi, rfl⟩ := ha
  simp only [List.getD_eq_getElem?_getD, List.getElem?_eq_getElem hi, Option.getD_some]
  exact hw.2.1 _ (List.getElem_mem hi)

theorem step_stepType (cfg : Cfg) (s : State) (a : List Int) :
    (step cfg s a).2.stepType =
      if (step cfg s a).1.foods.all (fun f => f.eaten) = true ∨ cfg.timeLimit ≤ (step cfg s a).1.stepCount
      then .last else .mid := by
  simp only [step, switch3]
  repeat' split
  all_goals simp_all [termination, truncation, transition]
  rename_i h1 h2 h3
  rcases h3 with h | h
  · obtain ⟨x, hx, he⟩ := h1
    have := h x hx
    simp_all
  · omega

theorem getReward_eq_rewardL2 (cfg : Cfg) (A : List Agent) (hA : ∀ a ∈ A, 1 ≤ a.level) (fs : List Food)
    (hf : ∀ f ∈ fs, 1 ≤ f.level) :
    getReward cfg A.length (fs.map (eatFood A)) = rewardL2 cfg A fs := by
  unfold getReward rewardL2 sumCols
  have hT : ((fs.map (eatFood A)).map (fun e => e.1.level)).sum = (fs.map (·.level)).sum := by
    simp [eatFood, Function.comp_def]
  simp only [hT]
  apply List.ext_getElem
  · simp
  · intro i h1 h2
    have hi : i < A.length := by simpa using h1
    simp only [List.getElem_map, List.getElem_range, List.map_map, Function.comp_def]
    congr 1
    apply List.map_congr_left
    intro f hfm
    exact reward_entry_eq cfg _ A hA f (hf f hfm) i hi

/-- C09: on every well-formed state and for every in-spec joint action the transliterated `step` (vmapped
movement test, `flag_duplicates`/`fix_collisions`, `eat_food`, `get_reward`, three-way switch) yields exactly
the successor state, step type, per-agent reward and discount prescribed by the rules (`stepL2`) -/
theorem step_eq_stepL2 (cfg : Cfg) (s : State) (hw : WF s) (as : List Nat)
    (hlen : as.length = s.agents.length) (has : ∀ a ∈ as, a < 6) :
    (step cfg s (as.map Int.ofNat)).1 = (stepL2 cfg s as).1 ∧
    (step cfg s (as.map Int.ofNat)).2.stepType = (stepL2 cfg s as).2.1 ∧
    (step cfg s (as.map Int.ofNat)).2.reward = (stepL2 cfg s as).2.2.1 ∧
    (step cfg s (as.map Int.ofNat)).2.discount = (stepL2 cfg s as).2.2.2 := by
  have hA := updateAgents_eq_movedL2 cfg.gridSize s hw as hlen has
  have hAl : (movedL2 cfg.gridSize s as).length = s.agents.length := by simp [movedL2]
  have hfoods : s.foods.map (fun f => (eatFood (movedL2 cfg.gridSize s as) f).1) =
      s.foods.map (fun f => { f with eaten := f.eaten || decide (collected (movedL2 cfg.gridSize s as) f) }) := by
    apply List.map_congr_left
    intro f hf
    exact (eatFood_eq _ f (hw.2.2 f hf)).1
  have hstate : (step cfg s (as.map Int.ofNat)).1 = (stepL2 cfg s as).1 := by
    simp only [step, stepL2, hA, List.map_map, Function.comp_def]
    rw [hfoods]
  refine ⟨hstate, ?_, ?_, ?_⟩
  · rw [step_stepType, hstate]
    simp only [stepL2]
    simp
  · rw [step_reward, hA, ← hAl, getReward_eq_rewardL2 cfg _ (movedL2_levels _ s hw as) s.foods hw.2.2]
    simp [stepL2]
  · rw [discount_eq, hstate]
    simp [stepL2]

/-! ### C12: the observers compute the documented views -/

theorem range_getD' {α} (d : α) (r : List α) : (List.range r.length).map (fun i => r.getD i d) = r := by
  apply List.ext_getElem
  · simp
  · intro i h1 h2; simp [List.getD_eq_getElem?_getD, h2]

theorem filter_ne_map_getD {α} (d : α) : ∀ (l : List α) (i : Nat),
    ((List.range l.length).filter (fun j => decide (j ≠ i))).map (fun j => l.getD j d) = l.eraseIdx i := by
  intro l
  induction l with
  | nil => intro i; simp
  | cons x xs ih =>
    intro i
    rw [List.length_cons, List.range_succ_eq_map]
    cases i with
    | zero =>
      simp [List.filter_map, Function.comp_def]
      have := range_getD' d xs
      rw [List.filter_eq_self.2 (fun _ _ => rfl)]
      simpa [List.getD_eq_getElem?_getD] using this
    | succ i' =>
      simp [List.filter_map, Function.comp_def]
      have := ih i'
      simpa [List.getD_eq_getElem?_getD] using this

theorem filter_eq_single : ∀ (n i : Nat), i < n → (List.range n).filter (fun j => decide (j = i)) = [i] := by
  intro n
  induction n with
  | zero => intro i h; omega
  | succ n ih =>
    intro i h
    rw [List.range_succ, List.filter_append]
    by_cases hin : i = n
    · subst hin
      have : (List.range i).filter (fun j => decide (j = i)) = [] := by
        rw [List.filter_eq_nil_iff]; intro a ha; simp at ha ⊢; omega
      rw [this]; simp
    · rw [ih i (by omega)]
      simp; omega

theorem triple_eq (fov : Nat) (me : Pos) (v : Bool) (vis : Prop) [Decidable vis] (hv : v = true ↔ vis)
    (p : Pos) (l : Int) :
    [if v then p.1 - me.1 + min (fov : Int) me.1 else -1, if v then p.2 - me.2 + min (fov : Int) me.2 else -1,
      if v then l else 0] = entityTriple fov me vis p l := by
  unfold entityTriple windowOrigin
  by_cases h : vis
  · have hv' : v = true := hv.2 h
    simp only [hv', if_true, if_pos h]
    have h1 : p.1 - me.1 + min (fov : Int) me.1 = p.1 - max 0 (me.1 - (fov : Int)) := by omega
    have h2 : p.2 - me.2 + min (fov : Int) me.2 = p.2 - max 0 (me.2 - (fov : Int)) := by omega
    rw [h1, h2]
  · have hv' : v = false := by cases v <;> simp_all
    simp [hv', h]

/-- C12 (vector observer): agent `i` sees every food, then itself, then the other agents in order; an entity
is reported iff it lies within `fov` in both coordinates (foods: and is not yet collected), at its position
relative to the window clipped to the grid, else as `(-1, -1, 0)` -/
theorem vectorView_eq (fov : Nat) (s : State) (hw : WF s) (i : Nat) (hi : i < s.agents.length) :
    vectorView fov s s.agents[i] = vectorViewL2 fov s i s.agents[i] := by
  unfold vectorView vectorViewL2
  simp only []
  -- the three kinds of triples
  have hfood : ∀ f : Food,
      [if (decide ((s.agents[i].pos.1 - f.pos.1).natAbs ≤ fov) && decide ((s.agents[i].pos.2 - f.pos.2).natAbs ≤ fov) && !f.eaten) then f.pos.1 - s.agents[i].pos.1 + min (fov : Int) s.agents[i].pos.1 else -1,
       if (decide ((s.agents[i].pos.1 - f.pos.1).natAbs ≤ fov) && decide ((s.agents[i].pos.2 - f.pos.2).natAbs ≤ fov) && !f.eaten) then f.pos.2 - s.agents[i].pos.2 + min (fov : Int) s.agents[i].pos.2 else -1,
       if (decide ((s.agents[i].pos.1 - f.pos.1).natAbs ≤ fov) && decide ((s.agents[i].pos.2 - f.pos.2).natAbs ≤ fov) && !f.eaten) then f.level else 0] =
      entityTriple fov s.agents[i].pos (inFov fov s.agents[i].pos f.pos ∧ f.eaten = false) f.pos f.level := by
    intro f
    apply triple_eq
    simp [inFov]
  have hagent : ∀ o : Agent,
      [if (decide ((s.agents[i].pos.1 - o.pos.1).natAbs ≤ fov) && decide ((s.agents[i].pos.2 - o.pos.2).natAbs ≤ fov)) then o.pos.1 - s.agents[i].pos.1 + min (fov : Int) s.agents[i].pos.1 else -1,
       if (decide ((s.agents[i].pos.1 - o.pos.1).natAbs ≤ fov) && decide ((s.agents[i].pos.2 - o.pos.2).natAbs ≤ fov)) then o.pos.2 - s.agents[i].pos.2 + min (fov : Int) s.agents[i].pos.2 else -1,
       if (decide ((s.agents[i].pos.1 - o.pos.1).natAbs ≤ fov) && decide ((s.agents[i].pos.2 - o.pos.2).natAbs ≤ fov)) then o.level else 0] =
      entityTriple fov s.agents[i].pos (inFov fov s.agents[i].pos o.pos) o.pos o.level := by
    intro o
    apply triple_eq
    simp [inFov]
  simp only [hfood, hagent]
  -- which indices `jnp.where` returns
  have hself : ∀ j ∈ List.range (s.agents.map (fun o => decide (s.agents[i].id = o.id))).length,
      (s.agents.map (fun o => decide (s.agents[i].id = o.id))).getD j false = decide (j = i) := by
    intro j hj
    simp only [List.length_map, List.mem_range] at hj
    simp only [List.getD_eq_getElem?_getD, List.getElem?_map, List.getElem?_eq_getElem hj, Option.map_some,
      Option.getD_some, hw.1 i hi, hw.1 j hj]
    apply decide_eq_decide.2; omega
  have hother : ∀ j ∈ List.range (s.agents.map (fun o => decide (s.agents[i].id ≠ o.id))).length,
      (s.agents.map (fun o => decide (s.agents[i].id ≠ o.id))).getD j false = decide (j ≠ i) := by
    intro j hj
    simp only [List.length_map, List.mem_range] at hj
    simp only [List.getD_eq_getElem?_getD, List.getElem?_map, List.getElem?_eq_getElem hj, Option.map_some,
      Option.getD_some, hw.1 i hi, hw.1 j hj]
    apply decide_eq_decide.2; omega
  have hF := filter_ne_map_getD (default : Agent) s.agents i
  have hFlen : ((List.range s.agents.length).filter (fun j => decide (j ≠ i))).length = s.agents.length - 1 := by
    have := congrArg List.length hF
    simp only [List.length_map, List.length_eraseIdx, if_pos hi] at this
    exact this
  have hws1 : whereSize (s.agents.map (fun o => decide (s.agents[i].id = o.id))) 1 = [i] := by
    unfold whereSize
    simp only []
    rw [List.filter_congr hself, List.length_map, filter_eq_single _ _ hi]
    rfl
  have hws2 : whereSize (s.agents.map (fun o => decide (s.agents[i].id ≠ o.id))) (s.agents.length - 1) =
      (List.range s.agents.length).filter (fun j => decide (j ≠ i)) := by
    unfold whereSize
    simp only []
    rw [List.filter_congr hother, List.length_map]
    exact List.take_left' hFlen
  rw [hws1, hws2]
  -- gather of in-range indices
  have hpick : ∀ j, j < s.agents.length →
      Jx.getWC (s.agents.map (fun o => entityTriple fov s.agents[i].pos (inFov fov s.agents[i].pos o.pos) o.pos o.level))
        [-1, -1, 0] (j : Int) =
      entityTriple fov s.agents[i].pos (inFov fov s.agents[i].pos (s.agents.getD j default).pos)
        (s.agents.getD j default).pos (s.agents.getD j default).level := by
    intro j hj
    unfold Jx.getWC
    rw [List.length_map, Jx.clampIdx_of_inrange hj]
    simp [List.getD_eq_getElem?_getD, hj]
  congr 1
  · congr 1
    simp only [List.map_cons, List.map_nil, List.flatten_cons, List.flatten_nil, List.append_nil]
    rw [hpick i hi]
    simp [List.getD_eq_getElem?_getD, hi]
  · congr 1
    rw [← hF, List.map_map]
    apply List.map_congr_left
    intro j hj
    have hj' : j < s.agents.length := by
      have := (List.mem_filter.1 hj).1; simpa using this
    rw [hpick j hj']
    rfl


theorem scatterSum_eq (g fov : Nat) (ents : List (Pos × Int)) (hin : ∀ e ∈ ents, inGrid g e.1)
    (r c : Nat) (hr : r < g + 2 * fov) (hc : c < g + 2 * fov) :
    scatterSum (g + 2 * fov) fov ents r c =
      (ents.map (fun e => if decide (e.1 = ((r : Int) - fov, (c : Int) - fov)) then e.2 else 0)).sum := by
  unfold scatterSum
  congr 1
  apply List.map_congr_left
  intro e he
  obtain ⟨h1, h2, h3, h4⟩ := hin e he
  have : (hits (g + 2 * fov) (e.1.1 + fov) r && hits (g + 2 * fov) (e.1.2 + fov) c) =
      decide (e.1 = ((r : Int) - fov, (c : Int) - fov)) := by
    rw [Bool.eq_iff_iff]
    simp only [hits, Jx.wrapIdx, Bool.and_eq_true, decide_eq_true_eq, Prod.ext_iff]
    have e1 : ¬ (e.1.1 + (fov : Int) < 0) := by omega
    have e2 : ¬ (e.1.2 + (fov : Int) < 0) := by omega
    simp only [e1, e2, if_false, decide_eq_true_eq]
    omega
  rw [this]

theorem agentLevelAt_out (g : Nat) (s : State) (h : ∀ a ∈ s.agents, inGrid g a.pos) (p : Pos) (hp : ¬ inGrid g p) :
    agentLevelAt s p = 0 := by
  unfold agentLevelAt
  have : s.agents.filter (fun a => decide (a.pos = p)) = [] := by
    rw [List.filter_eq_nil_iff]
    intro a ha hpa
    simp at hpa
    exact hp (hpa ▸ h a ha)
  rw [this]; rfl

theorem foodLevelAt_out (g : Nat) (s : State) (h : ∀ f ∈ s.foods, inGrid g f.pos) (p : Pos) (hp : ¬ inGrid g p) :
    foodLevelAt s p = 0 := by
  unfold foodLevelAt
  have : s.foods.filter (fun f => decide (f.pos = p) && !f.eaten) = [] := by
    rw [List.filter_eq_nil_iff]
    intro a ha hpa
    simp at hpa
    exact hp (hpa.1 ▸ h a ha)
  rw [this]; rfl

theorem agentGrid_eq (g fov : Nat) (s : State) (h : ∀ a ∈ s.agents, inGrid g a.pos)
    (r c : Nat) (hr : r < g + 2 * fov) (hc : c < g + 2 * fov) :
    scatterSum (g + 2 * fov) fov (s.agents.map (fun a => (a.pos, a.level))) r c =
      agentLevelAt s ((r : Int) - fov, (c : Int) - fov) := by
  rw [scatterSum_eq g fov _ (by simpa using h) r c hr hc]
  unfold agentLevelAt
  rw [← sum_map_ite_filter, List.map_map]
  rfl

theorem foodGrid_eq (g fov : Nat) (s : State) (h : ∀ f ∈ s.foods, inGrid g f.pos)
    (r c : Nat) (hr : r < g + 2 * fov) (hc : c < g + 2 * fov) :
    scatterSum (g + 2 * fov) fov (s.foods.map (fun f => (f.pos, f.level * (if f.eaten then 0 else 1)))) r c =
      foodLevelAt s ((r : Int) - fov, (c : Int) - fov) := by
  rw [scatterSum_eq g fov _ (by simpa using h) r c hr hc]
  unfold foodLevelAt
  rw [← sum_map_ite_filter, List.map_map]
  congr 1
  apply List.map_congr_left
  intro f _
  simp only [Function.comp]
  cases f.eaten <;> simp

theorem sliceStart_in (g fov : Nat) (x : Int) (h0 : 0 ≤ x) (h1 : x < (g : Int)) :
    sliceStart (g + 2 * fov) (2 * fov + 1) x = x.toNat := by
  unfold sliceStart Jx.wrapIdx
  simp only []
  have e : ¬ x < 0 := by omega
  simp only [e, if_false]
  split
  · omega
  · rfl

theorem map2_congr {β} (w : Nat) (F G : Nat → Nat → β) (h : ∀ dr dc, dr < w → dc < w → F dr dc = G dr dc) :
    (List.range w).map (fun dr => (List.range w).map (fun dc => F dr dc)) =
      (List.range w).map (fun dr => (List.range w).map (fun dc => G dr dc)) := by
  apply List.map_congr_left
  intro dr hdr
  apply List.map_congr_left
  intro dc hdc
  exact h dr dc (List.mem_range.1 hdr) (List.mem_range.1 hdc)

/-- C12 (grid observer): window cell `(dr, dc)` of the agent at `me` shows world cell `me - fov + (dr, dc)`:
the level of the agent there, the level of the uneaten food there, and 1 iff that cell is inside the grid and
empty (needs `fov ≥ 1`, which the generator asserts: for `fov = 0` the slice `[-0:]` blanks the whole
accessibility layer) -/
theorem gridView_eq (g fov : Nat) (h0 : 0 < fov) (s : State) (hc : Consistent g s) :
    gridView g fov s = s.agents.map (fun a => gridViewL2 g fov s a.pos) := by
  unfold gridView
  simp only []
  apply List.map_congr_left
  intro a ha
  obtain ⟨x0, x1, y0, y1⟩ := hc.1 a ha
  rw [sliceStart_in g fov _ x0 x1, sliceStart_in g fov _ y0 y1]
  unfold gridViewL2
  simp only []
  have hfov : ¬ fov = 0 := by omega
  simp only [hfov, if_false]
  have hpos : ∀ dr dc : Nat, (((a.pos.1.toNat + dr : Nat) : Int) - fov, ((a.pos.2.toNat + dc : Nat) : Int) - fov) =
      ((a.pos.1 - fov + dr, a.pos.2 - fov + dc) : Pos) := by
    intro dr dc
    rw [Prod.ext_iff]; simp only []
    constructor <;> omega
  have hA : ∀ dr dc, dr < 2 * fov + 1 → dc < 2 * fov + 1 →
      scatterSum (g + 2 * fov) fov (s.agents.map (fun a => (a.pos, a.level))) (a.pos.1.toNat + dr) (a.pos.2.toNat + dc) =
        agentLevelAt s (a.pos.1 - fov + dr, a.pos.2 - fov + dc) := by
    intro dr dc hdr hdc
    rw [agentGrid_eq g fov s hc.1 _ _ (by omega) (by omega), hpos]
  have hF : ∀ dr dc, dr < 2 * fov + 1 → dc < 2 * fov + 1 →
      scatterSum (g + 2 * fov) fov (s.foods.map (fun f => (f.pos, f.level * (if f.eaten then 0 else 1))))
        (a.pos.1.toNat + dr) (a.pos.2.toNat + dc) =
        foodLevelAt s (a.pos.1 - fov + dr, a.pos.2 - fov + dc) := by
    intro dr dc hdr hdc
    rw [foodGrid_eq g fov s hc.2.1 _ _ (by omega) (by omega), hpos]
  congr 1
  · apply map2_congr
    intro dr dc hdr hdc
    rw [hA dr dc hdr hdc]
    split
    · rfl
    · rename_i h; exact agentLevelAt_out g s hc.1 _ h
  · congr 1
    · apply map2_congr
      intro dr dc hdr hdc
      rw [hF dr dc hdr hdc]
      split
      · rfl
      · rename_i h; exact foodLevelAt_out g s hc.2.1 _ h
    · congr 1
      apply map2_congr
      intro dr dc hdr hdc
      rw [hA dr dc hdr hdc, hF dr dc hdr hdc]
      have hin : inGrid g ((a.pos.1 - fov + dr, a.pos.2 - fov + dc) : Pos) ↔
          ¬ (a.pos.1.toNat + dr < fov ∨ a.pos.1.toNat + dr ≥ g + 2 * fov - fov ∨
             a.pos.2.toNat + dc < fov ∨ a.pos.2.toNat + dc ≥ g + 2 * fov - fov) := by
        unfold inGrid; simp only []; omega
      by_cases hg : inGrid g ((a.pos.1 - fov + dr, a.pos.2 - fov + dc) : Pos)
      · rw [if_neg (hin.1 hg)]
        by_cases hz : agentLevelAt s (a.pos.1 - fov + dr, a.pos.2 - fov + dc) +
            foodLevelAt s (a.pos.1 - fov + dr, a.pos.2 - fov + dc) = 0
        · rw [if_pos hz, if_pos ⟨hg, hz⟩]
        · rw [if_neg hz, if_neg (fun h => hz h.2)]
      · rw [if_pos (Classical.not_not.1 (fun h => hg (hin.2 h))), if_neg (fun h => hg h.1)]

/-- the observation of the configured observer is the documented one (mask = legality, views as above) -/
theorem observe_eq_observeL2 (cfg : Cfg) (h0 : 0 < cfg.fov) (s : State) (hc : Consistent cfg.gridSize s) (hw : WF s) :
    observe cfg s = observeL2 cfg s := by
  unfold observe observeL2
  have hmask : masks cfg.gridSize s = legalMask cfg.gridSize s := by
    unfold masks legalMask
    apply List.ext_getElem
    · simp
    · intro i h1 h2
      have hi : i < s.agents.length := by simpa using h1
      simp only [List.getElem_map, List.getElem_range]
      apply List.ext_getElem
      · simp [maskOf, MOVES]
        split <;> simp [Jx.setWD_length]
      · intro a ha1 ha2
        have ha : a < 6 := by simpa using ha2
        simp only [List.getElem_map, List.getElem_range]
        have := mask_iff_legal cfg.gridSize s hc hw i hi a
        rw [List.getD_eq_getElem?_getD, List.getElem?_eq_getElem ha1, Option.getD_some] at this
        rw [Bool.eq_iff_iff, this]; simp
  have hvec : s.agents.map (vectorView cfg.fov s) =
      (List.range s.agents.length).map (fun i => vectorViewL2 cfg.fov s i (s.agents.getD i default)) := by
    apply List.ext_getElem
    · simp
    · intro i h1 h2
      have hi : i < s.agents.length := by simpa using h1
      simp only [List.getElem_map, List.getElem_range, List.getD_eq_getElem?_getD, List.getElem?_eq_getElem hi,
        Option.getD_some]
      exact vectorView_eq cfg.fov s hw i hi
  rw [hmask, hvec, gridView_eq cfg.gridSize cfg.fov h0 s hc]

/-! ### C07 along whole episodes, C05 no participation -/

theorem consistent_along (cfg : Cfg) : ∀ (as : List (List Nat)) (s : State), Consistent cfg.gridSize s → WF s →
    (∀ a ∈ as, a.length = s.agents.length ∧ ∀ x ∈ a, x < 6) →
    Consistent cfg.gridSize (finalState cfg s (as.map (fun a => a.map Int.ofNat))) ∧
      WF (finalState cfg s (as.map (fun a => a.map Int.ofNat))) := by
  intro as
  induction as with
  | nil => intro s hc hw _; exact ⟨hc, hw⟩
  | cons a as ih =>
    intro s hc hw h
    obtain ⟨hl, hx⟩ := h a (List.mem_cons_self)
    obtain ⟨hc', hw'⟩ := step_consistent cfg s hc hw a hl hx
    simp only [List.map_cons, finalState]
    apply ih _ hc' hw'
    intro b hb
    rw [step_agents_length cfg s _ (by simp [hl])]
    exact h b (List.mem_cons_of_mem _ hb)

theorem dist_comm (p q : Pos) : dist p q = dist q p := by
  unfold dist; omega

/-- an agent whose action is illegal takes part in collecting no food: its entry in the adjacent-loading
levels of every food is 0 (so nothing is eaten on its behalf and it earns no share) -/
theorem illegal_no_share (cfg : Cfg) (s : State) (hw : WF s) (as : List Nat)
    (hlen : as.length = s.agents.length) (has : ∀ a ∈ as, a < 6) (i : Nat) (hi : i < s.agents.length)
    (hl : ¬ legal cfg.gridSize s i (as[i]'(by omega))) (f : Food) (hf : f ∈ s.foods) :
    (adjLevels (updateAgents cfg.gridSize s.agents s.foods (as.map Int.ofNat)) f).getD i 0 = 0 := by
  have hl' : (as.map Int.ofNat).length = s.agents.length := by simp [hlen]
  have hAlen := updateAgents_length cfg.gridSize s.agents s.foods (as.map Int.ofNat) hl'
  obtain ⟨_, hpos, _, _⟩ := illegal_keeps_position cfg s hw as hlen has i hi hl
  simp only [step] at hpos
  have hload : ((updateAgents cfg.gridSize s.agents s.foods (as.map Int.ofNat))[i]'(by omega)).loading =
      decide (as[i]'(by omega) = 5) := by
    rw [updateAgents_getElem _ _ _ _ hl' i hi]
    simp only [List.getElem_map]
    apply decide_eq_decide.2
    constructor
    · intro h; have : ((as[i] : Nat) : Int) = 5 := h; omega
    · intro h; rw [h]; rfl
  unfold adjLevels
  rw [List.getD_eq_getElem?_getD, List.getElem?_map, List.getElem?_eq_getElem (by omega)]
  simp only [Option.map_some, Option.getD_some, hpos, hload]
  by_cases h5 : as[i]'(by omega) = 5
  · -- an illegal load: no uneaten food next to the agent
    unfold legal at hl
    rw [List.getElem?_eq_getElem hi] at hl
    simp only [legalFor, h5] at hl
    have hno : ¬ (f.eaten = false ∧ dist f.pos s.agents[i].pos = 1) := by
      intro h; exact hl (Or.inr (Or.inr ⟨trivial, f, hf, h⟩))
    have : (adjacent s.agents[i].pos f.pos && decide (as[i]'(by omega) = 5) && !f.eaten) = false := by
      cases he : f.eaten
      · have hd : ¬ dist f.pos s.agents[i].pos = 1 := fun h => hno ⟨he, h⟩
        rw [dist_comm] at hd
        have : adjacent s.agents[i].pos f.pos = false := by
          cases h : adjacent s.agents[i].pos f.pos
          · rfl
          · exact absurd ((adjacent_iff _ _).1 h) hd
        simp [this]
      · simp
    simp [this]
  · simp [h5]

/-! ### C10: what the generator certificates give -/

theorem food_neighbours_in_grid (g : Nat) (s : State) (h : foodsInterior g s) (f : Food) (hf : f ∈ s.foods)
    (a : Nat) (ha1 : 1 ≤ a) (ha4 : a ≤ 4) : inGrid g (addP f.pos (dir a)) := by
  obtain ⟨h1, h2, h3, h4⟩ := h f hf
  unfold inGrid addP
  match a, ha1, ha4 with
  | 1, _, _ => simp [dir]; omega
  | 2, _, _ => simp [dir]; omega
  | 3, _, _ => simp [dir]; omega
  | 4, _, _ => simp [dir]; omega

theorem foods_apart (s : State) (h : foodsApart s) :
    s.foods.Pairwise (fun a b => a.pos ≠ b.pos ∧ dist a.pos b.pos ≠ 1) := by
  unfold foodsApart at h
  apply List.Pairwise.imp _ h
  intro a b hd
  constructor
  · intro he; rw [he] at hd; simp [dist] at hd
  · omega

/-! ### audit r6 #6: what `step` does with a move action (after `fix_collisions`) -/

theorem addP_dir_ne (p : Pos) {a : Nat} (h1 : 1 ≤ a) (h4 : a ≤ 4) : addP p (dir a) ≠ p := by
  have : a = 1 ∨ a = 2 ∨ a = 3 ∨ a = 4 := by omega
  intro h
  have h1 := congrArg Prod.fst h
  have h2 := congrArg Prod.snd h
  rcases this with rfl | rfl | rfl | rfl <;> simp [addP, dir] at h1 h2 <;> omega

theorem step_moves_iff_legal (cfg : Cfg) (s : State) (hw : WF s) (as : List Nat)
    (hlen : as.length = s.agents.length) (has : ∀ a ∈ as, a < 6) (i : Nat) (hi : i < s.agents.length)
    (hm : 1 ≤ as[i]'(by omega) ∧ as[i]'(by omega) ≤ 4) :
    ∃ h : i < (step cfg s (as.map Int.ofNat)).1.agents.length,
      (((step cfg s (as.map Int.ofNat)).1.agents[i]).pos = addP s.agents[i].pos (dir (as[i]'(by omega))) ↔
        (legal cfg.gridSize s i (as[i]'(by omega)) ∧
         ¬ ∃ u ∈ (targets cfg.gridSize s as).eraseIdx i, u = addP s.agents[i].pos (dir (as[i]'(by omega))))) := by
  have hA : (step cfg s (as.map Int.ofNat)).1.agents = movedL2 cfg.gridSize s as :=
    updateAgents_eq_movedL2 cfg.gridSize s hw as hlen has
  have hAl : (movedL2 cfg.gridSize s as).length = s.agents.length := by simp [movedL2]
  have hi' : i < (step cfg s (as.map Int.ofNat)).1.agents.length := by rw [hA, hAl]; exact hi
  refine ⟨hi', ?_⟩
  have hia : i < as.length := by omega
  have hne := addP_dir_ne s.agents[i].pos hm.1 hm.2
  have hget : (step cfg s (as.map Int.ofNat)).1.agents[i] = (movedL2 cfg.gridSize s as)[i]'(by rw [hAl]; exact hi) := by
    simp [hA]
  rw [hget]
  have htl : (targets cfg.gridSize s as).length = s.agents.length := by simp [targets]
  have hleg : legal cfg.gridSize s i as[i] ↔ freeCell cfg.gridSize s i (addP s.agents[i].pos (dir as[i])) := by
    unfold legal legalFor
    rw [List.getElem?_eq_getElem hi]
    simp only []
    constructor
    · rintro (h | h | h)
      · omega
      · exact h.2.2
      · omega
    · intro h; exact Or.inr (Or.inl ⟨hm.1, hm.2, h⟩)
  have htg : (targets cfg.gridSize s as).getD i s.agents[i].pos =
      if freeCell cfg.gridSize s i (addP s.agents[i].pos (dir as[i])) then addP s.agents[i].pos (dir as[i]) else s.agents[i].pos := by
    simp [targets, target, hi, hia, hm.1, hm.2, List.getD_eq_getElem?_getD]
  simp only [movedL2, List.getElem_map, List.getElem_range, List.getD_eq_getElem?_getD, List.getElem?_eq_getElem hi,
    Option.getD_some]
  rw [hleg]
  have htg' : ((targets cfg.gridSize s as)[i]?.getD s.agents[i].pos) =
      if freeCell cfg.gridSize s i (addP s.agents[i].pos (dir as[i])) then addP s.agents[i].pos (dir as[i]) else s.agents[i].pos := by
    rw [← List.getD_eq_getElem?_getD]; exact htg
  rw [htg']
  by_cases hf : freeCell cfg.gridSize s i (addP s.agents[i].pos (dir as[i]))
  · simp only [hf, if_true, true_and]
    by_cases hd : ∃ u ∈ (targets cfg.gridSize s as).eraseIdx i, u = addP s.agents[i].pos (dir as[i])
    · simp only [hd, if_true, not_true, iff_false]; exact fun h => hne h.symm
    · simp only [hd, if_false, not_false_iff]
  · simp only [hf, if_false, false_and, iff_false]
    split
    · exact fun h => hne h.symm
    · exact fun h => hne h.symm

end LBF
