/-
Reward of an illegally acting agent (C05) and the per-food share against the rules (C08) for LevelBasedForaging.
-/
import JumanjiModel.Env.LBF.Gen
namespace LBF
open Jm

/-- what EVERY agent is charged for food `f` in a step: `penalty` (divided by the normaliser of that food when
rewards are normalised) if somebody tried to load `f` and the levels did not suffice, else nothing -/
def charge (cfg : Cfg) (A : List Agent) (T : Int) (f : Food) : Rat :=
  if failedAttempt A f then
    (if cfg.normalize then cfg.penalty / (((((loaders A f).map (·.level)).sum * T : Int)) : Rat) else cfg.penalty)
  else 0

/-- an agent that takes no part in collecting `f` gets exactly minus the charge -/
theorem share_of_nonpart (cfg : Cfg) (A : List Agent) (T : Int) (f : Food) (a : Agent)
    (h : ¬ (collected A f ∧ (a.loading && decide (dist a.pos f.pos = 1)) = true)) :
    share cfg A T f a = - charge cfg A T f := by
  unfold share charge
  simp only [if_neg h]
  by_cases hf : failedAttempt A f <;> cases cfg.normalize <;>
    simp [hf, Rat.div_def, Rat.sub_eq_add_neg, Rat.neg_mul, Rat.zero_add]

theorem sum_map_neg {α} (f : α → Rat) : ∀ (l : List α), (l.map (fun x => - f x)).sum = - (l.map f).sum := by
  intro l
  induction l with
  | nil => simp
  | cons x xs ih => simp only [List.map_cons, List.sum_cons, ih, Rat.neg_add]

theorem rewardL2_getD (cfg : Cfg) (A : List Agent) (fs : List Food) (i : Nat) (hi : i < A.length) :
    (rewardL2 cfg A fs).getD i 0 = (fs.map (fun f => share cfg A (totalLevel fs) f A[i])).sum := by
  unfold rewardL2 totalLevel
  rw [getD_map_lt _ _ _ _ hi]

/-- C05, any penalty: the reward of an agent whose action is illegal is exactly minus the charges for the failed
load attempts of this step (its own illegal load is no attempt: there is no food next to it) — never a gain -/
theorem illegal_reward_eq (cfg : Cfg) (s : State) (hw : WF s) (as : List Nat)
    (hlen : as.length = s.agents.length) (has : ∀ a ∈ as, a < 6) (i : Nat) (hi : i < s.agents.length)
    (hl : ¬ legal cfg.gridSize s i (as[i]'(by omega))) :
    ((step cfg s (as.map Int.ofNat)).2.reward).getD i 0 =
      - ((s.foods.map (charge cfg (step cfg s (as.map Int.ofNat)).1.agents (totalLevel s.foods))).sum) := by
  have hA := updateAgents_eq_movedL2 cfg.gridSize s hw as hlen has
  have hAg : (step cfg s (as.map Int.ofNat)).1.agents = movedL2 cfg.gridSize s as := hA
  have hAl : (movedL2 cfg.gridSize s as).length = s.agents.length := by simp [movedL2]
  have hi' : i < (movedL2 cfg.gridSize s as).length := by omega
  rw [(step_eq_stepL2 cfg s hw as hlen has).2.2.1, hAg]
  show (rewardL2 cfg (movedL2 cfg.gridSize s as) s.foods).getD i 0 = _
  rw [rewardL2_getD _ _ _ _ hi', ← sum_map_neg]
  congr 1
  apply List.map_congr_left
  intro f hf
  apply share_of_nonpart
  intro ⟨hc, hpart⟩
  have h0 := illegal_no_share cfg s hw as hlen has i hi hl f hf
  rw [hA] at h0
  unfold adjLevels at h0
  rw [getD_map_lt _ _ _ _ hi'] at h0
  have hlev := movedL2_levels cfg.gridSize s hw as _ (List.getElem_mem hi')
  have he : f.eaten = false := hc.1
  simp only [Bool.and_eq_true, decide_eq_true_eq] at hpart
  have hadj : adjacent (movedL2 cfg.gridSize s as)[i].pos f.pos = true := (adjacent_iff _ _).2 hpart.2
  rw [hadj, hpart.1, he] at h0
  simp at h0
  omega

/-- C05 headline: without penalty an illegally acting agent earns exactly nothing -/
theorem illegal_no_reward (cfg : Cfg) (hp : cfg.penalty = 0) (s : State) (hw : WF s) (as : List Nat)
    (hlen : as.length = s.agents.length) (has : ∀ a ∈ as, a < 6) (i : Nat) (hi : i < s.agents.length)
    (hl : ¬ legal cfg.gridSize s i (as[i]'(by omega))) :
    ((step cfg s (as.map Int.ofNat)).2.reward).getD i 0 = 0 := by
  rw [illegal_reward_eq cfg s hw as hlen has i hi hl]
  have : ∀ f ∈ s.foods, charge cfg (step cfg s (as.map Int.ofNat)).1.agents (totalLevel s.foods) f = 0 := by
    intro f _
    unfold charge
    rw [hp]
    split
    · split <;> simp [Rat.div_def]
    · rfl
  rw [List.map_congr_left this, sum_map_zero]
  rfl

theorem rat_inv_nonneg (x : Rat) (h : 0 ≤ x) : 0 ≤ x⁻¹ := by
  by_cases h0 : x = 0
  · rw [h0]; simp
  · have : 0 < x := by
      rcases Rat.le_iff_lt_or_eq.1 h with h | h
      · exact h
      · exact absurd h.symm h0
    exact Rat.le_of_lt (Rat.inv_pos.2 this)

theorem sum_nonneg_rat : ∀ (l : List Rat), (∀ x ∈ l, 0 ≤ x) → 0 ≤ l.sum := by
  intro l
  induction l with
  | nil => intro _; simp
  | cons x xs ih =>
    intro h
    simp only [List.sum_cons]
    exact Rat.add_nonneg (h x (by simp)) (ih (fun y hy => h y (by simp [hy])))

/-- a non-negative penalty gives non-negative charges -/
theorem charge_nonneg (cfg : Cfg) (hp : 0 ≤ cfg.penalty) (A : List Agent) (hA : ∀ a ∈ A, 1 ≤ a.level) (T : Int)
    (hT : 0 ≤ T) (f : Food) : 0 ≤ charge cfg A T f := by
  unfold charge
  split
  · split
    · rw [Rat.div_def]
      apply Rat.mul_nonneg hp
      apply rat_inv_nonneg
      have hL : 0 ≤ ((loaders A f).map (·.level)).sum := by
        apply sum_nonneg_int
        intro x hx
        obtain ⟨a, ha, rfl⟩ := List.mem_map.1 hx
        have := hA a (List.mem_filter.1 ha).1
        omega
      exact Rat.intCast_nonneg.2 (Int.mul_nonneg hL hT)
    · exact hp
  · exact Rat.le_refl

/-- C05, penalty ≥ 0: the illegally acting agent's reward is never positive -/
theorem illegal_reward_nonpos (cfg : Cfg) (hp : 0 ≤ cfg.penalty) (s : State) (hw : WF s) (as : List Nat)
    (hlen : as.length = s.agents.length) (has : ∀ a ∈ as, a < 6) (i : Nat) (hi : i < s.agents.length)
    (hl : ¬ legal cfg.gridSize s i (as[i]'(by omega))) :
    ((step cfg s (as.map Int.ofNat)).2.reward).getD i 0 ≤ 0 := by
  rw [illegal_reward_eq cfg s hw as hlen has i hi hl]
  have hA := updateAgents_eq_movedL2 cfg.gridSize s hw as hlen has
  have hAg : (step cfg s (as.map Int.ofNat)).1.agents = movedL2 cfg.gridSize s as := hA
  have hT : 0 ≤ totalLevel s.foods := by
    unfold totalLevel
    apply sum_nonneg_int
    intro x hx
    obtain ⟨f, hf, rfl⟩ := List.mem_map.1 hx
    have := hw.2.2 f hf
    omega
  have := sum_nonneg_rat (s.foods.map (charge cfg (step cfg s (as.map Int.ofNat)).1.agents (totalLevel s.foods)))
    (by
      intro x hx
      obtain ⟨f, _, rfl⟩ := List.mem_map.1 hx
      rw [hAg]
      exact charge_nonneg cfg hp _ (movedL2_levels cfg.gridSize s hw as) _ hT f)
  have h2 := Rat.neg_le_neg this
  simpa using h2

/-! ### C08: the per-food share of the rules -/

/-- normalised, no penalty: a loading neighbour of a food collected in this step gets
`level_i · level_f / (Σ loaders' levels · T)`, everybody else nothing -/
theorem share_formula (cfg : Cfg) (hn : cfg.normalize = true) (hp : cfg.penalty = 0) (A : List Agent) (T : Int)
    (f : Food) (a : Agent) :
    share cfg A T f a =
      if collected A f ∧ a.loading = true ∧ dist a.pos f.pos = 1 then
        ((a.level * f.level : Int) : Rat) / (((((loaders A f).map (·.level)).sum * T : Int)) : Rat)
      else 0 := by
  unfold share
  simp only [hn, hp, if_true, ite_self, Bool.and_eq_true, decide_eq_true_eq]
  split
  · simp [Rat.sub_eq_add_neg, Rat.add_zero]
  · have : (0 : Rat) - 0 = 0 := by decide +kernel
    simp [Rat.div_def, this]

theorem food_share_formula (cfg : Cfg) (hn : cfg.normalize = true) (hp : cfg.penalty = 0) (T : Int)
    (A : List Agent) (hA : ∀ a ∈ A, 1 ≤ a.level) (f : Food) (hf : 1 ≤ f.level) (i : Nat) (hi : i < A.length) :
    (rewardPerFood cfg T (eatFood A f)).getD i 0 =
      if collected A f ∧ A[i].loading = true ∧ dist A[i].pos f.pos = 1 then
        ((A[i].level * f.level : Int) : Rat) / (((((loaders A f).map (·.level)).sum * T : Int)) : Rat)
      else 0 := by
  rw [reward_entry_eq cfg T A hA f hf i hi, share_formula cfg hn hp]

end LBF
