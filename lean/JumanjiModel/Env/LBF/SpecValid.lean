/-
LevelBasedForaging — C01 spec membership (wave 4): the declared specs of BOTH observers as `Sp` values (`A` = num_agents,
`F` = num_food, `L` = max_agent_level are the generator's arguments, not part of `Cfg`), the shapes of everything the observers
emit (vector view: `3·(F + A)` numbers per agent; grid view: `(A, 3, 2·fov + 1, 2·fov + 1)`; mask `(A, 6)`), the invariant
`SpecInv` (= the bounds invariant `BInv` of Bounds.lean plus the entity counts and a non-negative counter) established by the
generator for every valid draw and preserved by every in-spec step (legal or not, MID or LAST), membership of the observations
of `reset` and of every `step`, whole episodes, the converse, reward / discount / action spec.
-/
import JumanjiModel.Env.LBF.Bounds
import JumanjiModel.Env.LBF.Gen
import JumanjiModel.Env.MultiAgentSpecValid
namespace LBF
open Jm Sp PzS PkS MaS

/-! ### the declared specs (observer.py `observation_spec`, env.py `action_spec`, `reward_spec`, `discount_spec`) -/

/-- `max_ob` / `max_level` of both observers: `max(max_food_level, max_agent_level, grid_size)` with
`max_food_level = num_agents * max_agent_level` -/
def specMax (cfg : Cfg) (A L : Nat) : Int := max (max ((A * L : Nat) : Int) (L : Int)) (cfg.gridSize : Int)

/-- `observation_spec`: `agents_view` BoundedArray((A, 3·(A + F)), int32, −1, max_ob) for the vector observer and
BoundedArray((A, 3, 2·fov + 1, 2·fov + 1), int32, 0, max_level) for the grid observer; `action_mask`
BoundedArray((A, 6), bool, False, True); `step_count` BoundedArray((), int32, 0, time_limit) -/
def obsSpec (cfg : Cfg) (A F L : Nat) : Sp.Nested :=
  [("agents_view",
      if cfg.gridObs then .bounded [A, 3, 2 * cfg.fov + 1, 2 * cfg.fov + 1] .int32 "agents_view" [] [((0 : Int) : Rat)] []
        [(specMax cfg A L : Rat)]
      else .bounded [A, 3 * (A + F)] .int32 "agents_view" [] [((-1 : Int) : Rat)] [] [(specMax cfg A L : Rat)]),
   ("action_mask", .bounded [A, 6] .bool "action_mask" [] [0] [] [1]),
   ("step_count", .bounded [] .int32 "step_count" [] [0] [] [(cfg.timeLimit : Rat)])]

/-- `action_spec`: MultiDiscreteArray([6] * A, int32) -/
def actionSpec (A : Nat) : Leaf := actionSpecN A 6

/-- `agents_view` as the array the implementation emits; the shape is READ OFF the value -/
def viewArr : View → Arr
  | .vec v => ⟨shape2 v, .int32, ofInts v.flatten⟩
  | .grid g => ⟨shape4 g, .int32, ofInts g.flatten.flatten.flatten⟩

def toNValue (o : Obs) : NValue :=
  [("agents_view", viewArr o.view),
   ("action_mask", ⟨shape2 o.mask, .bool, ofBools o.mask.flatten⟩),
   ("step_count", ⟨[], .int32, [(o.stepCount : Rat)]⟩)]

/-- what membership of the view amounts to -/
def ViewOK (cfg : Cfg) (A F L : Nat) : View → Prop
  | .vec v => cfg.gridObs = false ∧ Rect2 v A (3 * (A + F)) ∧ ∀ x ∈ v.flatten, -1 ≤ x ∧ x ≤ specMax cfg A L
  | .grid g => cfg.gridObs = true ∧ Rect4 g A 3 (2 * cfg.fov + 1) (2 * cfg.fov + 1) ∧
      ∀ x ∈ g.flatten.flatten.flatten, 0 ≤ x ∧ x ≤ specMax cfg A L

def ObsOK (cfg : Cfg) (A F L : Nat) (o : Obs) : Prop :=
  ViewOK cfg A F L o.view ∧ Rect2 o.mask A 6 ∧ 0 ≤ o.stepCount ∧ o.stepCount ≤ cfg.timeLimit

theorem obs_valid (cfg : Cfg) (A F L : Nat) (hA : 0 < A) (o : Obs) (h : ObsOK cfg A F L o) :
    (obsSpec cfg A F L).valid (toNValue o) = true := by
  obtain ⟨h1, h2, h3, h4⟩ := h
  have v2 := valid_mask A 6 "action_mask" o.mask h2 hA
  have v3 := valid_counter "step_count" cfg.timeLimit o.stepCount h3 h4
  cases hv : o.view with
  | vec v =>
    rw [hv] at h1
    obtain ⟨hg, hr, hb⟩ := h1
    have v1 := valid_bounded2 A (3 * (A + F)) .int32 "agents_view" ((-1 : Int) : Rat) (specMax cfg A L : Rat) v ofInts
      ofInts_length hr hA (ofInts_bounds _ (-1) (specMax cfg A L) hb)
    simp only [Nested.valid, obsSpec, toNValue, hv, viewArr, hg, Bool.false_eq_true, if_false, List.map_cons, List.map_nil,
      List.zipWith_cons_cons, List.zipWith_nil_right, List.all_cons, List.all_nil, v1, v2, v3]
    decide
  | grid g =>
    rw [hv] at h1
    obtain ⟨hg, hr, hb⟩ := h1
    have v1 := valid_bounded4 A 3 (2 * cfg.fov + 1) (2 * cfg.fov + 1) .int32 "agents_view" ((0 : Int) : Rat)
      (specMax cfg A L : Rat) g ofInts ofInts_length hr hA (by omega) (by omega) (ofInts_bounds _ 0 (specMax cfg A L) hb)
    simp only [Nested.valid, obsSpec, toNValue, hv, viewArr, hg, if_true, List.map_cons, List.map_nil,
      List.zipWith_cons_cons, List.zipWith_nil_right, List.all_cons, List.all_nil, v1, v2, v3]
    decide

/-- … and conversely `validate` accepts nothing else: the declared shape of the configured observer, every entry of the view
between the observer's minimum (−1 vector, 0 grid) and `max(A·L, L, grid_size)`, an `(A, 6)` mask, the counter in
`[0, time_limit]` -/
theorem obs_valid_only (cfg : Cfg) (A F L : Nat) (o : Obs) (h : (obsSpec cfg A F L).valid (toNValue o) = true) :
    (viewArr o.view).shape = (if cfg.gridObs then [A, 3, 2 * cfg.fov + 1, 2 * cfg.fov + 1] else [A, 3 * (A + F)]) ∧
    (∀ x ∈ viewInts o.view, (if cfg.gridObs then 0 else -1) ≤ x ∧ x ≤ specMax cfg A L) ∧
    shape2 o.mask = [A, 6] ∧ o.mask.flatten.length = A * 6 ∧ 0 ≤ o.stepCount ∧ o.stepCount ≤ cfg.timeLimit := by
  simp only [Nested.valid, obsSpec, toNValue, List.map_cons, List.map_nil, List.zipWith_cons_cons, List.zipWith_nil_right,
    List.all_cons, List.all_nil, id, Bool.and_true, Bool.and_eq_true, beq_self_eq_true, true_and] at h
  obtain ⟨h1, h2, h3⟩ := h
  have m := valid_mask_only _ _ _ _ h2
  have c := valid_counter_only _ _ _ h3
  have hd : (viewArr o.view).data = ofInts (viewInts o.view) := by cases o.view <;> rfl
  refine ⟨?_, ?_, m.1, m.2, c.1, c.2⟩
  · cases hg : cfg.gridObs
    · simp only [hg, Bool.false_eq_true, if_false] at h1 ⊢
      rw [valid_scalar_bounded_iff] at h1; exact h1.1
    · simp only [hg, if_true] at h1 ⊢
      rw [valid_scalar_bounded_iff] at h1; exact h1.1
  · cases hg : cfg.gridObs
    · simp only [hg, Bool.false_eq_true, if_false] at h1 ⊢
      rw [valid_scalar_bounded_iff, hd] at h1
      exact ofInts_bounds_conv _ (-1) (specMax cfg A L) h1.2.2.2
    · simp only [hg, if_true] at h1 ⊢
      rw [valid_scalar_bounded_iff, hd] at h1
      exact ofInts_bounds_conv _ 0 (specMax cfg A L) h1.2.2.2

/-! ### the shapes of what the observers emit -/

theorem whereSize_length (cond : List Bool) (k : Nat) : (whereSize cond k).length = k := by
  simp [whereSize]

theorem flatten_map_len3 {α : Type} (l : List α) (f : α → List Int) (h : ∀ x ∈ l, (f x).length = 3) :
    (l.map f).flatten.length = l.length * 3 := by
  rw [length_flatten_const (l.map f) 3 (by intro r hr; obtain ⟨x, hx, rfl⟩ := List.mem_map.1 hr; exact h x hx)]
  simp

theorem pick_len3 (T : List (List Int)) (hT : ∀ t ∈ T, t.length = 3) (i : Int) : (Jx.getWC T [-1, -1, 0] i).length = 3 := by
  rcases getWC_mem_or T [-1, -1, 0] i with h | h
  · exact hT _ h
  · rw [h]; rfl

/-- `VectorObserver.make_agents_view` returns `3·(F + A)` numbers for every agent of a state with at least one agent -/
theorem vectorView_length (fov : Nat) (s : State) (ag : Agent) (hA : 0 < s.agents.length) :
    (vectorView fov s ag).length = 3 * (s.agents.length + s.foods.length) := by
  unfold vectorView
  simp only [List.length_append]
  rw [flatten_map_len3 s.foods _ (by intro f _; rfl), flatten_map_len3 _ _ (fun i _ => pick_len3 _ (by
      intro t ht; obtain ⟨o, _, rfl⟩ := List.mem_map.1 ht; rfl) _),
    flatten_map_len3 _ _ (fun i _ => pick_len3 _ (by
      intro t ht; obtain ⟨o, _, rfl⟩ := List.mem_map.1 ht; rfl) _), whereSize_length, whereSize_length]
  omega

theorem vecView_rect (fov : Nat) (s : State) (hA : 0 < s.agents.length) :
    Rect2 (s.agents.map (vectorView fov s)) s.agents.length (3 * (s.agents.length + s.foods.length)) := by
  refine ⟨by simp, ?_⟩
  intro r hr
  obtain ⟨ag, _, rfl⟩ := List.mem_map.1 hr
  exact vectorView_length fov s ag hA

/-- `GridObserver.make_agents_view` returns an `(A, 3, 2·fov + 1, 2·fov + 1)` array -/
theorem gridView_rect (g fov : Nat) (s : State) :
    Rect4 (gridView g fov s) s.agents.length 3 (2 * fov + 1) (2 * fov + 1) := by
  unfold gridView
  refine ⟨by simp, ?_⟩
  intro x hx
  simp only [List.mem_map] at hx
  obtain ⟨a, _, rfl⟩ := hx
  refine ⟨rfl, ?_⟩
  intro y hy
  simp only [List.mem_cons, List.not_mem_nil, or_false] at hy
  rcases hy with rfl | rfl | rfl <;>
  · refine ⟨by simp, ?_⟩
    intro r hr
    simp only [List.mem_map] at hr
    obtain ⟨_, _, rfl⟩ := hr
    simp

theorem maskOf_length (g : Nat) (s : State) (ag : Agent) : (maskOf g s ag).length = 6 := by
  unfold maskOf
  simp only []
  split
  · simp [MOVES]
  · rw [Jx.setWD_length]; simp [MOVES]

theorem masks_rect (g : Nat) (s : State) : Rect2 (masks g s) s.agents.length 6 := by
  refine ⟨by simp [masks], ?_⟩
  intro r hr
  simp only [masks, List.mem_map] at hr
  obtain ⟨ag, _, rfl⟩ := hr
  exact maskOf_length g s ag

/-! ### the invariant -/

/-- the bounds invariant of Bounds.lean (agents / foods inside the grid, agents on distinct cells off uneaten food, ids =
indices, levels in `[1, L]` resp. `[1, A·L]`, foods on distinct cells) together with the entity counts and a non-negative
counter -/
def SpecInv (cfg : Cfg) (A F L : Nat) (s : State) : Prop :=
  BInv cfg A L s ∧ s.agents.length = A ∧ s.foods.length = F ∧ 0 ≤ s.stepCount

instance (cfg : Cfg) (A F L : Nat) (s : State) : Decidable (SpecInv cfg A F L s) := by unfold SpecInv; infer_instance

theorem step_foods_length (cfg : Cfg) (s : State) (a : List Int) : (step cfg s a).1.foods.length = s.foods.length := by
  rw [step_foods]; simp

/-- every in-spec joint action (one entry `< 6` per agent; legal or not, MID or LAST) keeps the invariant -/
theorem step_specInv (cfg : Cfg) (A F L : Nat) (s : State) (h : SpecInv cfg A F L s) (as : List Nat)
    (hlen : as.length = A) (has : ∀ a ∈ as, a < 6) : SpecInv cfg A F L (step cfg s (as.map Int.ofNat)).1 := by
  obtain ⟨h1, h2, h3, h4⟩ := h
  refine ⟨step_binv cfg A L s h1 as (by rw [hlen, h2]) has, ?_, by rw [step_foods_length, h3], by rw [step_count]; omega⟩
  rw [step_agents_length cfg s _ (by simp [hlen, h2]), h2]

/-- the generator establishes it for EVERY valid draw (`A = num_agents`, `F = num_food`, `L = max_agent_level`) -/
theorem gen_specInv (cfg : Cfg) (gc : GenCfg) (L : Nat) (hg : cfg.gridSize = gc.gridSize) (hL : gc.maxAgentLevel = (L : Int))
    (d : GenDraw) (h : validDraw gc d = true) : SpecInv cfg gc.numAgents gc.numFood L (generate gc d) :=
  ⟨gen_binv cfg gc L hg hL d h, gen_agents_length gc d, gen_foods_length gc d, by rw [(gen_fresh_start gc d).1]; omega⟩

/-! ### the observations -/

theorem viewHi_le_specMax (cfg : Cfg) (A L : Nat) : viewHi cfg A L ≤ specMax cfg A L := by
  unfold viewHi specMax
  split <;> omega

theorem observe_ok (cfg : Cfg) (A F L : Nat) (hA : 0 < A) (s : State) (h : SpecInv cfg A F L s)
    (hT : s.stepCount ≤ cfg.timeLimit) : ObsOK cfg A F L (observe cfg s) := by
  obtain ⟨h1, h2, h3, h4⟩ := h
  have hb := view_bounds cfg A L s h1
  have hhi := viewHi_le_specMax cfg A L
  have hm := masks_rect cfg.gridSize s
  rw [h2] at hm
  refine ⟨?_, hm, h4, hT⟩
  unfold observe at hb ⊢
  cases hg : cfg.gridObs
  · simp only [hg, Bool.false_eq_true, if_false, viewInts] at hb ⊢
    have hr := vecView_rect cfg.fov s (by omega)
    rw [h2, h3] at hr
    refine ⟨hg, hr, ?_⟩
    intro x hx
    have := hb x hx
    simp only [viewLo, hg, Bool.false_eq_true, if_false] at this
    omega
  · simp only [hg, if_true, viewInts] at hb ⊢
    have hr := gridView_rect cfg.gridSize cfg.fov s
    rw [h2] at hr
    refine ⟨hg, hr, ?_⟩
    intro x hx
    have := hb x hx
    simp only [viewLo, hg, if_true] at this
    omega

/-- C01: the `reset` observation built on ANY state with the invariant and counter 0 -/
theorem reset_obs_valid (cfg : Cfg) (A F L : Nat) (hA : 0 < A) (hT : 0 ≤ cfg.timeLimit) (s : State)
    (h : SpecInv cfg A F L s) (h0 : s.stepCount = 0) :
    (obsSpec cfg A F L).valid (toNValue (resetTs cfg s).obs) = true :=
  obs_valid cfg A F L hA _ (observe_ok cfg A F L hA s h (by omega))

/-- C01: the observation of EVERY in-spec step (legal or not, MID or LAST) from a state with the invariant whose counter has
not reached the limit -/
theorem step_obs_valid (cfg : Cfg) (A F L : Nat) (hA : 0 < A) (s : State) (h : SpecInv cfg A F L s)
    (hlim : s.stepCount < cfg.timeLimit) (as : List Nat) (hlen : as.length = A) (has : ∀ a ∈ as, a < 6) :
    (obsSpec cfg A F L).valid (toNValue (step cfg s (as.map Int.ofNat)).2.obs) = true := by
  rw [obs_faithful]
  exact obs_valid cfg A F L hA _
    (observe_ok cfg A F L hA _ (step_specInv cfg A F L s h as hlen has) (by rw [step_count]; omega))

/-- whole episodes: along the rollout of ANY in-spec joint actions from a state with the invariant and counter 0, every
observation emitted by one of the first `time_limit` steps is a member of the spec (step `time_limit` is LAST:
`lbf_episode_last_by_limit`) -/
theorem rollout_obs_valid (cfg : Cfg) (A F L : Nat) (hA : 0 < A) (s0 : State) (h : SpecInv cfg A F L s0)
    (h0 : s0.stepCount = 0) (as : List (List Nat)) (has : ∀ a ∈ as, a.length = A ∧ ∀ x ∈ a, x < 6) (j : Nat)
    (hj : (j : Int) < cfg.timeLimit) (e : State × TimeStep Obs)
    (he : (Ep.rollout (fun s (a : List Nat) => step cfg s (a.map Int.ofNat)) s0 as)[j]? = some e) :
    (obsSpec cfg A F L).valid (toNValue e.2.obs) = true := by
  obtain ⟨s', a, hinv, ha, rfl⟩ := rollout_inv_idx (fun s (a : List Nat) => step cfg s (a.map Int.ofNat))
    (fun n s => SpecInv cfg A F L s ∧ s.stepCount = (n : Int)) (fun a => a.length = A ∧ ∀ x ∈ a, x < 6)
    (fun n s a hh ha => ⟨step_specInv cfg A F L s hh.1 a ha.1 ha.2, by
      show (step cfg s (a.map Int.ofNat)).1.stepCount = ((n + 1 : Nat) : Int); rw [step_count, hh.2]; omega⟩) 0 s0
    ⟨h, by simpa using h0⟩ as has j e he
  exact step_obs_valid cfg A F L hA s' hinv.1 (by rw [hinv.2]; simpa using hj) a ha.1 ha.2

/-! ### reward, discount, action spec -/

/-- reward and discount of EVERY step (any state with `A` agents, any list of integers as joint action): `A` rewards, `A`
discounts all 0 or all 1 -/
theorem step_reward_discount_valid (cfg : Cfg) (A : Nat) (s : State) (hl : s.agents.length = A) (a : List Int) :
    (rewardSpecN A).valid (vecArr (step cfg s a).2.reward) = true ∧
    (discountSpecN A).valid (vecArr (step cfg s a).2.discount) = true := by
  have hr : (step cfg s a).2.reward.length = A := by
    have : (step cfg s a).2.reward = getReward cfg s.agents.length
        (s.foods.map (eatFood (updateAgents cfg.gridSize s.agents s.foods a))) := by
      simp only [step, switch3]; repeat' split
      all_goals rfl
    rw [this]; simp [getReward, sumCols, hl]
  refine ⟨(reward_valid_iff _ _).2 hr, (discount_valid_iff _ _).2 ?_⟩
  have hz : ∀ x ∈ zerosR (some A), (0 : Rat) ≤ x ∧ x ≤ 1 := by
    intro x hx; simp only [zerosR, List.mem_replicate] at hx; rw [hx.2]; exact ⟨by decide, by decide⟩
  have ho : ∀ x ∈ onesR (some A), (0 : Rat) ≤ x ∧ x ≤ 1 := by
    intro x hx; simp only [onesR, List.mem_replicate] at hx; rw [hx.2]; exact ⟨by decide, by decide⟩
  simp only [step, switch3, hl]
  repeat' split
  · exact ⟨by simp [termination, zerosR, RShape.size], hz⟩
  · exact ⟨by simp [truncation, onesR, RShape.size], ho⟩
  · exact ⟨by simp [transition, onesR, RShape.size], ho⟩

theorem reset_reward_discount_valid (cfg : Cfg) (A : Nat) (s : State) (hl : s.agents.length = A) :
    (rewardSpecN A).valid (vecArr (resetTs cfg s).reward) = true ∧
    (discountSpecN A).valid (vecArr (resetTs cfg s).discount) = true := by
  unfold resetTs; rw [hl]; exact restart_reward_discount_valid A _

/-- `action_spec.generate_value()` = the all-no-op joint action: well-formed spec, member, and `step` answers it from every
state with the invariant (counter below the limit) with a non-FIRST timestep whose observation, reward and discount are
members of their specs -/
theorem accepts_generate_value (cfg : Cfg) (A F L : Nat) (hA : 0 < A) (s : State) (h : SpecInv cfg A F L s)
    (hlim : s.stepCount < cfg.timeLimit) :
    (actionSpec A).WF = true ∧ (actionSpec A).valid (actionSpec A).generate = true ∧
    (actionSpec A).generate = actionArr ((List.replicate A 0).map Int.ofNat) ∧
    (obsSpec cfg A F L).valid (toNValue (step cfg s ((List.replicate A 0).map Int.ofNat)).2.obs) = true ∧
    (rewardSpecN A).valid (vecArr (step cfg s ((List.replicate A 0).map Int.ofNat)).2.reward) = true ∧
    (discountSpecN A).valid (vecArr (step cfg s ((List.replicate A 0).map Int.ofNat)).2.discount) = true ∧
    (step cfg s ((List.replicate A 0).map Int.ofNat)).2.stepType ≠ .first := by
  obtain ⟨w, v, g⟩ := actionSpecN_accepts_generate A 6 (by omega) (by omega)
  have rd := step_reward_discount_valid cfg A s h.2.1 ((List.replicate A 0).map Int.ofNat)
  refine ⟨w, v, by show (actionSpecN A 6).generate = _; rw [g]; simp, step_obs_valid cfg A F L hA s h hlim _ (by simp) (by intro a ha; simp at ha; omega),
    rd.1, rd.2, ?_⟩
  simp only [step, switch3]
  repeat' split
  all_goals simp [termination, truncation, transition]

end LBF
