/-
C01 for LevelBasedForaging: value bounds of every leaf of the observation (`agents_view`, `action_mask`,
`step_count`) as functions of the configuration, and the proof that the observation of every state satisfying the
invariant `BInv` lies within them.  The environment's `Cfg` does not carry `num_agents` / `max_agent_level`
(the generator's parameters); they are extra arguments `A L`.

`BInv cfg A L s` = `Consistent cfg.gridSize s ∧ WF s` (agents / foods inside the grid, agents on distinct cells,
levels ≥ 1, ids = indices) ∧ agent levels ≤ `L`, food levels ≤ `A * L` ∧ foods on pairwise distinct cells.
-/
import JumanjiModel.Env.LBF.Lemmas
namespace LBF
open Jm

/-- interval membership; `none` = unbounded on that side -/
def inIv (lo hi : Option Rat) (v : Rat) : Prop := (∀ l, lo = some l → l ≤ v) ∧ (∀ h, hi = some h → v ≤ h)

/-- all entries of `agents_view` -/
def viewInts : View → List Int
  | .vec v => v.flatten
  | .grid g => g.flatten.flatten.flatten

/-- the numeric leaves of an observation: dotted path of the leaf in the real observation_spec ↦ all its entries
(bool: 0/1) -/
def obsLeaves (o : Obs) : List (String × List Rat) :=
  [("agents_view", (viewInts o.view).map (fun (i : Int) => (i : Rat))),
   ("action_mask", o.mask.flatten.map (fun b => if b then 1 else 0)),
   ("step_count", [(o.stepCount : Rat)])]

/-- every entry of every leaf listed in `bs` lies within the interval `bs` gives for it -/
def ObsInBounds (bs : List (String × Option Rat × Option Rat)) (o : Obs) : Prop :=
  ∀ p ∈ obsLeaves o, ∀ b ∈ bs, b.1 = p.1 → ∀ v ∈ p.2, inIv b.2.1 b.2.2 v

/-- lower bound of `agents_view`: the vector observer reports invisible entities as `(-1, -1, 0)`, the grid
observer's layers (agent levels, food levels, 0/1 access flag) are non-negative -/
def viewLo (cfg : Cfg) : Int := if cfg.gridObs then 0 else -1

/-- upper bound of `agents_view` (`A` = number of agents, `L` = maximal agent level, so `A * L` = the
`max_food_level` of `observation_spec`).  Grid observer: a cell shows the level of the unique agent on it
(`≤ L`), the level of the unique uneaten food on it (`≤ A * L`) or the access flag (`≤ 1 ≤ L`).  Vector observer:
levels as before; the coordinates of a visible entity are relative to the window clipped to the grid, hence
`≤ min (2 fov) (gridSize - 1)`. -/
def viewHi (cfg : Cfg) (A L : Nat) : Int :=
  if cfg.gridObs then max ((A * L : Nat) : Int) (L : Int)
  else max ((A * L : Nat) : Int) (max (L : Int) (min (2 * (cfg.fov : Int)) ((cfg.gridSize : Int) - 1)))

def obsBounds (cfg : Cfg) (numAgents maxAgentLevel : Nat) : List (String × Option Rat × Option Rat) :=
  [("agents_view", some ((viewLo cfg : Int) : Rat), some ((viewHi cfg numAgents maxAgentLevel : Int) : Rat)),
   ("action_mask", some 0, some 1),
   ("step_count", some 0, some (cfg.timeLimit : Rat))]

/-! ### the invariant -/

def LevelsBounded (A L : Nat) (s : State) : Prop :=
  (∀ a ∈ s.agents, a.level ≤ (L : Int)) ∧ (∀ f ∈ s.foods, f.level ≤ ((A * L : Nat) : Int))
instance (A L : Nat) (s : State) : Decidable (LevelsBounded A L s) := by unfold LevelsBounded; infer_instance

def FoodsDistinct (s : State) : Prop := s.foods.Pairwise (fun a b => a.pos ≠ b.pos)
instance (s : State) : Decidable (FoodsDistinct s) := by unfold FoodsDistinct; infer_instance

def BInv (cfg : Cfg) (A L : Nat) (s : State) : Prop :=
  Consistent cfg.gridSize s ∧ WF s ∧ LevelsBounded A L s ∧ FoodsDistinct s
instance (cfg : Cfg) (A L : Nat) (s : State) : Decidable (BInv cfg A L s) := by unfold BInv; infer_instance

theorem updateAgents_levels (g : Nat) (agents : List Agent) (foods : List Food) (actions : List Int)
    (P : Int → Prop) (h : ∀ a ∈ agents, P a.level) : ∀ a ∈ updateAgents g agents foods actions, P a.level := by
  intro a ha
  unfold updateAgents at ha
  simp only [] at ha
  obtain ⟨i, hi, rfl⟩ := List.getElem_of_mem ha
  simp only [List.getElem_zipWith]
  exact h _ (List.getElem_mem _)

theorem step_foods_pos_level (cfg : Cfg) (s : State) (a : List Int) :
    ∀ f' ∈ (step cfg s a).1.foods, ∃ f ∈ s.foods, f'.pos = f.pos ∧ f'.level = f.level := by
  rw [step_foods]
  intro f' hf'
  simp only [List.mem_map] at hf'
  obtain ⟨f, hf, rfl⟩ := hf'
  exact ⟨f, hf, rfl, rfl⟩

/-- levels and food positions never change, so `step` keeps the invariant for every in-spec joint action -/
theorem step_binv (cfg : Cfg) (A L : Nat) (s : State) (h : BInv cfg A L s) (as : List Nat)
    (hlen : as.length = s.agents.length) (has : ∀ a ∈ as, a < 6) :
    BInv cfg A L (step cfg s (as.map Int.ofNat)).1 := by
  obtain ⟨hc, hw, ⟨hla, hlf⟩, hd⟩ := h
  obtain ⟨hc', hw'⟩ := step_consistent cfg s hc hw as hlen has
  refine ⟨hc', hw', ⟨?_, ?_⟩, ?_⟩
  · exact updateAgents_levels cfg.gridSize s.agents s.foods (as.map Int.ofNat) (fun l => l ≤ (L : Int)) hla
  · intro f' hf'
    obtain ⟨f, hf, _, hl⟩ := step_foods_pos_level cfg s _ f' hf'
    rw [hl]; exact hlf f hf
  · unfold FoodsDistinct
    rw [step_foods, List.pairwise_map]
    exact hd

/-- the invariant holds along whole episodes -/
theorem binv_along (cfg : Cfg) (A L : Nat) : ∀ (as : List (List Nat)) (s : State), BInv cfg A L s →
    (∀ a ∈ as, a.length = s.agents.length ∧ ∀ x ∈ a, x < 6) →
    BInv cfg A L (finalState cfg s (as.map (fun a => a.map Int.ofNat))) := by
  intro as
  induction as with
  | nil => intro s h _; exact h
  | cons a as ih =>
    intro s h hs
    obtain ⟨hl, hx⟩ := hs a (List.mem_cons_self)
    simp only [List.map_cons, finalState]
    apply ih _ (step_binv cfg A L s h a hl hx)
    intro b hb
    rw [step_agents_length cfg s _ (by simp [hl])]
    exact hs b (List.mem_cons_of_mem _ hb)

/-! ### vector observer -/

theorem getWC_mem_or {α} (xs : List α) (d : α) (i : Int) : Jx.getWC xs d i ∈ xs ∨ Jx.getWC xs d i = d := by
  unfold Jx.getWC
  rw [List.getD_eq_getElem?_getD]
  cases h : xs[Jx.clampIdx xs.length i]? with
  | none => right; rfl
  | some v => left; exact List.mem_of_getElem? h

theorem triple_bounds (fov g : Nat) (me p : Pos) (l H : Int) (c : Bool)
    (hc : c = true → (me.1 - p.1).natAbs ≤ fov ∧ (me.2 - p.2).natAbs ≤ fov)
    (hme : inGrid g me) (hp : inGrid g p) (hl0 : 0 ≤ l) (hl : l ≤ H) (h0 : 0 ≤ H)
    (hH : min (2 * (fov : Int)) ((g : Int) - 1) ≤ H) :
    ∀ v ∈ [if c then p.1 - me.1 + min (fov : Int) me.1 else -1, if c then p.2 - me.2 + min (fov : Int) me.2 else -1,
            if c then l else 0], -1 ≤ v ∧ v ≤ H := by
  obtain ⟨a1, a2, a3, a4⟩ := hme
  obtain ⟨b1, b2, b3, b4⟩ := hp
  intro v hv
  simp only [List.mem_cons, List.not_mem_nil, or_false] at hv
  cases c with
  | false =>
    simp only [Bool.false_eq_true, if_false] at hv
    omega
  | true =>
    obtain ⟨c1, c2⟩ := hc rfl
    simp only [if_true] at hv
    omega

theorem vectorView_bounds (g fov : Nat) (A L : Nat) (s : State) (hc : Consistent g s) (hw : WF s)
    (hl : LevelsBounded A L s) (ag : Agent) (hag : ag ∈ s.agents) :
    ∀ v ∈ vectorView fov s ag, -1 ≤ v ∧
      v ≤ max ((A * L : Nat) : Int) (max (L : Int) (min (2 * (fov : Int)) ((g : Int) - 1))) := by
  have hme := hc.1 ag hag
  have hfoodT : ∀ f ∈ s.foods, ∀ v ∈
      [if (decide ((ag.pos.1 - f.pos.1).natAbs ≤ fov) && decide ((ag.pos.2 - f.pos.2).natAbs ≤ fov) && !f.eaten) then f.pos.1 - ag.pos.1 + min (fov : Int) ag.pos.1 else -1,
       if (decide ((ag.pos.1 - f.pos.1).natAbs ≤ fov) && decide ((ag.pos.2 - f.pos.2).natAbs ≤ fov) && !f.eaten) then f.pos.2 - ag.pos.2 + min (fov : Int) ag.pos.2 else -1,
       if (decide ((ag.pos.1 - f.pos.1).natAbs ≤ fov) && decide ((ag.pos.2 - f.pos.2).natAbs ≤ fov) && !f.eaten) then f.level else 0],
      -1 ≤ v ∧ v ≤ max ((A * L : Nat) : Int) (max (L : Int) (min (2 * (fov : Int)) ((g : Int) - 1))) := by
    intro f hf
    have h1 := hw.2.2 f hf
    have h2 := hl.2 f hf
    apply triple_bounds fov g ag.pos f.pos f.level _ _ _ hme (hc.2.1 f hf) <;> first | omega | skip
    intro h; simp at h; exact ⟨h.1.1, h.1.2⟩
  have hagentT : ∀ o ∈ s.agents, ∀ v ∈
      [if (decide ((ag.pos.1 - o.pos.1).natAbs ≤ fov) && decide ((ag.pos.2 - o.pos.2).natAbs ≤ fov)) then o.pos.1 - ag.pos.1 + min (fov : Int) ag.pos.1 else -1,
       if (decide ((ag.pos.1 - o.pos.1).natAbs ≤ fov) && decide ((ag.pos.2 - o.pos.2).natAbs ≤ fov)) then o.pos.2 - ag.pos.2 + min (fov : Int) ag.pos.2 else -1,
       if (decide ((ag.pos.1 - o.pos.1).natAbs ≤ fov) && decide ((ag.pos.2 - o.pos.2).natAbs ≤ fov)) then o.level else 0],
      -1 ≤ v ∧ v ≤ max ((A * L : Nat) : Int) (max (L : Int) (min (2 * (fov : Int)) ((g : Int) - 1))) := by
    intro o ho
    have h1 := hw.2.1 o ho
    have h2 := hl.1 o ho
    apply triple_bounds fov g ag.pos o.pos o.level _ _ _ hme (hc.1 o ho) <;> first | omega | skip
    intro h; simp at h; exact h
  have hdef : ∀ v ∈ ([-1, -1, 0] : List Int),
      -1 ≤ v ∧ v ≤ max ((A * L : Nat) : Int) (max (L : Int) (min (2 * (fov : Int)) ((g : Int) - 1))) := by
    intro v hv
    simp only [List.mem_cons, List.not_mem_nil, or_false] at hv
    omega
  have hpick : ∀ (i : Int), ∀ v ∈ Jx.getWC (s.agents.map (fun o =>
      [if (decide ((ag.pos.1 - o.pos.1).natAbs ≤ fov) && decide ((ag.pos.2 - o.pos.2).natAbs ≤ fov)) then o.pos.1 - ag.pos.1 + min (fov : Int) ag.pos.1 else -1,
       if (decide ((ag.pos.1 - o.pos.1).natAbs ≤ fov) && decide ((ag.pos.2 - o.pos.2).natAbs ≤ fov)) then o.pos.2 - ag.pos.2 + min (fov : Int) ag.pos.2 else -1,
       if (decide ((ag.pos.1 - o.pos.1).natAbs ≤ fov) && decide ((ag.pos.2 - o.pos.2).natAbs ≤ fov)) then o.level else 0]))
      [-1, -1, 0] i,
      -1 ≤ v ∧ v ≤ max ((A * L : Nat) : Int) (max (L : Int) (min (2 * (fov : Int)) ((g : Int) - 1))) := by
    intro i v hv
    rcases getWC_mem_or _ _ i with hm | he
    · obtain ⟨o, ho, heq⟩ := List.mem_map.1 hm
      rw [← heq] at hv
      exact hagentT o ho v hv
    · rw [he] at hv; exact hdef v hv
  intro v hv
  unfold vectorView at hv
  simp only [List.mem_append, List.mem_flatten, List.mem_map] at hv
  rcases hv with (⟨t, ⟨f, hf, rfl⟩, hv⟩ | ⟨t, ⟨i, _, rfl⟩, hv⟩) | ⟨t, ⟨i, _, rfl⟩, hv⟩
  · exact hfoodT f hf v hv
  · exact hpick _ v hv
  · exact hpick _ v hv

/-! ### grid observer -/

theorem sum_all_false {α} (P : α → Bool) (v : α → Int) : ∀ (l : List α), (∀ x ∈ l, P x = false) →
    (l.map (fun x => if P x then v x else 0)).sum = 0 := by
  intro l
  induction l with
  | nil => intro _; rfl
  | cons x xs ih =>
    intro h
    simp only [List.map_cons, List.sum_cons, h x (List.mem_cons_self), Bool.false_eq_true, if_false]
    rw [ih (fun y hy => h y (List.mem_cons_of_mem _ hy))]; rfl

/-- a sum in which at most one entry is selected is bounded like its entries -/
theorem sum_one_hot {α} (P : α → Bool) (v : α → Int) (M : Int) (hM : 0 ≤ M) : ∀ (l : List α),
    (∀ x ∈ l, 0 ≤ v x ∧ v x ≤ M) → l.Pairwise (fun a b => ¬ (P a = true ∧ P b = true)) →
    0 ≤ (l.map (fun x => if P x then v x else 0)).sum ∧ (l.map (fun x => if P x then v x else 0)).sum ≤ M := by
  intro l
  induction l with
  | nil => intro _ _; exact ⟨Int.le_refl 0, hM⟩
  | cons x xs ih =>
    intro hb hp
    rw [List.pairwise_cons] at hp
    simp only [List.map_cons, List.sum_cons]
    cases hx : P x with
    | true =>
      have : ∀ y ∈ xs, P y = false := by
        intro y hy
        cases hy' : P y with
        | false => rfl
        | true => exact absurd ⟨hx, hy'⟩ (hp.1 y hy)
      rw [sum_all_false P v xs this]
      have := hb x (List.mem_cons_self)
      simp only [if_true]; omega
    | false =>
      have := ih (fun y hy => hb y (List.mem_cons_of_mem _ hy)) hp.2
      simp only [Bool.false_eq_true, if_false]; omega

theorem agentLevelAt_bounds (g : Nat) (A L : Nat) (s : State) (hc : Consistent g s) (hw : WF s)
    (hl : LevelsBounded A L s) (p : Pos) : 0 ≤ agentLevelAt s p ∧ agentLevelAt s p ≤ (L : Int) := by
  unfold agentLevelAt
  rw [← sum_map_ite_filter]
  apply sum_one_hot _ _ _ (by omega)
  · intro a ha
    have h1 := hw.2.1 a ha
    have h2 := hl.1 a ha
    omega
  · apply List.Pairwise.imp _ hc.2.2.1
    intro a b hab h
    simp only [decide_eq_true_eq] at h
    exact hab (h.1.trans h.2.symm)

theorem foodLevelAt_bounds (A L : Nat) (s : State) (hw : WF s)
    (hl : LevelsBounded A L s) (hd : FoodsDistinct s) (p : Pos) :
    0 ≤ foodLevelAt s p ∧ foodLevelAt s p ≤ ((A * L : Nat) : Int) := by
  unfold foodLevelAt
  rw [← sum_map_ite_filter]
  apply sum_one_hot _ _ _ (by omega)
  · intro f hf
    have h1 := hw.2.2 f hf
    have h2 := hl.2 f hf
    omega
  · apply List.Pairwise.imp _ hd
    intro a b hab h
    simp only [Bool.and_eq_true, decide_eq_true_eq] at h
    exact hab (h.1.1.trans h.2.1.symm)

theorem scatterSum_out (n fov : Nat) (ents : List (Pos × Int)) (r c : Nat) (h : ¬ (r < n ∧ c < n)) :
    scatterSum n fov ents r c = 0 := by
  unfold scatterSum
  apply sum_all_false (fun e : Pos × Int => hits n (e.1.1 + fov) r && hits n (e.1.2 + fov) c) (fun e => e.2)
  intro e _
  unfold hits
  by_cases hr : r < n
  · have hc : ¬ c < n := fun hc => h ⟨hr, hc⟩
    simp [hc]
  · simp [hr]

theorem agentGrid_bounds (g fov : Nat) (A L : Nat) (s : State) (hc : Consistent g s) (hw : WF s)
    (hl : LevelsBounded A L s) (r c : Nat) :
    0 ≤ scatterSum (g + 2 * fov) fov (s.agents.map (fun a => (a.pos, a.level))) r c ∧
      scatterSum (g + 2 * fov) fov (s.agents.map (fun a => (a.pos, a.level))) r c ≤ (L : Int) := by
  by_cases h : r < g + 2 * fov ∧ c < g + 2 * fov
  · rw [agentGrid_eq g fov s hc.1 r c h.1 h.2]
    exact agentLevelAt_bounds g A L s hc hw hl _
  · rw [scatterSum_out _ _ _ _ _ h]; omega

theorem foodGrid_bounds (g fov : Nat) (A L : Nat) (s : State) (hc : Consistent g s) (hw : WF s)
    (hl : LevelsBounded A L s) (hd : FoodsDistinct s) (r c : Nat) :
    0 ≤ scatterSum (g + 2 * fov) fov (s.foods.map (fun f => (f.pos, f.level * (if f.eaten then 0 else 1)))) r c ∧
      scatterSum (g + 2 * fov) fov (s.foods.map (fun f => (f.pos, f.level * (if f.eaten then 0 else 1)))) r c
        ≤ ((A * L : Nat) : Int) := by
  by_cases h : r < g + 2 * fov ∧ c < g + 2 * fov
  · rw [foodGrid_eq g fov s hc.2.1 r c h.1 h.2]
    exact foodLevelAt_bounds A L s hw hl hd _
  · rw [scatterSum_out _ _ _ _ _ h]; omega

theorem win_mem (w r0 c0 : Nat) (f : Nat → Nat → Int) (v : Int) (l : List Int)
    (hl : l ∈ (List.range w).map (fun dr => (List.range w).map (fun dc => f (r0 + dr) (c0 + dc))))
    (hv : v ∈ l) : ∃ r c, v = f r c := by
  obtain ⟨dr, _, rfl⟩ := List.mem_map.1 hl
  obtain ⟨dc, _, rfl⟩ := List.mem_map.1 hv
  exact ⟨_, _, rfl⟩

theorem gridView_bounds (g fov : Nat) (A L : Nat) (s : State) (hc : Consistent g s) (hw : WF s)
    (hl : LevelsBounded A L s) (hd : FoodsDistinct s) :
    ∀ v ∈ (gridView g fov s).flatten.flatten.flatten, 0 ≤ v ∧ v ≤ max ((A * L : Nat) : Int) (L : Int) := by
  intro v hv
  unfold gridView at hv
  simp only [List.mem_flatten] at hv
  obtain ⟨row, ⟨layer, ⟨view, hview, hlayer⟩, hrow⟩, hv⟩ := hv
  obtain ⟨a, ha, rfl⟩ := List.mem_map.1 hview
  have hL : 1 ≤ (L : Int) := by
    have h1 := hw.2.1 a ha
    have h2 := hl.1 a ha
    omega
  simp only [List.mem_cons, List.not_mem_nil, or_false] at hlayer
  rcases hlayer with rfl | rfl | rfl
  · obtain ⟨r, c, rfl⟩ := win_mem _ _ _ _ v row hrow hv
    have := agentGrid_bounds g fov A L s hc hw hl r c
    omega
  · obtain ⟨r, c, rfl⟩ := win_mem _ _ _ _ v row hrow hv
    have := foodGrid_bounds g fov A L s hc hw hl hd r c
    omega
  · obtain ⟨dr, _, rfl⟩ := List.mem_map.1 hrow
    obtain ⟨dc, _, rfl⟩ := List.mem_map.1 hv
    repeat' split
    all_goals omega

/-! ### the observation -/

theorem view_bounds (cfg : Cfg) (A L : Nat) (s : State) (h : BInv cfg A L s) :
    ∀ v ∈ viewInts (observe cfg s).view, viewLo cfg ≤ v ∧ v ≤ viewHi cfg A L := by
  obtain ⟨hc, hw, hl, hd⟩ := h
  intro v hv
  unfold observe at hv
  unfold viewLo viewHi
  cases hg : cfg.gridObs with
  | true =>
    simp only [hg, if_true, viewInts] at hv ⊢
    exact gridView_bounds cfg.gridSize cfg.fov A L s hc hw hl hd v hv
  | false =>
    simp only [hg, Bool.false_eq_true, if_false, viewInts, List.mem_flatten, List.mem_map] at hv ⊢
    obtain ⟨t, ⟨ag, hag, rfl⟩, hv⟩ := hv
    exact vectorView_bounds cfg.gridSize cfg.fov A L s hc hw hl ag hag v hv

theorem inIv_some (lo hi v : Rat) (h1 : lo ≤ v) (h2 : v ≤ hi) : inIv (some lo) (some hi) v := by
  refine ⟨fun l hl => ?_, fun u hu => ?_⟩
  · rw [Option.some.injEq] at hl; subst hl; exact h1
  · rw [Option.some.injEq] at hu; subst hu; exact h2

/-- the observation of any state satisfying the invariant whose step count is within `[0, timeLimit]` lies
within `obsBounds` -/
theorem observe_in_bounds (cfg : Cfg) (A L : Nat) (s : State) (h : BInv cfg A L s)
    (h0 : 0 ≤ s.stepCount) (h1 : s.stepCount ≤ cfg.timeLimit) :
    ObsInBounds (obsBounds cfg A L) (observe cfg s) := by
  intro p hp b hb hname v hv
  simp only [obsLeaves, List.mem_cons, List.not_mem_nil, or_false] at hp
  simp only [obsBounds, List.mem_cons, List.not_mem_nil, or_false] at hb
  rcases hp with rfl | rfl | rfl <;> rcases hb with rfl | rfl | rfl <;>
    first
    | (exfalso; simp at hname; done)
    | skip
  · -- agents_view
    obtain ⟨i, hi, rfl⟩ := List.mem_map.1 hv
    obtain ⟨hlo, hhi⟩ := view_bounds cfg A L s h i hi
    exact inIv_some _ _ _ (Rat.intCast_le_intCast.2 hlo) (Rat.intCast_le_intCast.2 hhi)
  · -- action_mask
    obtain ⟨bb, _, rfl⟩ := List.mem_map.1 hv
    apply inIv_some
    · cases bb <;> decide
    · cases bb <;> decide
  · -- step_count
    have hv' : v = ((observe cfg s).stepCount : Rat) := by simpa using hv
    subst hv'
    apply inIv_some
    · have : ((0 : Int) : Rat) ≤ ((observe cfg s).stepCount : Rat) := Rat.intCast_le_intCast.2 h0
      simpa using this
    · exact Rat.intCast_le_intCast.2 h1

/-- the reset timestep of a state (the model has no generator: any state satisfying the invariant with step
count 0 stands for a generated one) -/
def resetTs (cfg : Cfg) (s : State) : TimeStep Obs := restart (observe cfg s) (some s.agents.length)

theorem reset_obs_in_bounds (cfg : Cfg) (A L : Nat) (s : State) (h : BInv cfg A L s)
    (h0 : s.stepCount = 0) (ht : 0 ≤ cfg.timeLimit) :
    ObsInBounds (obsBounds cfg A L) (resetTs cfg s).obs := by
  unfold resetTs restart
  exact observe_in_bounds cfg A L s h (by omega) (by omega)

theorem step_obs_in_bounds (cfg : Cfg) (A L : Nat) (s : State) (h : BInv cfg A L s) (as : List Nat)
    (hlen : as.length = s.agents.length) (has : ∀ a ∈ as, a < 6)
    (h0 : 0 ≤ s.stepCount) (h1 : s.stepCount < cfg.timeLimit) :
    ObsInBounds (obsBounds cfg A L) (step cfg s (as.map Int.ofNat)).2.obs := by
  rw [obs_faithful]
  apply observe_in_bounds cfg A L _ (step_binv cfg A L s h as hlen has)
  · rw [step_count]; omega
  · rw [step_count]; omega

/-- non-vacuity: every leaf of the observation has an interval in `obsBounds` -/
theorem obs_bounds_cover (cfg : Cfg) (A L : Nat) (o : Obs) :
    ∀ p ∈ obsLeaves o, ∃ b ∈ obsBounds cfg A L, b.1 = p.1 := by
  intro p hp
  simp only [obsLeaves, List.mem_cons, List.not_mem_nil, or_false] at hp
  rcases hp with rfl | rfl | rfl
  · exact ⟨_, List.mem_cons_self, rfl⟩
  · exact ⟨_, List.mem_cons_of_mem _ List.mem_cons_self, rfl⟩
  · exact ⟨_, List.mem_cons_of_mem _ (List.mem_cons_of_mem _ List.mem_cons_self), rfl⟩

end LBF
