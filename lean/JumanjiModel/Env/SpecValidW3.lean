/-
C01 (wave 3: Game2048, Minesweeper, GraphColoring): small additions to the vocabulary of Env/PuzzleSpecValid.lean
(`Sp.Leaf.valid` = the transliteration of `validate`).

* `gridShape`: the shape of a nested-list 2-D value, read off the value (outer length, length of the first row);
  `gridShape_of_rows`: for `R` rows all of length `C` it is `[R, C]` and the flattened value has `R * C` elements
  (for `R = 0` the value carries no column count: then `C = 0` is required);
* `valid_scalar_int`: a scalar `BoundedArray((), int, lo, hi)` accepts the integer `v` iff `lo ≤ v ≤ hi`;
* `condLast_reward_discount_valid`: the timestep built by `lax.cond(done, termination, transition, reward, obs)` has a reward
  accepted by `reward_spec` (Array((), float)) and a discount accepted by `discount_spec` (BoundedArray((), float, 0, 1)).
-/
import JumanjiModel.Env.PuzzleSpecValid
namespace PzS3
open Sp PzS Jm

/-- the shape of a nested-list 2-D value, read off the value -/
def gridShape {α : Type} (g : List (List α)) : List Nat := [g.length, (g.headD []).length]

theorem gridShape_of_rows {α : Type} (g : List (List α)) (R C : Nat) (hl : g.length = R)
    (hrows : ∀ row ∈ g, row.length = C) (h0 : R = 0 → C = 0) :
    gridShape g = [R, C] ∧ g.flatten.length = R * C := by
  refine ⟨?_, by rw [length_flatten_const g C hrows, hl]⟩
  match g, hl, hrows with
  | [], hl, _ =>
    simp at hl; subst hl
    simp [gridShape, h0 rfl]
  | row :: rest, hl, hrows =>
    have := hrows row (by simp)
    simp [gridShape, this, ← hl]

/-- conversely: a value whose `gridShape` is `[R, C]` has `R` rows -/
theorem gridShape_length {α : Type} (g : List (List α)) (R C : Nat) (h : gridShape g = [R, C]) : g.length = R := by
  simp only [gridShape, List.cons.injEq, and_true] at h
  exact h.1

theorem valid_scalar_int (d : DType) (nm : String) (lo hi v : Int) (h : lo ≤ v ∧ v ≤ hi) :
    (Leaf.bounded [] d nm [] [(lo : Rat)] [] [(hi : Rat)]).valid ⟨[], d, [(v : Rat)]⟩ = true := by
  refine valid_scalar_bounded _ _ _ _ _ _ (by simp [prod]) ?_
  intro x hx
  simp only [List.mem_cons, List.not_mem_nil, or_false] at hx
  subst hx
  exact ⟨Rat.intCast_le_intCast.mpr h.1, Rat.intCast_le_intCast.mpr h.2⟩

theorem valid_scalar_int_iff (d : DType) (nm : String) (lo hi v : Int) :
    (Leaf.bounded [] d nm [] [(lo : Rat)] [] [(hi : Rat)]).valid ⟨[], d, [(v : Rat)]⟩ = true ↔ lo ≤ v ∧ v ≤ hi := by
  constructor
  · intro h
    rw [valid_scalar_bounded_iff] at h
    have := h.2.2.2 (v : Rat) (by simp)
    exact ⟨Rat.intCast_le_intCast.mp this.1, Rat.intCast_le_intCast.mp this.2⟩
  · exact valid_scalar_int d nm lo hi v

/-- a Boolean array of the declared shape is accepted by `BoundedArray(shape, bool, False, True)` -/
theorem valid_bools (s : List Nat) (nm : String) (l : List Bool) (hlen : l.length = prod s) :
    (Leaf.bounded s .bool nm [] [0] [] [1]).valid ⟨s, .bool, ofBools l⟩ = true :=
  valid_scalar_bounded _ _ _ _ _ _ (by simp [ofBools, hlen]) (ofBools_bounds _)

theorem condLast_reward_discount_valid {O : Type} (done : Bool) (x : Rat) (o : O) :
    rewardSpec.valid (scalarArr (condLast done [x] o).reward) = true ∧
    discountSpec.valid (scalarArr (condLast done [x] o).discount) = true := by
  refine ⟨?_, ?_⟩
  · have : (condLast done [x] o).reward = [x] := by cases done <;> rfl
    rw [this]
    exact valid_array _ _ _ _ (by simp [prod])
  · cases done
    · show discountSpec.valid (scalarArr (onesR none)) = true; decide
    · show discountSpec.valid (scalarArr (zerosR none)) = true; decide

theorem restart_reward_discount_valid {O : Type} (o : O) :
    rewardSpec.valid (scalarArr (restart o).reward) = true ∧
    discountSpec.valid (scalarArr (restart o).discount) = true :=
  ⟨by show rewardSpec.valid (scalarArr (zerosR none)) = true; decide,
   by show discountSpec.valid (scalarArr (onesR none)) = true; decide⟩

/-- the protocol predicate for the same combinator (scalar reward), for any `done`, reward and observation -/
theorem condLast_stepOK {O : Type} (done : Bool) (x : Rat) (o : O) : StepOK none false (condLast done [x] o) = true := by
  cases done <;> simp [condLast, termination, transition, StepOK, zerosR, onesR, RShape.size, allIn01, allZero] <;> decide

end PzS3
