/-
Game2048 — wave 3 (statement audit of Props/Env/Game2048.lean + C01 spec membership).

* the declared specs as `Sp` values (`obsSpec n`, `actionSpec`), the model observation as spec-level arrays (`toNValue`) and
  membership of everything `reset` / `step` emit (C01);
* `stepL2`: the rules of one move written directly (slide, spawn only after a legal move, reward = values of the merged tiles,
  the episode ends when no move is legal on the new board) and the refinement `step = stepL2` for ALL state fields, the
  timestep included (C09);
* the environment's own reaction to an action, stated about `step` (C04): a tile appears / the board changes iff the move is
  legal;
* `Consistent` and the tile-sum book-keeping along EVERY admissible play from `reset` (C07).
-/
import JumanjiModel.Env.Game2048.EpisodeLemmas
import JumanjiModel.Env.Game2048.ResetLemmas
import JumanjiModel.Env.SpecValidW3
namespace Game2048
open Jm Sp PzS PzS3

/-! ### the declared specs (env.py `observation_spec`, `action_spec`) -/

/-- `observation_spec`: `board` Array((n, n), int32) — NO bounds declared —, `action_mask` BoundedArray((4,), bool, False, True) -/
def obsSpec (n : Nat) : Sp.Nested :=
  [("board", .array [n, n] .int32 "board"),
   ("action_mask", .bounded [4] .bool "action_mask" [] [0] [] [1])]

/-- `action_spec`: DiscreteArray(4) -/
def actionSpec : Leaf := .discrete 4 .int32 "action"

def ofNats (l : List Nat) : List Rat := l.map (fun (e : Nat) => ((e : Int) : Rat))

/-- a model observation as the arrays the implementation emits (board int32, action_mask bool) -/
def toNValue (o : Obs) : NValue :=
  [("board", ⟨gridShape o.board, .int32, ofNats o.board.flatten⟩),
   ("action_mask", ⟨[o.actionMask.length], .bool, ofBools o.actionMask⟩)]

def actionArr (a : Int) : Arr := ⟨[], .int32, [(a : Rat)]⟩

/-- C01: an observation with an `n × n` board and a 4-entry mask is a member of `observation_spec` -/
theorem obs_valid (n : Nat) (o : Obs) (hs : Shaped o.board n) (hm : o.actionMask.length = 4) :
    (obsSpec n).valid (toNValue o) = true := by
  obtain ⟨hsh, hlen⟩ := gridShape_of_rows o.board n n hs.1 hs.2 (fun h => h)
  have h1 : (Leaf.array [n, n] .int32 "board").valid ⟨gridShape o.board, .int32, ofNats o.board.flatten⟩ = true := by
    rw [hsh]
    exact valid_array _ _ _ _ (by rw [ofNats, List.length_map, hlen, prod_two])
  have h2 : (Leaf.bounded [4] .bool "action_mask" [] [0] [] [1]).valid
      ⟨[o.actionMask.length], .bool, ofBools o.actionMask⟩ = true := by
    rw [hm]; exact valid_bools _ _ _ (by simp [hm, prod])
  simp only [Nested.valid, obsSpec, toNValue, List.map, List.zipWith, List.all, h1, h2, id,
    Bool.and_self, beq_self_eq_true]

/-- … and `validate` accepts nothing else -/
theorem obs_valid_only (n : Nat) (o : Obs) (h : (obsSpec n).valid (toNValue o) = true) :
    gridShape o.board = [n, n] ∧ o.board.flatten.length = n * n ∧ o.actionMask.length = 4 := by
  simp only [Nested.valid, obsSpec, toNValue, List.map_cons, List.map_nil, List.zipWith_cons_cons, List.zipWith_nil_right,
    List.all_cons, List.all_nil, id, Bool.and_true, Bool.and_eq_true, beq_self_eq_true, true_and] at h
  obtain ⟨h1, h2⟩ := h
  rw [Leaf.valid_iff] at h1
  rw [valid_scalar_bounded_iff] at h2
  refine ⟨h1.1, ?_, ?_⟩
  · have := h1.2.2.1
    simp only [ofNats, List.length_map, Leaf.shape] at this
    rw [this, prod_two]
  · have := h2.1
    simpa using this

theorem actionMask_length (b : Board) : (actionMask b).length = 4 := by simp [actionMask]

theorem step_obs_eq (s : State) (a : Int) (d : Draw) :
    (step s a d).2.obs = { board := (step s a d).1.board, actionMask := actionMask (step s a d).1.board } := by
  show (condLast _ _ _).obs = _
  rw [condLast_obs]; rfl

/-- C01: the `reset` observation, EVERY board size and EVERY draw (valid or not) -/
theorem reset_obs_valid (n : Nat) (d : Draw) : (obsSpec n).valid (toNValue (reset n d).2.obs) = true :=
  obs_valid n _ (reset_shaped n d) (actionMask_length _)

/-- C01: every `step` observation from an `n × n` board: EVERY action value, EVERY draw, terminal step included -/
theorem step_obs_valid (n : Nat) (s : State) (a : Int) (d : Draw) (hs : Shaped s.board n) :
    (obsSpec n).valid (toNValue (step s a d).2.obs) = true := by
  rw [step_obs_eq]
  exact obs_valid n _ (step_shaped n s a d hs) (actionMask_length _)

theorem step_reward_discount_valid (s : State) (a : Int) (d : Draw) :
    rewardSpec.valid (scalarArr (step s a d).2.reward) = true ∧
    discountSpec.valid (scalarArr (step s a d).2.discount) = true := condLast_reward_discount_valid _ _ _

theorem reset_reward_discount_valid (n : Nat) (d : Draw) :
    rewardSpec.valid (scalarArr (reset n d).2.reward) = true ∧
    discountSpec.valid (scalarArr (reset n d).2.discount) = true := restart_reward_discount_valid _

theorem step_protocol (s : State) (a : Int) (d : Draw) : StepOK none false (step s a d).2 = true := condLast_stepOK _ _ _

/-- `action_spec.generate_value()` = 0 = Up: the spec is well-formed, the value is a member, and `step` answers it with a
protocol-conform timestep whose observation is in `observation_spec` -/
theorem accepts_generate_value (n : Nat) (s : State) (d : Draw) (hs : Shaped s.board n) :
    actionSpec.WF = true ∧ actionSpec.valid actionSpec.generate = true ∧ actionSpec.generate = actionArr 0 ∧
    StepOK none false (step s 0 d).2 = true ∧ (obsSpec n).valid (toNValue (step s 0 d).2.obs) = true :=
  ⟨by decide, by decide, by decide, step_protocol s 0 d, step_obs_valid n s 0 d hs⟩

/-- membership in `action_spec` = being one of the four moves -/
theorem actionSpec_valid_iff (a : Int) : actionSpec.valid (actionArr a) = true ↔ 0 ≤ a ∧ a < 4 := by
  rw [Leaf.valid_iff]
  simp only [actionSpec, Leaf.shape, Leaf.dtype, Leaf.lower, Leaf.upper, actionArr, prod]
  constructor
  · rintro ⟨_, _, _, h⟩
    rcases h with ⟨h, _⟩ | ⟨lo, hi, hl, hu, hall⟩
    · cases h
    · simp only [Option.some.injEq] at hl hu
      subst hl; subst hu
      have h0 := hall 0 (by simp) (by simp)
      simp only [List.zip_cons_cons, List.getElem_cons_zero] at h0
      have e0 : (0 : Int) ≤ a := by
        have := h0.1
        exact_mod_cast this
      have e1 : a ≤ 3 := by
        have := h0.2
        have h3 : (((4 : Nat) : Int) - 1 : Int) = 3 := by decide
        rw [h3] at this
        exact Rat.intCast_le_intCast.mp this
      omega
  · rintro ⟨h0, h4⟩
    refine ⟨trivial, trivial, by simp, Or.inr ⟨_, _, rfl, rfl, ?_⟩⟩
    intro k h1 h2
    simp only [List.length_cons, List.length_nil] at h1
    have : k = 0 := by omega
    subst this
    simp only [List.zip_cons_cons, List.getElem_cons_zero]
    refine ⟨by exact_mod_cast h0, ?_⟩
    have h3 : (((4 : Nat) : Int) - 1 : Int) = 3 := by decide
    rw [h3]
    exact Rat.intCast_le_intCast.mpr (by omega)

/-! ### C09: the rules of one move, written directly, and the refinement for all fields -/

/-- some move is legal -/
def canPlay (b : Board) : Bool := (legalMask b).any id

theorem canPlay_iff (b : Board) : canPlay b = true ↔ ∃ a, legal b a := by
  unfold canPlay legalMask
  simp only [List.any_map, List.any_eq_true, List.mem_range, Function.comp, id, decide_eq_true_iff]
  constructor
  · rintro ⟨a, _, h⟩; exact ⟨a, h⟩
  · rintro ⟨a, h⟩; exact ⟨a, h.1, h⟩

/-- the rules (docstring of env.py / docs/environments/game_2048.md): the tiles slide towards the chosen wall, equal
neighbours merge once; if that changed the board (the move is legal) a new tile — the draw — is put on the drawn cell,
otherwise nothing happens; the reward is the sum of the values of the tiles created; the action mask is the legality of
the four moves on the new board and the episode ends when none is legal -/
def stepL2 (s : State) (a : Nat) (d : Draw) : State × TimeStep Obs :=
  let dir := Dir.ofAction a
  let r : Rat := (boardReward s.board dir : Rat)
  let b2 := if legal s.board a then addRandomCell (slideBoard s.board dir) d else s.board
  let s' : State := { board := b2, stepCount := s.stepCount + 1, actionMask := legalMask b2, score := s.score + r }
  (s', if canPlay b2 then transition [r] (observe s') else termination [r] (observe s'))

theorem step_eq_stepL2 (s : State) (a : Nat) (d : Draw) (ha : a < 4) (hs : Square s.board)
    (hm : s.actionMask = legalMask s.board) : step s a d = stepL2 s a d := by
  have hm' : s.actionMask = actionMask s.board := by rw [hm, actionMask_eq_legalMask _ hs]
  have hmv := move_eq_spec s.board a ha hs
  by_cases hl : legal s.board a
  · have hsp := (step_agrees s a ha hs hm').2 hl
    have hsq : Square (addRandomCell (slideBoard s.board (Dir.ofAction a)) d) :=
      addRandomCell_square _ d (slideBoard_square _ _)
    have hmk := actionMask_eq_legalMask _ hsq
    unfold step stepL2
    simp only [hsp, if_true, hmv, hl, hmk, canPlay, observe, condLast]
    cases (legalMask (addRandomCell (slideBoard s.board (Dir.ofAction a)) d)).any id <;> rfl
  · have hsp : Jx.getWC s.actionMask false (a : Int) = false := by
      cases hh : Jx.getWC s.actionMask false (a : Int)
      · rfl
      · exact absurd ((step_agrees s a ha hs hm').1 hh) hl
    have hfix : slideBoard s.board (Dir.ofAction a) = s.board := by
      apply Classical.byContradiction; intro hne; exact hl ⟨ha, hne⟩
    have hmk := actionMask_eq_legalMask _ hs
    unfold step stepL2
    simp only [hsp, hmv, hl, hfix, hmk, canPlay, observe, condLast, Bool.false_eq_true, if_false]
    cases (legalMask s.board).any id <;> rfl

theorem stepL2_last_iff (s : State) (a : Nat) (d : Draw) :
    (stepL2 s a d).2.stepType = .last ↔ canPlay (stepL2 s a d).1.board = false := by
  unfold stepL2
  simp only
  generalize (if legal s.board a then addRandomCell (slideBoard s.board (Dir.ofAction a)) d else s.board) = b2
  cases canPlay b2 <;> simp [transition, termination]

/-! ### C04: the environment's own reaction, about `step` -/

/-- from a consistent state, for each of the four moves (valid spawn draw when the move is legal): the rules allow the move
iff `step` changed the board iff the tile sum changed (a tile was spawned) — "the environment treated the move as valid" as
the harness reads it off a transition -/
theorem step_reaction (n : Nat) (s : State) (a : Nat) (d : Draw) (ha : a < 4) (hc : Consistent n s)
    (hd : legal s.board a → validDraw (slideBoard s.board (Dir.ofAction a)) d) :
    (legal s.board a ↔ boardSum (step s a d).1.board ≠ boardSum s.board) ∧
    (legal s.board a ↔ (step s a d).1.board ≠ s.board) := by
  have hsum := step_boardSum n s a d ha hc hd
  have hpos : 0 < 2 ^ d.val := Nat.pow_pos (by omega)
  by_cases hl : legal s.board a
  · rw [if_pos hl] at hsum
    refine ⟨⟨fun _ => by omega, fun _ => hl⟩, ⟨fun _ hb => ?_, fun _ => hl⟩⟩
    rw [hb] at hsum; omega
  · have hb := (illegal_ignored s a d ha (consistent_square hc) (consistent_mask hc) hl).1
    refine ⟨⟨fun h => absurd h hl, fun h => ?_⟩, ⟨fun h => absurd h hl, fun h => absurd hb h⟩⟩
    rw [hb] at h; exact absurd rfl h

/-! ### C07: along every admissible play from `reset` -/

theorem validPlay_take (s : State) (ads : List (Nat × Draw)) (k : Nat) (hv : ValidPlay s ads) :
    ValidPlay s (ads.take k) := by
  induction ads generalizing s k with
  | nil => simpa using hv
  | cons p ads ih =>
    cases k with
    | zero => trivial
    | succ k => exact ⟨hv.1, hv.2.1, ih _ k hv.2.2⟩

/-- EVERY state of EVERY admissible play from `reset` (any size, any valid first tile; the play may run on after LAST):
it is `Consistent`, and the tile sum of its board is the sum of all tiles spawned so far, the first included -/
theorem consistent_along (n : Nat) (d0 : Draw) (ads : List (Nat × Draw)) (hd0 : validDraw (tab n (fun _ _ => 0)) d0)
    (hv : ValidPlay (reset n d0).1 ads) (k : Nat) :
    Consistent n (runState (reset n d0).1 (ads.take k)) ∧
    boardSum (runState (reset n d0).1 (ads.take k)).board = 2 ^ d0.val + spawnSum (reset n d0).1 (ads.take k) := by
  have hv' := validPlay_take _ ads k hv
  exact ⟨run_consistent n _ _ (reset_consistent n d0 hd0) hv', (episode_return n d0 _ hd0 hv').2.2.2⟩

end Game2048
