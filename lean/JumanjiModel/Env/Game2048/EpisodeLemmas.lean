/-
Game2048, whole episodes (C08): along ANY sequence of actions and spawn draws
  final score − initial score = Σ step rewards = Σ values of the tiles created by merges,
  Φ(final board) = Φ(initial board) + Σ step rewards + Σ Φ(spawned tiles)       (Φ = Σ (e−1)·2^e),
  Σ tiles(final board) = Σ tiles(initial board) + Σ values of spawned tiles,
and `Consistent` holds all along.
-/
import JumanjiModel.Env.Game2048.BoardLemmas
namespace Game2048
open Jm

/-- state after playing the (action, spawn draw) pairs `ads` from `s` -/
def runState (s : State) : List (Nat × Draw) → State
  | [] => s
  | p :: ads => runState (step s (p.1 : Int) p.2).1 ads

/-- sum of the rewards of playing `ads` from `s` -/
def runReturn (s : State) : List (Nat × Draw) → Rat
  | [] => 0
  | p :: ads => (step s (p.1 : Int) p.2).2.reward.sum + runReturn (step s (p.1 : Int) p.2).1 ads

/-- L2: sum over all merges of the play of the value of the tile created -/
def mergedValues (s : State) : List (Nat × Draw) → Nat
  | [] => 0
  | p :: ads => boardReward s.board (Dir.ofAction p.1) + mergedValues (step s (p.1 : Int) p.2).1 ads

/-- potential `(e−1)·2^e` of a spawned tile: 0 for a 2-tile, 4 for a 4-tile -/
def drawPot (d : Draw) : Nat := (d.val - 1) * 2 ^ d.val

/-- L2: potentials of the tiles spawned along the play (a tile is spawned exactly after the legal moves) -/
def spawnPot (s : State) : List (Nat × Draw) → Nat
  | [] => 0
  | p :: ads => (if legal s.board p.1 then drawPot p.2 else 0) + spawnPot (step s (p.1 : Int) p.2).1 ads

/-- L2: values of the tiles spawned along the play -/
def spawnSum (s : State) : List (Nat × Draw) → Nat
  | [] => 0
  | p :: ads => (if legal s.board p.1 then 2 ^ p.2.val else 0) + spawnSum (step s (p.1 : Int) p.2).1 ads

/-- an admissible play: actions 0..3, and the draw is in the support of `_add_random_cell` (an empty cell of the
slid board, exponent 1 or 2) whenever the move is legal, i.e. whenever a tile is spawned -/
def ValidPlay (s : State) : List (Nat × Draw) → Prop
  | [] => True
  | p :: ads => p.1 < 4 ∧ (legal s.board p.1 → validDraw (slideBoard s.board (Dir.ofAction p.1)) p.2) ∧
      ValidPlay (step s (p.1 : Int) p.2).1 ads

instance validPlayDec : (s : State) → (ads : List (Nat × Draw)) → Decidable (ValidPlay s ads)
  | _, [] => isTrue trivial
  | s, p :: ads =>
    have := validPlayDec (step s (p.1 : Int) p.2).1 ads
    by unfold ValidPlay; infer_instance

theorem step_reward_sum (s : State) (a : Int) (d : Draw) :
    (step s a d).2.reward.sum = ((move s.board a).2 : Rat) := by
  show (condLast _ _ _).reward.sum = _
  rw [condLast_reward]; simp [Rat.add_zero]

theorem step_score (s : State) (a : Int) (d : Draw) :
    (step s a d).1.score = s.score + (step s a d).2.reward.sum := by
  rw [step_reward_sum]; rfl

/-- the score is the running sum of the rewards — any state, any actions, any draws -/
theorem run_score (s : State) (ads : List (Nat × Draw)) :
    (runState s ads).score = s.score + runReturn s ads := by
  induction ads generalizing s with
  | nil => simp [runState, runReturn, Rat.add_zero]
  | cons p ads ih =>
    simp only [runState, runReturn]
    rw [ih, step_score, Rat.add_assoc]

theorem run_square (s : State) (ads : List (Nat × Draw)) (hs : Square s.board) :
    Square (runState s ads).board := by
  induction ads generalizing s with
  | nil => exact hs
  | cons p ads ih => exact ih _ (step_square s _ _ hs)

theorem run_board_length (s : State) (ads : List (Nat × Draw)) :
    (runState s ads).board.length = s.board.length := by
  induction ads generalizing s with
  | nil => rfl
  | cons p ads ih => simp only [runState]; rw [ih, step_board_length]

/-- the return is the sum over all merges of the values of the tiles created (square board, actions 0..3;
draws arbitrary) -/
theorem run_return_merged (s : State) (ads : List (Nat × Draw)) (hs : Square s.board)
    (ha : ∀ p ∈ ads, p.1 < 4) : runReturn s ads = ((mergedValues s ads : Nat) : Rat) := by
  induction ads generalizing s with
  | nil => simp [runReturn, mergedValues]
  | cons p ads ih =>
    simp only [runReturn, mergedValues]
    rw [ih _ (step_square s _ _ hs) (fun q hq => ha q (List.mem_cons_of_mem _ hq)), step_reward_sum,
      move_eq_spec s.board p.1 (ha p (List.mem_cons_self ..)) hs, Rat.natCast_add]

theorem run_consistent (n : Nat) (s : State) (ads : List (Nat × Draw)) (hc : Consistent n s)
    (hv : ValidPlay s ads) : Consistent n (runState s ads) := by
  induction ads generalizing s with
  | nil => exact hc
  | cons p ads ih => exact ih _ (step_consistent n s p.1 p.2 hv.1 hc hv.2.1) hv.2.2

/-- potential of the board after one step -/
theorem step_boardPot (n : Nat) (s : State) (a : Nat) (d : Draw) (ha : a < 4) (hc : Consistent n s)
    (hd : legal s.board a → validDraw (slideBoard s.board (Dir.ofAction a)) d) :
    boardPot (step s a d).1.board =
      boardPot s.board + boardReward s.board (Dir.ofAction a) + (if legal s.board a then drawPot d else 0) := by
  have hs := consistent_square hc
  have hm := consistent_mask hc
  by_cases hl : legal s.board a
  · rw [step_board_legal s a d ha hs hm hl, boardPot_addRandomCell _ d (slideBoard_square _ _) (hd hl),
      boardPot_slideBoard _ _ hs, if_pos hl]; rfl
  · have hfix : slideBoard s.board (Dir.ofAction a) = s.board := by
      apply Classical.byContradiction; intro hne; exact hl ⟨ha, hne⟩
    rw [(illegal_ignored s a d ha hs hm hl).1, if_neg hl, boardReward_of_fixed _ _ hs hfix]; rfl

theorem step_boardSum (n : Nat) (s : State) (a : Nat) (d : Draw) (ha : a < 4) (hc : Consistent n s)
    (hd : legal s.board a → validDraw (slideBoard s.board (Dir.ofAction a)) d) :
    boardSum (step s a d).1.board = boardSum s.board + (if legal s.board a then 2 ^ d.val else 0) := by
  have hs := consistent_square hc
  have hm := consistent_mask hc
  by_cases hl : legal s.board a
  · rw [step_board_legal s a d ha hs hm hl, boardSum_addRandomCell _ d (slideBoard_square _ _) (hd hl),
      boardSum_slideBoard _ _ hs, if_pos hl]
  · rw [(illegal_ignored s a d ha hs hm hl).1, if_neg hl]; rfl

/-- potential identity over a whole play: Φ(final) = Φ(initial) + Σ merged values + Σ Φ(spawned tiles) -/
theorem run_boardPot (n : Nat) (s : State) (ads : List (Nat × Draw)) (hc : Consistent n s)
    (hv : ValidPlay s ads) :
    boardPot (runState s ads).board = boardPot s.board + mergedValues s ads + spawnPot s ads := by
  induction ads generalizing s with
  | nil => simp [runState, mergedValues, spawnPot]
  | cons p ads ih =>
    simp only [runState, mergedValues, spawnPot]
    rw [ih _ (step_consistent n s p.1 p.2 hv.1 hc hv.2.1) hv.2.2, step_boardPot n s p.1 p.2 hv.1 hc hv.2.1]
    omega

/-- tile sum over a whole play: only the spawned tiles add to it -/
theorem run_boardSum (n : Nat) (s : State) (ads : List (Nat × Draw)) (hc : Consistent n s)
    (hv : ValidPlay s ads) :
    boardSum (runState s ads).board = boardSum s.board + spawnSum s ads := by
  induction ads generalizing s with
  | nil => simp [runState, spawnSum]
  | cons p ads ih =>
    simp only [runState, spawnSum]
    rw [ih _ (step_consistent n s p.1 p.2 hv.1 hc hv.2.1) hv.2.2, step_boardSum n s p.1 p.2 hv.1 hc hv.2.1]
    omega

/-- C08, whole play from any consistent state: score gain = return = merged values = ΔΦ − Σ Φ(spawned) -/
theorem run_return (n : Nat) (s : State) (ads : List (Nat × Draw)) (hc : Consistent n s)
    (hv : ValidPlay s ads) :
    (runState s ads).score = s.score + runReturn s ads ∧
    runReturn s ads = ((mergedValues s ads : Nat) : Rat) ∧
    ((boardPot (runState s ads).board : Nat) : Rat) - ((boardPot s.board : Nat) : Rat) -
      ((spawnPot s ads : Nat) : Rat) = runReturn s ads := by
  have hva : ∀ (s : State) (ads : List (Nat × Draw)), ValidPlay s ads → ∀ p ∈ ads, p.1 < 4 := by
    intro s ads
    induction ads generalizing s with
    | nil => intro _ p hp; cases hp
    | cons q ads ih =>
      intro h p hp
      rcases List.mem_cons.1 hp with e | e
      · rw [e]; exact h.1
      · exact ih _ h.2.2 p e
  have h2 := run_return_merged s ads (consistent_square hc) (hva s ads hv)
  refine ⟨run_score s ads, h2, ?_⟩
  rw [h2, run_boardPot n s ads hc hv, Rat.natCast_add, Rat.natCast_add]
  generalize ((boardPot s.board : Nat) : Rat) = x
  generalize ((mergedValues s ads : Nat) : Rat) = y
  generalize ((spawnPot s ads : Nat) : Rat) = z
  grind

theorem boardPot_zero_tab (n : Nat) : boardPot (tab n (fun _ _ => 0)) = 0 := by
  rw [boardPot_eq_boardW, boardW_tab]
  have h0 : vPot 0 = 0 := rfl
  simp only [h0, gsum_const_zero]

theorem reset_boardPot (n : Nat) (d : Draw) (hd : validDraw (tab n (fun _ _ => 0)) d) :
    boardPot (reset n d).1.board = drawPot d := by
  show boardPot (addRandomCell _ d) = _
  rw [boardPot_addRandomCell _ d (tab_square n _) hd, boardPot_zero_tab]; simp [drawPot]

theorem reset_boardSum (n : Nat) (d : Draw) (hd : validDraw (tab n (fun _ _ => 0)) d) :
    boardSum (reset n d).1.board = 2 ^ d.val := by
  show boardSum (addRandomCell _ d) = _
  rw [boardSum_addRandomCell _ d (tab_square n _) hd]
  have : boardSum (tab n (fun _ _ => 0)) = 0 := boardW_zero_tab n
  omega

/-- C08, whole episode from `reset`: the final score is the return, which is the sum over all merges of the
tile created, and equals the potential of the final board minus the potentials of all spawned tiles (the
first one included) -/
theorem episode_return (n : Nat) (d0 : Draw) (ads : List (Nat × Draw))
    (hd0 : validDraw (tab n (fun _ _ => 0)) d0) (hv : ValidPlay (reset n d0).1 ads) :
    (runState (reset n d0).1 ads).score = runReturn (reset n d0).1 ads ∧
    runReturn (reset n d0).1 ads = ((mergedValues (reset n d0).1 ads : Nat) : Rat) ∧
    runReturn (reset n d0).1 ads = ((boardPot (runState (reset n d0).1 ads).board : Nat) : Rat) -
      ((drawPot d0 + spawnPot (reset n d0).1 ads : Nat) : Rat) ∧
    boardSum (runState (reset n d0).1 ads).board = 2 ^ d0.val + spawnSum (reset n d0).1 ads := by
  have hc := reset_consistent n d0 hd0
  obtain ⟨h1, h2, h3⟩ := run_return n _ ads hc hv
  refine ⟨?_, h2, ?_, ?_⟩
  · rw [h1]
    show (0 : Rat) + _ = _
    exact Rat.zero_add _
  · rw [← h3, reset_boardPot n d0 hd0, Rat.natCast_add]
    generalize ((boardPot (runState (reset n d0).1 ads).board : Nat) : Rat) = x
    generalize ((drawPot d0 : Nat) : Rat) = y
    generalize ((spawnPot (reset n d0).1 ads : Nat) : Rat) = z
    grind
  · rw [run_boardSum n _ ads hc hv, reset_boardSum n d0 hd0]

end Game2048
