/-
Game2048 (jumanji/environments/logic/game_2048/{env,utils,types}.py).  Import-free.

L1 = transliteration of `utils.move_left_row` / `can_move_left_row` (the two `lax.while_loop`s),
`transform_board`, `move`, `can_move`, `_get_action_mask`, `_add_random_cell` and `Game2048.step`.
The random tile is the draw parameter `Draw` (flat cell index, exponent); keys are not modelled.
Tiles are exponents (`Nat`, 0 = empty); the float32 reward/score are exact rationals (sums of powers
of two, exact in float32 below 2^24).

Recorded deviations of L1 from the source text (each justified by a lemma in `Lemmas.lean`):
* both loops carry the extra guard `t < o`, which the code maintains implicitly from the initial
  `(target_idx, origin_idx) = (0, 1)`; with it every `row[t]`, `row[o]` is in range, so the plain
  `getD`/`set` are the JAX gather/scatter (no wrap/clamp case arises).
* `no_op` writes `row[t] := row[t]; row[o] := row[o]`, modelled as leaving the row unchanged.
* `lax.switch(move_type, [no_op, shift, merge])` with `move_type = can_shift + 2*can_merge` is written
  as `if can_merge then merge else if can_shift then shift else no_op` (the clamped index 3 → merge).
* the board is square (`board_size × board_size`); `jnp.transpose` / `jnp.flip` are given by their index
  maps on an `n × n` table (`tab`).

L2 = the rules: `slideSpec` (compress, merge equal neighbours once from the wall, pad), `slideBoard` by the
lines of the board read from the wall the tiles move to, `legal` = the move changes the board,
`tileSum` (Σ 2^e), `mergeReward` (Σ of the values of the tiles created), `observe`.
-/
import JumanjiModel.Prim.Idx
import JumanjiModel.Prim.Grid
import JumanjiModel.Core.TimeStep
namespace Game2048
open Jm

abbrev Row := List Nat
abbrev Board := List (List Nat)

/-! ### L1: the row loops -/

/-- `move_left_row` while-loop: carry `(row, reward, target_idx, origin_idx)` -/
def moveLoop (row : List Nat) (rew : Nat) (t o : Nat) : List Nat × Nat :=
  if h : o < row.length ∧ t < o then
    let tgt := row.getD t 0
    let org := row.getD o 0
    let canShift := org != 0 && tgt == 0
    let canMerge := org != 0 && tgt == org
    if canMerge then
      -- merge: target := target + 1, origin := 0, reward += 2^(target+1), both indices advance
      moveLoop ((row.set t (tgt + 1)).set o 0) (rew + 2 ^ (tgt + 1)) (t + 1) (o + 1)
    else if canShift then
      -- shift: target := origin, origin := 0, origin index advances
      moveLoop ((row.set t org).set o 0) rew t (o + 1)
    else
      -- no_op
      let t' := t + (if org != 0 then 1 else 0)
      let o' := if org == 0 || t' == o then o + 1 else o
      moveLoop row rew t' o'
  else (row, rew)
termination_by 2 * row.length - (t + o)
decreasing_by
  all_goals simp_wf
  all_goals (try simp only [List.length_set])
  · omega
  · omega
  · obtain ⟨h1, h2⟩ := h
    generalize row[o]?.getD 0 = org'
    by_cases ho : org' = 0 <;> by_cases hto : t + 1 = o <;> simp [ho, hto] <;> omega

/-- `move_left_row(row) -> (row, reward)` -/
def moveLeftRow (row : List Nat) : List Nat × Nat := moveLoop row 0 0 1

/-- `can_move_left_row` while-loop: carry `(can_move, row, target_idx, origin_idx)` -/
def canLoop (row : List Nat) (cm : Bool) (t o : Nat) : Bool :=
  if h : cm = false ∧ o < row.length ∧ t < o then
    let tgt := row.getD t 0
    let org := row.getD o 0
    let cm' := org != 0 && (tgt == 0 || tgt == org)
    let t' := t + (if org != 0 then 1 else 0)
    let o' := if org == 0 || t' == o then o + 1 else o
    canLoop row cm' t' o'
  else cm
termination_by (if cm then 0 else 1) + (2 * row.length - (t + o))
decreasing_by
  simp_wf
  obtain ⟨h1, h2, h3⟩ := h
  subst h1
  simp only [Bool.false_eq_true, if_false]
  generalize row[o]?.getD 0 = org'
  generalize row[t]?.getD 0 = tgt'
  have : (if ¬org' = 0 ∧ (tgt' = 0 ∨ tgt' = org') then 0 else 1) ≤ 1 := by split <;> omega
  by_cases ho : org' = 0 <;> by_cases hto : t + 1 = o <;> simp [ho, hto] <;> (try split) <;> omega

/-- `can_move_left_row(row)` -/
def canMoveLeftRow (row : List Nat) : Bool := canLoop row false 0 1

/-! ### L1: the board -/

/-- plain lookup `b[i][j]` (0 outside; used only with in-range indices) -/
def get (b : Board) (i j : Nat) : Nat := (b.getD i []).getD j 0

/-- the `n × n` table with entries `f i j` -/
def tab (n : Nat) (f : Nat → Nat → Nat) : Board :=
  (List.range n).map (fun i => (List.range n).map (fun j => f i j))

/-- `lax.switch` index: clamped into `[0, 3]` -/
def switchIdx (a : Int) : Nat := if a < 0 then 0 else if a ≥ 3 then 3 else a.toNat

/-- `transform_board(board, action)`: 0 `transpose`, 1 `flip(board, 1)`, 2 `flip(transpose(board))`
(both axes), 3 identity -/
def transformBoard (b : Board) (a : Int) : Board :=
  let n := b.length
  match switchIdx a with
  | 0 => tab n (fun i j => get b j i)
  | 1 => tab n (fun i j => get b i (n - 1 - j))
  | 2 => tab n (fun i j => get b (n - 1 - j) (n - 1 - i))
  | _ => b

/-- `move_left`: vmap of `move_left_row`, rewards summed -/
def moveLeft (b : Board) : Board × Nat :=
  (b.map (fun r => (moveLeftRow r).1), (b.map (fun r => (moveLeftRow r).2)).sum)

/-- `move(board, action)` -/
def move (b : Board) (a : Int) : Board × Nat :=
  let m := moveLeft (transformBoard b a)
  (transformBoard m.1 a, m.2)

/-- `can_move_left`, `can_move` -/
def canMoveLeft (b : Board) : Bool := b.any canMoveLeftRow
def canMove (b : Board) (a : Int) : Bool := canMoveLeft (transformBoard b a)

/-- `_get_action_mask`: `vmap(can_move, (None, 0))(board, arange(4))` -/
def actionMask (b : Board) : List Bool := (List.range 4).map (fun (a : Nat) => canMove b (Int.ofNat a))

structure State where
  board : Board
  stepCount : Nat
  actionMask : List Bool
  score : Rat
  deriving Repr, DecidableEq

structure Obs where
  board : Board
  actionMask : List Bool
  deriving Repr, DecidableEq

/-- the random tile: flat index of the chosen cell and its exponent -/
structure Draw where
  idx : Nat
  val : Nat
  deriving Repr, DecidableEq

/-- support of `_add_random_cell`: an empty cell of the flattened board, value 1 or 2 -/
def validDraw (b : Board) (d : Draw) : Prop :=
  d.idx < b.length * b.length ∧ get b (d.idx / b.length) (d.idx % b.length) = 0 ∧ (d.val = 1 ∨ d.val = 2)

instance (b : Board) (d : Draw) : Decidable (validDraw b d) := by unfold validDraw; infer_instance

/-- `_add_random_cell`: `position = divmod(tile_idx, board_size)`, `board.at[position].set(value)` -/
def addRandomCell (b : Board) (d : Draw) : Board :=
  Jx.Grid.setWD b ((d.idx / b.length : Nat) : Int) ((d.idx % b.length : Nat) : Int) d.val

/-- `Game2048.step`.  NB the spawn is decided by the mask *cached in the state*. -/
def step (s : State) (a : Int) (d : Draw) : State × TimeStep Obs :=
  let m := move s.board a
  let b2 := if Jx.getWC s.actionMask false a then addRandomCell m.1 d else m.1
  let mask := actionMask b2
  let s' : State := { board := b2, actionMask := mask, stepCount := s.stepCount + 1,
                      score := s.score + (m.2 : Rat) }
  let done := !(mask.any id)
  (s', condLast done [(m.2 : Rat)] { board := b2, actionMask := mask })

/-- `reset` given the draw of the first tile -/
def reset (n : Nat) (d : Draw) : State × TimeStep Obs :=
  let b := addRandomCell (tab n (fun _ _ => 0)) d
  let mask := actionMask b
  ({ board := b, stepCount := 0, actionMask := mask, score := 0 },
   restart { board := b, actionMask := mask })

/-! ### L2: the rules of 2048 -/

/-- slide the tiles together, dropping the gaps -/
def compress (r : List Nat) : List Nat := r.filter (· ≠ 0)

/-- starting at the wall, two equal neighbours become one tile of the next exponent; a tile created
by a merge does not merge again in the same move -/
def mergePairs : List Nat → List Nat
  | a :: b :: rest => if a = b then (a + 1) :: mergePairs rest else a :: mergePairs (b :: rest)
  | l => l

/-- the values `2^(e+1)` of the tiles created by the merges of `mergePairs` -/
def mergeReward : List Nat → Nat
  | a :: b :: rest => if a = b then 2 ^ (a + 1) + mergeReward rest else mergeReward (b :: rest)
  | _ => 0

def padTo (n : Nat) (l : List Nat) : List Nat := l ++ List.replicate (n - l.length) 0

/-- a row after a move towards its head -/
def slideSpec (r : List Nat) : List Nat := padTo r.length (mergePairs (compress r))
/-- reward earned in that row: the sum of the values of the newly created tiles -/
def rowReward (r : List Nat) : Nat := mergeReward (compress r)

inductive Dir | up | right | down | left
  deriving DecidableEq, Repr

/-- actions `[0, 1, 2, 3]` = up, right, down, left -/
def Dir.ofAction : Nat → Dir
  | 0 => .up | 1 => .right | 2 => .down | _ => .left

/-- line `k` of an `n × n` board, read starting at the wall the tiles move to -/
def line (n : Nat) (b : Board) (dir : Dir) (k : Nat) : List Nat :=
  (List.range n).map (fun p =>
    match dir with
    | .up => get b p k
    | .right => get b k (n - 1 - p)
    | .down => get b (n - 1 - p) k
    | .left => get b k p)

/-- the board after sliding every line towards `dir` -/
def slideBoard (b : Board) (dir : Dir) : Board :=
  let n := b.length
  tab n (fun i j =>
    match dir with
    | .up => (slideSpec (line n b .up j)).getD i 0
    | .right => (slideSpec (line n b .right i)).getD (n - 1 - j) 0
    | .down => (slideSpec (line n b .down j)).getD (n - 1 - i) 0
    | .left => (slideSpec (line n b .left i)).getD j 0)

/-- the reward of a move: values of all tiles created -/
def boardReward (b : Board) (dir : Dir) : Nat :=
  ((List.range b.length).map (fun k => rowReward (line b.length b dir k))).sum

/-- a move is legal iff it changes the board -/
def legal (b : Board) (a : Nat) : Prop := a < 4 ∧ slideBoard b (Dir.ofAction a) ≠ b

instance (b : Board) (a : Nat) : Decidable (legal b a) := by unfold legal; infer_instance

def legalMask (b : Board) : List Bool := (List.range 4).map (fun a => decide (legal b a))

/-- the observation documented for a state: the board and which of the four moves are valid -/
def observe (s : State) : Obs := { board := s.board, actionMask := legalMask s.board }

/-- sum of the tile values `2^e` of a row / board -/
def tileSum (r : List Nat) : Nat := (r.map (fun e => if e = 0 then 0 else 2 ^ e)).sum
def boardSum (b : Board) : Nat := (b.map tileSum).sum

/-- score potential: a tile `2^e` assembled from 2-tiles alone has earned `(e-1)·2^e` -/
def tilePot (r : List Nat) : Nat := (r.map (fun e => (e - 1) * 2 ^ e)).sum
def boardPot (b : Board) : Nat := (b.map tilePot).sum

/-- `n × n` -/
def Shaped (b : Board) (n : Nat) : Prop := b.length = n ∧ ∀ r ∈ b, r.length = n
instance (b : Board) (n : Nat) : Decidable (Shaped b n) := by unfold Shaped; infer_instance

/-- physically possible configuration: square board with at least one tile, the mask cached in the state
is the legality of the four moves on the board; a fresh board (no step yet) holds exactly one tile, a 2 or
a 4, and no score -/
def Consistent (n : Nat) (s : State) : Prop :=
  Shaped s.board n ∧ 0 < boardSum s.board ∧ s.actionMask = legalMask s.board ∧ 0 ≤ s.score ∧
  (s.stepCount = 0 → (boardSum s.board = 2 ∨ boardSum s.board = 4) ∧ s.score = 0)

instance (n : Nat) (s : State) : Decidable (Consistent n s) := by unfold Consistent; infer_instance

/-- tile sum across a whole step: unchanged by the slide, `+2` or `+4` for the new tile of a legal move;
an illegal move leaves every tile where it is -/
def conservedStep (b : Board) (a : Nat) (b' : Board) : Bool :=
  if decide (legal b a) then boardSum b' == boardSum b + 2 || boardSum b' == boardSum b + 4
  else b' == b

/-- the documented effect of an illegal move: nothing moves, merges or spawns, no reward; the episode
goes on unless no move at all is possible -/
def illegalOk (s : State) (s' : State) (ts : TimeStep Obs) : Bool :=
  s'.board == s.board && ts.reward == [0] && s'.score == s.score &&
  (ts.stepType == (if (legalMask s.board).any id then StepType.mid else StepType.last))

/-! ### C10: the reset state as a generated instance -/

/-- number of tiles (non-empty cells) of a row / board -/
def tileCountRow (r : List Nat) : Nat := (r.map (fun e => if e = 0 then 0 else 1)).sum
def tileCount (b : Board) : Nat := (b.map tileCountRow).sum

/-- generator certificate: what `reset` (`_generate_board` = empty board + `_add_random_cell`) advertises:
a `board_size × board_size` board holding exactly one tile, a 2 or a 4 (exponent 1 or 2), score 0, step count 0,
and the mask stored in the state is the legality of the four moves on that board -/
def InstanceOK (n : Nat) (s : State) : Prop :=
  Shaped s.board n ∧ tileCount s.board = 1 ∧ (boardSum s.board = 2 ∨ boardSum s.board = 4) ∧
  s.score = 0 ∧ s.stepCount = 0 ∧ s.actionMask = legalMask s.board

instance (n : Nat) (s : State) : Decidable (InstanceOK n s) := by unfold InstanceOK; infer_instance

/-- the draw read off a board with one tile: flat index (row-major, `idx = row * n + col`) of the first non-empty
cell and its exponent -/
def drawOf (b : Board) : Draw :=
  let n := b.length
  match (List.range (n * n)).find? (fun k => get b (k / n) (k % n) != 0) with
  | some k => { idx := k, val := get b (k / n) (k % n) }
  | none => { idx := 0, val := 0 }

end Game2048
