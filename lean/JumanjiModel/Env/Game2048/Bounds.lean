/-
Game2048 — C01: proved value bounds of the observation leaves.

Real spec: `board` = `Array(int32)` (no bounds declared), `action_mask` = `BoundedArray(bool, False, True)`.
Model: tiles are exponents (`Nat`), so `board ≥ 0`; the mask is boolean.
-/
import JumanjiModel.Env.Game2048.Model
import JumanjiModel.Env.PuzzleBounds
namespace Game2048
open Jm PzB

/-- interval of every observation leaf, as a function of the configuration (`n` = board_size) -/
def obsBounds (_n : Nat) : Table :=
  [("board", ivLo 0), ("action_mask", iv 0 1)]

/-- the numeric leaves of an observation, flattened -/
def obsLeaves (o : Obs) : Leaves :=
  [("board", nats2 o.board), ("action_mask", bools o.actionMask)]

theorem obs_in_bounds (n : Nat) (o : Obs) : ObsInBounds (obsBounds n) (obsLeaves o) := by
  refine ⟨by simp [obsBounds, obsLeaves], ?_⟩
  intro k b hk vs hvs
  simp only [obsBounds, obsLeaves, List.mem_cons, Prod.mk.injEq, List.not_mem_nil, or_false] at hk hvs
  rcases hk with ⟨rfl, rfl⟩ | ⟨rfl, rfl⟩ <;> rcases hvs with ⟨h, rfl⟩ | ⟨h, rfl⟩ <;>
    first | exact absurd h (by decide) | exact allIn_nats_lo _ | exact allIn_bools _

end Game2048
