/-
Game2048, board level (C07/C08/C05): weighted sums over the board are sums over the lines read in ANY of the four
directions, hence the tile sum is conserved by `slideBoard` and the score potential grows by the reward; shape
preservation through `move` / `addRandomCell` / `step`; a legal move leaves an empty cell; `Consistent` is
established by `reset` and preserved by `step`.
-/
import JumanjiModel.Env.Game2048.Lemmas
namespace Game2048
open Jm

/-! ### finite sums over `range n` -/

def gsum (n : Nat) (f : Nat → Nat) : Nat := ((List.range n).map f).sum

theorem gsum_zero (f : Nat → Nat) : gsum 0 f = 0 := rfl

theorem gsum_succ (n : Nat) (f : Nat → Nat) : gsum (n + 1) f = gsum n f + f n := by
  unfold gsum; rw [List.range_succ]; simp

theorem gsum_congr (n : Nat) (f g : Nat → Nat) (h : ∀ i, i < n → f i = g i) : gsum n f = gsum n g := by
  unfold gsum; congr 1; apply List.map_congr_left; intro i hi; exact h i (List.mem_range.1 hi)

theorem gsum_add (n : Nat) (f g : Nat → Nat) : gsum n (fun i => f i + g i) = gsum n f + gsum n g := by
  induction n with
  | zero => rfl
  | succ n ih => rw [gsum_succ, gsum_succ, gsum_succ, ih]; omega

theorem gsum_const_zero (n : Nat) : gsum n (fun _ => 0) = 0 := by
  induction n with
  | zero => rfl
  | succ n ih => rw [gsum_succ, ih]

theorem gsum_rev (n : Nat) (f : Nat → Nat) : gsum n (fun i => f (n - 1 - i)) = gsum n f :=
  sum_range_reverse n f

theorem gsum_swap (n m : Nat) (F : Nat → Nat → Nat) :
    gsum n (fun i => gsum m (fun j => F i j)) = gsum m (fun j => gsum n (fun i => F i j)) := by
  induction n with
  | zero => simp only [gsum_zero]; exact (gsum_const_zero m).symm
  | succ n ih => simp only [gsum_succ]; rw [ih, ← gsum_add]

theorem gsum_pos (n : Nat) (f : Nat → Nat) (k : Nat) (hk : k < n) (h : 0 < f k) : 0 < gsum n f := by
  induction n with
  | zero => omega
  | succ n ih =>
    rw [gsum_succ]
    by_cases e : k = n
    · subst e; omega
    · have := ih (by omega); omega

/-! ### weighted sums of rows and boards -/

/-- `Σ v(e)` over the entries of a row; `tileSum` and `tilePot` are instances -/
def wsum (v : Nat → Nat) (r : List Nat) : Nat := (r.map v).sum
def boardW (v : Nat → Nat) (b : Board) : Nat := (b.map (wsum v)).sum

def vTile (e : Nat) : Nat := if e = 0 then 0 else 2 ^ e
def vPot (e : Nat) : Nat := (e - 1) * 2 ^ e

theorem tileSum_eq_wsum (r : List Nat) : tileSum r = wsum vTile r := rfl
theorem tilePot_eq_wsum (r : List Nat) : tilePot r = wsum vPot r := rfl
theorem boardSum_eq_boardW (b : Board) : boardSum b = boardW vTile b := rfl
theorem boardPot_eq_boardW (b : Board) : boardPot b = boardW vPot b := rfl

theorem wsum_eq_gsum (v : Nat → Nat) (r : List Nat) (n : Nat) (h : r.length = n) :
    wsum v r = gsum n (fun p => v (r.getD p 0)) := by
  subst h
  conv => lhs; rw [list_eq_rangeMap r]
  unfold wsum gsum
  rw [List.map_map]; rfl

theorem wsum_rangeMap (v : Nat → Nat) (n : Nat) (g : Nat → Nat) :
    wsum v ((List.range n).map g) = gsum n (fun p => v (g p)) := by
  unfold wsum gsum; rw [List.map_map]; rfl

theorem boardW_tab (v : Nat → Nat) (n : Nat) (F : Nat → Nat → Nat) :
    boardW v (tab n F) = gsum n (fun i => gsum n (fun j => v (F i j))) := by
  unfold boardW tab
  rw [List.map_map]
  show gsum n _ = _
  apply gsum_congr; intro i _
  exact wsum_rangeMap v n (F i)

theorem square_of_shaped {b : Board} {n : Nat} (h : Shaped b n) : Square b := by
  intro r hr; rw [h.2 r hr, h.1]

theorem shaped_of_square {b : Board} (h : Square b) : Shaped b b.length := ⟨rfl, h⟩

theorem shaped_iff (b : Board) (n : Nat) : Shaped b n ↔ b.length = n ∧ Square b := by
  constructor
  · intro h; exact ⟨h.1, square_of_shaped h⟩
  · rintro ⟨h1, h2⟩; subst h1; exact shaped_of_square h2

theorem boardW_square (v : Nat → Nat) (b : Board) (hs : Square b) :
    boardW v b = gsum b.length (fun i => gsum b.length (fun j => v (get b i j))) := by
  conv => lhs; rw [← tab_get_self b hs]
  exact boardW_tab v b.length (get b)

/-! ### reading the board by lines -/

/-- which line (as numbered by `line`) the cell `(i, j)` belongs to when the tiles move towards `dir` -/
def lineIx (dir : Dir) (i j : Nat) : Nat := match dir with | .up => j | .right => i | .down => j | .left => i
/-- … and its position in that line, counted from the wall -/
def posIx (n : Nat) (dir : Dir) (i j : Nat) : Nat :=
  match dir with | .up => i | .right => n - 1 - j | .down => n - 1 - i | .left => j

/-- re-indexing: a sum over the cells `(i, j)` of a quantity that depends on (line, position) is the sum over
lines and positions -/
theorem gsum_reindex (n : Nat) (dir : Dir) (G : Nat → Nat → Nat) :
    gsum n (fun i => gsum n (fun j => G (lineIx dir i j) (posIx n dir i j))) =
      gsum n (fun k => gsum n (fun p => G k p)) := by
  cases dir with
  | up => simp only [lineIx, posIx]; exact gsum_swap n n (fun i j => G j i)
  | right =>
    simp only [lineIx, posIx]
    apply gsum_congr; intro i _
    exact gsum_rev n (fun p => G i p)
  | down =>
    simp only [lineIx, posIx]
    rw [gsum_swap n n (fun i j => G j (n - 1 - i))]
    apply gsum_congr; intro k _
    exact gsum_rev n (fun p => G k p)
  | left => rfl

theorem slideBoard_eq_tab (b : Board) (dir : Dir) :
    slideBoard b dir = tab b.length (fun i j =>
      (slideSpec (line b.length b dir (lineIx dir i j))).getD (posIx b.length dir i j) 0) := by
  cases dir <;> rfl

/-- entry of the slid board -/
theorem get_slideBoard (b : Board) (dir : Dir) (i j : Nat) (hi : i < b.length) (hj : j < b.length) :
    get (slideBoard b dir) i j =
      (slideSpec (line b.length b dir (lineIx dir i j))).getD (posIx b.length dir i j) 0 := by
  rw [slideBoard_eq_tab, get_tab _ _ _ _ hi hj]

theorem slideBoard_length (b : Board) (dir : Dir) : (slideBoard b dir).length = b.length := by
  rw [slideBoard_eq_tab, tab_length]

theorem tab_square (n : Nat) (f : Nat → Nat → Nat) : Square (tab n f) := by
  intro r hr
  rw [tab_length]
  unfold tab at hr
  rw [List.mem_map] at hr
  obtain ⟨i, _, rfl⟩ := hr
  simp

theorem slideBoard_square (b : Board) (dir : Dir) : Square (slideBoard b dir) := by
  rw [slideBoard_eq_tab]; exact tab_square _ _

/-- the cell of the board that is position `p` of line `k` -/
def cellR (n : Nat) (dir : Dir) (k p : Nat) : Nat :=
  match dir with | .up => p | .right => k | .down => n - 1 - p | .left => k
def cellC (n : Nat) (dir : Dir) (k p : Nat) : Nat :=
  match dir with | .up => k | .right => n - 1 - p | .down => k | .left => p

theorem line_eq (n : Nat) (b : Board) (dir : Dir) (k : Nat) :
    line n b dir k = (List.range n).map (fun p => get b (cellR n dir k p) (cellC n dir k p)) := by
  cases dir <;> rfl

theorem cellR_ix (n : Nat) (dir : Dir) (i j : Nat) (hi : i < n) (_hj : j < n) :
    cellR n dir (lineIx dir i j) (posIx n dir i j) = i := by
  cases dir <;> simp only [cellR, lineIx, posIx] <;> omega

theorem cellC_ix (n : Nat) (dir : Dir) (i j : Nat) (_hi : i < n) (hj : j < n) :
    cellC n dir (lineIx dir i j) (posIx n dir i j) = j := by
  cases dir <;> simp only [cellC, lineIx, posIx] <;> omega

theorem lineIx_lt (n : Nat) (dir : Dir) (i j : Nat) (hi : i < n) (hj : j < n) : lineIx dir i j < n := by
  cases dir <;> simp only [lineIx] <;> omega

theorem posIx_lt (n : Nat) (dir : Dir) (i j : Nat) (hi : i < n) (hj : j < n) : posIx n dir i j < n := by
  cases dir <;> simp only [posIx] <;> omega

theorem cellR_lt (n : Nat) (dir : Dir) (k p : Nat) (hk : k < n) (hp : p < n) : cellR n dir k p < n := by
  cases dir <;> simp only [cellR] <;> omega

theorem cellC_lt (n : Nat) (dir : Dir) (k p : Nat) (hk : k < n) (hp : p < n) : cellC n dir k p < n := by
  cases dir <;> simp only [cellC] <;> omega

theorem lineIx_cell (n : Nat) (dir : Dir) (k p : Nat) (_hk : k < n) (_hp : p < n) :
    lineIx dir (cellR n dir k p) (cellC n dir k p) = k := by
  cases dir <;> rfl

theorem posIx_cell (n : Nat) (dir : Dir) (k p : Nat) (_hk : k < n) (hp : p < n) :
    posIx n dir (cellR n dir k p) (cellC n dir k p) = p := by
  cases dir <;> simp only [cellR, cellC, posIx] <;> omega

/-- a weighted board sum is the sum over the lines read in direction `dir` -/
theorem boardW_lines (v : Nat → Nat) (b : Board) (dir : Dir) (hs : Square b) :
    boardW v b = gsum b.length (fun k => wsum v (line b.length b dir k)) := by
  rw [boardW_square v b hs]
  have e : ∀ k, wsum v (line b.length b dir k) =
      gsum b.length (fun p => v (get b (cellR b.length dir k p) (cellC b.length dir k p))) := by
    intro k; rw [line_eq, wsum_rangeMap]
  simp only [e]
  rw [← gsum_reindex b.length dir (fun k p => v (get b (cellR b.length dir k p) (cellC b.length dir k p)))]
  apply gsum_congr; intro i hi
  apply gsum_congr; intro j hj
  simp only [cellR_ix _ _ _ _ hi hj, cellC_ix _ _ _ _ hi hj]

/-- the weighted sum of the slid board is the sum over the slid lines -/
theorem boardW_slideBoard (v : Nat → Nat) (b : Board) (dir : Dir) :
    boardW v (slideBoard b dir) = gsum b.length (fun k => wsum v (slideSpec (line b.length b dir k))) := by
  rw [slideBoard_eq_tab, boardW_tab]
  have e : ∀ k, wsum v (slideSpec (line b.length b dir k)) =
      gsum b.length (fun p => v ((slideSpec (line b.length b dir k)).getD p 0)) := by
    intro k; exact wsum_eq_gsum v _ _ (by rw [slideSpec_length, line_length])
  simp only [e]
  exact gsum_reindex b.length dir (fun k p => v ((slideSpec (line b.length b dir k)).getD p 0))

/-- C07 (board): sliding the tiles in any direction conserves the sum of the tile values -/
theorem boardSum_slideBoard (b : Board) (dir : Dir) (hs : Square b) :
    boardSum (slideBoard b dir) = boardSum b := by
  rw [boardSum_eq_boardW, boardSum_eq_boardW, boardW_slideBoard, boardW_lines vTile b dir hs]
  apply gsum_congr; intro k _
  exact tileSum_slideSpec _

theorem boardReward_eq_gsum (b : Board) (dir : Dir) :
    boardReward b dir = gsum b.length (fun k => rowReward (line b.length b dir k)) := rfl

/-- C08 (board): the score potential grows by exactly the reward of the slide -/
theorem boardPot_slideBoard (b : Board) (dir : Dir) (hs : Square b) :
    boardPot (slideBoard b dir) = boardPot b + boardReward b dir := by
  rw [boardPot_eq_boardW, boardPot_eq_boardW, boardW_slideBoard, boardW_lines vPot b dir hs,
    boardReward_eq_gsum, ← gsum_add]
  apply gsum_congr; intro k _
  exact tilePot_slideSpec _

/-! ### shapes: `move`, `addRandomCell`, `step` keep the board square -/

theorem transformBoard_length (b : Board) (a : Int) : (transformBoard b a).length = b.length := by
  unfold transformBoard
  simp only []
  split <;> first | exact tab_length _ _ | rfl

theorem transformBoard_square (b : Board) (a : Int) (hs : Square b) : Square (transformBoard b a) := by
  unfold transformBoard
  simp only []
  split <;> first | exact tab_square _ _ | exact hs

theorem moveLeftRow_length (r : List Nat) : (moveLeftRow r).1.length = r.length := by
  rw [moveLeftRow_eq_spec]; exact slideSpec_length r

theorem moveLeft_length (b : Board) : (moveLeft b).1.length = b.length := by
  unfold moveLeft; simp

theorem moveLeft_square (b : Board) (hs : Square b) : Square (moveLeft b).1 := by
  intro r hr
  rw [moveLeft_length]
  unfold moveLeft at hr
  simp only [List.mem_map] at hr
  obtain ⟨r0, hr0, rfl⟩ := hr
  rw [moveLeftRow_length]; exact hs r0 hr0

/-- `move` keeps the board `n × n`, for EVERY action value (also out of range: `lax.switch` clamps) -/
theorem move_length (b : Board) (a : Int) : (move b a).1.length = b.length := by
  unfold move
  simp only []
  rw [transformBoard_length, moveLeft_length, transformBoard_length]

theorem move_square (b : Board) (a : Int) (hs : Square b) : Square (move b a).1 := by
  unfold move
  simp only []
  exact transformBoard_square _ _ (moveLeft_square _ (transformBoard_square _ _ hs))

theorem gridSetWD_length (g : Board) (r c : Int) (v : Nat) : (Jx.Grid.setWD g r c v).length = g.length := by
  unfold Jx.Grid.setWD
  simp only []
  repeat' split
  all_goals first | rfl | simp

theorem gridSetWD_square (g : Board) (r c : Int) (v : Nat) (hs : Square g) : Square (Jx.Grid.setWD g r c v) := by
  intro row hrow
  rw [gridSetWD_length]
  unfold Jx.Grid.setWD at hrow
  simp only [] at hrow
  repeat' split at hrow
  all_goals first
    | exact hs row hrow
    | (rename_i row0 hrow0 _ _
       rcases List.mem_or_eq_of_mem_set hrow with h | h
       · exact hs row h
       · rw [h, List.length_set]; exact hs row0 (List.mem_of_getElem? hrow0))

theorem addRandomCell_length (b : Board) (d : Draw) : (addRandomCell b d).length = b.length :=
  gridSetWD_length _ _ _ _

theorem addRandomCell_square (b : Board) (d : Draw) (hs : Square b) : Square (addRandomCell b d) :=
  gridSetWD_square _ _ _ _ hs

theorem step_board_length (s : State) (a : Int) (d : Draw) : (step s a d).1.board.length = s.board.length := by
  unfold step
  simp only []
  split
  · rw [addRandomCell_length, move_length]
  · rw [move_length]

/-- C07/C12: every step (any action value, any draw) keeps the board square -/
theorem step_square (s : State) (a : Int) (d : Draw) (hs : Square s.board) : Square (step s a d).1.board := by
  unfold step
  simp only []
  split
  · exact addRandomCell_square _ _ (move_square _ _ hs)
  · exact move_square _ _ hs

theorem step_shaped (n : Nat) (s : State) (a : Int) (d : Draw) (hs : Shaped s.board n) :
    Shaped (step s a d).1.board n := by
  rw [shaped_iff] at hs ⊢
  exact ⟨by rw [step_board_length]; exact hs.1, step_square s a d hs.2⟩

theorem reset_shaped (n : Nat) (d : Draw) : Shaped (reset n d).1.board n := by
  rw [shaped_iff]
  exact ⟨by show (addRandomCell _ d).length = n; rw [addRandomCell_length, tab_length],
    addRandomCell_square _ _ (tab_square _ _)⟩

/-- C12 without a hypothesis on the successor: from a square board the observation of every step is the
documented view of the successor state -/
theorem obs_faithful_of_square (s : State) (a : Int) (d : Draw) (hs : Square s.board) :
    (step s a d).2.obs = observe (step s a d).1 := obs_faithful s a d (step_square s a d hs)

theorem reset_obs_faithful (n : Nat) (d : Draw) : (reset n d).2.obs = observe (reset n d).1 := by
  have h := actionMask_eq_legalMask _ (square_of_shaped (reset_shaped n d))
  show ({ board := (reset n d).1.board, actionMask := actionMask (reset n d).1.board } : Obs) = _
  rw [h]; rfl

/-! ### the spawned tile -/

theorem sum_map_set {α : Type} (f : α → Nat) (l : List α) (i : Nat) (x : α) (hi : i < l.length) :
    ((l.set i x).map f).sum + f l[i] = (l.map f).sum + f x := by
  induction l generalizing i with
  | nil => simp at hi
  | cons y l ih =>
    cases i with
    | zero => simp only [List.set_cons_zero, List.map_cons, List.sum_cons, List.getElem_cons_zero]; omega
    | succ i =>
      simp only [List.set_cons_succ, List.map_cons, List.sum_cons, List.getElem_cons_succ]
      have := ih i (by simpa using hi)
      omega

theorem gridSetWD_nat (b : Board) (i j v : Nat) (hi : i < b.length) (hj : j < (b[i]).length) :
    Jx.Grid.setWD b (i : Int) (j : Int) v = b.set i ((b[i]).set j v) := by
  unfold Jx.Grid.setWD Jx.wrapIdx
  simp only []
  have h1 : ¬ ((i : Int) < 0) := by omega
  have h2 : ¬ ((i : Int) ≥ (b.length : Int)) := by omega
  simp only [h1, h2, if_false, Int.toNat_natCast]
  rw [List.getElem?_eq_getElem hi]
  simp only []
  have h3 : ¬ ((j : Int) < 0) := by omega
  have h4 : ¬ ((j : Int) ≥ ((b[i]).length : Int)) := by omega
  simp only [h3, h4, if_false, Int.toNat_natCast]

/-- a valid draw writes its tile on the chosen (empty) cell -/
theorem addRandomCell_eq (b : Board) (d : Draw) (hs : Square b) (hd : d.idx < b.length * b.length) :
    addRandomCell b d =
      b.set (d.idx / b.length) ((b.getD (d.idx / b.length) []).set (d.idx % b.length) d.val) := by
  have hn : 0 < b.length := by
    rcases Nat.eq_zero_or_pos b.length with h | h
    · rw [h] at hd; simp at hd
    · exact h
  have hi : d.idx / b.length < b.length := Nat.div_lt_of_lt_mul hd
  have hj : d.idx % b.length < b.length := Nat.mod_lt _ hn
  have hrow : (b[d.idx / b.length]).length = b.length := hs _ (List.getElem_mem hi)
  have hgd : b.getD (d.idx / b.length) [] = b[d.idx / b.length] := by
    simp [List.getD_eq_getElem?_getD, hi]
  unfold addRandomCell
  rw [gridSetWD_nat b _ _ d.val hi (by rw [hrow]; exact hj), hgd]

/-- weighted sum after a valid spawn: the weight of the new tile replaces the weight of the empty cell -/
theorem boardW_addRandomCell (v : Nat → Nat) (b : Board) (d : Draw) (hs : Square b) (hd : validDraw b d) :
    boardW v (addRandomCell b d) + v 0 = boardW v b + v d.val := by
  obtain ⟨hlt, hz, _⟩ := hd
  have hn : 0 < b.length := by
    rcases Nat.eq_zero_or_pos b.length with h | h
    · rw [h] at hlt; simp at hlt
    · exact h
  have hi : d.idx / b.length < b.length := Nat.div_lt_of_lt_mul hlt
  have hj : d.idx % b.length < b.length := Nat.mod_lt _ hn
  have hrow : (b[d.idx / b.length]).length = b.length := hs _ (List.getElem_mem hi)
  have hgd : b.getD (d.idx / b.length) [] = b[d.idx / b.length] := by
    simp [List.getD_eq_getElem?_getD, hi]
  rw [addRandomCell_eq b d hs hlt, hgd]
  have hcell : (b[d.idx / b.length])[d.idx % b.length]'(by rw [hrow]; exact hj) = 0 := by
    unfold get at hz
    rw [hgd] at hz
    simpa [List.getD_eq_getElem?_getD, hrow, hj] using hz
  have e1 := sum_map_set (wsum v) b (d.idx / b.length) ((b[d.idx / b.length]).set (d.idx % b.length) d.val) hi
  have e2 := sum_map_set v (b[d.idx / b.length]) (d.idx % b.length) d.val (by rw [hrow]; exact hj)
  rw [hcell] at e2
  unfold boardW
  unfold wsum at e1
  unfold wsum
  omega

/-- C07: a valid spawn adds exactly the value of the new tile (2 or 4) to the tile sum -/
theorem boardSum_addRandomCell (b : Board) (d : Draw) (hs : Square b) (hd : validDraw b d) :
    boardSum (addRandomCell b d) = boardSum b + 2 ^ d.val := by
  have h := boardW_addRandomCell vTile b d hs hd
  have hv : d.val ≠ 0 := by rcases hd.2.2 with h | h <;> omega
  rw [boardSum_eq_boardW, boardSum_eq_boardW]
  simp only [vTile, hv, if_false, if_true] at h
  omega

theorem boardSum_addRandomCell' (b : Board) (d : Draw) (hs : Square b) (hd : validDraw b d) :
    boardSum (addRandomCell b d) = boardSum b + 2 ∨ boardSum (addRandomCell b d) = boardSum b + 4 := by
  rw [boardSum_addRandomCell b d hs hd]
  rcases hd.2.2 with h | h <;> rw [h] <;> simp

/-- C08: a valid spawn adds the potential of the new tile (0 for a 2, 4 for a 4) -/
theorem boardPot_addRandomCell (b : Board) (d : Draw) (hs : Square b) (hd : validDraw b d) :
    boardPot (addRandomCell b d) = boardPot b + (d.val - 1) * 2 ^ d.val := by
  have h := boardW_addRandomCell vPot b d hs hd
  rw [boardPot_eq_boardW, boardPot_eq_boardW]
  simp only [vPot] at h
  omega

/-! ### a move that changes the board leaves an empty cell (C04/C05: a valid spawn draw always exists) -/

theorem compress_eq_self_of_length (r : List Nat) (h : (compress r).length = r.length) : compress r = r := by
  unfold compress at h ⊢
  exact List.filter_eq_self.2 (List.length_filter_eq_length_iff.1 h)

theorem mergePairs_eq_self_of_length (l : List Nat) (h : (mergePairs l).length = l.length) : mergePairs l = l := by
  fun_induction mergePairs l with
  | case1 a rest ih =>
    have := mergePairs_length_le rest
    simp only [List.length_cons] at h; omega
  | case2 a b rest hne ih =>
    simp only [List.length_cons] at h
    rw [ih (by simp only [List.length_cons]; omega)]
  | case3 l _ => rfl

/-- a slide that changes the line frees its far end -/
theorem slideSpec_last_zero (r : List Nat) (h : slideSpec r ≠ r) : (slideSpec r).getD (r.length - 1) 0 = 0 := by
  have h1 := mergePairs_length_le (compress r)
  have h2 := compress_length_le r
  by_cases e : (mergePairs (compress r)).length = r.length
  · exfalso; apply h
    have ec : compress r = r := compress_eq_self_of_length r (by omega)
    have em : mergePairs r = r := mergePairs_eq_self_of_length r (by rw [ec] at e; exact e)
    unfold slideSpec padTo
    rw [ec, em]; simp
  · unfold slideSpec padTo
    rw [List.getD_eq_getElem?_getD, List.getElem?_append_right (by omega)]
    cases hq : (List.replicate (r.length - (mergePairs (compress r)).length) 0)[r.length - 1 -
        (mergePairs (compress r)).length]? with
    | none => rfl
    | some x =>
      have := List.mem_of_getElem? hq
      rw [List.mem_replicate] at this
      simp [this.2]

theorem exists_changed_line (b : Board) (a : Nat) (hs : Square b) (hl : legal b a) :
    ∃ k, k < b.length ∧
      slideSpec (line b.length b (Dir.ofAction a) k) ≠ line b.length b (Dir.ofAction a) k := by
  apply Classical.byContradiction
  intro hno
  apply hl.2
  rw [slideBoard_fixed_iff b _ hs]
  intro k hk
  apply Classical.byContradiction
  intro hne
  exact hno ⟨k, hk, hne⟩

/-- after a legal move some cell of the board is empty -/
theorem exists_empty_of_legal (b : Board) (a : Nat) (hs : Square b) (hl : legal b a) :
    ∃ i j, i < b.length ∧ j < b.length ∧ get (slideBoard b (Dir.ofAction a)) i j = 0 := by
  obtain ⟨k, hk, hne⟩ := exists_changed_line b a hs hl
  have hp : b.length - 1 < b.length := by omega
  refine ⟨cellR b.length (Dir.ofAction a) k (b.length - 1), cellC b.length (Dir.ofAction a) k (b.length - 1),
    cellR_lt _ _ _ _ hk hp, cellC_lt _ _ _ _ hk hp, ?_⟩
  rw [get_slideBoard b _ _ _ (cellR_lt _ _ _ _ hk hp) (cellC_lt _ _ _ _ hk hp),
    lineIx_cell _ _ _ _ hk hp, posIx_cell _ _ _ _ hk hp]
  have := slideSpec_last_zero _ hne
  rw [line_length] at this
  exact this

/-- C05/C04: whenever the rules allow a move, `_add_random_cell` has a cell to choose: a valid draw exists
(for either tile value) -/
theorem exists_validDraw_of_legal (b : Board) (a : Nat) (hs : Square b) (hl : legal b a) (v : Nat)
    (hv : v = 1 ∨ v = 2) : ∃ d : Draw, d.val = v ∧ validDraw (slideBoard b (Dir.ofAction a)) d := by
  obtain ⟨i, j, hi, hj, hz⟩ := exists_empty_of_legal b a hs hl
  have hn : 0 < b.length := by omega
  refine ⟨⟨b.length * i + j, v⟩, rfl, ?_⟩
  unfold validDraw
  rw [slideBoard_length]
  have hdiv : (b.length * i + j) / b.length = i := by
    rw [Nat.mul_add_div hn, Nat.div_eq_of_lt hj]; rfl
  have hmod : (b.length * i + j) % b.length = j := by
    rw [Nat.mul_add_mod, Nat.mod_eq_of_lt hj]
  refine ⟨?_, ?_, hv⟩
  · have : b.length * (i + 1) ≤ b.length * b.length := Nat.mul_le_mul_left _ (by omega)
    rw [Nat.mul_succ] at this
    show b.length * i + j < _
    omega
  · show get _ ((b.length * i + j) / b.length) ((b.length * i + j) % b.length) = 0
    rw [hdiv, hmod]; exact hz

/-! ### `Consistent` (C07): established by `reset`, preserved by every step -/

theorem boardW_zero_tab (n : Nat) : boardW vTile (tab n (fun _ _ => 0)) = 0 := by
  rw [boardW_tab]
  have h0 : vTile 0 = 0 := rfl
  simp only [h0, gsum_const_zero]

/-- the reset state is consistent: square board, exactly one tile (a 2 or a 4), fresh mask, no score -/
theorem reset_consistent (n : Nat) (d : Draw) (hd : validDraw (tab n (fun _ _ => 0)) d) :
    Consistent n (reset n d).1 := by
  have hsh := reset_shaped n d
  have hsum : boardSum (reset n d).1.board = 2 ∨ boardSum (reset n d).1.board = 4 := by
    have := boardSum_addRandomCell' _ d (tab_square n _) hd
    have h0 : boardSum (tab n (fun _ _ => 0)) = 0 := boardW_zero_tab n
    rw [h0] at this
    simp only [Nat.zero_add] at this
    exact this
  refine ⟨hsh, ?_, ?_, ?_, ?_⟩
  · rcases hsum with h | h <;> rw [h] <;> omega
  · exact actionMask_eq_legalMask _ (square_of_shaped hsh)
  · show (0 : Rat) ≤ 0; exact Rat.le_refl
  · intro _; exact ⟨hsum, rfl⟩

theorem consistent_square {n : Nat} {s : State} (h : Consistent n s) : Square s.board := square_of_shaped h.1

theorem consistent_mask {n : Nat} {s : State} (h : Consistent n s) : s.actionMask = actionMask s.board := by
  rw [h.2.2.1]; exact (actionMask_eq_legalMask _ (consistent_square h)).symm

/-- board of the successor of a legal move: the slid board with the drawn tile -/
theorem step_board_legal (s : State) (a : Nat) (d : Draw) (ha : a < 4) (hs : Square s.board)
    (hm : s.actionMask = actionMask s.board) (hl : legal s.board a) :
    (step s a d).1.board = addRandomCell (slideBoard s.board (Dir.ofAction a)) d := by
  have hsp := (step_agrees s a ha hs hm).2 hl
  unfold step
  simp only [hsp, if_true, move_eq_spec s.board a ha hs]

theorem score_nonneg_step (s : State) (a : Int) (d : Draw) (h : 0 ≤ s.score) : 0 ≤ (step s a d).1.score := by
  show 0 ≤ s.score + ((move s.board a).2 : Rat)
  exact Rat.add_nonneg h Rat.natCast_nonneg

/-- C07: every step with an action 0..3 from a consistent state leads to a consistent state (terminal steps
included); the draw only has to be valid when the rules allow the move (otherwise nothing is spawned) -/
theorem step_consistent (n : Nat) (s : State) (a : Nat) (d : Draw) (ha : a < 4) (hc : Consistent n s)
    (hd : legal s.board a → validDraw (slideBoard s.board (Dir.ofAction a)) d) :
    Consistent n (step s a d).1 := by
  have hs := consistent_square hc
  have hm := consistent_mask hc
  have hsh := step_shaped n s a d hc.1
  refine ⟨hsh, ?_, ?_, score_nonneg_step s a d hc.2.2.2.1, ?_⟩
  · by_cases hl : legal s.board a
    · rw [step_board_legal s a d ha hs hm hl, boardSum_addRandomCell _ d (slideBoard_square _ _) (hd hl)]
      have : 0 < 2 ^ d.val := Nat.pow_pos (by omega)
      omega
    · rw [(illegal_ignored s a d ha hs hm hl).1]; exact hc.2.1
  · exact actionMask_eq_legalMask _ (square_of_shaped hsh)
  · intro h0
    exfalso
    have : (step s a d).1.stepCount = s.stepCount + 1 := rfl
    omega

/-- C07 (`conserved`): across a whole step the tile sum grows by exactly the new tile (2 or 4) when the move is
legal, and every tile stays where it is when it is not -/
theorem step_conserved (n : Nat) (s : State) (a : Nat) (d : Draw) (ha : a < 4) (hc : Consistent n s)
    (hd : legal s.board a → validDraw (slideBoard s.board (Dir.ofAction a)) d) :
    conservedStep s.board a (step s a d).1.board = true := by
  have hs := consistent_square hc
  have hm := consistent_mask hc
  unfold conservedStep
  by_cases hl : legal s.board a
  · simp only [hl, decide_true, if_true]
    rw [step_board_legal s a d ha hs hm hl]
    rcases boardSum_addRandomCell' _ d (slideBoard_square _ _) (hd hl) with h | h
    · rw [h, boardSum_slideBoard _ _ hs]; simp
    · rw [h, boardSum_slideBoard _ _ hs]; simp
  · simp only [hl, decide_false, Bool.false_eq_true, if_false]
    rw [(illegal_ignored s a d ha hs hm hl).1]; simp

end Game2048
