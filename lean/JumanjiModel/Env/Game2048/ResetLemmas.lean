/-
Game2048, C10: the transliterated `reset` (`_generate_board` = zeros + `_add_random_cell`, the draw being the
(cell, exponent) pair) yields, for EVERY board size and EVERY valid draw, a board with exactly one tile — at the
drawn cell, holding the drawn exponent 1 or 2 — score 0, step count 0 and a mask equal to the L2 legality.
Also the cell-wise effect of a spawn along play.
-/
import JumanjiModel.Env.Game2048.BoardLemmas
namespace Game2048
open Jm

def vOne (e : Nat) : Nat := if e = 0 then 0 else 1

theorem tileCount_eq_boardW (b : Board) : tileCount b = boardW vOne b := rfl

theorem tileCount_zero_tab (n : Nat) : tileCount (tab n (fun _ _ => 0)) = 0 := by
  rw [tileCount_eq_boardW, boardW_tab]
  have h0 : vOne 0 = 0 := rfl
  simp only [h0, gsum_const_zero]

/-- a valid spawn adds exactly one tile -/
theorem tileCount_addRandomCell (b : Board) (d : Draw) (hs : Square b) (hd : validDraw b d) :
    tileCount (addRandomCell b d) = tileCount b + 1 := by
  have h := boardW_addRandomCell vOne b d hs hd
  have hv : d.val ≠ 0 := by rcases hd.2.2 with h | h <;> omega
  rw [tileCount_eq_boardW, tileCount_eq_boardW]
  simp only [vOne, hv, if_false, if_true] at h
  omega

theorem get_set_set (b : Board) (i j v i' j' : Nat) (hi : i < b.length) (hj : j < (b.getD i []).length) :
    get (b.set i ((b.getD i []).set j v)) i' j' = if i' = i ∧ j' = j then v else get b i' j' := by
  unfold get
  by_cases h1 : i' = i
  · subst h1
    have e : (b.set i' ((b.getD i' []).set j v)).getD i' [] = (b.getD i' []).set j v := by
      simp [List.getD_eq_getElem?_getD, hi]
    rw [e]
    by_cases h2 : j' = j
    · subst h2
      have hj' : j' < ((b.getD i' []).set j' v).length := by rw [List.length_set]; exact hj
      rw [List.getD_eq_getElem?_getD, List.getElem?_eq_getElem hj']
      simp
    · have : ¬ (j = j') := fun h => h2 h.symm
      simp [List.getD_eq_getElem?_getD, List.getElem?_set, h2, this]
  · have : ¬ (i = i') := fun h => h1 h.symm
    have e : (b.set i ((b.getD i []).set j v)).getD i' [] = b.getD i' [] := by
      simp [List.getD_eq_getElem?_getD, List.getElem?_set, this]
    rw [e]; simp [h1]

/-- cell-wise effect of `_add_random_cell` with a draw inside the board: the drawn cell gets the drawn exponent,
every other cell is untouched -/
theorem addRandomCell_get (b : Board) (d : Draw) (hs : Square b) (hd : d.idx < b.length * b.length) (i j : Nat) :
    get (addRandomCell b d) i j =
      if i = d.idx / b.length ∧ j = d.idx % b.length then d.val else get b i j := by
  have hn : 0 < b.length := by
    rcases Nat.eq_zero_or_pos b.length with h | h
    · rw [h] at hd; simp at hd
    · exact h
  have hi : d.idx / b.length < b.length := Nat.div_lt_of_lt_mul hd
  have hj : d.idx % b.length < b.length := Nat.mod_lt _ hn
  have hgd : b.getD (d.idx / b.length) [] = b[d.idx / b.length] := by
    simp [List.getD_eq_getElem?_getD, hi]
  have hrow : (b.getD (d.idx / b.length) []).length = b.length := by
    rw [hgd]; exact hs _ (List.getElem_mem hi)
  rw [addRandomCell_eq b d hs hd]
  exact get_set_set b _ _ d.val i j hi (by rw [hrow]; exact hj)

/-- C10: the reset state for every size and every valid first draw -/
theorem reset_instanceOK (n : Nat) (d : Draw) (hd : validDraw (tab n (fun _ _ => 0)) d) :
    InstanceOK n (reset n d).1 := by
  have hc := reset_consistent n d hd
  refine ⟨hc.1, ?_, (hc.2.2.2.2 rfl).1, rfl, rfl, hc.2.2.1⟩
  show tileCount (addRandomCell _ d) = 1
  rw [tileCount_addRandomCell _ d (tab_square n _) hd, tileCount_zero_tab]

/-- … cell by cell: the drawn cell holds the drawn exponent, all other cells are empty -/
theorem reset_cells (n : Nat) (d : Draw) (hd : validDraw (tab n (fun _ _ => 0)) d) (i j : Nat) (hi : i < n)
    (hj : j < n) :
    get (reset n d).1.board i j = if i = d.idx / n ∧ j = d.idx % n then d.val else 0 := by
  have hl : (tab n (fun _ _ => 0)).length = n := tab_length n _
  have h1 : d.idx < (tab n (fun _ _ => 0)).length * (tab n (fun _ _ => 0)).length := hd.1
  show get (addRandomCell _ d) i j = _
  rw [addRandomCell_get _ d (tab_square n _) h1 i j, hl, get_tab n _ i j hi hj]

/-! ### the certificate characterises the range of `reset` -/

theorem gsum_eq_zero (n : Nat) (f : Nat → Nat) (h : gsum n f = 0) : ∀ i, i < n → f i = 0 := by
  induction n with
  | zero => intro i hi; omega
  | succ n ih =>
    rw [gsum_succ] at h
    intro i hi
    by_cases e : i = n
    · subst e; omega
    · exact ih (by omega) i (by omega)

theorem gsum_eq_one (n : Nat) (f : Nat → Nat) (h : gsum n f = 1) :
    ∃ k, k < n ∧ f k = 1 ∧ ∀ i, i < n → i ≠ k → f i = 0 := by
  induction n with
  | zero => rw [gsum_zero] at h; omega
  | succ n ih =>
    rw [gsum_succ] at h
    by_cases e : f n = 0
    · obtain ⟨k, hk, h1, h2⟩ := ih (by omega)
      refine ⟨k, by omega, h1, ?_⟩
      intro i hi hne
      by_cases e' : i = n
      · subst e'; exact e
      · exact h2 i (by omega) hne
    · have hz := gsum_eq_zero n f (by omega)
      refine ⟨n, by omega, by omega, ?_⟩
      intro i hi hne
      exact hz i (by omega)

theorem gsum_single (n : Nat) (f : Nat → Nat) (k : Nat) (hk : k < n) (h : ∀ i, i < n → i ≠ k → f i = 0) :
    gsum n f = f k := by
  induction n with
  | zero => omega
  | succ n ih =>
    rw [gsum_succ]
    by_cases e : k = n
    · subst e
      have : gsum k f = 0 := by
        rw [gsum_congr k f (fun _ => 0) (fun i hi => h i (by omega) (by omega))]; exact gsum_const_zero k
      omega
    · rw [ih (by omega) (fun i hi hne => h i (by omega) hne), h n (by omega) (fun e' => e e'.symm)]
      rfl

/-- a square board with exactly one tile: the tile's cell, and every other cell is empty -/
theorem one_tile_cell (b : Board) (hs : Square b) (h1 : tileCount b = 1) :
    ∃ i0 j0, i0 < b.length ∧ j0 < b.length ∧ get b i0 j0 ≠ 0 ∧
      ∀ i j, i < b.length → j < b.length → ¬ (i = i0 ∧ j = j0) → get b i j = 0 := by
  rw [tileCount_eq_boardW, boardW_square vOne b hs] at h1
  obtain ⟨i0, hi0, hrow, hrest⟩ := gsum_eq_one _ _ h1
  obtain ⟨j0, hj0, hcell, hrest'⟩ := gsum_eq_one _ _ hrow
  have hv : ∀ e, vOne e = 0 → e = 0 := by
    intro e he; unfold vOne at he; split at he <;> simp_all
  refine ⟨i0, j0, hi0, hj0, ?_, ?_⟩
  · intro e; rw [e] at hcell; simp [vOne] at hcell
  · intro i j hi hj hne
    apply hv
    by_cases e : i = i0
    · subst e
      exact hrest' j hj (fun e' => hne ⟨rfl, e'⟩)
    · exact gsum_eq_zero _ _ (hrest i hi e) j hj

theorem square_ext (b b' : Board) (hs : Square b) (hs' : Square b') (hl : b'.length = b.length)
    (h : ∀ i j, i < b.length → j < b.length → get b' i j = get b i j) : b' = b := by
  rw [← tab_get_self b hs, ← tab_get_self b' hs', hl]
  exact tab_congr _ _ _ (fun i hi j hj => h i j hi hj)

/-- C10: every state passing the certificate is the transliterated `reset` of a valid draw, namely of the draw read off
its board -/
theorem instance_is_reset (n : Nat) (s : State) (h : InstanceOK n s) :
    validDraw (tab n (fun _ _ => 0)) (drawOf s.board) ∧ (reset n (drawOf s.board)).1 = s := by
  obtain ⟨hsh, h1, hsum, hsc, hst, hm⟩ := h
  have hs := square_of_shaped hsh
  have hlen : s.board.length = n := hsh.1
  obtain ⟨i0, j0, hi0, hj0, hne, hrest⟩ := one_tile_cell s.board hs h1
  rw [hlen] at hi0 hj0 hrest
  have hn : 0 < n := by omega
  -- the search finds the tile
  have hfind : ∃ k, k < n * n ∧ k / n = i0 ∧ k % n = j0 ∧
      drawOf s.board = ⟨k, get s.board i0 j0⟩ := by
    unfold drawOf
    simp only [hlen]
    cases hf : (List.range (n * n)).find? (fun k => get s.board (k / n) (k % n) != 0) with
    | none =>
      exfalso
      rw [List.find?_eq_none] at hf
      have hk : i0 * n + j0 < n * n := by
        have : (i0 + 1) * n ≤ n * n := Nat.mul_le_mul_right n hi0
        rw [Nat.succ_mul] at this; omega
      have := hf (i0 * n + j0) (List.mem_range.2 hk)
      have e1 : (i0 * n + j0) / n = i0 := by
        rw [Nat.mul_comm, Nat.mul_add_div hn, Nat.div_eq_of_lt hj0]; rfl
      have e2 : (i0 * n + j0) % n = j0 := by
        rw [Nat.mul_comm, Nat.mul_add_mod, Nat.mod_eq_of_lt hj0]
      rw [e1, e2] at this
      simp at this
      exact hne this
    | some k =>
      have hk : k < n * n := List.mem_range.1 (List.mem_of_find?_eq_some hf)
      have hp := List.find?_some hf
      simp only [bne_iff_ne, ne_eq] at hp
      have hi : k / n < n := Nat.div_lt_of_lt_mul hk
      have hj : k % n < n := Nat.mod_lt _ hn
      have hcell : k / n = i0 ∧ k % n = j0 := by
        apply Classical.byContradiction
        intro hc
        exact hp (hrest _ _ hi hj hc)
      exact ⟨k, hk, hcell.1, hcell.2, by simp only [hcell.1, hcell.2]⟩
  obtain ⟨k, hk, hki, hkj, hd⟩ := hfind
  rw [hd]
  -- the board is the empty board plus that tile
  have htl : (tab n (fun _ _ => 0)).length = n := tab_length n _
  have hboard : addRandomCell (tab n (fun _ _ => 0)) ⟨k, get s.board i0 j0⟩ = s.board := by
    apply square_ext _ _ hs (addRandomCell_square _ _ (tab_square n _))
    · rw [addRandomCell_length, htl, hlen]
    · intro i j hi hj
      rw [hlen] at hi hj
      rw [addRandomCell_get _ _ (tab_square n _) (by rw [htl]; exact hk), htl, get_tab n _ i j hi hj]
      simp only [hki, hkj]
      by_cases hc : i = i0 ∧ j = j0
      · rw [if_pos hc, hc.1, hc.2]
      · rw [if_neg hc, hrest i j hi hj hc]
  -- its exponent is 1 or 2
  have hval : get s.board i0 j0 = 1 ∨ get s.board i0 j0 = 2 := by
    have e : boardSum s.board = vTile (get s.board i0 j0) := by
      rw [boardSum_eq_boardW, boardW_square vTile _ hs, hlen]
      rw [gsum_single n _ i0 hi0, gsum_single n _ j0 hj0]
      · intro j hj hjne
        rw [hrest i0 j hi0 hj (fun hc => hjne hc.2)]; rfl
      · intro i hi hine
        rw [gsum_congr n _ (fun _ => 0) (fun j hj => by
          rw [hrest i j hi hj (fun hc => hine hc.1)]; rfl)]
        exact gsum_const_zero n
    rw [e] at hsum
    simp only [vTile, hne, if_false] at hsum
    generalize get s.board i0 j0 = v at hsum hne
    match v, hne, hsum with
    | 1, _, _ => exact Or.inl rfl
    | 2, _, _ => exact Or.inr rfl
    | v + 3, _, hsum =>
      have : 8 ≤ 2 ^ (v + 3) := by
        rw [Nat.pow_add]; have := Nat.one_le_two_pow (n := v); omega
      omega
  refine ⟨⟨by rw [htl]; exact hk, ?_, hval⟩, ?_⟩
  · rw [htl]
    exact get_tab n _ _ _ (Nat.div_lt_of_lt_mul hk) (Nat.mod_lt _ hn)
  · have hmask : actionMask s.board = s.actionMask := by
      rw [hm]; exact actionMask_eq_legalMask _ hs
    cases s with
    | mk board sc am score =>
      simp only at hboard hmask hsc hst
      simp only [reset, hboard, hmask, hsc, hst]

end Game2048
