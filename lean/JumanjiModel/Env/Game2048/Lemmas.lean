import JumanjiModel.Env.Game2048.Model
import JumanjiModel.Prim.Lemmas
namespace Game2048
open Jm

/-! ### list plumbing -/

theorem getD_mid (p : List Nat) (x : Nat) (s : List Nat) : (p ++ x :: s).getD p.length 0 = x := by
  simp [List.getD_eq_getElem?_getD]

theorem set_mid (p : List Nat) (x y : Nat) (s : List Nat) : (p ++ x :: s).set p.length y = p ++ y :: s := by
  simp

theorem replicate_zero_cons (k : Nat) (s : List Nat) :
    List.replicate k 0 ++ 0 :: s = List.replicate (k + 1) 0 ++ s := by
  induction k with
  | zero => rfl
  | succ k ih => simp [List.replicate_succ] at ih ⊢; exact ih

theorem replicate_zero_cons' (k : Nat) (s : List Nat) :
    List.replicate k 0 ++ 0 :: s = 0 :: (List.replicate k 0 ++ s) := by
  rw [replicate_zero_cons]; rfl

theorem set2 (done : List Nat) (cur k x a b : Nat) (suf : List Nat) :
    ((done ++ cur :: (List.replicate k 0 ++ x :: suf)).set done.length a).set (done.length + 1 + k) b =
      done ++ a :: (List.replicate k 0 ++ b :: suf) := by
  rw [set_mid]
  have hpl : (done ++ a :: List.replicate k 0).length = done.length + 1 + k := by simp; omega
  have hrow : done ++ a :: (List.replicate k 0 ++ x :: suf) = (done ++ a :: List.replicate k 0) ++ x :: suf := by simp
  rw [hrow, ← hpl, set_mid]; simp

/-- pending tile `cur` (0 = none) in front of the compressed rest -/
def headC (cur : Nat) (l : List Nat) : List Nat := if cur = 0 then l else cur :: l

theorem padTo_cons (n a : Nat) (l : List Nat) : padTo (n + 1) (a :: l) = a :: padTo n l := by
  simp [padTo]

theorem padTo_nil (n : Nat) : padTo n [] = List.replicate n 0 := by simp [padTo]

theorem compress_cons_zero (s : List Nat) : compress (0 :: s) = compress s := by simp [compress]
theorem compress_cons_pos (x : Nat) (s : List Nat) (h : x ≠ 0) : compress (x :: s) = x :: compress s := by
  simp [compress, h]

theorem mergePairs_eq (a : Nat) (l : List Nat) : mergePairs (a :: a :: l) = (a + 1) :: mergePairs l := by
  simp [mergePairs]
theorem mergePairs_ne (a b : Nat) (l : List Nat) (h : a ≠ b) :
    mergePairs (a :: b :: l) = a :: mergePairs (b :: l) := by
  simp [mergePairs, h]
theorem mergeReward_eq (a : Nat) (l : List Nat) : mergeReward (a :: a :: l) = 2 ^ (a + 1) + mergeReward l := by
  simp [mergeReward]
theorem mergeReward_ne (a b : Nat) (l : List Nat) (h : a ≠ b) :
    mergeReward (a :: b :: l) = mergeReward (b :: l) := by
  simp [mergeReward, h]

/-! ### the `move_left_row` loop refines the slide specification (rows of any length) -/

/-- one `shift` step of the loop: empty target, tile at the origin -/
theorem moveLoop_shift (done : List Nat) (k x rew : Nat) (suf : List Nat) (hx : x ≠ 0) :
    moveLoop (done ++ 0 :: (List.replicate k 0 ++ x :: suf)) rew done.length (done.length + 1 + k) =
    moveLoop (done ++ x :: (List.replicate (k + 1) 0 ++ suf)) rew done.length (done.length + 1 + (k + 1)) := by
  have hlen : done.length + 1 + k < (done ++ 0 :: (List.replicate k 0 ++ x :: suf)).length ∧
      done.length < done.length + 1 + k := by simp; omega
  have hpl : (done ++ 0 :: List.replicate k 0).length = done.length + 1 + k := by simp; omega
  have hrow : done ++ 0 :: (List.replicate k 0 ++ x :: suf) = (done ++ 0 :: List.replicate k 0) ++ x :: suf := by simp
  have ht : (done ++ 0 :: (List.replicate k 0 ++ x :: suf)).getD done.length 0 = 0 := getD_mid _ _ _
  have ho : (done ++ 0 :: (List.replicate k 0 ++ x :: suf)).getD (done.length + 1 + k) 0 = x := by
    rw [hrow, ← hpl]; exact getD_mid _ _ _
  rw [moveLoop, dif_pos hlen]
  simp only [ht, ho]
  have hx' : (x != 0) = true := by simp [hx]
  have hx'' : ((0 : Nat) == x) = false := by simp; omega
  simp only [hx', hx'', Bool.true_and, Bool.false_eq_true, if_false, beq_self_eq_true, if_true]
  rw [set2, replicate_zero_cons]
  rfl

theorem moveLoop_spec (suf : List Nat) : ∀ (done : List Nat) (cur k rew : Nat),
    moveLoop (done ++ cur :: (List.replicate k 0 ++ suf)) rew done.length (done.length + 1 + k) =
      (done ++ padTo (1 + k + suf.length) (mergePairs (headC cur (compress suf))),
       rew + mergeReward (headC cur (compress suf))) := by
  induction suf with
  | nil =>
    intro done cur k rew
    rw [moveLoop]
    have : ¬ (done.length + 1 + k < (done ++ cur :: (List.replicate k 0 ++ [])).length ∧
        done.length < done.length + 1 + k) := by simp; omega
    rw [dif_neg this]
    unfold headC compress
    by_cases hc : cur = 0
    · subst hc
      simp [mergePairs, mergeReward, padTo_nil, Nat.add_comm 1 k, List.replicate_succ]
    · simp [hc, mergePairs, mergeReward, padTo]
  | cons x suf ih =>
    intro done cur k rew
    have hlen : done.length + 1 + k < (done ++ cur :: (List.replicate k 0 ++ x :: suf)).length ∧
        done.length < done.length + 1 + k := by simp; omega
    have hpl : (done ++ cur :: List.replicate k 0).length = done.length + 1 + k := by simp; omega
    have hrow : done ++ cur :: (List.replicate k 0 ++ x :: suf) = (done ++ cur :: List.replicate k 0) ++ x :: suf := by simp
    have ht : (done ++ cur :: (List.replicate k 0 ++ x :: suf)).getD done.length 0 = cur := getD_mid _ _ _
    have ho : (done ++ cur :: (List.replicate k 0 ++ x :: suf)).getD (done.length + 1 + k) 0 = x := by
      rw [hrow, ← hpl]; exact getD_mid _ _ _
    by_cases hsh : cur = 0 ∧ x ≠ 0
    · -- shift
      obtain ⟨hc, hx⟩ := hsh
      subst hc
      rw [moveLoop_shift _ _ _ _ _ hx, ih done x (k + 1) rew, compress_cons_pos _ _ hx]
      simp only [headC, hx, if_false, if_true, List.length_cons]
      rw [show 1 + (k + 1) + suf.length = 1 + k + (suf.length + 1) by omega]
    rw [moveLoop, dif_pos hlen]
    simp only [ht, ho]
    by_cases hx : x = 0
    · -- origin empty: no_op, origin index advances
      subst hx
      simp only [bne_self_eq_false, Bool.false_and, Bool.false_eq_true, if_false, beq_self_eq_true,
        Bool.true_or, if_true, Nat.add_zero]
      rw [replicate_zero_cons]
      have := ih done cur (k + 1) rew
      rw [show done.length + 1 + (k + 1) = done.length + 1 + k + 1 from rfl] at this
      rw [this, compress_cons_zero]
      simp only [List.length_cons]
      rw [show 1 + (k + 1) + suf.length = 1 + k + (suf.length + 1) by omega]
    · have hx' : (x != 0) = true := by simp [hx]
      simp only [hx', Bool.true_and]
      by_cases hm : cur = x
      · -- merge
        subst hm
        simp only [beq_self_eq_true, if_true]
        rw [set2, replicate_zero_cons']
        have := ih (done ++ [cur + 1]) 0 k (rew + 2 ^ (cur + 1))
        simp only [List.length_append, List.length_singleton, List.append_assoc, List.singleton_append] at this
        rw [show done.length + 1 + k + 1 = done.length + 1 + 1 + k by omega, this, compress_cons_pos _ _ hx]
        simp only [headC, hx, if_false, if_true, mergePairs_eq, mergeReward_eq, List.length_cons]
        rw [show 1 + k + (suf.length + 1) = (1 + k + suf.length) + 1 by omega, padTo_cons]
        simp [Nat.add_assoc]
      · have hm' : (cur == x) = false := by simp [hm]
        have hc : cur ≠ 0 := fun h => hsh ⟨h, hx⟩
        -- no_op, target index advances
        have hc' : (cur == 0) = false := by simp [hc]
        simp only [hm', hc', Bool.false_eq_true, if_false, if_true]
        have hx0 : (x == 0) = false := by simp [hx]
        rw [compress_cons_pos _ _ hx]
        simp only [headC, hc, hx, if_false, mergePairs_ne _ _ _ hm, mergeReward_ne _ _ _ hm, List.length_cons]
        cases k with
        | zero =>
          simp only [hx0, Bool.false_or, Nat.add_zero, beq_self_eq_true, if_true, List.replicate_zero, List.nil_append]
          have := ih (done ++ [cur]) x 0 rew
          simp only [List.length_append, List.length_singleton, List.append_assoc, List.singleton_append,
            List.replicate_zero, List.nil_append, Nat.add_zero] at this
          rw [this]
          simp only [headC, hx, if_false]
          rw [show 1 + 0 + (suf.length + 1) = (1 + 0 + suf.length) + 1 by omega, padTo_cons]
        | succ k =>
          have hne : (done.length + 1 == done.length + 1 + (k + 1)) = false := by simp
          simp only [hx0, hne, Bool.false_or, Bool.false_eq_true, if_false]
          have e : done ++ cur :: (List.replicate (k + 1) 0 ++ x :: suf) =
              (done ++ [cur]) ++ 0 :: (List.replicate k 0 ++ x :: suf) := by
            simp [List.replicate_succ]
          have := moveLoop_shift (done ++ [cur]) k x rew suf hx
          simp only [List.length_append, List.length_singleton] at this
          rw [e, show done.length + 1 + (k + 1) = done.length + 1 + 1 + k by omega, this]
          have := ih (done ++ [cur]) x (k + 1) rew
          simp only [List.length_append, List.length_singleton] at this
          rw [this]
          simp only [headC, hx, if_false, List.append_assoc, List.singleton_append]
          rw [show 1 + (k + 1) + (suf.length + 1) = (1 + (k + 1) + suf.length) + 1 by omega, padTo_cons]

theorem compress_cons (cur : Nat) (suf : List Nat) : compress (cur :: suf) = headC cur (compress suf) := by
  by_cases h : cur = 0
  · subst h; simp [compress_cons_zero, headC]
  · simp [compress_cons_pos _ _ h, headC, h]

/-- C09 key theorem: for a row of ANY length the L1 loop computes the L2 slide and its reward -/
theorem moveLeftRow_eq_spec (r : List Nat) : moveLeftRow r = (slideSpec r, rowReward r) := by
  cases r with
  | nil =>
    unfold moveLeftRow; rw [moveLoop]
    simp [slideSpec, rowReward, compress, mergePairs, mergeReward, padTo]
  | cons cur suf =>
    have := moveLoop_spec suf [] cur 0 0
    simp only [List.nil_append, List.length_nil, List.replicate_zero, Nat.zero_add, Nat.add_zero] at this
    unfold moveLeftRow slideSpec rowReward
    rw [this, compress_cons]
    simp [Nat.add_comm]

/-! ### `can_move_left_row` = "the slide changes the row" -/

theorem canLoop_true (row : List Nat) (t o : Nat) : canLoop row true t o = true := by
  rw [canLoop]; simp

theorem mergePairs_head (x : Nat) (l : List Nat) (hx : x ≠ 0) :
    ∃ y l', mergePairs (x :: l) = y :: l' ∧ y ≠ 0 ∧ (l ≠ [] → l.head? = some x → y = x + 1) := by
  cases l with
  | nil => exact ⟨x, [], by simp [mergePairs], hx, by simp⟩
  | cons b rest =>
    by_cases h : x = b
    · subst h; exact ⟨x + 1, mergePairs rest, mergePairs_eq _ _, by omega, by simp⟩
    · refine ⟨x, mergePairs (b :: rest), mergePairs_ne _ _ _ h, hx, ?_⟩
      intro _ hh; simp at hh; exact absurd hh.symm h

/-- the loop stops with `true` when the origin tile can shift into an empty target or merge -/
theorem canLoop_hit (done : List Nat) (cur k x : Nat) (suf : List Nat) (hx : x ≠ 0) (h : cur = 0 ∨ cur = x) :
    canLoop (done ++ cur :: (List.replicate k 0 ++ x :: suf)) false done.length (done.length + 1 + k) = true := by
  have hlen : false = false ∧ done.length + 1 + k < (done ++ cur :: (List.replicate k 0 ++ x :: suf)).length ∧
      done.length < done.length + 1 + k := by simp; omega
  have hpl : (done ++ cur :: List.replicate k 0).length = done.length + 1 + k := by simp; omega
  have hrow : done ++ cur :: (List.replicate k 0 ++ x :: suf) = (done ++ cur :: List.replicate k 0) ++ x :: suf := by simp
  have ht : (done ++ cur :: (List.replicate k 0 ++ x :: suf)).getD done.length 0 = cur := getD_mid _ _ _
  have ho : (done ++ cur :: (List.replicate k 0 ++ x :: suf)).getD (done.length + 1 + k) 0 = x := by
    rw [hrow, ← hpl]; exact getD_mid _ _ _
  rw [canLoop, dif_pos hlen]
  simp only [ht, ho]
  have : ((x != 0) && (cur == 0 || cur == x)) = true := by
    rcases h with h | h <;> simp [h, hx]
  rw [this, canLoop_true]

theorem canLoop_spec (suf : List Nat) : ∀ (done : List Nat) (cur k : Nat),
    canLoop (done ++ cur :: (List.replicate k 0 ++ suf)) false done.length (done.length + 1 + k) =
      decide (padTo (1 + k + suf.length) (mergePairs (headC cur (compress suf))) ≠
        cur :: (List.replicate k 0 ++ suf)) := by
  induction suf with
  | nil =>
    intro done cur k
    rw [canLoop]
    have : ¬ (false = false ∧ done.length + 1 + k < (done ++ cur :: (List.replicate k 0 ++ [])).length ∧
        done.length < done.length + 1 + k) := by simp; omega
    rw [dif_neg this]
    unfold headC compress
    by_cases hc : cur = 0
    · subst hc
      simp [mergePairs, padTo_nil, Nat.add_comm 1 k, List.replicate_succ]
    · simp [hc, mergePairs, padTo]
  | cons x suf ih =>
    intro done cur k
    by_cases hhit : x ≠ 0 ∧ (cur = 0 ∨ cur = x)
    · obtain ⟨hx, h⟩ := hhit
      rw [canLoop_hit done cur k x suf hx h, compress_cons_pos _ _ hx]
      symm; rw [decide_eq_true_iff]
      simp only [List.length_cons]
      rw [show 1 + k + (suf.length + 1) = (k + suf.length + 1) + 1 by omega]
      rcases h with h | h
      · subst h
        obtain ⟨y, l', e, hy, _⟩ := mergePairs_head x (compress suf) hx
        simp only [headC, if_true, e, padTo_cons]
        intro hh; injection hh with h1 _; exact hy h1
      · subst h
        simp only [headC, hx, if_false, mergePairs_eq, padTo_cons]
        intro hh; injection hh with h1 _; omega
    have hlen : false = false ∧ done.length + 1 + k < (done ++ cur :: (List.replicate k 0 ++ x :: suf)).length ∧
        done.length < done.length + 1 + k := by simp; omega
    have hpl : (done ++ cur :: List.replicate k 0).length = done.length + 1 + k := by simp; omega
    have hrow : done ++ cur :: (List.replicate k 0 ++ x :: suf) = (done ++ cur :: List.replicate k 0) ++ x :: suf := by simp
    have ht : (done ++ cur :: (List.replicate k 0 ++ x :: suf)).getD done.length 0 = cur := getD_mid _ _ _
    have ho : (done ++ cur :: (List.replicate k 0 ++ x :: suf)).getD (done.length + 1 + k) 0 = x := by
      rw [hrow, ← hpl]; exact getD_mid _ _ _
    rw [canLoop, dif_pos hlen]
    simp only [ht, ho]
    by_cases hx : x = 0
    · subst hx
      simp only [bne_self_eq_false, Bool.false_and, Bool.false_eq_true, if_false, beq_self_eq_true,
        Bool.true_or, if_true, Nat.add_zero]
      rw [replicate_zero_cons]
      have := ih done cur (k + 1)
      rw [show done.length + 1 + (k + 1) = done.length + 1 + k + 1 from rfl] at this
      rw [this, compress_cons_zero]
      simp only [List.length_cons]
      rw [show 1 + (k + 1) + suf.length = 1 + k + (suf.length + 1) by omega]
    · have hc : cur ≠ 0 := fun h => hhit ⟨hx, Or.inl h⟩
      have hm : cur ≠ x := fun h => hhit ⟨hx, Or.inr h⟩
      have hx' : (x != 0) = true := by simp [hx]
      have hx0 : (x == 0) = false := by simp [hx]
      have hc' : (cur == 0) = false := by simp [hc]
      have hm' : (cur == x) = false := by simp [hm]
      simp only [hx', hc', hm', Bool.true_and, Bool.or_self, if_true]
      rw [compress_cons_pos _ _ hx]
      simp only [headC, hc, if_false, mergePairs_ne _ _ _ hm, List.length_cons]
      cases k with
      | zero =>
        simp only [hx0, Bool.false_or, Nat.add_zero, beq_self_eq_true, if_true, List.replicate_zero, List.nil_append]
        have := ih (done ++ [cur]) x 0
        simp only [List.length_append, List.length_singleton, List.append_assoc, List.singleton_append,
          List.replicate_zero, List.nil_append, Nat.add_zero] at this
        rw [this]
        simp only [headC, hx, if_false]
        rw [show 1 + 0 + (suf.length + 1) = (1 + 0 + suf.length) + 1 by omega, padTo_cons]
        simp
      | succ k =>
        have hne : (done.length + 1 == done.length + 1 + (k + 1)) = false := by simp
        simp only [hx0, hne, Bool.false_or, Bool.false_eq_true, if_false]
        have e : done ++ cur :: (List.replicate (k + 1) 0 ++ x :: suf) =
            (done ++ [cur]) ++ 0 :: (List.replicate k 0 ++ x :: suf) := by
          simp [List.replicate_succ]
        have := canLoop_hit (done ++ [cur]) 0 k x suf hx (Or.inl rfl)
        simp only [List.length_append, List.length_singleton] at this
        rw [e, show done.length + 1 + (k + 1) = done.length + 1 + 1 + k by omega, this]
        symm; rw [decide_eq_true_iff]
        obtain ⟨y, l', e2, hy, _⟩ := mergePairs_head x (compress suf) hx
        rw [show 1 + (k + 1) + (suf.length + 1) = ((k + 1) + suf.length + 1) + 1 by omega, padTo_cons, e2,
          show (k + 1) + suf.length + 1 = ((k + 1) + suf.length) + 1 by omega, padTo_cons]
        simp only [List.replicate_succ, List.cons_append]
        intro hh; injection hh with _ h2; injection h2 with h3 _; exact hy h3

/-- C04 key theorem (rows of any length): `can_move_left_row` is true exactly when the slide changes the row -/
theorem canMoveLeftRow_iff (r : List Nat) : canMoveLeftRow r = true ↔ slideSpec r ≠ r := by
  cases r with
  | nil =>
    unfold canMoveLeftRow; rw [canLoop]
    simp [slideSpec, compress, mergePairs, padTo]
  | cons cur suf =>
    have := canLoop_spec suf [] cur 0
    simp only [List.nil_append, List.length_nil, List.replicate_zero, Nat.zero_add, Nat.add_zero] at this
    unfold canMoveLeftRow slideSpec
    rw [this, compress_cons, decide_eq_true_iff]
    simp [Nat.add_comm]

theorem canMoveLeftRow_false_iff (r : List Nat) : canMoveLeftRow r = false ↔ slideSpec r = r := by
  have := canMoveLeftRow_iff r
  cases h : canMoveLeftRow r <;> simp_all

theorem canMoveLeftRow_false_iff_move (r : List Nat) : canMoveLeftRow r = false ↔ (moveLeftRow r).1 = r := by
  rw [moveLeftRow_eq_spec]; exact canMoveLeftRow_false_iff r

/-! ### row-level invariants of the slide: length, tile sum (C07), reward and score potential (C08) -/

theorem mergePairs_length_le (l : List Nat) : (mergePairs l).length ≤ l.length := by
  fun_induction mergePairs l <;> simp_all <;> omega

theorem compress_length_le (r : List Nat) : (compress r).length ≤ r.length := by
  unfold compress; exact List.length_filter_le _ _

theorem slideSpec_length (r : List Nat) : (slideSpec r).length = r.length := by
  unfold slideSpec padTo
  have := mergePairs_length_le (compress r)
  have := compress_length_le r
  simp; omega

theorem tileSum_cons (a : Nat) (l : List Nat) : tileSum (a :: l) = (if a = 0 then 0 else 2 ^ a) + tileSum l := by
  simp [tileSum]

theorem tileSum_replicate_zero (k : Nat) : tileSum (List.replicate k 0) = 0 := by
  induction k with
  | zero => rfl
  | succ k ih => rw [List.replicate_succ, tileSum_cons, ih]; simp

theorem tileSum_append (a b : List Nat) : tileSum (a ++ b) = tileSum a + tileSum b := by
  simp [tileSum]

theorem tileSum_compress (r : List Nat) : tileSum (compress r) = tileSum r := by
  induction r with
  | nil => rfl
  | cons a r ih =>
    by_cases h : a = 0
    · subst h; rw [compress_cons_zero, ih, tileSum_cons]; simp
    · rw [compress_cons_pos _ _ h, tileSum_cons, tileSum_cons, ih]

theorem compress_all_pos (r : List Nat) : ∀ x ∈ compress r, x ≠ 0 := by
  intro x hx; unfold compress at hx; simpa using (List.mem_filter.1 hx).2

theorem tileSum_mergePairs (l : List Nat) (h : ∀ x ∈ l, x ≠ 0) : tileSum (mergePairs l) = tileSum l := by
  fun_induction mergePairs l with
  | case1 a rest ih =>
    have ha : a ≠ 0 := h a (by simp)
    have := ih (fun x hx => h x (by simp [hx]))
    simp only [tileSum_cons, this, ha, if_false, Nat.add_eq_zero_iff, Nat.succ_ne_self, and_false]
    rw [Nat.pow_succ]; omega
  | case2 a b rest hab ih =>
    have := ih (fun x hx => h x (by simp at hx ⊢; right; exact hx))
    simp only [tileSum_cons] at this ⊢
    omega
  | case3 l hl => rfl

/-- C07 (row): the slide conserves the sum of the tile values -/
theorem tileSum_slideSpec (r : List Nat) : tileSum (slideSpec r) = tileSum r := by
  unfold slideSpec padTo
  rw [tileSum_append, tileSum_replicate_zero, tileSum_mergePairs _ (compress_all_pos r), tileSum_compress]
  rfl

theorem tilePot_cons (a : Nat) (l : List Nat) : tilePot (a :: l) = (a - 1) * 2 ^ a + tilePot l := by
  simp [tilePot]

theorem tilePot_replicate_zero (k : Nat) : tilePot (List.replicate k 0) = 0 := by
  induction k with
  | zero => rfl
  | succ k ih => rw [List.replicate_succ, tilePot_cons, ih]

theorem tilePot_append (a b : List Nat) : tilePot (a ++ b) = tilePot a + tilePot b := by
  simp [tilePot]

theorem tilePot_compress (r : List Nat) : tilePot (compress r) = tilePot r := by
  induction r with
  | nil => rfl
  | cons a r ih =>
    by_cases h : a = 0
    · subst h; rw [compress_cons_zero, ih, tilePot_cons]; simp
    · rw [compress_cons_pos _ _ h, tilePot_cons, tilePot_cons, ih]

theorem pot_merge (a : Nat) (ha : a ≠ 0) : (a + 1 - 1) * 2 ^ (a + 1) = (a - 1) * 2 ^ a + (a - 1) * 2 ^ a + 2 ^ (a + 1) := by
  obtain ⟨k, rfl⟩ : ∃ k, a = k + 1 := ⟨a - 1, by omega⟩
  simp only [Nat.add_sub_cancel]
  have e : 2 ^ (k + 1 + 1) = 2 * 2 ^ (k + 1) := by rw [Nat.pow_succ, Nat.mul_comm]
  rw [e]
  generalize 2 ^ (k + 1) = x
  rw [Nat.add_mul, ← Nat.mul_assoc, Nat.mul_comm k 2, Nat.mul_assoc]
  generalize k * x = y
  omega

theorem tilePot_mergePairs (l : List Nat) (h : ∀ x ∈ l, x ≠ 0) :
    tilePot (mergePairs l) = tilePot l + mergeReward l := by
  fun_induction mergePairs l with
  | case1 a rest ih =>
    have ha : a ≠ 0 := h a (by simp)
    have := ih (fun x hx => h x (by simp [hx]))
    simp only [tilePot_cons, this, mergeReward_eq, pot_merge a ha]
    omega
  | case2 a b rest hab ih =>
    have := ih (fun x hx => h x (by simp at hx ⊢; right; exact hx))
    simp only [tilePot_cons, mergeReward_ne _ _ _ hab] at this ⊢
    omega
  | case3 l hl =>
    match l, hl with
    | [], _ => rfl
    | [a], _ => simp [mergeReward]
    | a :: b :: rest, hl => exact absurd rfl (hl a b rest)

/-- C08 (row): the reward of a slide is exactly the increase of the score potential Σ (e-1)·2^e -/
theorem tilePot_slideSpec (r : List Nat) : tilePot (slideSpec r) = tilePot r + rowReward r := by
  unfold slideSpec padTo rowReward
  rw [tilePot_append, tilePot_replicate_zero, tilePot_mergePairs _ (compress_all_pos r), tilePot_compress]
  rfl

/-- a slide that leaves the row unchanged earns nothing -/
theorem rowReward_of_fixed (r : List Nat) (h : slideSpec r = r) : rowReward r = 0 := by
  have := tilePot_slideSpec r
  rw [h] at this; omega

/-! ### tables -/

theorem tab_length (n : Nat) (f : Nat → Nat → Nat) : (tab n f).length = n := by simp [tab]

theorem tab_getD (n : Nat) (f : Nat → Nat → Nat) (i : Nat) (hi : i < n) :
    (tab n f).getD i [] = (List.range n).map (fun j => f i j) := by
  simp [tab, List.getD_eq_getElem?_getD, hi]

theorem rangeMap_getD (n : Nat) (g : Nat → Nat) (j : Nat) (hj : j < n) :
    ((List.range n).map g).getD j 0 = g j := by
  simp [List.getD_eq_getElem?_getD, hj]

theorem get_tab (n : Nat) (f : Nat → Nat → Nat) (i j : Nat) (hi : i < n) (hj : j < n) :
    get (tab n f) i j = f i j := by
  unfold get; rw [tab_getD n f i hi, rangeMap_getD n _ j hj]

theorem tab_congr (n : Nat) (f g : Nat → Nat → Nat) (h : ∀ i, i < n → ∀ j, j < n → f i j = g i j) :
    tab n f = tab n g := by
  unfold tab
  apply List.map_congr_left
  intro i hi
  apply List.map_congr_left
  intro j hj
  exact h i (List.mem_range.1 hi) j (List.mem_range.1 hj)

theorem list_eq_rangeMap (r : List Nat) : r = (List.range r.length).map (fun j => r.getD j 0) := by
  apply List.ext_getElem
  · simp
  · intro i h1 h2
    simp [List.getD_eq_getElem?_getD, h1]

/-- a square board is the table of its entries -/
theorem tab_get_self (b : Board) (hs : ∀ r ∈ b, r.length = b.length) : tab b.length (get b) = b := by
  apply List.ext_getElem
  · simp [tab]
  · intro i h1 h2
    have hr : (b[i]).length = b.length := hs _ (List.getElem_mem h2)
    simp only [tab, List.getElem_map, List.getElem_range]
    have e : ∀ j, get b i j = (b[i]).getD j 0 := by
      intro j; unfold get; simp [List.getD_eq_getElem?_getD, h2]
    simp only [e]
    rw [← hr]
    exact (list_eq_rangeMap _).symm

/-! ### board level: L1 `move` / `can_move` against the L2 slide of the lines -/

/-- which line of the board is row `i` of the transformed board -/
def rho (n : Nat) (dir : Dir) (i : Nat) : Nat := match dir with | .down => n - 1 - i | _ => i

def Square (b : Board) : Prop := ∀ r ∈ b, r.length = b.length

theorem get_rangeMap (n : Nat) (F : Nat → List Nat) (p q : Nat) (hp : p < n) :
    get ((List.range n).map F) p q = (F p).getD q 0 := by
  unfold get; simp [List.getD_eq_getElem?_getD, hp]

theorem transform_eq_lines (b : Board) (a : Nat) (ha : a < 4) (hs : Square b) :
    transformBoard b (a : Int) =
      (List.range b.length).map (fun i => line b.length b (Dir.ofAction a) (rho b.length (Dir.ofAction a) i)) := by
  match a, ha with
  | 0, _ => rfl
  | 1, _ => rfl
  | 2, _ => rfl
  | 3, _ =>
    show b = _
    conv => lhs; rw [← tab_get_self b hs]
    rfl

theorem sum_range_reverse (n : Nat) (f : Nat → Nat) :
    ((List.range n).map (fun i => f (n - 1 - i))).sum = ((List.range n).map f).sum := by
  induction n generalizing f with
  | zero => rfl
  | succ n ih =>
    conv => lhs; rw [List.range_succ_eq_map]
    conv => rhs; rw [List.range_succ]
    simp only [List.map_cons, List.map_map, List.sum_cons, List.map_append, List.sum_append, List.map_nil,
      List.sum_nil, Nat.add_zero, Nat.sub_zero, Nat.add_sub_cancel]
    have : ((List.range n).map ((fun i => f (n - i)) ∘ Nat.succ)) = (List.range n).map (fun i => f (n - 1 - i)) := by
      apply List.map_congr_left; intro i _; simp only [Function.comp]; congr 1; omega
    rw [this, ih]; omega

/-- C09 (board): the L1 `move` is the L2 slide of every line towards the chosen wall, with its reward -/
theorem move_eq_spec (b : Board) (a : Nat) (ha : a < 4) (hs : Square b) :
    move b (a : Int) = (slideBoard b (Dir.ofAction a), boardReward b (Dir.ofAction a)) := by
  unfold move moveLeft
  simp only [moveLeftRow_eq_spec]
  rw [transform_eq_lines b a ha hs]
  simp only [List.map_map]
  refine Prod.ext ?_ ?_
  · simp only
    match a, ha with
    | 0, _ =>
      show tab _ _ = tab _ _
      simp only [List.length_map, List.length_range]
      apply tab_congr; intro i hi j hj
      rw [get_rangeMap _ _ _ _ hj]; rfl
    | 1, _ =>
      show tab _ _ = tab _ _
      simp only [List.length_map, List.length_range]
      apply tab_congr; intro i hi j hj
      rw [get_rangeMap _ _ _ _ hi]; rfl
    | 2, _ =>
      show tab _ _ = tab _ _
      simp only [List.length_map, List.length_range]
      apply tab_congr; intro i hi j hj
      rw [get_rangeMap _ _ _ _ (by omega)]
      simp only [Function.comp, rho, Dir.ofAction]
      rw [show b.length - 1 - (b.length - 1 - j) = j by omega]
    | 3, _ =>
      show (List.range b.length).map _ = tab _ _
      unfold tab
      apply List.map_congr_left; intro i hi
      simp only [Function.comp, rho, Dir.ofAction]
      have := slideSpec_length (line b.length b Dir.left i)
      have hl : (line b.length b Dir.left i).length = b.length := by simp [line]
      rw [hl] at this
      conv => lhs; rw [list_eq_rangeMap (slideSpec _), this]
  · simp only
    match a, ha with
    | 0, _ => rfl
    | 1, _ => rfl
    | 3, _ => rfl
    | 2, _ =>
      unfold boardReward
      simp only [Function.comp, rho, Dir.ofAction]
      exact sum_range_reverse b.length (fun k => rowReward (line b.length b Dir.down k))

theorem list_ext_getD (n : Nat) (l1 l2 : List Nat) (h1 : l1.length = n) (h2 : l2.length = n)
    (h : ∀ p, p < n → l1.getD p 0 = l2.getD p 0) : l1 = l2 := by
  apply List.ext_getElem (by omega)
  intro i hi1 hi2
  have := h i (by omega)
  simpa [List.getD_eq_getElem?_getD, hi1, hi2] using this

theorem line_length (n : Nat) (b : Board) (dir : Dir) (k : Nat) : (line n b dir k).length = n := by
  simp [line]

theorem slideBoard_fixed_iff (b : Board) (dir : Dir) (hs : Square b) :
    slideBoard b dir = b ↔ ∀ k, k < b.length → slideSpec (line b.length b dir k) = line b.length b dir k := by
  constructor
  · intro h k hk
    apply list_ext_getD b.length _ _ (by rw [slideSpec_length, line_length]) (line_length _ _ _ _)
    intro p hp
    have hnp : b.length - 1 - p < b.length := by omega
    have hnn : b.length - 1 - (b.length - 1 - p) = p := by omega
    cases dir with
    | up =>
      have e := congrArg (fun x => get x p k) h
      simp only [slideBoard] at e
      rw [get_tab _ _ _ _ hp hk] at e
      rw [e]; simp only [line]; rw [rangeMap_getD _ _ _ hp]
    | right =>
      have e := congrArg (fun x => get x k (b.length - 1 - p)) h
      simp only [slideBoard] at e
      rw [get_tab _ _ _ _ hk hnp, hnn] at e
      rw [e]; simp only [line]; rw [rangeMap_getD _ _ _ hp]
    | down =>
      have e := congrArg (fun x => get x (b.length - 1 - p) k) h
      simp only [slideBoard] at e
      rw [get_tab _ _ _ _ hnp hk, hnn] at e
      rw [e]; simp only [line]; rw [rangeMap_getD _ _ _ hp]
    | left =>
      have e := congrArg (fun x => get x k p) h
      simp only [slideBoard] at e
      rw [get_tab _ _ _ _ hk hp] at e
      rw [e]; simp only [line]; rw [rangeMap_getD _ _ _ hp]
  · intro h
    conv => rhs; rw [← tab_get_self b hs]
    unfold slideBoard
    apply tab_congr; intro i hi j hj
    have hni : b.length - 1 - i < b.length := by omega
    have hnj : b.length - 1 - j < b.length := by omega
    cases dir with
    | up => simp only; rw [h j hj]; simp only [line]; rw [rangeMap_getD _ _ _ hi]
    | right =>
      simp only; rw [h i hi]; simp only [line]; rw [rangeMap_getD _ _ _ hnj]
      rw [show b.length - 1 - (b.length - 1 - j) = j by omega]
    | down =>
      simp only; rw [h j hj]; simp only [line]; rw [rangeMap_getD _ _ _ hni]
      rw [show b.length - 1 - (b.length - 1 - i) = i by omega]
    | left => simp only; rw [h i hi]; simp only [line]; rw [rangeMap_getD _ _ _ hj]

theorem rho_lt (n : Nat) (dir : Dir) (i : Nat) (hi : i < n) : rho n dir i < n := by
  unfold rho; cases dir <;> simp <;> omega

theorem rho_rho (n : Nat) (dir : Dir) (i : Nat) (hi : i < n) : rho n dir (rho n dir i) = i := by
  unfold rho; cases dir <;> simp <;> omega

/-- C04 (board): `can_move(board, a)` is true exactly when the rules allow move `a` (it changes the board) -/
theorem canMove_iff_legal (b : Board) (a : Nat) (ha : a < 4) (hs : Square b) :
    canMove b (a : Int) = true ↔ legal b a := by
  unfold canMove canMoveLeft legal
  rw [transform_eq_lines b a ha hs]
  simp only [ha, true_and, ne_eq]
  rw [slideBoard_fixed_iff b _ hs]
  simp only [List.any_map, List.any_eq_true, List.mem_range, Function.comp, canMoveLeftRow_iff]
  constructor
  · rintro ⟨i, hi, hne⟩ hall
    exact hne (hall _ (rho_lt _ _ _ hi))
  · intro hnall
    apply Classical.byContradiction
    intro hno
    apply hnall
    intro k hk
    apply Classical.byContradiction
    intro hne
    apply hno
    refine ⟨rho b.length (Dir.ofAction a) k, rho_lt _ _ _ hk, ?_⟩
    rw [rho_rho _ _ _ hk]; exact hne

theorem actionMask_eq_legalMask (b : Board) (hs : Square b) : actionMask b = legalMask b := by
  unfold actionMask legalMask
  apply List.map_congr_left
  intro a ha
  have ha4 : a < 4 := List.mem_range.1 ha
  have := canMove_iff_legal b a ha4 hs
  show canMove b (a : Int) = decide (legal b a)
  cases h : canMove b (a : Int)
  · simp [h] at this; simp [this]
  · simp [h] at this; simp [this]

/-! ### the step -/

theorem condLast_reward {O : Type} (done : Bool) (r : List Rat) (o : O) : (condLast done r o).reward = r := by
  unfold condLast termination transition; split <;> rfl
theorem condLast_obs {O : Type} (done : Bool) (r : List Rat) (o : O) : (condLast done r o).obs = o := by
  unfold condLast termination transition; split <;> rfl
theorem condLast_last {O : Type} (done : Bool) (r : List Rat) (o : O) :
    (condLast done r o).stepType = .last ↔ done = true := by
  unfold condLast termination transition; split <;> simp_all

theorem sum_map_zero {α : Type} (l : List α) (f : α → Nat) (h : ∀ x ∈ l, f x = 0) : (l.map f).sum = 0 := by
  induction l with
  | nil => rfl
  | cons a l ih =>
    simp only [List.map_cons, List.sum_cons]
    rw [h a (by simp), ih (fun x hx => h x (by simp [hx]))]

theorem actionMask_getD (b : Board) (a : Nat) (ha : a < 4) : (actionMask b).getD a false = canMove b (a : Int) := by
  unfold actionMask
  simp [List.getD_eq_getElem?_getD, ha]

theorem spawn_flag (s : State) (a : Nat) (ha : a < 4) (hm : s.actionMask = actionMask s.board) :
    Jx.getWC s.actionMask false (a : Int) = canMove s.board (a : Int) := by
  rw [hm, Jx.getWC_nat _ _ (by simp [actionMask]; exact ha), actionMask_getD _ _ ha]

/-- C04: the environment's own reaction (it spawns a tile iff the cached mask bit is set) agrees with the rules -/
theorem step_agrees (s : State) (a : Nat) (ha : a < 4) (hs : Square s.board)
    (hm : s.actionMask = actionMask s.board) :
    Jx.getWC s.actionMask false (a : Int) = true ↔ legal s.board a := by
  rw [spawn_flag s a ha hm]; exact canMove_iff_legal _ _ ha hs

theorem step_cached_mask (s : State) (a : Int) (d : Draw) :
    (step s a d).1.actionMask = actionMask (step s a d).1.board := rfl

theorem boardReward_of_fixed (b : Board) (dir : Dir) (hs : Square b) (h : slideBoard b dir = b) :
    boardReward b dir = 0 := by
  have hf := (slideBoard_fixed_iff b dir hs).1 h
  unfold boardReward
  apply sum_map_zero
  intro k hk
  exact rowReward_of_fixed _ (hf k (List.mem_range.1 hk))

theorem move_illegal (b : Board) (a : Nat) (ha : a < 4) (hs : Square b) (h : ¬ legal b a) :
    move b (a : Int) = (b, 0) := by
  have hfix : slideBoard b (Dir.ofAction a) = b := by
    unfold legal at h
    apply Classical.byContradiction; intro hne; exact h ⟨ha, hne⟩
  rw [move_eq_spec b a ha hs, hfix, boardReward_of_fixed b _ hs hfix]

/-- C05: an illegal move is ignored: nothing moves, merges or spawns, reward 0, score and mask unchanged, only the
step counter advances; the step is LAST only when no move at all was possible -/
theorem illegal_ignored (s : State) (a : Nat) (d : Draw) (ha : a < 4) (hs : Square s.board)
    (hm : s.actionMask = actionMask s.board) (h : ¬ legal s.board a) :
    (step s a d).1.board = s.board ∧ (step s a d).1.actionMask = s.actionMask ∧
    (step s a d).1.score = s.score ∧ (step s a d).1.stepCount = s.stepCount + 1 ∧
    (step s a d).2.reward = [0] ∧
    ((step s a d).2.stepType = .last ↔ ∀ a', ¬ legal s.board a') := by
  have hsp : Jx.getWC s.actionMask false (a : Int) = false := by
    cases hh : Jx.getWC s.actionMask false (a : Int)
    · rfl
    · exact absurd ((step_agrees s a ha hs hm).1 hh) h
  have hmv := move_illegal s.board a ha hs h
  have hb : (step s a d).1.board = s.board := by unfold step; simp [hsp, hmv]
  refine ⟨hb, ?_, ?_, ?_, ?_, ?_⟩
  · rw [step_cached_mask, hb, hm]
  · unfold step; simp [hmv, Rat.add_zero]
  · rfl
  · show (condLast _ _ _).reward = _
    rw [condLast_reward, hmv]; rfl
  · have e : (step s a d).2.stepType = .last ↔ ((actionMask s.board).any id) = false := by
      show (condLast _ _ _).stepType = .last ↔ _
      rw [condLast_last]
      simp only [hsp, hmv, Bool.false_eq_true, if_false]
      cases (actionMask s.board).any id <;> simp
    rw [e, actionMask_eq_legalMask _ hs]
    unfold legalMask
    simp only [List.any_map, List.any_eq_false, List.mem_range, Function.comp, id, decide_eq_true_iff]
    constructor
    · intro hall a' hl; exact hall a' hl.1 hl
    · intro hall a' _; exact hall a'

/-- C08: the reward of a step and the score increment are the values of the tiles created by the merges -/
theorem step_reward (s : State) (a : Nat) (d : Draw) (ha : a < 4) (hs : Square s.board) :
    (step s a d).2.reward = [(boardReward s.board (Dir.ofAction a) : Rat)] ∧
    (step s a d).1.score = s.score + (boardReward s.board (Dir.ofAction a) : Rat) := by
  have hmv := move_eq_spec s.board a ha hs
  constructor
  · show (condLast _ _ _).reward = _
    rw [condLast_reward, hmv]
  · unfold step; simp [hmv]

/-- C12: the observation of a step is the documented view of the successor state -/
theorem obs_faithful (s : State) (a : Int) (d : Draw) (hs : Square (step s a d).1.board) :
    (step s a d).2.obs = observe (step s a d).1 := by
  have h := actionMask_eq_legalMask _ hs
  have e : (step s a d).2.obs = { board := (step s a d).1.board, actionMask := actionMask (step s a d).1.board } := by
    show (condLast _ _ _).obs = _
    rw [condLast_obs]; rfl
  rw [e, h]; rfl

end Game2048
