/-
C11 (structural horizon) at EPISODE level, environment independent; used by Knapsack, TSP and CVRP — the
environments WITHOUT a time limit whose episodes end on an invalid move or by completion.

A step system (`Ep.Sys`, Core/Episode.lean) is `Bounded` by a potential `pot : S → Nat` on the in-spec actions `ok`
when, from a state satisfying the invariant, every in-spec step preserves the invariant and every in-spec step that does
NOT emit LAST lowers the potential by at least one.  Then (`Bounded.ends`) on EVERY in-spec action list of length
≥ `pot s + 1` the first LAST timestep exists and its 1-based index is at most `pot s + 1`: the episode ends within the
horizon whatever is played.  `Bounded.rollout_ends` states the same on the list of emitted timesteps (`Ep.rollout`,
`Ep.firstLastTS` = what the harness measures on real rollouts).
-/
import JumanjiModel.Core.EpisodeLemmas
namespace Ep
open Jm

variable {S A O : Type}

structure Bounded (M : Sys S A) (Inv : S → Prop) (ok : A → Prop) (pot : S → Nat) : Prop where
  inv_step : ∀ s a, Inv s → ok a → Inv (M.step s a)
  pot_step : ∀ s a, Inv s → ok a → M.last s a = false → pot (M.step s a) + 1 ≤ pot s

/-- every in-spec action list at least as long as the horizon contains a LAST step, the first one at index ≤ horizon -/
theorem Bounded.ends {M : Sys S A} {Inv : S → Prop} {ok : A → Prop} {pot : S → Nat} (h : Bounded M Inv ok pot)
    (s : S) (hs : Inv s) (as : List A) (hok : ∀ a ∈ as, ok a) (hlen : pot s + 1 ≤ as.length) :
    ∃ k, M.firstLast s as = some k ∧ 0 < k ∧ k ≤ pot s + 1 := by
  induction as generalizing s with
  | nil => simp at hlen
  | cons a as ih =>
    unfold Sys.firstLast
    by_cases hl : M.last s a = true
    · rw [if_pos hl]; exact ⟨1, rfl, by omega, by omega⟩
    · have hl' : M.last s a = false := by simpa using hl
      rw [if_neg hl]
      have hp := h.pot_step s a hs (hok a (by simp)) hl'
      have hlen' : pot (M.step s a) + 1 ≤ as.length := by simp at hlen; omega
      obtain ⟨k, hk, h1, h2⟩ := ih (M.step s a) (h.inv_step s a hs (hok a (by simp)))
        (fun b hb => hok b (by simp [hb])) hlen'
      exact ⟨k + 1, by rw [hk]; rfl, by omega, by omega⟩

/-- the invariant holds in every state of every in-spec play (stepping on after LAST included) -/
theorem Bounded.inv_run {M : Sys S A} {Inv : S → Prop} {ok : A → Prop} {pot : S → Nat} (h : Bounded M Inv ok pot)
    (s : S) (hs : Inv s) (as : List A) (hok : ∀ a ∈ as, ok a) : Inv (M.run s as) := by
  induction as generalizing s with
  | nil => exact hs
  | cons a as ih =>
    exact ih (M.step s a) (h.inv_step s a hs (hok a (by simp))) (fun b hb => hok b (by simp [hb]))

/-- the same on the emitted timesteps of a concrete `step` -/
theorem Bounded.rollout_ends {stp : S → A → S × TimeStep O} {cnt : S → Int} {Inv : S → Prop} {ok : A → Prop}
    {pot : S → Nat} (h : Bounded (ofStep stp cnt) Inv ok pot) (s : S) (hs : Inv s) (as : List A)
    (hok : ∀ a ∈ as, ok a) (hlen : pot s + 1 ≤ as.length) :
    ∃ k, firstLastTS ((rollout stp s as).map (·.2)) = some k ∧ 0 < k ∧ k ≤ pot s + 1 := by
  obtain ⟨k, hk, h1, h2⟩ := h.ends s hs as hok hlen
  exact ⟨k, by rw [firstLast_ofStep stp cnt]; exact hk, h1, h2⟩

/-- building `Bounded` for a concrete `step` from single-step facts about the emitted timestep -/
theorem Bounded.of_step {stp : S → A → S × TimeStep O} {cnt : S → Int} {Inv : S → Prop} {ok : A → Prop}
    {pot : S → Nat} (hinv : ∀ s a, Inv s → ok a → Inv (stp s a).1)
    (hpot : ∀ s a, Inv s → ok a → (stp s a).2.stepType ≠ .last → pot (stp s a).1 + 1 ≤ pot s) :
    Bounded (ofStep stp cnt) Inv ok pot :=
  ⟨hinv, fun s a hi ha hl => hpot s a hi ha (by simpa [ofStep] using hl)⟩

end Ep
