/-
C01 (audit r2, entry 15): a Lean tie between the value bounds a model PROVES for its observation leaves
(`obsBounds cfg`, `Env/<Name>/Bounds.lean`) together with the leaf shapes it proves (`obsShapes cfg`), and the spec
the real environment DECLARES — the generated literals of `Gen/Specs.lean` (one entry per leaf of the real
`observation_spec` of every catalogue configuration).  `tie cid bounds shapes = true` says: every observation leaf
that the catalogue configuration `cid` declares is listed by `bounds` and `shapes`, its declared shape is the proved
shape, and the proved interval lies inside the declared `[minimum, maximum]` of EVERY entry of the leaf (an
unbounded `Array` leaf contains everything).  Used by Maze, Snake and Sudoku (`decide +kernel`, per configuration).
-/
import JumanjiModel.Gen.Specs
namespace SpecTieSSM
open Sp

abbrev Table := List (String × Option Rat × Option Rat)
abbrev Shapes := List (String × List Nat)

/-- the observation leaves (path below `observation_spec.`, leaf spec) the catalogue configuration `cid` declares -/
def obsLeavesOf (cid : String) : List (String × Leaf) :=
  (Gen.Specs.parts.flatten.filter (fun e => e.1 == cid && e.2.1.startsWith "observation_spec.")).map
    (fun e => ((e.2.1.drop "observation_spec.".length).toString, e.2.2))

/-- the interval lies inside the declared bounds of every entry of the leaf -/
def ivWithin (iv : Option Rat × Option Rat) (l : Leaf) : Bool :=
  match l.lower, l.upper with
  | none, none => true
  | some lo, some hi =>
    (match iv.1 with | some a => lo.all (fun x => decide (x ≤ a)) | none => false) &&
    (match iv.2 with | some b => hi.all (fun x => decide (b ≤ x)) | none => false)
  | _, _ => false

/-- one declared leaf is covered: listed, same shape, proved interval inside the declared one -/
def leafTied (bounds : Table) (shapes : Shapes) (kl : String × Leaf) : Bool :=
  (match bounds.lookup kl.1 with | some iv => ivWithin iv kl.2 | none => false) &&
  (shapes.lookup kl.1 == some kl.2.shape)

def tie (cid : String) (bounds : Table) (shapes : Shapes) : Bool :=
  (obsLeavesOf cid).all (leafTied bounds shapes)

end SpecTieSSM
