/-
MultiCVRP, property C01: the `vehicles.local_times` bound for ROUNDED accumulation
(`local_times' = rnd (local_times + travel)`), in particular for the float32 model `rnd = Jx.roundF32`.

* `RndOK rnd dmax K`: what the bound needs from the rounding — monotone, fixes 0, and fixes the multiples
  `k · dmax` for `k ≤ K`.  Then `TInv` / `BInv` are preserved by `step rnd` from states with `stepCount ≤ K`
  (`step_tInv_rnd`, `step_bInv_rnd`) and the observation stays inside `obsBounds` (`step_obs_in_bounds_rnd`).
* `roundF32_rndOK`: `Jx.roundF32` satisfies `RndOK` whenever `dmax = j · 2^sh` with `K · j < 2^24`, `sh ≥ −149`
  (all multiples up to `K` are binary32 values), by monotonicity and `roundF32_fix` (Prim/FloatLemmas.lean).
* The representability hypothesis cannot be dropped: `f32Witness*` below (decided in the kernel) is a
  3-customer instance whose six distances all equal `dmax = 1 + 3·2^-23` (a binary32 value) on which the float32
  accumulation reaches `6 + 5·2^-21 > 6 · dmax = 2 · numCustomers · dmax`.
-/
import JumanjiModel.Env.MultiCVRP.Bounds
import JumanjiModel.Prim.FloatLemmas
namespace MultiCVRP
open Jm Jm.OB

/-- what the local-times bound needs from the rounding function -/
def RndOK (rnd : Rat → Rat) (dmax : Rat) (K : Nat) : Prop :=
  (∀ x y, x ≤ y → rnd x ≤ rnd y) ∧ rnd 0 = 0 ∧ ∀ k : Nat, k ≤ K → rnd ((k : Rat) * dmax) = (k : Rat) * dmax

theorem rndOK_id (dmax : Rat) (K : Nat) : RndOK id dmax K := ⟨fun _ _ h => h, rfl, fun _ _ => rfl⟩

theorem step_tInv_rnd (rnd : Rat → Rat) (c : Cfg) (L : Lim) (D : Dist) (s : State) (a : List Nat) (K : Nat)
    (hr : RndOK rnd L.dmax K) (hk : s.stepCount ≤ K) (h0 : 0 ≤ L.dmax) (hD : DistOK L D) (h : TInv L s) :
    TInv L (step rnd c D s a).1 := by
  rw [step_state]
  unfold TInv
  rw [update_stepCount]
  show ∀ l ∈ List.zipWith (fun l t => rnd (l + t)) s.localTimes
      (List.zipWith (fun p q => dist D p q) s.positions (nextNodes s a)), _
  apply zipWith_forall
  intro l hl t ht
  have ht' : 0 ≤ t ∧ t ≤ L.dmax :=
    zipWith_forall (fun t => 0 ≤ t ∧ t ≤ L.dmax) _ _ _ (fun p _ q _ => dist_bounds L D p q h0 hD) t ht
  have hl' := h l hl
  have e : ((s.stepCount + 1 : Nat) : Rat) = (s.stepCount : Rat) + 1 := by simp
  rw [e]
  obtain ⟨hm, hz, hf⟩ := hr
  have a1 : rnd 0 ≤ rnd (l + t) := hm _ _ (by grind)
  have a2 : rnd (l + t) ≤ rnd ((s.stepCount : Rat) * L.dmax) := hm _ _ (by grind)
  rw [hz] at a1
  rw [hf _ hk] at a2
  constructor <;> grind

theorem step_bInv_rnd (rnd : Rat → Rat) (c : Cfg) (L : Lim) (D : Dist) (s : State) (a : List Nat) (K : Nat)
    (hr : RndOK rnd L.dmax K) (hk : s.stepCount ≤ K) (hD : DistOK L D) (h : BInv c L s) :
    BInv c L (step rnd c D s a).1 :=
  ⟨step_sInv rnd c L D s a h.1, step_tInv_rnd rnd c L D s a K hr hk h.1.1.2.2.2.2 hD h.2⟩

/-- rounded arithmetic, distances in `[0, dmax]`, a step from a state that has not timed out -/
theorem step_obs_in_bounds_rnd (rnd : Rat → Rat) (c : Cfg) (L : Lim) (D : Dist) (s : State) (a : List Nat)
    (hr : RndOK rnd L.dmax (2 * c.numCustomers)) (hD : DistOK L D) (h : BInv c L s)
    (hk : s.stepCount ≤ 2 * c.numCustomers) :
    InBounds (obsBounds c L) (obsLeaves (step rnd c D s a).2.obs) := by
  rw [step_obs, ← step_state]
  exact observe_in_bounds c L _ (step_bInv_rnd rnd c L D s a _ hr hk hD h)
    (by rw [step_state, update_stepCount]; omega)

/-- `Jx.roundF32` is monotone, fixes 0, and fixes `k · dmax` for `k ≤ K` when `dmax = j · 2^sh` with
`K · j < 2^24` and `sh ≥ −149` -/
theorem roundF32_rndOK (j : Nat) (sh : Int) (K : Nat) (hs : -149 ≤ sh) (hj : K * j < 16777216) :
    RndOK Jx.roundF32 ((j : Rat) * Jx.pow2 sh) K := by
  refine ⟨fun _ _ h => Jx.roundF32_mono h, Jx.roundF32_zero, ?_⟩
  intro k hk
  have hkj : k * j < 16777216 := Nat.lt_of_le_of_lt (Nat.mul_le_mul_right j hk) hj
  have := Jx.roundF32_fix (k * j) sh hkj hs
  rwa [Rat.natCast_mul, Rat.mul_assoc] at this

/-! ### the representability hypothesis is needed: a float32 counterexample -/

/-- `1 + 3·2^-23`, a binary32 value -/
def f32WitnessD : Rat := 8388611 / 8388608

def f32WitnessLim : Lim :=
  { mapMax := 1, demandMax := 4, maxStart := 0, windowLen := 9, coefEarlyMax := 1, coefLateMax := 1,
    dmax := f32WitnessD }

def f32WitnessCfg : Cfg := { numCustomers := 3, maxCap := 5, dense := true }

/-- depot ↔ customer distances all `dmax`; the customers coincide -/
def f32WitnessDist : Dist :=
  [[0, f32WitnessD, f32WitnessD, f32WitnessD], [f32WitnessD, 0, 0, 0], [f32WitnessD, 0, 0, 0],
   [f32WitnessD, 0, 0, 0]]

/-- one vehicle at the depot at the start of the episode (`stepCount = 1`), three customers of demand 1 -/
def f32WitnessState : State :=
  { coords := [[0, 0], [1, 1], [1, 1], [1, 1]], demands := [0, 1, 1, 1],
    winStart := [0, 0, 0, 0], winEnd := [9, 9, 9, 9], coefEarly := [0, 1, 1, 1], coefLate := [0, 1, 1, 1],
    localTimes := [0], positions := [0], capacities := [5], distances := [0],
    timePenalties := [0], order := [[0, 0, 0, 0, 0, 0]], stepCount := 1,
    mask := [[true, true, true, true]] }

/-- the state after the joint actions `as`, float32 model -/
def f32Run (s : State) (as : List (List Nat)) : State :=
  as.foldl (fun s a => (step Jx.roundF32 f32WitnessCfg f32WitnessDist s a).1) s

/-- the out-and-back route 1, depot, 2, depot, 3 (five steps) -/
def f32WitnessS5 : State := f32Run f32WitnessState [[1], [0], [2], [0], [3]]
/-- … and its first four steps -/
def f32WitnessS4 : State := f32Run f32WitnessState [[1], [0], [2], [0]]

/-- the instance satisfies every hypothesis of the exact-arithmetic theorem -/
theorem f32Witness_hyps :
    BInv f32WitnessCfg f32WitnessLim f32WitnessState ∧ DistOK f32WitnessLim f32WitnessDist ∧
    BInv f32WitnessCfg f32WitnessLim f32WitnessS4 ∧
    f32WitnessS5.stepCount ≤ 2 * f32WitnessCfg.numCustomers := by decide +kernel

/-- the float32 accumulation: after the sixth leg the local time is `6 + 5·2^-21`, above
`6 · dmax = 6 + 4.5·2^-21` -/
theorem f32Witness_localTimes :
    (step Jx.roundF32 f32WitnessCfg f32WitnessDist f32WitnessS5 [0]).2.obs.localTimes = [12582917 / 2097152] ∧
    2 * (f32WitnessCfg.numCustomers : Rat) * f32WitnessLim.dmax < 12582917 / 2097152 := by decide +kernel

/-- the last observation of the episode leaves the interval proved for exact arithmetic -/
theorem f32Witness_out_of_bounds :
    ¬ InBounds (obsBounds f32WitnessCfg f32WitnessLim)
        (obsLeaves (step Jx.roundF32 f32WitnessCfg f32WitnessDist f32WitnessS5 [0]).2.obs) := by
  intro h
  obtain ⟨vs, hf, hv⟩ := h ("vehicles.local_times", some 0,
    some (2 * (f32WitnessCfg.numCustomers : Rat) * f32WitnessLim.dmax)) (List.mem_cons_self ..)
  have hf' : find "vehicles.local_times"
      (obsLeaves (step Jx.roundF32 f32WitnessCfg f32WitnessDist f32WitnessS5 [0]).2.obs) =
      some (step Jx.roundF32 f32WitnessCfg f32WitnessDist f32WitnessS5 [0]).2.obs.localTimes := rfl
  rw [hf', f32Witness_localTimes.1] at hf
  have := hv (12582917 / 2097152) (by rw [← Option.some.inj hf]; exact List.mem_singleton.mpr rfl)
  exact absurd this.2 (Rat.not_le.mpr f32Witness_localTimes.2)

/-- the invariant `BInv` is NOT preserved by the float32 step under the hypotheses of the exact theorem
(`DistOK` only): the fifth leg takes a state satisfying `BInv` to one that does not -/
theorem step_bInv_roundF32_false :
    ¬ ∀ (c : Cfg) (L : Lim) (D : Dist) (s : State) (a : List Nat), DistOK L D → BInv c L s →
        BInv c L (step Jx.roundF32 c D s a).1 := by
  intro h
  have := h f32WitnessCfg f32WitnessLim f32WitnessDist f32WitnessS4 [3] f32Witness_hyps.2.1 f32Witness_hyps.2.2.1
  revert this
  decide +kernel

end MultiCVRP
