/-
MultiCVRP: proved value bounds of the observation (property C01).

`obsBounds c L` = the interval in which every numeric leaf of the model's observation provably stays
(keys = the leaf paths of `MultiCVRP.observation_spec`), as a function of the configuration only:
`c : Cfg` (number of customers, vehicle capacity) and `L : Lim` (the generator's ranges and `dmax`, an
upper bound on one travel distance).  `obsLeaves` = the observation flattened to those leaves.

`validDrawB` strengthens `validDraw` by the ranges of the remaining random arrays of
`generate_uniform_random_problem` (window starts, penalty coefficients) and by the sanity of the
configuration (`LimOK`).

The invariant is `BInv = SInv ∧ TInv`:
* `SInv` (problem data in their ranges, every capacity in `[0, maxCap]`) is established by `reset` and
  preserved by `step` for EVERY rounding function, every joint action (any list of naturals of any
  length, in range or not) — it gives all leaves but `vehicles.local_times`;
* `TInv` (every local time `l` satisfies `0 ≤ l` and `l + dmax ≤ stepCount · dmax`, i.e.
  `l ≤ (stepCount − 1) · dmax`) is preserved by `step` in exact arithmetic (`rnd = id`) when every entry
  of the distance matrix lies in `[0, dmax]`; with `stepCount ≤ 2 · numCustomers + 1` (the step was
  taken from a state that had not timed out) it gives `local_times ≤ 2 · numCustomers · dmax`.
-/
import JumanjiModel.Env.MultiCVRP.Lemmas
import JumanjiModel.Core.ObsBoundsCO
namespace MultiCVRP
open Jm Jm.OB

/-- the generator's ranges (`_map_max`, `_customer_demand_max`, `_max_start_window`,
`_time_window_length`, `_early_coef_rand[1]`, `_late_coef_rand[1]`) and `dmax`, an upper bound on the
distance between two nodes -/
structure Lim where
  mapMax : Rat
  demandMax : Int
  maxStart : Rat
  windowLen : Rat
  coefEarlyMax : Rat
  coefLateMax : Rat
  dmax : Rat
  deriving Repr

/-- all leaves but `vehicles.local_times` (these hold for every rounding function) -/
def obsBoundsS (c : Cfg) (L : Lim) : Table :=
  [("nodes.coordinates", some 0, some L.mapMax),
   ("nodes.demands", some 0, some (L.demandMax : Rat)),
   ("windows.start", some 0, some L.maxStart),
   ("windows.end", some L.windowLen, some (L.maxStart + L.windowLen)),
   ("coeffs.early", some 0, some L.coefEarlyMax),
   ("coeffs.late", some 0, some L.coefLateMax),
   ("vehicles.coordinates", some 0, some L.mapMax),
   ("vehicles.capacities", some 0, some (c.maxCap : Rat)),
   ("action_mask", some 0, some 1)]

/-- proved intervals of all ten leaves -/
def obsBounds (c : Cfg) (L : Lim) : Table :=
  ("vehicles.local_times", some 0, some (2 * (c.numCustomers : Rat) * L.dmax)) :: obsBoundsS c L

def obsLeaves (o : Obs) : Leaves :=
  [("nodes.coordinates", o.coords.flatten),
   ("nodes.demands", o.demands.map (fun (x : Int) => (x : Rat))),
   ("windows.start", o.winStart),
   ("windows.end", o.winEnd),
   ("coeffs.early", o.coefEarly),
   ("coeffs.late", o.coefLate),
   ("vehicles.coordinates", o.vehCoords.flatten),
   ("vehicles.local_times", o.localTimes),
   ("vehicles.capacities", o.capacities.map (fun (x : Int) => (x : Rat))),
   ("action_mask", o.mask.flatten.map b2r)]

/-- sanity of the configuration -/
def LimOK (c : Cfg) (L : Lim) : Prop :=
  0 ≤ c.maxCap ∧ 0 ≤ L.demandMax ∧ 0 ≤ L.coefEarlyMax ∧ 0 ≤ L.coefLateMax ∧ 0 ≤ L.dmax

instance (c : Cfg) (L : Lim) : Decidable (LimOK c L) := by unfold LimOK; infer_instance

/-- what `generate_uniform_random_problem` can draw: `validDraw` (coordinates in the box, scaled
demands non-negative) and window starts in `[0, maxStart]`
(`uniform(minval=0, maxval=max_start_window)`), early / late coefficients in `[0, coefEarlyMax]` /
`[0, coefLateMax]` (`uniform(minval=coef_rand[0], maxval=coef_rand[1])` with `coef_rand[0] = 0`) -/
def validDrawB (c : Cfg) (L : Lim) (d : Draw) : Prop :=
  validDraw c L.mapMax d ∧ LimOK c L ∧
  (∀ x ∈ d.winStart, 0 ≤ x ∧ x ≤ L.maxStart) ∧
  (∀ x ∈ d.coefEarly, 0 ≤ x ∧ x ≤ L.coefEarlyMax) ∧
  (∀ x ∈ d.coefLate, 0 ≤ x ∧ x ≤ L.coefLateMax)

instance (c : Cfg) (L : Lim) (d : Draw) : Decidable (validDrawB c L d) := by
  unfold validDrawB; infer_instance

/-- problem data in their ranges, capacities in `[0, maxCap]` -/
def SInv (c : Cfg) (L : Lim) (s : State) : Prop :=
  LimOK c L ∧
  (∀ p ∈ s.coords, ∀ x ∈ p, 0 ≤ x ∧ x ≤ L.mapMax) ∧
  (∀ x ∈ s.demands, 0 ≤ x ∧ x ≤ L.demandMax) ∧
  (∀ x ∈ s.winStart, 0 ≤ x ∧ x ≤ L.maxStart) ∧
  (∀ x ∈ s.winEnd, L.windowLen ≤ x ∧ x ≤ L.maxStart + L.windowLen) ∧
  (∀ x ∈ s.coefEarly, 0 ≤ x ∧ x ≤ L.coefEarlyMax) ∧
  (∀ x ∈ s.coefLate, 0 ≤ x ∧ x ≤ L.coefLateMax) ∧
  (∀ x ∈ s.capacities, 0 ≤ x ∧ x ≤ c.maxCap)

instance (c : Cfg) (L : Lim) (s : State) : Decidable (SInv c L s) := by unfold SInv; infer_instance

/-- every local time is at most `(stepCount − 1) · dmax` -/
def TInv (L : Lim) (s : State) : Prop :=
  ∀ l ∈ s.localTimes, 0 ≤ l ∧ l + L.dmax ≤ (s.stepCount : Rat) * L.dmax

instance (L : Lim) (s : State) : Decidable (TInv L s) := by unfold TInv; infer_instance

/-- the bounds invariant -/
def BInv (c : Cfg) (L : Lim) (s : State) : Prop := SInv c L s ∧ TInv L s

instance (c : Cfg) (L : Lim) (s : State) : Decidable (BInv c L s) := by unfold BInv; infer_instance

/-- every entry of the distance matrix lies in `[0, dmax]` -/
def DistOK (L : Lim) (D : Dist) : Prop := ∀ row ∈ D, ∀ x ∈ row, 0 ≤ x ∧ x ≤ L.dmax

instance (L : Lim) (D : Dist) : Decidable (DistOK L D) := by unfold DistOK; infer_instance

/-! ### generic list facts -/

theorem getWC_prop {α} (P : α → Prop) (xs : List α) (d : α) (i : Int) (h : ∀ x ∈ xs, P x) (hd : P d) :
    P (Jx.getWC xs d i) := by
  unfold Jx.getWC
  by_cases hi : Jx.clampIdx xs.length i < xs.length
  · rw [List.getD_eq_getElem?_getD, List.getElem?_eq_getElem hi]
    exact h _ (List.getElem_mem _)
  · rw [List.getD_eq_getElem?_getD, List.getElem?_eq_none (by omega)]; exact hd

theorem setWD_forall {α} (P : α → Prop) (xs : List α) (i : Int) (v : α) (h : ∀ x ∈ xs, P x) (hv : P v) :
    ∀ x ∈ Jx.setWD xs i v, P x := by
  unfold Jx.setWD; simp only []
  split
  · exact h
  · split
    · exact h
    · intro x hx
      rcases List.mem_or_eq_of_mem_set hx with h1 | h1
      · exact h x h1
      · rw [h1]; exact hv

theorem foldl_setWD_forall (P : Int → Prop) (qs : List Nat) (d : List Int) (h : ∀ x ∈ d, P x) (h0 : P 0) :
    ∀ x ∈ qs.foldl (fun d (q : Nat) => Jx.setWD d (q : Int) 0) d, P x := by
  induction qs generalizing d with
  | nil => exact h
  | cons q qs ih => simp only [List.foldl_cons]; exact ih _ (setWD_forall P d _ 0 h h0)

theorem zipWith_forall_idx {α β γ} (P : γ → Prop) (f : α → β → γ) (l1 : List α) (l2 : List β)
    (h : ∀ i (h1 : i < l1.length) (h2 : i < l2.length), P (f l1[i] l2[i])) :
    ∀ x ∈ List.zipWith f l1 l2, P x := by
  intro x hx
  obtain ⟨i, hi, rfl⟩ := List.getElem_of_mem hx
  simp only [List.getElem_zipWith]
  simp only [List.length_zipWith] at hi
  exact h i (by omega) (by omega)

theorem zipWith_forall {α β γ} (P : γ → Prop) (f : α → β → γ) (l1 : List α) (l2 : List β)
    (h : ∀ a ∈ l1, ∀ b ∈ l2, P (f a b)) : ∀ x ∈ List.zipWith f l1 l2, P x :=
  zipWith_forall_idx P f l1 l2 (fun _ _ _ => h _ (List.getElem_mem _) _ (List.getElem_mem _))

/-! ### the destinations -/

/-- a vehicle's destination is the depot, or a customer whose (positive) demand fits its capacity -/
theorem next_cases (s : State) (a : List Nat) (i : Nat) (h1 : i < (nextNodes s a).length)
    (h2 : i < s.capacities.length) :
    (nextNodes s a)[i] = 0 ∨
      (0 < Jx.getWC s.demands 0 (((nextNodes s a)[i] : Nat) : Int) ∧
       Jx.getWC s.demands 0 (((nextNodes s a)[i] : Nat) : Int) ≤ s.capacities[i]) := by
  have hz : i < (zeroInvalid s a).length := by
    unfold nextNodes at h1; rwa [resolve_length] at h1
  have e : (nextNodes s a)[i] = (nextNodes s a).getD i 0 := by
    rw [List.getD_eq_getElem?_getD, List.getElem?_eq_getElem h1]; rfl
  have r := resolve_getD (zeroInvalid s a) i hz
  have ha : i < a.length := by
    unfold zeroInvalid at hz; simp only [List.length_zipWith] at hz; omega
  have ez : (zeroInvalid s a).getD i 0 =
      a[i] * (if s.capacities[i] ≥ Jx.getWC s.demands 0 ((a[i] : Nat) : Int) then 1 else 0) *
        (if Jx.getWC s.demands 0 ((a[i] : Nat) : Int) > 0 then 1 else 0) := by
    unfold zeroInvalid
    simp only [List.getD_eq_getElem?_getD, List.getElem?_zipWith, List.getElem?_eq_getElem ha,
      List.getElem?_eq_getElem h2, Option.getD_some]
  rw [e]
  unfold nextNodes
  rw [r]
  split
  · rw [ez, mul_flags]
    split
    · rename_i hc
      rcases hc with hc | hc
      · left; exact hc
      · right; exact hc
    · left; rfl
  · left; rfl

/-! ### reset establishes, step preserves -/

theorem reset_sInv (c : Cfg) (L : Lim) (nV : Nat) (d : Draw) (h : validDrawB c L d) :
    SInv c L (reset c nV L.demandMax L.windowLen d).1 := by
  obtain ⟨⟨_, _, hc, hs, _⟩, hok, hw, he, hl⟩ := h
  have hok' := hok
  obtain ⟨k1, k2, k3, k4, _⟩ := hok
  refine ⟨hok', ?_, ?_, hw, ?_, ?_, ?_, ?_⟩
  · exact fun p hp x hx => (hc p hp).2 x hx
  · intro x hx
    simp only [reset, generate] at hx
    obtain ⟨y, hy, rfl⟩ := List.mem_map.mp hx
    have := hs y hy
    omega
  · intro x hx
    simp only [reset, generate] at hx
    obtain ⟨y, hy, rfl⟩ := List.mem_map.mp hx
    have := hw y hy
    constructor <;> grind
  · exact setWD_forall _ d.coefEarly ((DEPOT : Nat) : Int) 0 he ⟨Rat.le_refl, k3⟩
  · exact setWD_forall _ d.coefLate ((DEPOT : Nat) : Int) 0 hl ⟨Rat.le_refl, k4⟩
  · intro x hx
    simp only [reset, generate] at hx
    rw [List.eq_of_mem_replicate hx]
    omega

theorem reset_tInv (c : Cfg) (L : Lim) (nV : Nat) (d : Draw) :
    TInv L (reset c nV L.demandMax L.windowLen d).1 := by
  intro l hl
  simp only [reset, generate] at hl
  rw [List.eq_of_mem_replicate hl]
  simp only [reset, generate]
  constructor <;> grind

theorem reset_bInv (c : Cfg) (L : Lim) (nV : Nat) (d : Draw) (h : validDrawB c L d) :
    BInv c L (reset c nV L.demandMax L.windowLen d).1 :=
  ⟨reset_sInv c L nV d h, reset_tInv c L nV d⟩

theorem step_sInv (rnd : Rat → Rat) (c : Cfg) (L : Lim) (D : Dist) (s : State) (a : List Nat)
    (h : SInv c L s) : SInv c L (step rnd c D s a).1 := by
  rw [step_state]
  obtain ⟨hok, h1, h2, h3, h4, h5, h6, h7⟩ := h
  refine ⟨hok, h1, ?_, h3, h4, h5, h6, ?_⟩
  · exact foldl_setWD_forall _ _ _ h2 ⟨Int.le_refl 0, hok.2.1⟩
  · show ∀ x ∈ List.zipWith _ (nextNodes s a) s.capacities, _
    apply zipWith_forall_idx
    intro i i1 i2
    have hc := h7 _ (List.getElem_mem i2)
    rcases next_cases s a i i1 i2 with h0 | ⟨hd, hle⟩
    · rw [h0]
      simp only [DEPOT, beq_self_eq_true, if_true]
      exact ⟨hok.1, Int.le_refl _⟩
    · split
      · exact ⟨hok.1, Int.le_refl _⟩
      · omega

/-- a travel distance read from a matrix with entries in `[0, dmax]` -/
theorem dist_bounds (L : Lim) (D : Dist) (p q : Nat) (h0 : 0 ≤ L.dmax) (hD : DistOK L D) :
    0 ≤ dist D p q ∧ dist D p q ≤ L.dmax := by
  unfold dist
  apply getWC_prop (fun x => 0 ≤ x ∧ x ≤ L.dmax)
  · exact getWC_prop (fun row => ∀ x ∈ row, 0 ≤ x ∧ x ≤ L.dmax) D [] _ hD (by intro x hx; cases hx)
  · exact ⟨Rat.le_refl, h0⟩

theorem step_tInv (c : Cfg) (L : Lim) (D : Dist) (s : State) (a : List Nat) (h0 : 0 ≤ L.dmax)
    (hD : DistOK L D) (h : TInv L s) : TInv L (step id c D s a).1 := by
  rw [step_state]
  unfold TInv
  rw [update_stepCount]
  show ∀ l ∈ List.zipWith (fun l t => id (l + t)) s.localTimes
      (List.zipWith (fun p q => dist D p q) s.positions (nextNodes s a)), _
  apply zipWith_forall
  intro l hl t ht
  have ht' : 0 ≤ t ∧ t ≤ L.dmax :=
    zipWith_forall (fun t => 0 ≤ t ∧ t ≤ L.dmax) _ _ _ (fun p _ q _ => dist_bounds L D p q h0 hD) t ht
  have hl' := h l hl
  have e : ((s.stepCount + 1 : Nat) : Rat) = (s.stepCount : Rat) + 1 := by simp
  rw [e]
  simp only [id]
  constructor <;> grind

theorem step_bInv (c : Cfg) (L : Lim) (D : Dist) (s : State) (a : List Nat) (hD : DistOK L D)
    (h : BInv c L s) : BInv c L (step id c D s a).1 :=
  ⟨step_sInv id c L D s a h.1, step_tInv c L D s a h.1.1.2.2.2.2 hD h.2⟩

/-! ### the observation of a state satisfying the invariant -/

theorem int_iv {lo hi x : Int} (h1 : lo ≤ x) (h2 : x ≤ hi) : inIv (some (lo : Rat)) (some (hi : Rat)) (x : Rat) :=
  ⟨Rat.intCast_le_intCast.mpr h1, Rat.intCast_le_intCast.mpr h2⟩

theorem int_iv0 {hi x : Int} (h1 : 0 ≤ x) (h2 : x ≤ hi) : inIv (some 0) (some (hi : Rat)) (x : Rat) :=
  int_iv (lo := 0) h1 h2

theorem observe_in_boundsS (c : Cfg) (L : Lim) (s : State) (h : SInv c L s) :
    InBounds (obsBoundsS c L) (obsLeaves (stateToObs s)) := by
  obtain ⟨_, h1, h2, h3, h4, h5, h6, h7⟩ := h
  refine inBounds_cons _ _ _ _ _ _ rfl ?_ <| inBounds_cons _ _ _ _ _ _ rfl ?_ <|
    inBounds_cons _ _ _ _ _ _ rfl ?_ <| inBounds_cons _ _ _ _ _ _ rfl ?_ <|
    inBounds_cons _ _ _ _ _ _ rfl ?_ <| inBounds_cons _ _ _ _ _ _ rfl ?_ <|
    inBounds_cons _ _ _ _ _ _ rfl ?_ <| inBounds_cons _ _ _ _ _ _ rfl ?_ <|
    inBounds_cons _ _ _ _ _ _ rfl (bools_in01 _) <| inBounds_nil _
  · exact flat_in _ _ _ (fun p hp x hx => h1 p hp x hx)
  · intro v hv
    obtain ⟨x, hx, rfl⟩ := List.mem_map.mp hv
    exact int_iv0 (h2 x hx).1 (h2 x hx).2
  · exact fun v hv => h3 v hv
  · exact fun v hv => h4 v hv
  · exact fun v hv => h5 v hv
  · exact fun v hv => h6 v hv
  · apply flat_in
    intro row hrow
    simp only [stateToObs] at hrow
    obtain ⟨p, _, rfl⟩ := List.mem_map.mp hrow
    exact getWC_prop (fun row => ∀ x ∈ row, inIv (some 0) (some L.mapMax) x) s.coords [] _
      (fun q hq x hx => h1 q hq x hx) (by intro x hx; cases hx)
  · intro v hv
    obtain ⟨x, hx, rfl⟩ := List.mem_map.mp hv
    exact int_iv0 (h7 x hx).1 (h7 x hx).2

theorem observe_in_bounds (c : Cfg) (L : Lim) (s : State) (h : BInv c L s)
    (hk : s.stepCount ≤ 2 * c.numCustomers + 1) :
    InBounds (obsBounds c L) (obsLeaves (stateToObs s)) := by
  refine inBounds_cons _ _ _ _ _ _ rfl ?_ (observe_in_boundsS c L s h.1)
  intro l hl
  have hl' := h.2 l hl
  have h0 : 0 ≤ L.dmax := h.1.1.2.2.2.2
  have k1 : (s.stepCount : Rat) ≤ 2 * (c.numCustomers : Rat) + 1 := by exact_mod_cast hk
  have k2 : (s.stepCount : Rat) * L.dmax ≤ (2 * (c.numCustomers : Rat) + 1) * L.dmax :=
    Rat.mul_le_mul_of_nonneg_right k1 h0
  constructor
  · exact hl'.1
  · show l ≤ 2 * (c.numCustomers : Rat) * L.dmax
    grind

/-! ### the theorems -/

theorem reset_obs (c : Cfg) (nV : Nat) (dm : Int) (wl : Rat) (d : Draw) :
    (reset c nV dm wl d).2.obs = stateToObs (reset c nV dm wl d).1 := rfl

theorem reset_obs_in_bounds (c : Cfg) (L : Lim) (nV : Nat) (d : Draw) (h : validDrawB c L d) :
    InBounds (obsBounds c L) (obsLeaves (reset c nV L.demandMax L.windowLen d).2.obs) := by
  rw [reset_obs]
  exact observe_in_bounds c L _ (reset_bInv c L nV d h) (by simp [reset, generate])

/-- exact arithmetic, distances in `[0, dmax]`, a step from a state that has not timed out -/
theorem step_obs_in_bounds (c : Cfg) (L : Lim) (D : Dist) (s : State) (a : List Nat) (hD : DistOK L D)
    (h : BInv c L s) (hk : s.stepCount ≤ 2 * c.numCustomers) :
    InBounds (obsBounds c L) (obsLeaves (step id c D s a).2.obs) := by
  rw [step_obs, ← step_state]
  exact observe_in_bounds c L _ (step_bInv c L D s a hD h) (by rw [step_state, update_stepCount]; omega)

/-- every rounding function, every distance matrix, every state: all leaves but the local times -/
theorem step_obs_in_boundsS (rnd : Rat → Rat) (c : Cfg) (L : Lim) (D : Dist) (s : State) (a : List Nat)
    (h : SInv c L s) : InBounds (obsBoundsS c L) (obsLeaves (step rnd c D s a).2.obs) := by
  rw [step_obs, ← step_state]
  exact observe_in_boundsS c L _ (step_sInv rnd c L D s a h)

end MultiCVRP
