/-
MultiCVRP (jumanji/environments/routing/multi_cvrp/{env,utils,reward,generator,types,constants}.py).
Import-free.

L1 = transliteration of `step`, `_update_state`, `_state_to_observation`, `create_action_mask`,
`compute_time_penalties`, `worst_case_remaining_reward`, `DenseReward`, `SparseReward` and of the
shape of `UniformRandomGenerator.__call__` (the random arrays are draw parameters).
* Euclidean distances are NOT computed here: every function that needs one takes the matrix `D`
  (`D[i][j]` = distance between node `i` and node `j`, supplied by the adapter and checked against
  the coordinates by `distMatches`).  `coordinates[positions]` is a gather, hence `dist` clamps.
* float32 arithmetic is the parameter `rnd` (identity = exact ℚ in the theorems, `Jx.roundF32` in the
  executable correspondence), applied after every float operation of `_update_state` and of the two
  reward functions; the timeout reward `worst_case_remaining_reward` is computed exactly.
* `jnp.unique(next_nodes, return_index=True, size=num_vehicles)` followed by
  `zeros.at[unique_indices].set(values)` is `resolve`: sorted distinct values with the index of their
  first occurrence, padded with the smallest value and its index, scattered into zeros.
* int16 wrap-around is not modelled in `step` (unbounded integers); it is modelled in the generator's demand
  scaling (`scaleDemands`, `wrap16`), where Env/MultiCVRP/Generator.lean proves it never happens.

L2 = `legal` (per vehicle), `dests` (who goes where when several vehicles pick one customer),
`routes`, `Feasible`, `IsSolution`, `objective`, `observe`: the rules as documented
(docs/environments/multi_cvrp.md, the class docstrings and the comments of `_update_state`).
-/
import JumanjiModel.Prim.Idx
import JumanjiModel.Core.TimeStep
namespace MultiCVRP
open Jm

/-- `DEPOT_IDX` (constants.py) -/
def DEPOT : Nat := 0

structure State where
  coords : List (List Rat)       -- nodes.coordinates (num_customers + 1, 2)
  demands : List Int             -- nodes.demands (num_customers + 1,)
  winStart : List Rat            -- windows.start
  winEnd : List Rat              -- windows.end
  coefEarly : List Rat           -- coeffs.early
  coefLate : List Rat            -- coeffs.late
  localTimes : List Rat          -- vehicles.local_times (num_vehicles,)
  positions : List Nat           -- vehicles.positions
  capacities : List Int          -- vehicles.capacities
  distances : List Rat           -- vehicles.distances
  timePenalties : List Rat       -- vehicles.time_penalties
  order : List (List Nat)        -- (num_vehicles, 2 * num_customers)
  stepCount : Nat
  mask : List (List Bool)        -- cached action_mask (num_vehicles, num_customers + 1)
  deriving Repr, DecidableEq

structure Obs where
  coords : List (List Rat)
  demands : List Int
  winStart : List Rat
  winEnd : List Rat
  coefEarly : List Rat
  coefLate : List Rat
  vehCoords : List (List Rat)
  localTimes : List Rat
  capacities : List Int
  mask : List (List Bool)
  deriving Repr, DecidableEq

/-- constructor parameters: `generator._num_customers`, `generator._max_capacity`, reward function -/
structure Cfg where
  numCustomers : Nat
  maxCap : Int
  dense : Bool
  deriving Repr

abbrev Dist := List (List Rat)

/-- distance between `coordinates[i]` and `coordinates[j]` (both gathers clamp) -/
def dist (D : Dist) (i j : Nat) : Rat := Jx.getWC (Jx.getWC D [] (i : Int)) 0 (j : Int)

/-! ### L1 -/

/-- `create_action_mask`: per vehicle `(capacity >= node_demands) & (node_demands > 0)`, then
`.at[:, DEPOT_IDX].set(True)` -/
def createActionMask (demands : List Int) (caps : List Int) : List (List Bool) :=
  caps.map (fun cap =>
    Jx.setWD (demands.map (fun d => decide (cap ≥ d) && decide (d > 0))) (DEPOT : Int) true)

/-- `next_nodes * (capacities >= demands[next_nodes]) * (demands[next_nodes] > 0)` -/
def zeroInvalid (s : State) (a : List Nat) : List Nat :=
  List.zipWith (fun (x : Nat) (cap : Int) =>
    let d := Jx.getWC s.demands 0 (x : Int)
    x * (if cap ≥ d then 1 else 0) * (if d > 0 then 1 else 0)) a s.capacities

/-- ordered insertion without duplicates -/
def insertU (x : Nat) : List Nat → List Nat
  | [] => [x]
  | y :: ys => if x < y then x :: y :: ys else if x = y then y :: ys else y :: insertU x ys

/-- the sorted distinct values of a list -/
def sortedUnique (xs : List Nat) : List Nat := xs.foldr insertU []

/-- `jnp.unique(xs, return_index=True, size=len(xs))` as a list of (value, index of its first
occurrence), sorted by value, padded to `len(xs)` with the smallest value and its index -/
def uniqueFirst (xs : List Nat) : List (Nat × Nat) :=
  let ps := (sortedUnique xs).map (fun u => (u, xs.idxOf u))
  match ps with
  | [] => []
  | p :: _ => ps ++ List.replicate (xs.length - ps.length) p

/-- `jnp.zeros(len(xs)).at[unique_indices].set(values)` -/
def resolve (xs : List Nat) : List Nat :=
  (uniqueFirst xs).foldl (fun acc p => Jx.setWD acc (p.2 : Int) p.1) (List.replicate xs.length 0)

/-- one entry of `compute_time_penalties` -/
def timePenalty (rnd : Rat → Rat) (lt ws we ce cl : Rat) : Rat :=
  let early := if lt < ws then rnd (rnd (ws - lt) * ce) else 0
  let late := if lt > we then rnd (rnd (lt - we) * cl) else 0
  rnd (early + late)

/-- the destinations `_update_state` works with, after both zeroing stages -/
def nextNodes (s : State) (a : List Nat) : List Nat := resolve (zeroInvalid s a)

/-- `_update_state` -/
def update (rnd : Rat → Rat) (c : Cfg) (D : Dist) (s : State) (a : List Nat) : State :=
  let next := nextNodes s a
  let travel := List.zipWith (fun p q => dist D p q) s.positions next
  let distances := List.zipWith (fun d t => rnd (d + t)) s.distances travel
  let localTimes := List.zipWith (fun l t => rnd (l + t)) s.localTimes travel
  let pens := List.zipWith (fun lt (q : Nat) =>
      timePenalty rnd lt (Jx.getWC s.winStart 0 (q : Int)) (Jx.getWC s.winEnd 0 (q : Int))
        (Jx.getWC s.coefEarly 0 (q : Int)) (Jx.getWC s.coefLate 0 (q : Int))) localTimes next
  let timePenalties := List.zipWith (fun p x => rnd (p + x)) s.timePenalties pens
  let capacities := List.zipWith (fun (q : Nat) (cap : Int) =>
      if q == DEPOT then c.maxCap else cap - Jx.getWC s.demands 0 (q : Int)) next s.capacities
  let demands := next.foldl (fun d (q : Nat) => Jx.setWD d (q : Int) 0) s.demands
  let order := List.zipWith (fun row (q : Nat) => Jx.setWD row (s.stepCount : Int) q) s.order next
  { s with demands := demands
           localTimes := localTimes
           positions := next
           capacities := capacities
           distances := distances
           timePenalties := timePenalties
           stepCount := s.stepCount + 1
           order := order
           mask := createActionMask demands capacities }

/-- `_state_to_observation` -/
def stateToObs (s : State) : Obs :=
  { coords := s.coords, demands := s.demands, winStart := s.winStart, winEnd := s.winEnd,
    coefEarly := s.coefEarly, coefLate := s.coefLate,
    vehCoords := s.positions.map (fun (p : Nat) => Jx.getWC s.coords [] (p : Int)),
    localTimes := s.localTimes, capacities := s.capacities, mask := s.mask }

/-- `jnp.any(new_state.step_count > self._num_customers * 2)` -/
def timedOut (c : Cfg) (s : State) : Bool := decide (s.stepCount > c.numCustomers * 2)

/-- `(demands.sum() == 0) & (positions == DEPOT_IDX).all()` -/
def allServedAtDepot (s : State) : Bool :=
  decide (s.demands.sum = 0) && s.positions.all (fun p => p == DEPOT)

def isDone (c : Cfg) (s : State) : Bool := allServedAtDepot s || timedOut c s

/-- float sum, left to right -/
def sumF (rnd : Rat → Rat) (xs : List Rat) : Rat := xs.foldl (fun acc x => rnd (acc + x)) 0

/-- `worst_case_remaining_reward` (exact arithmetic) -/
def worstCase (D : Dist) (s : State) : Rat :=
  let n := s.demands.length
  let has : Nat → Bool := fun j => decide (s.demands.getD j 0 > 0)
  let distPen : Rat := 2 * ((List.range n).map (fun j => if has j then dist D DEPOT j else 0)).sum
  let cur : Rat := s.localTimes.sum / (s.localTimes.length : Rat) + distPen
  let timePen : Rat := ((List.range n).map (fun j =>
      if has j then timePenalty id cur (s.winStart.getD j 0) (s.winEnd.getD j 0)
        (s.coefEarly.getD j 0) (s.coefLate.getD j 0) else 0)).sum
  (0 : Rat) - distPen - timePen

/-- `DenseReward.__call__` -/
def denseReward (rnd : Rat → Rat) (c : Cfg) (D : Dist) (s s' : State) : Rat :=
  if timedOut c s' then worstCase D s'
  else rnd (rnd (sumF rnd s.distances - sumF rnd s'.distances) +
            rnd (sumF rnd s.timePenalties - sumF rnd s'.timePenalties))

/-- `SparseReward.__call__` -/
def sparseReward (rnd : Rat → Rat) (c : Cfg) (D : Dist) (s' : State) (done : Bool) : Rat :=
  if done then
    (if timedOut c s' then worstCase D s'
     else rnd (-(sumF rnd s'.distances) - sumF rnd s'.timePenalties))
  else 0

def reward (rnd : Rat → Rat) (c : Cfg) (D : Dist) (s s' : State) (done : Bool) : Rat :=
  if c.dense then denseReward rnd c D s s' else sparseReward rnd c D s' done

/-- `MultiCVRP.step` -/
def step (rnd : Rat → Rat) (c : Cfg) (D : Dist) (s : State) (a : List Nat) : State × TimeStep Obs :=
  let s' := update rnd c D s a
  let done := isDone c s'
  let r := reward rnd c D s s' done
  (s', condLast done [r] (stateToObs s'))

/-- the random arrays `generate_uniform_random_problem` draws, and the result of the float scaling
`int16(demands * (total_capacity / sum(demands)))` of the demand vector (`scaled`) -/
structure Draw where
  coords : List (List Rat)
  scaled : List Int
  winStart : List Rat
  coefEarly : List Rat
  coefLate : List Rat
  deriving Repr

/-- `UniformRandomGenerator.__call__` (shape of it; `windowLen` = `_time_window_length`) -/
def generate (c : Cfg) (numVehicles : Nat) (demandMax : Int) (windowLen : Rat) (d : Draw) : State :=
  let demands := d.scaled.map (fun x => min x demandMax)
  let caps := List.replicate numVehicles c.maxCap
  { coords := d.coords
    demands := demands
    winStart := d.winStart
    winEnd := d.winStart.map (fun x => x + windowLen)
    coefEarly := Jx.setWD d.coefEarly (DEPOT : Int) 0
    coefLate := Jx.setWD d.coefLate (DEPOT : Int) 0
    localTimes := List.replicate numVehicles 0
    positions := List.replicate numVehicles DEPOT
    capacities := caps
    distances := List.replicate numVehicles 0
    timePenalties := List.replicate numVehicles 0
    order := List.replicate numVehicles (List.replicate (2 * c.numCustomers) 0)
    stepCount := 1
    mask := createActionMask demands caps }

/-- what the generator can draw: `num_customers + 1` points of the box `[0, mapMax]²`, scaled
demands that are non-negative with the depot's equal to 0 (it is `0 * factor`) -/
def validDraw (c : Cfg) (mapMax : Rat) (d : Draw) : Prop :=
  d.coords.length = c.numCustomers + 1 ∧ d.scaled.length = c.numCustomers + 1 ∧
  (∀ p ∈ d.coords, p.length = 2 ∧ ∀ x ∈ p, 0 ≤ x ∧ x ≤ mapMax) ∧
  (∀ x ∈ d.scaled, 0 ≤ x) ∧ d.scaled.getD DEPOT 1 = 0

instance (c : Cfg) (m : Rat) (d : Draw) : Decidable (validDraw c m d) := by
  unfold validDraw; infer_instance

/-! #### the generator from the RAW random numbers (audit r1 entry 10)

`Draw`/`validDraw` above take the random arrays AFTER the generator's arithmetic (and `validDraw` assumes their
ranges).  Here the draw is what comes out of the PRNG — unit uniforms `u ∈ [0, 1)` and the integers of `randint` —
and the arithmetic of `jax.random.uniform(minval, maxval)` and of the int16 demand scaling is transliterated, so
that the ranges become theorems (Env/MultiCVRP/Generator.lean). -/

/-- the numbers `generate_uniform_random_problem` gets from the PRNG: the unit uniforms behind its four
`jax.random.uniform` calls (coordinates, window starts, early / late coefficients) and the result of
`jax.random.randint(demand_key, (n + 1,), minval=0, maxval=customer_demand_max)` -/
structure RawDraw where
  uCoords : List (List Rat)
  rawDemands : List Int
  uWin : List Rat
  uEarly : List Rat
  uLate : List Rat
  deriving Repr

/-- the generator's parameters: `_map_max`, `_customer_demand_max`, `_max_start_window`, `_time_window_length`,
`_early_coef_rand`, `_late_coef_rand` -/
structure GenCfg where
  mapMax : Rat
  demandMax : Int
  maxStart : Rat
  windowLen : Rat
  earlyLo : Rat
  earlyHi : Rat
  lateLo : Rat
  lateHi : Rat
  deriving Repr

/-- `jax.random.uniform(key, shape, minval=lo, maxval=hi)` on the unit uniform `u`:
`lax.max(minval, u * (maxval - minval) + minval)`, every float operation rounded -/
def uniformMap (rnd : Rat → Rat) (lo hi u : Rat) : Rat :=
  let x := rnd (rnd (u * rnd (hi - lo)) + lo)
  if lo ≤ x then x else lo

/-- float → integer conversion: truncation toward zero -/
def truncInt (q : Rat) : Int := if 0 ≤ q then q.floor else -((-q).floor)

/-- two's-complement wrap of an integer into int16 -/
def wrap16 (z : Int) : Int := (z + 32768) % 65536 - 32768

/-- `node_demands.at[DEPOT_IDX].set(0)` then
`jnp.asarray(node_demands * (total_capacity / jnp.sum(node_demands)), dtype=jnp.int16)`: the quotient is one float
(`total / 0 = 0` here; the code gets `0 · inf = nan → 0`: only when every demand is 0, and then every product is 0
here too), each product is rounded, truncated and wrapped to int16 -/
def scaleDemands (rnd : Rat → Rat) (total : Int) (raw : List Int) : List Int :=
  let ds := Jx.setWD raw (DEPOT : Int) 0
  let f := rnd ((total : Rat) / (ds.sum : Rat))
  ds.map (fun (x : Int) => wrap16 (truncInt (rnd ((x : Rat) * f))))

/-- the random arrays of `generate_uniform_random_problem` computed from the raw draw
(`total_capacity = max_capacity * num_vehicles`) -/
def drawOfRaw (rnd : Rat → Rat) (c : Cfg) (numVehicles : Nat) (g : GenCfg) (r : RawDraw) : Draw :=
  { coords := r.uCoords.map (fun p => p.map (uniformMap rnd 0 g.mapMax))
    scaled := scaleDemands rnd (c.maxCap * (numVehicles : Int)) r.rawDemands
    winStart := r.uWin.map (uniformMap rnd 0 g.maxStart)
    coefEarly := r.uEarly.map (uniformMap rnd g.earlyLo g.earlyHi)
    coefLate := r.uLate.map (uniformMap rnd g.lateLo g.lateHi) }

/-- `UniformRandomGenerator.__call__` from the raw draw (`window_end = window_start + window_length` is a float
addition) -/
def generateRaw (rnd : Rat → Rat) (c : Cfg) (numVehicles : Nat) (g : GenCfg) (r : RawDraw) : State :=
  let d := drawOfRaw rnd c numVehicles g r
  { generate c numVehicles g.demandMax g.windowLen d with
    winEnd := d.winStart.map (fun x => rnd (x + g.windowLen)) }

/-- what the PRNG can deliver: one pair of unit uniforms per node, one unit uniform per node for windows and
coefficients (`0 ≤ u < 1`), one integer `0 ≤ x < customer_demand_max` per node -/
def validRaw (c : Cfg) (g : GenCfg) (r : RawDraw) : Prop :=
  r.uCoords.length = c.numCustomers + 1 ∧ r.rawDemands.length = c.numCustomers + 1 ∧
  r.uWin.length = c.numCustomers + 1 ∧ r.uEarly.length = c.numCustomers + 1 ∧
  r.uLate.length = c.numCustomers + 1 ∧
  (∀ p ∈ r.uCoords, p.length = 2 ∧ ∀ u ∈ p, 0 ≤ u ∧ u < 1) ∧
  (∀ x ∈ r.rawDemands, 0 ≤ x ∧ x < g.demandMax) ∧
  (∀ u ∈ r.uWin, 0 ≤ u ∧ u < 1) ∧ (∀ u ∈ r.uEarly, 0 ≤ u ∧ u < 1) ∧ (∀ u ∈ r.uLate, 0 ≤ u ∧ u < 1)

instance (c : Cfg) (g : GenCfg) (r : RawDraw) : Decidable (validRaw c g r) := by
  unfold validRaw; infer_instance

/-- `MultiCVRP.reset` -/
def reset (c : Cfg) (numVehicles : Nat) (demandMax : Int) (windowLen : Rat) (d : Draw) :
    State × TimeStep Obs :=
  let s := generate c numVehicles demandMax windowLen d
  (s, restart (stateToObs s))

/-! ### L2: the rules -/

def numNodes (s : State) : Nat := s.demands.length
def numVehicles (s : State) : Nat := s.capacities.length

/-- "An action is the index of the next node to visit, 0 is the depot."  Vehicle `v` may always go
to the depot; it may go to customer `a` iff that customer still has demand and the demand fits the
vehicle's remaining capacity. -/
def legal (s : State) (v : Nat) (a : Nat) : Prop :=
  v < s.capacities.length ∧ a < s.demands.length ∧
  (a = DEPOT ∨ (0 < s.demands.getD a 0 ∧ s.demands.getD a 0 ≤ s.capacities.getD v 0))

instance (s : State) (v a : Nat) : Decidable (legal s v a) := by unfold legal; infer_instance

/-- vehicle `v`'s choice is honoured iff it is legal and — when it is a customer — no vehicle with a
smaller index made the same legal choice (the depot can be shared); a choice that is not honoured
sends the vehicle to the depot. -/
def honoured (s : State) (a : List Nat) (v : Nat) : Bool :=
  decide (legal s v (a.getD v 0)) &&
  (a.getD v 0 == DEPOT ||
   (List.range v).all (fun u => !(decide (legal s u (a.getD u 0)) && a.getD u 0 == a.getD v 0)))

/-- where the vehicles go by the rules -/
def dests (s : State) (a : List Nat) : List Nat :=
  (List.range a.length).map (fun v => if honoured s a v then a.getD v 0 else DEPOT)

/-- the demands after a step by the rules: a customer is served (demand set to zero) iff some
vehicle's honoured choice is that customer -/
def demandsAfter (s : State) (a : List Nat) : List Int :=
  (List.range s.demands.length).map (fun j =>
    if j ≠ DEPOT ∧ j ∈ dests s a then 0 else s.demands.getD j 0)

/-- C05: a vehicle whose choice is not honoured (illegal, or lost against a vehicle with a smaller
index) is sent to the depot — where it is refilled — and nothing is served on its behalf -/
def IllegalIgnored (c : Cfg) (s : State) (a : List Nat) (s' : State) : Prop :=
  (∀ v, v < a.length → honoured s a v = false →
    s'.positions.getD v 1 = DEPOT ∧ s'.capacities.getD v 0 = c.maxCap) ∧
  s'.demands = demandsAfter s a

instance (c : Cfg) (s : State) (a : List Nat) (s' : State) : Decidable (IllegalIgnored c s a s') := by
  unfold IllegalIgnored; infer_instance

/-- the recorded route of each vehicle: the start at the depot and the node visited at each of the
`stepCount - 1` steps made so far -/
def routes (s : State) : List (List Nat) := s.order.map (fun row => row.take s.stepCount)

/-- how often customer `c` appears on the recorded routes of all vehicles -/
def visitCount (s : State) (c : Nat) : Nat := ((routes s).map (fun r => r.count c)).sum

/-- load on board after driving a route (`d0` = the demands of the instance): emptied at the depot -/
def finalLoad (d0 : List Int) : Int → List Nat → Int
  | load, [] => load
  | load, v :: vs => finalLoad d0 (if v = DEPOT then 0 else load + d0.getD v 0) vs

/-- was the load within the capacity after every single visit? -/
def loadsOK (d0 : List Int) (cap : Int) : Int → List Nat → Bool
  | _, [] => true
  | load, v :: vs =>
    let load' := if v = DEPOT then 0 else load + d0.getD v 0
    decide (load' ≤ cap) && loadsOK d0 cap load' vs

/-- is the recorded history complete?  (`order` has `2·num_customers` columns and column
`stepCount` is written at each step, so the move of the very last step before the step limit, at
`stepCount = 2·num_customers`, is dropped) -/
def recorded (c : Cfg) (s : State) : Prop := s.stepCount ≤ 2 * c.numCustomers

instance (c : Cfg) (s : State) : Decidable (recorded c s) := by unfold recorded; infer_instance

/-- the part of the hard constraints that needs no history: shapes, every demand is either still
the instance's demand or zero (served), every vehicle's remaining capacity within `[0, maxCap]`
(load on board = `maxCap − capacity` never above the capacity, never negative), no two vehicles
at the same customer, and the cached mask is the mask of the state. -/
def BasicFeasible (c : Cfg) (d0 : List Int) (s : State) : Prop :=
  s.demands.length = c.numCustomers + 1 ∧ d0.length = s.demands.length ∧
  s.positions.length = s.capacities.length ∧ s.order.length = s.capacities.length ∧
  (∀ row ∈ s.order, row.length = 2 * c.numCustomers) ∧
  1 ≤ s.stepCount ∧
  (∀ x ∈ d0, 0 ≤ x) ∧ d0.getD DEPOT 1 = 0 ∧
  (∀ j, j < s.demands.length → s.demands.getD j 0 = d0.getD j 0 ∨ s.demands.getD j 0 = 0) ∧
  (∀ cap ∈ s.capacities, 0 ≤ cap ∧ cap ≤ c.maxCap) ∧
  (∀ u, u < s.positions.length → ∀ v, v < u →
      s.positions.getD u 0 = s.positions.getD v 0 → s.positions.getD u 0 = DEPOT) ∧
  s.mask = createActionMask s.demands s.capacities

instance (c : Cfg) (d0 : List Int) (s : State) : Decidable (BasicFeasible c d0 s) := by
  unfold BasicFeasible; infer_instance

/-- route `r` of vehicle `v`: starts at the depot, holds node indices, ends where the vehicle stands,
the load never exceeds the capacity, and `capacity` is what is left on the current leg -/
def RouteOK (c : Cfg) (d0 : List Int) (s : State) (v : Nat) (r : List Nat) : Prop :=
  r.length = s.stepCount ∧ r.getD 0 1 = DEPOT ∧ (∀ x ∈ r, x < s.demands.length) ∧
  s.positions.getD v 0 = r.getD (s.stepCount - 1) 0 ∧
  loadsOK d0 c.maxCap 0 r = true ∧
  s.capacities.getD v 0 = c.maxCap - finalLoad d0 0 r

instance (c : Cfg) (d0 : List Int) (s : State) (v : Nat) (r : List Nat) : Decidable (RouteOK c d0 s v r) := by
  unfold RouteOK; infer_instance

/-- the hard constraints recomputed from the recorded routes (while the history is complete):
* every vehicle's route starts at the depot, holds node indices and ends where the vehicle stands;
* no customer appears twice on the routes of all vehicles together, and a customer's demand is zero
  exactly when it appears (and then it had demand);
* on every route the load never exceeds the capacity, and `capacity` is what is left of it on the
  current leg. -/
def HistoryFeasible (c : Cfg) (d0 : List Int) (s : State) : Prop :=
  (∀ v, v < s.capacities.length → RouteOK c d0 s v ((routes s).getD v [])) ∧
  (∀ j, j < s.demands.length → 0 < j →
    (visitCount s j = 0 ∧ s.demands.getD j 0 = d0.getD j 0) ∨
    (visitCount s j = 1 ∧ s.demands.getD j 0 = 0 ∧ 0 < d0.getD j 0))

instance (c : Cfg) (d0 : List Int) (s : State) : Decidable (HistoryFeasible c d0 s) := by
  unfold HistoryFeasible; infer_instance

/-- C06: the hard constraints of the problem on a state of the instance with demands `d0` -/
def Feasible (c : Cfg) (d0 : List Int) (s : State) : Prop :=
  BasicFeasible c d0 s ∧ (recorded c s → HistoryFeasible c d0 s)

instance (c : Cfg) (d0 : List Int) (s : State) : Decidable (Feasible c d0 s) := by
  unfold Feasible; infer_instance

/-- a complete solution: feasible, no demand left, every vehicle back at the depot -/
def IsSolution (c : Cfg) (d0 : List Int) (s : State) : Prop :=
  Feasible c d0 s ∧ (∀ x ∈ s.demands, x = 0) ∧ (∀ p ∈ s.positions, p = DEPOT) ∧
  (recorded c s → ∀ j, j < d0.length → 0 < j → 0 < d0.getD j 0 → visitCount s j = 1)

instance (c : Cfg) (d0 : List Int) (s : State) : Decidable (IsSolution c d0 s) := by
  unfold IsSolution; infer_instance

/-- length of the open path through a list of nodes -/
def pathLen (D : Dist) : List Nat → Rat
  | [] => 0
  | [_] => 0
  | u :: v :: vs => dist D u v + pathLen D (v :: vs)

/-- the time penalties collected along a route: the vehicle's clock is the distance driven (speed 1);
arriving before the window opens costs `(start − t)·early`, after it closes `(t − end)·late` -/
def routePenalty (D : Dist) (s : State) : Rat → List Nat → Rat
  | _, [] => 0
  | _, [_] => 0
  | t, u :: v :: vs =>
    let t' := t + dist D u v
    timePenalty id t' (s.winStart.getD v 0) (s.winEnd.getD v 0) (s.coefEarly.getD v 0)
      (s.coefLate.getD v 0) + routePenalty D s t' (v :: vs)

/-- the documented objective: minus (total distance driven by all vehicles + all time penalties),
recomputed from the recorded routes -/
def objective (D : Dist) (s : State) : Rat :=
  -(((routes s).map (fun r => pathLen D r + routePenalty D s 0 r)).sum)

/-- the objective as the state's own accumulators give it -/
def accumulated (s : State) : Rat := -(s.distances.sum + s.timePenalties.sum)

/-- the documented observation: problem data copied, the vehicles' coordinates looked up from their
positions, local times and capacities copied, `action_mask[v][a]` = may vehicle `v` go to node `a` -/
def observe (s : State) : Obs :=
  { coords := s.coords, demands := s.demands, winStart := s.winStart, winEnd := s.winEnd,
    coefEarly := s.coefEarly, coefLate := s.coefLate,
    vehCoords := s.positions.map (fun p => s.coords.getD p []),
    localTimes := s.localTimes, capacities := s.capacities,
    mask := (List.range s.capacities.length).map (fun v =>
      (List.range s.demands.length).map (fun a => decide (legal s v a))) }

/-! ### instance certificates (C10) -/

/-- demands never exceed the capacity of a vehicle (nor the declared maximum demand) and the depot
has none -/
def demandsOK (c : Cfg) (demandMax : Int) (s : State) : Prop :=
  s.demands.getD DEPOT 1 = 0 ∧ (∀ d ∈ s.demands, 0 ≤ d ∧ d ≤ demandMax ∧ d ≤ c.maxCap)

instance (c : Cfg) (m : Int) (s : State) : Decidable (demandsOK c m s) := by
  unfold demandsOK; infer_instance

def coordsInBox (mapMax : Rat) (s : State) : Prop :=
  ∀ p ∈ s.coords, p.length = 2 ∧ ∀ x ∈ p, 0 ≤ x ∧ x ≤ mapMax

instance (m : Rat) (s : State) : Decidable (coordsInBox m s) := by unfold coordsInBox; infer_instance

/-- time windows `[start, start + windowLen]` with `0 ≤ start ≤ maxStart`; coefficients
non-negative, zero at the depot -/
def windowsOK (maxStart windowLen tol : Rat) (s : State) : Prop :=
  s.winStart.length = s.demands.length ∧ s.winEnd.length = s.demands.length ∧
  s.coefEarly.length = s.demands.length ∧ s.coefLate.length = s.demands.length ∧
  (∀ x ∈ s.winStart, 0 ≤ x ∧ x ≤ maxStart) ∧
  (∀ j, j < s.winStart.length →
      s.winEnd.getD j 0 - (s.winStart.getD j 0 + windowLen) ≤ tol ∧
      (s.winStart.getD j 0 + windowLen) - s.winEnd.getD j 0 ≤ tol) ∧
  (∀ x ∈ s.coefEarly, 0 ≤ x) ∧ (∀ x ∈ s.coefLate, 0 ≤ x) ∧
  s.coefEarly.getD DEPOT 1 = 0 ∧ s.coefLate.getD DEPOT 1 = 0

instance (a b t : Rat) (s : State) : Decidable (windowsOK a b t s) := by
  unfold windowsOK; infer_instance

/-- the state `reset` must return -/
def IsInitial (c : Cfg) (numVeh : Nat) (s : State) : Prop :=
  s.coords.length = c.numCustomers + 1 ∧ s.demands.length = c.numCustomers + 1 ∧
  s.positions = List.replicate numVeh DEPOT ∧ s.capacities = List.replicate numVeh c.maxCap ∧
  s.localTimes = List.replicate numVeh 0 ∧ s.distances = List.replicate numVeh 0 ∧
  s.timePenalties = List.replicate numVeh 0 ∧
  s.order = List.replicate numVeh (List.replicate (2 * c.numCustomers) 0) ∧ s.stepCount = 1 ∧
  s.mask = createActionMask s.demands s.capacities

instance (c : Cfg) (n : Nat) (s : State) : Decidable (IsInitial c n s) := by
  unfold IsInitial; infer_instance

/-- does the matrix `D` agree with the coordinates: `|D[i][j]² − ‖pᵢ − pⱼ‖²| ≤ tol·(1 + ‖pᵢ − pⱼ‖²)`,
`D ≥ 0`, zero diagonal -/
def distMatches (tol : Rat) (coords : List (List Rat)) (D : Dist) : Bool :=
  decide (D.length = coords.length) &&
  (List.zipWith (fun (p : List Rat) (row : List Rat) =>
      decide (row.length = coords.length) &&
      (List.zipWith (fun (q : List Rat) (d : Rat) =>
          let dx := p.getD 0 0 - q.getD 0 0
          let dy := p.getD 1 0 - q.getD 1 0
          let sq := dx * dx + dy * dy
          let e := d * d - sq
          decide (0 ≤ d) && decide (e ≤ tol * (1 + sq)) && decide (-(tol * (1 + sq)) ≤ e)) coords row).all id)
    coords D).all id &&
  ((List.range D.length).all (fun i => dist D i i == 0))

/-- float32 states: the accumulators agree with the recorded routes within `tol` (relative) -/
def accumulatorsMatch (tol : Rat) (D : Dist) (s : State) : Bool :=
  let a := accumulated s
  let o := objective D s
  decide (a - o ≤ tol * (1 - o)) && decide (o - a ≤ tol * (1 - o))

end MultiCVRP
