/-
MultiCVRP, audit r1 (entries 3, 4 and the gaps "no `feasible_along`", "distance matrix `D` free").

* `runState rnd c D s as`: the state after playing a list of joint actions (any rounding function);
  `InRange n nV as`: every joint action has one entry per vehicle, each a node index `< n`.
* `feasible_along` (C06, whole episode): `Feasible` holds after every prefix of every in-range play from a feasible
  state, for every rounding function (induction over `step_feasible`); `reset_feasible_along` from `reset`;
  `run_complete_is_solution`.
* `dense_reward` (C08): the dense reward of EVERY step (the timeout branch included).
* `Euclid coords D`: `D` is the matrix of Euclidean distances of `coords` (`D[i][j] ≥ 0`, `D[i][j]² = ‖pᵢ − pⱼ‖²`);
  `distMatches 0 coords D = true → Euclid coords D`; two such matrices agree on all node pairs, hence route lengths,
  route penalties and the objective are functions of the coordinates (`objective_euclid_unique`);
  `episode_return_euclid`: the whole-episode return theorem with `D` tied to the coordinates.
-/
import JumanjiModel.Env.MultiCVRP.ReturnLemmas
import JumanjiModel.Env.MultiCVRP.Bounds
namespace MultiCVRP
open Jm

/-! ### whole runs -/

/-- the state after playing the joint actions `as` from `s` (rounding function `rnd`) -/
def runState (rnd : Rat → Rat) (c : Cfg) (D : Dist) : State → List (List Nat) → State
  | s, [] => s
  | s, a :: as => runState rnd c D (step rnd c D s a).1 as

theorem finalState_eq_runState (c : Cfg) (D : Dist) (s : State) (as : List (List Nat)) :
    finalState c D s as = runState id c D s as := by
  induction as generalizing s with
  | nil => rfl
  | cons a as ih => simp only [finalState, runState]; exact ih _

/-- every joint action of the play has one entry per vehicle, each a node index `< nNodes`
(`nNodes = num_customers + 1`: the documented action range `[0, num_customers]`) -/
def InRange (nNodes nV : Nat) (as : List (List Nat)) : Prop :=
  ∀ a ∈ as, a.length = nV ∧ ∀ x ∈ a, x < nNodes

instance (n nV : Nat) (as : List (List Nat)) : Decidable (InRange n nV as) := by unfold InRange; infer_instance

theorem nextNodes_length (s : State) (a : List Nat) (hl : a.length = s.capacities.length) :
    (nextNodes s a).length = a.length := by
  unfold nextNodes; rw [resolve_length, zeroInvalid_length s a hl]

theorem update_capacities_length (rnd : Rat → Rat) (c : Cfg) (D : Dist) (s : State) (a : List Nat)
    (hl : a.length = s.capacities.length) : (update rnd c D s a).capacities.length = s.capacities.length := by
  show (List.zipWith _ (nextNodes s a) s.capacities).length = _
  rw [List.length_zipWith, nextNodes_length s a hl]; omega

/-- C06, whole episode: from a feasible state, after EVERY prefix of EVERY play of in-range joint actions (legal or
not, any length — also past the end of the episode), for every rounding function, the state is `Feasible` -/
theorem feasible_along (rnd : Rat → Rat) (c : Cfg) (D : Dist) (d0 : List Int) (s : State) (as : List (List Nat))
    (hm : 0 ≤ c.maxCap) (hf : Feasible c d0 s) (hr : InRange s.demands.length s.capacities.length as) (k : Nat) :
    Feasible c d0 (runState rnd c D s (as.take k)) := by
  induction as generalizing s k with
  | nil => simpa [runState] using hf
  | cons a as ih =>
    cases k with
    | zero => simpa [runState] using hf
    | succ k =>
      simp only [List.take_succ_cons, runState]
      have ha := hr a List.mem_cons_self
      apply ih
      · exact step_feasible rnd c D d0 s a hm ha.1 ha.2 hf
      · intro b hb
        rw [step_state, update_demands_length, update_capacities_length rnd c D s a ha.1]
        exact hr b (List.mem_cons_of_mem _ hb)

theorem feasible_run (rnd : Rat → Rat) (c : Cfg) (D : Dist) (d0 : List Int) (s : State) (as : List (List Nat))
    (hm : 0 ≤ c.maxCap) (hf : Feasible c d0 s) (hr : InRange s.demands.length s.capacities.length as) :
    Feasible c d0 (runState rnd c D s as) := by
  have := feasible_along rnd c D d0 s as hm hf hr as.length
  rwa [List.take_length] at this

/-- … from `reset`: every instance the generator can draw, every play of in-range joint actions -/
theorem reset_feasible_along (rnd : Rat → Rat) (c : Cfg) (D : Dist) (nV : Nat) (demandMax : Int)
    (mapMax windowLen : Rat) (d : Draw) (as : List (List Nat)) (hm : 0 ≤ c.maxCap) (hpos : 0 ≤ demandMax)
    (hd : validDraw c mapMax d) (hr : InRange (c.numCustomers + 1) nV as) (k : Nat) :
    Feasible c (reset c nV demandMax windowLen d).1.demands
      (runState rnd c D (reset c nV demandMax windowLen d).1 (as.take k)) := by
  apply feasible_along rnd c D _ _ as hm (generate_feasible c nV demandMax mapMax windowLen d hm hpos hd)
  have h1 : (reset c nV demandMax windowLen d).1.demands.length = c.numCustomers + 1 := by
    show (d.scaled.map _).length = _
    rw [List.length_map]; exact hd.2.1
  have h2 : (reset c nV demandMax windowLen d).1.capacities.length = nV := by
    show (List.replicate nV c.maxCap).length = _
    simp
  show InRange (reset c nV demandMax windowLen d).1.demands.length
    (reset c nV demandMax windowLen d).1.capacities.length as
  rw [h1, h2]; exact hr

/-- a play that reaches "no demand left, all vehicles at the depot" holds a complete feasible solution -/
theorem run_complete_is_solution (rnd : Rat → Rat) (c : Cfg) (D : Dist) (d0 : List Int) (s : State)
    (as : List (List Nat)) (hm : 0 ≤ c.maxCap) (hf : Feasible c d0 s)
    (hr : InRange s.demands.length s.capacities.length as)
    (h : allServedAtDepot (runState rnd c D s as) = true) : IsSolution c d0 (runState rnd c D s as) :=
  complete_is_solution c d0 _ (feasible_run rnd c D d0 s as hm hf hr) h

/-! ### the dense reward of every step -/

/-- C08 (dense, exact arithmetic), EVERY step: at the step limit `worst_case_remaining_reward`, otherwise the change
of the accumulated objective -/
theorem dense_reward (c : Cfg) (D : Dist) (s : State) (a : List Nat) (hd : c.dense = true) :
    (step id c D s a).2.reward =
      [if timedOut c (step id c D s a).1 then worstCase D (step id c D s a).1
       else accumulated (step id c D s a).1 - accumulated s] := by
  by_cases ht : timedOut c (step id c D s a).1 = true
  · rw [if_pos ht, step_reward]
    rw [step_state] at ht ⊢
    unfold reward denseReward
    rw [hd, ht]; simp
  · have ht' : timedOut c (step id c D s a).1 = false := by simpa using ht
    rw [if_neg ht]
    exact dense_telescopes c D s a hd ht'

/-! ### the distance matrix is the Euclidean one of the coordinates -/

/-- squared Euclidean distance between nodes `i` and `j` -/
def sqDist (coords : List (List Rat)) (i j : Nat) : Rat :=
  ((coords.getD i []).getD 0 0 - (coords.getD j []).getD 0 0) * ((coords.getD i []).getD 0 0 - (coords.getD j []).getD 0 0) +
  ((coords.getD i []).getD 1 0 - (coords.getD j []).getD 1 0) * ((coords.getD i []).getD 1 0 - (coords.getD j []).getD 1 0)

/-- `D` is the matrix of Euclidean distances between the nodes: every entry is the non-negative root of the squared
distance of the two coordinates (`compute_distance = jnp.linalg.norm(a − b)` in exact arithmetic) -/
def Euclid (coords : List (List Rat)) (D : Dist) : Prop :=
  ∀ i j, i < coords.length → j < coords.length →
    0 ≤ dist D i j ∧ dist D i j * dist D i j = sqDist coords i j

theorem sq_lt (a b : Rat) (ha : 0 ≤ a) (hlt : a < b) : a * a < b * b := by
  have h1 : a * a ≤ a * b := Rat.mul_le_mul_of_nonneg_left (Rat.le_of_lt hlt) ha
  have hbp : 0 < b := by grind
  have h2 : a * b < b * b := Rat.mul_lt_mul_of_pos_right hlt hbp
  grind

theorem sq_inj (a b : Rat) (ha : 0 ≤ a) (hb : 0 ≤ b) (h : a * a = b * b) : a = b := by
  by_cases h1 : a < b
  · have := sq_lt a b ha h1; grind
  · by_cases h2 : b < a
    · have := sq_lt b a hb h2; grind
    · grind

theorem dist_eq_getD (D : Dist) (i j : Nat) (hi : i < D.length) (hj : j < (D.getD i []).length) :
    dist D i j = (D.getD i []).getD j 0 := by
  unfold dist
  rw [Jx.getWC_nat D [] hi, Jx.getWC_nat _ 0 hj]

theorem all_zipWith_getElem {α β} (f : α → β → Bool) (l1 : List α) (l2 : List β)
    (h : (List.zipWith f l1 l2).all id = true) (i : Nat) (h1 : i < l1.length) (h2 : i < l2.length) :
    f l1[i] l2[i] = true := by
  rw [List.all_eq_true] at h
  have := h (f l1[i] l2[i]) (List.mem_iff_getElem.2 ⟨i, by rw [List.length_zipWith]; omega, by simp⟩)
  exact this

/-- the executable test `distMatches` (with tolerance 0: exact arithmetic) establishes `Euclid` -/
theorem distMatches_euclid (coords : List (List Rat)) (D : Dist) (h : distMatches 0 coords D = true) :
    Euclid coords D := by
  unfold distMatches at h
  simp only [Bool.and_eq_true, decide_eq_true_eq] at h
  obtain ⟨⟨hlen, hrows⟩, _⟩ := h
  intro i j hi hj
  have hiD : i < D.length := by omega
  have hrow := all_zipWith_getElem _ coords D hrows i hi hiD
  simp only [Bool.and_eq_true, decide_eq_true_eq] at hrow
  obtain ⟨hrl, hcells⟩ := hrow
  have hjr : j < (D[i]).length := by omega
  have hcell := all_zipWith_getElem _ coords D[i] hcells j hj hjr
  simp only [Bool.and_eq_true, decide_eq_true_eq] at hcell
  have eDi : D.getD i [] = D[i] := by
    rw [List.getD_eq_getElem?_getD, List.getElem?_eq_getElem hiD]; rfl
  have ed : dist D i j = (D[i])[j] := by
    rw [dist_eq_getD D i j hiD (by rw [eDi]; exact hjr), eDi]
    rw [List.getD_eq_getElem?_getD, List.getElem?_eq_getElem hjr]; rfl
  have eci : coords.getD i [] = coords[i] := by
    rw [List.getD_eq_getElem?_getD, List.getElem?_eq_getElem hi]; rfl
  have ecj : coords.getD j [] = coords[j] := by
    rw [List.getD_eq_getElem?_getD, List.getElem?_eq_getElem hj]; rfl
  rw [ed]
  unfold sqDist
  rw [eci, ecj]
  obtain ⟨⟨h0, h1⟩, h2⟩ := hcell
  refine ⟨h0, ?_⟩
  grind

/-- two Euclidean matrices of the same coordinates agree on every pair of nodes -/
theorem euclid_unique (coords : List (List Rat)) (D D' : Dist) (h : Euclid coords D) (h' : Euclid coords D')
    (i j : Nat) (hi : i < coords.length) (hj : j < coords.length) : dist D i j = dist D' i j := by
  obtain ⟨a0, a1⟩ := h i j hi hj
  obtain ⟨b0, b1⟩ := h' i j hi hj
  exact sq_inj _ _ a0 b0 (by rw [a1, b1])

theorem sqDist_symm (coords : List (List Rat)) (i j : Nat) : sqDist coords i j = sqDist coords j i := by
  unfold sqDist; grind

/-- a Euclidean matrix is symmetric with a zero diagonal -/
theorem euclid_symm (coords : List (List Rat)) (D : Dist) (h : Euclid coords D) (i j : Nat)
    (hi : i < coords.length) (hj : j < coords.length) : dist D i j = dist D j i := by
  obtain ⟨a0, a1⟩ := h i j hi hj
  obtain ⟨b0, b1⟩ := h j i hj hi
  exact sq_inj _ _ a0 b0 (by rw [a1, b1, sqDist_symm])

theorem euclid_self (coords : List (List Rat)) (D : Dist) (h : Euclid coords D) (i : Nat)
    (hi : i < coords.length) : dist D i i = 0 := by
  obtain ⟨a0, a1⟩ := h i i hi hi
  apply sq_inj _ _ a0 Rat.le_refl
  rw [a1]; unfold sqDist; grind

/-! ### route lengths, penalties and the objective are functions of the coordinates -/

theorem pathLen_congr (D D' : Dist) (n : Nat) (hd : ∀ i j, i < n → j < n → dist D i j = dist D' i j)
    (r : List Nat) (hr : ∀ x ∈ r, x < n) : pathLen D r = pathLen D' r := by
  induction r with
  | nil => rfl
  | cons u vs ih =>
    cases vs with
    | nil => rfl
    | cons v vs =>
      simp only [pathLen]
      rw [hd u v (hr u List.mem_cons_self) (hr v (List.mem_cons_of_mem _ List.mem_cons_self)),
        ih (fun x hx => hr x (List.mem_cons_of_mem _ hx))]

theorem routePenalty_congrD (D D' : Dist) (s : State) (n : Nat)
    (hd : ∀ i j, i < n → j < n → dist D i j = dist D' i j) (t : Rat) (r : List Nat) (hr : ∀ x ∈ r, x < n) :
    routePenalty D s t r = routePenalty D' s t r := by
  induction r generalizing t with
  | nil => rfl
  | cons u vs ih =>
    cases vs with
    | nil => rfl
    | cons v vs =>
      simp only [routePenalty]
      rw [hd u v (hr u List.mem_cons_self) (hr v (List.mem_cons_of_mem _ List.mem_cons_self)),
        ih _ (fun x hx => hr x (List.mem_cons_of_mem _ hx))]

/-- every recorded node index is a node of the instance -/
def OrderInRange (s : State) : Prop := ∀ row ∈ s.order, ∀ x ∈ row, x < s.demands.length

instance (s : State) : Decidable (OrderInRange s) := by unfold OrderInRange; infer_instance

theorem update_orderInRange (rnd : Rat → Rat) (c : Cfg) (D : Dist) (s : State) (a : List Nat)
    (hl : a.length = s.capacities.length) (hr : ∀ x ∈ a, x < s.demands.length) (h : OrderInRange s) :
    OrderInRange (update rnd c D s a) := by
  intro row hrow x hx
  rw [update_demands_length]
  have hrow' : row ∈ List.zipWith (fun row (q : Nat) => Jx.setWD row (s.stepCount : Int) q) s.order (nextNodes s a) :=
    hrow
  obtain ⟨i, hi, rfl⟩ := List.getElem_of_mem hrow'
  rw [List.getElem_zipWith] at hx
  apply setWD_forall (fun x => x < s.demands.length) _ _ _ (h _ (List.getElem_mem _)) _ x hx
  have : (nextNodes s a)[i]'(by simp only [List.length_zipWith] at hi; omega) ∈ dests s a := by
    rw [← nextNodes_eq_dests s a hl hr]; exact List.getElem_mem _
  exact dests_lt s a hr _ this

theorem generate_orderInRange (c : Cfg) (nV : Nat) (demandMax : Int) (windowLen : Rat) (d : Draw)
    (h : 0 < d.scaled.length) : OrderInRange (generate c nV demandMax windowLen d) := by
  intro row hrow x hx
  have hrow' : row ∈ List.replicate nV (List.replicate (2 * c.numCustomers) 0) := hrow
  rw [List.eq_of_mem_replicate hrow'] at hx
  rw [List.eq_of_mem_replicate hx]
  show 0 < (d.scaled.map _).length
  rw [List.length_map]; exact h

theorem finalState_orderInRange (c : Cfg) (D : Dist) (s : State) (as : List (List Nat)) (h : OrderInRange s)
    (he : Episode c D s as) : OrderInRange (finalState c D s as) := by
  induction as generalizing s with
  | nil => exact h
  | cons a as ih =>
    simp only [Episode] at he
    simp only [finalState]
    have h' : OrderInRange (step id c D s a).1 := by
      rw [step_state]; exact update_orderInRange id c D s a he.1.1 he.1.2 h
    rcases he.2 with ⟨rfl, _⟩ | ⟨_, _, he'⟩
    · exact h'
    · exact ih _ h' he'

/-- the objective recomputed from the recorded routes is the same for any two matrices that agree on the nodes -/
theorem objective_congrD (D D' : Dist) (s : State) (h : OrderInRange s)
    (hd : ∀ i j, i < s.demands.length → j < s.demands.length → dist D i j = dist D' i j) :
    objective D s = objective D' s := by
  unfold objective
  congr 2
  apply List.map_congr_left
  intro r hr
  have hin : ∀ x ∈ r, x < s.demands.length := by
    unfold routes at hr
    obtain ⟨row, hrow, rfl⟩ := List.mem_map.1 hr
    intro x hx
    exact h row hrow x (List.mem_of_mem_take hx)
  rw [pathLen_congr D D' _ hd r hin, routePenalty_congrD D D' s _ hd 0 r hin]

/-- the objective is a function of the coordinates: any two Euclidean matrices of the state's coordinates give the
same value -/
theorem objective_euclid_unique (D D' : Dist) (s : State) (h : OrderInRange s)
    (hc : s.coords.length = s.demands.length) (hD : Euclid s.coords D) (hD' : Euclid s.coords D') :
    objective D s = objective D' s :=
  objective_congrD D D' s h (fun i j hi hj => euclid_unique s.coords D D' hD hD' i j (by omega) (by omega))

theorem finalState_coords (c : Cfg) (D : Dist) (s : State) (as : List (List Nat)) :
    (finalState c D s as).coords = s.coords ∧ (finalState c D s as).demands.length = s.demands.length := by
  induction as generalizing s with
  | nil => exact ⟨rfl, rfl⟩
  | cons a as ih =>
    simp only [finalState]
    obtain ⟨h1, h2⟩ := ih (step id c D s a).1
    exact ⟨h1, by rw [h2, step_state, update_demands_length]⟩

/-- C08, whole episode, with the distance matrix TIED to the coordinates: if `D` is the Euclidean matrix of the
instance's coordinates (`distMatches 0`), a complete in-spec episode from a reset state that ends before the step
limit has dense return = sparse return = the documented objective of the recorded routes, and that value is the one
obtained with ANY Euclidean matrix `D'` of the coordinates (it is a function of coordinates and routes only) -/
theorem episode_return_euclid (c : Cfg) (D D' : Dist) (nV : Nat) (demandMax : Int) (windowLen : Rat) (d : Draw)
    (as : List (List Nat)) (hn : 1 ≤ c.numCustomers) (hw : d.winStart.length = d.scaled.length)
    (hce : d.coefEarly.length = d.scaled.length) (hcl : d.coefLate.length = d.scaled.length)
    (hco : d.coords.length = d.scaled.length) (h0 : 0 < d.scaled.length)
    (hD : distMatches 0 d.coords D = true) (hD' : distMatches 0 d.coords D' = true)
    (he : Episode c D (reset c nV demandMax windowLen d).1 as)
    (ht : timedOut c (finalState c D (reset c nV demandMax windowLen d).1 as) = false) :
    retOf { c with dense := true } D (reset c nV demandMax windowLen d).1 as =
      objective D' (finalState c D (reset c nV demandMax windowLen d).1 as) ∧
    retOf { c with dense := false } D (reset c nV demandMax windowLen d).1 as =
      objective D' (finalState c D (reset c nV demandMax windowLen d).1 as) := by
  have key := episode_return c D nV demandMax windowLen d as hn hw hce hcl he ht
  have hs0 : (reset c nV demandMax windowLen d).1 = generate c nV demandMax windowLen d := rfl
  have hor : OrderInRange (finalState c D (reset c nV demandMax windowLen d).1 as) :=
    finalState_orderInRange c D _ as (by rw [hs0]; exact generate_orderInRange c nV demandMax windowLen d h0) he
  obtain ⟨hc1, hc2⟩ := finalState_coords c D (reset c nV demandMax windowLen d).1 as
  have hcoords : (reset c nV demandMax windowLen d).1.coords = d.coords := rfl
  have hdl : (reset c nV demandMax windowLen d).1.demands.length = d.scaled.length := by
    show (d.scaled.map _).length = _
    rw [List.length_map]
  have e := objective_euclid_unique D D' _ hor (by rw [hc1, hc2, hcoords, hdl]; exact hco)
    (by rw [hc1, hcoords]; exact distMatches_euclid _ _ hD) (by rw [hc1, hcoords]; exact distMatches_euclid _ _ hD')
  rw [← e]; exact key

end MultiCVRP
