/-
MultiCVRP, audit r1 entry 10: the generator from the RAW random numbers (`RawDraw`, `uniformMap`, `scaleDemands`,
`drawOfRaw`, `generateRaw` of Model.lean).  The ranges that `validDraw` / `validDrawB` ASSUME of the random arrays
are proved here from `validRaw` (unit uniforms `0 ≤ u < 1`, `randint` values `0 ≤ x < customer_demand_max`):

* `uniformMap_ge` (every rounding function), `uniformMap_id_range` (exact arithmetic: `lo ≤ · ≤ hi`, `< hi` when
  `lo < hi`), `uniformMap_rnd_le` (monotone rounding that fixes `hi`, `lo = 0`), `uniformMap_const` (`lo = hi`);
* `scaleDemands_id_range`: in exact arithmetic every scaled demand lies in `[0, total_capacity]` — in particular the
  int16 conversion never wraps when `total_capacity ≤ 32767`; `scaleDemands_depot` (every rounding with `rnd 0 = 0`);
* `drawOfRaw_validDrawB`: `validRaw → validDrawB` of the computed draw; `generateRaw_id`;
* `scaleDemands_id_sum`, `generateRaw_total_demand`: Σ demands ≤ `max_capacity · num_vehicles`.
-/
import JumanjiModel.Env.MultiCVRP.Bounds
import JumanjiModel.Prim.FloatLemmas
namespace MultiCVRP
open Jm

/-! ### `jax.random.uniform(minval, maxval)` -/

/-- the final `lax.max(minval, ·)`: never below `minval`, for every rounding function -/
theorem uniformMap_ge (rnd : Rat → Rat) (lo hi u : Rat) : lo ≤ uniformMap rnd lo hi u := by
  unfold uniformMap
  simp only []
  split
  · assumption
  · exact Rat.le_refl

theorem uniformMap_id_eq (lo hi u : Rat) (h : lo ≤ hi) (h0 : 0 ≤ u) :
    uniformMap id lo hi u = u * (hi - lo) + lo := by
  unfold uniformMap
  simp only [id]
  have : 0 ≤ u * (hi - lo) := Rat.mul_nonneg h0 (by grind)
  rw [if_pos (by grind)]

/-- exact arithmetic: the affine map sends `[0, 1)` into `[lo, hi]`, and into `[lo, hi)` when `lo < hi` -/
theorem uniformMap_id_range (lo hi u : Rat) (h : lo ≤ hi) (h0 : 0 ≤ u) (h1 : u < 1) :
    lo ≤ uniformMap id lo hi u ∧ uniformMap id lo hi u ≤ hi ∧ (lo < hi → uniformMap id lo hi u < hi) := by
  refine ⟨uniformMap_ge id lo hi u, ?_, ?_⟩
  · rw [uniformMap_id_eq lo hi u h h0]
    have : u * (hi - lo) ≤ 1 * (hi - lo) := Rat.mul_le_mul_of_nonneg_right (Rat.le_of_lt h1) (by grind)
    grind
  · intro hlt
    rw [uniformMap_id_eq lo hi u h h0]
    have : u * (hi - lo) < 1 * (hi - lo) := Rat.mul_lt_mul_of_pos_right h1 (by grind)
    grind

/-- a rounding function that is monotone and fixes 0 (true of `Jx.roundF32`) -/
structure RndMono (rnd : Rat → Rat) : Prop where
  mono : ∀ x y, x ≤ y → rnd x ≤ rnd y
  zero : rnd 0 = 0

theorem rndMono_id : RndMono id := ⟨fun _ _ h => h, rfl⟩

theorem rndMono_roundF32 : RndMono Jx.roundF32 := ⟨fun _ _ h => Jx.roundF32_mono h, Jx.roundF32_zero⟩

/-- rounded arithmetic, `minval = 0` (coordinates, window starts, the coefficients of every shipped scenario but
one): the result stays in `[0, hi]` when the rounding is monotone and `hi` is representable -/
theorem uniformMap_rnd_le (rnd : Rat → Rat) (hr : RndMono rnd) (hi u : Rat) (hhi : rnd hi = hi) (h0 : 0 ≤ hi)
    (_hu0 : 0 ≤ u) (hu1 : u < 1) : 0 ≤ uniformMap rnd 0 hi u ∧ uniformMap rnd 0 hi u ≤ hi := by
  refine ⟨uniformMap_ge rnd 0 hi u, ?_⟩
  unfold uniformMap
  have e0 : hi - 0 = hi := by grind
  simp only [e0, Rat.add_zero, hhi]
  have h1 : u * hi ≤ hi := by
    have : u * hi ≤ 1 * hi := Rat.mul_le_mul_of_nonneg_right (Rat.le_of_lt hu1) h0
    grind
  have h2 : rnd (u * hi) ≤ hi := by have := hr.mono _ _ h1; rwa [hhi] at this
  have h3 : rnd (rnd (u * hi)) ≤ hi := by have := hr.mono _ _ h2; rwa [hhi] at this
  split
  · exact h3
  · exact h0

/-- rounded arithmetic, `minval = maxval` (the 150-customer scenario's coefficients): the constant -/
theorem uniformMap_const (rnd : Rat → Rat) (lo u : Rat) (h0 : rnd 0 = 0) (hl : rnd lo = lo) :
    uniformMap rnd lo lo u = lo := by
  unfold uniformMap
  simp only [Rat.sub_self, h0, Rat.mul_zero, Rat.zero_add, hl]
  rw [if_pos Rat.le_refl]

/-! ### the int16 demand scaling -/

theorem mem_le_sum (l : List Int) (h : ∀ x ∈ l, 0 ≤ x) (x : Int) (hx : x ∈ l) : x ≤ l.sum := by
  induction l with
  | nil => simp at hx
  | cons y ys ih =>
    simp only [List.sum_cons]
    have hs : 0 ≤ ys.sum := by
      clear ih hx
      induction ys with
      | nil => simp
      | cons z zs ih2 =>
        simp only [List.sum_cons]
        have := h z (by simp)
        have := ih2 (fun w hw => h w (by simp at hw ⊢; rcases hw with hw | hw <;> simp [hw]))
        omega
    rcases List.mem_cons.1 hx with rfl | hx'
    · omega
    · have := ih (fun w hw => h w (List.mem_cons_of_mem _ hw)) hx'
      have := h y List.mem_cons_self
      omega

theorem wrap16_id (z : Int) (h0 : 0 ≤ z) (h1 : z ≤ 32767) : wrap16 z = z := by
  unfold wrap16; omega

theorem truncInt_range (q : Rat) (t : Int) (h0 : 0 ≤ q) (h1 : q ≤ (t : Rat)) :
    0 ≤ truncInt q ∧ truncInt q ≤ t := by
  unfold truncInt
  rw [if_pos h0]
  constructor
  · rw [Rat.le_floor_iff]; simpa using h0
  · have := Rat.floor_le q
    have h2 : ((q.floor : Int) : Rat) ≤ (t : Rat) := by grind
    exact Rat.intCast_le_intCast.1 h2

/-- exact arithmetic: `x · (total / Σ)` of a non-negative vector lies in `[0, total]` -/
theorem scaled_q_range (total S x : Int) (ht : 0 ≤ total) (hx0 : 0 ≤ x) (hxS : x ≤ S) :
    0 ≤ (x : Rat) * ((total : Rat) / (S : Rat)) ∧ (x : Rat) * ((total : Rat) / (S : Rat)) ≤ (total : Rat) := by
  have hx0' : (0 : Rat) ≤ (x : Rat) := by exact_mod_cast Rat.intCast_le_intCast.2 hx0
  have ht' : (0 : Rat) ≤ (total : Rat) := by exact_mod_cast Rat.intCast_le_intCast.2 ht
  have hxS' : (x : Rat) ≤ (S : Rat) := Rat.intCast_le_intCast.2 hxS
  by_cases hS : S = 0
  · subst hS
    have ez : (total : Rat) / ((0 : Int) : Rat) = 0 := by
      rw [Rat.div_def]; simp
    rw [ez, Rat.mul_zero]
    exact ⟨Rat.le_refl, ht'⟩
  · have hSpos : (0 : Rat) < (S : Rat) := by
      have : 0 < S := by omega
      exact_mod_cast Rat.intCast_lt_intCast.2 this
    have e : (x : Rat) * ((total : Rat) / (S : Rat)) = ((x : Rat) * (total : Rat)) / (S : Rat) := by
      rw [Rat.div_def, Rat.div_def, Rat.mul_assoc]
    rw [e]
    constructor
    · rw [Jx.rat_le_div_iff hSpos, Rat.zero_mul]
      exact Rat.mul_nonneg hx0' ht'
    · rw [Jx.rat_div_le_iff hSpos]
      have := Rat.mul_le_mul_of_nonneg_left hxS' ht'
      rw [Rat.mul_comm]; exact this

theorem setWD_depot_nonneg (raw : List Int) (h : ∀ x ∈ raw, 0 ≤ x) :
    ∀ x ∈ Jx.setWD raw (DEPOT : Int) 0, 0 ≤ x :=
  setWD_forall (fun x => 0 ≤ x) raw _ 0 h (Int.le_refl 0)

theorem scaleDemands_length (rnd : Rat → Rat) (total : Int) (raw : List Int) :
    (scaleDemands rnd total raw).length = raw.length := by
  unfold scaleDemands; simp only [List.length_map, Jx.setWD_length]

/-- exact arithmetic: every scaled demand lies in `[0, total_capacity]`; with `total_capacity ≤ 32767` the int16
conversion does not wrap -/
theorem scaleDemands_id_range (total : Int) (raw : List Int) (ht0 : 0 ≤ total) (ht : total ≤ 32767)
    (hraw : ∀ x ∈ raw, 0 ≤ x) : ∀ y ∈ scaleDemands id total raw, 0 ≤ y ∧ y ≤ total := by
  intro y hy
  unfold scaleDemands at hy
  simp only [id] at hy
  obtain ⟨x, hx, rfl⟩ := List.mem_map.1 hy
  have hds := setWD_depot_nonneg raw hraw
  have hq := scaled_q_range total _ x ht0 (hds x hx) (mem_le_sum _ hds x hx)
  have htr := truncInt_range _ total hq.1 hq.2
  rw [wrap16_id _ htr.1 (by omega)]
  exact htr

theorem truncInt_zero : truncInt 0 = 0 := by decide +kernel

theorem setWD_depot_getD (raw : List Int) (hl : 0 < raw.length) :
    (Jx.setWD raw (DEPOT : Int) 0).getD DEPOT 1 = 0 := by
  unfold DEPOT
  rw [setWD_zero]
  simp [List.getD_eq_getElem?_getD, hl]

/-- the depot's demand is 0 after the scaling, for every rounding function that fixes 0 -/
theorem scaleDemands_depot (rnd : Rat → Rat) (h0 : rnd 0 = 0) (total : Int) (raw : List Int)
    (hl : 0 < raw.length) : (scaleDemands rnd total raw).getD DEPOT 1 = 0 := by
  unfold scaleDemands
  simp only []
  have h := setWD_depot_getD raw hl
  rw [List.getD_eq_getElem?_getD] at h
  rw [List.getD_eq_getElem?_getD, List.getElem?_map]
  cases hget : (Jx.setWD raw (DEPOT : Int) 0)[DEPOT]? with
  | none =>
    rw [List.getElem?_eq_none_iff, Jx.setWD_length] at hget
    unfold DEPOT at hget; omega
  | some v =>
    rw [hget] at h
    simp only [Option.getD_some] at h
    subst h
    simp only [Option.map_some, Option.getD_some, Rat.intCast_zero, Rat.zero_mul, h0, truncInt_zero]
    decide

/-! ### `validRaw → validDrawB` -/

/-- the limits `Lim` of Bounds.lean read off the generator's parameters -/
def genLim (g : GenCfg) (dmax : Rat) : Lim :=
  { mapMax := g.mapMax, demandMax := g.demandMax, maxStart := g.maxStart, windowLen := g.windowLen,
    coefEarlyMax := g.earlyHi, coefLateMax := g.lateHi, dmax := dmax }

/-- sanity of the generator's parameters: non-negative ranges and a fleet capacity that fits int16 -/
def GenOK (c : Cfg) (nV : Nat) (g : GenCfg) : Prop :=
  0 ≤ c.maxCap ∧ c.maxCap * (nV : Int) ≤ 32767 ∧ 0 ≤ g.demandMax ∧ 0 ≤ g.mapMax ∧ 0 ≤ g.maxStart ∧
  0 ≤ g.earlyLo ∧ g.earlyLo ≤ g.earlyHi ∧ 0 ≤ g.lateLo ∧ g.lateLo ≤ g.lateHi

instance (c : Cfg) (nV : Nat) (g : GenCfg) : Decidable (GenOK c nV g) := by unfold GenOK; infer_instance

theorem map_uniform_range (lo hi : Rat) (h : lo ≤ hi) (us : List Rat) (hu : ∀ u ∈ us, 0 ≤ u ∧ u < 1) :
    ∀ x ∈ us.map (uniformMap id lo hi), lo ≤ x ∧ x ≤ hi := by
  intro x hx
  obtain ⟨u, hum, rfl⟩ := List.mem_map.1 hx
  have := uniformMap_id_range lo hi u h (hu u hum).1 (hu u hum).2
  exact ⟨this.1, this.2.1⟩

/-- entry 10: the ranges `validDrawB` (hence `validDraw`) assumes are CONSEQUENCES of the raw draw being what the
PRNG delivers (exact arithmetic) -/
theorem drawOfRaw_validDrawB (c : Cfg) (nV : Nat) (g : GenCfg) (r : RawDraw) (dmax : Rat) (hg : GenOK c nV g)
    (hdm : 0 ≤ dmax) (hr : validRaw c g r) : validDrawB c (genLim g dmax) (drawOfRaw id c nV g r) := by
  obtain ⟨g1, g2, g3, g4, g5, g6, g7, g8, g9⟩ := hg
  obtain ⟨r1, r2, r3, r4, r5, r6, r7, r8, r9, r10⟩ := hr
  have htot : 0 ≤ c.maxCap * (nV : Int) := Int.mul_nonneg g1 (by omega)
  refine ⟨⟨?_, ?_, ?_, ?_, ?_⟩, ⟨g1, g3, by show 0 ≤ g.earlyHi; grind, by show 0 ≤ g.lateHi; grind, hdm⟩, ?_, ?_, ?_⟩
  · show (r.uCoords.map _).length = _
    rw [List.length_map]; exact r1
  · show (scaleDemands id _ r.rawDemands).length = _
    rw [scaleDemands_length]; exact r2
  · intro p hp
    have hp' : p ∈ r.uCoords.map (fun p => p.map (uniformMap id 0 g.mapMax)) := hp
    obtain ⟨q, hq, rfl⟩ := List.mem_map.1 hp'
    refine ⟨by rw [List.length_map]; exact (r6 q hq).1, ?_⟩
    exact map_uniform_range 0 g.mapMax g4 q (r6 q hq).2
  · intro x hx
    exact (scaleDemands_id_range _ r.rawDemands htot g2 (fun y hy => (r7 y hy).1) x hx).1
  · exact scaleDemands_depot id rfl _ r.rawDemands (by omega)
  · exact map_uniform_range 0 g.maxStart g5 r.uWin r8
  · intro x hx
    have := map_uniform_range g.earlyLo g.earlyHi g7 r.uEarly r9 x hx
    exact ⟨by grind, this.2⟩
  · intro x hx
    have := map_uniform_range g.lateLo g.lateHi g9 r.uLate r10 x hx
    exact ⟨by grind, this.2⟩

/-- in exact arithmetic `generateRaw` is `generate` applied to the computed draw -/
theorem generateRaw_id (c : Cfg) (nV : Nat) (g : GenCfg) (r : RawDraw) :
    generateRaw id c nV g r = generate c nV g.demandMax g.windowLen (drawOfRaw id c nV g r) := rfl

/-- exact arithmetic: the drawn coordinates are strictly inside `[0, map_max)` (no node on the far border) -/
theorem generateRaw_coords_lt (c : Cfg) (nV : Nat) (g : GenCfg) (r : RawDraw) (hm : 0 < g.mapMax)
    (hr : validRaw c g r) : ∀ p ∈ (generateRaw id c nV g r).coords, ∀ x ∈ p, 0 ≤ x ∧ x < g.mapMax := by
  intro p hp x hx
  have hp' : p ∈ r.uCoords.map (fun p => p.map (uniformMap id 0 g.mapMax)) := hp
  obtain ⟨q, hq, rfl⟩ := List.mem_map.1 hp'
  obtain ⟨u, hu, rfl⟩ := List.mem_map.1 hx
  have hur := (hr.2.2.2.2.2.1 q hq).2 u hu
  have := uniformMap_id_range 0 g.mapMax u (Rat.le_of_lt hm) hur.1 hur.2
  exact ⟨this.1, this.2.2 hm⟩

/-- float32 (any monotone rounding that fixes 0 and `map_max`): the coordinates of `generateRaw` are in the box -/
theorem generateRaw_coordsInBox_rnd (rnd : Rat → Rat) (hrn : RndMono rnd) (c : Cfg) (nV : Nat) (g : GenCfg)
    (r : RawDraw) (hm : 0 ≤ g.mapMax) (hfix : rnd g.mapMax = g.mapMax) (hr : validRaw c g r) :
    coordsInBox g.mapMax (generateRaw rnd c nV g r) := by
  intro p hp
  have hp' : p ∈ r.uCoords.map (fun p => p.map (uniformMap rnd 0 g.mapMax)) := hp
  obtain ⟨q, hq, rfl⟩ := List.mem_map.1 hp'
  refine ⟨by rw [List.length_map]; exact (hr.2.2.2.2.2.1 q hq).1, ?_⟩
  intro x hx
  obtain ⟨u, hu, rfl⟩ := List.mem_map.1 hx
  have hur := (hr.2.2.2.2.2.1 q hq).2 u hu
  exact uniformMap_rnd_le rnd hrn g.mapMax u hfix hm hur.1 hur.2

/-! ### the total demand never exceeds the fleet capacity -/

theorem cast_sum_le (l : List Int) (g : Int → Int) (h : Int → Rat) (hle : ∀ x ∈ l, ((g x : Int) : Rat) ≤ h x) :
    (((l.map g).sum : Int) : Rat) ≤ (l.map h).sum := by
  induction l with
  | nil => simp
  | cons x xs ih =>
    simp only [List.map_cons, List.sum_cons, Rat.intCast_add]
    have h1 := hle x List.mem_cons_self
    have h2 := ih (fun y hy => hle y (List.mem_cons_of_mem _ hy))
    grind

theorem sum_map_mul_const (l : List Int) (f : Rat) :
    (l.map (fun (x : Int) => (x : Rat) * f)).sum = ((l.sum : Int) : Rat) * f := by
  induction l with
  | nil => simp [Rat.zero_mul]
  | cons x xs ih => simp only [List.map_cons, List.sum_cons, Rat.intCast_add, ih]; grind

theorem int_sum_map_le (l : List Int) (g : Int → Int) (h : ∀ x ∈ l, g x ≤ x) : (l.map g).sum ≤ l.sum := by
  induction l with
  | nil => simp
  | cons x xs ih =>
    simp only [List.map_cons, List.sum_cons]
    have := h x List.mem_cons_self
    have := ih (fun y hy => h y (List.mem_cons_of_mem _ hy))
    omega

/-- exact arithmetic: the scaled demands sum to at most `total_capacity` ("to ensure a feasible solution") -/
theorem scaleDemands_id_sum (total : Int) (raw : List Int) (ht0 : 0 ≤ total) (ht : total ≤ 32767)
    (hraw : ∀ x ∈ raw, 0 ≤ x) : (scaleDemands id total raw).sum ≤ total := by
  have hds := setWD_depot_nonneg raw hraw
  apply Rat.intCast_le_intCast.1
  unfold scaleDemands
  simp only [id]
  refine Rat.le_trans (cast_sum_le _ _ (fun (x : Int) => (x : Rat) * ((total : Rat) / (((Jx.setWD raw (DEPOT : Int) 0).sum : Int) : Rat))) ?_) ?_
  · intro x hx
    have hq := scaled_q_range total _ x ht0 (hds x hx) (mem_le_sum _ hds x hx)
    have htr := truncInt_range _ total hq.1 hq.2
    rw [wrap16_id _ htr.1 (by omega)]
    unfold truncInt
    rw [if_pos hq.1]
    exact Rat.floor_le _
  · rw [sum_map_mul_const]
    have hS0 : 0 ≤ (Jx.setWD raw (DEPOT : Int) 0).sum := by
      cases hl : Jx.setWD raw (DEPOT : Int) 0 with
      | nil => simp
      | cons y ys =>
        have hy : y ∈ Jx.setWD raw (DEPOT : Int) 0 := by rw [hl]; exact List.mem_cons_self
        have := mem_le_sum _ hds y hy
        have := hds y hy
        rw [hl] at *
        omega
    exact (scaled_q_range total _ _ ht0 hS0 (Int.le_refl _)).2

/-- the generated instance never asks for more than the fleet can carry: `Σ demands ≤ max_capacity · num_vehicles` -/
theorem generateRaw_total_demand (c : Cfg) (nV : Nat) (g : GenCfg) (r : RawDraw) (hg : GenOK c nV g)
    (hr : validRaw c g r) : (generateRaw id c nV g r).demands.sum ≤ c.maxCap * (nV : Int) := by
  have htot : 0 ≤ c.maxCap * (nV : Int) := Int.mul_nonneg hg.1 (by omega)
  have h1 := scaleDemands_id_sum _ r.rawDemands htot hg.2.1 (fun y hy => (hr.2.2.2.2.2.2.1 y hy).1)
  have h2 : (generateRaw id c nV g r).demands.sum ≤ (scaleDemands id (c.maxCap * (nV : Int)) r.rawDemands).sum := by
    show ((scaleDemands id (c.maxCap * (nV : Int)) r.rawDemands).map (fun x => min x g.demandMax)).sum ≤ _
    exact int_sum_map_le _ _ (fun x _ => Int.min_le_left _ _)
  omega

end MultiCVRP
