/-
MultiCVRP — C01 spec membership (wave 4): the declared specs as `Sp` values (`obsSpec c nV L maxLocal`, `actionSpec c nV`;
equal to the generated literals of the catalogue configuration, Props/Env/MultiCVRP.lean), the model observation as spec-level
arrays (`toNValue`, shapes READ OFF the values), the invariant `SpecInv = BInv ∧ ShapeInv` (the value-range invariant of
Env/MultiCVRP/Bounds.lean + the array shapes), established by `reset` for every draw of the generator and preserved by every
step with one action per vehicle (any naturals: in range or not, legal or not), membership of the observation of `reset`
and of every `step` (terminal step included), whole episodes, the converse (`obs_valid_only`), reward / discount / action spec.

Float leaves follow Env/MultiCVRP/Bounds.lean and BoundsF32Lemmas.lean: every float operation of `step` is rounded by the
parameter `rnd`; the `vehicles.local_times` leaf needs `RndOK rnd dmax (2·N)` (monotone, fixes 0 and the multiples of the
distance bound — `id` and, for a `dmax` with a short significand, `Jx.roundF32`) and a distance matrix with entries in
`[0, dmax]`.  The declared maxima are those the constructor computes from the generator's parameters (`Lim`):
`max_capacity`, `map_max`, `max_end_window = max_start_window + time_window_length`, `late_coef_rand[-1]` (for BOTH
coefficient leaves), and `max_local_time` (a float32 product with `sqrt 2`: the parameter `maxLocal`); `DeclOK` states what
the membership needs from them (`customer_demand_max ≤ max_capacity`, `early_coef_rand[1] ≤ late_coef_rand[1]`,
`2·N·dmax ≤ max_local_time`, `0 ≤ time_window_length`).
-/
import JumanjiModel.Env.MultiCVRP.Bounds
import JumanjiModel.Env.MultiCVRP.BoundsF32Lemmas
import JumanjiModel.Env.MultiCVRP.Generator
import JumanjiModel.Env.PackSpecValid
namespace MultiCVRP
open Jm Sp PzS PkS

/-! ### the declared specs (env.py `observation_spec`, `action_spec`) -/

def fLeaf (sh : List Nat) (nm : String) (hi : Rat) : Leaf := .bounded sh .float32 nm [] [0] [] [hi]
def iLeaf (sh : List Nat) (nm : String) (hi : Int) : Leaf := .bounded sh .int16 nm [] [((0 : Int) : Rat)] [] [(hi : Rat)]

/-- `observation_spec`, paths as `speclib.flatten_spec` lists them -/
def obsSpec (c : Cfg) (nV : Nat) (L : Lim) (maxLocal : Rat) : Sp.Nested :=
  [("nodes.coordinates", fLeaf [c.numCustomers + 1, 2] "node_coordinates" L.mapMax),
   ("nodes.demands", iLeaf [c.numCustomers + 1] "node_demands" c.maxCap),
   ("windows.start", fLeaf [c.numCustomers + 1] "node_time_windows_start" (L.maxStart + L.windowLen)),
   ("windows.end", fLeaf [c.numCustomers + 1] "node_time_windows_end" (L.maxStart + L.windowLen)),
   ("coeffs.early", fLeaf [c.numCustomers + 1] "node_penalty_coeffs_start" L.coefLateMax),
   ("coeffs.late", fLeaf [c.numCustomers + 1] "node_penalty_coeffs_end" L.coefLateMax),
   ("vehicles.coordinates", fLeaf [nV, 2] "vehicle_coordinates" L.mapMax),
   ("vehicles.local_times", fLeaf [nV] "vehicle_local_time" maxLocal),
   ("vehicles.capacities", iLeaf [nV] "vehicle_capacity" c.maxCap),
   ("action_mask", .bounded [nV, c.numCustomers + 1] .bool "action_mask" [] [0] [] [1])]

/-- `action_spec`: BoundedArray((num_vehicles,), int16, 0, num_customers + 1) — the declared maximum is one more than the
largest node index -/
def actionSpec (c : Cfg) (nV : Nat) : Leaf := iLeaf [nV] "actions" ((c.numCustomers + 1 : Nat) : Int)

/-- a model observation as the arrays the implementation emits; the shapes are READ OFF the values -/
def toNValue (o : Obs) : NValue :=
  [("nodes.coordinates", ⟨shape2 o.coords, .float32, o.coords.flatten⟩),
   ("nodes.demands", ⟨shape1 o.demands, .int16, ofInts o.demands⟩),
   ("windows.start", ⟨shape1 o.winStart, .float32, o.winStart⟩),
   ("windows.end", ⟨shape1 o.winEnd, .float32, o.winEnd⟩),
   ("coeffs.early", ⟨shape1 o.coefEarly, .float32, o.coefEarly⟩),
   ("coeffs.late", ⟨shape1 o.coefLate, .float32, o.coefLate⟩),
   ("vehicles.coordinates", ⟨shape2 o.vehCoords, .float32, o.vehCoords.flatten⟩),
   ("vehicles.local_times", ⟨shape1 o.localTimes, .float32, o.localTimes⟩),
   ("vehicles.capacities", ⟨shape1 o.capacities, .int16, ofInts o.capacities⟩),
   ("action_mask", ⟨shape2 o.mask, .bool, ofBools o.mask.flatten⟩)]

def actionArr (nV : Nat) (a : List Nat) : Arr := ⟨[nV], .int16, ofInts (a.map (fun (x : Nat) => (x : Int)))⟩

def VecIn (l : List Rat) (m : Nat) (hi : Rat) : Prop := l.length = m ∧ ∀ x ∈ l, 0 ≤ x ∧ x ≤ hi
def IVecIn (l : List Int) (m : Nat) (hi : Int) : Prop := l.length = m ∧ ∀ x ∈ l, 0 ≤ x ∧ x ≤ hi
def GridIn (g : List (List Rat)) (r k : Nat) (hi : Rat) : Prop := Rect2 g r k ∧ ∀ p ∈ g, ∀ x ∈ p, 0 ≤ x ∧ x ≤ hi

/-- what membership amounts to -/
def ObsOK (c : Cfg) (nV : Nat) (L : Lim) (maxLocal : Rat) (o : Obs) : Prop :=
  GridIn o.coords (c.numCustomers + 1) 2 L.mapMax ∧ IVecIn o.demands (c.numCustomers + 1) c.maxCap ∧
  VecIn o.winStart (c.numCustomers + 1) (L.maxStart + L.windowLen) ∧
  VecIn o.winEnd (c.numCustomers + 1) (L.maxStart + L.windowLen) ∧
  VecIn o.coefEarly (c.numCustomers + 1) L.coefLateMax ∧ VecIn o.coefLate (c.numCustomers + 1) L.coefLateMax ∧
  GridIn o.vehCoords nV 2 L.mapMax ∧ VecIn o.localTimes nV maxLocal ∧ IVecIn o.capacities nV c.maxCap ∧
  Rect2 o.mask nV (c.numCustomers + 1)

theorem flatten_in {g : List (List Rat)} {hi : Rat} (h : ∀ p ∈ g, ∀ x ∈ p, 0 ≤ x ∧ x ≤ hi) :
    ∀ x ∈ g.flatten, (0 : Rat) ≤ x ∧ x ≤ hi := by
  intro x hx
  obtain ⟨p, hp, hx'⟩ := List.mem_flatten.mp hx
  exact h p hp x hx'

theorem obs_valid (c : Cfg) (nV : Nat) (hV : 0 < nV) (L : Lim) (maxLocal : Rat) (o : Obs)
    (h : ObsOK c nV L maxLocal o) : (obsSpec c nV L maxLocal).valid (toNValue o) = true := by
  obtain ⟨h1, h2, h3, h4, h5, h6, h7, h8, h9, h10⟩ := h
  have fv : ∀ (m : Nat) (nm : String) (hi : Rat) (l : List Rat), VecIn l m hi →
      (fLeaf [m] nm hi).valid ⟨shape1 l, .float32, l⟩ = true := fun m nm hi l hl =>
    valid_bounded1 m .float32 nm 0 hi l id (fun _ => rfl) hl.1 hl.2
  have iv : ∀ (m : Nat) (nm : String) (hi : Int) (l : List Int), IVecIn l m hi →
      (iLeaf [m] nm hi).valid ⟨shape1 l, .int16, ofInts l⟩ = true := fun m nm hi l hl =>
    valid_bounded1 m .int16 nm ((0 : Int) : Rat) (hi : Rat) l ofInts ofInts_length hl.1 (ofInts_bounds _ _ _ hl.2)
  have gv : ∀ (r : Nat) (nm : String) (hi : Rat) (g : List (List Rat)), 0 < r → GridIn g r 2 hi →
      (fLeaf [r, 2] nm hi).valid ⟨shape2 g, .float32, g.flatten⟩ = true := fun r nm hi g hr hg =>
    valid_bounded2 r 2 .float32 nm 0 hi g id (fun _ => rfl) hg.1 hr (flatten_in hg.2)
  have v1 := gv (c.numCustomers + 1) "node_coordinates" L.mapMax o.coords (by omega) h1
  have v2 := iv _ "node_demands" c.maxCap o.demands h2
  have v3 := fv _ "node_time_windows_start" _ o.winStart h3
  have v4 := fv _ "node_time_windows_end" _ o.winEnd h4
  have v5 := fv _ "node_penalty_coeffs_start" _ o.coefEarly h5
  have v6 := fv _ "node_penalty_coeffs_end" _ o.coefLate h6
  have v7 := gv nV "vehicle_coordinates" L.mapMax o.vehCoords hV h7
  have v8 := fv _ "vehicle_local_time" _ o.localTimes h8
  have v9 := iv _ "vehicle_capacity" c.maxCap o.capacities h9
  have v10 := valid_bounded2 nV (c.numCustomers + 1) .bool "action_mask" 0 1 o.mask ofBools ofBools_length h10 hV
    (ofBools_bounds _)
  simp only [Nested.valid, obsSpec, toNValue, List.map_cons, List.map_nil, List.zipWith_cons_cons, List.zipWith_nil_right,
    List.all_cons, List.all_nil, id, v1, v2, v3, v4, v5, v6, v7, v8, v9, v10]
  decide

/-- … and conversely `validate` accepts nothing else: the declared shapes and the declared value ranges -/
theorem obs_valid_only (c : Cfg) (nV : Nat) (L : Lim) (maxLocal : Rat) (o : Obs)
    (h : (obsSpec c nV L maxLocal).valid (toNValue o) = true) :
    shape2 o.coords = [c.numCustomers + 1, 2] ∧ (∀ x ∈ o.coords.flatten, 0 ≤ x ∧ x ≤ L.mapMax) ∧
    IVecIn o.demands (c.numCustomers + 1) c.maxCap ∧
    VecIn o.winStart (c.numCustomers + 1) (L.maxStart + L.windowLen) ∧
    VecIn o.winEnd (c.numCustomers + 1) (L.maxStart + L.windowLen) ∧
    VecIn o.coefEarly (c.numCustomers + 1) L.coefLateMax ∧ VecIn o.coefLate (c.numCustomers + 1) L.coefLateMax ∧
    shape2 o.vehCoords = [nV, 2] ∧ (∀ x ∈ o.vehCoords.flatten, 0 ≤ x ∧ x ≤ L.mapMax) ∧
    VecIn o.localTimes nV maxLocal ∧ IVecIn o.capacities nV c.maxCap ∧ shape2 o.mask = [nV, c.numCustomers + 1] := by
  simp only [Nested.valid, obsSpec, toNValue, fLeaf, iLeaf, List.map_cons, List.map_nil, List.zipWith_cons_cons,
    List.zipWith_nil_right, List.all_cons, List.all_nil, id, Bool.and_true, Bool.and_eq_true, beq_self_eq_true, true_and] at h
  obtain ⟨h1, h2, h3, h4, h5, h6, h7, h8, h9, h10⟩ := h
  rw [valid_scalar_bounded_iff] at h1 h2 h3 h4 h5 h6 h7 h8 h9 h10
  have fv : ∀ {l : List Rat} {m : Nat} {hi : Rat}, shape1 l = [m] → (∀ x ∈ l, 0 ≤ x ∧ x ≤ hi) → VecIn l m hi :=
    fun hs hb => ⟨by simpa [shape1] using hs, hb⟩
  have iv : ∀ {l : List Int} {m : Nat} {hi : Int}, shape1 l = [m] →
      (∀ x ∈ ofInts l, ((0 : Int) : Rat) ≤ x ∧ x ≤ (hi : Rat)) → IVecIn l m hi :=
    fun hs hb => ⟨by simpa [shape1] using hs, ofInts_bounds_conv _ _ _ hb⟩
  exact ⟨h1.1, h1.2.2.2, iv h2.1 h2.2.2.2, fv h3.1 h3.2.2.2, fv h4.1 h4.2.2.2, fv h5.1 h5.2.2.2, fv h6.1 h6.2.2.2,
    h7.1, h7.2.2.2, fv h8.1 h8.2.2.2, iv h9.1 h9.2.2.2, h10.1⟩

/-! ### the invariant -/

/-- the array shapes of a state of an instance with `N` customers and `nV` vehicles -/
def ShapeInv (c : Cfg) (nV : Nat) (s : State) : Prop :=
  s.coords.length = c.numCustomers + 1 ∧ (∀ p ∈ s.coords, p.length = 2) ∧ s.demands.length = c.numCustomers + 1 ∧
  s.winStart.length = c.numCustomers + 1 ∧ s.winEnd.length = c.numCustomers + 1 ∧
  s.coefEarly.length = c.numCustomers + 1 ∧ s.coefLate.length = c.numCustomers + 1 ∧
  s.localTimes.length = nV ∧ s.positions.length = nV ∧ s.capacities.length = nV ∧
  Rect2 s.mask nV (c.numCustomers + 1)
instance (c : Cfg) (nV : Nat) (s : State) : Decidable (ShapeInv c nV s) := by unfold ShapeInv Rect2; infer_instance

/-- value ranges (`BInv` of Env/MultiCVRP/Bounds.lean: problem data in the generator's ranges, capacities in `[0, maxCap]`,
local times at most `(stepCount − 1) · dmax`) and array shapes -/
def SpecInv (c : Cfg) (nV : Nat) (L : Lim) (s : State) : Prop := BInv c L s ∧ ShapeInv c nV s
instance (c : Cfg) (nV : Nat) (L : Lim) (s : State) : Decidable (SpecInv c nV L s) := by unfold SpecInv; infer_instance

/-- what membership needs from the constructor's derived maxima -/
def DeclOK (c : Cfg) (L : Lim) (maxLocal : Rat) : Prop :=
  L.demandMax ≤ c.maxCap ∧ 0 ≤ L.windowLen ∧ L.coefEarlyMax ≤ L.coefLateMax ∧
  2 * (c.numCustomers : Rat) * L.dmax ≤ maxLocal
instance (c : Cfg) (L : Lim) (m : Rat) : Decidable (DeclOK c L m) := by unfold DeclOK; infer_instance

theorem createActionMask_rect (demands caps : List Int) (nV m : Nat) (hd : demands.length = m) (hc : caps.length = nV) :
    Rect2 (createActionMask demands caps) nV m := by
  unfold createActionMask
  refine ⟨by simp [hc], ?_⟩
  intro row hrow
  obtain ⟨cap, _, rfl⟩ := List.mem_map.mp hrow
  simp [Jx.setWD_length, hd]

theorem nextNodes_length_caps (s : State) (a : List Nat) (hl : a.length = s.capacities.length) :
    (nextNodes s a).length = s.capacities.length := by
  unfold nextNodes; rw [resolve_length, zeroInvalid_length s a hl, hl]

/-- the shapes are preserved by every step with one action per vehicle -/
theorem update_shapeInv (rnd : Rat → Rat) (c : Cfg) (D : Dist) (nV : Nat) (s : State) (a : List Nat)
    (h : ShapeInv c nV s) (ha : a.length = nV) : ShapeInv c nV (update rnd c D s a) := by
  obtain ⟨h1, h2, h3, h4, h5, h6, h7, h8, h9, h10, _⟩ := h
  have hn : (nextNodes s a).length = nV := by rw [nextNodes_length_caps s a (by rw [ha, h10]), h10]
  have hd : (update rnd c D s a).demands.length = c.numCustomers + 1 := by rw [update_demands_length, h3]
  have hc : (update rnd c D s a).capacities.length = nV := by
    show (List.zipWith _ (nextNodes s a) s.capacities).length = nV
    rw [List.length_zipWith, hn, h10]; omega
  refine ⟨h1, h2, hd, h4, h5, h6, h7, ?_, by rw [update_positions]; exact hn, hc, ?_⟩
  · show (List.zipWith _ s.localTimes (List.zipWith _ s.positions (nextNodes s a))).length = nV
    rw [List.length_zipWith, List.length_zipWith, hn, h8, h9]; omega
  · rw [update_mask]
    exact createActionMask_rect _ _ nV _ hd hc

theorem step_specInv (rnd : Rat → Rat) (c : Cfg) (nV : Nat) (L : Lim) (D : Dist) (s : State) (a : List Nat) (K : Nat)
    (hr : RndOK rnd L.dmax K) (hk : s.stepCount ≤ K) (hD : DistOK L D) (h : SpecInv c nV L s) (ha : a.length = nV) :
    SpecInv c nV L (step rnd c D s a).1 :=
  ⟨step_bInv_rnd rnd c L D s a K hr hk hD h.1, by rw [step_state]; exact update_shapeInv rnd c D nV s a h.2 ha⟩

/-- a draw of the generator with all five random arrays of the right length -/
def validDrawS (c : Cfg) (L : Lim) (d : Draw) : Prop :=
  validDrawB c L d ∧ d.winStart.length = c.numCustomers + 1 ∧ d.coefEarly.length = c.numCustomers + 1 ∧
  d.coefLate.length = c.numCustomers + 1
instance (c : Cfg) (L : Lim) (d : Draw) : Decidable (validDrawS c L d) := by unfold validDrawS; infer_instance

theorem reset_specInv (c : Cfg) (nV : Nat) (L : Lim) (d : Draw) (h : validDrawS c L d) :
    SpecInv c nV L (reset c nV L.demandMax L.windowLen d).1 := by
  obtain ⟨hB, w1, w2, w3⟩ := h
  refine ⟨reset_bInv c L nV d hB, ?_⟩
  obtain ⟨⟨c1, c2, c3, _, _⟩, _⟩ := hB
  show ShapeInv c nV (generate c nV L.demandMax L.windowLen d)
  unfold generate
  refine ⟨c1, fun p hp => (c3 p hp).1, by simp [c2], w1, by simp [w1], by simp [Jx.setWD_length, w2],
    by simp [Jx.setWD_length, w3], by simp, by simp, by simp, ?_⟩
  exact createActionMask_rect _ _ nV _ (by simp [c2]) (by simp)

/-! ### membership of the observations -/

theorem getWC_mem {α} (xs : List α) (d : α) (i : Int) (h : 0 < xs.length) : Jx.getWC xs d i ∈ xs := by
  unfold Jx.getWC
  have := Jx.clampIdx_lt h i
  rw [List.getD_eq_getElem?_getD, List.getElem?_eq_getElem this]
  exact List.getElem_mem _

/-- all leaves but `vehicles.local_times` need only `SInv` (which every rounding function preserves) and the shapes; the
local times enter through the explicit hypothesis `hl` -/
theorem observe_obsOK_S (c : Cfg) (nV : Nat) (L : Lim) (maxLocal : Rat)
    (hdecl : L.demandMax ≤ c.maxCap ∧ 0 ≤ L.windowLen ∧ L.coefEarlyMax ≤ L.coefLateMax) (s : State)
    (hS : SInv c L s) (hsh : ShapeInv c nV s) (hl : ∀ l ∈ s.localTimes, 0 ≤ l ∧ l ≤ maxLocal) :
    ObsOK c nV L maxLocal (stateToObs s) := by
  obtain ⟨_, s1, s2, s3, s4, s5, s6, s7⟩ := hS
  obtain ⟨g1, g2, g3, g4, g5, g6, g7, g8, g9, g10, g11⟩ := hsh
  obtain ⟨d1, d2, d3⟩ := hdecl
  refine ⟨⟨⟨g1, g2⟩, s1⟩, ⟨g3, fun x hx => ⟨(s2 x hx).1, Int.le_trans (s2 x hx).2 d1⟩⟩,
    ⟨g4, fun x hx => ⟨(s3 x hx).1, by have := (s3 x hx).2; grind⟩⟩,
    ⟨g5, fun x hx => ⟨by have := (s4 x hx).1; grind, (s4 x hx).2⟩⟩,
    ⟨g6, fun x hx => ⟨(s5 x hx).1, Rat.le_trans (s5 x hx).2 d3⟩⟩, ⟨g7, s6⟩, ?_, ⟨g8, hl⟩, ⟨g10, s7⟩, g11⟩
  show GridIn (s.positions.map (fun (p : Nat) => Jx.getWC s.coords [] (p : Int))) nV 2 L.mapMax
  refine ⟨⟨by simp [g9], ?_⟩, ?_⟩
  · intro row hrow
    obtain ⟨p, _, rfl⟩ := List.mem_map.mp hrow
    exact g2 _ (getWC_mem _ _ _ (by omega))
  · intro row hrow
    obtain ⟨p, _, rfl⟩ := List.mem_map.mp hrow
    exact s1 _ (getWC_mem _ _ _ (by omega))

theorem observe_obsOK (c : Cfg) (nV : Nat) (L : Lim) (maxLocal : Rat) (hdecl : DeclOK c L maxLocal) (s : State)
    (h : SpecInv c nV L s) (hk : s.stepCount ≤ 2 * c.numCustomers + 1) : ObsOK c nV L maxLocal (stateToObs s) := by
  obtain ⟨⟨hS, hT⟩, hsh⟩ := h
  obtain ⟨d1, d2, d3, d4⟩ := hdecl
  have h0 : 0 ≤ L.dmax := hS.1.2.2.2.2
  refine observe_obsOK_S c nV L maxLocal ⟨d1, d2, d3⟩ s hS hsh ?_
  intro l hl
  have hl' := hT l hl
  have k1 : (s.stepCount : Rat) ≤ 2 * (c.numCustomers : Rat) + 1 := by exact_mod_cast hk
  have k2 : (s.stepCount : Rat) * L.dmax ≤ (2 * (c.numCustomers : Rat) + 1) * L.dmax :=
    Rat.mul_le_mul_of_nonneg_right k1 h0
  refine ⟨hl'.1, ?_⟩
  grind

/-- C01 for EVERY rounding function (float32 included), every distance matrix, every step count: the observation of a step
with one action per vehicle from a state satisfying `SInv` and the shapes is a member as soon as the new local times lie in
`[0, max_local_time]` — every other leaf is unconditional -/
theorem step_obs_valid_anyrnd (rnd : Rat → Rat) (c : Cfg) (nV : Nat) (hV : 0 < nV) (L : Lim) (maxLocal : Rat)
    (hdecl : L.demandMax ≤ c.maxCap ∧ 0 ≤ L.windowLen ∧ L.coefEarlyMax ≤ L.coefLateMax) (D : Dist) (s : State)
    (a : List Nat) (hS : SInv c L s) (hsh : ShapeInv c nV s) (ha : a.length = nV)
    (hl : ∀ l ∈ (step rnd c D s a).1.localTimes, 0 ≤ l ∧ l ≤ maxLocal) :
    (obsSpec c nV L maxLocal).valid (toNValue (step rnd c D s a).2.obs) = true := by
  rw [step_obs, ← step_state]
  exact obs_valid c nV hV L maxLocal _ (observe_obsOK_S c nV L maxLocal hdecl _ (step_sInv rnd c L D s a hS)
    (by rw [step_state]; exact update_shapeInv rnd c D nV s a hsh ha) hl)

/-- C01: the observation of ANY state with the invariant that has made at most `2·N` steps is a member -/
theorem observe_valid (c : Cfg) (nV : Nat) (hV : 0 < nV) (L : Lim) (maxLocal : Rat) (hdecl : DeclOK c L maxLocal)
    (s : State) (h : SpecInv c nV L s) (hk : s.stepCount ≤ 2 * c.numCustomers + 1) :
    (obsSpec c nV L maxLocal).valid (toNValue (stateToObs s)) = true :=
  obs_valid c nV hV L maxLocal _ (observe_obsOK c nV L maxLocal hdecl s h hk)

/-- C01: the `reset` observation, for every draw of the generator's ranges -/
theorem reset_obs_valid (c : Cfg) (nV : Nat) (hV : 0 < nV) (L : Lim) (maxLocal : Rat) (hdecl : DeclOK c L maxLocal)
    (d : Draw) (h : validDrawS c L d) :
    (obsSpec c nV L maxLocal).valid (toNValue (reset c nV L.demandMax L.windowLen d).2.obs) = true := by
  rw [reset_obs]
  exact observe_valid c nV hV L maxLocal hdecl _ (reset_specInv c nV L d h) (by simp [reset, generate])

/-- C01: the observation of EVERY step with one action per vehicle (any naturals, legal or not, MID or LAST, either reward
function) from a state with the invariant that has not timed out -/
theorem step_obs_valid (rnd : Rat → Rat) (c : Cfg) (nV : Nat) (hV : 0 < nV) (L : Lim) (maxLocal : Rat)
    (hdecl : DeclOK c L maxLocal) (D : Dist) (s : State) (a : List Nat)
    (hr : RndOK rnd L.dmax (2 * c.numCustomers)) (hD : DistOK L D) (h : SpecInv c nV L s)
    (hk : s.stepCount ≤ 2 * c.numCustomers) (ha : a.length = nV) :
    (obsSpec c nV L maxLocal).valid (toNValue (step rnd c D s a).2.obs) = true := by
  rw [step_obs, ← step_state]
  exact observe_valid c nV hV L maxLocal hdecl _ (step_specInv rnd c nV L D s a _ hr hk hD h ha)
    (by rw [step_state, update_stepCount]; omega)

/-- whole episodes: along the rollout of ANY joint actions (one per vehicle) from `reset`, every observation emitted by one
of the first `2·N` steps is a member of the spec (`stepCount` starts at 1 and the step that makes it exceed `2·N` is LAST:
`multicvrp_last_at_limit`) -/
theorem rollout_obs_valid (rnd : Rat → Rat) (c : Cfg) (nV : Nat) (hV : 0 < nV) (L : Lim) (maxLocal : Rat)
    (hdecl : DeclOK c L maxLocal) (D : Dist) (hr : RndOK rnd L.dmax (2 * c.numCustomers)) (hD : DistOK L D)
    (d : Draw) (hd : validDrawS c L d) (as : List (List Nat)) (has : ∀ a ∈ as, a.length = nV) (j : Nat)
    (hj : j < 2 * c.numCustomers) (e : State × TimeStep Obs)
    (he : (Ep.rollout (fun s a => step rnd c D s a) (reset c nV L.demandMax L.windowLen d).1 as)[j]? = some e) :
    (obsSpec c nV L maxLocal).valid (toNValue e.2.obs) = true := by
  obtain ⟨s', a, hinv, ha, rfl⟩ := rollout_inv_idx (fun s a => step rnd c D s a)
    (fun n s => SpecInv c nV L s ∧ s.stepCount = n + 1 ∧ n ≤ 2 * c.numCustomers ∨ 2 * c.numCustomers < n)
    (fun a => a.length = nV)
    (fun n s a h ha => by
      rcases h with ⟨h1, h2, h3⟩ | h
      · by_cases hn : n + 1 ≤ 2 * c.numCustomers
        · exact Or.inl ⟨step_specInv rnd c nV L D s a _ hr (by omega) hD h1 ha,
            by rw [step_state, update_stepCount, h2], hn⟩
        · exact Or.inr (by omega)
      · exact Or.inr (by omega))
    0 _ (Or.inl ⟨reset_specInv c nV L d hd, by simp [reset, generate], by omega⟩) as has j e he
  rcases hinv with ⟨h1, h2, _⟩ | h
  · exact step_obs_valid rnd c nV hV L maxLocal hdecl D s' a hr hD h1 (by omega) ha
  · omega

/-! ### reward, discount, action spec -/

theorem step_protocol (rnd : Rat → Rat) (c : Cfg) (D : Dist) (s : State) (a : List Nat) :
    StepOK none false (step rnd c D s a).2 = true := by
  unfold step; exact condLast_stepOK _ _ _

theorem step_reward_discount_valid (rnd : Rat → Rat) (c : Cfg) (D : Dist) (s : State) (a : List Nat) :
    rewardSpec.valid (scalarArr (step rnd c D s a).2.reward) = true ∧
    discountSpec.valid (scalarArr (step rnd c D s a).2.discount) = true :=
  stepOK_reward_discount_valid false _ (step_protocol rnd c D s a)

theorem reset_reward_discount_valid (c : Cfg) (nV : Nat) (dm : Int) (wl : Rat) (d : Draw) :
    rewardSpec.valid (scalarArr (reset c nV dm wl d).2.reward) = true ∧
    discountSpec.valid (scalarArr (reset c nV dm wl d).2.discount) = true := by
  unfold reset; simp only [restart]; exact ⟨by decide, by decide⟩

theorem actionSpec_generate (c : Cfg) (nV : Nat) : (actionSpec c nV).generate = actionArr nV (List.replicate nV 0) := by
  simp only [actionSpec, iLeaf, Leaf.generate, Leaf.lower, Leaf.shape, Leaf.dtype, actionArr, broadcast_scalar, prod_one,
    ofInts, List.map_replicate]
  rfl

/-- membership in `action_spec`: one value in `[0, num_customers + 1]` per vehicle -/
theorem actionSpec_valid_iff (c : Cfg) (nV : Nat) (a : List Nat) :
    (actionSpec c nV).valid (actionArr nV a) = true ↔ a.length = nV ∧ ∀ x ∈ a, x ≤ c.numCustomers + 1 := by
  unfold actionSpec iLeaf actionArr
  rw [valid_scalar_bounded_iff]
  simp only [ofInts_length, List.length_map, prod_one, true_and]
  constructor
  · rintro ⟨hl, hb⟩
    refine ⟨hl, fun x hx => ?_⟩
    have := (ofInts_bounds_conv _ _ _ hb (x : Int) (List.mem_map.mpr ⟨x, hx, rfl⟩)).2
    omega
  · rintro ⟨hl, hb⟩
    refine ⟨hl, ofInts_bounds _ _ _ ?_⟩
    intro v hv
    obtain ⟨x, hx, rfl⟩ := List.mem_map.mp hv
    have := hb x hx
    omega

theorem actionSpec_WF (c : Cfg) (nV : Nat) (hbig : c.numCustomers + 1 ≤ 32767) : (actionSpec c nV).WF = true := by
  have fitsI : ∀ z : Int, -32768 ≤ z → z ≤ 32767 → DType.int16.fits ((z : Int) : Rat) = true := by
    intro z h1 h2; simp [DType.fits, DType.intRange, Rat.den_intCast, Rat.num_intCast, h1, h2]
  have f0 := fitsI 0 (by omega) (by omega)
  have f1 := fitsI ((c.numCustomers + 1 : Nat) : Int) (by omega) (by omega)
  have hle : ((0 : Int) : Rat) ≤ (((c.numCustomers + 1 : Nat) : Int) : Rat) := Rat.intCast_le_intCast.mpr (by omega)
  simp only [actionSpec, iLeaf, Leaf.WF, Leaf.WF0, Leaf.fitsDType, Leaf.lower, Leaf.upper, broadcast_scalar,
    List.all_cons, List.all_nil, f0, f1]
  simp [prod, broadcastable]
  right
  simpa using hle

/-- `action_spec.generate_value()` = all zeros (every vehicle to the depot): the spec is well-formed, the value is a member,
and `step` answers it with a protocol-conform timestep whose observation is a member of the observation spec -/
theorem accepts_generate_value (rnd : Rat → Rat) (c : Cfg) (nV : Nat) (hV : 0 < nV) (hbig : c.numCustomers + 1 ≤ 32767)
    (L : Lim) (maxLocal : Rat) (hdecl : DeclOK c L maxLocal) (D : Dist) (s : State)
    (hr : RndOK rnd L.dmax (2 * c.numCustomers)) (hD : DistOK L D) (h : SpecInv c nV L s)
    (hk : s.stepCount ≤ 2 * c.numCustomers) :
    (actionSpec c nV).WF = true ∧ (actionSpec c nV).valid (actionSpec c nV).generate = true ∧
    (actionSpec c nV).generate = actionArr nV (List.replicate nV 0) ∧
    StepOK none false (step rnd c D s (List.replicate nV 0)).2 = true ∧
    (obsSpec c nV L maxLocal).valid (toNValue (step rnd c D s (List.replicate nV 0)).2.obs) = true :=
  ⟨actionSpec_WF c nV hbig, Leaf.generate_valid _ (actionSpec_WF c nV hbig), actionSpec_generate c nV,
   step_protocol rnd c D s _,
   step_obs_valid rnd c nV hV L maxLocal hdecl D s _ hr hD h hk (by simp)⟩

end MultiCVRP
