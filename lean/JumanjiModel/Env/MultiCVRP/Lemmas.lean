/- Proofs about the MultiCVRP model (Env/MultiCVRP/Model.lean). -/
import JumanjiModel.Env.MultiCVRP.Model
import JumanjiModel.Prim.Lemmas
namespace MultiCVRP
open Jm

/-! ### mask = legal -/

theorem setWD_zero {α} (xs : List α) (v : α) : Jx.setWD xs ((0 : Nat) : Int) v = xs.set 0 v := by
  cases xs with
  | nil => simp [Jx.setWD, Jx.wrapIdx]
  | cons x xs => exact Jx.setWD_nat (x :: xs) v (by simp)

theorem mask_row (demands : List Int) (cap : Int) (a : Nat) :
    (Jx.setWD (demands.map (fun d => decide (cap ≥ d) && decide (d > 0))) (DEPOT : Int) true).getD a false
      = (decide (a < demands.length) &&
          (decide (a = DEPOT) || (decide (0 < demands.getD a 0) && decide (demands.getD a 0 ≤ cap)))) := by
  unfold DEPOT
  rw [setWD_zero]
  by_cases ha : a < demands.length
  · by_cases h0 : a = 0
    · subst h0; simp [List.getD_eq_getElem?_getD, ha]
    · have : 0 ≠ a := fun h => h0 h.symm
      simp [List.getD_eq_getElem?_getD, this, ha, h0, Bool.and_comm]
  · simp [List.getD_eq_getElem?_getD, ha]

theorem mask_iff_legal (s : State) (v a : Nat) :
    ((createActionMask s.demands s.capacities).getD v []).getD a false = true ↔ legal s v a := by
  unfold createActionMask legal
  by_cases hv : v < s.capacities.length
  · simp only [List.getD_eq_getElem?_getD, List.getElem?_map, List.getElem?_eq_getElem hv, Option.map_some,
      Option.getD_some]
    have := mask_row s.demands s.capacities[v] a
    simp only [List.getD_eq_getElem?_getD] at this
    rw [this]
    simp [hv]
  · simp [List.getD_eq_getElem?_getD, hv]

/-! ### destination resolution -/

theorem setWD_natCast {α} (xs : List α) (j : Nat) (v : α) : Jx.setWD xs (j : Int) v = xs.set j v := by
  by_cases h : j < xs.length
  · exact Jx.setWD_nat xs v h
  · unfold Jx.setWD Jx.wrapIdx
    have h1 : ¬ ((j : Int) < 0) := by omega
    have h2 : (j : Int) ≥ (xs.length : Int) := by omega
    simp only [h1, if_false, h2, if_true]
    rw [List.set_eq_of_length_le (by omega)]

theorem mem_insertU (x y : Nat) (l : List Nat) : y ∈ insertU x l ↔ y = x ∨ y ∈ l := by
  induction l with
  | nil => simp [insertU]
  | cons z zs ih =>
    unfold insertU
    split
    · simp
    · split
      · rename_i h; subst h; simp
      · simp [ih]; constructor <;> (intro h; rcases h with h | h | h <;> simp [h])

theorem mem_sortedUnique (xs : List Nat) (y : Nat) : y ∈ sortedUnique xs ↔ y ∈ xs := by
  unfold sortedUnique
  induction xs with
  | nil => simp
  | cons x xs ih => simp [List.foldr, mem_insertU, ih]

/-- scatter of (value, index) pairs in which the value is a function of the index -/
theorem scatter_getD (f : Nat → Nat) (ps : List (Nat × Nat)) (acc : List Nat)
    (h : ∀ p ∈ ps, p.1 = f p.2) (i : Nat) :
    (ps.foldl (fun acc p => Jx.setWD acc (p.2 : Int) p.1) acc).getD i 0 =
      if i < acc.length ∧ i ∈ ps.map (·.2) then f i else acc.getD i 0 := by
  induction ps generalizing acc with
  | nil => simp
  | cons p ps ih =>
    simp only [List.foldl_cons]
    rw [ih _ (fun q hq => h q (List.mem_cons_of_mem _ hq))]
    rw [setWD_natCast]
    have hp := h p List.mem_cons_self
    simp only [List.length_set, List.map_cons, List.mem_cons]
    by_cases hi : i < acc.length
    · by_cases h1 : i ∈ ps.map (·.2)
      · simp [hi, h1]
      · by_cases h2 : i = p.2
        · subst h2; simp [hi, h1, List.getD_eq_getElem?_getD, hp]
        · have : ¬ p.2 = i := fun h => h2 h.symm
          simp [hi, h1, h2, List.getD_eq_getElem?_getD, this]
    · simp [hi, List.getD_eq_getElem?_getD]

theorem scatter_length (ps : List (Nat × Nat)) (acc : List Nat) :
    (ps.foldl (fun acc p => Jx.setWD acc (p.2 : Int) p.1) acc).length = acc.length := by
  induction ps generalizing acc with
  | nil => simp
  | cons p ps ih => simp only [List.foldl_cons]; rw [ih, Jx.setWD_length]

theorem resolve_length (xs : List Nat) : (resolve xs).length = xs.length := by
  unfold resolve; rw [scatter_length]; simp

theorem uniqueFirst_mem (xs : List Nat) (p : Nat × Nat) (hp : p ∈ uniqueFirst xs) :
    p.1 ∈ xs ∧ p.2 = xs.idxOf p.1 := by
  unfold uniqueFirst at hp
  simp only [] at hp
  split at hp
  · simp at hp
  · rename_i q qs heq
    have hall : ∀ r ∈ (sortedUnique xs).map (fun u => (u, xs.idxOf u)), r.1 ∈ xs ∧ r.2 = xs.idxOf r.1 := by
      intro r hr
      simp only [List.mem_map] at hr
      obtain ⟨u, hu, rfl⟩ := hr
      exact ⟨(mem_sortedUnique xs u).1 hu, rfl⟩
    rw [List.mem_append] at hp
    rcases hp with hp | hp
    · exact hall p hp
    · have := List.eq_of_mem_replicate hp
      subst this
      exact hall p (by rw [heq]; exact List.mem_cons_self)

theorem uniqueFirst_idx (xs : List Nat) (u : Nat) (hu : u ∈ xs) :
    xs.idxOf u ∈ (uniqueFirst xs).map (·.2) := by
  unfold uniqueFirst
  simp only []
  have hm : (u, xs.idxOf u) ∈ (sortedUnique xs).map (fun u => (u, xs.idxOf u)) :=
    List.mem_map.2 ⟨u, (mem_sortedUnique xs u).2 hu, rfl⟩
  split
  · rename_i heq; rw [heq] at hm; simp at hm
  · exact List.mem_map.2 ⟨(u, xs.idxOf u), List.mem_append_left _ hm, rfl⟩

theorem idxOf_eq_iff (xs : List Nat) (x i : Nat) (hi : i < xs.length) :
    xs.idxOf x = i ↔ xs.getD i 0 = x ∧ ∀ j, j < i → xs.getD j 0 ≠ x := by
  have := List.findIdx_eq (p := fun y => y == x) (xs := xs) hi
  show xs.findIdx (· == x) = i ↔ _
  rw [this]
  simp only [List.getD_eq_getElem?_getD, List.getElem?_eq_getElem hi, Option.getD_some, beq_iff_eq,
    beq_eq_false_iff_ne, ne_eq]
  constructor
  · intro ⟨h1, h2⟩
    refine ⟨h1, fun j hj => ?_⟩
    rw [List.getElem?_eq_getElem (by omega)]
    exact h2 j hj
  · intro ⟨h1, h2⟩
    refine ⟨h1, fun j hj => ?_⟩
    have := h2 j hj
    rwa [List.getElem?_eq_getElem (by omega)] at this

/-- what `jnp.unique(..., return_index=True, size=n)` + scatter into zeros computes: every entry
survives at its first occurrence and is replaced by 0 elsewhere -/
theorem resolve_getD (xs : List Nat) (i : Nat) (hi : i < xs.length) :
    (resolve xs).getD i 0 =
      if (∀ j, j < i → xs.getD j 0 ≠ xs.getD i 0) then xs.getD i 0 else 0 := by
  unfold resolve
  rw [scatter_getD (fun j => xs.getD j 0)]
  · have hx : xs.getD i 0 ∈ xs := by
      rw [List.getD_eq_getElem?_getD, List.getElem?_eq_getElem hi]; simp
    by_cases hfirst : ∀ j, j < i → xs.getD j 0 ≠ xs.getD i 0
    · have : xs.idxOf (xs.getD i 0) = i := (idxOf_eq_iff xs _ i hi).2 ⟨rfl, hfirst⟩
      have hm := uniqueFirst_idx xs _ hx
      rw [this] at hm
      rw [if_pos ⟨by simpa using hi, hm⟩, if_pos hfirst]
    · have hn : i ∉ (uniqueFirst xs).map (·.2) := by
        intro hm
        obtain ⟨p, hp, hpi⟩ := List.mem_map.1 hm
        obtain ⟨h1, h2⟩ := uniqueFirst_mem xs p hp
        have h3 : xs.idxOf p.1 = i := by rw [← h2]; exact hpi
        have := (idxOf_eq_iff xs p.1 i hi).1 h3
        apply hfirst
        intro j hj
        rw [this.1]
        exact this.2 j hj
      rw [if_neg (fun h => hn h.2), if_neg hfirst]
      simp [List.getD_eq_getElem?_getD, List.getElem?_replicate, hi]
  · intro p hp
    obtain ⟨h1, h2⟩ := uniqueFirst_mem xs p hp
    have hlt : xs.idxOf p.1 < xs.length := List.idxOf_lt_length_iff.2 h1
    simp only [h2, List.getD_eq_getElem?_getD, List.getElem?_eq_getElem hlt, Option.getD_some]
    exact (List.getElem_idxOf hlt).symm

/-! ### L1 destinations = destinations by the rules -/

theorem zeroInvalid_length (s : State) (a : List Nat) (hl : a.length = s.capacities.length) :
    (zeroInvalid s a).length = a.length := by
  unfold zeroInvalid; simp [hl]

theorem mul_flags (x : Nat) (cap d : Int) :
    x * (if cap ≥ d then 1 else 0) * (if d > 0 then 1 else 0) =
      if (x = 0 ∨ (0 < d ∧ d ≤ cap)) then x else 0 := by
  by_cases h1 : cap ≥ d <;> by_cases h2 : d > 0 <;> by_cases h0 : x = 0 <;> simp [h1, h2, h0] <;> omega

/-- the first zeroing stage keeps a choice iff it is a legal choice of a customer -/
theorem zeroInvalid_getD (s : State) (a : List Nat) (hl : a.length = s.capacities.length) (v : Nat)
    (hv : v < a.length) (hr : a.getD v 0 < s.demands.length) :
    (zeroInvalid s a).getD v 0 = if legal s v (a.getD v 0) then a.getD v 0 else 0 := by
  have hv' : v < s.capacities.length := by omega
  have e : (zeroInvalid s a).getD v 0 =
      a.getD v 0 * (if s.capacities.getD v 0 ≥ Jx.getWC s.demands 0 ((a.getD v 0 : Nat) : Int) then 1 else 0) *
        (if Jx.getWC s.demands 0 ((a.getD v 0 : Nat) : Int) > 0 then 1 else 0) := by
    unfold zeroInvalid
    simp only [List.getD_eq_getElem?_getD, List.getElem?_zipWith, List.getElem?_eq_getElem hv,
      List.getElem?_eq_getElem hv', Option.getD_some]
  rw [e, Jx.getWC_nat _ _ hr, mul_flags]
  have hiff : legal s v (a.getD v 0) ↔ (a.getD v 0 = 0 ∨
      (0 < s.demands.getD (a.getD v 0) 0 ∧ s.demands.getD (a.getD v 0) 0 ≤ s.capacities.getD v 0)) := by
    unfold legal DEPOT
    exact ⟨fun h => h.2.2, fun h => ⟨hv', hr, h⟩⟩
  by_cases hc : legal s v (a.getD v 0)
  · rw [if_pos hc, if_pos (hiff.1 hc)]
  · rw [if_neg hc, if_neg (fun h => hc (hiff.2 h))]

theorem dests_length (s : State) (a : List Nat) : (dests s a).length = a.length := by
  unfold dests; simp

/-- C09 refinement: for in-range choices, the two zeroing stages of `_update_state` (capacity /
demand test, then `jnp.unique` + scatter) compute exactly the destinations prescribed by the rules -/
theorem nextNodes_eq_dests (s : State) (a : List Nat) (hl : a.length = s.capacities.length)
    (hr : ∀ x ∈ a, x < s.demands.length) : nextNodes s a = dests s a := by
  have hrv : ∀ v, v < a.length → a.getD v 0 < s.demands.length := by
    intro v hv
    apply hr
    rw [List.getD_eq_getElem?_getD, List.getElem?_eq_getElem hv]; simp
  apply List.ext_getElem
  · rw [dests_length]; unfold nextNodes; rw [resolve_length, zeroInvalid_length s a hl]
  · intro v h1 h2
    rw [dests_length] at h2
    have hz : v < (zeroInvalid s a).length := by rw [zeroInvalid_length s a hl]; exact h2
    have e1 : (nextNodes s a)[v] = (nextNodes s a).getD v 0 := by
      rw [List.getD_eq_getElem?_getD, List.getElem?_eq_getElem h1]; rfl
    have e2 : (dests s a)[v] = (dests s a).getD v 0 := by
      rw [List.getD_eq_getElem?_getD, List.getElem?_eq_getElem (by rw [dests_length]; exact h2)]; rfl
    rw [e1, e2]
    unfold nextNodes
    rw [resolve_getD _ v hz, zeroInvalid_getD s a hl v h2 (hrv v h2)]
    have hd : (dests s a).getD v 0 = if honoured s a v then a.getD v 0 else DEPOT := by
      unfold dests
      simp [List.getD_eq_getElem?_getD, List.getElem?_map, List.getElem?_range h2]
    rw [hd]
    unfold honoured
    by_cases hleg : legal s v (a.getD v 0)
    · by_cases h0 : a.getD v 0 = 0
      · rw [h0]; simp [DEPOT]
      · rw [if_pos hleg]
        have hu : ∀ u, u < v → ((zeroInvalid s a).getD u 0 ≠ a.getD v 0 ↔
            (¬ legal s u (a.getD u 0) ∨ a.getD u 0 ≠ a.getD v 0)) := by
          intro u hu
          rw [zeroInvalid_getD s a hl u (by omega) (hrv u (by omega))]
          by_cases hlu : legal s u (a.getD u 0)
          · rw [if_pos hlu]
            exact ⟨fun h => Or.inr h, fun h => h.resolve_left (fun n => n hlu)⟩
          · rw [if_neg hlu]; simp only [hlu, not_false_eq_true, true_or, iff_true]
            exact fun e => h0 e.symm
        have hcond : (∀ j, j < v → (zeroInvalid s a).getD j 0 ≠ a.getD v 0) ↔
            (decide (legal s v (a.getD v 0)) && ((a.getD v 0 == DEPOT) || (List.range v).all (fun u =>
              !(decide (legal s u (a.getD u 0)) && a.getD u 0 == a.getD v 0)))) = true := by
          simp only [Bool.and_eq_true, decide_eq_true_eq, hleg, true_and, Bool.or_eq_true, beq_iff_eq,
            DEPOT, h0, false_or, List.all_eq_true, List.mem_range,
            Bool.not_eq_true', Bool.and_eq_false_iff, decide_eq_false_iff_not, beq_eq_false_iff_ne, ne_eq]
          constructor
          · intro h u hu'; exact (hu u hu').1 (h u hu')
          · intro h u hu'; exact (hu u hu').2 (h u hu')
        by_cases hc : ∀ j, j < v → (zeroInvalid s a).getD j 0 ≠ a.getD v 0
        · rw [if_pos hc, if_pos (hcond.1 hc)]
        · rw [if_neg hc, if_neg (fun h => hc (hcond.2 h))]; rfl
    · rw [if_neg hleg]
      have hf : (decide (legal s v (a.getD v 0)) && ((a.getD v 0 == DEPOT) || (List.range v).all (fun u =>
              !(decide (legal s u (a.getD u 0)) && a.getD u 0 == a.getD v 0)))) = false := by
        rw [decide_eq_false hleg]; rfl
      rw [hf]
      simp [DEPOT]

/-! ### the step: observation, cached mask, illegal choices, horizon, rewards -/

theorem step_state (rnd : Rat → Rat) (c : Cfg) (D : Dist) (s : State) (a : List Nat) :
    (step rnd c D s a).1 = update rnd c D s a := rfl

theorem step_obs (rnd : Rat → Rat) (c : Cfg) (D : Dist) (s : State) (a : List Nat) :
    (step rnd c D s a).2.obs = stateToObs (update rnd c D s a) := by
  unfold step condLast termination transition; simp only []; split <;> rfl

theorem step_last_iff (rnd : Rat → Rat) (c : Cfg) (D : Dist) (s : State) (a : List Nat) :
    (step rnd c D s a).2.stepType = .last ↔ isDone c (update rnd c D s a) = true := by
  unfold step condLast termination transition; simp only []; split <;> simp_all

theorem step_reward (rnd : Rat → Rat) (c : Cfg) (D : Dist) (s : State) (a : List Nat) :
    (step rnd c D s a).2.reward =
      [reward rnd c D s (update rnd c D s a) (isDone c (update rnd c D s a))] := by
  unfold step condLast termination transition; simp only []; split <;> rfl

theorem update_positions (rnd : Rat → Rat) (c : Cfg) (D : Dist) (s : State) (a : List Nat) :
    (update rnd c D s a).positions = nextNodes s a := rfl

theorem update_stepCount (rnd : Rat → Rat) (c : Cfg) (D : Dist) (s : State) (a : List Nat) :
    (update rnd c D s a).stepCount = s.stepCount + 1 := rfl

theorem update_mask (rnd : Rat → Rat) (c : Cfg) (D : Dist) (s : State) (a : List Nat) :
    (update rnd c D s a).mask =
      createActionMask (update rnd c D s a).demands (update rnd c D s a).capacities := rfl

theorem foldl_setWD_length (qs : List Nat) (d : List Int) :
    (qs.foldl (fun d (q : Nat) => Jx.setWD d (q : Int) 0) d).length = d.length := by
  induction qs generalizing d with
  | nil => rfl
  | cons q qs ih => simp only [List.foldl_cons]; rw [ih, Jx.setWD_length]

theorem update_demands_length (rnd : Rat → Rat) (c : Cfg) (D : Dist) (s : State) (a : List Nat) :
    (update rnd c D s a).demands.length = s.demands.length := foldl_setWD_length _ _

/-- the mask function is the table of the legal (vehicle, node) pairs -/
theorem createActionMask_eq_table (s : State) :
    createActionMask s.demands s.capacities =
      (List.range s.capacities.length).map (fun v =>
        (List.range s.demands.length).map (fun a => decide (legal s v a))) := by
  apply List.ext_getElem
  · simp [createActionMask]
  · intro v h1 h2
    have hv : v < s.capacities.length := by simpa [createActionMask] using h1
    apply List.ext_getElem
    · simp [createActionMask, Jx.setWD_length]
    · intro x h3 h4
      have hx : x < s.demands.length := by simpa using h4
      have key := mask_iff_legal s v x
      have e1 : ((createActionMask s.demands s.capacities).getD v []).getD x false =
          (createActionMask s.demands s.capacities)[v][x] := by
        simp [List.getD_eq_getElem?_getD, List.getElem?_eq_getElem h1, List.getElem?_eq_getElem h3]
      rw [e1] at key
      simp only [List.getElem_map, List.getElem_range]
      cases hb : (createActionMask s.demands s.capacities)[v][x]
      · rw [hb] at key; simp at key; simp [key]
      · rw [hb] at key; simp at key; simp [key]

theorem dests_lt (s : State) (a : List Nat) (hr : ∀ x ∈ a, x < s.demands.length) :
    ∀ p ∈ dests s a, p < s.demands.length := by
  intro p hp
  unfold dests at hp
  simp only [List.mem_map, List.mem_range] at hp
  obtain ⟨v, hv, rfl⟩ := hp
  have hm : a.getD v 0 ∈ a := by
    rw [List.getD_eq_getElem?_getD, List.getElem?_eq_getElem hv]; simp
  have := hr _ hm
  split
  · exact this
  · unfold DEPOT; omega

/-- C12: the observation returned by `step` is the documented function of the successor state -/
theorem obs_faithful (rnd : Rat → Rat) (c : Cfg) (D : Dist) (s : State) (a : List Nat)
    (hl : a.length = s.capacities.length) (hr : ∀ x ∈ a, x < s.demands.length)
    (hc : s.coords.length = s.demands.length) :
    (step rnd c D s a).2.obs = observe (step rnd c D s a).1 := by
  rw [step_obs, step_state]
  unfold stateToObs observe
  rw [update_mask, createActionMask_eq_table]
  have hp : ∀ p ∈ (update rnd c D s a).positions, p < (update rnd c D s a).coords.length := by
    rw [update_positions, nextNodes_eq_dests s a hl hr]
    intro p hp
    have := dests_lt s a hr p hp
    show p < s.coords.length
    omega
  congr 1
  apply List.map_congr_left
  intro p hpm
  exact Jx.getWC_nat _ _ (hp p hpm)

/-- C05: an illegal choice of a vehicle is treated exactly like the choice "depot" -/
theorem illegal_is_depot (rnd : Rat → Rat) (c : Cfg) (D : Dist) (s : State) (a : List Nat)
    (hl : a.length = s.capacities.length) (v : Nat) (hv : v < a.length)
    (hr : a.getD v 0 < s.demands.length) (h0 : 0 < s.demands.length) (hill : ¬ legal s v (a.getD v 0)) :
    step rnd c D s a = step rnd c D s (a.set v DEPOT) := by
  have hz : zeroInvalid s a = zeroInvalid s (a.set v DEPOT) := by
    apply List.ext_getElem
    · rw [zeroInvalid_length s a hl, zeroInvalid_length s _ (by simpa using hl)]; simp
    · intro u h1 h2
      have hu : u < a.length := by rw [zeroInvalid_length s a hl] at h1; exact h1
      by_cases huv : u = v
      · subst huv
        have e1 := zeroInvalid_getD s a hl u hu hr
        have e2 := zeroInvalid_getD s (a.set u DEPOT) (by simpa using hl) u (by simpa using hu)
          (by simp [List.getD_eq_getElem?_getD, hu, DEPOT]; exact h0)
        rw [List.getD_eq_getElem?_getD, List.getElem?_eq_getElem h1] at e1
        rw [List.getD_eq_getElem?_getD, List.getElem?_eq_getElem h2] at e2
        simp only [Option.getD_some] at e1 e2
        rw [e1, e2, if_neg hill]
        simp [List.getD_eq_getElem?_getD, hu, DEPOT]
      · simp [zeroInvalid, List.getElem_set_ne (Ne.symm huv)]
  have hn : nextNodes s a = nextNodes s (a.set v DEPOT) := by unfold nextNodes; rw [hz]
  unfold step update
  simp only [hn]

/-- C11: a step that does not end the episode leaves the step counter within `2·num_customers` -/
theorem progress (rnd : Rat → Rat) (c : Cfg) (D : Dist) (s : State) (a : List Nat)
    (h : (step rnd c D s a).2.stepType ≠ .last) :
    (step rnd c D s a).1.stepCount = s.stepCount + 1 ∧
    (step rnd c D s a).1.stepCount ≤ 2 * c.numCustomers := by
  refine ⟨rfl, ?_⟩
  rw [step_state, update_stepCount]
  have hnd : ¬ (isDone c (update rnd c D s a) = true) := fun hd => h ((step_last_iff rnd c D s a).2 hd)
  unfold isDone timedOut at hnd
  rw [update_stepCount] at hnd
  simp only [Bool.or_eq_true, decide_eq_true_eq, not_or] at hnd
  omega

/-- … and a step taken at `stepCount ≥ 2·num_customers` always ends the episode -/
theorem last_at_limit (rnd : Rat → Rat) (c : Cfg) (D : Dist) (s : State) (a : List Nat)
    (h : 2 * c.numCustomers ≤ s.stepCount) : (step rnd c D s a).2.stepType = .last := by
  rw [step_last_iff]
  unfold isDone timedOut
  rw [update_stepCount]
  simp only [Bool.or_eq_true, decide_eq_true_eq]
  right; omega

theorem sumF_id (xs : List Rat) : sumF id xs = xs.sum := by
  show xs.foldl (fun acc x => acc + x) 0 = xs.sum
  have : ∀ (acc : Rat), xs.foldl (fun acc x => acc + x) acc = acc + xs.sum := by
    induction xs with
    | nil => intro acc; simp [Rat.add_zero]
    | cons x xs ih => intro acc; simp only [List.foldl_cons, List.sum_cons]; rw [ih]; rw [Rat.add_assoc]
  rw [this 0, Rat.zero_add]

/-- C08 (dense, exact arithmetic): before the step limit the reward is exactly the decrease of the
objective accumulated in the state (minus distance driven, minus time penalties) -/
theorem dense_telescopes (c : Cfg) (D : Dist) (s : State) (a : List Nat) (hd : c.dense = true)
    (ht : timedOut c (step id c D s a).1 = false) :
    (step id c D s a).2.reward = [accumulated (step id c D s a).1 - accumulated s] := by
  rw [step_reward]
  rw [step_state] at ht ⊢
  unfold reward denseReward accumulated
  rw [hd, ht]
  simp only [if_true, sumF_id, id, Bool.false_eq_true, if_false]
  congr 1
  generalize s.distances.sum = x1
  generalize s.timePenalties.sum = x2
  generalize (update id c D s a).distances.sum = y1
  generalize (update id c D s a).timePenalties.sum = y2
  grind

/-- C08 (sparse, exact arithmetic): zero until the end; at an end before the step limit the whole
accumulated objective; at the step limit `worst_case_remaining_reward` -/
theorem sparse_reward (c : Cfg) (D : Dist) (s : State) (a : List Nat) (hd : c.dense = false) :
    (step id c D s a).2.reward =
      [if (step id c D s a).2.stepType = .last then
         (if timedOut c (step id c D s a).1 then worstCase D (step id c D s a).1
          else accumulated (step id c D s a).1)
       else 0] := by
  rw [step_reward, step_state]
  unfold reward sparseReward accumulated
  rw [hd]
  simp only [Bool.false_eq_true, if_false, sumF_id, id]
  by_cases hdone : isDone c (update id c D s a) = true
  · rw [if_pos ((step_last_iff id c D s a).2 hdone), if_pos hdone]
    congr 1
    split
    · rfl
    · grind
  · rw [if_neg (fun h => hdone ((step_last_iff id c D s a).1 h)), if_neg hdone]

/-! ### feasibility (history-free part) -/

theorem dests_getD (s : State) (a : List Nat) (v : Nat) (hv : v < a.length) :
    (dests s a).getD v 0 = if honoured s a v then a.getD v 0 else DEPOT := by
  unfold dests
  simp [List.getD_eq_getElem?_getD, List.getElem?_map, List.getElem?_range hv]

theorem honoured_legal (s : State) (a : List Nat) (v : Nat) (h : honoured s a v = true) :
    legal s v (a.getD v 0) := by
  unfold honoured at h
  simp only [Bool.and_eq_true, decide_eq_true_eq] at h
  exact h.1

/-- a vehicle is sent to a customer only by its own legal choice -/
theorem dests_customer (s : State) (a : List Nat) (v : Nat) (hv : v < a.length)
    (hq : (dests s a).getD v 0 ≠ DEPOT) :
    honoured s a v = true ∧ (dests s a).getD v 0 = a.getD v 0 ∧ legal s v (a.getD v 0) := by
  rw [dests_getD s a v hv] at hq ⊢
  by_cases hh : honoured s a v = true
  · rw [if_pos hh] at hq ⊢; exact ⟨hh, rfl, honoured_legal s a v hh⟩
  · rw [if_neg hh] at hq; exact absurd rfl hq

/-- C06: no two vehicles are sent to the same customer in one step -/
theorem dests_no_shared_customer (s : State) (a : List Nat) (u v : Nat) (hu : u < a.length) (hvu : v < u)
    (he : (dests s a).getD u 0 = (dests s a).getD v 0) : (dests s a).getD u 0 = DEPOT := by
  apply Decidable.byContradiction
  intro hne
  have hv : v < a.length := by omega
  obtain ⟨hhu, heu, _⟩ := dests_customer s a u hu hne
  obtain ⟨_, hev, hlv⟩ := dests_customer s a v hv (by rw [← he]; exact hne)
  have hau : a.getD u 0 ≠ DEPOT := by rw [← heu]; exact hne
  unfold honoured at hhu
  simp only [Bool.and_eq_true, decide_eq_true_eq, Bool.or_eq_true, beq_iff_eq, List.all_eq_true,
    List.mem_range, Bool.not_eq_true', Bool.and_eq_false_iff, decide_eq_false_iff_not,
    beq_eq_false_iff_ne, ne_eq] at hhu
  rcases hhu.2 with h | h
  · exact hau h
  · rcases h v hvu with h | h
    · exact h hlv
    · apply h; rw [← hev, ← heu, he]

theorem served_getD (qs : List Nat) (d : List Int) (j : Nat) :
    (qs.foldl (fun d (q : Nat) => Jx.setWD d (q : Int) 0) d).getD j 0 =
      if j ∈ qs then 0 else d.getD j 0 := by
  induction qs generalizing d with
  | nil => simp
  | cons q qs ih =>
    simp only [List.foldl_cons]
    rw [ih, setWD_natCast]
    by_cases h1 : j ∈ qs
    · simp [h1]
    · by_cases h2 : j = q
      · subst h2
        simp only [h1, if_false, List.mem_cons, true_or, if_true]
        rw [List.getD_eq_getElem?_getD, List.getElem?_set]
        simp; split <;> simp_all
      · have : ¬ q = j := fun h => h2 h.symm
        simp [h1, h2, List.getD_eq_getElem?_getD, List.getElem?_set, this]

theorem update_demands (rnd : Rat → Rat) (c : Cfg) (D : Dist) (s : State) (a : List Nat) (j : Nat) :
    (update rnd c D s a).demands.getD j 0 = if j ∈ nextNodes s a then 0 else s.demands.getD j 0 :=
  served_getD _ _ j

theorem update_capacities (rnd : Rat → Rat) (c : Cfg) (D : Dist) (s : State) (a : List Nat) (v : Nat)
    (hv : v < a.length) (hl : a.length = s.capacities.length) (hr : ∀ x ∈ a, x < s.demands.length) :
    (update rnd c D s a).capacities.getD v 0 =
      if (dests s a).getD v 0 = DEPOT then c.maxCap
      else s.capacities.getD v 0 - s.demands.getD ((dests s a).getD v 0) 0 := by
  have hn := nextNodes_eq_dests s a hl hr
  have hv1 : v < (dests s a).length := by rw [dests_length]; exact hv
  have hv2 : v < s.capacities.length := by omega
  have hlt := dests_lt s a hr _ (List.getElem_mem hv1)
  show (List.zipWith _ (nextNodes s a) s.capacities).getD v 0 = _
  rw [hn]
  simp only [List.getD_eq_getElem?_getD, List.getElem?_zipWith, List.getElem?_eq_getElem hv1,
    List.getElem?_eq_getElem hv2, Option.getD_some, beq_iff_eq]
  rw [Jx.getWC_nat _ _ hlt]
  simp only [List.getD_eq_getElem?_getD]

/-- C06: any joint action with in-range choices — legal or not — keeps the history-free part of the
hard constraints: demands are untouched or zeroed, every vehicle's remaining capacity stays within
`[0, maxCap]`, no two vehicles stand at the same customer, the cached mask is the mask of the state -/
theorem step_basicFeasible (rnd : Rat → Rat) (c : Cfg) (D : Dist) (d0 : List Int) (s : State)
    (a : List Nat) (hm : 0 ≤ c.maxCap) (hl : a.length = s.capacities.length)
    (hr : ∀ x ∈ a, x < s.demands.length) (hf : BasicFeasible c d0 s) :
    BasicFeasible c d0 (step rnd c D s a).1 := by
  rw [step_state]
  obtain ⟨f1, f2, f3, f4, f5, f6, f7, f8, f9, f10, f11, f12⟩ := hf
  have hn := nextNodes_eq_dests s a hl hr
  have hnl : (nextNodes s a).length = a.length := by rw [hn, dests_length]
  have hcl : (update rnd c D s a).capacities.length = s.capacities.length := by
    show (List.zipWith _ (nextNodes s a) s.capacities).length = _
    simp [hnl, hl]
  refine ⟨?_, ?_, ?_, ?_, ?_, ?_, f7, f8, ?_, ?_, ?_, rfl⟩
  · rw [update_demands_length]; exact f1
  · rw [update_demands_length]; exact f2
  · rw [hcl, update_positions, hnl, hl]
  · rw [hcl]
    show (List.zipWith _ s.order (nextNodes s a)).length = _
    simp [hnl, hl, f4]
  · intro row hrow
    have : row ∈ List.zipWith (fun row (q : Nat) => Jx.setWD row (s.stepCount : Int) q) s.order (nextNodes s a) := hrow
    obtain ⟨i, hi, rfl⟩ := List.getElem_of_mem this
    simp only [List.getElem_zipWith, Jx.setWD_length]
    exact f5 _ (List.getElem_mem _)
  · rw [update_stepCount]; omega
  · intro j hj
    rw [update_demands_length] at hj
    rw [update_demands]
    split
    · right; rfl
    · exact f9 j hj
  · intro cap hcap
    obtain ⟨v, hv, rfl⟩ := List.getElem_of_mem hcap
    rw [hcl] at hv
    have hva : v < a.length := by omega
    have e := update_capacities rnd c D s a v hva hl hr
    rw [List.getD_eq_getElem?_getD, List.getElem?_eq_getElem (by rw [hcl]; exact hv)] at e
    simp only [Option.getD_some] at e
    rw [e]
    have hcv := f10 (s.capacities.getD v 0) (by
      rw [List.getD_eq_getElem?_getD, List.getElem?_eq_getElem hv]; simp)
    by_cases hq : (dests s a).getD v 0 = DEPOT
    · rw [if_pos hq]; omega
    · rw [if_neg hq]
      obtain ⟨_, he, hleg⟩ := dests_customer s a v hva hq
      rw [he]
      have hne : a.getD v 0 ≠ DEPOT := by rw [← he]; exact hq
      unfold legal at hleg
      have := hleg.2.2.resolve_left hne
      omega
  · intro u hu v hvu he
    rw [update_positions, hn] at hu he ⊢
    rw [dests_length] at hu
    exact dests_no_shared_customer s a u v hu hvu he

/-! ### the L1 step has the documented effect of choices that are not honoured (C05) -/

theorem step_illegalIgnored (rnd : Rat → Rat) (c : Cfg) (D : Dist) (s : State) (a : List Nat)
    (hl : a.length = s.capacities.length) (hr : ∀ x ∈ a, x < s.demands.length)
    (hd0 : s.demands.getD DEPOT 0 = 0) : IllegalIgnored c s a (step rnd c D s a).1 := by
  rw [step_state]
  have hn := nextNodes_eq_dests s a hl hr
  constructor
  · intro v hv hh
    have hd := dests_getD s a v hv
    rw [hh] at hd
    simp only [Bool.false_eq_true, if_false] at hd
    constructor
    · rw [update_positions, hn]
      have hv1 : v < (dests s a).length := by rw [dests_length]; exact hv
      rw [List.getD_eq_getElem?_getD, List.getElem?_eq_getElem hv1] at hd ⊢
      exact hd
    · rw [update_capacities rnd c D s a v hv hl hr, if_pos hd]
  · apply List.ext_getElem
    · rw [update_demands_length]; simp [demandsAfter]
    · intro j h1 h2
      have hj : j < s.demands.length := by rw [update_demands_length] at h1; exact h1
      have e := update_demands rnd c D s a j
      rw [List.getD_eq_getElem?_getD, List.getElem?_eq_getElem h1] at e
      simp only [Option.getD_some] at e
      rw [e, hn]
      simp only [demandsAfter, List.getElem_map, List.getElem_range]
      by_cases hj0 : j = DEPOT
      · subst hj0
        simp only [ne_eq, not_true_eq_false, false_and, if_false]
        split
        · exact hd0.symm
        · rfl
      · by_cases hm : j ∈ dests s a
        · rw [if_pos hm, if_pos ⟨hj0, hm⟩]
        · rw [if_neg hm, if_neg (fun h => hm h.2)]

/-! ### generator (C10) and reset (C06) -/

theorem generate_instance (c : Cfg) (nV : Nat) (demandMax : Int) (mapMax windowLen : Rat) (d : Draw)
    (hcon : demandMax ≤ c.maxCap) (hpos : 0 ≤ demandMax) (hd : validDraw c mapMax d) :
    demandsOK c demandMax (generate c nV demandMax windowLen d) ∧
    coordsInBox mapMax (generate c nV demandMax windowLen d) ∧
    IsInitial c nV (generate c nV demandMax windowLen d) := by
  obtain ⟨h1, h2, h3, h4, h5⟩ := hd
  refine ⟨⟨?_, ?_⟩, h3, ?_⟩
  · show (d.scaled.map (fun x => min x demandMax)).getD DEPOT 1 = 0
    have hlt : DEPOT < d.scaled.length := by unfold DEPOT; omega
    rw [List.getD_eq_getElem?_getD, List.getElem?_eq_getElem hlt] at h5
    simp only [Option.getD_some] at h5
    rw [List.getD_eq_getElem?_getD, List.getElem?_map, List.getElem?_eq_getElem hlt]
    simp only [Option.map_some, Option.getD_some, h5]
    omega
  · intro x hx
    have hx' : x ∈ d.scaled.map (fun x => min x demandMax) := hx
    obtain ⟨y, hy, rfl⟩ := List.mem_map.1 hx'
    have := h4 y hy
    omega
  · refine ⟨h1, ?_, rfl, rfl, rfl, rfl, rfl, rfl, rfl, rfl⟩
    show (d.scaled.map (fun x => min x demandMax)).length = _
    simp [h2]

theorem sum_replicate_zero (n : Nat) : (List.replicate n (0 : Nat)).sum = 0 := by
  induction n with
  | zero => rfl
  | succ n ih => simp [List.replicate_succ, ih]

theorem getD_replicate' {α} (n v : Nat) (x d : α) (hv : v < n) : (List.replicate n x).getD v d = x := by
  rw [List.getD_eq_getElem?_getD, List.getElem?_replicate]; simp [hv]

/-- C06: every instance the generator can draw starts feasible (with its own demands as `d0`) -/
theorem generate_feasible (c : Cfg) (nV : Nat) (demandMax : Int) (mapMax windowLen : Rat) (d : Draw)
    (hm : 0 ≤ c.maxCap) (hpos : 0 ≤ demandMax) (hd : validDraw c mapMax d) :
    Feasible c (generate c nV demandMax windowLen d).demands (generate c nV demandMax windowLen d) := by
  obtain ⟨h1, h2, h3, h4, h5⟩ := hd
  have hdem : (generate c nV demandMax windowLen d).demands = d.scaled.map (fun x => min x demandMax) := rfl
  have hcap : (generate c nV demandMax windowLen d).capacities = List.replicate nV c.maxCap := rfl
  have hpos' : (generate c nV demandMax windowLen d).positions = List.replicate nV DEPOT := rfl
  have hord : (generate c nV demandMax windowLen d).order =
      List.replicate nV (List.replicate (2 * c.numCustomers) 0) := rfl
  have hsc : (generate c nV demandMax windowLen d).stepCount = 1 := rfl
  have hlen : (generate c nV demandMax windowLen d).demands.length = c.numCustomers + 1 := by
    rw [hdem]; simp [h2]
  have hdepot : (generate c nV demandMax windowLen d).demands.getD DEPOT 1 = 0 := by
    rw [hdem]
    have hlt : DEPOT < d.scaled.length := by unfold DEPOT; omega
    rw [List.getD_eq_getElem?_getD, List.getElem?_eq_getElem hlt] at h5
    simp only [Option.getD_some] at h5
    rw [List.getD_eq_getElem?_getD, List.getElem?_map, List.getElem?_eq_getElem hlt]
    simp only [Option.map_some, Option.getD_some, h5]
    omega
  constructor
  · refine ⟨hlen, rfl, ?_, ?_, ?_, ?_, ?_, hdepot, ?_, ?_, ?_, rfl⟩
    · rw [hcap, hpos']; simp
    · rw [hcap, hord]; simp
    · intro row hrow
      rw [hord] at hrow
      rw [List.eq_of_mem_replicate hrow]; simp
    · rw [hsc]; omega
    · intro x hx
      rw [hdem] at hx
      obtain ⟨y, hy, rfl⟩ := List.mem_map.1 hx
      have := h4 y hy
      omega
    · intro j _; left; rfl
    · intro cap hc
      rw [hcap] at hc
      rw [List.eq_of_mem_replicate hc]; omega
    · intro u hu v hvu _
      rw [hpos'] at hu ⊢
      simp only [List.length_replicate] at hu
      exact getD_replicate' nV u DEPOT 0 hu
  · intro hrec
    have h2n : 1 ≤ 2 * c.numCustomers := by unfold recorded at hrec; rw [hsc] at hrec; exact hrec
    have hroutes : routes (generate c nV demandMax windowLen d) = List.replicate nV [0] := by
      unfold routes
      rw [hord, hsc, List.map_replicate]
      congr 1
      obtain ⟨k, hk⟩ : ∃ k, 2 * c.numCustomers = k + 1 := ⟨2 * c.numCustomers - 1, by omega⟩
      rw [hk, List.replicate_succ]; simp
    constructor
    · intro v hv
      rw [hcap] at hv
      simp only [List.length_replicate] at hv
      rw [hroutes, getD_replicate' nV v [0] [] hv]
      unfold RouteOK
      rw [hsc, hpos', hcap, getD_replicate' nV v DEPOT 0 hv, getD_replicate' nV v c.maxCap 0 hv]
      refine ⟨rfl, rfl, ?_, rfl, ?_, ?_⟩
      · intro x hx
        simp only [List.mem_singleton] at hx
        rw [hx, hlen]; omega
      · simp [loadsOK, DEPOT]; exact hm
      · simp [finalLoad, DEPOT]
    · intro j _ hj0
      left
      refine ⟨?_, rfl⟩
      unfold visitCount
      rw [hroutes, List.map_replicate]
      have : ([0] : List Nat).count j = 0 := by
        rw [List.count_eq_zero]; simp; omega
      rw [this]
      exact sum_replicate_zero nV

end MultiCVRP
