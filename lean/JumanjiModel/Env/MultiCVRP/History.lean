/- MultiCVRP: the history part of feasibility is preserved by `step`; complete states are solutions. -/
import JumanjiModel.Env.MultiCVRP.Lemmas
namespace MultiCVRP
open Jm

/-! ### generic list lemmas -/

theorem take_set_succ {α} (l : List α) (k : Nat) (x : α) (h : k < l.length) :
    (l.set k x).take (k + 1) = l.take k ++ [x] := by
  induction l generalizing k with
  | nil => simp at h
  | cons y ys ih =>
    cases k with
    | zero => simp
    | succ k =>
      simp only [List.length_cons] at h
      simp [ih k (by omega)]

theorem finalLoad_append (d0 : List Int) (l : Int) (r : List Nat) (q : Nat) :
    finalLoad d0 l (r ++ [q]) = if q = DEPOT then 0 else finalLoad d0 l r + d0.getD q 0 := by
  induction r generalizing l with
  | nil =>
    simp only [List.nil_append, finalLoad]
  | cons v vs ih => simp only [List.cons_append, finalLoad]; rw [ih]

theorem loadsOK_append (d0 : List Int) (cap l : Int) (r : List Nat) (q : Nat) :
    loadsOK d0 cap l (r ++ [q]) =
      (loadsOK d0 cap l r && decide (finalLoad d0 l (r ++ [q]) ≤ cap)) := by
  induction r generalizing l with
  | nil => simp only [List.nil_append, loadsOK, finalLoad, Bool.and_true, Bool.true_and]
  | cons v vs ih => simp only [List.cons_append, loadsOK, finalLoad]; rw [ih, Bool.and_assoc]

theorem count_zipWith_snoc (j : Nat) (rs : List (List Nat)) (qs : List Nat)
    (h : rs.length = qs.length) :
    ((List.zipWith (fun r q => r ++ [q]) rs qs).map (fun r => r.count j)).sum =
      (rs.map (fun r => r.count j)).sum + qs.count j := by
  induction rs generalizing qs with
  | nil => cases qs <;> simp_all
  | cons r rs ih =>
    cases qs with
    | nil => simp at h
    | cons q qs =>
      simp only [List.length_cons, Nat.add_right_cancel_iff] at h
      simp only [List.zipWith_cons_cons, List.map_cons, List.sum_cons, List.count_append,
        List.count_cons, List.count_nil]
      rw [ih qs h]
      omega

theorem count_le_one (l : List Nat) (j : Nat)
    (h : ∀ u, u < l.length → ∀ v, v < u → l.getD u 0 = j → l.getD v 0 ≠ j) : l.count j ≤ 1 := by
  induction l with
  | nil => simp
  | cons x xs ih =>
    have ih' := ih (fun u hu v hv e => by
      have := h (u + 1) (by simp only [List.length_cons]; omega) (v + 1) (by omega)
        (by simpa using e)
      simpa using this)
    by_cases hx : x = j
    · have h0 : xs.count j = 0 := by
        rw [List.count_eq_zero]
        intro hm
        obtain ⟨i, hi, e⟩ := List.getElem_of_mem hm
        have := h (i + 1) (by simp only [List.length_cons]; omega) 0 (by omega)
          (by simp [List.getD_eq_getElem?_getD, hi, e])
        simp [hx] at this
      simp [hx, h0]
    · simp only [List.count_cons, beq_iff_eq, hx, if_false]
      omega

theorem routes_snoc (order : List (List Nat)) (qs : List Nat) (k : Nat)
    (h : ∀ row ∈ order, k < row.length) :
    (List.zipWith (fun row (q : Nat) => Jx.setWD row (k : Int) q) order qs).map
        (fun row => row.take (k + 1)) =
      List.zipWith (fun r q => r ++ [q]) (order.map (fun row => row.take k)) qs := by
  induction order generalizing qs with
  | nil => simp
  | cons row rows ih =>
    cases qs with
    | nil => simp
    | cons q qs =>
      simp only [List.zipWith_cons_cons, List.map_cons]
      rw [ih qs (fun r hr => h r (List.mem_cons_of_mem _ hr)), setWD_natCast,
        take_set_succ _ _ _ (h row List.mem_cons_self)]

/-! ### the recorded routes after a step -/

theorem routes_update (rnd : Rat → Rat) (c : Cfg) (D : Dist) (s : State) (a : List Nat)
    (hl : a.length = s.capacities.length) (hr : ∀ x ∈ a, x < s.demands.length)
    (hrow : ∀ row ∈ s.order, s.stepCount < row.length) :
    routes (update rnd c D s a) =
      List.zipWith (fun r q => r ++ [q]) (routes s) (dests s a) := by
  rw [← nextNodes_eq_dests s a hl hr]
  exact routes_snoc s.order (nextNodes s a) s.stepCount hrow

theorem zipWith_snoc_getD (rs : List (List Nat)) (qs : List Nat) (v : Nat)
    (h1 : v < rs.length) (h2 : v < qs.length) :
    (List.zipWith (fun r q => r ++ [q]) rs qs).getD v [] = rs.getD v [] ++ [qs.getD v 0] := by
  simp only [List.getD_eq_getElem?_getD, List.getElem?_zipWith, List.getElem?_eq_getElem h1,
    List.getElem?_eq_getElem h2, Option.getD_some]

theorem snoc_getD_last (r : List Nat) (q d : Nat) : (r ++ [q]).getD r.length d = q := by
  simp [List.getD_eq_getElem?_getD]

theorem snoc_getD_first (r : List Nat) (q d : Nat) (h : 0 < r.length) :
    (r ++ [q]).getD 0 d = r.getD 0 d := by
  simp only [List.getD_eq_getElem?_getD]
  rw [List.getElem?_append_left h]

theorem mem_getD_of_mem (l : List Nat) (j : Nat) (h : j ∈ l) : ∃ v, v < l.length ∧ l.getD v 0 = j := by
  obtain ⟨i, hi, e⟩ := List.getElem_of_mem h
  exact ⟨i, hi, by rw [List.getD_eq_getElem?_getD, List.getElem?_eq_getElem hi]; exact e⟩

theorem dests_count_le_one (s : State) (a : List Nat) (j : Nat) (hj : j ≠ DEPOT) :
    (dests s a).count j ≤ 1 := by
  apply count_le_one
  intro u hu v hv e e2
  rw [dests_length] at hu
  have := dests_no_shared_customer s a u v hu hv (by rw [e, e2])
  rw [e] at this
  exact hj this

/-- C06: while the history is recorded, a step keeps the history part of the hard constraints -/
theorem step_historyFeasible (rnd : Rat → Rat) (c : Cfg) (D : Dist) (d0 : List Int) (s : State)
    (a : List Nat) (hm : 0 ≤ c.maxCap) (hl : a.length = s.capacities.length)
    (hr : ∀ x ∈ a, x < s.demands.length) (hb : BasicFeasible c d0 s)
    (hh : HistoryFeasible c d0 s) (hrec : s.stepCount < 2 * c.numCustomers) :
    HistoryFeasible c d0 (update rnd c D s a) := by
  obtain ⟨f1, f2, f3, f4, f5, f6, f7, f8, f9, f10, f11, f12⟩ := hb
  obtain ⟨hroute, hvisit⟩ := hh
  have hn := nextNodes_eq_dests s a hl hr
  have hrow : ∀ row ∈ s.order, s.stepCount < row.length := by
    intro row hrow; rw [f5 row hrow]; exact hrec
  have hru := routes_update rnd c D s a hl hr hrow
  have hrl : (routes s).length = s.capacities.length := by
    unfold routes; rw [List.length_map]; exact f4
  have hcl : (update rnd c D s a).capacities.length = s.capacities.length := by
    show (List.zipWith _ (nextNodes s a) s.capacities).length = _
    rw [hn]; simp [dests_length, hl]
  refine ⟨?_, ?_⟩
  · intro v hv
    rw [hcl] at hv
    have hva : v < a.length := by omega
    rw [hru, zipWith_snoc_getD _ _ v (by omega) (by rw [dests_length]; exact hva)]
    obtain ⟨r1, r2, r3, r4, r5, r6⟩ := hroute v hv
    generalize hrdef : (routes s).getD v [] = r at r1 r2 r3 r4 r5 r6 ⊢
    have hqlt : (dests s a).getD v 0 < s.demands.length := by
      apply dests_lt s a hr
      rw [List.getD_eq_getElem?_getD, List.getElem?_eq_getElem (by rw [dests_length]; exact hva)]
      simp
    have hcap := update_capacities rnd c D s a v hva hl hr
    -- facts about a customer destination
    have hcust : (dests s a).getD v 0 ≠ DEPOT →
        s.demands.getD ((dests s a).getD v 0) 0 = d0.getD ((dests s a).getD v 0) 0 ∧
        s.demands.getD ((dests s a).getD v 0) 0 ≤ s.capacities.getD v 0 := by
      intro hq
      obtain ⟨_, he, hleg⟩ := dests_customer s a v hva hq
      have hne : a.getD v 0 ≠ DEPOT := by rw [← he]; exact hq
      rw [he]
      have h2 := hleg.2.2.resolve_left hne
      rcases f9 (a.getD v 0) hleg.2.1 with h9 | h9
      · exact ⟨h9, h2.2⟩
      · omega
    generalize hqdef : (dests s a).getD v 0 = q at hqlt hcap hcust ⊢
    have hfl : finalLoad d0 0 (r ++ [q]) ≤ c.maxCap ∧
        (update rnd c D s a).capacities.getD v 0 = c.maxCap - finalLoad d0 0 (r ++ [q]) := by
      rw [finalLoad_append, hcap]
      by_cases hq : q = DEPOT
      · rw [if_pos hq, if_pos hq]; omega
      · rw [if_neg hq, if_neg hq]
        have := hcust hq
        omega
    refine ⟨?_, ?_, ?_, ?_, ?_, hfl.2⟩
    · rw [update_stepCount, List.length_append, r1]; rfl
    · rw [snoc_getD_first _ _ _ (by omega)]; exact r2
    · intro x hx
      rw [update_demands_length]
      rcases List.mem_append.1 hx with hx | hx
      · exact r3 x hx
      · rw [List.mem_singleton.1 hx]; exact hqlt
    · rw [update_positions, hn, update_stepCount, hqdef, Nat.add_sub_cancel, ← r1, snoc_getD_last]
    · rw [loadsOK_append, r5, Bool.true_and]
      exact decide_eq_true hfl.1
  · intro j hj hj0
    rw [update_demands_length] at hj
    have hvc : visitCount (update rnd c D s a) j = visitCount s j + (dests s a).count j := by
      unfold visitCount
      rw [hru]
      exact count_zipWith_snoc j _ _ (by rw [hrl, dests_length, hl])
    rw [hvc, update_demands, hn]
    by_cases hmem : j ∈ dests s a
    · rw [if_pos hmem]
      right
      obtain ⟨v, hv, e⟩ := mem_getD_of_mem _ _ hmem
      rw [dests_length] at hv
      have hjne : j ≠ DEPOT := by unfold DEPOT; omega
      obtain ⟨_, he, hleg⟩ := dests_customer s a v hv (by rw [e]; exact hjne)
      rw [e] at he
      rw [← he] at hleg
      have h2 := hleg.2.2.resolve_left hjne
      have hc1 : (dests s a).count j = 1 := by
        have := dests_count_le_one s a j hjne
        have := List.count_pos_iff.2 hmem
        omega
      rcases hvisit j hj hj0 with h | h
      · refine ⟨by omega, rfl, by omega⟩
      · omega
    · rw [if_neg hmem, List.count_eq_zero_of_not_mem hmem, Nat.add_zero]
      exact hvisit j hj hj0

/-- C06: any joint action with in-range choices keeps the hard constraints -/
theorem step_feasible (rnd : Rat → Rat) (c : Cfg) (D : Dist) (d0 : List Int) (s : State) (a : List Nat)
    (hm : 0 ≤ c.maxCap) (hl : a.length = s.capacities.length) (hr : ∀ x ∈ a, x < s.demands.length)
    (hf : Feasible c d0 s) : Feasible c d0 (step rnd c D s a).1 := by
  refine ⟨step_basicFeasible rnd c D d0 s a hm hl hr hf.1, ?_⟩
  rw [step_state]
  intro hrec
  unfold recorded at hrec
  rw [update_stepCount] at hrec
  exact step_historyFeasible rnd c D d0 s a hm hl hr hf.1 (hf.2 (by unfold recorded; omega)) (by omega)

/-! ### complete states are solutions -/

theorem sum_nonneg (l : List Int) (h : ∀ x ∈ l, 0 ≤ x) : 0 ≤ l.sum := by
  induction l with
  | nil => simp
  | cons y ys ih =>
    have hy := h y List.mem_cons_self
    have := ih (fun x hx => h x (List.mem_cons_of_mem _ hx))
    simp only [List.sum_cons]
    omega

theorem all_zero_of_sum_zero (l : List Int) (h : ∀ x ∈ l, 0 ≤ x) (hs : l.sum = 0) :
    ∀ x ∈ l, x = 0 := by
  induction l with
  | nil => simp
  | cons y ys ih =>
    have hy := h y List.mem_cons_self
    have hys : ∀ x ∈ ys, 0 ≤ x := fun x hx => h x (List.mem_cons_of_mem _ hx)
    have hnn := sum_nonneg ys hys
    simp only [List.sum_cons] at hs
    intro x hx
    rcases List.mem_cons.1 hx with hx | hx
    · omega
    · exact ih hys (by omega) x hx

/-- C07: a feasible state in which no demand is left and every vehicle is at the depot (the
termination test of the environment) is a complete solution of the instance -/
theorem complete_is_solution (c : Cfg) (d0 : List Int) (s : State) (hf : Feasible c d0 s)
    (h : allServedAtDepot s = true) : IsSolution c d0 s := by
  obtain ⟨f1, f2, f3, f4, f5, f6, f7, f8, f9, f10, f11, f12⟩ := hf.1
  unfold allServedAtDepot at h
  simp only [Bool.and_eq_true, decide_eq_true_eq, List.all_eq_true, beq_iff_eq] at h
  have hnn : ∀ x ∈ s.demands, 0 ≤ x := by
    intro x hx
    obtain ⟨j, hj, e⟩ := List.getElem_of_mem hx
    have h9 := f9 j hj
    have hd : d0.getD j 0 ∈ d0 := by
      rw [List.getD_eq_getElem?_getD, List.getElem?_eq_getElem (by omega)]; simp
    have := f7 _ hd
    rw [List.getD_eq_getElem?_getD, List.getElem?_eq_getElem hj, Option.getD_some, e] at h9
    omega
  have hz := all_zero_of_sum_zero s.demands hnn h.1
  refine ⟨hf, hz, h.2, ?_⟩
  intro hrec j hj hj0 hd
  have hj' : j < s.demands.length := by omega
  have hzj : s.demands.getD j 0 = 0 := by
    rw [List.getD_eq_getElem?_getD, List.getElem?_eq_getElem hj', Option.getD_some]
    exact hz _ (List.getElem_mem hj')
  rcases (hf.2 hrec).2 j hj' hj0 with hv | hv
  · omega
  · exact hv.1

end MultiCVRP
