/-
MultiCVRP, C08 / C12 proof completion.

* `AccInv`: in exact arithmetic the accumulators of the state are the quantities recomputed from the recorded
  routes — `distances[v] = local_times[v] = pathLen (route v)`, `time_penalties[v] = routePenalty (route v)`,
  `positions[v]` = last node of `route v` — established by `reset`, preserved by every in-spec step taken while the
  history is recorded (`stepCount < 2·num_customers`), and implying `accumulated s = objective D s`.
* whole episodes: `retOf` (sum of the rewards along a list of joint actions), `Episode` (in-spec joint actions,
  the last step and only the last step is LAST); dense return = sparse return = objective of the final state for
  every episode from a reset state that ends before the step limit.
* `reset_obs_faithful` (C12).
-/
import JumanjiModel.Env.MultiCVRP.History
namespace MultiCVRP
open Jm

/-! ### C12: the observation of `reset` -/

theorem getWC_zero_eq_getD {α} (xs : List α) (d : α) : Jx.getWC xs d ((0 : Nat) : Int) = xs.getD 0 d := by
  cases xs with
  | nil => simp [Jx.getWC]
  | cons x xs => exact Jx.getWC_nat (x :: xs) d (by simp)

/-- C12: the observation returned by `reset` is the documented function of the reset state -/
theorem reset_obs_faithful (c : Cfg) (nV : Nat) (demandMax : Int) (windowLen : Rat) (d : Draw) :
    (reset c nV demandMax windowLen d).2.obs = observe (reset c nV demandMax windowLen d).1 := by
  show stateToObs (generate c nV demandMax windowLen d) = observe (generate c nV demandMax windowLen d)
  unfold stateToObs observe
  have hm : (generate c nV demandMax windowLen d).mask =
      createActionMask (generate c nV demandMax windowLen d).demands
        (generate c nV demandMax windowLen d).capacities := rfl
  rw [hm, createActionMask_eq_table]
  congr 1
  apply List.map_congr_left
  intro p hp
  have hp' : p ∈ List.replicate nV DEPOT := hp
  rw [List.eq_of_mem_replicate hp']
  exact getWC_zero_eq_getD _ _

/-! ### list helpers -/

theorem getD_zipWith {α β γ} (f : α → β → γ) (l1 : List α) (l2 : List β) (v : Nat) (d : γ) (d1 : α) (d2 : β)
    (h1 : v < l1.length) (h2 : v < l2.length) :
    (List.zipWith f l1 l2).getD v d = f (l1.getD v d1) (l2.getD v d2) := by
  simp only [List.getD_eq_getElem?_getD, List.getElem?_zipWith, List.getElem?_eq_getElem h1,
    List.getElem?_eq_getElem h2, Option.getD_some]

theorem ext_getD {α} (l1 l2 : List α) (d : α) (hl : l1.length = l2.length)
    (h : ∀ v, v < l1.length → l1.getD v d = l2.getD v d) : l1 = l2 := by
  apply List.ext_getElem hl
  intro v h1 h2
  have := h v h1
  rwa [List.getD_eq_getElem?_getD, List.getD_eq_getElem?_getD, List.getElem?_eq_getElem h1,
    List.getElem?_eq_getElem h2] at this

theorem getD_map_lt {α β} (f : α → β) (l : List α) (v : Nat) (d : β) (d' : α) (h : v < l.length) :
    (l.map f).getD v d = f (l.getD v d') := by
  simp [List.getD_eq_getElem?_getD, h]

theorem sum_map_add {α} (l : List α) (f g : α → Rat) :
    (l.map (fun x => f x + g x)).sum = (l.map f).sum + (l.map g).sum := by
  induction l with
  | nil => simp [Rat.add_zero]
  | cons x xs ih => simp only [List.map_cons, List.sum_cons, ih]; grind

/-! ### appending a node to a route -/

theorem pathLen_snoc (D : Dist) (r : List Nat) (q : Nat) (h : r ≠ []) :
    pathLen D (r ++ [q]) = pathLen D r + dist D (r.getD (r.length - 1) 0) q := by
  induction r with
  | nil => exact absurd rfl h
  | cons u vs ih =>
    cases vs with
    | nil => simp [pathLen, Rat.add_zero, Rat.zero_add]
    | cons v vs =>
      have := ih (by simp)
      simp only [List.cons_append, pathLen] at this ⊢
      rw [this, Rat.add_assoc]
      congr 2

theorem routePenalty_snoc (D : Dist) (s : State) (t : Rat) (r : List Nat) (q : Nat) (h : r ≠ []) :
    routePenalty D s t (r ++ [q]) =
      routePenalty D s t r +
        timePenalty id (t + pathLen D (r ++ [q])) (s.winStart.getD q 0) (s.winEnd.getD q 0)
          (s.coefEarly.getD q 0) (s.coefLate.getD q 0) := by
  induction r generalizing t with
  | nil => exact absurd rfl h
  | cons u vs ih =>
    cases vs with
    | nil => simp [pathLen, routePenalty, Rat.add_zero, Rat.zero_add]
    | cons v vs =>
      have := ih (t + dist D u v) (by simp)
      simp only [List.cons_append, pathLen, routePenalty] at this ⊢
      rw [this, Rat.add_assoc, Rat.add_assoc]

/-- the time penalties along a route only depend on the problem data -/
theorem routePenalty_congr (D : Dist) (s s' : State) (h1 : s'.winStart = s.winStart) (h2 : s'.winEnd = s.winEnd)
    (h3 : s'.coefEarly = s.coefEarly) (h4 : s'.coefLate = s.coefLate) (t : Rat) (r : List Nat) :
    routePenalty D s' t r = routePenalty D s t r := by
  induction r generalizing t with
  | nil => rfl
  | cons u vs ih =>
    cases vs with
    | nil => rfl
    | cons v vs =>
      simp only [routePenalty]
      rw [ih, h1, h2, h3, h4]

/-! ### the invariant -/

/-- exact arithmetic: the accumulators of the state are the quantities recomputed from the recorded routes -/
structure AccInv (c : Cfg) (D : Dist) (s : State) : Prop where
  nOrder : s.order.length = s.capacities.length
  nPos : s.positions.length = s.capacities.length
  nDist : s.distances.length = s.capacities.length
  nTimes : s.localTimes.length = s.capacities.length
  nPens : s.timePenalties.length = s.capacities.length
  rows : ∀ row ∈ s.order, row.length = 2 * c.numCustomers
  started : 1 ≤ s.stepCount
  recd : s.stepCount ≤ 2 * c.numCustomers
  wStart : s.winStart.length = s.demands.length
  wEnd : s.winEnd.length = s.demands.length
  cEarly : s.coefEarly.length = s.demands.length
  cLate : s.coefLate.length = s.demands.length
  pos : ∀ v, v < s.capacities.length →
    s.positions.getD v 0 = ((routes s).getD v []).getD (s.stepCount - 1) 0
  dist : ∀ v, v < s.capacities.length → s.distances.getD v 0 = pathLen D ((routes s).getD v [])
  times : ∀ v, v < s.capacities.length → s.localTimes.getD v 0 = pathLen D ((routes s).getD v [])
  pens : ∀ v, v < s.capacities.length →
    s.timePenalties.getD v 0 = routePenalty D s 0 ((routes s).getD v [])

theorem route_length {c : Cfg} {D : Dist} {s : State} (h : AccInv c D s) {v : Nat} (hv : v < s.capacities.length) :
    ((routes s).getD v []).length = s.stepCount := by
  unfold routes
  rw [getD_map_lt _ _ _ _ [] (by rw [h.nOrder]; exact hv), List.length_take]
  have := h.rows (s.order.getD v []) (by
    rw [List.getD_eq_getElem?_getD, List.getElem?_eq_getElem (by rw [h.nOrder]; exact hv)]; simp)
  have := h.recd
  omega

theorem routes_length {c : Cfg} {D : Dist} {s : State} (h : AccInv c D s) :
    (routes s).length = s.capacities.length := by
  unfold routes; rw [List.length_map]; exact h.nOrder

/-- the invariant gives the equalities of C08: the driven distance of every vehicle is the length of its recorded
route, and the accumulated objective is the objective recomputed from the routes -/
theorem accInv_distances {c : Cfg} {D : Dist} {s : State} (h : AccInv c D s) :
    s.distances = (routes s).map (pathLen D) := by
  apply ext_getD _ _ 0 (by rw [List.length_map, routes_length h, h.nDist])
  intro v hv
  rw [h.nDist] at hv
  rw [h.dist v hv, getD_map_lt _ _ _ _ [] (by rw [routes_length h]; exact hv)]

theorem accInv_penalties {c : Cfg} {D : Dist} {s : State} (h : AccInv c D s) :
    s.timePenalties = (routes s).map (routePenalty D s 0) := by
  apply ext_getD _ _ 0 (by rw [List.length_map, routes_length h, h.nPens])
  intro v hv
  rw [h.nPens] at hv
  rw [h.pens v hv, getD_map_lt _ _ _ _ [] (by rw [routes_length h]; exact hv)]

theorem accInv_objective {c : Cfg} {D : Dist} {s : State} (h : AccInv c D s) :
    accumulated s = objective D s := by
  unfold accumulated objective
  rw [sum_map_add, ← accInv_distances h, ← accInv_penalties h]

/-! ### reset establishes the invariant -/

theorem generate_routes (c : Cfg) (nV : Nat) (demandMax : Int) (windowLen : Rat) (d : Draw)
    (h2n : 1 ≤ 2 * c.numCustomers) :
    routes (generate c nV demandMax windowLen d) = List.replicate nV [0] := by
  unfold routes
  show (List.replicate nV (List.replicate (2 * c.numCustomers) 0)).map (fun row => row.take 1) = _
  rw [List.map_replicate]
  congr 1
  obtain ⟨k, hk⟩ : ∃ k, 2 * c.numCustomers = k + 1 := ⟨2 * c.numCustomers - 1, by omega⟩
  rw [hk, List.replicate_succ]; simp

/-- `reset` establishes the invariant (for every draw whose window / coefficient arrays have one entry per node) -/
theorem generate_accInv (c : Cfg) (D : Dist) (nV : Nat) (demandMax : Int) (windowLen : Rat) (d : Draw)
    (hn : 1 ≤ c.numCustomers) (hw : d.winStart.length = d.scaled.length)
    (he : d.coefEarly.length = d.scaled.length) (hl : d.coefLate.length = d.scaled.length) :
    AccInv c D (generate c nV demandMax windowLen d) := by
  have hr := generate_routes c nV demandMax windowLen d (by omega)
  have hcap : (generate c nV demandMax windowLen d).capacities = List.replicate nV c.maxCap := rfl
  have hdl : (generate c nV demandMax windowLen d).demands.length = d.scaled.length := by
    show (d.scaled.map _).length = _
    simp
  refine
    { nOrder := by simp [generate], nPos := by simp [generate], nDist := by simp [generate],
      nTimes := by simp [generate], nPens := by simp [generate],
      rows := ?_, started := by show 1 ≤ 1; omega, recd := by show 1 ≤ _; omega,
      wStart := by rw [hdl]; exact hw,
      wEnd := by rw [hdl]; show (d.winStart.map _).length = _; simp [hw],
      cEarly := by rw [hdl]; show (Jx.setWD d.coefEarly (DEPOT : Int) 0).length = _; rw [Jx.setWD_length]; exact he,
      cLate := by rw [hdl]; show (Jx.setWD d.coefLate (DEPOT : Int) 0).length = _; rw [Jx.setWD_length]; exact hl,
      pos := ?_, dist := ?_, times := ?_, pens := ?_ }
  · intro row hrow
    have hrow' : row ∈ List.replicate nV (List.replicate (2 * c.numCustomers) 0) := hrow
    rw [List.eq_of_mem_replicate hrow']; simp
  all_goals
    intro v hv
    rw [hcap, List.length_replicate] at hv
    rw [hr, getD_replicate' nV v [0] [] hv]
  · show (List.replicate nV DEPOT).getD v 0 = _
    rw [getD_replicate' nV v DEPOT 0 hv]; rfl
  · show (List.replicate nV (0 : Rat)).getD v 0 = _
    rw [getD_replicate' nV v (0 : Rat) 0 hv]; rfl
  · show (List.replicate nV (0 : Rat)).getD v 0 = _
    rw [getD_replicate' nV v (0 : Rat) 0 hv]; rfl
  · show (List.replicate nV (0 : Rat)).getD v 0 = _
    rw [getD_replicate' nV v (0 : Rat) 0 hv]; rfl

theorem generate_accumulated (c : Cfg) (nV : Nat) (demandMax : Int) (windowLen : Rat) (d : Draw) :
    accumulated (generate c nV demandMax windowLen d) = 0 := by
  show -((List.replicate nV (0 : Rat)).sum + (List.replicate nV (0 : Rat)).sum) = 0
  have : (List.replicate nV (0 : Rat)).sum = 0 := by
    induction nV with
    | zero => rfl
    | succ n ih => simp [List.replicate_succ, ih, Rat.add_zero]
  rw [this]; grind

/-! ### every in-spec step preserves the invariant while the history is recorded -/

theorem update_accInv (c : Cfg) (D : Dist) (s : State) (a : List Nat) (h : AccInv c D s)
    (hl : a.length = s.capacities.length) (hr : ∀ x ∈ a, x < s.demands.length)
    (hrec : s.stepCount < 2 * c.numCustomers) : AccInv c D (update id c D s a) := by
  have hn := nextNodes_eq_dests s a hl hr
  have hnl : (nextNodes s a).length = s.capacities.length := by rw [hn, dests_length, hl]
  have hrow : ∀ row ∈ s.order, s.stepCount < row.length := by
    intro row hrow; rw [h.rows row hrow]; exact hrec
  have hru := routes_update id c D s a hl hr hrow
  have hcl : (update id c D s a).capacities.length = s.capacities.length := by
    show (List.zipWith _ (nextNodes s a) s.capacities).length = _
    rw [List.length_zipWith, hnl]; omega
  have hrl := routes_length h
  -- per vehicle facts
  have key : ∀ v, v < s.capacities.length →
      ∃ r q, (routes s).getD v [] = r ∧ (nextNodes s a).getD v 0 = q ∧ r ≠ [] ∧ r.length = s.stepCount ∧
        q < s.demands.length ∧ (routes (update id c D s a)).getD v [] = r ++ [q] := by
    intro v hv
    refine ⟨_, _, rfl, rfl, ?_, route_length h hv, ?_, ?_⟩
    · intro he
      have h1 := route_length h hv
      rw [he] at h1
      have h2 := h.started
      simp at h1; omega
    · rw [hn]
      apply dests_lt s a hr
      rw [List.getD_eq_getElem?_getD, List.getElem?_eq_getElem (by rw [dests_length, hl]; exact hv)]
      simp
    · rw [hru, zipWith_snoc_getD _ _ v (by omega) (by rw [dests_length, hl]; exact hv), hn]
  have htravel : ∀ v, v < s.capacities.length →
      (List.zipWith (fun p q => MultiCVRP.dist D p q) s.positions (nextNodes s a)).getD v 0 =
        MultiCVRP.dist D (s.positions.getD v 0) ((nextNodes s a).getD v 0) := by
    intro v hv
    exact getD_zipWith _ _ _ v 0 0 0 (by rw [h.nPos]; exact hv) (by rw [hnl]; exact hv)
  have htl : (List.zipWith (fun p q => MultiCVRP.dist D p q) s.positions (nextNodes s a)).length =
      s.capacities.length := by rw [List.length_zipWith, h.nPos, hnl]; omega
  have hdist' : ∀ v, v < s.capacities.length →
      (update id c D s a).distances.getD v 0 =
        s.distances.getD v 0 + MultiCVRP.dist D (s.positions.getD v 0) ((nextNodes s a).getD v 0) := by
    intro v hv
    show (List.zipWith (fun d t => id (d + t)) s.distances _).getD v 0 = _
    rw [getD_zipWith _ _ _ v 0 0 0 (by rw [h.nDist]; exact hv) (by rw [htl]; exact hv), htravel v hv]; rfl
  have htimes' : ∀ v, v < s.capacities.length →
      (update id c D s a).localTimes.getD v 0 =
        s.localTimes.getD v 0 + MultiCVRP.dist D (s.positions.getD v 0) ((nextNodes s a).getD v 0) := by
    intro v hv
    show (List.zipWith (fun l t => id (l + t)) s.localTimes _).getD v 0 = _
    rw [getD_zipWith _ _ _ v 0 0 0 (by rw [h.nTimes]; exact hv) (by rw [htl]; exact hv), htravel v hv]; rfl
  have hltl : (update id c D s a).localTimes.length = s.capacities.length := by
    show (List.zipWith (fun l t => id (l + t)) s.localTimes _).length = _
    rw [List.length_zipWith, h.nTimes, htl]; omega
  have hpath : ∀ v, v < s.capacities.length → ∀ r q, (routes s).getD v [] = r → (nextNodes s a).getD v 0 = q →
      r ≠ [] → r.length = s.stepCount →
      pathLen D (r ++ [q]) = pathLen D r + MultiCVRP.dist D (s.positions.getD v 0) q := by
    intro v hv r q e1 e2 hne hlen
    rw [pathLen_snoc D r q hne, h.pos v hv, e1, hlen]
  refine
    { nOrder := ?_, nPos := by rw [hcl]; exact hnl, nDist := ?_, nTimes := by rw [hcl]; exact hltl, nPens := ?_,
      rows := ?_, started := by rw [update_stepCount]; omega, recd := by rw [update_stepCount]; omega,
      wStart := by rw [update_demands_length]; exact h.wStart,
      wEnd := by rw [update_demands_length]; exact h.wEnd,
      cEarly := by rw [update_demands_length]; exact h.cEarly,
      cLate := by rw [update_demands_length]; exact h.cLate,
      pos := ?_, dist := ?_, times := ?_, pens := ?_ }
  · rw [hcl]
    show (List.zipWith _ s.order (nextNodes s a)).length = _
    rw [List.length_zipWith, h.nOrder, hnl]; omega
  · rw [hcl]
    show (List.zipWith (fun d t => id (d + t)) s.distances _).length = _
    rw [List.length_zipWith, h.nDist, htl]; omega
  · rw [hcl]
    show (List.zipWith _ s.timePenalties (List.zipWith _ (update id c D s a).localTimes (nextNodes s a))).length = _
    rw [List.length_zipWith, List.length_zipWith, h.nPens, hltl, hnl]; omega
  · intro row hrow
    have hrow' : row ∈ List.zipWith (fun row (q : Nat) => Jx.setWD row (s.stepCount : Int) q) s.order (nextNodes s a) :=
      hrow
    obtain ⟨i, hi, rfl⟩ := List.getElem_of_mem hrow'
    rw [List.getElem_zipWith, Jx.setWD_length]
    exact h.rows _ (List.getElem_mem _)
  · intro v hv
    rw [hcl] at hv
    obtain ⟨r, q, e1, e2, hne, hlen, hq, e3⟩ := key v hv
    rw [e3, update_positions, e2, update_stepCount, Nat.add_sub_cancel, ← hlen, snoc_getD_last]
  · intro v hv
    rw [hcl] at hv
    obtain ⟨r, q, e1, e2, hne, hlen, hq, e3⟩ := key v hv
    rw [e3, hdist' v hv, e2, hpath v hv r q e1 e2 hne hlen, h.dist v hv, e1]
  · intro v hv
    rw [hcl] at hv
    obtain ⟨r, q, e1, e2, hne, hlen, hq, e3⟩ := key v hv
    rw [e3, htimes' v hv, e2, hpath v hv r q e1 e2 hne hlen, h.times v hv, e1]
  · intro v hv
    rw [hcl] at hv
    obtain ⟨r, q, e1, e2, hne, hlen, hq, e3⟩ := key v hv
    rw [e3, routePenalty_congr D s (update id c D s a) rfl rfl rfl rfl, routePenalty_snoc D s 0 r q hne]
    show (List.zipWith (fun p x => id (p + x)) s.timePenalties
      (List.zipWith _ (update id c D s a).localTimes (nextNodes s a))).getD v 0 = _
    rw [getD_zipWith _ _ _ v 0 0 0 (by rw [h.nPens]; exact hv)
        (by rw [List.length_zipWith, hltl, hnl]; omega),
      getD_zipWith _ _ _ v 0 0 0 (by rw [hltl]; exact hv) (by rw [hnl]; exact hv),
      htimes' v hv, e2, h.pens v hv, e1, h.times v hv, e1, ← hpath v hv r q e1 e2 hne hlen,
      Jx.getWC_nat _ _ (by rw [h.wStart]; exact hq), Jx.getWC_nat _ _ (by rw [h.wEnd]; exact hq),
      Jx.getWC_nat _ _ (by rw [h.cEarly]; exact hq), Jx.getWC_nat _ _ (by rw [h.cLate]; exact hq),
      Rat.zero_add]
    rfl

/-! ### whole episodes -/

/-- the joint action has one entry per vehicle, each a node index (the documented action range) -/
def InSpec (s : State) (a : List Nat) : Prop := a.length = s.capacities.length ∧ ∀ x ∈ a, x < s.demands.length

instance (s : State) (a : List Nat) : Decidable (InSpec s a) := by unfold InSpec; infer_instance

/-- the state after playing the joint actions `as` from `s` (exact arithmetic) -/
def finalState (c : Cfg) (D : Dist) : State → List (List Nat) → State
  | s, [] => s
  | s, a :: as => finalState c D (step id c D s a).1 as

/-- the return: sum of all rewards along `as` (exact arithmetic) -/
def retOf (c : Cfg) (D : Dist) : State → List (List Nat) → Rat
  | _, [] => 0
  | s, a :: as => (step id c D s a).2.reward.sum + retOf c D (step id c D s a).1 as

/-- `as` is a complete episode from `s`: at least one step, every joint action is in-spec, the last step is
LAST and no earlier one is -/
def Episode (c : Cfg) (D : Dist) : State → List (List Nat) → Prop
  | _, [] => False
  | s, a :: as =>
    InSpec s a ∧
    ((as = [] ∧ (step id c D s a).2.stepType = .last) ∨
     (as ≠ [] ∧ (step id c D s a).2.stepType ≠ .last ∧ Episode c D (step id c D s a).1 as))

instance decEpisode (c : Cfg) (D : Dist) : (s : State) → (as : List (List Nat)) → Decidable (Episode c D s as)
  | _, [] => isFalse (fun h => h)
  | s, a :: as =>
    have := decEpisode c D (step id c D s a).1 as
    by unfold Episode; infer_instance

/-- the state evolution does not depend on the reward function -/
theorem step_state_dense (c : Cfg) (b : Bool) (D : Dist) (s : State) (a : List Nat) :
    (step id { c with dense := b } D s a).1 = (step id c D s a).1 := rfl

theorem step_type_dense (c : Cfg) (b : Bool) (D : Dist) (s : State) (a : List Nat) :
    (step id { c with dense := b } D s a).2.stepType = (step id c D s a).2.stepType := by
  have h1 := step_last_iff id { c with dense := b } D s a
  have h2 := step_last_iff id c D s a
  have e : isDone { c with dense := b } (update id { c with dense := b } D s a) = isDone c (update id c D s a) := rfl
  rw [e] at h1
  have hne : ∀ (c' : Cfg), (step id c' D s a).2.stepType ≠ .first := by
    intro c'
    unfold step condLast termination transition; simp only []; split <;> simp
  have n1 := hne { c with dense := b }
  have n2 := hne c
  cases h : (step id c D s a).2.stepType <;> cases h' : (step id { c with dense := b } D s a).2.stepType <;>
    simp_all

theorem finalState_dense (c : Cfg) (b : Bool) (D : Dist) (s : State) (as : List (List Nat)) :
    finalState { c with dense := b } D s as = finalState c D s as := by
  induction as generalizing s with
  | nil => rfl
  | cons a as ih => simp only [finalState]; rw [step_state_dense, ih]

theorem episode_dense (c : Cfg) (b : Bool) (D : Dist) (s : State) (as : List (List Nat)) :
    Episode { c with dense := b } D s as ↔ Episode c D s as := by
  induction as generalizing s with
  | nil => simp [Episode]
  | cons a as ih => simp only [Episode]; rw [step_type_dense, step_state_dense, ih]

theorem finalState_stepCount (c : Cfg) (D : Dist) (s : State) (as : List (List Nat)) :
    (finalState c D s as).stepCount = s.stepCount + as.length := by
  induction as generalizing s with
  | nil => rfl
  | cons a as ih =>
    simp only [finalState, List.length_cons]
    rw [ih, step_state, update_stepCount]; omega

/-- the invariant holds at the end of every in-spec run that stays within the recorded history -/
theorem finalState_accInv (c : Cfg) (D : Dist) (s : State) (as : List (List Nat)) (h : AccInv c D s)
    (he : Episode c D s as) (hlim : s.stepCount + as.length ≤ 2 * c.numCustomers) :
    AccInv c D (finalState c D s as) := by
  induction as generalizing s with
  | nil => exact h
  | cons a as ih =>
    simp only [Episode] at he
    simp only [List.length_cons] at hlim
    simp only [finalState]
    have h' : AccInv c D (step id c D s a).1 := by
      rw [step_state]; exact update_accInv c D s a h he.1.1 he.1.2 (by omega)
    rcases he.2 with ⟨rfl, _⟩ | ⟨_, _, he'⟩
    · exact h'
    · exact ih _ h' he' (by rw [step_state, update_stepCount]; omega)

/-- dense return of an episode that ends before the step limit: the change of the accumulated objective -/
theorem dense_return (c : Cfg) (D : Dist) (s : State) (as : List (List Nat)) (hd : c.dense = true)
    (hlim : s.stepCount + as.length ≤ 2 * c.numCustomers) :
    retOf c D s as = accumulated (finalState c D s as) - accumulated s := by
  induction as generalizing s with
  | nil => simp only [retOf, finalState]; grind
  | cons a as ih =>
    simp only [List.length_cons] at hlim
    simp only [retOf, finalState]
    have ht : timedOut c (step id c D s a).1 = false := by
      unfold timedOut; rw [step_state, update_stepCount]; simp; omega
    rw [dense_telescopes c D s a hd ht, ih _ (by rw [step_state, update_stepCount]; omega)]
    simp only [List.sum_cons, List.sum_nil]
    grind

/-- sparse return of a complete episode that ends before the step limit: the accumulated objective of the final
state -/
theorem sparse_return (c : Cfg) (D : Dist) (s : State) (as : List (List Nat)) (hd : c.dense = false)
    (he : Episode c D s as) (hlim : s.stepCount + as.length ≤ 2 * c.numCustomers) :
    retOf c D s as = accumulated (finalState c D s as) := by
  induction as generalizing s with
  | nil => exact absurd he (by simp [Episode])
  | cons a as ih =>
    simp only [Episode] at he
    simp only [List.length_cons] at hlim
    simp only [retOf, finalState]
    rw [sparse_reward c D s a hd]
    rcases he.2 with ⟨rfl, hlast⟩ | ⟨_, hnl, he'⟩
    · have ht : timedOut c (step id c D s a).1 = false := by
        unfold timedOut; rw [step_state, update_stepCount]; simp; omega
      rw [if_pos hlast, ht]
      simp [retOf, finalState, Rat.add_zero]
    · rw [if_neg hnl, ih _ he' (by rw [step_state, update_stepCount]; omega)]
      simp [Rat.zero_add]

/-- C08, whole episode: a complete in-spec episode from a reset state that ends before the step limit has
dense return = sparse return = the objective recomputed from the routes recorded in the final state -/
theorem episode_return (c : Cfg) (D : Dist) (nV : Nat) (demandMax : Int) (windowLen : Rat) (d : Draw)
    (as : List (List Nat)) (hn : 1 ≤ c.numCustomers) (hw : d.winStart.length = d.scaled.length)
    (hce : d.coefEarly.length = d.scaled.length) (hcl : d.coefLate.length = d.scaled.length)
    (he : Episode c D (reset c nV demandMax windowLen d).1 as)
    (ht : timedOut c (finalState c D (reset c nV demandMax windowLen d).1 as) = false) :
    retOf { c with dense := true } D (reset c nV demandMax windowLen d).1 as =
      objective D (finalState c D (reset c nV demandMax windowLen d).1 as) ∧
    retOf { c with dense := false } D (reset c nV demandMax windowLen d).1 as =
      objective D (finalState c D (reset c nV demandMax windowLen d).1 as) := by
  have hs0 : (reset c nV demandMax windowLen d).1 = generate c nV demandMax windowLen d := rfl
  rw [hs0] at he ht ⊢
  have hinv := generate_accInv c D nV demandMax windowLen d hn hw hce hcl
  have hlim : (generate c nV demandMax windowLen d).stepCount + as.length ≤ 2 * c.numCustomers := by
    unfold timedOut at ht
    rw [finalState_stepCount] at ht
    simp at ht; omega
  have hfin := finalState_accInv c D _ as hinv he hlim
  rw [← accInv_objective hfin]
  constructor
  · rw [dense_return { c with dense := true } D _ as rfl hlim, finalState_dense, generate_accumulated]
    grind
  · rw [sparse_return { c with dense := false } D _ as rfl ((episode_dense c false D _ as).2 he) hlim,
      finalState_dense]

end MultiCVRP
