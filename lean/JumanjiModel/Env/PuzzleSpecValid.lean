/-
C01 (audit r3, entry 9): membership of a model observation in the environment's declared `observation_spec`,
stated with the spec algebra of `Spec/Spec.lean` (`Sp.Leaf.valid` = the transliteration of `validate`: shape, dtype,
number of elements and the broadcast bounds).  Small vocabulary shared by RubiksCube and SlidingTilePuzzle.

* `valid_scalar_bounded`: a `BoundedArray(shape, dtype, minimum = lo, maximum = hi)` with SCALAR bounds accepts every
  array of that shape and dtype whose elements all lie in `[lo, hi]` (all shapes; the broadcast of the bounds is
  computed, not assumed);
* `valid_array`: an unbounded `Array(shape, dtype)` accepts every array of that shape and dtype;
* casts of integer / boolean model values to the rationals the spec algebra speaks about.
-/
import JumanjiModel.Spec.Lemmas
import JumanjiModel.Core.TimeStep
import JumanjiModel.Gen.Specs
namespace PzS
open Sp

def ofInts (l : List Int) : List Rat := l.map (fun (v : Int) => (v : Rat))
def ofBools (l : List Bool) : List Rat := l.map (fun b => if b then (1 : Rat) else 0)

theorem broadcast_scalar (x : Rat) (s : List Nat) :
    broadcastTo [] [x] s = some (List.replicate (prod s) x) := by
  unfold broadcastTo
  have hb : broadcastable [] s = true := by simp [broadcastable]
  rw [if_pos hb]
  congr 1
  apply List.ext_getElem (by simp)
  intro i h1 h2
  simp [ravel]

/-- `BoundedArray` with scalar bounds: shape, dtype, element count and `lo ≤ x ≤ hi` for every element -/
theorem valid_scalar_bounded (s : List Nat) (d : DType) (n : String) (lo hi : Rat) (data : List Rat)
    (hlen : data.length = prod s) (h : ∀ x ∈ data, lo ≤ x ∧ x ≤ hi) :
    (Leaf.bounded s d n [] [lo] [] [hi]).valid ⟨s, d, data⟩ = true := by
  rw [Leaf.valid_iff]
  refine ⟨rfl, rfl, hlen, Or.inr ⟨List.replicate (prod s) lo, List.replicate (prod s) hi, ?_, ?_, ?_⟩⟩
  · simp [Leaf.lower, broadcast_scalar]
  · simp [Leaf.upper, broadcast_scalar]
  · intro k h1 h2
    have hm := h data[k] (List.getElem_mem h1)
    simpa using hm

/-- the converse: what `validate` of such a spec accepts -/
theorem valid_scalar_bounded_iff (s : List Nat) (d : DType) (n : String) (lo hi : Rat) (v : Arr) :
    (Leaf.bounded s d n [] [lo] [] [hi]).valid v = true ↔
      v.shape = s ∧ v.dtype = d ∧ v.data.length = prod s ∧ ∀ x ∈ v.data, lo ≤ x ∧ x ≤ hi := by
  constructor
  · intro hv
    rw [Leaf.valid_iff] at hv
    obtain ⟨h1, h2, h3, h4⟩ := hv
    refine ⟨h1, h2, h3, ?_⟩
    rcases h4 with ⟨h, _⟩ | ⟨lo', hi', hl, hu, hall⟩
    · simp [Leaf.lower, broadcast_scalar] at h
    · simp only [Leaf.lower, Leaf.upper, broadcast_scalar, Option.some.injEq] at hl hu
      subst hl; subst hu
      intro x hx
      obtain ⟨k, hk, rfl⟩ := List.getElem_of_mem hx
      have := hall k hk (by simp [Leaf.shape] at h3; simp; omega)
      simpa using this
  · rintro ⟨h1, h2, h3, h4⟩
    obtain ⟨sh, dt, data⟩ := v
    simp only at h1 h2 h3 h4
    subst h1; subst h2
    exact valid_scalar_bounded _ _ _ _ _ _ h3 h4

/-- unbounded `Array`: shape, dtype and element count -/
theorem valid_array (s : List Nat) (d : DType) (n : String) (data : List Rat) (hlen : data.length = prod s) :
    (Leaf.array s d n).valid ⟨s, d, data⟩ = true := by
  rw [Leaf.valid_iff]
  exact ⟨rfl, rfl, hlen, Or.inl ⟨rfl, rfl⟩⟩

theorem ofInts_bounds (l : List Int) (lo hi : Int) (h : ∀ v ∈ l, lo ≤ v ∧ v ≤ hi) :
    ∀ x ∈ ofInts l, (lo : Rat) ≤ x ∧ x ≤ (hi : Rat) := by
  intro x hx
  simp only [ofInts, List.mem_map] at hx
  obtain ⟨v, hv, rfl⟩ := hx
  have := h v hv
  exact ⟨Rat.intCast_le_intCast.mpr this.1, Rat.intCast_le_intCast.mpr this.2⟩

theorem ofBools_bounds (l : List Bool) : ∀ x ∈ ofBools l, (0 : Rat) ≤ x ∧ x ≤ 1 := by
  intro x hx
  simp only [ofBools, List.mem_map] at hx
  obtain ⟨b, _, rfl⟩ := hx
  cases b <;> simp <;> decide

theorem length_flatten_const {β : Type} (l : List (List β)) (m : Nat) (h : ∀ r ∈ l, r.length = m) :
    l.flatten.length = l.length * m := by
  induction l with
  | nil => simp
  | cons a t ih =>
    simp only [List.flatten_cons, List.length_append, List.length_cons]
    rw [ih (fun r hr => h r (by simp [hr])), h a (by simp), Nat.succ_mul]; omega

theorem prod_one (a : Nat) : prod [a] = a := by simp [prod]
theorem prod_two (a b : Nat) : prod [a, b] = a * b := by simp [prod]
theorem prod_three (a b c : Nat) : prod [a, b, c] = a * b * c := by simp [prod]
theorem prod_nil : prod [] = 1 := rfl

/-! ### reward and discount leaves (the same two declarations in both environments) -/

/-- `reward_spec`: `Array(shape=(), dtype=float)` -/
def rewardSpec : Leaf := .array [] .float32 "reward"
/-- `discount_spec`: `BoundedArray(shape=(), dtype=float, minimum=0, maximum=1)` -/
def discountSpec : Leaf := .bounded [] .float32 "discount" [] [0] [] [1]

/-- a scalar reward / discount of the model as an array value -/
def scalarArr (r : List Rat) : Arr := ⟨[], .float32, r⟩

open Jm in
/-- a protocol-conform scalar timestep has a reward accepted by `reward_spec` and a discount accepted by `discount_spec` -/
theorem stepOK_reward_discount_valid {O : Type} (truncOK : Bool) (ts : TimeStep O) (h : StepOK none truncOK ts = true) :
    rewardSpec.valid (scalarArr ts.reward) = true ∧ discountSpec.valid (scalarArr ts.discount) = true := by
  simp only [StepOK, Bool.and_eq_true, beq_iff_eq, RShape.size] at h
  obtain ⟨⟨⟨⟨⟨_, hr⟩, hd⟩, h01⟩, _⟩, _⟩ := h
  refine ⟨valid_array _ _ _ _ (by simpa [prod] using hr), valid_scalar_bounded _ _ _ _ _ _ (by simpa [prod] using hd) ?_⟩
  intro x hx
  simp only [allIn01, List.all_eq_true, Bool.and_eq_true, decide_eq_true_eq] at h01
  exact h01 x hx

/-! ### the GENERATED table of declared specs (Gen/Specs.lean, written by harness/translators.py from the real spec objects) -/

/-- the leaves which the catalogue configuration `cid` declares under the paths starting with `pre`, with their full paths -/
def declared (cid pre : String) : List (String × Leaf) :=
  (Gen.Specs.parts.flatten.filter (fun e => e.1 == cid && pre.toList.isPrefixOf e.2.1.toList)).map (fun e => (e.2.1, e.2.2))

/-- a model spec with its field names prefixed like the paths of the generated table -/
def prefixed (pre : String) (s : Nested) : List (String × Leaf) := s.map (fun e => (pre ++ e.1, e.2))

end PzS
