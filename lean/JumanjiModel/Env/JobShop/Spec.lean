/-
JobShop, L2 step: one time unit of the job-shop rules, written from the SCHEDULE
(`scheduled_times`, `ops_durations`, `ops_machine_ids`, the clock) and not from the update code of
`_update_machines` / `_update_operations` / `_create_action_mask`.

`stepSpec cfg s a`:
* the instance (`mid`, `dur`) is unchanged and the clock advances by one;
* an op gets the current clock as its start time exactly when some machine's choice starts it as the
  next op of its job (`Hit`); every other start time is unchanged;
* every derived field is RECOMPUTED from the new schedule:
  `ops_mask[j][k]`  = the op is real and not scheduled,
  `machines_remaining_times[m]` = time from the new clock until the last op scheduled on `m` completes
                      (0 when that lies in the past or there is none),
  `machines_job_ids[m]` = the job whose op occupied `m` during the time unit just played, the no-op id
                      `J` when `m` was unoccupied,
  `action_mask`     = the legality table of the rules (`legalTable`) in the new schedule;
* the timestep: an action that is not a legal joint action, or a step after which no machine processed
  anything and none has work left ("all machines idle"), ends the episode with the penalty −J·O·D;
  otherwise the reward is −1 and the episode ends exactly when every real op is scheduled and has
  completed by the new clock.  Discount 0 at the end, 1 otherwise; the observation shows the six
  fields of the successor.

For an action that is NOT legal only the timestep's step type, reward and discount are claimed
(`step` mutates the state with gather semantics that are not rule-level; see `SpecLemmas.lean`).
-/
import JumanjiModel.Env.JobShop.Model
namespace JobShop
open Jm

/-- the new `scheduled_times`: the ops started by the action (`Hit`) start now -/
def schedAfter (cfg : Cfg) (s : State) (a : List Int) : List (List Int) :=
  (List.range cfg.J).map fun j => (List.range cfg.O).map fun k =>
    if Hit cfg s a j k then s.stepCount else s.schedAt j k

/-- the new schedule: `s` with the new start times and the clock advanced.  Only the instance, the start
times and the clock are read from it (the derived fields are recomputed from it below). -/
def advance (cfg : Cfg) (s : State) (a : List Int) : State :=
  { s with sched := schedAfter cfg s a, stepCount := s.stepCount + 1 }

/-- for the ops scheduled on machine `m`: completion time minus the clock -/
def remTimes (cfg : Cfg) (s : State) (m : Nat) : List Int :=
  (List.range cfg.J).flatMap fun j => (List.range cfg.O).filterMap fun k =>
    if isSched s j k ∧ s.midAt j k = (m : Int) then some (endTime s j k - s.stepCount) else none

/-- time from now until the last op scheduled on `m` completes, 0 when none is still running -/
def remSpec (cfg : Cfg) (s : State) (m : Nat) : Int := (remTimes cfg s m).foldl max 0

/-- op `(j,k)` occupied machine `m` during the time unit `[t, t+1)`: it is scheduled on `m`, started at
or before `t` and had not completed at `t`.  (An op started exactly at `t` counts even if the instance
gave it a duration `≤ 0`; with durations `≥ 1` the last disjunct is redundant, see
`occupies_iff_of_durations`.) -/
def occupies (s : State) (m j k : Nat) (t : Int) : Prop :=
  isSched s j k ∧ s.midAt j k = (m : Int) ∧ s.schedAt j k ≤ t ∧ (t < endTime s j k ∨ s.schedAt j k = t)

instance (s : State) (m j k : Nat) (t : Int) : Decidable (occupies s m j k t) := by
  unfold occupies; infer_instance

/-- the job whose op occupied machine `m` during `[t, t+1)`; the no-op id `J` when there is none -/
def jobSpec (cfg : Cfg) (s : State) (m : Nat) (t : Int) : Int :=
  match (List.range cfg.J).find? (fun j => decide (∃ k, k < cfg.O ∧ occupies s m j k t)) with
  | some j => (j : Int)
  | none => (cfg.J : Int)

/-- the successor state of the rules -/
def specState (cfg : Cfg) (s : State) (a : List Int) : State :=
  let sch := advance cfg s a
  { mid := s.mid, dur := s.dur,
    opsMask := (List.range cfg.J).map fun j => (List.range cfg.O).map fun k =>
      decide (isOp sch j k ∧ ¬ isSched sch j k),
    mjob := (List.range cfg.M).map fun m => jobSpec cfg sch m s.stepCount,
    mrem := (List.range cfg.M).map fun m => remSpec cfg sch m,
    amask := legalTable cfg sch,
    stepCount := s.stepCount + 1,
    sched := schedAfter cfg s a }

/-- "all machines idle": no machine processed anything in the time unit just played (job id = no-op)
and none has work left -/
def idleSpec (cfg : Cfg) (s' : State) : Prop :=
  ∀ m, m < cfg.M → s'.jobAt m = (cfg.J : Int) ∧ s'.remAt m = 0

/-- every real op is scheduled and has completed by the clock -/
def completeSpec (cfg : Cfg) (s' : State) : Prop :=
  ∀ j, j < cfg.J → ∀ k, k < cfg.O → isOp s' j k → isSched s' j k ∧ endTime s' j k ≤ s'.stepCount

instance (cfg : Cfg) (s' : State) : Decidable (idleSpec cfg s') := by unfold idleSpec; infer_instance
instance (cfg : Cfg) (s' : State) : Decidable (completeSpec cfg s') := by
  unfold completeSpec; infer_instance

/-- the timestep of the rules, given the successor `s'` -/
def specTimeStep (cfg : Cfg) (s : State) (a : List Int) (s' : State) : TimeStep Obs :=
  if ¬ legalAction cfg s a ∨ idleSpec cfg s' then termination [penalty cfg] (obsOf s')
  else if completeSpec cfg s' then termination [-1] (obsOf s')
  else transition [-1] (obsOf s')

/-- L2: one step of the job-shop rules -/
def stepSpec (cfg : Cfg) (s : State) (a : List Int) : State × TimeStep Obs :=
  let s' := specState cfg s a
  (s', specTimeStep cfg s a s')

end JobShop
