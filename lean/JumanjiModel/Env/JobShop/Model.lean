/-
JobShop (jumanji/environments/packing/job_shop/{env,generator,types}.py).  Import-free.

L1 = transliteration of `step`, `_update_machines`, `_update_operations`, `_create_action_mask`,
`_is_action_valid`, `_observation_from_state` and of the initial state both generators build.
Arrays are lists (of rows); elementwise array code (`jnp.where`, `vmap`) over an array of shape
`(n,)` / `(n, p)` is a `map` over `List.range n` (the sizes are the constructor's `num_jobs = J`,
`num_machines = M`, `max_num_ops = O`, `max_op_duration = D`); gathers with a traced index
(`ops_durations[action, op_ids[action]]`, `action_mask[arange(M), action]`) use `Jx.getWC`
(wrap then clamp).  The cached `action_mask` of the state is a field (`amask`): `step` tests the
action against the cached mask, exactly like the implementation.  int32 overflow is not modelled.

L2 = the rules of job-shop scheduling stated from the schedule alone (`scheduled_times`,
`ops_durations`, `ops_machine_ids`, the clock): which op runs when, `legal`, `Feasible` (job order,
no overlap within a job / on a machine), `Bookkeeping` (the machine fields and `ops_mask` agree with
the schedule), `IsSolution`, `makespan`.
-/
import JumanjiModel.Prim.Idx
import JumanjiModel.Prim.Grid
import JumanjiModel.Core.TimeStep
namespace JobShop
open Jm

/-- constructor arguments: `num_jobs`, `num_machines`, `max_num_ops`, `max_op_duration` -/
structure Cfg where
  J : Nat
  M : Nat
  O : Nat
  D : Nat
  deriving Repr, DecidableEq

structure State where
  /-- `ops_machine_ids` (J × O), −1 = padding -/
  mid : List (List Int)
  /-- `ops_durations` (J × O), −1 = padding -/
  dur : List (List Int)
  /-- `ops_mask` (J × O): op still to be scheduled -/
  opsMask : List (List Bool)
  /-- `machines_job_ids` (M), `J` = no-op -/
  mjob : List Int
  /-- `machines_remaining_times` (M) -/
  mrem : List Int
  /-- cached `action_mask` (M × (J+1)) -/
  amask : List (List Bool)
  stepCount : Int
  /-- `scheduled_times` (J × O), −1 = not scheduled yet -/
  sched : List (List Int)
  deriving Repr, DecidableEq

structure Obs where
  mid : List (List Int)
  dur : List (List Int)
  opsMask : List (List Bool)
  mjob : List Int
  mrem : List Int
  amask : List (List Bool)
  deriving Repr, DecidableEq

/-- plain in-range lookup in a list of rows (default outside) -/
def at2 {α} (g : List (List α)) (d : α) (j k : Nat) : α := (g.getD j []).getD k d

def State.midAt (s : State) (j k : Nat) : Int := at2 s.mid (-1) j k
def State.durAt (s : State) (j k : Nat) : Int := at2 s.dur (-1) j k
def State.schedAt (s : State) (j k : Nat) : Int := at2 s.sched (-1) j k
def State.maskAt (s : State) (j k : Nat) : Bool := at2 s.opsMask false j k
def State.jobAt (s : State) (m : Nat) : Int := s.mjob.getD m 0
def State.remAt (s : State) (m : Nat) : Int := s.mrem.getD m 0

/-! ### L1 -/

/-- `jnp.argmax(ops_mask, axis=-1)`: first remaining op of every job (0 when none remains) -/
def opIds (opsMask : List (List Bool)) : List Nat := opsMask.map Jx.argmaxBool

/-- `_is_action_valid(job_id, op_id, machine_id, …)` -/
def isActionValid (cfg : Cfg) (mjob mrem : List Int) (mid : List (List Int))
    (opsMask : List (List Bool)) (j op m : Nat) : Bool :=
  let isMachineAvailable := mrem.getD m 0 == 0
  let isCorrectMachine := at2 mid (-1) j op == (m : Int)
  let isJobReady := !((List.range cfg.M).any fun m' =>
    mjob.getD m' 0 == (j : Int) && decide (mrem.getD m' 0 > 0))
  let isJobFinished := (opsMask.getD j []).all (fun b => !b)
  isMachineAvailable && isCorrectMachine && isJobReady && !isJobFinished

/-- `_create_action_mask`: M rows of `J` job columns plus the always-true no-op column -/
def createActionMask (cfg : Cfg) (mjob mrem : List Int) (mid : List (List Int))
    (opsMask : List (List Bool)) : List (List Bool) :=
  let next := opIds opsMask
  (List.range cfg.M).map fun m =>
    (List.range cfg.J).map (fun j => isActionValid cfg mjob mrem mid opsMask j (next.getD j 0) m)
      ++ [true]

/-- the mask recomputed from the current fields of a state -/
def maskOf (cfg : Cfg) (s : State) : List (List Bool) :=
  createActionMask cfg s.mjob s.mrem s.mid s.opsMask

def actAt (a : List Int) (m : Nat) : Int := a.getD m 0

/-- `~jnp.all(state.action_mask[jnp.arange(M), action])` (cached mask, gather = wrap+clamp) -/
def invalid (cfg : Cfg) (s : State) (a : List Int) : Bool :=
  !((List.range cfg.M).all fun m => Jx.Grid.getWC s.amask false (m : Int) (actAt a m))

/-- `ops_durations[action, op_ids[action]]` for one machine -/
def selDur (s : State) (ids : List Nat) (am : Int) : Int :=
  Jx.Grid.getWC s.dur 0 am ((Jx.getWC ids 0 am : Nat) : Int)

/-- `_update_machines`: new `machines_job_ids` -/
def updJob (cfg : Cfg) (s : State) (a : List Int) : List Int :=
  (List.range cfg.M).map fun m =>
    let am := actAt a m
    let jobIds := if am == (cfg.J : Int) then s.jobAt m else am
    if am == (cfg.J : Int) && s.remAt m == 0 then am else jobIds

/-- `_update_machines`: new `machines_remaining_times` -/
def updRem (cfg : Cfg) (s : State) (a : List Int) : List Int :=
  let ids := opIds s.opsMask
  (List.range cfg.M).map fun m =>
    let am := actAt a m
    let rt := if am == (cfg.J : Int) then s.remAt m else selDur s ids am
    if rt > 0 then rt - 1 else 0

/-- `_set_busy(job_id, action)` = `jnp.any(action == job_id)` -/
def isNewJob (a : List Int) (j : Nat) : Bool := a.any (fun x => x == (j : Int))

/-- `is_new_job_and_next_op[j, k]` -/
def hit (s : State) (a : List Int) (j k : Nat) : Bool :=
  isNewJob a j && (k == (opIds s.opsMask).getD j 0)

/-- `_update_operations`: new `ops_mask` -/
def updMask (cfg : Cfg) (s : State) (a : List Int) : List (List Bool) :=
  (List.range cfg.J).map fun j => (List.range cfg.O).map fun k => s.maskAt j k && !(hit s a j k)

/-- `_update_operations`: new `scheduled_times` -/
def updSched (cfg : Cfg) (s : State) (a : List Int) : List (List Int) :=
  (List.range cfg.J).map fun j => (List.range cfg.O).map fun k =>
    if hit s a j k then s.stepCount else s.schedAt j k

/-- the successor state (`step` mutates it whether or not the action is valid) -/
def next (cfg : Cfg) (s : State) (a : List Int) : State :=
  let mjob' := updJob cfg s a
  let mrem' := updRem cfg s a
  let mask' := updMask cfg s a
  { mid := s.mid, dur := s.dur, opsMask := mask', mjob := mjob', mrem := mrem',
    amask := createActionMask cfg mjob' mrem' s.mid mask',
    stepCount := s.stepCount + 1, sched := updSched cfg s a }

/-- `_observation_from_state` -/
def obsOf (s : State) : Obs :=
  { mid := s.mid, dur := s.dur, opsMask := s.opsMask, mjob := s.mjob, mrem := s.mrem,
    amask := s.amask }

/-- `all_machines_idle` of the successor -/
def allIdle (cfg : Cfg) (s' : State) : Bool :=
  (List.range cfg.M).all fun m => s'.jobAt m == (cfg.J : Int) && s'.remAt m == 0

/-- `schedule_finished` of the successor -/
def finished (cfg : Cfg) (s' : State) : Bool :=
  !(s'.opsMask.any fun row => row.any id) && (List.range cfg.M).all fun m => s'.remAt m == 0

/-- the penalty `-num_jobs * max_num_ops * max_op_duration` -/
def penalty (cfg : Cfg) : Rat := -((cfg.J * cfg.O * cfg.D : Nat) : Rat)

def step (cfg : Cfg) (s : State) (a : List Int) : State × TimeStep Obs :=
  let inv := invalid cfg s a
  let s' := next cfg s a
  let idle := allIdle cfg s'
  let fin := finished cfg s'
  let done := inv || idle || fin
  let reward : Rat := if inv || idle then penalty cfg else -1
  (s', condLast done [reward] (obsOf s'))

/-- the state both shipped generators build around `(ops_machine_ids, ops_durations)`, with the
mask `reset` adds -/
def initState (cfg : Cfg) (mid dur : List (List Int)) : State :=
  let mjob := List.replicate cfg.M (cfg.J : Int)
  let mrem := List.replicate cfg.M (0 : Int)
  let opsMask := mid.map (fun row => row.map (fun x => x != -1))
  { mid := mid, dur := dur, opsMask := opsMask, mjob := mjob, mrem := mrem,
    amask := createActionMask cfg mjob mrem mid opsMask, stepCount := 0,
    sched := List.replicate cfg.J (List.replicate cfg.O (-1)) }

/-! ### L2: the rules, from the schedule -/

/-- op `k` of job `j` exists (`-1` marks padding) -/
def isOp (s : State) (j k : Nat) : Prop := s.midAt j k ≠ -1
/-- op `(j,k)` has been given a start time (`-1` = not scheduled yet) -/
def isSched (s : State) (j k : Nat) : Prop := isOp s j k ∧ s.schedAt j k ≠ -1
/-- the first time step at which op `(j,k)` no longer occupies its machine -/
def endTime (s : State) (j k : Nat) : Int := s.schedAt j k + s.durAt j k
/-- op `(j,k)` has started and has not run to completion at the current time -/
def running (s : State) (j k : Nat) : Prop := isSched s j k ∧ s.stepCount < endTime s j k

instance (s : State) (j k : Nat) : Decidable (isOp s j k) := by unfold isOp; infer_instance
instance (s : State) (j k : Nat) : Decidable (isSched s j k) := by unfold isSched; infer_instance
instance (s : State) (j k : Nat) : Decidable (running s j k) := by unfold running; infer_instance

/-- some op of job `j` is being processed -/
def jobRunning (cfg : Cfg) (s : State) (j : Nat) : Prop := ∃ k, k < cfg.O ∧ running s j k
/-- machine `m` is processing some op -/
def machineBusy (cfg : Cfg) (s : State) (m : Nat) : Prop :=
  ∃ j, j < cfg.J ∧ ∃ k, k < cfg.O ∧ running s j k ∧ s.midAt j k = (m : Int)
/-- `k` is the next op of job `j`: it exists, is unscheduled, and every earlier op slot of the job
is either padding or scheduled -/
def isNextOp (cfg : Cfg) (s : State) (j k : Nat) : Prop :=
  k < cfg.O ∧ isOp s j k ∧ ¬ isSched s j k ∧ ∀ k', k' < k → ¬ (isOp s j k' ∧ ¬ isSched s j k')

instance (cfg : Cfg) (s : State) (j : Nat) : Decidable (jobRunning cfg s j) := by
  unfold jobRunning; infer_instance
instance (cfg : Cfg) (s : State) (m : Nat) : Decidable (machineBusy cfg s m) := by
  unfold machineBusy; infer_instance
instance (cfg : Cfg) (s : State) (j k : Nat) : Decidable (isNextOp cfg s j k) := by
  unfold isNextOp; infer_instance

/-- Machine `m` may be given choice `c`: the no-op (`c = J`) always; job `c < J` iff the machine is
free, the job's next op (ops are processed in order) needs exactly this machine, and no op of the
job is in progress (one op of a job at a time; an op runs to completion). -/
def legal (cfg : Cfg) (s : State) (m c : Nat) : Prop :=
  m < cfg.M ∧ (c = cfg.J ∨ (c < cfg.J ∧ ¬ machineBusy cfg s m ∧ ¬ jobRunning cfg s c ∧
    ∃ k, k < cfg.O ∧ isNextOp cfg s c k ∧ s.midAt c k = (m : Int)))

instance (cfg : Cfg) (s : State) (m c : Nat) : Decidable (legal cfg s m c) := by
  unfold legal; infer_instance

/-- a whole action: one in-range choice per machine, each legal -/
def legalAction (cfg : Cfg) (s : State) (a : List Int) : Prop :=
  a.length = cfg.M ∧ ∀ m, m < cfg.M → 0 ≤ actAt a m ∧ legal cfg s m (actAt a m).toNat

instance (cfg : Cfg) (s : State) (a : List Int) : Decidable (legalAction cfg s a) := by
  unfold legalAction; infer_instance

/-- the action is inside the action spec: one value in `[0, J]` per machine -/
def InSpec (cfg : Cfg) (a : List Int) : Prop :=
  a.length = cfg.M ∧ ∀ m, m < cfg.M → 0 ≤ actAt a m ∧ actAt a m ≤ (cfg.J : Int)

instance (cfg : Cfg) (a : List Int) : Decidable (InSpec cfg a) := by unfold InSpec; infer_instance

/-- the arrays have the configured shapes -/
def Shaped (cfg : Cfg) (s : State) : Prop :=
  s.mid.length = cfg.J ∧ s.dur.length = cfg.J ∧ s.opsMask.length = cfg.J ∧ s.sched.length = cfg.J ∧
  (∀ j, j < cfg.J → (s.mid.getD j []).length = cfg.O ∧ (s.dur.getD j []).length = cfg.O ∧
    (s.opsMask.getD j []).length = cfg.O ∧ (s.sched.getD j []).length = cfg.O) ∧
  s.mjob.length = cfg.M ∧ s.mrem.length = cfg.M

/-- the problem instance is well-formed: every op has a machine of the shop -/
def MachinesOK (cfg : Cfg) (s : State) : Prop :=
  ∀ j, j < cfg.J → ∀ k, k < cfg.O → isOp s j k → 0 ≤ s.midAt j k ∧ s.midAt j k < (cfg.M : Int)

/-- every real op takes at least one and at most `D` time steps -/
def DurationsOK (cfg : Cfg) (s : State) : Prop :=
  ∀ j, j < cfg.J → ∀ k, k < cfg.O → isOp s j k → 1 ≤ s.durAt j k ∧ s.durAt j k ≤ (cfg.D : Int)

/-- start times of scheduled ops lie in the past -/
def PastOK (cfg : Cfg) (s : State) : Prop :=
  ∀ j, j < cfg.J → ∀ k, k < cfg.O → isSched s j k → 0 ≤ s.schedAt j k ∧ s.schedAt j k < s.stepCount

/-- op `(j,k')`, if scheduled, starts after every earlier op of its job was scheduled and completed -/
def orderedAt (s : State) (j k' : Nat) : Prop :=
  ∀ k, k < k' → isOp s j k → isSched s j k' → isSched s j k ∧ endTime s j k ≤ s.schedAt j k'

instance (s : State) (j k' : Nat) : Decidable (orderedAt s j k') := by unfold orderedAt; infer_instance

/-- within a job an op starts only after every earlier op of the job has been scheduled and has
completed (job order; no two ops of a job overlap) -/
def JobOrderOK (cfg : Cfg) (s : State) : Prop :=
  ∀ j, j < cfg.J → ∀ k', k' < cfg.O → orderedAt s j k'

/-- two scheduled ops that need the same machine occupy it at disjoint times -/
def disjointOps (s : State) (j k j' k' : Nat) : Prop :=
  isSched s j k → isSched s j' k' → s.midAt j k = s.midAt j' k' → (j ≠ j' ∨ k ≠ k') →
    endTime s j k ≤ s.schedAt j' k' ∨ endTime s j' k' ≤ s.schedAt j k

instance (s : State) (j k j' k' : Nat) : Decidable (disjointOps s j k j' k') := by
  unfold disjointOps; infer_instance

/-- op `(j,k)` overlaps no other op on its machine -/
def disjointFrom (cfg : Cfg) (s : State) (j k : Nat) : Prop :=
  ∀ j', j' < cfg.J → ∀ k', k' < cfg.O → disjointOps s j k j' k'

instance (cfg : Cfg) (s : State) (j k : Nat) : Decidable (disjointFrom cfg s j k) := by
  unfold disjointFrom; infer_instance

/-- two different ops on one machine never overlap -/
def MachineOK (cfg : Cfg) (s : State) : Prop :=
  ∀ j, j < cfg.J → ∀ k, k < cfg.O → disjointFrom cfg s j k

instance (cfg : Cfg) (s : State) : Decidable (PastOK cfg s) := by unfold PastOK; infer_instance
instance (cfg : Cfg) (s : State) : Decidable (JobOrderOK cfg s) := by unfold JobOrderOK; infer_instance
instance (cfg : Cfg) (s : State) : Decidable (MachineOK cfg s) := by unfold MachineOK; infer_instance

/-- Hard constraints of the partial schedule (recomputed from `scheduled_times`, `ops_durations`,
`ops_machine_ids` and the clock). -/
def Feasible (cfg : Cfg) (s : State) : Prop :=
  0 ≤ s.stepCount ∧ PastOK cfg s ∧ JobOrderOK cfg s ∧ MachineOK cfg s

/-- `ops_mask` marks exactly the real unscheduled ops -/
def MaskOK (cfg : Cfg) (s : State) : Prop :=
  ∀ j, j < cfg.J → ∀ k, k < cfg.O → (s.maskAt j k = true ↔ (isOp s j k ∧ ¬ isSched s j k))

/-- every op scheduled on `m` completes within `machines_remaining_times[m]` from now -/
def RemUpper (cfg : Cfg) (s : State) (m : Nat) : Prop :=
  ∀ j, j < cfg.J → ∀ k, k < cfg.O → isSched s j k → s.midAt j k = (m : Int) →
    endTime s j k ≤ s.stepCount + s.remAt m

/-- a positive remaining time is the time to completion of an op on `m`, whose job is
`machines_job_ids[m]` -/
def RemAttained (cfg : Cfg) (s : State) (m : Nat) : Prop :=
  0 < s.remAt m → ∃ j, j < cfg.J ∧ ∃ k, k < cfg.O ∧ isSched s j k ∧ s.midAt j k = (m : Int) ∧
    s.jobAt m = (j : Int) ∧ endTime s j k = s.stepCount + s.remAt m

instance (cfg : Cfg) (s : State) : Decidable (MaskOK cfg s) := by unfold MaskOK; infer_instance
instance (cfg : Cfg) (s : State) (m : Nat) : Decidable (RemUpper cfg s m) := by unfold RemUpper; infer_instance
instance (cfg : Cfg) (s : State) (m : Nat) : Decidable (RemAttained cfg s m) := by unfold RemAttained; infer_instance

/-- The derived fields agree with the schedule: `ops_mask` marks exactly the real unscheduled ops;
`machines_remaining_times[m]` is the time until the last op started on `m` completes (0 if that is
in the past) and while it is positive `machines_job_ids[m]` is the job of that op. -/
def Bookkeeping (cfg : Cfg) (s : State) : Prop :=
  MaskOK cfg s ∧ ∀ m, m < cfg.M → 0 ≤ s.remAt m ∧ RemUpper cfg s m ∧ RemAttained cfg s m

/-- the inductive invariant of legal play -/
def Inv (cfg : Cfg) (s : State) : Prop :=
  Shaped cfg s ∧ MachinesOK cfg s ∧ Feasible cfg s ∧ Bookkeeping cfg s

/-- a complete feasible schedule whose every op has run to completion -/
def IsSolution (cfg : Cfg) (s : State) : Prop :=
  Feasible cfg s ∧ MachinesOK cfg s ∧
  ∀ j, j < cfg.J → ∀ k, k < cfg.O → isOp s j k → isSched s j k ∧ endTime s j k ≤ s.stepCount

instance (cfg : Cfg) (s : State) : Decidable (Shaped cfg s) := by unfold Shaped; infer_instance
instance (cfg : Cfg) (s : State) : Decidable (MachinesOK cfg s) := by unfold MachinesOK; infer_instance
instance (cfg : Cfg) (s : State) : Decidable (DurationsOK cfg s) := by unfold DurationsOK; infer_instance
instance (cfg : Cfg) (s : State) : Decidable (Feasible cfg s) := by unfold Feasible; infer_instance
instance (cfg : Cfg) (s : State) : Decidable (Bookkeeping cfg s) := by unfold Bookkeeping; infer_instance
instance (cfg : Cfg) (s : State) : Decidable (Inv cfg s) := by unfold Inv; infer_instance
instance (cfg : Cfg) (s : State) : Decidable (IsSolution cfg s) := by unfold IsSolution; infer_instance

/-- completion times of the scheduled ops -/
def endTimes (cfg : Cfg) (s : State) : List Int :=
  (List.range cfg.J).flatMap fun j => (List.range cfg.O).filterMap fun k =>
    if isSched s j k then some (endTime s j k) else none

/-- length of the schedule: the latest completion time (0 for the empty schedule) -/
def makespan (cfg : Cfg) (s : State) : Int := (endTimes cfg s).foldl max 0

/-- the documented objective: minus the makespan -/
def objective (cfg : Cfg) (s : State) : Rat := -((makespan cfg s : Int) : Rat)

/-- the documented observation: the six fields copied from the state, the action mask being the mask
of the *current* machine/op status -/
def observe (cfg : Cfg) (s : State) : Obs :=
  { mid := s.mid, dur := s.dur, opsMask := s.opsMask, mjob := s.mjob, mrem := s.mrem,
    amask := maskOf cfg s }

/-- L2 legality table in the layout of the action mask (M × (J+1)) -/
def legalTable (cfg : Cfg) (s : State) : List (List Bool) :=
  (List.range cfg.M).map fun m => (List.range (cfg.J + 1)).map fun c => decide (legal cfg s m c)

/-- operation time still to be spent: unscheduled real ops plus the remaining machine times
(the potential behind the structural horizon) -/
def workLeft (cfg : Cfg) (s : State) : Int :=
  Jx.sumInt ((List.range cfg.J).map fun j => Jx.sumInt ((List.range cfg.O).map fun k =>
    if s.maskAt j k then s.durAt j k else 0)) + Jx.sumInt ((List.range cfg.M).map fun m => s.remAt m)

/-- under action `a`, some machine starts op `k` of job `j`, its next op -/
def Hit (cfg : Cfg) (s : State) (a : List Int) (j k : Nat) : Prop :=
  ∃ m, m < cfg.M ∧ actAt a m = (j : Int) ∧ isNextOp cfg s j k

instance (cfg : Cfg) (s : State) (a : List Int) (j k : Nat) : Decidable (Hit cfg s a j k) := by
  unfold Hit; infer_instance

/-! ### whole episodes (C08, C11) -/

/-- legal play that never leaves all machines idle (so it is never penalised) -/
def Survives (cfg : Cfg) (s : State) : List (List Int) → Prop
  | [] => True
  | a :: as => legalAction cfg s a ∧ allIdle cfg (next cfg s a) = false ∧ Survives cfg (next cfg s a) as


/-- play a list of actions: the final state and the sum of the rewards -/
def play (cfg : Cfg) (s : State) : List (List Int) → State × Rat
  | [] => (s, 0)
  | a :: as =>
    let r := step cfg s a
    let p := play cfg r.1 as
    (p.1, r.2.reward.sum + p.2)

/-- a legal episode that ends by completion: every action is legal, the machines are never all
idle, and the schedule is finished after the last action and not before -/
def CompletesBy (cfg : Cfg) (s : State) : List (List Int) → Prop
  | [] => False
  | [a] => legalAction cfg s a ∧ finished cfg s = false ∧ allIdle cfg (next cfg s a) = false ∧
      finished cfg (next cfg s a) = true
  | a :: b :: as => legalAction cfg s a ∧ finished cfg s = false ∧
      allIdle cfg (next cfg s a) = false ∧ CompletesBy cfg (next cfg s a) (b :: as)

/-- time an op still needs: its duration while unscheduled, the rest of its interval once started -/
def opLeft (s : State) (j k : Nat) : Int :=
  if isSched s j k then max 0 (endTime s j k - s.stepCount)
  else if isOp s j k then s.durAt j k else 0

/-- total operation time still to be spent (the potential behind the structural horizon) -/
def timeLeft (cfg : Cfg) (s : State) : Int :=
  (((List.range cfg.J).flatMap fun j => (List.range cfg.O).map fun k => (j, k)).map
    fun p => opLeft s p.1 p.2).sum

/-! ### certificates of a generated instance (C10) -/

/-- padding is consistent: machine id −1 iff duration −1, and real ops form a prefix of the row -/
def PaddingOK (cfg : Cfg) (s : State) : Prop :=
  ∀ j, j < cfg.J → ∀ k, k < cfg.O →
    ((s.midAt j k = -1 ↔ s.durAt j k = -1) ∧ (isOp s j k → ∀ k', k' < k → isOp s j k'))

instance (cfg : Cfg) (s : State) : Decidable (PaddingOK cfg s) := by unfold PaddingOK; infer_instance

/-! ### the generators (C10) -/

/-- `jnp.less(jnp.tile(jnp.arange(max_num_ops), (num_jobs, 1)), num_ops_per_job[:, None])[j, k]` -/
def genMask (numOps : List Int) (j k : Nat) : Bool := decide ((k : Int) < numOps.getD j 0)

/-- `jnp.where(mask, draw, -1)` as a `J × O` array -/
def genPad (cfg : Cfg) (draw : List (List Int)) (numOps : List Int) : List (List Int) :=
  (List.range cfg.J).map fun j => (List.range cfg.O).map fun k =>
    if genMask numOps j k then at2 draw (-1) j k else -1

/-- `RandomGenerator.__call__` followed by the mask `reset` adds; the three `randint` arrays are the draws:
`midDraw` (`J × O`, machine ids), `durDraw` (`J × O`, durations), `numOps` (`J`, ops per job) -/
def generate (cfg : Cfg) (midDraw durDraw : List (List Int)) (numOps : List Int) : State :=
  initState cfg (genPad cfg midDraw numOps) (genPad cfg durDraw numOps)

/-- the support of the three draws: `randint(0, M)`, `randint(1, D + 1)`, `randint(1, O + 1)` -/
def validGenDraw (cfg : Cfg) (midDraw durDraw : List (List Int)) (numOps : List Int) : Prop :=
  (∀ j, j < cfg.J → ∀ k, k < cfg.O → 0 ≤ at2 midDraw (-1) j k ∧ at2 midDraw (-1) j k < (cfg.M : Int)) ∧
  (∀ j, j < cfg.J → ∀ k, k < cfg.O → 1 ≤ at2 durDraw (-1) j k ∧ at2 durDraw (-1) j k ≤ (cfg.D : Int)) ∧
  (∀ j, j < cfg.J → 1 ≤ numOps.getD j 0 ∧ numOps.getD j 0 ≤ (cfg.O : Int))

instance (cfg : Cfg) (a b : List (List Int)) (c : List Int) : Decidable (validGenDraw cfg a b c) := by
  unfold validGenDraw; infer_instance

/-- job `j` consists of exactly `p` real ops (machine of the shop, duration in `[1, D]`, still to be scheduled)
followed by padding (−1, −1, not to be scheduled) -/
def JobRowOK (cfg : Cfg) (s : State) (j p : Nat) : Prop :=
  ∀ k, k < cfg.O →
    (k < p → 0 ≤ s.midAt j k ∧ s.midAt j k < (cfg.M : Int) ∧ 1 ≤ s.durAt j k ∧ s.durAt j k ≤ (cfg.D : Int) ∧
      s.maskAt j k = true) ∧
    (p ≤ k → s.midAt j k = -1 ∧ s.durAt j k = -1 ∧ s.maskAt j k = false)

instance (cfg : Cfg) (s : State) (j p : Nat) : Decidable (JobRowOK cfg s j p) := by unfold JobRowOK; infer_instance

/-- generator certificate, evaluated on the implementation's reset states: shapes; every job has between 1 and
`max_num_ops` real ops followed by padding, durations of real ops in `[1, max_op_duration]`, machine ids in
`[0, num_machines)`, `ops_mask` true exactly on the real ops; `machines_job_ids` all no-op, remaining times 0,
`scheduled_times` all −1, clock 0; the action mask of `reset` is the legality table of the rules -/
def GenCert (cfg : Cfg) (s : State) : Prop :=
  Shaped cfg s ∧ (∀ j, j < cfg.J → ∃ p, p < cfg.O + 1 ∧ 1 ≤ p ∧ JobRowOK cfg s j p) ∧
  s.mjob = List.replicate cfg.M (cfg.J : Int) ∧ s.mrem = List.replicate cfg.M 0 ∧
  s.sched = List.replicate cfg.J (List.replicate cfg.O (-1)) ∧ s.stepCount = 0 ∧
  s.amask = legalTable cfg s

instance (cfg : Cfg) (s : State) : Decidable (GenCert cfg s) := by unfold GenCert; infer_instance

/-- `ToyGenerator`: the hard-coded instance (5 jobs, 4 machines, ≤ 4 ops, durations ≤ 4) -/
def toyCfg : Cfg := ⟨5, 4, 4, 4⟩
def toyMid : List (List Int) := [[2, 3, 1, 2], [3, 2, 0, -1], [1, 3, -1, -1], [0, 3, 0, 0], [1, 0, 1, -1]]
def toyDur : List (List Int) := [[2, 2, 1, 2], [2, 4, 1, -1], [2, 3, -1, -1], [4, 1, 1, 1], [3, 1, 2, -1]]
/-- the state `reset` returns for `ToyGenerator` -/
def toyState : State := initState toyCfg toyMid toyDur
/-- the action sequence of `test_job_shop__toy_generator_reward` (5 = no-op), documented to reach the optimal
makespan 8 -/
def toyActions : List (List Int) :=
  [[3, 4, 0, 1], [5, 5, 5, 5], [5, 5, 1, 0], [5, 2, 5, 5], [4, 5, 5, 3], [3, 0, 5, 2], [1, 4, 0, 5], [3, 5, 5, 5]]

end JobShop
