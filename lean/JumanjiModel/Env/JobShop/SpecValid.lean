/-
JobShop — C01 spec membership (wave 3): the declared specs as `Sp` values (equal to the generated literals of the catalogue
configuration, Props/Env/JobShop.lean), membership of the observations of `reset` (every valid instance) and of EVERY `step`
with an in-spec action (legal or not, terminal step included) from a state satisfying the spec invariant `SInv` (the bounds
invariant `BInv` of Bounds.lean plus the shapes of the two instance arrays), `SInv` along every rollout; reward / discount /
action spec.  Also the `step`-level statement of "the environment treated the action as invalid" (C04), the reset observation
(C12) and whole-episode return from generated instances (C08).
-/
import JumanjiModel.Env.JobShop.Lemmas
import JumanjiModel.Env.JobShop.Bounds
import JumanjiModel.Env.JobShop.GenLemmas
import JumanjiModel.Env.JobShop.CompletionLemmas
import JumanjiModel.Env.PackSpecValid
namespace JobShop
open Jm Sp PzS PkS

/-! ### the declared specs (env.py `observation_spec`, `action_spec`) -/

def obsSpec (cfg : Cfg) : Sp.Nested :=
  [("ops_machine_ids", .bounded [cfg.J, cfg.O] .int32 "ops_machine_ids" [] [((-1 : Int) : Rat)] []
      [(((cfg.M : Int) - 1 : Int) : Rat)]),
   ("ops_durations", .bounded [cfg.J, cfg.O] .int32 "ops_durations" [] [((-1 : Int) : Rat)] [] [((cfg.D : Int) : Rat)]),
   ("ops_mask", .bounded [cfg.J, cfg.O] .bool "ops_mask" [] [0] [] [1]),
   ("machines_job_ids", .bounded [cfg.M] .int32 "machines_job_ids" [] [((0 : Int) : Rat)] [] [((cfg.J : Int) : Rat)]),
   ("machines_remaining_times", .bounded [cfg.M] .int32 "machines_remaining_times" [] [((0 : Int) : Rat)] []
      [((cfg.D : Int) : Rat)]),
   ("action_mask", .bounded [cfg.M, cfg.J + 1] .bool "action_mask" [] [0] [] [1])]

/-- `action_spec`: MultiDiscreteArray(full(num_machines, num_jobs + 1), int32) -/
def actionSpec (cfg : Cfg) : Leaf := .multiDiscrete [cfg.M] (List.replicate cfg.M (cfg.J + 1)) .int32 "action"

/-- a model observation as the arrays the implementation emits; the shapes are READ OFF the values -/
def toNValue (o : Obs) : NValue :=
  [("ops_machine_ids", ⟨shape2 o.mid, .int32, ofInts o.mid.flatten⟩),
   ("ops_durations", ⟨shape2 o.dur, .int32, ofInts o.dur.flatten⟩),
   ("ops_mask", ⟨shape2 o.opsMask, .bool, ofBools o.opsMask.flatten⟩),
   ("machines_job_ids", ⟨shape1 o.mjob, .int32, ofInts o.mjob⟩),
   ("machines_remaining_times", ⟨shape1 o.mrem, .int32, ofInts o.mrem⟩),
   ("action_mask", ⟨shape2 o.amask, .bool, ofBools o.amask.flatten⟩)]

def actionArr (cfg : Cfg) (a : List Int) : Arr := ⟨[cfg.M], .int32, ofInts a⟩

/-- what membership amounts to -/
def ObsOK (cfg : Cfg) (o : Obs) : Prop :=
  Rect2 o.mid cfg.J cfg.O ∧ GridIn o.mid (-1) ((cfg.M : Int) - 1) ∧
  Rect2 o.dur cfg.J cfg.O ∧ GridIn o.dur (-1) (cfg.D : Int) ∧
  Rect2 o.opsMask cfg.J cfg.O ∧
  o.mjob.length = cfg.M ∧ VecIn o.mjob 0 (cfg.J : Int) ∧
  o.mrem.length = cfg.M ∧ VecIn o.mrem 0 (cfg.D : Int) ∧
  Rect2 o.amask cfg.M (cfg.J + 1)

theorem gridIn_flatten {g : List (List Int)} {lo hi : Int} (h : GridIn g lo hi) :
    ∀ v ∈ g.flatten, lo ≤ v ∧ v ≤ hi := by
  intro v hv
  obtain ⟨r, hr, hv'⟩ := List.mem_flatten.mp hv
  exact h r hr v hv'

theorem obs_valid (cfg : Cfg) (hJ : 0 < cfg.J) (hM : 0 < cfg.M) (o : Obs) (h : ObsOK cfg o) :
    (obsSpec cfg).valid (toNValue o) = true := by
  obtain ⟨h1, b1, h2, b2, h3, h4, b4, h5, b5, h6⟩ := h
  have v1 := valid_bounded2 cfg.J cfg.O .int32 "ops_machine_ids" _ _ o.mid ofInts ofInts_length h1 hJ
    (ofInts_bounds _ (-1) ((cfg.M : Int) - 1) (gridIn_flatten b1))
  have v2 := valid_bounded2 cfg.J cfg.O .int32 "ops_durations" _ _ o.dur ofInts ofInts_length h2 hJ
    (ofInts_bounds _ (-1) (cfg.D : Int) (gridIn_flatten b2))
  have v3 := valid_bounded2 cfg.J cfg.O .bool "ops_mask" 0 1 o.opsMask ofBools ofBools_length h3 hJ (ofBools_bounds _)
  have v4 := valid_bounded1 cfg.M .int32 "machines_job_ids" _ _ o.mjob ofInts ofInts_length h4
    (ofInts_bounds _ 0 (cfg.J : Int) b4)
  have v5 := valid_bounded1 cfg.M .int32 "machines_remaining_times" _ _ o.mrem ofInts ofInts_length h5
    (ofInts_bounds _ 0 (cfg.D : Int) b5)
  have v6 := valid_bounded2 cfg.M (cfg.J + 1) .bool "action_mask" 0 1 o.amask ofBools ofBools_length h6 hM
    (ofBools_bounds _)
  simp only [Nested.valid, obsSpec, toNValue, List.map_cons, List.map_nil, List.zipWith_cons_cons, List.zipWith_nil_right,
    List.all_cons, List.all_nil, v1, v2, v3, v4, v5, v6]
  decide

/-- … and conversely `validate` accepts nothing else: declared shapes and every value within the declared bounds -/
theorem obs_valid_only (cfg : Cfg) (o : Obs) (h : (obsSpec cfg).valid (toNValue o) = true) :
    shape2 o.mid = [cfg.J, cfg.O] ∧ (∀ v ∈ o.mid.flatten, -1 ≤ v ∧ v ≤ (cfg.M : Int) - 1) ∧
    shape2 o.dur = [cfg.J, cfg.O] ∧ (∀ v ∈ o.dur.flatten, -1 ≤ v ∧ v ≤ (cfg.D : Int)) ∧
    shape2 o.opsMask = [cfg.J, cfg.O] ∧
    o.mjob.length = cfg.M ∧ (∀ v ∈ o.mjob, 0 ≤ v ∧ v ≤ (cfg.J : Int)) ∧
    o.mrem.length = cfg.M ∧ (∀ v ∈ o.mrem, 0 ≤ v ∧ v ≤ (cfg.D : Int)) ∧
    shape2 o.amask = [cfg.M, cfg.J + 1] := by
  simp only [Nested.valid, obsSpec, toNValue, List.map_cons, List.map_nil, List.zipWith_cons_cons, List.zipWith_nil_right,
    List.all_cons, List.all_nil, id, Bool.and_true, Bool.and_eq_true, beq_self_eq_true, true_and] at h
  obtain ⟨h1, h2, h3, h4, h5, h6⟩ := h
  rw [valid_scalar_bounded_iff] at h1 h2 h3 h4 h5 h6
  refine ⟨h1.1, ofInts_bounds_conv _ _ _ h1.2.2.2, h2.1, ofInts_bounds_conv _ _ _ h2.2.2.2, h3.1, ?_,
    ofInts_bounds_conv _ _ _ h4.2.2.2, ?_, ofInts_bounds_conv _ _ _ h5.2.2.2, h6.1⟩
  · have := h4.1; simp only [shape1, List.cons.injEq, and_true] at this; exact this
  · have := h5.1; simp only [shape1, List.cons.injEq, and_true] at this; exact this

/-! ### the spec invariant: `BInv` plus the shapes of the instance arrays; established by `reset`, kept by every step -/

def SInv (cfg : Cfg) (s : State) : Prop := BInv cfg s ∧ Rect2 s.mid cfg.J cfg.O ∧ Rect2 s.dur cfg.J cfg.O

theorem reset_sinv (cfg : Cfg) (mid dur : List (List Int)) (h : validDraw cfg mid dur) :
    SInv cfg (reset cfg mid dur).1 :=
  ⟨reset_binv cfg mid dur h, ⟨h.1, h.2.2.1⟩, ⟨h.2.1, h.2.2.2.1⟩⟩

theorem step_sinv (cfg : Cfg) (s : State) (a : List Int) (h : SInv cfg s) (ha : ActIn cfg a) :
    SInv cfg (step cfg s a).1 := ⟨step_binv cfg s a h.1 ha, h.2.1, h.2.2⟩

theorem createActionMask_rect (cfg : Cfg) (mjob mrem : List Int) (mid : List (List Int)) (om : List (List Bool)) :
    Rect2 (createActionMask cfg mjob mrem mid om) cfg.M (cfg.J + 1) := by
  unfold createActionMask
  refine ⟨by simp, ?_⟩
  intro row hrow
  simp only [List.mem_map, List.mem_range] at hrow
  obtain ⟨m, _, rfl⟩ := hrow
  simp

theorem vecIn_mono {v : List Int} {lo hi hi' : Int} (h : VecIn v lo hi) (hh : hi ≤ hi') : VecIn v lo hi' :=
  fun x hx => ⟨(h x hx).1, Int.le_trans (h x hx).2 hh⟩

theorem next_obsOK (cfg : Cfg) (s : State) (a : List Int) (h : SInv cfg s) (ha : ActIn cfg a) :
    ObsOK cfg (obsOf (next cfg s a)) := by
  have hb := step_binv cfg s a h.1 ha
  refine ⟨h.2.1, h.1.1, h.2.2, h.1.2.1, ?_, ?_, hb.2.2.1, ?_, vecIn_mono hb.2.2.2 (by omega), ?_⟩
  · refine ⟨by simp [obsOf, next, updMask], ?_⟩
    intro row hrow
    simp only [obsOf, next, updMask, List.mem_map, List.mem_range] at hrow
    obtain ⟨j, _, rfl⟩ := hrow
    simp
  · simp [obsOf, next, updJob]
  · simp [obsOf, next, updRem]
  · exact createActionMask_rect cfg _ _ _ _

theorem init_obsOK (cfg : Cfg) (mid dur : List (List Int)) (h : validDraw cfg mid dur) :
    ObsOK cfg (obsOf (initState cfg mid dur)) := by
  have hb := reset_binv cfg mid dur h
  refine ⟨⟨h.1, h.2.2.1⟩, h.2.2.2.2.1, ⟨h.2.1, h.2.2.2.1⟩, h.2.2.2.2.2, ?_, ?_, hb.2.2.1, ?_,
    vecIn_mono hb.2.2.2 (by omega), ?_⟩
  · refine ⟨by simp [obsOf, initState, h.1], ?_⟩
    intro row hrow
    simp only [obsOf, initState, List.mem_map] at hrow
    obtain ⟨r, hr, rfl⟩ := hrow
    simp [h.2.2.1 r hr]
  · simp [obsOf, initState]
  · simp [obsOf, initState]
  · exact createActionMask_rect cfg _ _ _ _

/-- C01: the `reset` observation is a member of `observation_spec`, for every valid instance of every configuration with
at least one job and one machine -/
theorem reset_obs_valid (cfg : Cfg) (hJ : 0 < cfg.J) (hM : 0 < cfg.M) (mid dur : List (List Int))
    (h : validDraw cfg mid dur) : (obsSpec cfg).valid (toNValue (reset cfg mid dur).2.obs) = true := by
  have : (reset cfg mid dur).2.obs = obsOf (initState cfg mid dur) := rfl
  rw [this]
  exact obs_valid cfg hJ hM _ (init_obsOK cfg mid dur h)

/-- C01: the observation of EVERY step with an action whose entries are job ids or the no-op (every action of the action
spec), valid or not, MID or LAST -/
theorem step_obs_valid (cfg : Cfg) (hJ : 0 < cfg.J) (hM : 0 < cfg.M) (s : State) (a : List Int) (h : SInv cfg s)
    (ha : ActIn cfg a) : (obsSpec cfg).valid (toNValue (step cfg s a).2.obs) = true := by
  rw [step_obs]
  exact obs_valid cfg hJ hM _ (next_obsOK cfg s a h ha)

/-- whole episodes: every observation of the rollout (`Ep.rollout` = the L1 step iterated, through LAST and beyond) of ANY
in-spec actions from the `reset` state of any valid instance is a member of the spec -/
theorem rollout_obs_valid (cfg : Cfg) (hJ : 0 < cfg.J) (hM : 0 < cfg.M) (mid dur : List (List Int))
    (h : validDraw cfg mid dur) (as : List (List Int)) (has : ∀ a ∈ as, ActIn cfg a) (j : Nat)
    (e : State × TimeStep Obs) (he : (Ep.rollout (step cfg) (reset cfg mid dur).1 as)[j]? = some e) :
    (obsSpec cfg).valid (toNValue e.2.obs) = true := by
  obtain ⟨s', a, hinv, ha, rfl⟩ := rollout_inv_idx (step cfg) (fun _ s => SInv cfg s) (ActIn cfg)
    (fun _ s a h ha => step_sinv cfg s a h ha) 0 _ (reset_sinv cfg mid dur h) as has j e he
  exact step_obs_valid cfg hJ hM s' a hinv ha

/-- the generator's output is a valid instance in the sense of `validDraw` -/
theorem generate_validDraw (cfg : Cfg) (midDraw durDraw : List (List Int)) (numOps : List Int)
    (h : validGenDraw cfg midDraw durDraw numOps) :
    validDraw cfg (genPad cfg midDraw numOps) (genPad cfg durDraw numOps) := by
  obtain ⟨h1, h2, _⟩ := h
  refine ⟨by simp [genPad], by simp [genPad], ?_, ?_, ?_, ?_⟩
  · intro row hrow
    simp only [genPad, List.mem_map, List.mem_range] at hrow
    obtain ⟨j, _, rfl⟩ := hrow; simp
  · intro row hrow
    simp only [genPad, List.mem_map, List.mem_range] at hrow
    obtain ⟨j, _, rfl⟩ := hrow; simp
  · intro row hrow x hx
    simp only [genPad, List.mem_map, List.mem_range] at hrow
    obtain ⟨j, hj, rfl⟩ := hrow
    simp only [List.mem_map, List.mem_range] at hx
    obtain ⟨k, hk, rfl⟩ := hx
    have := h1 j hj k hk
    split <;> omega
  · intro row hrow x hx
    simp only [genPad, List.mem_map, List.mem_range] at hrow
    obtain ⟨j, hj, rfl⟩ := hrow
    simp only [List.mem_map, List.mem_range] at hx
    obtain ⟨k, hk, rfl⟩ := hx
    have := h2 j hj k hk
    split <;> omega

/-! ### reward, discount, action spec -/

theorem step_protocol (cfg : Cfg) (s : State) (a : List Int) : StepOK none false (step cfg s a).2 = true := by
  unfold step; exact condLast_stepOK _ _ _

theorem step_reward_discount_valid (cfg : Cfg) (s : State) (a : List Int) :
    rewardSpec.valid (scalarArr (step cfg s a).2.reward) = true ∧
    discountSpec.valid (scalarArr (step cfg s a).2.discount) = true :=
  stepOK_reward_discount_valid false _ (step_protocol cfg s a)

theorem reset_reward_discount_valid (cfg : Cfg) (mid dur : List (List Int)) :
    rewardSpec.valid (scalarArr (reset cfg mid dur).2.reward) = true ∧
    discountSpec.valid (scalarArr (reset cfg mid dur).2.discount) = true := by
  unfold reset; simp only [restart]; exact ⟨by decide, by decide⟩

/-- `action_spec.generate_value()` is the all-zero vector (job 0 on every machine) -/
theorem actionSpec_generate (cfg : Cfg) : (actionSpec cfg).generate = actionArr cfg (List.replicate cfg.M 0) := by
  simp [actionSpec, Leaf.generate, Leaf.lower, Leaf.shape, Leaf.dtype, actionArr, ofInts]

theorem actionSpec_WF (cfg : Cfg) (hbig : cfg.J < 2147483648) : (actionSpec cfg).WF = true := by
  have fitsI : ∀ z : Int, -2147483648 ≤ z → z ≤ 2147483647 → DType.int32.fits ((z : Int) : Rat) = true := by
    intro z h1 h2; simp [DType.fits, DType.intRange, Rat.den_intCast, Rat.num_intCast, h1, h2]
  have hd : DType.int32.fits (((((cfg.J + 1 : Nat)) : Int) - 1 : Int) : Rat) = true := fitsI _ (by omega) (by omega)
  simp only [actionSpec, Leaf.WF, Leaf.WF0, Leaf.fitsDType, List.all_replicate, hd]
  simp [prod, DType.isInt]

/-- membership in `action_spec` is exactly `InSpec`: one value in `[0, J]` per machine -/
theorem actionSpec_valid_iff (cfg : Cfg) (a : List Int) :
    (actionSpec cfg).valid (actionArr cfg a) = true ↔ InSpec cfg a := by
  rw [Leaf.valid_iff]
  simp only [actionSpec, Leaf.shape, Leaf.dtype, Leaf.lower, Leaf.upper, actionArr, prod_one, ofInts_length]
  constructor
  · rintro ⟨_, _, hl, h⟩
    rcases h with ⟨h, _⟩ | ⟨lo, hi, hlo, hhi, hall⟩
    · simp at h
    · simp only [Option.some.injEq] at hlo hhi
      subst hlo; subst hhi
      refine ⟨hl, fun m hm => ?_⟩
      have := hall m (by omega) (by simp; omega)
      simp only [ofInts, List.getElem_map, List.getElem_zip, List.map_replicate, List.getElem_replicate] at this
      have e : actAt a m = a[m]'(by omega) := by simp [actAt, List.getD, hl ▸ hm]
      rw [e]
      have h1 : ((0 : Int) : Rat) ≤ ((a[m]'(by omega) : Int) : Rat) := by simpa using this.1
      have h2 := this.2
      have h1' := Rat.intCast_le_intCast.mp h1
      have h2' := Rat.intCast_le_intCast.mp h2
      omega
  · rintro ⟨hl, h⟩
    refine ⟨trivial, trivial, hl, Or.inr ⟨_, _, rfl, rfl, ?_⟩⟩
    intro m h1 h2
    have hm : m < cfg.M := by omega
    simp only [ofInts, List.getElem_map, List.getElem_zip, List.map_replicate, List.getElem_replicate]
    have e : actAt a m = a[m]'(by omega) := by simp [actAt, List.getD, hl ▸ hm]
    have := h m hm
    rw [e] at this
    refine ⟨?_, Rat.intCast_le_intCast.mpr (by omega)⟩
    have : ((0 : Int) : Rat) ≤ ((a[m]'(by omega) : Int) : Rat) := Rat.intCast_le_intCast.mpr this.1
    simpa using this

theorem generate_inSpec (cfg : Cfg) : InSpec cfg (List.replicate cfg.M 0) := by
  refine ⟨by simp, fun m hm => ?_⟩
  simp [actAt, List.getD, hm]

/-! ### C04: what `step` does with an action, stated on the outputs of `step` -/

theorem step_last_iff (cfg : Cfg) (s : State) (a : List Int) :
    (step cfg s a).2.stepType = .last ↔
      (invalid cfg s a = true ∨ allIdle cfg (next cfg s a) = true ∨ finished cfg (next cfg s a) = true) := by
  unfold step condLast termination transition
  simp only []
  cases invalid cfg s a <;> cases allIdle cfg (next cfg s a) <;> cases finished cfg (next cfg s a) <;> simp

/-- on a state of legal play, for every in-spec joint action: the emitted timestep is LAST exactly when the rules forbid the
action, or all machines are idle afterwards, or the schedule is finished — so the environment ends an unfinished, non-idle
episode exactly for illegal actions -/
theorem step_last_iff_rules (cfg : Cfg) (s : State) (a : List Int) (hI : Inv cfg s) (hC : s.amask = maskOf cfg s)
    (hA : InSpec cfg a) :
    (step cfg s a).2.stepType = .last ↔
      (¬ legalAction cfg s a ∨ allIdle cfg (next cfg s a) = true ∨ finished cfg (next cfg s a) = true) := by
  rw [step_last_iff]
  have := invalid_iff cfg s a hI hC hA
  constructor
  · rintro (h | h | h)
    · left; intro hl; rw [this.2 hl] at h; cases h
    · exact Or.inr (Or.inl h)
    · exact Or.inr (Or.inr h)
  · rintro (h | h | h)
    · left
      cases hv : invalid cfg s a with
      | true => rfl
      | false => exact absurd (this.1 hv) h
    · exact Or.inr (Or.inl h)
    · exact Or.inr (Or.inr h)

/-! ### C12: the reset observation -/

theorem reset_obs_faithful (cfg : Cfg) (mid dur : List (List Int)) :
    (reset cfg mid dur).2.obs = observe cfg (reset cfg mid dur).1 := by
  show obsOf (initState cfg mid dur) = observe cfg (initState cfg mid dur)
  unfold obsOf observe
  rw [cached_mask_init]

/-! ### C11: the structural horizon for WHOLE in-spec plays -/

/-- an in-spec play none of whose timesteps is LAST is legal, never-idle play (`Survives`) -/
theorem survives_of_no_last (cfg : Cfg) (as : List (List Int)) : ∀ (s : State), Inv cfg s → s.amask = maskOf cfg s →
    (∀ a ∈ as, InSpec cfg a) → (∀ e ∈ Ep.rollout (step cfg) s as, e.2.stepType ≠ .last) → Survives cfg s as := by
  induction as with
  | nil => intro _ _ _ _ _; trivial
  | cons a as ih =>
    intro s hI hC hin hnl
    have hA := hin a (by simp)
    have h0 : (step cfg s a).2.stepType ≠ .last := hnl _ (by simp [Ep.rollout])
    have hr := step_last_iff_rules cfg s a hI hC hA
    have hL : legalAction cfg s a := by
      by_cases hL : legalAction cfg s a
      · exact hL
      · exact absurd (hr.2 (Or.inl hL)) h0
    have hidle : allIdle cfg (next cfg s a) = false := by
      cases h : allIdle cfg (next cfg s a) with
      | false => rfl
      | true => exact absurd (hr.2 (Or.inr (Or.inl h))) h0
    refine ⟨hL, hidle, ih (next cfg s a) (inv_next cfg s a hI hL) (cached_mask_step cfg s a)
      (fun b hb => hin b (by simp [hb])) (fun e he => hnl e ?_)⟩
    simp only [Ep.rollout, List.mem_cons]
    exact Or.inr he

/-- C11 (episode level): from the reset state of ANY generated instance, an in-spec play (legal or not) that has not yet
produced a LAST timestep has at most `J·O·D` steps — every episode ends within `J·O·D + 1` steps -/
theorem episode_horizon (cfg : Cfg) (s : State) (hg : GenCert cfg s) (as : List (List Int))
    (hin : ∀ a ∈ as, InSpec cfg a) (hnl : ∀ e ∈ Ep.rollout (step cfg) s as, e.2.stepType ≠ .last) :
    as.length ≤ cfg.J * cfg.O * cfg.D := by
  have hc := cert_state cfg s hg
  have hi := cert_instance cfg s hg
  have hsv := survives_of_no_last cfg as s hc.2.1 hc.2.2 hin hnl
  have h1 := horizon cfg as s hc.2.1 hi.2.1 hsv
  have h2 := timeLeft_init_le cfg s hi.2.1 (by
    intro j hj k hk hs
    have hsch : s.schedAt j k = -1 := by
      obtain ⟨_, _, _, _, hsched, _⟩ := hg
      unfold State.schedAt at2
      rw [hsched]
      simp [List.getD, hj, hk]
    exact hs.2 hsch)
  omega

/-- a generated instance with at least one job is not finished (job 0 has an op to schedule) -/
theorem generated_unfinished (cfg : Cfg) (hJ : 0 < cfg.J) (s : State) (hg : GenCert cfg s) : finished cfg s = false := by
  obtain ⟨hS, hrows, _⟩ := hg
  obtain ⟨p, _, hp1, hrow⟩ := hrows 0 hJ
  have hO : 0 < cfg.O := by
    rcases Nat.eq_zero_or_pos cfg.O with h | h
    · omega
    · exact h
  have hm : s.maskAt 0 0 = true := ((hrow 0 hO).1 (by omega)).2.2.2.2
  unfold State.maskAt at2 at hm
  unfold finished
  have : (s.opsMask.any fun row => row.any id) = true := by
    rw [List.any_eq_true]
    have hl : 0 < s.opsMask.length := by rw [hS.2.2.1]; exact hJ
    refine ⟨s.opsMask[0], List.getElem_mem hl, ?_⟩
    rw [List.any_eq_true]
    have e1 : s.opsMask.getD 0 [] = s.opsMask[0] := by simp [List.getD, hl]
    rw [e1] at hm
    have hl2 : 0 < (s.opsMask[0]).length := by
      rcases Nat.eq_zero_or_pos (s.opsMask[0]).length with h | h
      · simp [List.getD, h] at hm
      · exact h
    refine ⟨(s.opsMask[0])[0], List.getElem_mem hl2, ?_⟩
    have e2 : (s.opsMask[0]).getD 0 false = (s.opsMask[0])[0] := by simp [List.getD, hl2]
    rw [e2] at hm
    simpa using hm
  simp [this]

/-! ### audit r5 #4: LAST at the level of the rules -/

theorem step_last_iff_rules' (cfg : Cfg) (s : State) (a : List Int) (hI : Inv cfg s)
    (hC : s.amask = maskOf cfg s) (hA : InSpec cfg a) :
    (step cfg s a).2.stepType = .last ↔
      (¬ legalAction cfg s a ∨ idleSpec cfg (step cfg s a).1 ∨
        (legalAction cfg s a ∧ completeSpec cfg (step cfg s a).1)) := by
  rw [step_last_iff_rules cfg s a hI hC hA, step_fst]
  by_cases hL : legalAction cfg s a
  · have hI' := inv_next cfg s a hI hL
    rw [idleSpec_iff, completeSpec_iff cfg _ hI']
    simp [hL]
  · simp [hL]

end JobShop
